(* C10 — proofs about C10/Model.v *)
From Coq Require Import List NArith ZArith Bool String Ascii Lia Reals Lra.
From T4V Require Import Base.Str Base.Scalar C10.Model.
Import ListNotations.
Open Scope string_scope.

(* ------------------------------------------------------------------ *)
(* Abstract material card: what MCNP means by the card                 *)
(* ------------------------------------------------------------------ *)
Record nuclide := mkNuc {
  nz : N;                 (* atomic number *)
  na : N;                 (* mass number, 0 = natural element *)
  nsuf : option string;   (* library suffix after the '.', if any *)
  nneg : bool;            (* fraction written with a leading minus (mass fraction) *)
  nfrac : string          (* the fraction's spelling without its sign *)
}.
Inductive item := INuc (n : nuclide) | IKey (k : string).

Definition zaid (n : nuclide) : string := dec (nz n) ++ pad3 (na n).
Definition nuc_token (n : nuclide) : string :=
  zaid n ++ match nsuf n with Some s => String "." s | None => "" end.
Definition frac_token (n : nuclide) : string :=
  if nneg n then String "-" (nfrac n) else nfrac n.
Definition render_item (it : item) : list string :=
  match it with
  | INuc n => [nuc_token n; frac_token n]
  | IKey k => [k]
  end.
Definition render (items : list item) : list string := flat_map render_item items.

Fixpoint nuclides (items : list item) : list nuclide :=
  match items with
  | [] => []
  | INuc n :: r => n :: nuclides r
  | IKey _ :: r => nuclides r
  end.

Definition first_char_ok (s : string) : bool :=
  match s with
  | String c _ => negb (Ascii.eqb c "-") && negb (Ascii.eqb c " ")
  | EmptyString => true
  end.

Definition wf_nuclide (n : nuclide) : Prop :=
  (1 <= nz n <= 118)%N /\ (na n <= 999)%N /\
  match nsuf n with Some s => contains_char "=" s = false | None => True end /\
  first_char_ok (nfrac n) = true.

Definition wf_item (it : item) : Prop :=
  match it with
  | INuc n => wf_nuclide n
  | IKey k => contains_char "=" k = true
  end.

(* what the composition must list for a nuclide *)
Definition spec_name (n : nuclide) : string :=
  symbol (nz n) ++ (if (na n =? 0)%N then "-NAT" else dec (na n)).
Definition spec_entry (n : nuclide) : string * string := (spec_name n, nfrac n).

(* ------------------------------------------------------------------ *)
(* ZAID splitting on the finite domain Z in [1,118], A in [0,999]      *)
(* ------------------------------------------------------------------ *)
Definition zaid_of (z a : N) : string := dec z ++ pad3 a.

Definition res_eqb (r : res (N * N)) (z a : N) : bool :=
  match r with Ok (z', a') => (z' =? z)%N && (a' =? a)%N | Err _ => false end.

Definition zaid_check (z a : N) : bool :=
  negb (contains_char "." (zaid_of z a)) && negb (contains_char "=" (zaid_of z a))
  && res_eqb (convert_isotope (zaid_of z a)) z a.

Definition Nrange (lo : N) (n : nat) : list N := map (fun k => (lo + N.of_nat k)%N) (seq 0 n).

Lemma Nrange_in lo n x : (lo <= x < lo + N.of_nat n)%N -> In x (Nrange lo n).
Proof.
  intros H. unfold Nrange. apply in_map_iff. exists (N.to_nat (x - lo)). split; [lia|].
  apply in_seq. lia.
Qed.

Lemma zaid_domain_checked :
  forallb (fun z => forallb (zaid_check z) (Nrange 0 1000)) (Nrange 1 118) = true.
Proof. vm_compute. reflexivity. Qed.

Lemma zaid_check_all z a : (1 <= z <= 118)%N -> (a <= 999)%N -> zaid_check z a = true.
Proof.
  intros Hz Ha.
  pose proof zaid_domain_checked as H.
  rewrite forallb_forall in H. specialize (H z (Nrange_in 1 118 z ltac:(lia))).
  rewrite forallb_forall in H. apply H. apply Nrange_in. lia.
Qed.

Lemma zaid_split z a : (1 <= z <= 118)%N -> (a <= 999)%N ->
  convert_isotope (zaid_of z a) = Ok (z, a) /\
  contains_char "." (zaid_of z a) = false /\ contains_char "=" (zaid_of z a) = false.
Proof.
  intros Hz Ha. pose proof (zaid_check_all z a Hz Ha) as H. unfold zaid_check in H.
  apply andb_prop in H. destruct H as [H H3]. apply andb_prop in H. destruct H as [H1 H2].
  apply negb_true_iff in H1. apply negb_true_iff in H2.
  repeat split; auto.
  unfold res_eqb in H3. destruct (convert_isotope (zaid_of z a)) as [[z' a']|]; [|discriminate].
  apply andb_prop in H3. destruct H3 as [E1 E2]. apply N.eqb_eq in E1. apply N.eqb_eq in E2.
  congruence.
Qed.

(* the symbol table has 118 distinct entries *)
Lemma symbols_length : List.length symbols = 118%nat.
Proof. reflexivity. Qed.
Lemma symbols_nodup : NoDup symbols.
Proof.
  assert (H : forall l : list string, (fix nd (l : list string) : bool :=
     match l with [] => true | x :: r => negb (existsb (String.eqb x) r) && nd r end) l = true -> NoDup l).
  { induction l as [|x r IH]; intros Hl; constructor.
    - apply andb_prop in Hl. destruct Hl as [Hx _]. apply negb_true_iff in Hx.
      intros Hin. assert (existsb (String.eqb x) r = true) as E.
      { apply existsb_exists. exists x. split; [assumption|apply String.eqb_refl]. }
      congruence.
    - apply IH. apply andb_prop in Hl. tauto. }
  apply H. vm_compute. reflexivity.
Qed.

(* ------------------------------------------------------------------ *)
(* Cards                                                                *)
(* ------------------------------------------------------------------ *)
Lemma contains_char_app c s t : contains_char c (s ++ t) = contains_char c s || contains_char c t.
Proof. induction s as [|d r IH]; simpl; [reflexivity|]. rewrite IH. apply orb_assoc. Qed.

Lemma append_nil_r_local (s : string) : s ++ "" = s.
Proof. induction s as [|c r IH]; simpl; [reflexivity|now rewrite IH]. Qed.

Lemma nuc_token_facts n : wf_nuclide n ->
  contains_char "=" (nuc_token n) = false /\ take_until "." (nuc_token n) = zaid n.
Proof.
  intros (Hz & Ha & Hs & _). destruct (zaid_split (nz n) (na n) Hz Ha) as (_ & Hdot & Heq).
  unfold nuc_token, zaid in *. fold (zaid_of (nz n) (na n)) in *. destruct (nsuf n) as [s|].
  - split.
    + rewrite contains_char_app, Heq. simpl. exact Hs.
    + apply take_until_app. exact Hdot.
  - rewrite append_nil_r_local. split; [exact Heq|apply take_until_none; exact Hdot].
Qed.


Definition signed_pair (n : nuclide) : string * string := (zaid n, frac_token n).

Lemma pairs_render items : Forall wf_item items ->
  pairs (render items) = Ok (map signed_pair (nuclides items)).
Proof.
  induction items as [|it r IH]; intros Hwf; [reflexivity|].
  inversion Hwf as [|? ? Hit Hr]; subst. specialize (IH Hr).
  destruct it as [n|k]; cbn [render flat_map render_item app nuclides map].
  - destruct (nuc_token_facts n Hit) as [He Ht].
    cbn [pairs]. rewrite He. fold (render r). rewrite IH, Ht. reflexivity.
  - cbn [pairs]. cbn in Hit. rewrite Hit. fold (render r). exact IH.
Qed.

Lemma is_negative_frac n : wf_nuclide n -> is_negative (frac_token n) = nneg n.
Proof.
  intros (_ & _ & _ & Hf). unfold frac_token, is_negative. destruct (nneg n); [reflexivity|].
  destruct (nfrac n) as [|c s]; [reflexivity|]. cbn in Hf. apply andb_prop in Hf.
  destruct Hf as [H1 H2]. apply negb_true_iff in H1. apply negb_true_iff in H2.
  assert (lstrip (String c s) = String c s) as ->.
  { destruct c as [[] [] [] [] [] [] [] []]; try reflexivity. discriminate H2. }
  cbn [starts_with_char]. rewrite Ascii.eqb_sym. exact H1.
Qed.

Lemma str_fabs_frac n : wf_nuclide n -> str_fabs (frac_token n) = nfrac n.
Proof.
  intros (_ & _ & _ & Hf). unfold frac_token, str_fabs. destruct (nneg n); [reflexivity|].
  destruct (nfrac n) as [|c s]; [reflexivity|]. cbn in Hf. apply andb_prop in Hf.
  destruct Hf as [H1 _]. apply negb_true_iff in H1.
  destruct c as [[] [] [] [] [] [] [] []]; try reflexivity. discriminate.
Qed.

Lemma convert_isotope_zaid n : wf_nuclide n -> convert_isotope (zaid n) = Ok (nz n, na n).
Proof. intros (Hz & Ha & _). apply (zaid_split _ _ Hz Ha). Qed.

(* all nuclides carry the sign [neg] *)
Lemma convert_entries_same_sign (ns : list nuclide) (neg : bool) (atom : option bool) :
  Forall wf_nuclide ns -> Forall (fun n => nneg n = neg) ns ->
  (atom = None \/ atom = Some (negb neg)) ->
  convert_entries (map signed_pair ns) atom =
  Ok (map spec_entry ns, match ns with [] => atom | _ => Some (negb neg) end).
Proof.
  revert atom. induction ns as [|n r IH]; intros atom Hwf Hs Hat; [reflexivity|].
  inversion Hwf as [|? ? Hn Hr]; subst. inversion Hs as [|? ? Hsn Hsr]; subst.
  cbn [map signed_pair convert_entries]. rewrite (is_negative_frac n Hn).
  assert (match atom with Some b => negb (Bool.eqb b (negb (nneg n))) | None => false end = false) as ->.
  { destruct Hat as [->| ->]; [reflexivity|]. now rewrite Bool.eqb_reflx. }
  rewrite (convert_isotope_zaid n Hn). rewrite (IH (Some (negb (nneg n))) Hr Hsr (or_intror eq_refl)).
  rewrite (str_fabs_frac n Hn). unfold spec_entry at 2, spec_name, isotope_name.
  destruct r; reflexivity.
Qed.

Theorem card_converted items neg :
  Forall wf_item items -> Forall (fun n => nneg n = neg) (nuclides items) ->
  convert_card (render items) =
  Ok (map spec_entry (nuclides items),
      match nuclides items with [] => None | _ => Some (negb neg) end).
Proof.
  intros Hwf Hs. unfold convert_card. rewrite (pairs_render items Hwf).
  assert (Forall wf_nuclide (nuclides items)) as Hn.
  { clear Hs. induction items as [|[n|k] r IH]; cbn [nuclides]; inversion Hwf; subst; auto. }
  rewrite (convert_entries_same_sign _ neg None Hn Hs (or_introl eq_refl)).
  destruct (nuclides items); reflexivity.
Qed.

(* a card that mixes signs is rejected, whatever else it contains *)
Lemma convert_entries_clash (ns : list nuclide) (b : bool) :
  Forall wf_nuclide ns -> Exists (fun n => nneg n = b) ns ->
  exists e, convert_entries (map signed_pair ns) (Some b) = Err e.
Proof.
  induction ns as [|n r IH]; intros Hwf Hex; [inversion Hex|].
  inversion Hwf as [|? ? Hn Hr]; subst.
  cbn [map signed_pair convert_entries]. rewrite (is_negative_frac n Hn).
  destruct (Bool.eqb b (negb (nneg n))) eqn:E; cbn [negb].
  - apply Bool.eqb_prop in E. subst b. rewrite (convert_isotope_zaid n Hn).
    inversion Hex as [? ? Hhere|? ? Hlater]; subst.
    + destruct (nneg n); discriminate.
    + destruct (IH Hr Hlater) as [e He]. rewrite He. eauto.
  - eauto.
Qed.

Theorem mixed_signs_rejected items :
  Forall wf_item items ->
  (exists n1 n2, In n1 (nuclides items) /\ In n2 (nuclides items) /\ nneg n1 <> nneg n2) ->
  exists e, convert_card (render items) = Err e.
Proof.
  intros Hwf (n1 & n2 & H1 & H2 & Hne). unfold convert_card. rewrite (pairs_render items Hwf).
  assert (Forall wf_nuclide (nuclides items)) as Hn.
  { clear H1 H2. induction items as [|[n|k] r IH]; cbn [nuclides]; inversion Hwf; subst; auto. }
  destruct (nuclides items) as [|n r]; [inversion H1|].
  inversion Hn as [|? ? Hwn Hwr]; subst.
  cbn [map signed_pair convert_entries]. rewrite (is_negative_frac n Hwn).
  rewrite (convert_isotope_zaid n Hwn).
  (* some later nuclide has the sign opposite to the first one *)
  assert (Exists (fun m => nneg m = negb (negb (negb (nneg n)))) r) as Hex.
  { rewrite negb_involutive. apply Exists_exists.
    destruct H1 as [<-|H1]; destruct H2 as [<-|H2].
    - congruence.
    - exists n2. split; [assumption|]. destruct (nneg n), (nneg n2); try reflexivity; congruence.
    - exists n1. split; [assumption|]. destruct (nneg n), (nneg n1); try reflexivity; congruence.
    - destruct (Bool.bool_dec (nneg n1) (nneg n)) as [E|E].
      + exists n2. split; [assumption|]. destruct (nneg n), (nneg n1), (nneg n2); try reflexivity; congruence.
      + exists n1. split; [assumption|]. destruct (nneg n), (nneg n1); try reflexivity; congruence. }
  rewrite negb_involutive in Hex.
  destruct (convert_entries_clash r (negb (nneg n)) Hwr Hex) as [e He]. rewrite He. eauto.
Qed.

(* ------------------------------------------------------------------ *)
(* Numeric half over the reals                                          *)
(* ------------------------------------------------------------------ *)
Open Scope R_scope.

Lemma ssum_map_div (l : list R) (c t : R) :
  ssum RS (map (fun f => f * c / t) l) = ssum RS l * c / t.
Proof.
  unfold ssum. cbn [sadd s0 RS].
  induction l as [|x r IH]; cbn [map fold_right].
  - unfold Rdiv. ring.
  - rewrite IH. unfold Rdiv. ring.
Qed.

Theorem rescale_sum (fracs : list R) (rho : R) :
  ssum RS fracs <> 0 -> ssum RS (rescale RS fracs rho) = rho.
Proof.
  intros Hne. unfold rescale. cbn [sdiv smul RS]. rewrite ssum_map_div. field. exact Hne.
Qed.

Theorem rescale_proportional (fracs : list R) (rho : R) (i j : nat) :
  ssum RS fracs <> 0 ->
  nth i (rescale RS fracs rho) 0 * nth j fracs 0 = nth j (rescale RS fracs rho) 0 * nth i fracs 0.
Proof.
  intros Hne. unfold rescale. cbn [sdiv smul RS].
  set (g := fun f => f * rho / ssum RS fracs).
  assert (g 0 = 0) as G0 by (unfold g, Rdiv; ring).
  assert (H : forall k, nth k (map g fracs) 0 = g (nth k fracs 0)).
  { intros k. transitivity (nth k (map g fracs) (g 0)); [now rewrite G0 | apply map_nth]. }
  rewrite !H. unfold g, Rdiv. ring.
Qed.

Theorem rescale_length (fracs : list R) rho : List.length (rescale RS fracs rho) = List.length fracs.
Proof. unfold rescale. apply map_length. Qed.

(* block kind: negative density -> mass-density block listing the card's
   absolute values, NB_ATOM iff entries positive; otherwise concentrations *)
Theorem block_negative_density names atom fracs (rho : R) :
  rho < 0 -> block_of RS names atom fracs rho = BDensity atom names.
Proof. intros H. unfold block_of. cbn [sltb s0 RS]. apply Rltb_true in H. now rewrite H. Qed.

Theorem block_atom_density names fracs (rho : R) :
  0 <= rho -> block_of RS names true fracs rho = BPointWise (combine names (rescale RS fracs rho)).
Proof. intros H. unfold block_of. cbn [sltb s0 RS]. apply Rltb_false in H. now rewrite H. Qed.
