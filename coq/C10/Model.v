(* C10 — model of the material-card path, as the code DOES it:
     MIP/mip/datacard.py split (re_data)                [data_split]
     MIP/geom/composition.py get_material_composition   [material_head, get_materials]
     Composition/CCompositionMCNP.py                    [pairs]
     Composition/ConvertIsotope.py + the two enums      [atomic_value, element_name, convert_isotope]
     Composition/CompositionConversionMCNPToT4.py       [convert_entries, convert_card, convert_all, str_fabs]
     Composition/ConstructCompositionT4.py              [live, extract, rescale, scan, construct]
     FileHandlers/Writer/WriteT4Composition.py          [header_line, block_lines, composition_lines]
   Executable; proofs live in C10/Proofs*.v.  Numbers: the code's
   float(normalize_float(s)), normalize_float(s) and f'{x:.15e}' are
   parameters [fval], [norm], [rend] of the model (normalize_float itself is
   C09's); everything else is computed here. *)
From Coq Require Import List NArith ZArith Bool String Ascii.
From T4V Require Import Base.Str Base.Scalar.
Import ListNotations.
Open Scope string_scope.

(* Python exception classes the path can raise *)
Inductive err := EIndex | EValue | EAttribute | EMixedSigns | EType | EZeroDiv.
Inductive res (A : Type) := Ok (a : A) | Err (e : err).
Arguments Ok {A}. Arguments Err {A}.

Definition bind {A B} (r : res A) (f : A -> res B) : res B :=
  match r with Ok a => f a | Err e => Err e end.

Fixpoint mapM {A B} (f : A -> res B) (l : list A) : res (list B) :=
  match l with
  | [] => Ok []
  | x :: r => match f x with
              | Err e => Err e
              | Ok y => match mapM f r with Ok ys => Ok (y :: ys) | Err e => Err e end
              end
  end.

(* ------------------------------------------------------------------ *)
(* characters and words                                                 *)
(* ------------------------------------------------------------------ *)
(* \s on the ASCII subset: blank, \t \n \v \f \r *)
Definition is_ws (c : ascii) : bool :=
  let n := N_of_ascii c in (n =? 32)%N || ((9 <=? n)%N && (n <=? 13)%N).
Definition is_alpha (c : ascii) : bool :=
  let n := N_of_ascii c in ((65 <=? n)%N && (n <=? 90)%N) || ((97 <=? n)%N && (n <=? 122)%N).
Definition is_star (c : ascii) : bool := Ascii.eqb c "*".
Definition not_digit (c : ascii) : bool := negb (is_digit c).

Definition lower_char (c : ascii) : ascii :=
  let n := N_of_ascii c in if ((65 <=? n)%N && (n <=? 90)%N) then ascii_of_N (n + 32) else c.
Fixpoint lower (s : string) : string :=
  match s with EmptyString => EmptyString | String c r => String (lower_char c) (lower r) end.

(* longest prefix whose characters satisfy p, and the rest (a greedy
   character-class star of a regular expression) *)
Fixpoint span (p : ascii -> bool) (s : string) : string * string :=
  match s with
  | EmptyString => (EmptyString, EmptyString)
  | String c r => if p c then let (a, b) := span p r in (String c a, b) else (EmptyString, s)
  end.

(* str.split(): maximal runs of non-blank characters *)
Fixpoint split_ws_aux (s : string) (cur : string) : list string :=
  (* cur = the current word so far *)
  match s with
  | EmptyString => match cur with EmptyString => [] | _ => [cur] end
  | String c r =>
      if is_ws c then match cur with EmptyString => split_ws_aux r EmptyString
                                   | _ => cur :: split_ws_aux r EmptyString end
      else split_ws_aux r (cur ++ String c EmptyString)
  end.
Definition split_ws (s : string) : list string := split_ws_aux s EmptyString.

(* ------------------------------------------------------------------ *)
(* data cards                                                           *)
(* ------------------------------------------------------------------ *)
(* datacard.split: re_data on the one-line content of a card, anchored at both
   ends: blanks; group 1 = stars, then one or more ASCII letters, then
   non-digits; group 2 = digits; group 3 = an optional star; group 4 = the
   rest.  Every class is disjoint from what must follow it or the next group
   may be empty, so the greedy match needs no backtracking.
   None = no match (the code then fails with AttributeError on m.groups()). *)
Definition data_split (txt : string) : option (string * string * string * string) :=
  let (_, s1) := span is_ws txt in
  let (stars, s2) := span is_star s1 in
  let (letters, s3) := span is_alpha s2 in
  match letters with
  | EmptyString => None
  | _ =>
      let (nondig, s4) := span not_digit s3 in
      let (digits, s5) := span is_digit s4 in
      let (star, s6) := match s5 with
                        | String "*" r => ("*", r)
                        | _ => (EmptyString, s5)
                        end in
      Some (stars ++ letters ++ nondig, digits, star, s6)
  end.

(* Card.parts() of a data card + the test of get_material_composition:
   dtype = star + typ; a material card iff dtype.lower() == 'm'; then
   name = int(name) (ValueError on ''), params = params.split() *)
Definition material_head (txt : string) : res (option (N * list string)) :=
  match data_split txt with
  | None => Err EAttribute
  | Some (typ, name, star, params) =>
      if String.eqb (lower (star ++ typ)) "m" then
        match int_of_string name with
        | None => Err EValue
        | Some n => Ok (Some (n, split_ws params))
        end
      else Ok None
  end.

(* OrderedDict assignment: a key seen before keeps its place *)
Fixpoint dict_set {V} (k : N) (v : V) (d : list (N * V)) : list (N * V) :=
  match d with
  | [] => [(k, v)]
  | (k', v') :: r => if (k =? k')%N then (k, v) :: r else (k', v') :: dict_set k v r
  end.

Fixpoint get_materials_from (cards : list string) (acc : list (N * list string))
  : res (list (N * list string)) :=
  match cards with
  | [] => Ok acc
  | c :: r => match material_head c with
              | Err e => Err e
              | Ok None => get_materials_from r acc
              | Ok (Some (n, toks)) => get_materials_from r (dict_set n toks acc)
              end
  end.
Definition get_materials (cards : list string) := get_materials_from cards [].

(* ------------------------------------------------------------------ *)
(* one card                                                             *)
(* ------------------------------------------------------------------ *)
(* CCompositionMCNP.__init__: tokens -> (isotope, fraction) pairs; a token
   containing '=' is a keyword and is skipped; the isotope loses its library
   suffix; a missing fraction is an IndexError *)
Fixpoint pairs (toks : list string) : res (list (string * string)) :=
  match toks with
  | [] => Ok []
  | iso :: rest =>
      if contains_char "=" iso then pairs rest
      else match rest with
           | [] => Err EIndex
           | frac :: rest' =>
               match pairs rest' with
               | Ok l => Ok ((take_until "." iso, frac) :: l)
               | Err e => Err e
               end
           end
  end.

(* the two enums, from the strings the code builds them from *)
Definition atomic_names : list string := split_ws
  ("1 2 3 4 5 6 7 8 9 10 11 12 13 14 15 16 17 18 19 20 21 22 23 24 " ++
   "25 26 27 28 29 30 31 32 33 34 35 36 37 38 39 40 " ++
   "41 42 43 44 45 46 47 48 49 50 51 52 53 54 55 56 " ++
   "57 58 59 60 61 62 63 64 65 66 67 68 69 70 71 72 " ++
   "73 74 75 76 77 78 79 80 81 82 83 84 85 86 87 88 " ++
   "89 90 91 92 93 94 95 96 97 98 99 100 101 102 103 " ++
   "104 105 106 107 108 109 110 111 112 113 114 115 " ++
   "116 117 118").
Definition element_names : list string := split_ws
  ("H HE LI BE B C N O F NE NA " ++
   "MG AL SI P S CL AR K CA SC TI V CR MN FE CO NI CU " ++
   "ZN GA GE AS SE BR KR RB SR Y ZR NB MO TC RU RH PD " ++
   "AG CD IN SN SB TE I XE CS BA LA CE PR ND PM SM EU " ++
   "GD TB DY HO ER TM YB LU HF TA W RE OS IR PT AU HG " ++
   "TL PB BI PO AT RN FR RA AC TH PA U NP PU AM CM BK " ++
   "CF ES FM MD NO LR RF DB SG BH HS MT DS RG CN NH " ++
   "FL MC LV TS OG").

Fixpoint index_of (s : string) (l : list string) (i : N) : option N :=
  match l with
  | [] => None
  | x :: r => if String.eqb s x then Some i else index_of s r (N.succ i)
  end.
(* getattr(EIsotopeAtomicNumber, name).value; None = AttributeError *)
Definition atomic_value (name : string) : option N := index_of name atomic_names 1%N.
(* EIsotopeNameElement(value).name; None = ValueError *)
Definition element_name (v : N) : option string :=
  if (v =? 0)%N then None else nth_error element_names (N.to_nat (v - 1)).

(* symbol by atomic number (used by the abstract reading of a card) *)
Definition symbol (z : N) : string := match element_name z with Some s => s | None => "?" end.

(* Python's int() on a token of a card (ASCII, no blank inside): an optional
   sign, then decimal digits with single underscores between digits *)
Fixpoint py_digits (s : string) (prev_digit : bool) (acc : N) : option N :=
  match s with
  | EmptyString => if prev_digit then Some acc else None
  | String c r =>
      if is_digit c then py_digits r true (acc * 10 + digit_val c)%N
      else if Ascii.eqb c "_" && prev_digit then py_digits r false acc
      else None
  end.
Definition py_int (s : string) : option Z :=
  match s with
  | String "+" r => option_map Z.of_N (py_digits r false 0%N)
  | String "-" r => option_map (fun n => (- Z.of_N n)%Z) (py_digits r false 0%N)
  | _ => option_map Z.of_N (py_digits s false 0%N)
  end.

(* convert_isotope: (enum value, str(int(last three characters))) *)
Definition convert_isotope (iso : string) : res (N * string) :=
  let iso := take_until "." iso in
  let n := length iso in
  let tail := if Nat.leb n 3 then iso else take_last 3 iso in
  let head := if Nat.leb n 3 then "" else drop_last 3 iso in
  match py_int tail with
  | None => Err EValue
  | Some a =>
      match py_int head with
      | None => Err EValue
      | Some z => match atomic_value (dec_Z z) with
                  | None => Err EAttribute
                  | Some v => Ok (v, dec_Z a)
                  end
      end
  end.

(* fraction sign test and str_fabs (tokens of split() carry no blanks and are
   not empty, so .strip() is the identity on them) *)
Definition is_negative (frac : string) : bool := starts_with_char "-" (lstrip frac).
Definition str_fabs (frac : string) : string :=
  match frac with String "-" r => r | _ => frac end.

(* compositionConversionMCNPToT4, the loop over one card: ((element, mass
   label), absolute fraction) and the atom_fracs flag (None for a card without
   nuclides); mass label '0' becomes '-NAT' *)
Definition iso_t4 := (string * string)%type.
Fixpoint convert_entries (l : list (string * string)) (atom : option bool)
  : res (list (iso_t4 * string) * option bool) :=
  match l with
  | [] => Ok ([], atom)
  | (iso, frac) :: r =>
      let positive := negb (is_negative frac) in
      let clash := match atom with Some b => negb (Bool.eqb b positive) | None => false end in
      if clash then Err EMixedSigns else
      match convert_isotope iso with
      | Err e => Err e
      | Ok (v, mass) =>
          match element_name v with
          | None => Err EValue
          | Some el =>
              let mass_t4 := if String.eqb mass "0" then "-NAT" else mass in
              match convert_entries r (Some positive) with
              | Err e => Err e
              | Ok (l', fl) => Ok (((el, mass_t4), str_fabs frac) :: l', fl)
              end
          end
      end
  end.

(* extract_isotopes_fractions: T4 nuclide names; a mass label starting with
   '0' is re-read as an integer *)
Definition isotope_name (i : iso_t4) : res string :=
  let (el, mass) := i in
  if starts_with_char "0" mass then
    match int_of_string mass with
    | Some k => Ok (el ++ dec k)
    | None => Err EValue
    end
  else Ok (el ++ mass).
Definition extract (l : list (iso_t4 * string)) : res (list (string * string)) :=
  mapM (fun e => match isotope_name (fst e) with Ok n => Ok (n, snd e) | Err x => Err x end) l.

(* one card up to the names (compositionConversionMCNPToT4 +
   extract_isotopes_fractions) *)
Definition card_out := res (list (string * string) * option bool).
Definition convert_card (toks : list string) : card_out :=
  match pairs toks with
  | Err e => Err e
  | Ok l => match convert_entries l None with
            | Err e => Err e
            | Ok (es, fl) => match extract es with Ok ns => Ok (ns, fl) | Err e => Err e end
            end
  end.

(* all the cards of the deck: parseMCNPComposition builds every
   CCompositionMCNP first, compositionConversionMCNPToT4 then converts every
   card — used by a cell or not *)
Definition abundances := (list (iso_t4 * string) * option bool)%type.
Definition convert_all (mats : list (N * list string)) : res (list (N * abundances)) :=
  bind (mapM (fun kv => match pairs (snd kv) with Ok l => Ok (fst kv, l) | Err e => Err e end) mats)
       (mapM (fun kv => match convert_entries (snd kv) None with
                        | Ok a => Ok (fst kv, a) | Err e => Err e end)).

(* ------------------------------------------------------------------ *)
(* cells, blocks, text                                                  *)
(* ------------------------------------------------------------------ *)
Section Numeric.
  Context {T : Type} (S : Scalar T).

  Definition ssum (l : list T) : T := fold_right (sadd S) (s0 S) l.

  (* conc_i = frac_i * concentration / total *)
  Definition rescale (fracs : list T) (conc : T) : list T :=
    let total := ssum fracs in
    map (fun f => sdiv S (smul S f conc) total) fracs.

  (* what constructCompositionT4 reads of a cell of the final dictionary *)
  Record cell := mkCell {
    c_imp : T;                 (* importance *)
    c_univ : Z;                (* universe *)
    c_filled : bool;           (* fillid is not None *)
    c_mat : Z;                 (* int(materialID) *)
    c_dens : option string     (* stored density string; None for a void cell *)
  }.

  Definition live (c : cell) : bool :=
    negb (sleb S (c_imp c) (s0 S)) && (c_univ c =? 0)%Z && negb (c_filled c).

  Inductive body :=
  | BStr (items : list (string * string))   (* amounts copied from the card *)
  | BNum (items : list (string * T)).       (* amounts computed *)

  Record block := mkBlock {
    b_pw : bool;               (* POINT_WISE (else DENSITY) *)
    b_mat : N;
    b_dens : string;           (* normalize_float(density) *)
    b_body : body;
    b_atom : option bool       (* atom_fracs of the card *)
  }.

  (* parameters: normalize_float, float(normalize_float(.)) with None for
     ValueError, and the '%.15e' rendering of the j-th amount of a block *)
  Context (norm : string -> string) (fval : string -> option T)
          (rend : string -> nat -> T -> string).

  Fixpoint all_some {A} (l : list (option A)) : option (list A) :=
    match l with
    | [] => Some []
    | None :: _ => None
    | Some x :: r => match all_some r with Some xs => Some (x :: xs) | None => None end
    end.

  (* rescale_fractions *)
  Definition rescale_entries (entries : list (string * string)) (conc : T)
    : res (list (string * T)) :=
    match all_some (map (fun e => fval (snd e)) entries) with
    | None => Err EValue
    | Some fs =>
        match fs with
        | [] => Ok []
        | _ => if seqb S (ssum fs) (s0 S) then Err EZeroDiv
               else Ok (combine (map fst entries) (rescale fs conc))
        end
    end.

  Definition mem (x : string) (l : list string) : bool := existsb (String.eqb x) l.

  (* the block written for a material used at density string d (value fd) *)
  Definition block_for (key : N) (entries : list (string * string)) (atom : option bool)
             (d : string) (fd : T) : res block :=
    if sltb S fd (s0 S) then Ok (mkBlock false key (norm d) (BStr entries) atom)
    else match atom with
         | Some true =>
             match rescale_entries entries fd with
             | Ok cs => Ok (mkBlock true key (norm d) (BNum cs) atom)
             | Err e => Err e
             end
         | _ => Ok (mkBlock true key (norm d) (BStr []) atom)   (* warning branch *)
         end.

  (* the loop over the cells for one material *)
  Fixpoint scan (key : N) (entries : list (string * string)) (atom : option bool)
           (cells : list cell) (seen : list string) : res (list block) :=
    match cells with
    | [] => Ok []
    | c :: r =>
        if negb (live c) then scan key entries atom r seen
        else if negb (c_mat c =? Z.of_N key)%Z then scan key entries atom r seen
        else match c_dens c with
             | None => Err EType
             | Some d =>
                 if mem d seen then scan key entries atom r seen
                 else match fval d with
                      | None => Err EValue
                      | Some fd =>
                          match block_for key entries atom d fd with
                          | Err e => Err e
                          | Ok b => match scan key entries atom r (d :: seen) with
                                    | Ok bs => Ok (b :: bs)
                                    | Err e => Err e
                                    end
                          end
                      end
             end
    end.

  (* constructCompositionT4: materials in card order, only those with blocks *)
  Fixpoint construct (mats : list (N * abundances)) (cells : list cell)
    : res (list (N * list block)) :=
    match mats with
    | [] => Ok []
    | (key, (isos, atom)) :: r =>
        match extract isos with
        | Err e => Err e
        | Ok entries =>
            match scan key entries atom cells [] with
            | Err e => Err e
            | Ok bs => match construct r cells with
                       | Err e => Err e
                       | Ok rest => match bs with [] => Ok rest | _ => Ok ((key, bs) :: rest) end
                       end
            end
        end
    end.

  (* writeT4Composition *)
  Definition block_name (b : block) : string := "m" ++ dec (b_mat b) ++ "_" ++ b_dens b.

  Definition body_items (b : block) : list (string * string) :=
    match b_body b with
    | BStr l => l
    | BNum l => map (fun ix => (fst (snd ix), rend (block_name b) (fst ix) (snd (snd ix))))
                    (combine (seq 0 (List.length l)) l)
    end.

  Definition header_line (b : block) : string :=
    let n := dec (N.of_nat (List.length (body_items b))) in
    if b_pw b then "POINT_WISE 300 " ++ block_name b ++ " " ++ n
    else "DENSITY 300 " ++ block_name b ++ " " ++ str_fabs (b_dens b) ++ " "
         ++ (match b_atom b with Some true => "NB_ATOM" | _ => "" end) ++ " " ++ n.

  Definition item_line (e : string * string) : string := "  " ++ fst e ++ " " ++ snd e.

  (* '\n  '.join(...) after a leading '\n  ': an empty list still gives one line *)
  Definition item_lines (l : list (string * string)) : list string :=
    match l with [] => ["  "] | _ => map item_line l end.

  Definition block_lines (b : block) : list string := header_line b :: item_lines (body_items b).

  Definition all_blocks (d : list (N * list block)) : list block := flat_map snd d.

  Definition void_lines : list string := ["POINT_WISE 300 m0 1"; "  HE4 1E-30"].

  Definition composition_lines_of (d : list (N * list block)) : list string :=
    [""; "COMPOSITION"; dec (N.of_nat (List.length (all_blocks d)) + 1)]
    ++ flat_map block_lines (all_blocks d)
    ++ void_lines ++ [""; "END_COMPOSITION"].

  (* the text written: every line is followed by a newline *)
  Definition text_of (lines : list string) : string :=
    fold_right (fun l acc => l ++ String "010" acc) "" lines.

  (* the whole path: contents of the data cards + final cell dictionary *)
  Definition composition_lines (cards : list string) (cells : list cell) : res (list string) :=
    bind (get_materials cards) (fun mats =>
    bind (convert_all mats) (fun conv =>
    bind (construct conv cells) (fun d => Ok (composition_lines_of d)))).

  (* what writeT4Composition leaves in the file: the opening line is written
     BEFORE constructCompositionT4 runs, so an exception leaves it behind *)
  Definition composition_written (cards : list string) (cells : list cell)
    : list string * option err :=
    match composition_lines cards cells with
    | Ok l => (l, None)
    | Err e => ([""; "COMPOSITION"], Some e)
    end.
End Numeric.
