(* C10 — model of the material-card path:
     MIP/geom/composition.py get_material_composition   (params.split())
     Composition/CCompositionMCNP.py                    [pairs]
     Composition/ConvertIsotope.py + the two enums      [convert_isotope]
     Composition/CompositionConversionMCNPToT4.py       [convert_card, str_fabs]
     Composition/ConstructCompositionT4.py              [isotope_name, rescale, block_of]
     FileHandlers/Writer/WriteT4Composition.py          [block_of: DENSITY/NB_ATOM vs POINT_WISE]
   Executable; proofs live in C10/Proofs.v. *)
From Coq Require Import List NArith ZArith Bool String Ascii.
From T4V Require Import Base.Str Base.Scalar.
Import ListNotations.
Open Scope string_scope.

(* Python exception classes the path can raise *)
Inductive err := EIndex | EValue | EAttribute | EMixedSigns.
Inductive res (A : Type) := Ok (a : A) | Err (e : err).
Arguments Ok {A}. Arguments Err {A}.

(* CCompositionMCNP.__init__: tokens -> (isotope, fraction) pairs; a token
   containing '=' is a keyword and is skipped; the isotope loses its library
   suffix; a missing fraction is an IndexError *)
Fixpoint pairs (toks : list string) : res (list (string * string)) :=
  match toks with
  | [] => Ok []
  | iso :: rest =>
      if contains_char "=" iso then pairs rest
      else match rest with
           | [] => Err EIndex
           | frac :: rest' =>
               match pairs rest' with
               | Ok l => Ok ((take_until "." iso, frac) :: l)
               | Err e => Err e
               end
           end
  end.

(* EIsotopeNameElement: symbol by atomic number (periodic table, written here
   independently of the code; the tie compares it with the Python enum) *)
Definition symbols : list string :=
  ["H";"HE";"LI";"BE";"B";"C";"N";"O";"F";"NE";"NA";"MG";"AL";"SI";"P";"S";"CL";"AR";"K";"CA";
   "SC";"TI";"V";"CR";"MN";"FE";"CO";"NI";"CU";"ZN";"GA";"GE";"AS";"SE";"BR";"KR";"RB";"SR";"Y";"ZR";
   "NB";"MO";"TC";"RU";"RH";"PD";"AG";"CD";"IN";"SN";"SB";"TE";"I";"XE";"CS";"BA";"LA";"CE";"PR";"ND";
   "PM";"SM";"EU";"GD";"TB";"DY";"HO";"ER";"TM";"YB";"LU";"HF";"TA";"W";"RE";"OS";"IR";"PT";"AU";"HG";
   "TL";"PB";"BI";"PO";"AT";"RN";"FR";"RA";"AC";"TH";"PA";"U";"NP";"PU";"AM";"CM";"BK";"CF";"ES";"FM";
   "MD";"NO";"LR";"RF";"DB";"SG";"BH";"HS";"MT";"DS";"RG";"CN";"NH";"FL";"MC";"LV";"TS";"OG"].

Definition symbol (z : N) : string := nth (N.to_nat z - 1) symbols "?".

(* convert_isotope: (atomic number, mass number) of a ZAID string *)
Definition convert_isotope (iso : string) : res (N * N) :=
  let iso := take_until "." iso in
  let n := length iso in
  let tail := if Nat.leb n 3 then iso else take_last 3 iso in
  let head := if Nat.leb n 3 then "" else drop_last 3 iso in
  match int_of_string tail with
  | None => Err EValue
  | Some a =>
      match int_of_string head with
      | None => Err EValue
      | Some z => if ((1 <=? z) && (z <=? 118))%N then Ok (z, a) else Err EAttribute
      end
  end.

(* extract_isotopes_fractions: T4 nuclide name *)
Definition isotope_name (z a : N) : string :=
  symbol z ++ (if (a =? 0)%N then "-NAT" else dec a).

(* fraction sign test and str_fabs *)
Definition is_negative (frac : string) : bool := starts_with_char "-" (lstrip frac).
Definition str_fabs (frac : string) : string :=
  match frac with String "-" r => r | _ => frac end.

(* compositionConversionMCNPToT4 for one card: names with absolute fractions
   and the atom_fracs flag (None for a card without nuclides) *)
Fixpoint convert_entries (l : list (string * string)) (atom : option bool)
  : res (list (string * string) * option bool) :=
  match l with
  | [] => Ok ([], atom)
  | (iso, frac) :: r =>
      let positive := negb (is_negative frac) in
      let clash := match atom with Some b => negb (Bool.eqb b positive) | None => false end in
      if clash then Err EMixedSigns else
      match convert_isotope iso with
      | Err e => Err e
      | Ok (z, a) =>
          match convert_entries r (Some positive) with
          | Err e => Err e
          | Ok (l', fl) => Ok ((isotope_name z a, str_fabs frac) :: l', fl)
          end
      end
  end.

Definition convert_card (toks : list string) : res (list (string * string) * option bool) :=
  match pairs toks with
  | Err e => Err e
  | Ok l => convert_entries l None
  end.

(* ---- numeric half: rescale_fractions, generic in the scalar ---- *)
Section Numeric.
  Context {T : Type} (S : Scalar T).

  Definition ssum (l : list T) : T := fold_right (sadd S) (s0 S) l.

  (* conc_i = frac_i * concentration / total *)
  Definition rescale (fracs : list T) (conc : T) : list T :=
    let total := ssum fracs in
    map (fun f => sdiv S (smul S f conc) total) fracs.

  (* constructCompositionT4 + writeT4Composition, one (card, cell density):
     negative density -> DENSITY block with the card's absolute fractions,
     flagged NB_ATOM iff the card's entries are positive; otherwise POINT_WISE
     with rescaled concentrations (nothing if the card has mass fractions) *)
  Inductive block :=
  | BDensity (nb_atom : bool) (names : list string)
  | BPointWise (concs : list (string * T)).

  Definition block_of (names : list string) (atom : bool) (fracs : list T) (density : T) : block :=
    if sltb S density (s0 S) then BDensity atom names
    else if atom then BPointWise (combine names (rescale fracs density))
    else BPointWise [].
End Numeric.
