(* C07 — the elements of a hexagonal lattice, end to end on the models:
   develop_lattice (model and theorems of C06, generic in the base vectors) fed
   with hexLatticeBaseVectors (C07).  Element (i, j, k) of the declared ranges
   whose array entry (first index fastest) is not 0 is generated exactly once,
   as the unit cell translated by i a1 + j a2 + k a3 with a1, a2, a3 the vectors
   of C07_hex_base_vectors, filled with that entry. *)
From Coq Require Import List Arith ZArith Bool Reals Lra Lia.
From T4V Require Import Base.Scalar.
From T4V Require C06.Model C06.ProofsIndex C06.ProofsNumeric C06.ProofsDevelop.
From T4V Require Import C07.Model C07.ModelDevelop C07.ProofsAlgebra C07.ProofsComb C07.ProofsMain C07.ProofsGeom.
Import ListNotations.
Open Scope R_scope.

Module I6 := C06.ProofsIndex.
Module D6 := C06.ProofsDevelop.

(* the exception classes of the two models *)
Definition err06 (e : err) : M6.err :=
  match e with
  | EZeroDiv => M6.EZeroDiv
  | ELattice => M6.ELattice
  | _ => M6.EAssert
  end.

Definition to06 {A} (r : res A) : M6.res A :=
  match r with Ok a => M6.Ok a | Err e => M6.Err (err06 e) end.

(* CellConversion.develop_lattice for cell.lattice == 2 *)
Definition develop_lattice_hex (surfs : list rsurf) (cell : M6.lat_cell (T:=R))
  : M6.res (list (M6.new_elem (T:=R))) :=
  M6.develop_lattice_with RS (to06 (hexLatticeBaseVectors RS surfs)) cell.

Theorem hex_lattice_developed :
  forall (c u : rvec) (w : nat -> rvec) (l : list nat) (surfs : list rsurf)
         (cell : M6.lat_cell (T:=R)) (bs : M6.bounds) (spec : list Z),
  (* the prism: hypotheses of hex_base_vectors *)
  In l all_listings ->
  (forall i, (i < 6)%nat -> carries u w (pl surfs i) (side_at l i)) ->
  (forall i, (i < 6)%nat -> sd surfs i = planeSide RS c (pl surfs i) /\ sd surfs i <> 0%Z) ->
  (forall k, wv w (k + 3) = vsub (vscale 2 c) (wv w k)) ->
  ((forall k, 0 < det3 (vsub (wv w (k + 1)) (wv w k)) (vsub (wv w (k + 2)) (wv w (k + 1))) u) \/
   (forall k, det3 (vsub (wv w (k + 1)) (wv w k)) (vsub (wv w (k + 2)) (wv w (k + 1))) u < 0)) ->
  (List.length surfs = 6%nat \/
   (List.length surfs = 8%nat /\ dot u (snd (pl surfs 6)) <> 0 /\ dot u (snd (pl surfs 7)) <> 0)) ->
  (* the FILL array *)
  M6.lc_fill cell = M6.FSpec bs spec -> bs <> [] -> I6.wf_bounds bs ->
  Z.of_nat (List.length spec) = M6.size bs ->
  (List.length surfs / 2 - 1 <= List.length bs)%nat ->
  Forall I6.trivial_range (skipn (List.length surfs / 2 - 1) bs) ->
  D6.cell_shape_ok cell ->
  exists vecs elems,
    hexLatticeBaseVectors RS surfs = Ok vecs /\
    List.length vecs = (List.length surfs / 2 - 1)%nat /\
    nth 0 vecs (0, 0, 0) = proj_par u (if Nat.eqb (List.length surfs) 6 then u else snd (pl surfs 6))
                                    (across c w (side_at l 0)) /\
    nth 1 vecs (0, 0, 0) = proj_par u (if Nat.eqb (List.length surfs) 6 then u else snd (pl surfs 6))
                                    (across c w (side_at l 2)) /\
    develop_lattice_hex surfs cell = M6.Ok elems /\
    map (@M6.ne_index R) elems = map fst (filter D6.nonzero (combine (M6.indices bs) spec)) /\
    NoDup (map (@M6.ne_index R) elems) /\
    Forall (fun e =>
      I6.in_ranges (M6.ne_index e) bs /\
      let v := nth (Z.to_nat (I6.flat_index bs (M6.ne_index e))) spec 0%Z in
      v <> 0%Z /\ D6.elem_located cell vecs v e) elems.
Proof.
  intros c u w l surfs cell bs spec Hl Hc Hs Hsym Ht Hlen Hf Hne Hwf Hsz Hn Hpad Hshape.
  destruct (hex_base_vectors c u w l surfs Hl Hc Hs Hsym Ht) as [H6 H8].
  destruct Hlen as [L|(L & U7 & U8)].
  - specialize (H6 L). unfold rsurf in *. rewrite L in *. cbn [Nat.eqb] in *.
    change (6 / 2 - 1)%nat with 2%nat in *.
    set (vecs := [proj_par u u (across c w (side_at l 0)); proj_par u u (across c w (side_at l 2))]) in *.
    destruct (D6.develop_lattice_located_ranges cell vecs bs spec Hf Hne Hwf Hsz Hn Hpad Hshape)
      as (elems & E & R1 & R2 & R3).
    exists vecs, elems. split; [exact H6|]. split; [reflexivity|]. split; [reflexivity|]. split; [reflexivity|].
    unfold develop_lattice_hex. rewrite H6. cbn [to06]. repeat split; assumption.
  - destruct (H8 L U7 U8) as (tau & E8 & _). unfold rsurf in *. rewrite L in *. cbn [Nat.eqb] in *.
    change (8 / 2 - 1)%nat with 3%nat in *.
    set (vecs := [proj_par u (snd (pl surfs 6)) (across c w (side_at l 0));
                  proj_par u (snd (pl surfs 6)) (across c w (side_at l 2)); vscale tau u]) in *.
    destruct (D6.develop_lattice_located_ranges cell vecs bs spec Hf Hne Hwf Hsz Hn Hpad Hshape)
      as (elems & E & R1 & R2 & R3).
    exists vecs, elems. split; [exact E8|]. split; [reflexivity|]. split; [reflexivity|]. split; [reflexivity|].
    unfold develop_lattice_hex. rewrite E8. cbn [to06]. repeat split; assumption.
Qed.

(* where element (i, j, k) goes, spelled out *)
Lemma lattice_point_three (a1 a2 a3 : rvec) (i j k : Z) :
  D6.lattice_point [a1; a2; a3] [i; j; k] =
  vadd (vadd (vscale (IZR i) a1) (vscale (IZR j) a2)) (vscale (IZR k) a3).
Proof.
  unfold D6.lattice_point. cbn.
  destruct a1 as [[x1 y1] z1], a2 as [[x2 y2] z2], a3 as [[x3 y3] z3].
  unfold M6.vadd, M6.rescale, vadd, vscale, vx, vy, vz; cbn. apply vec_eq; ring.
Qed.

(* the definition executed by tie:develophex at binary64 is, at RS, the
   develop_lattice_hex of hex_lattice_developed *)
Lemma develop_lattice_hex_is_gen (dic : Z -> list rsurf) (ids : list Z) (cell : M6.lat_cell (T:=R)) :
  develop_lattice_hex_gen RS dic ids cell = develop_lattice_hex (extract_surfaces dic ids) cell.
Proof.
  unfold develop_lattice_hex_gen, develop_lattice_hex.
  destruct (hexLatticeBaseVectors RS (extract_surfaces dic ids)) as [v|e]; [reflexivity|].
  destruct e; reflexivity.
Qed.
