(* C07 — which outcome an arbitrary plane list produces: once hexSortSides has
   accepted six intersections, the outcome of hexVertices / hexLatticeBaseVectors
   is decided by the SHAPE of the dictionary (which pairs hold a line): the
   while loop ends iff the accepted pairs form one closed tour of the six
   positions (ProofsErrors.closed_tour, swept over all 924 shapes); the only other
   way out is a ZeroDivisionError of a projection. *)
From Coq Require Import List Arith ZArith Bool Reals Lra Lia.
From T4V Require Import Base.Scalar Base.Cases C07.Model C07.ProofsAlgebra C07.ProofsComb C07.ProofsMain
  C07.ProofsErrors.
Import ListNotations.

Definition shape {A} (ca : adjacency A) : adjacency (nat * nat) :=
  map (fun kv => (fst kv, match snd kv with Some _ => Some (fst kv) | None => None end)) ca.

Definition some_keys {A} (ca : adjacency A) : list (nat * nat) :=
  map fst (filter (fun kv => is_some (snd kv)) ca).

Definition crossb (k : nat * nat) : bool := negb (Nat.eqb (fst k / 2) (snd k / 2)).

Definition Rtrue {A B} (_ : A) (_ : B) : Prop := True.

Lemma Radj_shape {A} (ca : adjacency A) : Radj Rtrue ca (shape ca).
Proof.
  induction ca as [|[k v] r IH]; [constructor|]. cbn [shape map]. constructor; [|exact IH].
  split; [reflexivity|]. cbn [snd]. destruct v; exact I.
Qed.

(* structure of the dictionary built by the double loop *)
Lemma sort_pairs_structure {A} (f : nat -> nat -> res (option A)) ps ca :
  sort_pairs f ps = Ok ca ->
  map fst ca = ps /\ Forall (fun kv => is_some (snd kv) = true -> crossb (fst kv) = true) ca.
Proof.
  revert ca. induction ps as [|[i j] r IH]; intros ca H.
  - cbn in H. inversion H. split; [reflexivity|constructor].
  - cbn [sort_pairs] in H.
    destruct (Nat.eqb (i / 2) (j / 2)) eqn:Eg.
    + destruct (sort_pairs f r) as [ca'|] eqn:E; [|discriminate]. inversion H; subst.
      destruct (IH ca' eq_refl) as [K F]. split; [cbn; f_equal; exact K|].
      constructor; [cbn; discriminate|exact F].
    + destruct (f i j) as [v|]; [|discriminate].
      destruct (sort_pairs f r) as [ca'|] eqn:E; [|discriminate]. inversion H; subst.
      destruct (IH ca' eq_refl) as [K F]. split; [cbn; f_equal; exact K|].
      constructor; [|exact F]. intros _. unfold crossb. cbn [fst snd]. rewrite Eg. reflexivity.
Qed.

Lemma sort_pairs_shape_gen {A} (f : nat -> nat -> res (option A)) (g : nat -> nat -> bool) ps ca :
  sort_pairs f ps = Ok ca ->
  (forall i j v, In ((i, j), v) ca -> (i / 2 <> j / 2)%nat -> g i j = is_some v) ->
  sort_pairs (fun i j => Ok (if g i j then Some (i, j) else None)) ps = Ok (shape ca).
Proof.
  revert ca. induction ps as [|[i j] r IH]; intros ca H Hg.
  - cbn in H. inversion H. reflexivity.
  - cbn [sort_pairs] in H |- *.
    destruct (Nat.eqb (i / 2) (j / 2)) eqn:Eg.
    + destruct (sort_pairs f r) as [ca'|] eqn:E; [|discriminate]. inversion H; subst.
      rewrite (IH ca' eq_refl) by (intros i' j' v Hin; apply Hg; right; exact Hin). reflexivity.
    + destruct (f i j) as [v|]; [|discriminate].
      destruct (sort_pairs f r) as [ca'|] eqn:E; [|discriminate]. inversion H; subst.
      rewrite (IH ca' eq_refl) by (intros i' j' v' Hin; apply Hg; right; exact Hin).
      apply Nat.eqb_neq in Eg. rewrite (Hg i j v (or_introl eq_refl) Eg).
      destruct v; reflexivity.
Qed.

Lemma NoDup_keys_unique {A} (ca : adjacency A) k v v' :
  NoDup (map fst ca) -> In (k, v) ca -> In (k, v') ca -> v = v'.
Proof.
  induction ca as [|[k0 v0] r IH]; intros Hn H1 H2; [contradiction|].
  cbn in Hn. inversion Hn as [|? ? Hnot Hr]; subst.
  destruct H1 as [E1|H1], H2 as [E2|H2].
  - congruence.
  - inversion E1; subst. exfalso. apply Hnot. apply in_map_iff. exists (k, v'). split; [reflexivity|exact H2].
  - inversion E2; subst. exfalso. apply Hnot. apply in_map_iff. exists (k, v). split; [reflexivity|exact H1].
  - exact (IH Hr H1 H2).
Qed.

Lemma pair_in_spec ps i j : pair_in ps i j = true <-> In (i, j) ps.
Proof.
  unfold pair_in. rewrite existsb_exists. split.
  - intros ([a b] & Hin & H). cbn in H. apply andb_true_iff in H. destruct H as [H1 H2].
    apply Nat.eqb_eq in H1. apply Nat.eqb_eq in H2. subst. exact Hin.
  - intros H. exists (i, j). split; [exact H|]. cbn. rewrite !Nat.eqb_refl. reflexivity.
Qed.

Lemma sort_pairs_shape {A} (f : nat -> nat -> res (option A)) ps ca :
  NoDup ps -> sort_pairs f ps = Ok ca ->
  sort_pairs (fun i j => Ok (if pair_in (some_keys ca) i j then Some (i, j) else None)) ps = Ok (shape ca).
Proof.
  intros Hn H. apply (sort_pairs_shape_gen f _ ps ca H).
  destruct (sort_pairs_structure f ps ca H) as [K _].
  intros i j v Hin _. destruct v as [a|]; cbn [is_some].
  - apply pair_in_spec. unfold some_keys. apply in_map_iff. exists ((i, j), Some a). split; [reflexivity|].
    apply filter_In. split; [exact Hin|reflexivity].
  - apply not_true_is_false. intros Ht. apply pair_in_spec in Ht. unfold some_keys in Ht.
    apply in_map_iff in Ht. destruct Ht as ([k v'] & Ek & Hf). cbn in Ek. subst k.
    apply filter_In in Hf. destruct Hf as [Hin' Hs].
    assert (E : v' = None) by (apply (NoDup_keys_unique ca (i, j) v' None); [rewrite K; exact Hn|exact Hin'|exact Hin]).
    subst. discriminate.
Qed.

(* the accepted pairs as a sub-list of the twelve pairs of different groups *)
Lemma some_keys_sublist {A} (ca : adjacency A) ps :
  map fst ca = ps -> Forall (fun kv => is_some (snd kv) = true -> crossb (fst kv) = true) ca ->
  In (some_keys ca) (sublists (count_some ca) (filter crossb ps)).
Proof.
  revert ps. induction ca as [|[k v] r IH]; intros ps K F.
  - cbn in K. subst. left. reflexivity.
  - destruct ps as [|k' ps']; [discriminate|]. cbn in K. inversion K as [[Ek Kr]]. subst k'.
    inversion F as [|? ? Fk Fr]; subst. specialize (IH _ eq_refl Fr). cbn [fst snd] in Fk.
    unfold some_keys, count_some in *. cbn [filter snd]. destruct v as [a|]; cbn [is_some].
    + rewrite (Fk eq_refl). cbn [map fst List.length sublists].
      apply in_or_app. left. apply in_map. exact IH.
    + destruct (crossb k); [|exact IH].
      set (n := List.length (filter (fun kv : nat * nat * option A => is_some (snd kv)) r)) in *.
      destruct n as [|m]; [destruct (filter crossb (map fst r)); cbn [sublists] in *; exact IH|].
      cbn [sublists]. apply in_or_app. right. exact IH.
Qed.

(* the traversal of a dictionary against the traversal of its shape, when a
   visit may raise e0 *)
Lemma walk_shape_outcome {A B} (lookA : nat -> nat -> option A) (lookB : nat -> nat -> option (nat * nat))
      (visit : A -> res B) (e0 : err) (first n : nat) (seen : list nat) (cur : nat) :
  (forall a b, Ropt Rtrue (lookA a b) (lookB a b)) ->
  (forall a, (exists b, visit a = Ok b) \/ visit a = Err e0) ->
  match walk lookB (fun k => Ok k) first n seen cur with
  | Ok ks => (exists vs, walk lookA visit first n seen cur = Ok vs /\ List.length vs = List.length ks)
             \/ walk lookA visit first n seen cur = Err e0
  | Err e => e = ELoop /\ (walk lookA visit first n seen cur = Err ELoop \/ walk lookA visit first n seen cur = Err e0)
  end.
Proof.
  intros Hl Hv. revert seen cur. induction n as [|m IH]; intros seen cur.
  - cbn. left. exists []. split; reflexivity.
  - cbn [walk]. set (seen1 := if Nat.eqb (List.length seen) 6 then remove_nat first seen else seen).
    pose proof (find_next_rel Rtrue lookA lookB Hl seen1 cur (seq 0 6)) as H.
    destruct (find_next lookA seen1 cur (seq 0 6)) as [[i a]|], (find_next lookB seen1 cur (seq 0 6)) as [[j b]|];
      try contradiction.
    + destruct H as [<- _]. specialize (IH (i :: seen1) i).
      destruct (walk lookB (fun k => Ok k) first m (i :: seen1) i) as [ks|e].
      * destruct (Hv a) as [(v & Ev)|Ev]; rewrite Ev; [|right; reflexivity].
        destruct IH as [(vs & E & L)|E]; rewrite E.
        -- left. exists (v :: vs). split; [reflexivity|cbn; f_equal; exact L].
        -- right. reflexivity.
      * destruct IH as [-> IH]. split; [reflexivity|].
        destruct (Hv a) as [(v & Ev)|Ev]; rewrite Ev; [|right; reflexivity].
        destruct IH as [E|E]; rewrite E; [left|right]; reflexivity.
    + split; [reflexivity|]. left. reflexivity.
Qed.

Definition keq (a b : nat * nat) : bool := Nat.eqb (fst a) (fst b) && Nat.eqb (snd a) (snd b).
Fixpoint nodupb (l : list (nat * nat)) : bool :=
  match l with [] => true | x :: r => negb (existsb (keq x) r) && nodupb r end.

Lemma hex_pairs_nodup : NoDup hex_pairs.
Proof.
  assert (E : nodupb hex_pairs = true) by (vm_compute; reflexivity).
  revert E. generalize hex_pairs. intros l. induction l as [|x r IH]; intros E; [constructor|].
  cbn [nodupb] in E. apply andb_true_iff in E. destruct E as [E1 E2]. constructor; [|exact (IH E2)].
  intros Hin. apply negb_true_iff in E1. assert (T : existsb (keq x) r = true).
  { apply existsb_exists. exists x. split; [exact Hin|]. unfold keq. rewrite !Nat.eqb_refl. reflexivity. }
  rewrite T in E1. discriminate.
Qed.

Lemma cross_pairs_filter : cross_pairs = filter crossb hex_pairs.
Proof. reflexivity. Qed.

(* hexVertices after hexSortSides accepted: decided by the shape of the dictionary *)
Theorem vertices_by_shape (surfs : list rsurf) (adj : adjacency rline) (first : nat) :
  List.length surfs = 6%nat \/ List.length surfs = 8%nat -> (first < 6)%nat ->
  hexSortSides RS (firstn 6 surfs) = Ok adj ->
  In (some_keys adj) (sublists 6 cross_pairs) /\
  (closed_tour (some_keys adj) = false ->
     hexVertices RS surfs first = Err ELoop \/ hexVertices RS surfs first = Err EZeroDiv) /\
  (closed_tour (some_keys adj) = true ->
     (exists r, hexVertices RS surfs first = Ok r) \/ hexVertices RS surfs first = Err EZeroDiv).
Proof.
  intros Hlen Hf Hs.
  (* unpack hexSortSides *)
  assert (Hsp : sort_pairs (hex_adjf RS (firstn 6 surfs)) hex_pairs = Ok adj /\ count_some adj = 6%nat).
  { unfold hexSortSides in Hs.
    assert (L6 : List.length (firstn 6 surfs) = 6%nat) by (rewrite firstn_length; unfold rsurf in *; lia).
    unfold rsurf in *. rewrite L6 in Hs. cbn [Nat.eqb negb] in Hs. unfold sort_sides in Hs.
    destruct (sort_pairs (hex_adjf RS (firstn 6 surfs)) hex_pairs) as [a|]; [|discriminate].
    destruct (Nat.eqb (count_some a) 6) eqn:E6; [|discriminate]. inversion Hs; subst.
    split; [reflexivity|apply Nat.eqb_eq; exact E6]. }
  destruct Hsp as [Hsp Hc].
  destruct (sort_pairs_structure _ _ _ Hsp) as [K F].
  pose proof (some_keys_sublist adj hex_pairs K F) as Hsub. rewrite Hc, <- cross_pairs_filter in Hsub.
  split; [exact Hsub|].
  (* the abstract run on the shape *)
  pose proof (sort_pairs_shape _ _ _ hex_pairs_nodup Hsp) as Hsh.
  assert (Hcs : count_some (shape adj) = 6%nat) by (rewrite <- (count_some_rel Rtrue adj (shape adj) (Radj_shape adj)); exact Hc).
  assert (Habs : hex_vertices_abs (pair_in (some_keys adj)) first = hex_walk (shape adj) (fun k => Ok k) first).
  { unfold hex_vertices_abs, bind, sort_sides_abs, sort_sides.
    match goal with |- context [sort_pairs ?f hex_pairs] =>
      replace (sort_pairs f hex_pairs) with (Ok (shape adj)) by (symmetry; exact Hsh) end.
    match goal with |- context [Nat.eqb ?n 6] =>
      replace (Nat.eqb n 6) with true by (symmetry; apply Nat.eqb_eq; exact Hcs) end.
    reflexivity. }
  (* the concrete run *)
  destruct (first_some_count adj ltac:(lia)) as ([pt0 d0] & Efs).
  destruct (walk_ends_iff_closed_tour (some_keys adj) first Hsub Hf) as [(Ct & ks & Ek & _)|(Ct & Ek)];
    rewrite Habs in Ek; rewrite Ct.
  - split; intros Hct; [discriminate|].
    unfold hexVertices. unfold rsurf, rline in *.
    assert (G1 : negb (Nat.eqb (List.length surfs) 6 || Nat.eqb (List.length surfs) 8) = false)
      by (destruct Hlen as [L|L]; rewrite L; reflexivity).
    rewrite G1. assert (G2 : negb (Nat.ltb first 6) = false) by (apply negb_false_iff; apply Nat.ltb_lt; exact Hf).
    rewrite G2, Hs, Efs. unfold hex_walk in *.
    match goal with |- context [walk ?lk ?vis first 6 [first] first] =>
      pose proof (walk_shape_outcome lk (fun a b => adj_lookup (shape adj) (sorted_key a b)) vis EZeroDiv
                    first 6 [first] first
                    (fun a b => adj_lookup_rel Rtrue adj (shape adj) (sorted_key a b) (Radj_shape adj))
                    (fun a => project_outcomes _ _ _)) as Hv
    end.
    rewrite Ek in Hv. destruct Hv as [(vs & E & _)|E]; rewrite E; [left; eexists; reflexivity|right; reflexivity].
  - split; intros Hct; [|discriminate].
    unfold hexVertices. unfold rsurf, rline in *.
    assert (G1 : negb (Nat.eqb (List.length surfs) 6 || Nat.eqb (List.length surfs) 8) = false)
      by (destruct Hlen as [L|L]; rewrite L; reflexivity).
    rewrite G1. assert (G2 : negb (Nat.ltb first 6) = false) by (apply negb_false_iff; apply Nat.ltb_lt; exact Hf).
    rewrite G2, Hs, Efs. unfold hex_walk in *.
    match goal with |- context [walk ?lk ?vis first 6 [first] first] =>
      pose proof (walk_shape_outcome lk (fun a b => adj_lookup (shape adj) (sorted_key a b)) vis EZeroDiv
                    first 6 [first] first
                    (fun a b => adj_lookup_rel Rtrue adj (shape adj) (sorted_key a b) (Radj_shape adj))
                    (fun a => project_outcomes _ _ _)) as Hv
    end.
    rewrite Ek in Hv. destruct Hv as [_ [E|E]]; rewrite E; [left|right]; reflexivity.
Qed.

(* hexLatticeBaseVectors on ANY six or eight planes, once hexSortSides has
   accepted six intersections: no closed tour -> the loop never ends (unless a
   projection divides by zero first); a closed tour -> base vectors (unless a
   projection divides by zero).  With C07_sort_sides_outcomes (ZeroDivisionError
   iff parallel planes of different groups, LatticeError iff not six
   intersections) this decides the outcome of every plane list from
   (1) parallelism, (2) the number of accepted pairs, (3) their shape,
   (4) the vanishing of the projection denominators. *)
Theorem base_vectors_by_shape (surfs : list rsurf) (adj : adjacency rline) :
  List.length surfs = 6%nat \/ List.length surfs = 8%nat ->
  hexSortSides RS (firstn 6 surfs) = Ok adj ->
  In (some_keys adj) (sublists 6 cross_pairs) /\
  (closed_tour (some_keys adj) = false ->
     hexLatticeBaseVectors RS surfs = Err ELoop \/ hexLatticeBaseVectors RS surfs = Err EZeroDiv) /\
  (closed_tour (some_keys adj) = true ->
     (exists vs, hexLatticeBaseVectors RS surfs = Ok vs) \/ hexLatticeBaseVectors RS surfs = Err EZeroDiv).
Proof.
  intros Hlen Hs.
  destruct (vertices_by_shape surfs adj 0 Hlen ltac:(lia) Hs) as (Hsub & N0 & C0).
  destruct (vertices_by_shape surfs adj 2 Hlen ltac:(lia) Hs) as (_ & N2 & C2).
  split; [exact Hsub|]. split; intros Hct.
  - unfold hexLatticeBaseVectors. destruct (N0 Hct) as [E|E]; rewrite E; [left|right]; reflexivity.
  - unfold hexLatticeBaseVectors. destruct (C0 Hct) as [([v0 ax] & E0)|E0]; rewrite E0; [|right; reflexivity].
    destruct (C2 Hct) as [([v2 ax2] & E2)|E2]; rewrite E2; [|right; reflexivity].
    match goal with |- context [if ?bb then _ else _] => destruct bb end; [|left; eexists; reflexivity].
    match goal with |- context [projectPointOnPlane RS ?a ?b ?c] =>
      destruct (project_outcomes a c b) as [(q1 & P1)|P1]; rewrite P1; [|right; reflexivity] end.
    match goal with |- context [projectPointOnPlane RS ?a ?b ?c] =>
      destruct (project_outcomes a c b) as [(q2 & P2)|P2]; rewrite P2; [left; eexists; reflexivity|right; reflexivity] end.
Qed.
