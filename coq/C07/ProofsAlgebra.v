(* C07 — algebra of the numeric helpers, over the reals. *)
From Coq Require Import List Arith ZArith Bool Reals Lra Lia.
From T4V Require Import Base.Scalar C07.Model.
Import ListNotations.
Open Scope R_scope.

Definition rvec : Type := vec (T:=R).
Definition rplane : Type := plane (T:=R).
Definition rsurf : Type := surf (T:=R).
Definition rline : Type := line (T:=R).

(* plain vector operations on R^3 used in the statements *)
Definition dot (v w : rvec) : R := vx v * vx w + vy v * vy w + vz v * vz w.
Definition cross (v w : rvec) : rvec :=
  (vy v * vz w - vz v * vy w, vz v * vx w - vx v * vz w, vx v * vy w - vy v * vx w).
Definition vadd (v w : rvec) : rvec := (vx v + vx w, vy v + vy w, vz v + vz w).
Definition vsub (v w : rvec) : rvec := (vx v - vx w, vy v - vy w, vz v - vz w).
Definition vscale (a : R) (v : rvec) : rvec := (a * vx v, a * vy v, a * vz v).
Definition on_plane (q : rvec) (pl : rplane) : Prop := dot (vsub q (fst pl)) (snd pl) = 0.

Lemma vec_eq (a b c d e f : R) : a = d -> b = e -> c = f -> ((a, b, c) : rvec) = (d, e, f).
Proof. intros -> -> ->. reflexivity. Qed.

(* the model's operations at RS are these *)
Lemma scal_dot v w : scal RS v w = dot v w.
Proof. reflexivity. Qed.
Lemma vdiff_vsub v w : vdiff RS v w = vsub v w.
Proof. reflexivity. Qed.
Lemma rescale_vscale a v : rescale RS a v = vscale a v.
Proof. reflexivity. Qed.
Lemma vect_cross v w : vect RS v w = cross v w.
Proof.
  destruct v as [[a b] c], w as [[d e] f]. unfold vect, cross, vx, vy, vz. cbn.
  apply vec_eq; ring.
Qed.
Lemma vsum2_vadd v w : vsum2 RS v w = vadd v w.
Proof.
  destruct v as [[a b] c], w as [[d e] f]. unfold vsum2, vadd, vx, vy, vz. cbn.
  apply vec_eq; ring.
Qed.

Lemma dot_self_pos v : v <> ((0, 0, 0) : rvec) -> 0 < dot v v.
Proof.
  destruct v as [[a b] c]. intros H. unfold dot, vx, vy, vz; cbn.
  destruct (Req_dec a 0) as [Ha|Ha]; [destruct (Req_dec b 0) as [Hb|Hb];
    [destruct (Req_dec c 0) as [Hc|Hc]|]|].
  - subst. contradiction H. reflexivity.
  - nra.
  - nra.
  - nra.
Qed.

Ltac tomath :=
  rewrite ?vect_cross, ?vsum2_vadd;
  change (@scal R RS) with dot in *; change (@vdiff R RS) with vsub in *;
  change (@rescale R RS) with vscale in *.

(* ---------- pointInPlaneIntersection ---------- *)

(* the denominator of the code is |n1 x n2|^4 *)
Lemma inter_den (n1 n2 : rvec) :
  let l := cross n1 n2 in
  mixed RS (cross n1 l) (cross n2 l) l = dot l l * dot l l.
Proof.
  destruct n1 as [[a b] c], n2 as [[d e] f].
  unfold mixed. tomath. unfold dot, cross, vx, vy, vz; cbn. ring.
Qed.

Theorem plane_intersection (p1 n1 p2 n2 : rvec) :
  cross n1 n2 <> (0, 0, 0) ->
  exists pt d,
    pointInPlaneIntersection RS (p1, n1) (p2, n2) = Ok (pt, d) /\
    on_plane pt (p1, n1) /\ on_plane pt (p2, n2) /\
    d = vscale (1 / sqrt (dot (cross n1 n2) (cross n1 n2))) (cross n1 n2).
Proof.
  intros Hl. set (l := cross n1 n2) in *.
  assert (Hpos : 0 < dot l l) by (apply dot_self_pos; exact Hl).
  assert (Hden : mixed RS (cross n1 l) (cross n2 l) l <> 0).
  { unfold l. rewrite inter_den. fold l. nra. }
  assert (Hmag : sqrt (dot l l) <> 0).
  { intros E. apply sqrt_eq_0 in E; lra. }
  unfold pointInPlaneIntersection, renorm, mag, mag2.
  tomath. fold l. cbn [seqb RS s0 s1 sdiv sneg ssqrt].
  destruct (Reqb (mixed RS (cross n1 l) (cross n2 l) l) 0) eqn:E1.
  { apply Reqb_true in E1. contradiction. }
  destruct (Reqb (sqrt (dot l l)) 0) eqn:E2.
  { apply Reqb_true in E2. contradiction. }
  eexists. eexists. split; [reflexivity|].
  tomath.
  split; [|split; [|reflexivity]].
  - unfold on_plane; cbn [fst snd].
    destruct p1 as [[x1 y1] z1], n1 as [[a b] c], p2 as [[x2 y2] z2], n2 as [[d e] f].
    unfold dot, vsub, vadd, vscale, cross, vx, vy, vz; cbn. ring.
  - unfold on_plane; cbn [fst snd].
    revert Hden. unfold l. rewrite inter_den. fold l. intros Hden.
    unfold mixed. tomath.
    assert (Hk : dot (cross n1 l) n2 = - dot l l).
    { unfold l. destruct n1 as [[a b] c], n2 as [[d e] f].
      unfold dot, cross, vx, vy, vz; cbn. ring. }
    assert (Hm : dot (vsub p1 p2) (cross (cross n2 l) l) = - dot l l * dot (vsub p1 p2) n2).
    { unfold l. destruct p1 as [[x1 y1] z1], p2 as [[x2 y2] z2], n1 as [[a b] c], n2 as [[d e] f].
      unfold dot, cross, vsub, vx, vy, vz; cbn. ring. }
    assert (Hd : dot (cross n1 l) (cross (cross n2 l) l) = dot l l * dot l l).
    { unfold l. destruct n1 as [[a b] c], n2 as [[d e] f].
      unfold dot, cross, vx, vy, vz; cbn. ring. }
    rewrite Hm.
    assert (Hlin : forall k, dot (vsub (vadd p1 (vscale k (cross n1 l))) p2) n2
                             = dot (vsub p1 p2) n2 + k * dot (cross n1 l) n2).
    { intros k. destruct p1 as [[x1 y1] z1], p2 as [[x2 y2] z2], n2 as [[d e] f],
        (cross n1 l) as [[u v] w]. unfold dot, vsub, vadd, vscale, vx, vy, vz; cbn. ring. }
    rewrite Hlin, Hk. field. lra.
Qed.

(* the returned direction is a unit vector parallel to both planes *)
Theorem plane_intersection_direction (n1 n2 : rvec) :
  cross n1 n2 <> (0, 0, 0) ->
  let d := vscale (1 / sqrt (dot (cross n1 n2) (cross n1 n2))) (cross n1 n2) in
  dot d n1 = 0 /\ dot d n2 = 0 /\ dot d d = 1.
Proof.
  intros Hl. set (l := cross n1 n2) in *.
  assert (Hpos : 0 < dot l l) by (apply dot_self_pos; exact Hl).
  assert (Hmag : sqrt (dot l l) <> 0).
  { intros E. apply sqrt_eq_0 in E; lra. }
  cbv zeta. set (m := sqrt (dot l l)) in *.
  assert (Hmm : m * m = dot l l) by (apply sqrt_sqrt; lra).
  assert (H1 : dot l n1 = 0).
  { unfold l. destruct n1 as [[a b] c], n2 as [[d e] f]. unfold dot, cross, vx, vy, vz; cbn. ring. }
  assert (H2 : dot l n2 = 0).
  { unfold l. destruct n1 as [[a b] c], n2 as [[d e] f]. unfold dot, cross, vx, vy, vz; cbn. ring. }
  assert (Hs : forall k w, dot (vscale k l) w = k * dot l w).
  { intros k w. destruct l as [[a b] c], w as [[d e] f]. unfold dot, vscale, vx, vy, vz; cbn. ring. }
  assert (Hs2 : forall k, dot (vscale k l) (vscale k l) = k * k * dot l l).
  { intros k. destruct l as [[a b] c]. unfold dot, vscale, vx, vy, vz; cbn. ring. }
  rewrite Hs2, !Hs, H1, H2, <- Hmm. repeat split; try ring. field. exact Hmag.
Qed.

(* ---------- projectPointOnPlane ---------- *)

Theorem project_on_plane (pt pp n dir : rvec) :
  dot dir n <> 0 ->
  exists q t,
    projectPointOnPlane RS pt (pp, n) dir = Ok q /\
    on_plane q (pp, n) /\ q = vadd pt (vscale t dir) /\ t = dot (vsub pp pt) n / dot dir n.
Proof.
  intros Hd. unfold projectPointOnPlane. tomath. cbn [seqb RS s0 sdiv].
  destruct (Reqb (dot dir n) 0) eqn:E.
  { apply Reqb_true in E. contradiction. }
  eexists. eexists. split; [reflexivity|].
  tomath.
  split; [|split; reflexivity].
  unfold on_plane; cbn [fst snd].
  assert (Hlin : forall k, dot (vsub (vadd pt (vscale k dir)) pp) n
                           = - dot (vsub pp pt) n + k * dot dir n).
  { intros k. destruct pt as [[x1 y1] z1], pp as [[x2 y2] z2], n as [[d e] f], dir as [[u v] w].
    unfold dot, vsub, vadd, vscale, vx, vy, vz; cbn. ring. }
  rewrite Hlin. field. exact Hd.
Qed.

(* the projection of a point of the line {w + t u} does not depend on the point
   chosen on the line nor on the length/sense of the direction *)
Definition top_of (w u : rvec) (pl : rplane) : rvec :=
  vadd w (vscale (dot (vsub (fst pl) w) (snd pl) / dot u (snd pl)) u).

Lemma project_line_point (w u : rvec) (t s : R) (pl : rplane) :
  s <> 0 -> dot u (snd pl) <> 0 ->
  projectPointOnPlane RS (vadd w (vscale t u)) pl (vscale s u) = Ok (top_of w u pl).
Proof.
  intros Hs Hu. destruct pl as [pp n]. cbn [snd] in Hu.
  assert (Hd : dot (vscale s u) n = s * dot u n).
  { destruct u as [[a b] c], n as [[d e] f]. unfold dot, vscale, vx, vy, vz; cbn. ring. }
  unfold projectPointOnPlane. tomath. cbn [seqb RS s0 sdiv].
  destruct (Reqb (dot (vscale s u) n) 0) eqn:E.
  { apply Reqb_true in E. rewrite Hd in E. nra. }
  tomath. f_equal.
  unfold top_of; cbn [fst snd]. rewrite Hd.
  assert (Hn : dot (vsub pp (vadd w (vscale t u))) n = dot (vsub pp w) n - t * dot u n).
  { destruct pp as [[x1 y1] z1], w as [[x2 y2] z2], n as [[d e] f], u as [[a b] c].
    unfold dot, vsub, vadd, vscale, vx, vy, vz; cbn. ring. }
  rewrite Hn. set (A := dot (vsub pp w) n). set (B := dot u n) in *.
  destruct w as [[x2 y2] z2], u as [[a b] c].
  unfold vadd, vscale, vx, vy, vz; cbn. apply vec_eq; field; split; assumption.
Qed.

Lemma top_of_on_plane w u pl : dot u (snd pl) <> 0 -> on_plane (top_of w u pl) pl.
Proof.
  intros Hu. destruct pl as [pp n]. cbn [snd] in Hu. unfold on_plane, top_of; cbn [fst snd].
  set (k := dot (vsub pp w) n / dot u n).
  assert (Hlin : dot (vsub (vadd w (vscale k u)) pp) n = - dot (vsub pp w) n + k * dot u n).
  { destruct pp as [[x1 y1] z1], w as [[x2 y2] z2], n as [[d e] f], u as [[a b] c].
    unfold dot, vsub, vadd, vscale, vx, vy, vz; cbn. ring. }
  rewrite Hlin. unfold k. field. exact Hu.
Qed.

(* difference of two projected vertices: the in-plane vector plus an axial
   correction that makes it parallel to the top plane *)
Lemma top_of_diff (w w' u : rvec) (pl : rplane) :
  dot u (snd pl) <> 0 ->
  exists tau, vsub (top_of w u pl) (top_of w' u pl) = vadd (vsub w w') (vscale tau u) /\
              dot (vsub (top_of w u pl) (top_of w' u pl)) (snd pl) = 0.
Proof.
  intros Hu. destruct pl as [pp n]. cbn [snd] in *.
  exists (dot (vsub pp w) n / dot u n - dot (vsub pp w') n / dot u n). split.
  - unfold top_of; cbn [fst snd].
    set (k := dot (vsub pp w) n / dot u n). set (k' := dot (vsub pp w') n / dot u n).
    destruct w as [[x1 y1] z1], w' as [[x2 y2] z2], u as [[a b] c].
    unfold vsub, vadd, vscale, vx, vy, vz; cbn. apply vec_eq; ring.
  - pose proof (top_of_on_plane w u (pp, n) Hu) as H1.
    pose proof (top_of_on_plane w' u (pp, n) Hu) as H2.
    unfold on_plane in H1, H2; cbn [fst snd] in H1, H2.
    assert (Hlin : forall a b, dot (vsub a b) n = dot (vsub a pp) n - dot (vsub b pp) n).
    { intros a b. destruct a as [[x1 y1] z1], b as [[x2 y2] z2], pp as [[x3 y3] z3], n as [[d e] f].
      unfold dot, vsub, vx, vy, vz; cbn. ring. }
    rewrite Hlin, H1, H2. ring.
Qed.

(* a3: from the eighth plane to the seventh along the axis *)
Theorem axial_vector (v axis p7 n7 p8 n8 : rvec) (lam : R) :
  dot axis n7 <> 0 -> dot axis n8 <> 0 -> n7 = vscale lam n8 ->
  exists top bottom t,
    projectPointOnPlane RS v (p7, n7) axis = Ok top /\
    projectPointOnPlane RS v (p8, n8) axis = Ok bottom /\
    vsub top bottom = vscale t axis /\
    forall q, on_plane q (p8, n8) -> on_plane (vadd q (vsub top bottom)) (p7, n7).
Proof.
  intros H7 H8 Hpar.
  destruct (project_on_plane v p7 n7 axis H7) as (top & t7 & E7 & On7 & Q7 & _).
  destruct (project_on_plane v p8 n8 axis H8) as (bot & t8 & E8 & On8 & Q8 & _).
  exists top, bot, (t7 - t8). split; [exact E7|]. split; [exact E8|]. split.
  - rewrite Q7, Q8. destruct v as [[x y] z], axis as [[a b] c].
    unfold vsub, vadd, vscale, vx, vy, vz; cbn. apply vec_eq; ring.
  - intros q Hq. unfold on_plane in *; cbn [fst snd] in *.
    assert (Hlin : dot (vsub (vadd q (vsub top bot)) p7) n7
                   = dot (vsub top p7) n7 + lam * (dot (vsub q p8) n8 - dot (vsub bot p8) n8)).
    { rewrite Hpar. destruct q as [[x1 y1] z1], top as [[x2 y2] z2], bot as [[x3 y3] z3],
        p7 as [[x4 y4] z4], p8 as [[x5 y5] z5], n8 as [[d e] f].
      unfold dot, vsub, vadd, vscale, vx, vy, vz; cbn. ring. }
    rewrite Hlin, On7, On8, Hq. ring.
Qed.

(* ---------- the translation of a centrally symmetric hexagon ---------- *)

(* consecutive vertices w0..w5 about the centre c: w3 = 2c - w0, w4 = 2c - w1,
   w5 = 2c - w2.  The vector t = w0 - w2 (what the code computes from the
   traversal that starts on side [w5, w0]) is the sum of the two vertices of
   that side relative to the centre, it carries the opposite side [w2, w3] onto
   [w0, w5], and a cell lying on the inner side of both planes is carried to the
   far side of the plane of [w5, w0]. *)
Theorem hex_translation (c w0 w1 w2 : rvec) :
  let w3 := vsub (vscale 2 c) w0 in
  let w5 := vsub (vscale 2 c) w2 in
  let t := vsub w0 w2 in
  t = vadd (vsub w0 c) (vsub w5 c) /\
  vadd w2 t = w0 /\ vadd w3 t = w5 /\
  forall (n p : rvec),
    dot (vsub w0 w5) n = 0 ->                 (* n normal to the side [w5, w0] *)
    dot (vsub w2 w0) n <= dot (vsub p w0) n -> (* p not beyond the opposite side *)
    dot (vsub p w0) n <= 0 ->                 (* p not beyond the side itself *)
    0 <= dot (vsub (vadd p t) w0) n /\ dot (vsub (vsub p t) w2) n <= 0.
Proof.
  destruct c as [[cx cy] cz], w0 as [[x0 y0] z0], w1 as [[x1 y1] z1], w2 as [[x2 y2] z2].
  cbv zeta. unfold vadd, vsub, vscale, vx, vy, vz; cbn.
  repeat split; try (apply vec_eq; ring).
  - destruct n as [[a b] d], p as [[px py] pz].
    unfold dot, vsub, vadd, vx, vy, vz in *; cbn in *. lra.
  - destruct n as [[a b] d], p as [[px py] pz].
    unfold dot, vsub, vadd, vx, vy, vz in *; cbn in *. lra.
Qed.

(* ---------- geometry: reduction lemma for areHexSidesAdjacent ---------- *)

(* |l|^2 m = ((m x n2).l) n1 + ((n1 x m).l) n2 + (m.l) l   for l = n1 x n2 *)
Lemma span_identity (n1 n2 m d : rvec) :
  let l := cross n1 n2 in
  dot l l * dot d m =
  dot (cross m n2) l * dot d n1 + dot (cross n1 m) l * dot d n2 + dot m l * dot d l.
Proof.
  destruct n1 as [[a b] c], n2 as [[e f] g], m as [[p q] r], d as [[x y] z].
  unfold dot, cross, vx, vy, vz; cbn. ring.
Qed.

(* a plane parallel to the intersection line of two planes sees every point of
   that line on the same side: planeSide may be evaluated at any common point
   (the vertex of the hexagon) instead of the point the code constructs *)
Theorem side_constant_along_line (n1 n2 p1 p2 q q' : rvec) (other : rplane) :
  cross n1 n2 <> (0, 0, 0) ->
  dot (snd other) (cross n1 n2) = 0 ->
  on_plane q (p1, n1) -> on_plane q (p2, n2) ->
  on_plane q' (p1, n1) -> on_plane q' (p2, n2) ->
  planeSide RS q other = planeSide RS q' other.
Proof.
  intros Hl Hm Q1 Q2 Q1' Q2'. destruct other as [po m]. cbn [snd] in Hm.
  set (l := cross n1 n2) in *.
  assert (Hpos : 0 < dot l l) by (apply dot_self_pos; exact Hl).
  unfold on_plane in *; cbn [fst snd] in *.
  set (d := vsub q q').
  assert (D1 : dot d n1 = 0).
  { replace (dot d n1) with (dot (vsub q p1) n1 - dot (vsub q' p1) n1); [rewrite Q1, Q1'; ring|].
    unfold d. destruct q as [[x1 y1] z1], q' as [[x2 y2] z2], p1 as [[x3 y3] z3], n1 as [[a b] c].
    unfold dot, vsub, vx, vy, vz; cbn. ring. }
  assert (D2 : dot d n2 = 0).
  { replace (dot d n2) with (dot (vsub q p2) n2 - dot (vsub q' p2) n2); [rewrite Q2, Q2'; ring|].
    unfold d. destruct q as [[x1 y1] z1], q' as [[x2 y2] z2], p2 as [[x3 y3] z3], n2 as [[a b] c].
    unfold dot, vsub, vx, vy, vz; cbn. ring. }
  pose proof (span_identity n1 n2 m d) as Hspan. cbv zeta in Hspan. fold l in Hspan.
  rewrite D1, D2, Hm in Hspan.
  assert (Dm : dot d m = 0) by nra.
  assert (Heq : dot (vsub q po) m = dot (vsub q' po) m).
  { replace (dot (vsub q po) m) with (dot (vsub q' po) m + dot d m); [rewrite Dm; ring|].
    unfold d. destruct q as [[x1 y1] z1], q' as [[x2 y2] z2], po as [[x3 y3] z3], m as [[a b] c].
    unfold dot, vsub, vx, vy, vz; cbn. ring. }
  unfold planeSide. tomath. rewrite Heq. reflexivity.
Qed.

(* areHexSidesAdjacent decided at any common point V of the two planes *)
Theorem adjacent_at_vertex (p1 n1 p2 n2 V : rvec) (o1 o2 : rplane) (s1 s2 : Z) :
  cross n1 n2 <> (0, 0, 0) ->
  dot (snd o1) (cross n1 n2) = 0 -> dot (snd o2) (cross n1 n2) = 0 ->
  on_plane V (p1, n1) -> on_plane V (p2, n2) ->
  exists pt d,
    on_plane pt (p1, n1) /\ on_plane pt (p2, n2) /\
    d = vscale (1 / sqrt (dot (cross n1 n2) (cross n1 n2))) (cross n1 n2) /\
    areHexSidesAdjacent RS (p1, n1) (p2, n2) (o1, s1) (o2, s2) =
    Ok (if Z.eqb s1 (planeSide RS V o1) && Z.eqb s2 (planeSide RS V o2)
        then Some (pt, d) else None).
Proof.
  intros Hl H1 H2 V1 V2.
  destruct (plane_intersection p1 n1 p2 n2 Hl) as (pt & d & E & On1 & On2 & Hd).
  exists pt, d. split; [exact On1|]. split; [exact On2|]. split; [exact Hd|].
  unfold areHexSidesAdjacent. rewrite E.
  rewrite (side_constant_along_line n1 n2 p1 p2 pt V o1 Hl H1 On1 On2 V1 V2).
  rewrite (side_constant_along_line n1 n2 p1 p2 pt V o2 Hl H2 On1 On2 V1 V2).
  destruct (Z.eqb s1 (planeSide RS V o1) && Z.eqb s2 (planeSide RS V o2)); reflexivity.
Qed.
