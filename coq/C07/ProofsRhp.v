(* C07 — from the RHP/HEX card to the hypotheses of hex_base_vectors:
   MacroBodies.rhp + forcad.p + extract_surfaces produce, for a LAT=2 cell "-b",
   eight (plane, side) pairs that carry the sides of the hexagon, with the sense
   of the centre, in the listing order r, -r, s, -s, t, -t. *)
From Coq Require Import List Arith ZArith Bool Reals Lra Lia.
From T4V Require Import Base.Scalar C07.Model C07.ProofsAlgebra C07.ProofsComb C07.ProofsMain C07.ProofsGeom.
Import ListNotations.
Open Scope R_scope.

Definition norm (n : rvec) : R := sqrt (dot n n).

Lemma norm_pos (n : rvec) : n <> (0, 0, 0) -> 0 < norm n.
Proof. intros H. apply sqrt_lt_R0. apply dot_self_pos. exact H. Qed.

Lemma norm_sq (n : rvec) : norm n * norm n = dot n n.
Proof.
  apply sqrt_sqrt. destruct n as [[a b] c]. unfold dot, vx, vy, vz; cbn. nra.
Qed.

(* forcad.p on the parameters of planeParamsFromNormalAndPoint: the unit normal
   and the foot of the perpendicular from the origin; the plane still passes
   through the given point *)
Lemma forcad_p_plane (n p : rvec) :
  n <> (0, 0, 0) ->
  exists pt,
    forcad_p RS (planeParamsFromNormalAndPoint RS n p) = Ok (pt, vscale (1 / norm n) n) /\
    forall q, pf (pt, vscale (1 / norm n) n) q = dot (vsub q p) n / norm n.
Proof.
  intros Hn. pose proof (norm_pos n Hn) as Hp. pose proof (norm_sq n) as Hs.
  destruct n as [[a b] c], p as [[x y] z].
  unfold forcad_p, planeParamsFromNormalAndPoint, vx, vy, vz. cbn [fst snd].
  unfold norm, dot, vx, vy, vz in *. cbn [fst snd] in *.
  cbn [seqb RS s0 ssqrt sadd smul sdiv scal].
  unfold scal, vx, vy, vz; cbn [fst snd sadd smul RS].
  set (m := sqrt (a * a + b * b + c * c)) in *.
  destruct (Reqb m 0) eqn:E; [apply Reqb_true in E; lra|].
  exists (0 + a / m * ((a * x + b * y + c * z) / m), 0 + b / m * ((a * x + b * y + c * z) / m),
          0 + c / m * ((a * x + b * y + c * z) / m)). split.
  - apply (f_equal Ok). apply (f_equal2 pair); [reflexivity|].
    unfold vscale, vx, vy, vz; cbn. apply vec_eq; field; lra.
  - intros [[q1 q2] q3]. unfold pf, dot, vsub, vscale, vx, vy, vz; cbn [fst snd].
    assert (Hm : m <> 0) by lra.
    set (S := a * x + b * y + c * z).
    assert (E1 : (q1 - (0 + a / m * (S / m))) * (1 / m * a) + (q2 - (0 + b / m * (S / m))) * (1 / m * b)
                 + (q3 - (0 + c / m * (S / m))) * (1 / m * c)
                 = (q1 * a + q2 * b + q3 * c) / m - S * (a * a + b * b + c * c) / (m * m * m)) by (field; exact Hm).
    rewrite E1, <- Hs. unfold S. field. exact Hm.
Qed.

Lemma planeSide_neg (p : rplane) (q : rvec) : pf p q < 0 -> planeSide RS q p = (-1)%Z.
Proof.
  intros H. rewrite planeSide_pf.
  destruct (Rltb 0 (pf p q)) eqn:E1; [apply Rltb_true in E1; lra|].
  destruct (Rltb (pf p q) 0) eqn:E2; [reflexivity|apply Rltb_false in E2; lra].
Qed.

Lemma planeSide_pos (p : rplane) (q : rvec) : 0 < pf p q -> planeSide RS q p = 1%Z.
Proof.
  intros H. rewrite planeSide_pf.
  destruct (Rltb 0 (pf p q)) eqn:E1; [reflexivity|apply Rltb_false in E1; lra].
Qed.

Lemma dot_vscale_l (k : R) (a b : rvec) : dot (vscale k a) b = k * dot a b.
Proof. destruct a as [[a1 a2] a3], b as [[b1 b2] b3]. unfold dot, vscale, vx, vy, vz; cbn. ring. Qed.

(* the two opposite facets of normal n: through c + n and through c - n *)
Lemma rhp_pair (c u n q1 q2 : rvec) :
  n <> (0, 0, 0) -> dot n u = 0 ->
  dot (vsub q1 (vadd c n)) n = 0 -> dot (vsub q2 (vadd c n)) n = 0 ->
  exists Pp Pm,
    forcad_p RS (planeParamsFromNormalAndPoint RS n (vsum2 RS c n)) = Ok Pp /\
    forcad_p RS (planeParamsFromNormalAndPoint RS n (vdiff RS c n)) = Ok Pm /\
    (on_plane q1 Pp /\ on_plane q2 Pp /\ dot (snd Pp) u = 0 /\ planeSide RS c Pp = (-1)%Z) /\
    (on_plane (vsub (vscale 2 c) q1) Pm /\ on_plane (vsub (vscale 2 c) q2) Pm /\
     dot (snd Pm) u = 0 /\ planeSide RS c Pm = 1%Z).
Proof.
  intros Hn Hu H1 H2. pose proof (norm_pos n Hn) as Hp.
  rewrite vsum2_vadd. change (@vdiff R RS) with vsub.
  destruct (forcad_p_plane n (vadd c n) Hn) as (pt1 & E1 & F1).
  destruct (forcad_p_plane n (vsub c n) Hn) as (pt2 & E2 & F2).
  exists (pt1, vscale (1 / norm n) n), (pt2, vscale (1 / norm n) n).
  split; [exact E1|]. split; [exact E2|].
  assert (Hnn : 0 < dot n n) by (apply dot_self_pos; exact Hn).
  split; repeat split.
  - unfold on_plane. change (pf (pt1, vscale (1 / norm n) n) q1 = 0). rewrite F1, H1. field. lra.
  - unfold on_plane. change (pf (pt1, vscale (1 / norm n) n) q2 = 0). rewrite F1, H2. field. lra.
  - cbn [snd]. rewrite dot_vscale_l, Hu. ring.
  - apply planeSide_neg. rewrite F1.
    assert (E : dot (vsub c (vadd c n)) n = - dot n n).
    { destruct c as [[c1 c2] c3], n as [[n1 n2] n3]. unfold dot, vsub, vadd, vx, vy, vz; cbn. ring. }
    rewrite E. apply Rmult_lt_reg_r with (norm n); [exact Hp|]. field_simplify; lra.
  - unfold on_plane. change (pf (pt2, vscale (1 / norm n) n) (vsub (vscale 2 c) q1) = 0). rewrite F2.
    assert (E : dot (vsub (vsub (vscale 2 c) q1) (vsub c n)) n = - dot (vsub q1 (vadd c n)) n).
    { destruct c as [[c1 c2] c3], n as [[n1 n2] n3], q1 as [[x y] z].
      unfold dot, vsub, vadd, vscale, vx, vy, vz; cbn. ring. }
    rewrite E, H1. field. lra.
  - unfold on_plane. change (pf (pt2, vscale (1 / norm n) n) (vsub (vscale 2 c) q2) = 0). rewrite F2.
    assert (E : dot (vsub (vsub (vscale 2 c) q2) (vsub c n)) n = - dot (vsub q2 (vadd c n)) n).
    { destruct c as [[c1 c2] c3], n as [[n1 n2] n3], q2 as [[x y] z].
      unfold dot, vsub, vadd, vscale, vx, vy, vz; cbn. ring. }
    rewrite E, H2. field. lra.
  - cbn [snd]. rewrite dot_vscale_l, Hu. ring.
  - apply planeSide_pos. rewrite F2.
    assert (E : dot (vsub c (vsub c n)) n = dot n n).
    { destruct c as [[c1 c2] c3], n as [[n1 n2] n3]. unfold dot, vsub, vx, vy, vz; cbn. ring. }
    rewrite E. apply Rmult_lt_reg_r with (norm n); [exact Hp|]. field_simplify; lra.
Qed.

Definition params15 (c h r s t : rvec) : list R :=
  [vx c; vy c; vz c; vx h; vy h; vz h; vx r; vy r; vz r; vx s; vy s; vz s; vx t; vy t; vz t].

Lemma vec_eta (v : rvec) : (vx v, vy v, vz v) = v.
Proof. destruct v as [[a b] c]. reflexivity. Qed.

Section Rhp15.
  Context (c h r s t : rvec) (w : nat -> rvec) (a b d : nat).
  Notation wv := (wv w).
  Let l : list nat := [a; opp a; b; opp b; d; opp d].

  Hypothesis Hl : In l all_listings.
  Hypothesis Hh : h <> (0, 0, 0).
  Hypothesis Hr : r <> (0, 0, 0).
  Hypothesis Hs : s <> (0, 0, 0).
  Hypothesis Ht : t <> (0, 0, 0).
  Hypothesis Hrh : dot r h = 0.
  Hypothesis Hsh : dot s h = 0.
  Hypothesis Hth : dot t h = 0.
  Hypothesis Hsym : forall k, wv (k + 3) = vsub (vscale 2 c) (wv k).
  (* c + r, c + s, c + t are the feet of the perpendiculars from the axis to the
     lines of sides a, b, d *)
  Hypothesis Fa : dot (vsub (wv a) (vadd c r)) r = 0 /\ dot (vsub (wv (a + 5)) (vadd c r)) r = 0.
  Hypothesis Fb : dot (vsub (wv b) (vadd c s)) s = 0 /\ dot (vsub (wv (b + 5)) (vadd c s)) s = 0.
  Hypothesis Fd : dot (vsub (wv d) (vadd c t)) t = 0 /\ dot (vsub (wv (d + 5)) (vadd c t)) t = 0.

  Lemma wv_opp k : wv (opp k) = vsub (vscale 2 c) (wv k).
  Proof.
    rewrite <- Hsym. unfold ProofsMain.wv, opp. rewrite Nat.mod_mod by lia. reflexivity.
  Qed.

  Lemma wv_opp5 k : wv (opp k + 5) = vsub (vscale 2 c) (wv (k + 5)).
  Proof.
    rewrite <- Hsym. unfold ProofsMain.wv, opp. rewrite Nat.add_mod_idemp_l by lia.
    f_equal. f_equal. lia.
  Qed.

  Theorem rhp_cell_hypotheses :
    exists surfs,
      rhp_cell_surfaces RS (params15 c h r s t) = Ok surfs /\ List.length surfs = 8%nat /\
      (forall i, (i < 6)%nat -> carries h w (pl surfs i) (side_at l i)) /\
      (forall i, (i < 6)%nat -> sd surfs i = planeSide RS c (pl surfs i) /\ sd surfs i <> 0%Z) /\
      snd (pl surfs 6) = vscale (1 / norm h) h /\ snd (pl surfs 7) = vscale (1 / norm h) h /\
      (forall q, pf (pl surfs 6) q = dot (vsub q (vadd c h)) h / norm h) /\
      (forall q, pf (pl surfs 7) q = dot (vsub q c) h / norm h).
  Proof.
    destruct Fa as [Fa1 Fa2], Fb as [Fb1 Fb2], Fd as [Fd1 Fd2].
    destruct (rhp_pair c h r (wv a) (wv (a + 5)) Hr Hrh Fa1 Fa2) as (P1 & P2 & E1 & E2 & A1 & A2).
    destruct (rhp_pair c h s (wv b) (wv (b + 5)) Hs Hsh Fb1 Fb2) as (P3 & P4 & E3 & E4 & B1 & B2).
    destruct (rhp_pair c h t (wv d) (wv (d + 5)) Ht Hth Fd1 Fd2) as (P5 & P6 & E5 & E6 & D1 & D2).
    destruct (forcad_p_plane h (vadd c h) Hh) as (pt7 & E7 & F7).
    destruct (forcad_p_plane h c Hh) as (pt8 & E8 & F8).
    set (P7 := (pt7, vscale (1 / norm h) h)) in *. set (P8 := (pt8, vscale (1 / norm h) h)) in *.
    exists [(P1, (-1)%Z); (P2, 1%Z); (P3, (-1)%Z); (P4, 1%Z); (P5, (-1)%Z); (P6, 1%Z);
            (P7, (-1)%Z); (P8, 1%Z)].
    split.
    { unfold rhp_cell_surfaces, rhp_surfaces, rhp, params15, bind.
      cbn [List.length Nat.eqb orb negb firstn skipn vec_of3].
      rewrite !vec_eta. cbn [parts_to_surfs].
      rewrite <- (vsum2_vadd c h) in E7.
      rewrite E1, E2, E3, E4, E5, E6, E7, E8. reflexivity. }
    split; [reflexivity|].
    destruct A1 as (A11 & A12 & A13 & A14), A2 as (A21 & A22 & A23 & A24).
    destruct B1 as (B11 & B12 & B13 & B14), B2 as (B21 & B22 & B23 & B24).
    destruct D1 as (D11 & D12 & D13 & D14), D2 as (D21 & D22 & D23 & D24).
    split; [|split; [|split; [reflexivity|split; [reflexivity|split; [exact F7|exact F8]]]]].
    - intros i Hi. unfold carries, pl, nth_surf, side_at, l.
      do 6 (destruct i as [|i]; [cbn [nth fst]; rewrite ?wv_opp, ?wv_opp5; repeat split; assumption|]). lia.
    - intros i Hi. unfold sd, pl, nth_surf.
      do 6 (destruct i as [|i]; [cbn [nth fst snd]; split; [symmetry; assumption|discriminate]|]). lia.
  Qed.

  (* the hexagon is drawn in the plane through c perpendicular to the axis *)
  Hypothesis Hflat : forall k, dot (vsub (wv k) c) h = 0.
  Hypothesis Hturn :
    (forall k, 0 < det3 (vsub (wv (k + 1)) (wv k)) (vsub (wv (k + 2)) (wv (k + 1))) h) \/
    (forall k, det3 (vsub (wv (k + 1)) (wv k)) (vsub (wv (k + 2)) (wv (k + 1))) h < 0).

  Lemma across_flat k : dot (across c w k) h = 0.
  Proof.
    unfold across. pose proof (Hflat k) as H1. pose proof (Hflat (k + 5)) as H2.
    destruct (vsub (wv k) c) as [[x1 y1] z1], (vsub (wv (k + 5)) c) as [[x2 y2] z2], h as [[h1 h2] h3].
    unfold dot, vadd, vx, vy, vz in *; cbn in *. lra.
  Qed.

  (* the base vectors of a LAT=2 cell "-b", b an RHP/HEX card with 15 entries:
     a1, a2 = the translations across the sides of r and s, a3 = h *)
  Theorem rhp_lattice_vectors :
    hexLatticeBaseVectors_rhp RS (params15 c h r s t) = Ok [across c w a; across c w b; h].
  Proof.
    destruct rhp_cell_hypotheses as (surfs & E & L & Hc & Hsd & N7 & N8 & F7 & F8).
    unfold hexLatticeBaseVectors_rhp, bind. rewrite E.
    pose proof (norm_pos h Hh) as Hp. pose proof (norm_sq h) as Hq.
    assert (Hhh : 0 < dot h h) by (apply dot_self_pos; exact Hh).
    assert (U7 : dot h (snd (pl surfs 6)) = norm h).
    { rewrite N7, dot_comm, dot_vscale_l. rewrite <- Hq. field. lra. }
    assert (U8 : dot h (snd (pl surfs 7)) = norm h).
    { rewrite N8, dot_comm, dot_vscale_l. rewrite <- Hq. field. lra. }
    destruct (hex_base_vectors c h w l surfs Hl Hc Hsd Hsym Hturn) as [_ H8].
    destruct (H8 L) as (tau & Eb & Hlam); [rewrite U7; lra|rewrite U8; lra|].
    rewrite Eb.
    destruct (Hlam 1) as [Et _].
    { rewrite N7, N8. destruct (vscale (1 / norm h) h) as [[x y] z].
      unfold vscale, vx, vy, vz; cbn. apply vec_eq; ring. }
    assert (Etau : tau = 1).
    { rewrite Et, U7.
      assert (G : dot (vsub (fst (pl surfs 6)) (fst (pl surfs 7))) (snd (pl surfs 6)) = norm h).
      { rewrite N7, <- N8. change (pf (pl surfs 7) (fst (pl surfs 6)) = norm h). rewrite F8.
        pose proof (F7 (fst (pl surfs 6))) as Z.
        assert (Z0 : pf (pl surfs 6) (fst (pl surfs 6)) = 0).
        { unfold pf. destruct (fst (pl surfs 6)) as [[x y] z], (snd (pl surfs 6)) as [[n1 n2] n3].
          unfold dot, vsub, vx, vy, vz; cbn. ring. }
        rewrite Z0 in Z.
        assert (Z1 : dot (vsub (fst (pl surfs 6)) (vadd c h)) h = 0).
        { apply (Rmult_eq_compat_r (norm h)) in Z. field_simplify in Z; lra. }
        assert (Z2 : dot (vsub (fst (pl surfs 6)) c) h = dot h h).
        { assert (Z3 : dot (vsub (fst (pl surfs 6)) c) h
                       = dot (vsub (fst (pl surfs 6)) (vadd c h)) h + dot h h).
          { destruct (fst (pl surfs 6)) as [[x y] z], c as [[c1 c2] c3], h as [[h1 h2] h3].
            unfold dot, vsub, vadd, vx, vy, vz; cbn. ring. }
          rewrite Z3, Z1. ring. }
        rewrite Z2, <- Hq. field. lra. }
      rewrite G. field. lra. }
    assert (P : forall k, proj_par h (snd (pl surfs 6)) (across c w k) = across c w k).
    { intros k. apply proj_par_meaning; [rewrite U7; lra|].
      rewrite N7, dot_comm, dot_vscale_l, dot_comm, across_flat. ring. }
    rewrite !P, Etau. unfold l, side_at. cbn [nth]. f_equal. f_equal. f_equal. f_equal.
    destruct h as [[h1 h2] h3]. unfold vscale, vx, vy, vz; cbn. apply vec_eq; ring.
  Qed.
End Rhp15.

(* ---------- nine entries: the regular prism ---------- *)

Definition params9 (c h r : rvec) : list R :=
  [vx c; vy c; vz c; vx h; vy h; vz h; vx r; vy r; vz r].

Definition unit_of (h : rvec) : rvec := vscale (1 / norm h) h.

Lemma renorm_unit (h : rvec) : h <> (0, 0, 0) -> renorm RS h = Ok (unit_of h).
Proof.
  intros Hh. pose proof (norm_pos h Hh) as Hp. unfold renorm, mag, mag2.
  change (@scal R RS h h) with (dot h h). cbn [ssqrt seqb RS s0 s1 sdiv].
  fold (norm h). destruct (Reqb (norm h) 0) eqn:E; [apply Reqb_true in E; lra|reflexivity].
Qed.

Lemma rotate_perp (r k : rvec) (ang : R) :
  dot k r = 0 -> rotate RS r k ang = vadd (vscale (cos ang) r) (vscale (sin ang) (cross k r)).
Proof.
  intros H. unfold rotate. change (@scal R RS k r) with (dot k r). rewrite H, vect_cross.
  generalize (cross k r). intros [[m1 m2] m3].
  destruct r as [[r1 r2] r3], k as [[k1 k2] k3].
  unfold vsum3, rescale, vadd, vscale, vx, vy, vz. cbn [fst snd scos ssin RS smul ssub sadd s0 s1].
  apply vec_eq; ring.
Qed.

Lemma rhp9_as_15 (c h r : rvec) :
  h <> (0, 0, 0) ->
  rhp RS (params9 c h r) =
  rhp RS (params15 c h r (rotate RS r (unit_of h) (PI / 3)) (rotate RS r (unit_of h) (2 * PI / 3))).
Proof.
  intros Hh. unfold rhp, params9, params15.
  cbn [List.length Nat.eqb orb negb firstn skipn vec_of3]. rewrite !vec_eta, (renorm_unit h Hh).
  cbn [sdiv smul spi sofZ RS]. reflexivity.
Qed.

Lemma det3_regular (r m h : rvec) :
  det3 (vscale (2 / 3) (vadd r (vadd (vscale (1 / 2) r) m))) (vsub (vadd (vscale (1 / 2) r) m) r) h
  = 4 / 3 * det3 r m h.
Proof.
  destruct h as [[h1 h2] h3], r as [[r1 r2] r3], m as [[m1 m2] m3].
  unfold det3, dot, cross, vadd, vsub, vscale, vx, vy, vz; cbn. field.
Qed.

(* r, m (perpendicular to r and to the axis, |m|^2 = 3/4 |r|^2): the regular
   hexagon with apothem vector r has its sides on the planes of normals
   r, s = r/2 + m, t = -r/2 + m through c + r, c + s, c + t *)
Lemma comb_flat (c e1 e2 h : rvec) (x y : R) :
  dot (vsub (vadd c (vadd (vscale x e1) (vscale y e2))) c) h = x * dot e1 h + y * dot e2 h.
Proof.
  destruct c as [[c1 c2] c3], e1 as [[a1 a2] a3], e2 as [[b1 b2] b3], h as [[h1 h2] h3].
  unfold dot, vadd, vsub, vscale, vx, vy, vz; cbn. ring.
Qed.

(* all the scalar facts about the regular hexagon, in components *)
Lemma regular_facts (c h r m : rvec) :
  dot r h = 0 -> dot m h = 0 -> dot r m = 0 -> dot m m = 3 / 4 * dot r r ->
  let s := vadd (vscale (1 / 2) r) m in
  let t := vadd (vscale (- (1 / 2)) r) m in
  let w := hexagon_of c (vscale (2 / 3) (vadd r s)) (vsub s r) 1 in
  dot s s = dot r r /\ dot t t = dot r r /\ dot s h = 0 /\ dot t h = 0 /\
  dot (vscale (2 / 3) (vadd r s)) h = 0 /\ dot (vsub s r) h = 0 /\
  (dot (vsub (w 0%nat) (vadd c r)) r = 0 /\ dot (vsub (w 5%nat) (vadd c r)) r = 0) /\
  (dot (vsub (w 1%nat) (vadd c s)) s = 0 /\ dot (vsub (w 0%nat) (vadd c s)) s = 0) /\
  (dot (vsub (w 2%nat) (vadd c t)) t = 0 /\ dot (vsub (w 1%nat) (vadd c t)) t = 0) /\
  vadd (vsub (w 0%nat) c) (vsub (w 5%nat) c) = vscale 2 r /\
  vadd (vsub (w 1%nat) c) (vsub (w 0%nat) c) = vscale 2 s.
Proof.
  destruct c as [[c1 c2] c3], h as [[h1 h2] h3], r as [[r1 r2] r3], m as [[m1 m2] m3].
  cbv beta iota zeta delta [hexagon_of dot vadd vsub vscale vx vy vz fst snd].
  intros Rh Mh Rm MM.
  repeat split; try lra; apply vec_eq; lra.
Qed.

Section Regular.
  Context (c h r m : rvec).
  Hypothesis Hh : h <> (0, 0, 0).
  Hypothesis Hr : r <> (0, 0, 0).
  Hypothesis Rh : dot r h = 0.
  Hypothesis Mh : dot m h = 0.
  Hypothesis Rm : dot r m = 0.
  Hypothesis MM : dot m m = 3 / 4 * dot r r.
  Hypothesis Hdet : 0 < det3 r m h.

  Let s : rvec := vadd (vscale (1 / 2) r) m.
  Let t : rvec := vadd (vscale (- (1 / 2)) r) m.
  Let w : nat -> rvec := hexagon_of c (vscale (2 / 3) (vadd r s)) (vsub s r) 1.

  Ltac modc := repeat match goal with
    | |- context [(?a mod 6)%nat] =>
        let v := eval vm_compute in (a mod 6)%nat in change (a mod 6)%nat with v
    end.

  Lemma reg_s_nz : s <> (0, 0, 0).
  Proof.
    intros Z. assert (E : dot s s = 0) by (rewrite Z; unfold dot, vx, vy, vz; cbn; ring).
    destruct (regular_facts c h r m Rh Mh Rm MM) as (F & _). fold s in F.
    pose proof (dot_self_pos r Hr). lra.
  Qed.

  Lemma reg_t_nz : t <> (0, 0, 0).
  Proof.
    intros Z. assert (E : dot t t = 0) by (rewrite Z; unfold dot, vx, vy, vz; cbn; ring).
    destruct (regular_facts c h r m Rh Mh Rm MM) as (_ & F & _). fold t in F.
    pose proof (dot_self_pos r Hr). lra.
  Qed.

  Lemma reg_flat k : dot (vsub (wv w k) c) h = 0.
  Proof.
    destruct (regular_facts c h r m Rh Mh Rm MM) as (_ & _ & _ & _ & E1 & E2 & _). fold s in E1, E2.
    unfold wv, w. rewrite hexagon_of_xy, comb_flat, E1, E2. ring.
  Qed.

  Theorem regular_lattice_vectors :
    hexLatticeBaseVectors_rhp RS (params15 c h r s t) = Ok [vscale 2 r; vscale 2 s; h].
  Proof.
    assert (Hl : In [0; opp 0; 1; opp 1; 2; opp 2]%nat all_listings)
      by (apply admissible_iff; vm_compute; reflexivity).
    assert (Hturn : forall k, 0 < det3 (vsub (wv w (k + 1)) (wv w k)) (vsub (wv w (k + 2)) (wv w (k + 1))) h).
    { intros k. apply hexagon_of_turn; [lra|].
      pose proof (det3_regular r m h) as E. fold s in E.
      rewrite E. lra. }
    destruct (regular_facts c h r m Rh Mh Rm MM) as (_ & _ & Sh & Th & _ & _ & Fa & Fb & Fd & A0 & A1).
    fold s in Sh, Fa, Fb, Fd, A0, A1. fold t in Th, Fd. fold w in Fa, Fb, Fd, A0, A1.
    rewrite (rhp_lattice_vectors c h r s t w 0 1 2 Hl Hh Hr reg_s_nz reg_t_nz Rh Sh Th).
    - unfold across, wv. modc. rewrite A0, A1. reflexivity.
    - intros k. apply hexagon_of_sym.
    - unfold wv. modc. exact Fa.
    - unfold wv. modc. exact Fb.
    - unfold wv. modc. exact Fd.
    - exact reg_flat.
    - left. exact Hturn.
  Qed.
End Regular.

Lemma cross_perp_l (k r : rvec) : dot (cross k r) k = 0.
Proof. destruct k as [[a b] c], r as [[d e] f]. unfold dot, cross, vx, vy, vz; cbn. ring. Qed.

Lemma cross_perp_r (k r : rvec) : dot r (cross k r) = 0.
Proof. destruct k as [[a b] c], r as [[d e] f]. unfold dot, cross, vx, vy, vz; cbn. ring. Qed.

Lemma lagrange (k r : rvec) :
  dot (cross k r) (cross k r) = dot k k * dot r r - dot k r * dot k r.
Proof. destruct k as [[a b] c], r as [[d e] f]. unfold dot, cross, vx, vy, vz; cbn. ring. Qed.

Lemma det3_r_cross (k r : rvec) :
  det3 r (cross k r) k = dot k k * dot r r - dot k r * dot k r.
Proof. destruct k as [[a b] c], r as [[d e] f]. unfold det3, dot, cross, vx, vy, vz; cbn. ring. Qed.

Lemma unit_of_unit (h : rvec) : h <> (0, 0, 0) -> dot (unit_of h) (unit_of h) = 1.
Proof.
  intros Hh. pose proof (norm_pos h Hh). pose proof (norm_sq h) as Hq.
  unfold unit_of. rewrite dot_vscale_l, dot_comm, dot_vscale_l, <- Hq. field. lra.
Qed.

(* a LAT=2 cell "-b", b an RHP/HEX card with nine entries v h r (r perpendicular
   to h): a1 = 2 r, a2 = 2 s with s = r rotated by 60 degrees about h (the
   vector the code computes for the second pair of facets), a3 = h *)
Theorem rhp9_lattice_vectors (c h r : rvec) :
  h <> (0, 0, 0) -> r <> (0, 0, 0) -> dot r h = 0 ->
  hexLatticeBaseVectors_rhp RS (params9 c h r) =
  Ok [vscale 2 r; vscale 2 (rotate RS r (unit_of h) (PI / 3)); h] /\
  rotate RS r (unit_of h) (PI / 3) =
  vadd (vscale (1 / 2) r) (vscale (sqrt 3 / 2) (cross (unit_of h) r)).
Proof.
  intros Hh Hr Rh. set (k := unit_of h). set (m := vscale (sqrt 3 / 2) (cross k r)).
  pose proof (norm_pos h Hh) as Hp.
  assert (Kr : dot k r = 0) by (unfold k, unit_of; rewrite dot_vscale_l, dot_comm, Rh; ring).
  assert (Es : rotate RS r k (PI / 3) = vadd (vscale (1 / 2) r) m).
  { rewrite (rotate_perp r k _ Kr), cos_PI3, sin_PI3. reflexivity. }
  assert (Et : rotate RS r k (2 * PI / 3) = vadd (vscale (- (1 / 2)) r) m).
  { rewrite (rotate_perp r k _ Kr). replace (2 * PI / 3) with (2 * (PI / 3)) by field.
    rewrite cos_2PI3, sin_2PI3. unfold m.
    destruct r as [[r1 r2] r3], (cross k (r1, r2, r3)) as [[m1 m2] m3].
    unfold vadd, vscale, vx, vy, vz; cbn. apply vec_eq; field. }
  split; [|exact Es].
  unfold hexLatticeBaseVectors_rhp, rhp_cell_surfaces, rhp_surfaces.
  rewrite (rhp9_as_15 c h r Hh). fold k. rewrite Es, Et.
  assert (S3 : sqrt 3 * sqrt 3 = 3) by (apply sqrt_sqrt; lra).
  assert (Kk : dot k k = 1) by (apply unit_of_unit; exact Hh).
  assert (Hk : h = vscale (norm h) k).
  { unfold k, unit_of. destruct h as [[h1 h2] h3]. unfold vscale, vx, vy, vz; cbn.
    apply vec_eq; field; lra. }
  pose proof (regular_lattice_vectors c h r m Hh Hr Rh) as Reg.
  unfold hexLatticeBaseVectors_rhp, rhp_cell_surfaces, rhp_surfaces in Reg. apply Reg.
  - assert (Ch : dot (cross k r) h = 0).
    { transitivity (dot (cross k r) (vscale (norm h) k)); [f_equal; exact Hk|].
      rewrite dot_comm, dot_vscale_l, dot_comm, cross_perp_l. ring. }
    unfold m. rewrite dot_vscale_l, Ch. ring.
  - unfold m. rewrite dot_comm, dot_vscale_l, dot_comm, cross_perp_r. ring.
  - unfold m. rewrite dot_vscale_l, dot_comm, dot_vscale_l, lagrange, Kk, Kr.
    replace (sqrt 3 / 2 * (sqrt 3 / 2 * (1 * dot r r - 0 * 0))) with (sqrt 3 * sqrt 3 / 4 * dot r r) by field.
    rewrite S3. field.
  - assert (E : det3 r m h = sqrt 3 / 2 * norm h * det3 r (cross k r) k).
    { transitivity (det3 r m (vscale (norm h) k)); [f_equal; exact Hk|].
      unfold m. generalize (cross k r) (norm h) (sqrt 3 / 2). intros x nh q. clearbody k.
      destruct r as [[r1 r2] r3], x as [[x1 x2] x3], k as [[k1 k2] k3].
      unfold det3, dot, cross, vscale, vx, vy, vz; cbn. ring. }
    rewrite E, det3_r_cross, Kk, Kr.
    assert (0 < dot r r) by (apply dot_self_pos; exact Hr).
    assert (0 < sqrt 3) by (apply sqrt_lt_R0; lra).
    replace (sqrt 3 / 2 * norm h * (1 * dot r r - 0 * 0)) with (sqrt 3 / 2 * norm h * dot r r) by ring.
    apply Rmult_lt_0_compat; [apply Rmult_lt_0_compat; lra|assumption].
Qed.
