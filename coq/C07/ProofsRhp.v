(* C07 — from the RHP/HEX card to the hypotheses of hex_base_vectors:
   MacroBodies.rhp + forcad.p + extract_surfaces produce, for a LAT=2 cell "-b",
   eight (plane, side) pairs that carry the sides of the hexagon, with the sense
   of the centre, in the listing order r, -r, s, -s, t, -t. *)
From Coq Require Import List Arith ZArith Bool Reals Lra Lia.
From T4V Require Import Base.Scalar C07.Model C07.ProofsAlgebra C07.ProofsComb C07.ProofsMain C07.ProofsGeom.
Import ListNotations.
Open Scope R_scope.

Definition norm (n : rvec) : R := sqrt (dot n n).

Lemma norm_pos (n : rvec) : n <> (0, 0, 0) -> 0 < norm n.
Proof. intros H. apply sqrt_lt_R0. apply dot_self_pos. exact H. Qed.

Lemma norm_sq (n : rvec) : norm n * norm n = dot n n.
Proof.
  apply sqrt_sqrt. destruct n as [[a b] c]. unfold dot, vx, vy, vz; cbn. nra.
Qed.

(* forcad.p on the parameters of planeParamsFromNormalAndPoint: the unit normal
   and the foot of the perpendicular from the origin; the plane still passes
   through the given point *)
Lemma forcad_p_plane (n p : rvec) :
  n <> (0, 0, 0) ->
  exists pt,
    forcad_p RS (planeParamsFromNormalAndPoint RS n p) = Ok (pt, vscale (1 / norm n) n) /\
    forall q, pf (pt, vscale (1 / norm n) n) q = dot (vsub q p) n / norm n.
Proof.
  intros Hn. pose proof (norm_pos n Hn) as Hp. pose proof (norm_sq n) as Hs.
  destruct n as [[a b] c], p as [[x y] z].
  unfold forcad_p, planeParamsFromNormalAndPoint, vx, vy, vz. cbn [fst snd].
  unfold norm, dot, vx, vy, vz in *. cbn [fst snd] in *.
  cbn [seqb RS s0 ssqrt sadd smul sdiv scal].
  unfold scal, vx, vy, vz; cbn [fst snd sadd smul RS].
  set (m := sqrt (a * a + b * b + c * c)) in *.
  destruct (Reqb m 0) eqn:E; [apply Reqb_true in E; lra|].
  exists (0 + a / m * ((a * x + b * y + c * z) / m), 0 + b / m * ((a * x + b * y + c * z) / m),
          0 + c / m * ((a * x + b * y + c * z) / m)). split.
  - apply (f_equal Ok). apply (f_equal2 pair); [reflexivity|].
    unfold vscale, vx, vy, vz; cbn. apply vec_eq; field; lra.
  - intros [[q1 q2] q3]. unfold pf, dot, vsub, vscale, vx, vy, vz; cbn [fst snd].
    assert (Hm : m <> 0) by lra.
    set (S := a * x + b * y + c * z).
    assert (E1 : (q1 - (0 + a / m * (S / m))) * (1 / m * a) + (q2 - (0 + b / m * (S / m))) * (1 / m * b)
                 + (q3 - (0 + c / m * (S / m))) * (1 / m * c)
                 = (q1 * a + q2 * b + q3 * c) / m - S * (a * a + b * b + c * c) / (m * m * m)) by (field; exact Hm).
    rewrite E1, <- Hs. unfold S. field. exact Hm.
Qed.

Lemma planeSide_neg (p : rplane) (q : rvec) : pf p q < 0 -> planeSide RS q p = (-1)%Z.
Proof.
  intros H. rewrite planeSide_pf.
  destruct (Rltb 0 (pf p q)) eqn:E1; [apply Rltb_true in E1; lra|].
  destruct (Rltb (pf p q) 0) eqn:E2; [reflexivity|apply Rltb_false in E2; lra].
Qed.

Lemma planeSide_pos (p : rplane) (q : rvec) : 0 < pf p q -> planeSide RS q p = 1%Z.
Proof.
  intros H. rewrite planeSide_pf.
  destruct (Rltb 0 (pf p q)) eqn:E1; [reflexivity|apply Rltb_false in E1; lra].
Qed.

Lemma dot_vscale_l (k : R) (a b : rvec) : dot (vscale k a) b = k * dot a b.
Proof. destruct a as [[a1 a2] a3], b as [[b1 b2] b3]. unfold dot, vscale, vx, vy, vz; cbn. ring. Qed.

(* the two opposite facets of normal n: through c + n and through c - n *)
Lemma rhp_pair (c u n q1 q2 : rvec) :
  n <> (0, 0, 0) -> dot n u = 0 ->
  dot (vsub q1 (vadd c n)) n = 0 -> dot (vsub q2 (vadd c n)) n = 0 ->
  exists Pp Pm,
    forcad_p RS (planeParamsFromNormalAndPoint RS n (vsum2 RS c n)) = Ok Pp /\
    forcad_p RS (planeParamsFromNormalAndPoint RS n (vdiff RS c n)) = Ok Pm /\
    (on_plane q1 Pp /\ on_plane q2 Pp /\ dot (snd Pp) u = 0 /\ planeSide RS c Pp = (-1)%Z) /\
    (on_plane (vsub (vscale 2 c) q1) Pm /\ on_plane (vsub (vscale 2 c) q2) Pm /\
     dot (snd Pm) u = 0 /\ planeSide RS c Pm = 1%Z).
Proof.
  intros Hn Hu H1 H2. pose proof (norm_pos n Hn) as Hp.
  rewrite vsum2_vadd. change (@vdiff R RS) with vsub.
  destruct (forcad_p_plane n (vadd c n) Hn) as (pt1 & E1 & F1).
  destruct (forcad_p_plane n (vsub c n) Hn) as (pt2 & E2 & F2).
  exists (pt1, vscale (1 / norm n) n), (pt2, vscale (1 / norm n) n).
  split; [exact E1|]. split; [exact E2|].
  assert (Hnn : 0 < dot n n) by (apply dot_self_pos; exact Hn).
  split; repeat split.
  - unfold on_plane. change (pf (pt1, vscale (1 / norm n) n) q1 = 0). rewrite F1, H1. field. lra.
  - unfold on_plane. change (pf (pt1, vscale (1 / norm n) n) q2 = 0). rewrite F1, H2. field. lra.
  - cbn [snd]. rewrite dot_vscale_l, Hu. ring.
  - apply planeSide_neg. rewrite F1.
    assert (E : dot (vsub c (vadd c n)) n = - dot n n).
    { destruct c as [[c1 c2] c3], n as [[n1 n2] n3]. unfold dot, vsub, vadd, vx, vy, vz; cbn. ring. }
    rewrite E. apply Rmult_lt_reg_r with (norm n); [exact Hp|]. field_simplify; lra.
  - unfold on_plane. change (pf (pt2, vscale (1 / norm n) n) (vsub (vscale 2 c) q1) = 0). rewrite F2.
    assert (E : dot (vsub (vsub (vscale 2 c) q1) (vsub c n)) n = - dot (vsub q1 (vadd c n)) n).
    { destruct c as [[c1 c2] c3], n as [[n1 n2] n3], q1 as [[x y] z].
      unfold dot, vsub, vadd, vscale, vx, vy, vz; cbn. ring. }
    rewrite E, H1. field. lra.
  - unfold on_plane. change (pf (pt2, vscale (1 / norm n) n) (vsub (vscale 2 c) q2) = 0). rewrite F2.
    assert (E : dot (vsub (vsub (vscale 2 c) q2) (vsub c n)) n = - dot (vsub q2 (vadd c n)) n).
    { destruct c as [[c1 c2] c3], n as [[n1 n2] n3], q2 as [[x y] z].
      unfold dot, vsub, vadd, vscale, vx, vy, vz; cbn. ring. }
    rewrite E, H2. field. lra.
  - cbn [snd]. rewrite dot_vscale_l, Hu. ring.
  - apply planeSide_pos. rewrite F2.
    assert (E : dot (vsub c (vsub c n)) n = dot n n).
    { destruct c as [[c1 c2] c3], n as [[n1 n2] n3]. unfold dot, vsub, vx, vy, vz; cbn. ring. }
    rewrite E. apply Rmult_lt_reg_r with (norm n); [exact Hp|]. field_simplify; lra.
Qed.

Definition params15 (c h r s t : rvec) : list R :=
  [vx c; vy c; vz c; vx h; vy h; vz h; vx r; vy r; vz r; vx s; vy s; vz s; vx t; vy t; vz t].

Lemma vec_eta (v : rvec) : (vx v, vy v, vz v) = v.
Proof. destruct v as [[a b] c]. reflexivity. Qed.

Section Rhp15.
  Context (c h r s t : rvec) (w : nat -> rvec) (a b d : nat).
  Notation wv := (wv w).
  Let l : list nat := [a; opp a; b; opp b; d; opp d].

  Hypothesis Hl : In l all_listings.
  Hypothesis Hh : h <> (0, 0, 0).
  Hypothesis Hr : r <> (0, 0, 0).
  Hypothesis Hs : s <> (0, 0, 0).
  Hypothesis Ht : t <> (0, 0, 0).
  Hypothesis Hrh : dot r h = 0.
  Hypothesis Hsh : dot s h = 0.
  Hypothesis Hth : dot t h = 0.
  Hypothesis Hsym : forall k, wv (k + 3) = vsub (vscale 2 c) (wv k).
  (* c + r, c + s, c + t are the feet of the perpendiculars from the axis to the
     lines of sides a, b, d *)
  Hypothesis Fa : dot (vsub (wv a) (vadd c r)) r = 0 /\ dot (vsub (wv (a + 5)) (vadd c r)) r = 0.
  Hypothesis Fb : dot (vsub (wv b) (vadd c s)) s = 0 /\ dot (vsub (wv (b + 5)) (vadd c s)) s = 0.
  Hypothesis Fd : dot (vsub (wv d) (vadd c t)) t = 0 /\ dot (vsub (wv (d + 5)) (vadd c t)) t = 0.

  Lemma wv_opp k : wv (opp k) = vsub (vscale 2 c) (wv k).
  Proof.
    rewrite <- Hsym. unfold ProofsMain.wv, opp. rewrite Nat.mod_mod by lia. reflexivity.
  Qed.

  Lemma wv_opp5 k : wv (opp k + 5) = vsub (vscale 2 c) (wv (k + 5)).
  Proof.
    rewrite <- Hsym. unfold ProofsMain.wv, opp. rewrite Nat.add_mod_idemp_l by lia.
    f_equal. f_equal. lia.
  Qed.

  Theorem rhp_cell_hypotheses :
    exists surfs,
      rhp_cell_surfaces RS (params15 c h r s t) = Ok surfs /\ List.length surfs = 8%nat /\
      (forall i, (i < 6)%nat -> carries h w (pl surfs i) (side_at l i)) /\
      (forall i, (i < 6)%nat -> sd surfs i = planeSide RS c (pl surfs i) /\ sd surfs i <> 0%Z) /\
      snd (pl surfs 6) = vscale (1 / norm h) h /\ snd (pl surfs 7) = vscale (1 / norm h) h /\
      (forall q, pf (pl surfs 6) q = dot (vsub q (vadd c h)) h / norm h) /\
      (forall q, pf (pl surfs 7) q = dot (vsub q c) h / norm h).
  Proof.
    destruct Fa as [Fa1 Fa2], Fb as [Fb1 Fb2], Fd as [Fd1 Fd2].
    destruct (rhp_pair c h r (wv a) (wv (a + 5)) Hr Hrh Fa1 Fa2) as (P1 & P2 & E1 & E2 & A1 & A2).
    destruct (rhp_pair c h s (wv b) (wv (b + 5)) Hs Hsh Fb1 Fb2) as (P3 & P4 & E3 & E4 & B1 & B2).
    destruct (rhp_pair c h t (wv d) (wv (d + 5)) Ht Hth Fd1 Fd2) as (P5 & P6 & E5 & E6 & D1 & D2).
    destruct (forcad_p_plane h (vadd c h) Hh) as (pt7 & E7 & F7).
    destruct (forcad_p_plane h c Hh) as (pt8 & E8 & F8).
    set (P7 := (pt7, vscale (1 / norm h) h)) in *. set (P8 := (pt8, vscale (1 / norm h) h)) in *.
    exists [(P1, (-1)%Z); (P2, 1%Z); (P3, (-1)%Z); (P4, 1%Z); (P5, (-1)%Z); (P6, 1%Z);
            (P7, (-1)%Z); (P8, 1%Z)].
    split.
    { unfold rhp_cell_surfaces, rhp_surfaces, rhp, params15, bind.
      cbn [List.length Nat.eqb orb negb firstn skipn vec_of3].
      rewrite !vec_eta. cbn [parts_to_surfs].
      rewrite <- (vsum2_vadd c h) in E7.
      rewrite E1, E2, E3, E4, E5, E6, E7, E8. reflexivity. }
    split; [reflexivity|].
    destruct A1 as (A11 & A12 & A13 & A14), A2 as (A21 & A22 & A23 & A24).
    destruct B1 as (B11 & B12 & B13 & B14), B2 as (B21 & B22 & B23 & B24).
    destruct D1 as (D11 & D12 & D13 & D14), D2 as (D21 & D22 & D23 & D24).
    split; [|split; [|split; [reflexivity|split; [reflexivity|split; [exact F7|exact F8]]]]].
    - intros i Hi. unfold carries, pl, nth_surf, side_at, l.
      do 6 (destruct i as [|i]; [cbn [nth fst]; rewrite ?wv_opp, ?wv_opp5; repeat split; assumption|]). lia.
    - intros i Hi. unfold sd, pl, nth_surf.
      do 6 (destruct i as [|i]; [cbn [nth fst snd]; split; [symmetry; assumption|discriminate]|]). lia.
  Qed.

  (* the hexagon is drawn in the plane through c perpendicular to the axis *)
  Hypothesis Hflat : forall k, dot (vsub (wv k) c) h = 0.
  Hypothesis Hturn :
    (forall k, 0 < det3 (vsub (wv (k + 1)) (wv k)) (vsub (wv (k + 2)) (wv (k + 1))) h) \/
    (forall k, det3 (vsub (wv (k + 1)) (wv k)) (vsub (wv (k + 2)) (wv (k + 1))) h < 0).

  Lemma across_flat k : dot (across c w k) h = 0.
  Proof.
    unfold across. pose proof (Hflat k) as H1. pose proof (Hflat (k + 5)) as H2.
    destruct (vsub (wv k) c) as [[x1 y1] z1], (vsub (wv (k + 5)) c) as [[x2 y2] z2], h as [[h1 h2] h3].
    unfold dot, vadd, vx, vy, vz in *; cbn in *. lra.
  Qed.

  (* the base vectors of a LAT=2 cell "-b", b an RHP/HEX card with 15 entries:
     a1, a2 = the translations across the sides of r and s, a3 = h *)
  Theorem rhp_lattice_vectors :
    hexLatticeBaseVectors_rhp RS (params15 c h r s t) = Ok [across c w a; across c w b; h].
  Proof.
    destruct rhp_cell_hypotheses as (surfs & E & L & Hc & Hsd & N7 & N8 & F7 & F8).
    unfold hexLatticeBaseVectors_rhp, bind. rewrite E.
    pose proof (norm_pos h Hh) as Hp. pose proof (norm_sq h) as Hq.
    assert (Hhh : 0 < dot h h) by (apply dot_self_pos; exact Hh).
    assert (U7 : dot h (snd (pl surfs 6)) = norm h).
    { rewrite N7, dot_comm, dot_vscale_l. rewrite <- Hq. field. lra. }
    assert (U8 : dot h (snd (pl surfs 7)) = norm h).
    { rewrite N8, dot_comm, dot_vscale_l. rewrite <- Hq. field. lra. }
    destruct (hex_base_vectors c h w l surfs Hl Hc Hsd Hsym Hturn) as [_ H8].
    destruct (H8 L) as (tau & Eb & Hlam); [rewrite U7; lra|rewrite U8; lra|].
    rewrite Eb.
    destruct (Hlam 1) as [Et _].
    { rewrite N7, N8. destruct (vscale (1 / norm h) h) as [[x y] z].
      unfold vscale, vx, vy, vz; cbn. apply vec_eq; ring. }
    assert (Etau : tau = 1).
    { rewrite Et, U7.
      assert (G : dot (vsub (fst (pl surfs 6)) (fst (pl surfs 7))) (snd (pl surfs 6)) = norm h).
      { rewrite N7, <- N8. change (pf (pl surfs 7) (fst (pl surfs 6)) = norm h). rewrite F8.
        pose proof (F7 (fst (pl surfs 6))) as Z.
        assert (Z0 : pf (pl surfs 6) (fst (pl surfs 6)) = 0).
        { unfold pf. destruct (fst (pl surfs 6)) as [[x y] z], (snd (pl surfs 6)) as [[n1 n2] n3].
          unfold dot, vsub, vx, vy, vz; cbn. ring. }
        rewrite Z0 in Z.
        assert (Z1 : dot (vsub (fst (pl surfs 6)) (vadd c h)) h = 0).
        { apply (Rmult_eq_compat_r (norm h)) in Z. field_simplify in Z; lra. }
        assert (Z2 : dot (vsub (fst (pl surfs 6)) c) h = dot h h).
        { assert (Z3 : dot (vsub (fst (pl surfs 6)) c) h
                       = dot (vsub (fst (pl surfs 6)) (vadd c h)) h + dot h h).
          { destruct (fst (pl surfs 6)) as [[x y] z], c as [[c1 c2] c3], h as [[h1 h2] h3].
            unfold dot, vsub, vadd, vx, vy, vz; cbn. ring. }
          rewrite Z3, Z1. ring. }
        rewrite Z2, <- Hq. field. lra. }
      rewrite G. field. lra. }
    assert (P : forall k, proj_par h (snd (pl surfs 6)) (across c w k) = across c w k).
    { intros k. apply proj_par_meaning; [rewrite U7; lra|].
      rewrite N7, dot_comm, dot_vscale_l, dot_comm, across_flat. ring. }
    rewrite !P, Etau. unfold l, side_at. cbn [nth]. f_equal. f_equal. f_equal. f_equal.
    destruct h as [[h1 h2] h3]. unfold vscale, vx, vy, vz; cbn. apply vec_eq; ring.
  Qed.
End Rhp15.
