(* C07 <-> C03: the model of MacroBodies.rhp used by C07 (C07.Model.rhp, feeding
   rhp_cell_surfaces and C07_rhp*_lattice_vectors) and the one of C03
   (C03.Model.rhp, about which C03 proves the facets the C03_rhp9 and C03_rhp15 theorems)
   are the same function, at every Scalar: same exceptions, same eight
   (P, [A; B; C; D], side) entries with the same operation order.  The two
   models cannot drift apart without this file failing to compile. *)
From Coq Require Import List ZArith Bool.
From T4V Require Import Base.Scalar.
From T4V Require C03.Vec C03.Model.
From T4V Require Import C07.Model.
Import ListNotations.

Module V3 := C03.Vec.
Module M3 := C03.Model.

Definition err03 (e : err) : V3.err :=
  match e with
  | EZeroDiv => V3.EZeroDiv
  | _ => V3.EMacroBody
  end.

Definition entry03 {T} (e : abcd (T:=T) * Z) : M3.entry (T:=T) :=
  let '((a, b, c, d), side) := e in (M3.TP, [a; b; c; d], side).

Definition res03 {T} (r : res (list (abcd (T:=T) * Z))) : V3.res (list (M3.entry (T:=T))) :=
  match r with
  | Ok l => V3.Ok (map entry03 l)
  | Err e => V3.Err (err03 e)
  end.

Theorem rhp_is_C03_rhp {T : Type} (S : Scalar T) (p : list T) :
  res03 (rhp S p) = M3.rhp S p.
Proof.
  do 9 (destruct p as [|? p]; [reflexivity|]).
  destruct p as [|? p].
  { (* nine entries *)
    unfold rhp, M3.rhp, M3.len_is. cbn [List.length Nat.eqb orb negb firstn skipn vec_of3].
    unfold M3.v3. cbn [nth Nat.add].
    unfold renorm, V3.renorm, V3.renorm_to, V3.divr, V3.bind, mag, V3.mag, mag2, V3.mag2.
    cbn.
    destruct (seqb S _ (s0 S)); reflexivity. }
  do 5 (destruct p as [|? p]; [reflexivity|]).
  destruct p as [|? p]; reflexivity.
Qed.
