(* C07 — CellConversion.develop_lattice for cell.lattice == 2, over any Scalar:
   C06's model of develop_lattice (develop_lattice_with, generic in the base
   vectors) fed with extract_surfaces + hexLatticeBaseVectors of C07.  This is
   the definition the tie tie:develophex executes at binary64; at RS it is the
   develop_lattice_hex of C07_hex_lattice_developed (ProofsDevelop.develop_lattice_hex_is_gen). *)
From Coq Require Import List ZArith Bool.
From T4V Require Import Base.Scalar.
From T4V Require C06.Model.
From T4V Require Import C07.Model.
Import ListNotations.

Module M6 := C06.Model.

(* the exception classes of the two models: LatticeError (hexLatticeBaseVectors'
   LatticeError is re-raised as LatticeError), ZeroDivisionError, and the rest
   (AssertionError; the endless loop has no counterpart and is mapped there too) *)
Definition err06g (e : err) : M6.err :=
  match e with
  | EZeroDiv => M6.EZeroDiv
  | ELattice => M6.ELattice
  | _ => M6.EAssert
  end.

Definition to06g {A} (r : res A) : M6.res A :=
  match r with Ok a => M6.Ok a | Err e => M6.Err (err06g e) end.

Definition develop_lattice_hex_gen {T : Type} (S : Scalar T)
  (dic : Z -> list (surf (T:=T))) (ids : list Z) (cell : M6.lat_cell (T:=T))
  : M6.res (list (M6.new_elem (T:=T))) :=
  M6.develop_lattice_with S (to06g (hexLatticeBaseVectors S (extract_surfaces dic ids))) cell.
