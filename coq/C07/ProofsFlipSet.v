(* C07 — any set of flipped side senses: hexSortSides finds exactly
   6 - (number of flipped senses) intersections, hence LatticeError as soon as
   one sense is wrong.  Generalises ProofsFlip (one flipped sense). *)
From Coq Require Import List Arith ZArith Bool Reals Lra Lia.
From T4V Require Import Base.Scalar Base.Cases C07.Model C07.ProofsAlgebra C07.ProofsComb C07.ProofsMain
  C07.ProofsGeom C07.ProofsFlip.
Import ListNotations.
Open Scope R_scope.

(* which pairs areHexSidesAdjacent accepts when the senses of the positions in F
   are flipped: a neighbouring pair needs both planes of the third group
   unflipped; a pair two apart needs the plane between them flipped and the
   opposite one unflipped *)
Definition adjb_flipset (l : list nat) (F : nat -> bool) (i j : nat) : bool :=
  let k1 := (2 * other_group i j)%nat in
  if adjb_of_listing l i j then negb (F k1) && negb (F (k1 + 1)%nat)
  else if Nat.eqb (side_at l k1) (mid (side_at l i) (side_at l j))
       then F k1 && negb (F (k1 + 1)%nat) else F (k1 + 1)%nat && negb (F k1).

Fixpoint bool_lists (n : nat) : list (list bool) :=
  match n with
  | O => [[]]
  | S m => map (cons false) (bool_lists m) ++ map (cons true) (bool_lists m)
  end.

Definition flipset_count_ok (l : list nat) (fl : list bool) : bool :=
  match sort_pairs (fun i j => Ok (if adjb_flipset l (fun k => nth k fl false) i j then Some (i, j) else None))
                   hex_pairs with
  | Ok ab => Nat.eqb (count_some ab) (6 - List.length (filter (fun k => nth k fl false) (seq 0 6)))
  | Err _ => false
  end.

Lemma flipset_sweep :
  forallb (fun l => forallb (flipset_count_ok l) (bool_lists 6)) all_listings = true.
Proof. vm_cast_no_check (eq_refl true). Qed.

Lemma flipset_count l fl ab : In l all_listings -> In fl (bool_lists 6) ->
  sort_pairs (fun i j => Ok (if adjb_flipset l (fun k => nth k fl false) i j then Some (i, j) else None))
             hex_pairs = Ok ab ->
  count_some ab = (6 - List.length (filter (fun k => nth k fl false) (seq 0 6)))%nat.
Proof.
  intros Hl Hf E. pose proof (proj1 (forallb_forall _ _) flipset_sweep l Hl) as H. cbv beta in H.
  rewrite forallb_forall in H. specialize (H fl Hf). unfold flipset_count_ok in H. rewrite E in H.
  apply Nat.eqb_eq. exact H.
Qed.

Lemma sort_pairs_ext_cross {A} (f g : nat -> nat -> res (option A)) (ps : list (nat * nat)) :
  (forall i j, In (i, j) ps -> (i / 2 <> j / 2)%nat -> f i j = g i j) ->
  sort_pairs f ps = sort_pairs g ps.
Proof.
  induction ps as [|[i j] r IH]; intros H; [reflexivity|].
  cbn [sort_pairs]. rewrite IH by (intros i' j' Hin; apply H; right; exact Hin).
  destruct (Nat.eqb (i / 2) (j / 2)) eqn:E; [reflexivity|].
  apply Nat.eqb_neq in E. rewrite (H i j (or_introl eq_refl) E). reflexivity.
Qed.

Section FlipSet.
  Context (c u : rvec) (w : nat -> rvec) (l : list nat) (surfs : list rsurf) (F : nat -> bool).
  Notation wv := (wv w).
  Notation pl := (pl surfs).
  Notation sd := (sd surfs).

  Hypothesis Hl : In l all_listings.
  Hypothesis Hcarry : forall i, (i < 6)%nat -> carries u w (pl i) (side_at l i).
  (* the sense of position i is the side of the centre, flipped when F i *)
  Hypothesis Hsense : forall i, (i < 6)%nat ->
    sd i = (if F i then - planeSide RS c (pl i) else planeSide RS c (pl i))%Z /\ sd i <> 0%Z.
  Hypothesis Hsym : forall k, wv (k + 3) = vsub (vscale 2 c) (wv k).
  Hypothesis Hturn : forall k,
    0 < det3 (vsub (wv (k + 1)) (wv k)) (vsub (wv (k + 2)) (wv (k + 1))) u.
  Hypothesis Hlen : List.length surfs = 6%nat \/ List.length surfs = 8%nat.

  Lemma fpfc i : (i < 6)%nat -> pf (pl i) c <> 0.
  Proof.
    intros Hi. apply planeSide_nonzero. destruct (Hsense i Hi) as [E N]. intros Z. apply N. rewrite E, Z.
    destruct (F i); reflexivity.
  Qed.

  (* the same planes with every sense corrected: the prism of ProofsGeom *)
  Let fixed : list rsurf := map (fun s => (fst s, planeSide RS c (fst s))) surfs.

  Lemma fixed_pl i : (i < 6)%nat -> ProofsMain.pl fixed i = pl i.
  Proof.
    intros Hi. unfold ProofsMain.pl, nth_surf, fixed.
    assert (Hlt : (i < List.length surfs)%nat) by (unfold rsurf in *; lia).
    rewrite (nth_map_lt _ surfs i (dflt_surf RS) (dflt_surf RS) Hlt). reflexivity.
  Qed.

  Lemma fixed_sd i : (i < 6)%nat -> ProofsMain.sd fixed i = planeSide RS c (pl i).
  Proof.
    intros Hi. unfold ProofsMain.sd, ProofsMain.pl, nth_surf, fixed.
    assert (Hlt : (i < List.length surfs)%nat) by (unfold rsurf in *; lia).
    rewrite (nth_map_lt _ surfs i (dflt_surf RS) (dflt_surf RS) Hlt). reflexivity.
  Qed.

  Lemma fix_carry i : (i < 6)%nat -> carries u w (ProofsMain.pl fixed i) (side_at l i).
  Proof. intros Hi. rewrite fixed_pl by exact Hi. apply Hcarry. exact Hi. Qed.

  Lemma fix_sense i : (i < 6)%nat ->
    ProofsMain.sd fixed i = planeSide RS c (ProofsMain.pl fixed i) /\ ProofsMain.sd fixed i <> 0%Z.
  Proof.
    intros Hi. rewrite fixed_sd, fixed_pl by exact Hi. split; [reflexivity|].
    pose proof (fpfc i Hi) as Hp. rewrite planeSide_pf.
    destruct (Rltb 0 (pf (pl i) c)) eqn:E1; [discriminate|].
    destruct (Rltb (pf (pl i) c) 0) eqn:E2; [discriminate|].
    apply Rltb_false in E1. apply Rltb_false in E2. exfalso. lra.
  Qed.

  Lemma findep i j : (i < j < 6)%nat -> (i / 2 <> j / 2)%nat ->
    cross (snd (pl i)) (snd (pl j)) <> (0, 0, 0).
  Proof.
    intros Hij Hg.
    pose proof (hex_planes_independent c u w l fixed Hl fix_carry fix_sense Hsym Hturn i j Hij Hg) as H.
    rewrite !fixed_pl in H by lia. exact H.
  Qed.

  (* the two tests of areHexSidesAdjacent from the sign of the products *)
  Lemma tests_from_products k q : (k < 6)%nat ->
    (0 < pf (pl k) q * pf (pl k) c -> (inside surfs k q <-> F k = false)) /\
    (pf (pl k) q * pf (pl k) c < 0 -> (inside surfs k q <-> F k = true)).
  Proof.
    intros Hk. destruct (Hsense k Hk) as [E N]. unfold inside. split; intros H.
    - assert (S : planeSide RS q (pl k) = planeSide RS c (pl k)) by (apply same_side; exact H).
      rewrite E, S. destruct (F k); split; intros Z; try reflexivity; try discriminate.
      exfalso. rewrite E in N. lia.
    - assert (S : planeSide RS q (pl k) = (- planeSide RS c (pl k))%Z) by (apply opposite_strict; exact H).
      rewrite E, S. destruct (F k); split; intros Z; try reflexivity; try discriminate.
      exfalso. rewrite E in N. lia.
  Qed.

  Lemma inside_dec_true k q (o : rplane) (sg : Z) :
    nth_surf RS surfs k = (o, sg) -> inside surfs k q -> Z.eqb sg (planeSide RS q o) = true.
  Proof.
    intros E H. unfold inside, ProofsMain.sd, ProofsMain.pl in H. rewrite E in H. cbn [fst snd] in H.
    apply Z.eqb_eq. exact H.
  Qed.

  Lemma inside_dec_false k q (o : rplane) (sg : Z) :
    nth_surf RS surfs k = (o, sg) -> ~ inside surfs k q -> Z.eqb sg (planeSide RS q o) = false.
  Proof.
    intros E H. unfold inside, ProofsMain.sd, ProofsMain.pl in H. rewrite E in H. cbn [fst snd] in H.
    apply Z.eqb_neq. exact H.
  Qed.

  Lemma wv6 n : wv (n + 6) = wv n.
  Proof. unfold ProofsMain.wv. replace (n + 6)%nat with (n + 1 * 6)%nat by lia. rewrite Nat.mod_add by lia. reflexivity. Qed.

  (* products at a point for the two planes of the third group *)
  Lemma vertex_products v k : (v < 6)%nat -> (k < 6)%nat ->
    (side_at l k = sm v 2 \/ side_at l k = sm v 5) -> 0 < pf (pl k) (wv v) * pf (pl k) c.
  Proof.
    intros Hv Hk [E|E].
    - destruct (thr u w l surfs Hcarry k v 2 Hk E) as (A0 & A1 & A2).
      replace (wv (v + 2 + 5)) with (wv (v + 1)) in A1 by (symmetry; replace (v + 2 + 5)%nat with (v + 1 + 6)%nat by lia; apply wv6).
      apply (G_a c u w Hsym Hturn v (pl k)); [repeat split; assumption|apply fpfc; exact Hk].
    - destruct (thr u w l surfs Hcarry k v 5 Hk E) as (A0 & A1 & A2).
      replace (wv (v + 5 + 5)) with (wv (v + 4)) in A1 by (symmetry; replace (v + 5 + 5)%nat with (v + 4 + 6)%nat by lia; apply wv6).
      apply (G_b c u w Hsym Hturn v (pl k)); [repeat split; assumption|apply fpfc; exact Hk].
  Qed.

  Lemma meeting_products v ia ib km ko X :
    (v < 6)%nat -> (ia < 6)%nat -> (ib < 6)%nat -> (km < 6)%nat -> (ko < 6)%nat ->
    side_at l ia = sm v 1 -> side_at l ib = sm v 3 -> side_at l km = sm v 2 -> side_at l ko = sm v 5 ->
    on_plane X (pl ia) -> on_plane X (pl ib) ->
    pf (pl km) X * pf (pl km) c < 0 /\ 0 < pf (pl ko) X * pf (pl ko) c.
  Proof.
    intros Hv Hia Hib Hkm Hko Ea Eb Em Eo Xa Xb.
    destruct (thr u w l surfs Hcarry ia v 1 Hia Ea) as (A0 & A1 & A2).
    replace (wv (v + 1 + 5)) with (wv v) in A1 by (symmetry; replace (v + 1 + 5)%nat with (v + 6)%nat by lia; apply wv6).
    destruct (thr u w l surfs Hcarry ib v 3 Hib Eb) as (B0 & B1 & B2).
    replace (wv (v + 3 + 5)) with (wv (v + 2)) in B1 by (symmetry; replace (v + 3 + 5)%nat with (v + 2 + 6)%nat by lia; apply wv6).
    destruct (thr u w l surfs Hcarry km v 2 Hkm Em) as (M0 & M1 & M2).
    replace (wv (v + 2 + 5)) with (wv (v + 1)) in M1 by (symmetry; replace (v + 2 + 5)%nat with (v + 1 + 6)%nat by lia; apply wv6).
    destruct (thr u w l surfs Hcarry ko v 5 Hko Eo) as (O0 & O1 & O2).
    replace (wv (v + 5 + 5)) with (wv (v + 4)) in O1 by (symmetry; replace (v + 5 + 5)%nat with (v + 4 + 6)%nat by lia; apply wv6).
    split.
    - apply (G_beyond c u w Hsym Hturn v (pl ia) (pl ib) (pl km) X);
        try (repeat split; assumption); try (apply fpfc; assumption).
    - apply (G_opp c u w Hsym Hturn v (pl ia) (pl ib) (pl ko) X);
        try (repeat split; assumption); try (apply fpfc; assumption).
  Qed.

  Lemma fpair i j :
    (i < j < 6)%nat -> (i / 2 <> j / 2)%nat ->
    exists x, hex_adjf RS (firstn 6 surfs) i j = Ok x /\ is_some x = adjb_flipset l F i j.
  Proof.
    intros Hij Hg.
    destruct (listing_groups l i j Hl ltac:(lia) ltac:(lia) Hg) as (_ & _ & _ & _ & G3).
    pose proof (class_spec l i j Hl Hij Hg) as Cl. cbv zeta in Cl.
    unfold adjb_flipset. set (k1 := (2 * other_group i j)%nat) in *.
    assert (Hog : (other_group i j < 3)%nat) by (unfold k1 in G3; lia).
    destruct (group_opp l (other_group i j) Hl Hog) as [Go1 Go2]. fold k1 in Go1, Go2.
    unfold hex_adjf. fold k1. rewrite !nth_surf_firstn by lia.
    change (fst (nth_surf RS surfs i)) with (pl i). change (fst (nth_surf RS surfs j)) with (pl j).
    pose proof (findep i j Hij Hg) as Hlv.
    destruct (pl i) as [p1 n1] eqn:Ei. destruct (pl j) as [p2 n2] eqn:Ej. cbn [snd] in Hlv.
    destruct (plane_intersection p1 n1 p2 n2 Hlv) as (pt & d & E & On1 & On2 & Hd).
    assert (Hu : u <> (0, 0, 0)).
    { intros Z. specialize (Hturn 0%nat). rewrite Z in Hturn.
      assert (E0 : forall a b, det3 a b (0, 0, 0) = 0).
      { intros a b. unfold det3. destruct (cross a b) as [[x y] z]. unfold dot, vx, vy, vz; cbn. ring. }
      rewrite E0 in Hturn. lra. }
    destruct (Hcarry i ltac:(lia)) as (_ & _ & Pi). rewrite Ei in Pi. cbn [snd] in Pi.
    destruct (Hcarry j ltac:(lia)) as (_ & _ & Pj). rewrite Ej in Pj. cbn [snd] in Pj.
    destruct (cross_par_axis n1 n2 u Hu Pi Pj Hlv) as (s & Hs & Hcs).
    assert (Hk : forall k, (k < 6)%nat -> dot (snd (pl k)) (cross n1 n2) = 0).
    { intros k Hk6. destruct (Hcarry k Hk6) as (_ & _ & Pk). rewrite Hcs.
      destruct (snd (pl k)) as [[a b] c'], u as [[u1 u2] u3].
      unfold dot, vscale, vx, vy, vz in *; cbn in *. nra. }
    unfold areHexSidesAdjacent.
    destruct (nth_surf RS surfs k1) as [o1 s1] eqn:Eo1.
    destruct (nth_surf RS surfs (k1 + 1)) as [o2 s2] eqn:Eo2.
    match goal with |- context [pointInPlaneIntersection RS ?a ?b] =>
      replace (pointInPlaneIntersection RS a b) with (Ok (A:=rline) (pt, d)) by (symmetry; exact E) end.
    assert (Pon1 : on_plane pt (pl i)) by (rewrite Ei; exact On1).
    assert (Pon2 : on_plane pt (pl j)) by (rewrite Ej; exact On2).
    (* the outcome of the two tests, as propositions *)
    assert (Key : (inside surfs k1 pt /\ inside surfs (k1 + 1) pt) <->
                  (if adjb_of_listing l i j then negb (F k1) && negb (F (k1 + 1)%nat)
                   else if Nat.eqb (side_at l k1) (mid (side_at l i) (side_at l j))
                        then F k1 && negb (F (k1 + 1)%nat) else F (k1 + 1)%nat && negb (F k1)) = true).
    { destruct (adjb_of_listing l i j) eqn:Ea.
      - destruct Cl as (v & Hv & Ev & _ & Hm).
        destruct (shared_on_both u w l surfs Hl Hcarry i j Hij Ea) as [V1 V2]. rewrite Ev in V1, V2.
        rewrite Ei in V1. rewrite Ej in V2.
        assert (Hsame : forall k, (k < 6)%nat -> (inside surfs k pt <-> inside surfs k (wv v))).
        { intros k Hk6. unfold inside.
          assert (Ho : dot (snd (pl k)) (cross n1 n2) = 0) by (apply Hk; exact Hk6).
          rewrite (side_constant_along_line n1 n2 p1 p2 pt (wv v) (pl k) Hlv Ho On1 On2 V1 V2). tauto. }
        assert (P1 : 0 < pf (pl k1) (wv v) * pf (pl k1) c).
        { apply vertex_products; [exact Hv|lia|]. destruct Hm as [[M _]|[M _]]; [left|right]; exact M. }
        assert (P2 : 0 < pf (pl (k1 + 1)) (wv v) * pf (pl (k1 + 1)) c).
        { apply vertex_products; [exact Hv|lia|]. destruct Hm as [[_ M]|[_ M]]; [right|left]; exact M. }
        rewrite (Hsame k1 ltac:(lia)), (Hsame (k1 + 1)%nat ltac:(lia)).
        rewrite (proj1 (tests_from_products k1 (wv v) ltac:(lia)) P1).
        rewrite (proj1 (tests_from_products (k1 + 1) (wv v) ltac:(lia)) P2).
        rewrite andb_true_iff, !negb_true_iff. tauto.
      - destruct Cl as (v & Hv & Hab & Hm).
        destruct (mid_facts v Hv) as (Mid1 & Mid2 & Mne).
        assert (Emid : mid (side_at l i) (side_at l j) = sm v 2).
        { destruct Hab as [[A B]|[B A]]; rewrite A, B; assumption. }
        rewrite Emid.
        assert (Hprod : forall km ko, (km < 6)%nat -> (ko < 6)%nat ->
                  side_at l km = sm v 2 -> side_at l ko = sm v 5 ->
                  pf (pl km) pt * pf (pl km) c < 0 /\ 0 < pf (pl ko) pt * pf (pl ko) c).
        { intros km ko Hkm Hko Em Eo.
          destruct Hab as [[A B]|[B A]].
          - apply (meeting_products v i j km ko pt); try assumption; lia.
          - apply (meeting_products v j i km ko pt); try assumption; lia. }
        destruct Hm as [M|M].
        + assert (Mo : side_at l (k1 + 1) = sm v 5) by (rewrite Go1, M, opp_sm; reflexivity).
          destruct (Hprod k1 (k1 + 1)%nat ltac:(lia) ltac:(lia) M Mo) as [Pm Po].
          rewrite M, Nat.eqb_refl.
          rewrite (proj2 (tests_from_products k1 pt ltac:(lia)) Pm).
          rewrite (proj1 (tests_from_products (k1 + 1) pt ltac:(lia)) Po).
          rewrite andb_true_iff, negb_true_iff. tauto.
        + assert (Mo : side_at l k1 = sm v 5) by (rewrite Go2, M, opp_sm; reflexivity).
          destruct (Hprod (k1 + 1)%nat k1 ltac:(lia) ltac:(lia) M Mo) as [Pm Po].
          rewrite Mo. assert (En : Nat.eqb (sm v 5) (sm v 2) = false) by (apply Nat.eqb_neq; exact Mne).
          rewrite En.
          rewrite (proj2 (tests_from_products (k1 + 1) pt ltac:(lia)) Pm).
          rewrite (proj1 (tests_from_products k1 pt ltac:(lia)) Po).
          rewrite andb_true_iff, negb_true_iff. tauto. }
    destruct (Z.eqb s1 (planeSide RS pt o1) && Z.eqb s2 (planeSide RS pt o2)) eqn:T.
    - eexists. split; [reflexivity|]. cbn [is_some]. symmetry. apply Key.
      apply andb_true_iff in T. destruct T as [T1 T2]. apply Z.eqb_eq in T1. apply Z.eqb_eq in T2.
      unfold inside, ProofsMain.sd, ProofsMain.pl. rewrite Eo1, Eo2. cbn [fst snd]. split; assumption.
    - eexists. split; [reflexivity|]. cbn [is_some]. symmetry. apply not_true_is_false. intros Kt.
      apply Key in Kt. destruct Kt as [I1 I2].
      rewrite (inside_dec_true k1 pt o1 s1 Eo1 I1), (inside_dec_true (k1 + 1) pt o2 s2 Eo2 I2) in T. discriminate.
  Qed.

  Hypothesis Hfl : exists fl, In fl (bool_lists 6) /\ (forall k, (k < 6)%nat -> F k = nth k fl false).

  (* the dictionary hexSortSides builds holds exactly 6 - (number of flipped
     senses) intersections *)
  Theorem flipped_set_left :
    exists ca, sort_pairs (hex_adjf RS (firstn 6 surfs)) hex_pairs = Ok ca /\
               count_some ca = (6 - List.length (filter F (seq 0 6)))%nat.
  Proof.
    destruct Hfl as (fl & Hin & HF).
    set (R := fun (_ : rline) (_ : nat * nat) => True).
    destruct (sort_pairs_rel R (hex_adjf RS (firstn 6 surfs))
                (fun i j => Ok (if adjb_flipset l F i j then Some (i, j) else None)) hex_pairs)
      as (ca & ab & Eca & Eab & Hr).
    { intros i j Hin' Hg. pose proof (hex_pairs_bounds i j Hin') as Hb.
      destruct (fpair i j Hb Hg) as (x & Ex & Hx).
      exists x. eexists. split; [exact Ex|]. split; [reflexivity|].
      destruct x as [a|], (adjb_flipset l F i j); cbn in Hx; try discriminate; exact I. }
    exists ca. split; [exact Eca|]. transitivity (count_some ab); [exact (count_some_rel R ca ab Hr)|].
    (* replace F by its table on 0..5, then the sweep *)
    assert (Eab' : sort_pairs (fun i j => Ok (if adjb_flipset l (fun k => nth k fl false) i j then Some (i, j) else None))
                              hex_pairs = Ok ab).
    { rewrite <- Eab. apply sort_pairs_ext_cross. intros i j Hin' Hg.
      pose proof (hex_pairs_bounds i j Hin') as Hb.
      destruct (listing_groups l i j Hl ltac:(lia) ltac:(lia) Hg) as (_ & _ & _ & _ & G3).
      unfold adjb_flipset. rewrite !HF by lia. reflexivity. }
    assert (Ef : filter F (seq 0 6) = filter (fun k => nth k fl false) (seq 0 6)).
    { apply filter_ext_in. intros k Hk. apply in_seq in Hk. apply HF. lia. }
    rewrite Ef. exact (flipset_count l fl ab Hl Hin Eab').
  Qed.

  Theorem flipped_set_error_left :
    existsb F (seq 0 6) = true -> hexLatticeBaseVectors RS surfs = Err ELattice.
  Proof.
    intros Hex. destruct flipped_set_left as (ca & Eca & Hc).
    assert (Hpos : (0 < List.length (filter F (seq 0 6)))%nat).
    { apply existsb_exists in Hex. destruct Hex as (k & Hk & Fk).
      assert (Hin : In k (filter F (seq 0 6))) by (apply filter_In; split; assumption).
      destruct (filter F (seq 0 6)); [contradiction|cbn; lia]. }
    assert (E6 : Nat.eqb (count_some ca) 6 = false) by (apply Nat.eqb_neq; lia).
    assert (Hs : hexSortSides RS (firstn 6 surfs) = Err ELattice).
    { unfold hexSortSides.
      assert (Hn : List.length (firstn 6 surfs) = 6%nat) by (rewrite firstn_length; unfold rsurf in *; lia).
      unfold rsurf in *. rewrite Hn. cbn [Nat.eqb negb]. unfold sort_sides.
      match goal with |- context [sort_pairs ?f hex_pairs] =>
        replace (sort_pairs f hex_pairs) with (Ok (A:=adjacency rline) ca) by (symmetry; exact Eca) end.
      match goal with |- context [Nat.eqb ?n 6] =>
        replace (Nat.eqb n 6) with false by (symmetry; exact E6) end.
      reflexivity. }
    unfold hexLatticeBaseVectors, hexVertices. unfold rsurf in *.
    assert (G1 : negb (Nat.eqb (List.length surfs) 6 || Nat.eqb (List.length surfs) 8) = false)
      by (destruct Hlen as [L|L]; rewrite L; reflexivity).
    rewrite G1. cbn [Nat.ltb Nat.leb negb]. rewrite Hs. reflexivity.
  Qed.
End FlipSet.

(* either sense of rotation; the flipped positions given as a table of six booleans *)
Theorem flipped_set_lattice_error :
  forall (c u : rvec) (w : nat -> rvec) (l : list nat) (surfs : list rsurf) (fl : list bool),
  In l all_listings -> In fl (bool_lists 6) ->
  (forall i, (i < 6)%nat -> carries u w (pl surfs i) (side_at l i)) ->
  (forall i, (i < 6)%nat ->
     sd surfs i = (if nth i fl false then - planeSide RS c (pl surfs i) else planeSide RS c (pl surfs i))%Z /\
     sd surfs i <> 0%Z) ->
  (forall k, wv w (k + 3) = vsub (vscale 2 c) (wv w k)) ->
  ((forall k, 0 < det3 (vsub (wv w (k + 1)) (wv w k)) (vsub (wv w (k + 2)) (wv w (k + 1))) u) \/
   (forall k, det3 (vsub (wv w (k + 1)) (wv w k)) (vsub (wv w (k + 2)) (wv w (k + 1))) u < 0)) ->
  (List.length surfs = 6%nat \/ List.length surfs = 8%nat) ->
  (exists ca, sort_pairs (hex_adjf RS (firstn 6 surfs)) hex_pairs = Ok ca /\
              count_some ca = (6 - List.length (filter (fun k => nth k fl false) (seq 0 6)))%nat) /\
  (existsb (fun k => nth k fl false) (seq 0 6) = true -> hexLatticeBaseVectors RS surfs = Err ELattice).
Proof.
  intros c u w l surfs fl Hl Hfl Hcarry Hsense Hsym Hturn Hlen.
  set (F := fun k => nth k fl false).
  assert (HF : exists fl0, In fl0 (bool_lists 6) /\ (forall k, (k < 6)%nat -> F k = nth k fl0 false))
    by (exists fl; split; [exact Hfl|reflexivity]).
  destruct Hturn as [Hturn|Hturn].
  - split.
    + exact (flipped_set_left c u w l surfs F Hl Hcarry Hsense Hsym Hturn Hlen HF).
    + exact (flipped_set_error_left c u w l surfs F Hl Hcarry Hsense Hsym Hturn Hlen HF).
  - assert (Hcarry' : forall i, (i < 6)%nat -> carries (vneg u) w (pl surfs i) (side_at l i)).
    { intros i Hi. destruct (Hcarry i Hi) as (H1 & H2 & H3). repeat split; try assumption.
      rewrite dot_vneg_r, H3. ring. }
    assert (Hturn' : forall k, 0 < det3 (vsub (wv w (k + 1)) (wv w k)) (vsub (wv w (k + 2)) (wv w (k + 1))) (vneg u)).
    { intros k. rewrite det3_vneg. specialize (Hturn k). lra. }
    split.
    + exact (flipped_set_left c (vneg u) w l surfs F Hl Hcarry' Hsense Hsym Hturn' Hlen HF).
    + exact (flipped_set_error_left c (vneg u) w l surfs F Hl Hcarry' Hsense Hsym Hturn' Hlen HF).
Qed.
