(* C07 — executable comparison functions used by the generated correspondence
   files: the model at binary64 against values observed on the implementation. *)
From Coq Require Import List Arith ZArith Bool PrimFloat.
From T4V Require Import Base.Scalar Base.Cases C07.Model.
Import ListNotations.

Definition fvec : Type := vec (T:=float).
Definition fplane : Type := plane (T:=float).
Definition fsurf : Type := surf (T:=float).
Definition fline : Type := line (T:=float).

Definition err_eqb (a b : err) : bool :=
  match a, b with
  | EZeroDiv, EZeroDiv | ELattice, ELattice | EAssert, EAssert | ELoop, ELoop | EStop, EStop => true
  | EMacro, EMacro => true
  | EOther, EOther => false
  | _, _ => false
  end.

Definition res_eqb {A} (e : A -> A -> bool) (a b : res A) : bool :=
  match a, b with
  | Ok x, Ok y => e x y
  | Err x, Err y => err_eqb x y
  | _, _ => false
  end.

Definition vec_close (a b : fvec) : bool :=
  f_close9 (vx a) (vx b) && f_close9 (vy a) (vy b) && f_close9 (vz a) (vz b).

Definition line_close (a b : fline) : bool := vec_close (fst a) (fst b) && vec_close (snd a) (snd b).

(* pointInPlaneIntersection *)
Definition check_inter (c : fplane * fplane * res fline) : bool :=
  let '(p1, p2, expected) := c in
  res_eqb line_close (pointInPlaneIntersection FS p1 p2) expected.

(* planeSide: exact *)
Definition check_side (c : fvec * fplane * Z) : bool :=
  let '(pt, pl, expected) := c in Z.eqb (planeSide FS pt pl) expected.

(* projectPointOnPlane *)
Definition check_proj (c : fvec * fplane * fvec * res fvec) : bool :=
  let '(pt, pl, dir, expected) := c in
  res_eqb vec_close (projectPointOnPlane FS pt pl dir) expected.

(* areHexSidesAdjacent *)
Definition check_adj (c : fplane * fplane * fsurf * fsurf * res (option fline)) : bool :=
  let '(p1, p2, o1, o2, expected) := c in
  res_eqb (option_eqb line_close) (areHexSidesAdjacent FS p1 p2 o1 o2) expected.

(* hexSortSides: the values of the dictionary in insertion order (the keys are
   compared too) *)
Definition key_eqb (a b : nat * nat) : bool := Nat.eqb (fst a) (fst b) && Nat.eqb (snd a) (snd b).

Definition check_sort (c : list fsurf * res (adjacency fline)) : bool :=
  let '(surfs, expected) := c in
  res_eqb (list_eqb (pair_eqb key_eqb (option_eqb line_close))) (hexSortSides FS surfs) expected.

(* hexVertices *)
Definition check_vertices (c : list fsurf * nat * res (list fvec * fvec)) : bool :=
  let '(surfs, first, expected) := c in
  res_eqb (pair_eqb (list_eqb vec_close) vec_close) (hexVertices FS surfs first) expected.

(* hexLatticeBaseVectors *)
Definition check_base (c : list fsurf * res (list fvec)) : bool :=
  let '(surfs, expected) := c in
  res_eqb (list_eqb vec_close) (hexLatticeBaseVectors FS surfs) expected.

(* the traversal alone, on a boolean adjacency given as the list of adjacent
   pairs (i < j): used to compare the loop structure with the implementation
   on adjacency dictionaries that no set of planes produces *)
Definition adjb_of (l : list (nat * nat)) (i j : nat) : bool := existsb (key_eqb (i, j)) l.

Definition check_walk (c : list (nat * nat) * nat * res (list (nat * nat))) : bool :=
  let '(pairs, first, expected) := c in
  res_eqb (list_eqb key_eqb) (hex_vertices_abs (adjb_of pairs) first) expected.

(* develop_lattice's test of the ranges: accepted / LatticeError *)
Definition check_domain (c : nat * list (Z * Z) * res unit) : bool :=
  let '(nvec, bounds, expected) := c in
  res_eqb (fun _ _ => true) (domain_check nvec bounds) expected.

(* latticeVector *)
Definition check_latvec (c : list fvec * list Z * fvec) : bool :=
  let '(base, index, expected) := c in vec_close (latticeVector FS base index) expected.

(* the (plane, side) list handed to hexLatticeBaseVectors for a LAT=2 cell
   bounded by an RHP/HEX macrobody *)
Definition surf_close (a b : fsurf) : bool :=
  vec_close (fst (fst a)) (fst (fst b)) && vec_close (snd (fst a)) (snd (fst b)) && Z.eqb (snd a) (snd b).

Definition check_rhp_cell (c : list float * res (list fsurf)) : bool :=
  let '(params, expected) := c in
  res_eqb (list_eqb surf_close) (rhp_cell_surfaces FS params) expected.

(* the same for a cell bounded by plane cards: (kind, (A, B, C, D)) per card,
   card k being surface k+1, and the signed literals of the cell *)
Definition check_plane_cell (c : list (nat * (float * float * float * float)) * list Z * res (list fsurf)) : bool :=
  let '(cards, ids, expected) := c in
  let dic := fun k : Z =>
    match nth_error cards (Z.to_nat (k - 1)) with
    | Some (kind, q) => match card_plane FS kind q with Ok pl => [(pl, 1%Z)] | Err _ => [] end
    | None => []
    end in
  res_eqb (list_eqb surf_close) (Ok (extract_surfaces dic ids)) expected.

Definition check_rotate (c : fvec * fvec * float * fvec) : bool :=
  let '(v, axis, angle, expected) := c in vec_close (rotate FS v axis angle) expected.
