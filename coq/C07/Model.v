(* C07 — model of the hexagonal-lattice path:
     Kernel/VectUtils.py      scal vect mixed rescale vsum vdiff mag renorm
                              pointInPlaneIntersection planeSide projectPointOnPlane
     Kernel/Volume/Lattice.py areHexSidesAdjacent hexSortSides hexVertices
                              hexLatticeBaseVectors
   Numeric code is written once over [Scalar T]; the traversal of the
   adjacency dictionary (hexSortSides' double loop, hexVertices' while/for loop
   with its [seen] set) is written over an abstract adjacency so that it can be
   run on purely combinatorial data.  Executable; proofs live in C07/Proofs*.v.
   Python exceptions are results [Err _]; float division by an exact zero is
   ZeroDivisionError; a [while] iteration of hexVertices that finds no new side
   leaves the state unchanged, i.e. the Python loop never ends: [Err ELoop].
   Also, from Kernel/Volume/CellConversion.py develop_lattice: the test of the
   FILL ranges against the number of base vectors ([domain_check]) and
   Lattice.latticeVector (the translation of element (i, j, k)). *)
From Coq Require Import List Arith ZArith Bool.
From T4V Require Import Base.Scalar.
Import ListNotations.

(* EOther: any other Python exception; never produced by the model, so that an
   implementation raising one always disagrees with it *)
Inductive err := EZeroDiv | ELattice | EAssert | ELoop | EStop | EMacro | EOther.
Inductive res (A : Type) := Ok (a : A) | Err (e : err).
Arguments Ok {A}. Arguments Err {A}.

Definition bind {A B} (r : res A) (f : A -> res B) : res B :=
  match r with Ok a => f a | Err e => Err e end.

(* ---------------------------------------------------------------------- *)
(* combinatorial half: the adjacency dictionary and its traversal          *)
(* ---------------------------------------------------------------------- *)

(* keys (i, j), i < j < 6, in the insertion order of hexSortSides' loops *)
Definition hex_pairs : list (nat * nat) :=
  flat_map (fun i => map (fun j => (i, j)) (seq (S i) (6 - S i))) (seq 0 6).

(* other_group = (i // 2 + j // 2) * 2 % 3 *)
Definition other_group (i j : nat) : nat := ((i / 2 + j / 2) * 2) mod 3.

Definition adjacency (A : Type) := list ((nat * nat) * option A).

(* the double loop of hexSortSides; [adjf i j] is the call of
   areHexSidesAdjacent for the pair (it may raise) *)
Fixpoint sort_pairs {A} (adjf : nat -> nat -> res (option A)) (ps : list (nat * nat))
  : res (adjacency A) :=
  match ps with
  | [] => Ok []
  | (i, j) :: r =>
      match (if Nat.eqb (i / 2) (j / 2) then Ok None else adjf i j) with
      | Err e => Err e
      | Ok v => match sort_pairs adjf r with
                | Err e => Err e
                | Ok l => Ok (((i, j), v) :: l)
                end
      end
  end.

Definition is_some {A} (o : option A) : bool := match o with Some _ => true | None => false end.

Definition count_some {A} (adj : adjacency A) : nat :=
  List.length (filter (fun kv => is_some (snd kv)) adj).

Definition sort_sides {A} (adjf : nat -> nat -> res (option A)) : res (adjacency A) :=
  match sort_pairs adjf hex_pairs with
  | Err e => Err e
  | Ok adj => if Nat.eqb (count_some adj) 6 then Ok adj else Err ELattice
  end.

Fixpoint adj_lookup {A} (adj : adjacency A) (k : nat * nat) : option A :=
  match adj with
  | [] => None
  | ((i, j), v) :: r => if Nat.eqb i (fst k) && Nat.eqb j (snd k) then v else adj_lookup r k
  end.

(* tuple(sorted([a, b])) *)
Definition sorted_key (a b : nat) : nat * nat := if Nat.leb a b then (a, b) else (b, a).

(* next(inters for inters in adj.values() if inters is not None) *)
Fixpoint first_some {A} (adj : adjacency A) : option A :=
  match adj with
  | [] => None
  | (_, Some a) :: _ => Some a
  | (_, None) :: r => first_some r
  end.

Definition mem (i : nat) (l : list nat) : bool := existsb (Nat.eqb i) l.
Definition remove_nat (i : nat) (l : list nat) : list nat := filter (fun x => negb (Nat.eqb x i)) l.

(* the [for i in range(6)] of hexVertices: first side not yet seen that is
   adjacent to the current one *)
Fixpoint find_next {A} (look : nat -> nat -> option A) (seen : list nat) (cur : nat)
  (cands : list nat) : option (nat * A) :=
  match cands with
  | [] => None
  | i :: r =>
      if mem i seen then find_next look seen cur r
      else match look cur i with
           | Some a => Some (i, a)
           | None => find_next look seen cur r
           end
  end.

(* the [while len(vertices) < 6] loop; [n] = vertices still to produce.  Every
   iteration that finds a side appends one vertex, an iteration that finds none
   repeats for ever *)
Fixpoint walk {A B} (look : nat -> nat -> option A) (visit : A -> res B) (first : nat)
  (n : nat) (seen : list nat) (cur : nat) : res (list B) :=
  match n with
  | O => Ok []
  | S m =>
      let seen1 := if Nat.eqb (List.length seen) 6 then remove_nat first seen else seen in
      match find_next look seen1 cur (seq 0 6) with
      | None => Err ELoop
      | Some (i, a) =>
          match visit a with
          | Err e => Err e
          | Ok b => match walk look visit first m (i :: seen1) i with
                    | Err e => Err e
                    | Ok l => Ok (b :: l)
                    end
          end
      end
  end.

Definition hex_walk {A B} (adj : adjacency A) (visit : A -> res B) (first : nat) : res (list B) :=
  walk (fun a b => adj_lookup adj (sorted_key a b)) visit first 6 [first] first.

(* purely combinatorial instance: the adjacency is a boolean relation on side
   indices and a vertex is named by the pair of sides that meet there *)
Definition sort_sides_abs (adjb : nat -> nat -> bool) : res (adjacency (nat * nat)) :=
  sort_sides (fun i j => Ok (if adjb i j then Some (i, j) else None)).

Definition hex_vertices_abs (adjb : nat -> nat -> bool) (first : nat) : res (list (nat * nat)) :=
  bind (sort_sides_abs adjb) (fun adj => hex_walk adj (fun a => Ok a) first).

(* ---------------------------------------------------------------------- *)
(* numeric half                                                            *)
(* ---------------------------------------------------------------------- *)
Section Num.
  Context {T : Type} (S : Scalar T).

  Definition vec : Type := T * T * T.
  Definition plane : Type := vec * vec.          (* (point, normal) *)
  Definition surf : Type := plane * Z.           (* (plane, side = +-1) *)
  Definition line : Type := vec * vec.           (* (point, direction) *)

  Definition vx (v : vec) : T := fst (fst v).
  Definition vy (v : vec) : T := snd (fst v).
  Definition vz (v : vec) : T := snd v.

  Definition vzero : vec := (s0 S, s0 S, s0 S).

  (* a1 * a2 + b1 * b2 + c1 * c2 *)
  Definition scal (v w : vec) : T :=
    sadd S (sadd S (smul S (vx v) (vx w)) (smul S (vy v) (vy w))) (smul S (vz v) (vz w)).

  (* (y1 * z2 - z1 * y2, x2 * z1 - x1 * z2, x1 * y2 - y1 * x2) *)
  Definition vect (v w : vec) : vec :=
    (ssub S (smul S (vy v) (vz w)) (smul S (vz v) (vy w)),
     ssub S (smul S (vx w) (vz v)) (smul S (vx v) (vz w)),
     ssub S (smul S (vx v) (vy w)) (smul S (vy v) (vx w))).

  Definition mixed (u v w : vec) : T := scal u (vect v w).

  Definition rescale (a : T) (v : vec) : vec := (smul S a (vx v), smul S a (vy v), smul S a (vz v)).

  (* vsum(v, w): the accumulators start at 0. *)
  Definition vsum2 (v w : vec) : vec :=
    (sadd S (sadd S (s0 S) (vx v)) (vx w),
     sadd S (sadd S (s0 S) (vy v)) (vy w),
     sadd S (sadd S (s0 S) (vz v)) (vz w)).

  Definition vdiff (v w : vec) : vec :=
    (ssub S (vx v) (vx w), ssub S (vy v) (vy w), ssub S (vz v) (vz w)).

  Definition mag2 (v : vec) : T := scal v v.
  Definition mag (v : vec) : T := ssqrt S (mag2 v).

  (* renorm(vec) = rescale(1. / mag(vec), vec) *)
  Definition renorm (v : vec) : res vec :=
    let m := mag v in
    if seqb S m (s0 S) then Err EZeroDiv else Ok (rescale (sdiv S (s1 S) m) v).

  Definition pointInPlaneIntersection (p1 p2 : plane) : res line :=
    let '(point1, normal1) := p1 in
    let '(point2, normal2) := p2 in
    let line_vec := vect normal1 normal2 in
    let vec1 := vect normal1 line_vec in
    let vec2 := vect normal2 line_vec in
    let dist := vdiff point1 point2 in
    let den := mixed vec1 vec2 line_vec in
    if seqb S den (s0 S) then Err EZeroDiv else
    let a := sdiv S (sneg S (mixed dist vec2 line_vec)) den in
    let int_point := vsum2 point1 (rescale a vec1) in
    match renorm line_vec with
    | Err e => Err e
    | Ok d => Ok (int_point, d)
    end.

  Definition planeSide (point : vec) (pl : plane) : Z :=
    let '(point_pl, normal) := pl in
    let dist := scal (vdiff point point_pl) normal in
    if sltb S (s0 S) dist then 1%Z else if sltb S dist (s0 S) then (-1)%Z else 0%Z.

  Definition projectPointOnPlane (point : vec) (pl : plane) (direction : vec) : res vec :=
    let '(pl_pt, normal) := pl in
    let den := scal direction normal in
    if seqb S den (s0 S) then Err EZeroDiv else
    let dist := sdiv S (scal (vdiff pl_pt point) normal) den in
    Ok (vsum2 point (rescale dist direction)).

  Definition areHexSidesAdjacent (plane1 plane2 : plane) (other1 other2 : surf)
    : res (option line) :=
    let '(other_plane1, side1) := other1 in
    let '(other_plane2, side2) := other2 in
    match pointInPlaneIntersection plane1 plane2 with
    | Err e => Err e
    | Ok (int_pt, line_vec) =>
        if Z.eqb side1 (planeSide int_pt other_plane1) && Z.eqb side2 (planeSide int_pt other_plane2)
        then Ok (Some (int_pt, line_vec)) else Ok None
    end.

  Definition dflt_surf : surf := ((vzero, vzero), 0%Z).
  Definition nth_surf (surfs : list surf) (i : nat) : surf := nth i surfs dflt_surf.

  Definition hex_adjf (surfs : list surf) (i j : nat) : res (option line) :=
    let k1 := 2 * other_group i j in
    areHexSidesAdjacent (fst (nth_surf surfs i)) (fst (nth_surf surfs j))
                        (nth_surf surfs k1) (nth_surf surfs (k1 + 1)).

  Definition hexSortSides (surfs : list surf) : res (adjacency line) :=
    if negb (Nat.eqb (List.length surfs) 6) then Err ELattice else sort_sides (hex_adjf surfs).

  Definition hexVertices (surfs : list surf) (first_side : nat) : res (list vec * vec) :=
    let n := List.length surfs in
    if negb (Nat.eqb n 6 || Nat.eqb n 8) then Err EAssert else
    if negb (Nat.ltb first_side 6) then Err EAssert else
    match hexSortSides (firstn 6 surfs) with
    | Err e => Err e
    | Ok adj =>
        match first_some adj with
        | None => Err EStop
        | Some (_, prism_dir) =>
            let top_plane := if Nat.eqb n 6 then (vzero, prism_dir)
                             else fst (nth_surf surfs (n - 2)) in
            match hex_walk adj (fun inters : line =>
                                  projectPointOnPlane (fst inters) top_plane (snd inters))
                           first_side with
            | Err e => Err e
            | Ok vs => Ok (vs, prism_dir)
            end
        end
    end.

  Definition nth_vec (l : list vec) (i : nat) : vec := nth i l vzero.

  Definition hexLatticeBaseVectors (surfaces : list surf) : res (list vec) :=
    match hexVertices surfaces 0 with
    | Err e => Err e
    | Ok (vertices_0, axis) =>
        match hexVertices surfaces 2 with
        | Err e => Err e
        | Ok (vertices_2, _) =>
            let base := [vdiff (nth_vec vertices_0 0) (nth_vec vertices_0 2);
                         vdiff (nth_vec vertices_2 0) (nth_vec vertices_2 2)] in
            let n := List.length surfaces in
            if Nat.eqb n 8 then
              match projectPointOnPlane (nth_vec vertices_0 0) (fst (nth_surf surfaces (n - 1))) axis with
              | Err e => Err e
              | Ok bottom_pt =>
                  match projectPointOnPlane (nth_vec vertices_0 0) (fst (nth_surf surfaces (n - 2))) axis with
                  | Err e => Err e
                  | Ok top_pt => Ok (base ++ [vdiff top_pt bottom_pt])
                  end
              end
            else Ok base
        end
    end.
End Num.

(* ---------------------------------------------------------------------- *)
(* develop_lattice: the ranges against the base vectors, the translation   *)
(* ---------------------------------------------------------------------- *)

(* x[0] != x[1] *)
Definition nontrivial (r : Z * Z) : bool := negb (Z.eqb (fst r) (snd r)).

(* n_vectors = len(lat_base_vectors)
   if len(domain.bounds) < n_vectors: raise LatticeError
   for range_ in list(domain.bounds)[n_vectors:]: raise LatticeError unless trivial
   (the code as repaired by /repo commit 9b5a8f0) *)
Definition domain_check (nvec : nat) (bounds : list (Z * Z)) : res unit :=
  if Nat.ltb (List.length bounds) nvec then Err ELattice
  else if forallb (fun r => negb (nontrivial r)) (skipn nvec bounds) then Ok tt
  else Err ELattice.

Section LatVec.
  Context {T : Type} (S : Scalar T).

  (* rescale(float(i), vec) for i, vec in zip(index, base_vecs) *)
  Fixpoint lattice_terms (base : list (vec (T:=T))) (index : list Z) : list (vec (T:=T)) :=
    match base, index with
    | b :: bs, i :: js => rescale S (sofZ S i) b :: lattice_terms bs js
    | _, _ => []
    end.

  (* vsum over the argument list: accumulators start at 0. *)
  Definition vsum_list (l : list (vec (T:=T))) : vec (T:=T) :=
    fold_left (fun acc v => (sadd S (vx acc) (vx v), sadd S (vy acc) (vy v), sadd S (vz acc) (vz v)))
              l (vzero S).

  Definition latticeVector (base : list (vec (T:=T))) (index : list Z) : vec (T:=T) :=
    vsum_list (lattice_terms base index).
End LatVec.

(* ---------------------------------------------------------------------- *)
(* from the surface cards to the argument of hexLatticeBaseVectors:        *)
(*   MacroBodies.rhp, ParseMCNPSurface.to_surface_mcnp for a P surface     *)
(*   (MIP forcad.p / _plane / _shift), CellConversion.extract_surfaces     *)
(* ---------------------------------------------------------------------- *)
Section Rhp.
  Context {T : Type} (S : Scalar T).
  Local Notation vec := (vec (T:=T)).

  Definition abcd : Type := T * T * T * T.

  (* VectUtils.planeParamsFromNormalAndPoint: [n0, n1, n2, scal(normal, point)] *)
  Definition planeParamsFromNormalAndPoint (normal point : vec) : abcd :=
    (vx normal, vy normal, vz normal, scal S normal point).

  (* vsum of three vectors: accumulators start at 0. *)
  Definition vsum3 (a b c : vec) : vec :=
    (sadd S (sadd S (sadd S (s0 S) (vx a)) (vx b)) (vx c),
     sadd S (sadd S (sadd S (s0 S) (vy a)) (vy b)) (vy c),
     sadd S (sadd S (sadd S (s0 S) (vz a)) (vz b)) (vz c)).

  (* VectUtils.rotate (Rodrigues) *)
  Definition rotate (v axis : vec) (angle : T) : vec :=
    let cangle := scos S angle in
    let sangle := ssin S angle in
    vsum3 (rescale S cangle v) (rescale S sangle (vect S axis v))
          (rescale S (smul S (ssub S (s1 S) cangle) (scal S axis v)) axis).

  (* MIP forcad.p: normalise (A, B, C, D), point = shift of the origin along the
     unit normal by D; the frame (point, normal) is SurfaceMCNP.param_surface *)
  Definition forcad_p (q : abcd) : res (plane (T:=T)) :=
    let '(a, b, c, d) := q in
    let nrm := ssqrt S (sadd S (sadd S (smul S a a) (smul S b b)) (smul S c c)) in
    if seqb S nrm (s0 S) then Err EZeroDiv else
    let a' := sdiv S a nrm in let b' := sdiv S b nrm in
    let c' := sdiv S c nrm in let d' := sdiv S d nrm in
    Ok ((sadd S (s0 S) (smul S a' d'), sadd S (s0 S) (smul S b' d'), sadd S (s0 S) (smul S c' d')),
        (a', b', c')).

  (* MIP forcad.px / py / pz: _plane(d, 0, 0, 1, 0, 0) etc. *)
  Definition forcad_axis (axis : nat) (d : T) : plane (T:=T) :=
    match axis with
    | O => ((d, s0 S, s0 S), (s1 S, s0 S, s0 S))
    | Datatypes.S O => ((s0 S, d, s0 S), (s0 S, s1 S, s0 S))
    | _ => ((s0 S, s0 S, d), (s0 S, s0 S, s1 S))
    end.

  (* a plane card: kind 0 = P with (A, B, C, D); 1, 2, 3 = PX, PY, PZ with D *)
  Definition card_plane (kind : nat) (q : abcd) : res (plane (T:=T)) :=
    match kind with
    | O => forcad_p q
    | Datatypes.S k => let '(a, _, _, _) := q in Ok (forcad_axis k a)
    end.

  Definition vec_of3 (l : list T) : vec :=
    match l with [x; y; z] => (x, y, z) | _ => vzero S end.

  (* MacroBodies.rhp: eight (P, parameters, side) parts; side +1 = the outside
     of the body is on the positive side *)
  Definition rhp (params : list T) : res (list (abcd * Z)) :=
    let n := List.length params in
    if negb (Nat.eqb n 9 || Nat.eqb n 15) then Err EMacro else
    let base_bottom := vec_of3 (firstn 3 params) in
    let height := vec_of3 (firstn 3 (skipn 3 params)) in
    let vec_a := vec_of3 (firstn 3 (skipn 6 params)) in
    match (if Nat.eqb n 15
           then Ok (vec_of3 (firstn 3 (skipn 9 params)), vec_of3 (skipn 12 params))
           else match renorm S height with
                | Err e => Err e
                | Ok hn => Ok (rotate vec_a hn (sdiv S (spi S) (sofZ S 3)),
                               rotate vec_a hn (sdiv S (smul S (sofZ S 2) (spi S)) (sofZ S 3)))
                end) with
    | Err e => Err e
    | Ok (vec_b, vec_c) =>
        let base_top := vsum2 S base_bottom height in
        let pp := planeParamsFromNormalAndPoint in
        Ok [ (pp vec_a (vsum2 S base_bottom vec_a), 1%Z);
             (pp vec_a (vdiff S base_bottom vec_a), (-1)%Z);
             (pp vec_b (vsum2 S base_bottom vec_b), 1%Z);
             (pp vec_b (vdiff S base_bottom vec_b), (-1)%Z);
             (pp vec_c (vsum2 S base_bottom vec_c), 1%Z);
             (pp vec_c (vdiff S base_bottom vec_c), (-1)%Z);
             (pp height base_top, 1%Z);
             (pp height base_bottom, (-1)%Z) ]
    end.

  (* to_surfaces_macro for RHP/HEX without a TRn: [(SurfaceMCNP, side)], of
     which extract_surfaces reads param_surface *)
  Fixpoint parts_to_surfs (parts : list (abcd * Z)) : res (list (surf (T:=T))) :=
    match parts with
    | [] => Ok []
    | (q, side) :: r =>
        match forcad_p q with
        | Err e => Err e
        | Ok pl => match parts_to_surfs r with
                   | Err e => Err e
                   | Ok l => Ok ((pl, side) :: l)
                   end
        end
    end.

  Definition rhp_surfaces (params : list T) : res (list (surf (T:=T))) :=
    bind (rhp params) parts_to_surfs.

  (* CellConversion.extract_surfaces: the surfaces of the cell in the order of
     its expression, the side of each part negated under a negative literal *)
  Definition extract_surfaces (dic : Z -> list (surf (T:=T))) (ids : list Z) : list (surf (T:=T)) :=
    flat_map (fun id => map (fun ps => (fst ps, if Z.ltb 0 id then snd ps else Z.opp (snd ps)))
                            (dic (Z.abs id))) ids.

  (* a LAT=2 cell "-b" bounded by the RHP/HEX macrobody b *)
  Definition rhp_cell_surfaces (params : list T) : res (list (surf (T:=T))) :=
    bind (rhp_surfaces params) (fun parts => Ok (extract_surfaces (fun _ => parts) [(-1)%Z])).

  Definition hexLatticeBaseVectors_rhp (params : list T) : res (list vec) :=
    bind (rhp_cell_surfaces params) (hexLatticeBaseVectors S).
End Rhp.
