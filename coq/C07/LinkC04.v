(* C07 <-> C04: a hexagonal prism whose planes are moved by the rigid motion of
   a TR card / TRCL (C04.Model.transformation on the plane frames, i.e.
   p -> O + B^T p on points and B^T on normals, C04.ProofsFrame.transformation_frame)
   has its base vectors rotated by B^T: hexLatticeBaseVectors commutes with the
   motion.  Uses C04's to_main / tvec / rows_orthonormal and its lemmas dot_tvec,
   to_main_diff. *)
From Coq Require Import List Arith ZArith Bool Reals Lra Lia.
From T4V Require Import Base.Scalar.
From T4V Require C04.Vec C04.Model C04.Spec C04.ProofsFrame.
From T4V Require Import C07.Model C07.ProofsAlgebra C07.ProofsComb C07.ProofsMain C07.ProofsGeom.
Import ListNotations.
Open Scope R_scope.

Module V4 := C04.Vec.
Module S4 := C04.Spec.
Module F4 := C04.ProofsFrame.

Definition t3 (v : rvec) : S4.R3 := V4.mkV (vx v) (vy v) (vz v).
Definition f3 (v : S4.R3) : rvec := (V4.vx v, V4.vy v, V4.vz v).

Lemma f3_t3 v : f3 (t3 v) = v.
Proof. destruct v as [[a b] c]. reflexivity. Qed.
Lemma t3_f3 v : t3 (f3 v) = v.
Proof. destruct v. reflexivity. Qed.

(* the motion of C04 on C07's triples *)
Definition mov (o : S4.R3) (b : V4.M3 R) (q : rvec) : rvec := f3 (S4.to_main o b (t3 q)).
Definition rot (b : V4.M3 R) (q : rvec) : rvec := f3 (F4.tvec b (t3 q)).

Lemma dot_t3 x y : S4.dot (t3 x) (t3 y) = dot x y.
Proof. destruct x as [[a b] c], y as [[d e] f]. reflexivity. Qed.

Lemma dot_rot b x y : S4.rows_orthonormal b -> dot (rot b x) (rot b y) = dot x y.
Proof.
  intros Hb. unfold rot. rewrite <- (dot_t3 (f3 _) (f3 _)), !t3_f3, F4.dot_tvec by exact Hb. apply dot_t3.
Qed.

Lemma mov_diff o b p q : vsub (mov o b p) (mov o b q) = rot b (vsub p q).
Proof.
  unfold mov, rot.
  assert (E : t3 (vsub p q) = S4.vminus (t3 p) (t3 q)).
  { destruct p as [[a1 a2] a3], q as [[b1 b2] b3]. reflexivity. }
  rewrite E, <- (F4.to_main_diff o b).
  destruct (S4.to_main o b (t3 p)), (S4.to_main o b (t3 q)). reflexivity.
Qed.

Lemma rot_add b x y : rot b (vadd x y) = vadd (rot b x) (rot b y).
Proof.
  destruct b as [[b1 b2 b3] [b4 b5 b6] [b7 b8 b9]], x as [[x1 x2] x3], y as [[y1 y2] y3].
  unfold rot, F4.tvec, t3, f3, vadd, vx, vy, vz; cbn. apply vec_eq; ring.
Qed.

Lemma rot_sub b x y : rot b (vsub x y) = vsub (rot b x) (rot b y).
Proof.
  destruct b as [[b1 b2 b3] [b4 b5 b6] [b7 b8 b9]], x as [[x1 x2] x3], y as [[y1 y2] y3].
  unfold rot, F4.tvec, t3, f3, vsub, vx, vy, vz; cbn. apply vec_eq; ring.
Qed.

Lemma rot_scale b k x : rot b (vscale k x) = vscale k (rot b x).
Proof.
  destruct b as [[b1 b2 b3] [b4 b5 b6] [b7 b8 b9]], x as [[x1 x2] x3].
  unfold rot, F4.tvec, t3, f3, vscale, vx, vy, vz; cbn. apply vec_eq; ring.
Qed.

Lemma mov_affine o b c q : mov o b (vsub (vscale 2 c) q) = vsub (vscale 2 (mov o b c)) (mov o b q).
Proof.
  destruct o as [o1 o2 o3], b as [[b1 b2 b3] [b4 b5 b6] [b7 b8 b9]], c as [[c1 c2] c3], q as [[q1 q2] q3].
  unfold mov, S4.to_main, S4.vplus, S4.vscale, t3, f3, vsub, vscale, vx, vy, vz; cbn. apply vec_eq; ring.
Qed.

(* det (B^T a, B^T b, B^T c) = det B * det (a, b, c), and det B <> 0 *)
Lemma det3_rot b x y z : det3 (rot b x) (rot b y) (rot b z) = S4.det b * det3 x y z.
Proof.
  destruct b as [[b1 b2 b3] [b4 b5 b6] [b7 b8 b9]], x as [[x1 x2] x3], y as [[y1 y2] y3], z as [[z1 z2] z3].
  unfold rot, F4.tvec, t3, f3, det3, dot, cross, S4.det, S4.dot, S4.cross, vx, vy, vz; cbn. ring.
Qed.

Lemma det_nonzero b : S4.rows_orthonormal b -> S4.det b <> 0.
Proof.
  destruct b as [[b1 b2 b3] [b4 b5 b6] [b7 b8 b9]].
  unfold S4.rows_orthonormal, S4.det, S4.dot, S4.cross; cbn.
  intros (H11 & H22 & H33 & H12 & H23 & H31) Z.
  (* Gram determinant: det^2 = g11 g22 g33 + 2 g12 g23 g31 - g11 g23^2 - g22 g31^2 - g33 g12^2 *)
  set (g11 := b1 * b1 + b2 * b2 + b3 * b3) in *. set (g22 := b4 * b4 + b5 * b5 + b6 * b6) in *.
  set (g33 := b7 * b7 + b8 * b8 + b9 * b9) in *. set (g12 := b1 * b4 + b2 * b5 + b3 * b6) in *.
  set (g23 := b4 * b7 + b5 * b8 + b6 * b9) in *. set (g31 := b7 * b1 + b8 * b2 + b9 * b3) in *.
  set (d := b1 * (b5 * b9 - b6 * b8) + b2 * (b6 * b7 - b4 * b9) + b3 * (b4 * b8 - b5 * b7)) in *.
  assert (G : d * d = g11 * g22 * g33 + 2 * g12 * g23 * g31 - g11 * g23 * g23 - g22 * g31 * g31 - g33 * g12 * g12)
    by (unfold d, g11, g22, g33, g12, g23, g31; ring).
  rewrite H11, H22, H33, H12, H23, H31, Z in G. lra.
Qed.

Definition moved_surf (o : S4.R3) (b : V4.M3 R) (s : rsurf) : rsurf :=
  ((mov o b (fst (fst s)), rot b (snd (fst s))), snd s).
Definition moved_surfs (o : S4.R3) (b : V4.M3 R) (surfs : list rsurf) : list rsurf :=
  map (moved_surf o b) surfs.

(* this IS what C04's model of Transformation.transformation does to a plane *)
Lemma moved_plane_is_C04_transformation (o : S4.R3) (b : V4.M3 R) (P N : rvec) cp nap :
  C04.Model.transformation RS (V4.vlist o ++ V4.mlist b) (C04.Model.mkMS C04.Model.KP (t3 P) (t3 N) cp nap)
  = C04.Model.Ok (C04.Model.mkMS C04.Model.KP (t3 (mov o b P)) (t3 (rot b N)) cp nap).
Proof. rewrite F4.transformation_frame by reflexivity. unfold mov, rot. rewrite !t3_f3. reflexivity. Qed.

Lemma nth_map_lt' {A B} (f : A -> B) (ls : list A) (i : nat) (d : A) (d' : B) :
  (i < List.length ls)%nat -> nth i (map f ls) d' = f (nth i ls d).
Proof.
  revert i. induction ls as [|x r IH]; intros i Hi; [cbn in Hi; lia|].
  destruct i as [|i]; [reflexivity|]. cbn. apply IH. cbn in Hi. lia.
Qed.

Section Moved.
  Context (o : S4.R3) (b : V4.M3 R) (c u : rvec) (w : nat -> rvec) (l : list nat) (surfs : list rsurf).
  Hypothesis Hb : S4.rows_orthonormal b.
  Let surfs' := moved_surfs o b surfs.
  Let w' : nat -> rvec := fun k => mov o b (w k).

  Lemma moved_pl i : (i < List.length surfs)%nat ->
    pl surfs' i = (mov o b (fst (pl surfs i)), rot b (snd (pl surfs i))) /\ sd surfs' i = sd surfs i.
  Proof.
    intros Hi. unfold pl, sd, nth_surf, surfs', moved_surfs.
    rewrite (nth_map_lt' _ surfs i (dflt_surf RS) (dflt_surf RS) Hi). split; reflexivity.
  Qed.

  Lemma pf_moved (p : rplane) (q : rvec) :
    pf (mov o b (fst p), rot b (snd p)) (mov o b q) = pf p q.
  Proof. unfold pf. cbn [fst snd]. rewrite mov_diff, dot_rot by exact Hb. reflexivity. Qed.

  Lemma on_plane_moved (p : rplane) (q : rvec) :
    on_plane q p -> on_plane (mov o b q) (mov o b (fst p), rot b (snd p)).
  Proof. intros H. change (pf (mov o b (fst p), rot b (snd p)) (mov o b q) = 0). rewrite pf_moved. exact H. Qed.

  Lemma side_moved (p : rplane) (q : rvec) :
    planeSide RS (mov o b q) (mov o b (fst p), rot b (snd p)) = planeSide RS q p.
  Proof. rewrite !planeSide_pf, pf_moved. reflexivity. Qed.

  Lemma wv_moved k : wv w' k = mov o b (wv w k).
  Proof. reflexivity. Qed.

  Lemma across_moved a : across (mov o b c) w' a = rot b (across c w a).
  Proof. unfold across. rewrite !wv_moved, !mov_diff, rot_add. reflexivity. Qed.

  Lemma proj_par_moved n x : proj_par (rot b u) (rot b n) (rot b x) = rot b (proj_par u n x).
  Proof. unfold proj_par. rewrite !dot_rot by exact Hb. rewrite rot_sub, rot_scale. reflexivity. Qed.

  Hypothesis Hl : In l all_listings.
  Hypothesis Hcarry : forall i, (i < 6)%nat -> carries u w (pl surfs i) (side_at l i).
  Hypothesis Hsense : forall i, (i < 6)%nat -> sd surfs i = planeSide RS c (pl surfs i) /\ sd surfs i <> 0%Z.
  Hypothesis Hsym : forall k, wv w (k + 3) = vsub (vscale 2 c) (wv w k).
  Hypothesis Hturn :
    (forall k, 0 < det3 (vsub (wv w (k + 1)) (wv w k)) (vsub (wv w (k + 2)) (wv w (k + 1))) u) \/
    (forall k, det3 (vsub (wv w (k + 1)) (wv w k)) (vsub (wv w (k + 2)) (wv w (k + 1))) u < 0).
  Hypothesis Hlen : List.length surfs = 6%nat \/
    (List.length surfs = 8%nat /\ dot u (snd (pl surfs 6)) <> 0 /\ dot u (snd (pl surfs 7)) <> 0 /\
     exists lam, snd (pl surfs 6) = vscale lam (snd (pl surfs 7))).

  Lemma len_ge6 : (6 <= List.length surfs)%nat.
  Proof. destruct Hlen as [L|(L & _)]; unfold rsurf in *; lia. Qed.

  Lemma carry' i : (i < 6)%nat -> carries (rot b u) w' (pl surfs' i) (side_at l i).
  Proof.
    intros Hi. pose proof len_ge6 as H6. destruct (moved_pl i ltac:(lia)) as [E _]. rewrite E.
    destruct (Hcarry i Hi) as (H1 & H2 & H3). unfold carries. rewrite !wv_moved. repeat split.
    - apply on_plane_moved. exact H1.
    - apply on_plane_moved. exact H2.
    - cbn [snd]. rewrite dot_rot by exact Hb. exact H3.
  Qed.

  Lemma sense' i : (i < 6)%nat ->
    sd surfs' i = planeSide RS (mov o b c) (pl surfs' i) /\ sd surfs' i <> 0%Z.
  Proof.
    intros Hi. pose proof len_ge6 as H6. destruct (moved_pl i ltac:(lia)) as [E Es]. rewrite E, Es, side_moved.
    apply Hsense. exact Hi.
  Qed.

  Lemma sym' k : wv w' (k + 3) = vsub (vscale 2 (mov o b c)) (wv w' k).
  Proof. rewrite !wv_moved, Hsym. apply mov_affine. Qed.

  Lemma turn' :
    (forall k, 0 < det3 (vsub (wv w' (k + 1)) (wv w' k)) (vsub (wv w' (k + 2)) (wv w' (k + 1))) (rot b u)) \/
    (forall k, det3 (vsub (wv w' (k + 1)) (wv w' k)) (vsub (wv w' (k + 2)) (wv w' (k + 1))) (rot b u) < 0).
  Proof.
    pose proof (det_nonzero b Hb) as Hd.
    assert (E : forall k, det3 (vsub (wv w' (k + 1)) (wv w' k)) (vsub (wv w' (k + 2)) (wv w' (k + 1))) (rot b u)
                          = S4.det b * det3 (vsub (wv w (k + 1)) (wv w k)) (vsub (wv w (k + 2)) (wv w (k + 1))) u).
    { intros k. rewrite !wv_moved, !mov_diff. apply det3_rot. }
    destruct (Rlt_le_dec 0 (S4.det b)) as [Hp|Hn].
    - destruct Hturn as [H|H]; [left|right]; intros k; rewrite E; specialize (H k); nra.
    - assert (Hn' : S4.det b < 0) by lra.
      destruct Hturn as [H|H]; [right|left]; intros k; rewrite E; specialize (H k); nra.
  Qed.

  (* the base vectors of the moved prism are the base vectors rotated by B^T *)
  Theorem hex_base_vectors_moved :
    exists vecs,
      hexLatticeBaseVectors RS surfs = Ok vecs /\
      hexLatticeBaseVectors RS surfs' = Ok (map (rot b) vecs).
  Proof.
    destruct (hex_base_vectors c u w l surfs Hl Hcarry Hsense Hsym Hturn) as [H6 H8].
    destruct (hex_base_vectors (mov o b c) (rot b u) w' l surfs' Hl carry' sense' sym' turn') as [H6' H8'].
    assert (Lm : List.length surfs' = List.length surfs) by (unfold surfs', moved_surfs; apply map_length).
    destruct Hlen as [L|(L & U7 & U8 & lam & Hlam)].
    - eexists. split; [exact (H6 L)|]. rewrite (H6' ltac:(rewrite Lm; exact L)).
      cbn [map]. rewrite !across_moved, !proj_par_moved. reflexivity.
    - destruct (moved_pl 6 ltac:(unfold rsurf in *; lia)) as [E6 _].
      destruct (moved_pl 7 ltac:(unfold rsurf in *; lia)) as [E7 _].
      destruct (H8 L U7 U8) as (tau & Ev & Ht). destruct (Ht lam Hlam) as [Etau _].
      destruct (H8' ltac:(rewrite Lm; exact L)) as (tau' & Ev' & Ht').
      { rewrite E6. cbn [snd]. rewrite dot_rot by exact Hb. exact U7. }
      { rewrite E7. cbn [snd]. rewrite dot_rot by exact Hb. exact U8. }
      destruct (Ht' lam) as [Etau' _].
      { rewrite E6, E7. cbn [snd]. rewrite Hlam. apply rot_scale. }
      eexists. split; [exact Ev|]. rewrite Ev'. cbn [map].
      rewrite E6. cbn [snd]. rewrite !across_moved, !proj_par_moved.
      assert (Et : tau' = tau).
      { rewrite Etau', Etau, E6, E7. cbn [fst snd]. rewrite mov_diff, !dot_rot by exact Hb. reflexivity. }
      rewrite Et, rot_scale. reflexivity.
  Qed.
End Moved.
