(* C07 — combinatorics of the traversal (piece (ii) of DESIGN 5.8).
   1. The 48 admissible listing orders of the six sides of a hexagon, and the
      boolean adjacency each of them induces on listing positions.
   2. By computation: for every listing and every [first_side], hexSortSides'
      double loop accepts the adjacency and hexVertices' loop returns the six
      vertices in consecutive order, the first and the last on the requested
      side.
   3. Parametricity of the traversal: run on two adjacencies that are related
      entry by entry it takes the same path.  This is what lets the numeric
      function (adjacency of lines in R^3) be read off the combinatorial one. *)
From Coq Require Import List Arith Bool Lia ZifyBool.
From T4V Require Import Base.Scalar Base.Cases C07.Model.
Import ListNotations.

(* ---------------------------------------------------------------------- *)
(* 1. listings                                                             *)
(* ---------------------------------------------------------------------- *)

(* geometric sides 0..5 in consecutive order around the hexagon; side a is the
   segment [w(a-1), w(a)]; sides a and a+3 are opposite *)
Definition opp (a : nat) : nat := (a + 3) mod 6.

Definition geo_adj (a b : nat) : bool := Nat.eqb ((a + 1) mod 6) b || Nat.eqb ((b + 1) mod 6) a.

(* the vertex shared by two adjacent sides: sides a and a+1 meet in w(a) *)
Definition shared (a b : nat) : nat := if Nat.eqb ((a + 1) mod 6) b then a else b.

(* MCNP order: first side, its opposite, another side, its opposite, the two
   remaining ones in either order: 6 * 4 * 2 = 48 listings *)
Definition all_listings : list (list nat) :=
  flat_map (fun g0 =>
    let rest := filter (fun g => negb (Nat.eqb g g0) && negb (Nat.eqb g (opp g0))) (seq 0 6) in
    flat_map (fun g2 =>
      let last := filter (fun g => negb (Nat.eqb g g2) && negb (Nat.eqb g (opp g2))) rest in
      [[g0; opp g0; g2; opp g2] ++ last; [g0; opp g0; g2; opp g2] ++ rev last]) rest)
    (seq 0 6).

Definition side_at (l : list nat) (i : nat) : nat := nth i l 0.

(* adjacency of listing positions *)
Definition adjb_of_listing (l : list nat) (i j : nat) : bool := geo_adj (side_at l i) (side_at l j).

(* the vertex named by a key (i, j) of the adjacency dictionary *)
Definition vertex_of (l : list nat) (k : nat * nat) : nat := shared (side_at l (fst k)) (side_at l (snd k)).

(* an independent description of the admissible listings *)
Definition admissible (l : list nat) : bool :=
  Nat.eqb (List.length l) 6 && forallb (fun g => Nat.ltb g 6) l &&
  forallb (fun g => existsb (Nat.eqb g) l) (seq 0 6) &&
  Nat.eqb (side_at l 1) (opp (side_at l 0)) && Nat.eqb (side_at l 3) (opp (side_at l 2)).

Fixpoint lists_upto (n : nat) (len : nat) : list (list nat) :=
  match len with
  | O => [[]]
  | S m => flat_map (fun x => map (cons x) (lists_upto n m)) (seq 0 n)
  end.

Definition list_nat_eqb (a b : list nat) : bool := list_eqb Nat.eqb a b.

Lemma list_nat_eqb_eq a b : list_nat_eqb a b = true <-> a = b.
Proof.
  unfold list_nat_eqb. revert b. induction a as [|x a IH]; intros [|y b]; cbn; split; intros H;
    try reflexivity; try discriminate.
  - apply andb_true_iff in H. destruct H as [H1 H2]. apply Nat.eqb_eq in H1. apply IH in H2. congruence.
  - inversion H; subst. rewrite Nat.eqb_refl. cbn. apply IH. reflexivity.
Qed.

Lemma in_lists_upto n len l :
  List.length l = len -> Forall (fun x => x < n) l -> In l (lists_upto n len).
Proof.
  revert l. induction len as [|m IH]; intros l Hl Hf.
  - destruct l; [left; reflexivity|discriminate].
  - destruct l as [|x r]; [discriminate|]. cbn [lists_upto]. apply in_flat_map.
    inversion Hf as [|? ? Hx Hr]; subst. exists x. split.
    + apply in_seq. lia.
    + apply in_map. apply IH; [cbn in Hl; lia|exact Hr].
Qed.

Lemma admissible_sweep :
  forallb (fun l => Bool.eqb (admissible l) (existsb (list_nat_eqb l) all_listings))
          (lists_upto 6 6) = true.
Proof. vm_compute. reflexivity. Qed.

(* the 48 generated listings are exactly the lists that name every side once,
   the second opposite to the first and the fourth opposite to the third *)
Theorem admissible_iff l : admissible l = true <-> In l all_listings.
Proof.
  split.
  - intros H. assert (Hin : In l (lists_upto 6 6)).
    { pose proof H as H0. unfold admissible in H0.
      apply andb_true_iff in H0. destruct H0 as [H0 _].
      apply andb_true_iff in H0. destruct H0 as [H0 _].
      apply andb_true_iff in H0. destruct H0 as [H0 _].
      apply andb_true_iff in H0. destruct H0 as [H0 H'].
      apply in_lists_upto; [apply Nat.eqb_eq; exact H0|].
      apply Forall_forall. intros x Hx. rewrite forallb_forall in H'. specialize (H' x Hx).
      apply Nat.ltb_lt. exact H'. }
    pose proof (proj1 (forallb_forall _ _) admissible_sweep l Hin) as E. cbv beta in E.
    rewrite H in E. apply eqb_prop in E. symmetry in E. apply existsb_exists in E.
    destruct E as (l' & Hl' & E). apply list_nat_eqb_eq in E. subst. exact Hl'.
  - intros H. revert l H. apply Forall_forall.
    apply Forall_forall. intros l Hl.
    assert (E : forallb admissible all_listings = true) by (vm_compute; reflexivity).
    exact (proj1 (forallb_forall _ _) E l Hl).
Qed.

(* ---------------------------------------------------------------------- *)
(* 2. the traversal on the 48 listings, by computation                     *)
(* ---------------------------------------------------------------------- *)

Definition fwd (g : nat) : list nat := map (fun i => (g + i) mod 6) (seq 0 6).
Definition bwd (g : nat) : list nat := map (fun i => (g + 5 + 6 - i) mod 6) (seq 0 6).

(* hexSortSides accepts; hexVertices returns six keys naming consecutive
   vertices, starting from a vertex of the requested side and ending on its
   other vertex (side g = [w(g-1), w(g)]) *)
Definition walk_ok (l : list nat) (first : nat) : bool :=
  match hex_vertices_abs (adjb_of_listing l) first with
  | Ok ks =>
      let vs := map (vertex_of l) ks in
      let g := side_at l first in
      forallb (fun k => Nat.ltb (fst k) (snd k) && Nat.ltb (snd k) 6 &&
                        adjb_of_listing l (fst k) (snd k)) ks &&
      (list_nat_eqb vs (fwd g) || list_nat_eqb vs (bwd g))
  | Err _ => false
  end.

Lemma walk_sweep :
  forallb (fun l => forallb (walk_ok l) (seq 0 6)) all_listings = true.
Proof. vm_compute. reflexivity. Qed.

Theorem sort_and_vertices_all_orders (l : list nat) (first : nat) :
  In l all_listings -> first < 6 ->
  exists ks,
    hex_vertices_abs (adjb_of_listing l) first = Ok ks /\
    (forall k, In k ks -> fst k < snd k < 6 /\ adjb_of_listing l (fst k) (snd k) = true) /\
    (map (vertex_of l) ks = fwd (side_at l first) \/ map (vertex_of l) ks = bwd (side_at l first)).
Proof.
  intros Hl Hf.
  pose proof (proj1 (forallb_forall _ _) walk_sweep l Hl) as H. cbv beta in H.
  assert (Hin : In first (seq 0 6)) by (apply in_seq; lia).
  pose proof (proj1 (forallb_forall _ _) H first Hin) as H1.
  unfold walk_ok in H1.
  destruct (hex_vertices_abs (adjb_of_listing l) first) as [ks|e]; [|discriminate].
  exists ks. split; [reflexivity|].
  apply andb_true_iff in H1. destruct H1 as [Ha Hb]. split.
  - intros k Hk. pose proof (proj1 (forallb_forall _ _) Ha k Hk) as Hk'. cbv beta in Hk'.
    apply andb_true_iff in Hk'. destruct Hk' as [Hk1 Hk3].
    apply andb_true_iff in Hk1. destruct Hk1 as [Hk1 Hk2].
    apply Nat.ltb_lt in Hk1. apply Nat.ltb_lt in Hk2. repeat split; assumption.
  - apply orb_true_iff in Hb. destruct Hb as [Hb|Hb]; apply list_nat_eqb_eq in Hb; [left|right]; exact Hb.
Qed.

(* facts about listings used by the numeric half, by computation *)
Definition listing_facts (l : list nat) : bool :=
  Nat.eqb (List.length l) 6 && forallb (fun g => Nat.ltb g 6) l &&
  (* positions of one group are opposite sides; of different groups are not *)
  forallb (fun i => forallb (fun j =>
     if Nat.eqb (i / 2) (j / 2) then true
     else negb (Nat.eqb (side_at l i) (side_at l j)) &&
          negb (Nat.eqb (side_at l i) (opp (side_at l j))) &&
          (* the third group holds the two remaining pairs of opposite sides *)
          (let k1 := 2 * other_group i j in
           negb (Nat.eqb (k1 / 2) (i / 2)) && negb (Nat.eqb (k1 / 2) (j / 2)) && Nat.ltb (k1 + 1) 6))
     (seq 0 6)) (seq 0 6).

Lemma listing_facts_sweep : forallb listing_facts all_listings = true.
Proof. vm_compute. reflexivity. Qed.

Lemma listing_length l : In l all_listings -> List.length l = 6.
Proof.
  intros H. pose proof (proj1 (forallb_forall _ _) listing_facts_sweep l H) as F.
  unfold listing_facts in F. apply andb_true_iff in F. destruct F as [F _].
  apply andb_true_iff in F. destruct F as [F _]. apply Nat.eqb_eq. exact F.
Qed.

Lemma listing_side_lt l i : In l all_listings -> i < 6 -> side_at l i < 6.
Proof.
  intros H Hi. pose proof (proj1 (forallb_forall _ _) listing_facts_sweep l H) as F.
  unfold listing_facts in F. apply andb_true_iff in F. destruct F as [F _].
  apply andb_true_iff in F. destruct F as [Hlen F]. apply Nat.eqb_eq in Hlen.
  rewrite forallb_forall in F. apply Nat.ltb_lt. apply F. unfold side_at. apply nth_In. lia.
Qed.

Lemma listing_groups l i j :
  In l all_listings -> i < 6 -> j < 6 -> i / 2 <> j / 2 ->
  side_at l i <> side_at l j /\ side_at l i <> opp (side_at l j) /\
  (2 * other_group i j) / 2 <> i / 2 /\ (2 * other_group i j) / 2 <> j / 2 /\
  2 * other_group i j + 1 < 6.
Proof.
  intros H Hi Hj Hg. pose proof (proj1 (forallb_forall _ _) listing_facts_sweep l H) as F.
  unfold listing_facts in F. apply andb_true_iff in F. destruct F as [_ F].
  rewrite forallb_forall in F. assert (Ii : In i (seq 0 6)) by (apply in_seq; lia).
  specialize (F i Ii). rewrite forallb_forall in F.
  assert (Ij : In j (seq 0 6)) by (apply in_seq; lia). specialize (F j Ij).
  destruct (Nat.eqb (i / 2) (j / 2)) eqn:E; [apply Nat.eqb_eq in E; contradiction|].
  cbv zeta in F. repeat match goal with H : _ && _ = true |- _ => apply andb_true_iff in H; destruct H end.
  repeat match goal with
         | H : negb (Nat.eqb _ _) = true |- _ => apply negb_true_iff in H; apply Nat.eqb_neq in H
         | H : Nat.ltb _ _ = true |- _ => apply Nat.ltb_lt in H
         end.
  repeat split; assumption.
Qed.

(* ---------------------------------------------------------------------- *)
(* 3. parametricity of the traversal                                       *)
(* ---------------------------------------------------------------------- *)

Definition res_map {A B} (f : A -> B) (r : res A) : res B :=
  match r with Ok a => Ok (f a) | Err e => Err e end.

Section Rel.
  Context {A B : Type} (R : A -> B -> Prop).

  Definition Ropt (x : option A) (y : option B) : Prop :=
    match x, y with
    | None, None => True
    | Some a, Some b => R a b
    | _, _ => False
    end.

  Definition Radj (ca : adjacency A) (ab : adjacency B) : Prop :=
    Forall2 (fun x y => fst x = fst y /\ Ropt (snd x) (snd y)) ca ab.

  Lemma sort_pairs_rel (fa : nat -> nat -> res (option A)) (fb : nat -> nat -> res (option B)) ps :
    (forall i j, In (i, j) ps -> i / 2 <> j / 2 ->
                 exists x y, fa i j = Ok x /\ fb i j = Ok y /\ Ropt x y) ->
    exists ca ab, sort_pairs fa ps = Ok ca /\ sort_pairs fb ps = Ok ab /\ Radj ca ab.
  Proof.
    induction ps as [|[i j] r IH]; intros H.
    - exists [], []. repeat split. constructor.
    - destruct IH as (ca & ab & Ea & Eb & Hr).
      { intros i' j' Hin. apply H. right. exact Hin. }
      cbn [sort_pairs]. rewrite Ea, Eb.
      destruct (Nat.eqb (i / 2) (j / 2)) eqn:E.
      + exists (((i, j), None) :: ca), (((i, j), None) :: ab). repeat split.
        constructor; [split; [reflexivity|exact I]|exact Hr].
      + apply Nat.eqb_neq in E. destruct (H i j (or_introl eq_refl) E) as (x & y & Ex & Ey & Hxy).
        rewrite Ex, Ey. exists (((i, j), x) :: ca), (((i, j), y) :: ab). repeat split.
        constructor; [split; [reflexivity|exact Hxy]|exact Hr].
  Qed.

  Lemma count_some_rel ca ab : Radj ca ab -> count_some ca = count_some ab.
  Proof.
    unfold count_some. induction 1 as [|x y ca ab [_ Hxy] _ IH]; [reflexivity|].
    cbn [filter]. destruct x as [kx [a|]], y as [ky [b|]]; cbn in *; try contradiction; lia.
  Qed.

  Lemma adj_lookup_rel ca ab k : Radj ca ab -> Ropt (adj_lookup ca k) (adj_lookup ab k).
  Proof.
    induction 1 as [|x y ca ab [Hk Hxy] _ IH]; [exact I|].
    destruct x as [[i j] vx], y as [[i' j'] vy]. cbn in Hk. inversion Hk; subst.
    cbn [adj_lookup]. destruct (Nat.eqb i' (fst k) && Nat.eqb j' (snd k)); [exact Hxy|exact IH].
  Qed.

  Lemma first_some_rel ca ab : Radj ca ab -> Ropt (first_some ca) (first_some ab).
  Proof.
    induction 1 as [|x y ca ab [Hk Hxy] _ IH]; [exact I|].
    destruct x as [kx [a|]], y as [ky [b|]]; cbn in *; try contradiction; assumption.
  Qed.

  Lemma sort_sides_rel (fa : nat -> nat -> res (option A)) (fb : nat -> nat -> res (option B)) ab :
    (forall i j, In (i, j) hex_pairs -> i / 2 <> j / 2 ->
                 exists x y, fa i j = Ok x /\ fb i j = Ok y /\ Ropt x y) ->
    sort_sides fb = Ok ab ->
    exists ca, sort_sides fa = Ok ca /\ Radj ca ab.
  Proof.
    intros H Hb. destruct (sort_pairs_rel fa fb hex_pairs H) as (ca & ab' & Ea & Eb & Hr).
    unfold sort_sides in *. rewrite Ea. rewrite Eb in Hb.
    rewrite (count_some_rel _ _ Hr).
    destruct (Nat.eqb (count_some ab') 6); [|discriminate]. inversion Hb; subst.
    exists ca. split; [reflexivity|exact Hr].
  Qed.

  Section Walk.
    Context {C : Type} (lookA : nat -> nat -> option A) (lookB : nat -> nat -> option B)
            (visit : A -> res C) (f : B -> C).
    Hypothesis Hlook : forall a b, Ropt (lookA a b) (lookB a b).
    Hypothesis Hvisit : forall a b, R a b -> visit a = Ok (f b).

    Lemma find_next_rel seen cur cands :
      match find_next lookA seen cur cands, find_next lookB seen cur cands with
      | None, None => True
      | Some (i, a), Some (j, b) => i = j /\ R a b
      | _, _ => False
      end.
    Proof.
      induction cands as [|i r IH]; [exact I|]. cbn [find_next].
      destruct (mem i seen); [exact IH|].
      pose proof (Hlook cur i) as H. destruct (lookA cur i) as [a|], (lookB cur i) as [b|];
        cbn in H; try contradiction; [split; [reflexivity|exact H]|exact IH].
    Qed.

    Lemma walk_rel first n seen cur :
      walk lookA visit first n seen cur =
      res_map (map f) (walk lookB (fun b => Ok b) first n seen cur).
    Proof.
      revert seen cur. induction n as [|m IH]; intros seen cur; [reflexivity|].
      cbn [walk]. set (seen1 := if Nat.eqb (List.length seen) 6 then remove_nat first seen else seen).
      pose proof (find_next_rel seen1 cur (seq 0 6)) as H.
      destruct (find_next lookA seen1 cur (seq 0 6)) as [[i a]|],
               (find_next lookB seen1 cur (seq 0 6)) as [[j b]|]; try contradiction; [|reflexivity].
      destruct H as [<- Hab]. rewrite (Hvisit a b Hab). rewrite IH.
      destruct (walk lookB (fun b0 : B => Ok b0) first m (i :: seen1) i); reflexivity.
    Qed.
  End Walk.

  Lemma hex_walk_rel {C} ca ab (visit : A -> res C) (f : B -> C) first :
    Radj ca ab -> (forall a b, R a b -> visit a = Ok (f b)) ->
    hex_walk ca visit first = res_map (map f) (hex_walk ab (fun b => Ok b) first).
  Proof.
    intros Hr Hv. unfold hex_walk. apply walk_rel; [|exact Hv].
    intros a b. apply adj_lookup_rel. exact Hr.
  Qed.
End Rel.

(* the traversal never hangs and never fails on the adjacency of a hexagon,
   whatever the first side: the [while] loop of hexVertices terminates *)
Theorem walk_never_hangs_on_hexagons (l : list nat) (first : nat) :
  In l all_listings -> first < 6 ->
  exists ks, hex_vertices_abs (adjb_of_listing l) first = Ok ks /\ List.length ks = 6.
Proof.
  intros Hl Hf. destruct (sort_and_vertices_all_orders l first Hl Hf) as (ks & E & _ & Hm).
  exists ks. split; [exact E|].
  assert (L : List.length (map (vertex_of l) ks) = 6).
  { destruct Hm as [-> | ->]; reflexivity. }
  rewrite map_length in L. exact L.
Qed.
