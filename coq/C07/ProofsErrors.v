(* C07 — the error behaviour of the model on inputs outside the family of
   hex_base_vectors: wrong number of planes, parallel side planes (degenerate /
   non strictly convex hexagons), intersections that do not close up. *)
From Coq Require Import List Arith ZArith Bool Reals Lra Lia.
From T4V Require Import Base.Scalar Base.Cases C07.Model C07.ProofsAlgebra C07.ProofsComb C07.ProofsMain.
Import ListNotations.
Open Scope R_scope.

(* ---------- wrong number of planes ---------- *)

Theorem base_vectors_wrong_count (surfs : list rsurf) :
  List.length surfs <> 6%nat -> List.length surfs <> 8%nat ->
  hexLatticeBaseVectors RS surfs = Err EAssert.
Proof.
  intros H6 H8. unfold hexLatticeBaseVectors, hexVertices. unfold rsurf in *.
  destruct (Nat.eqb (List.length surfs) 6) eqn:E6; [apply Nat.eqb_eq in E6; contradiction|].
  destruct (Nat.eqb (List.length surfs) 8) eqn:E8; [apply Nat.eqb_eq in E8; contradiction|].
  reflexivity.
Qed.

(* ---------- parallel planes ---------- *)

Lemma vec_eq_dec (v : rvec) : v = (0, 0, 0) \/ v <> (0, 0, 0).
Proof.
  destruct v as [[a b] c].
  destruct (Req_dec a 0) as [Ha|Ha]; [|right; intros E; inversion E; contradiction].
  destruct (Req_dec b 0) as [Hb|Hb]; [|right; intros E; inversion E; contradiction].
  destruct (Req_dec c 0) as [Hc|Hc]; [|right; intros E; inversion E; contradiction].
  left. subst. reflexivity.
Qed.


Lemma cross_zero_den (n1 n2 : rvec) :
  cross n1 n2 = (0, 0, 0) ->
  mixed RS (cross n1 (cross n1 n2)) (cross n2 (cross n1 n2)) (cross n1 n2) = 0.
Proof.
  intros H. rewrite inter_den, H. unfold dot, vx, vy, vz; cbn. ring.
Qed.

(* pointInPlaneIntersection fails exactly on parallel planes, with
   ZeroDivisionError *)
Theorem intersection_error_iff (p1 n1 p2 n2 : rvec) :
  (pointInPlaneIntersection RS (p1, n1) (p2, n2) = Err EZeroDiv <-> cross n1 n2 = (0, 0, 0)) /\
  (cross n1 n2 <> (0, 0, 0) -> exists L, pointInPlaneIntersection RS (p1, n1) (p2, n2) = Ok L).
Proof.
  split; [split|].
  - intros E. destruct (vec_eq_dec (cross n1 n2)) as [Z|NZ]; [exact Z|].
    destruct (plane_intersection p1 n1 p2 n2 NZ) as (pt & d & E' & _). rewrite E' in E. discriminate.
  - intros Z. unfold pointInPlaneIntersection. rewrite !vect_cross.
    rewrite (cross_zero_den n1 n2 Z). cbn [seqb RS s0].
    assert (E : Reqb 0 0 = true) by (apply Reqb_true; reflexivity). rewrite E. reflexivity.
  - intros NZ. destruct (plane_intersection p1 n1 p2 n2 NZ) as (pt & d & E' & _).
    exists (pt, d). exact E'.
Qed.

Definition key_of (a b : nat) (p : nat * nat) : bool := Nat.eqb (fst p) a && Nat.eqb (snd p) b.

(* areHexSidesAdjacent: Ok (Some / None) on non-parallel planes,
   ZeroDivisionError on parallel ones — no other outcome *)
Theorem adjacent_outcomes (pl1 pl2 : rplane) (o1 o2 : rsurf) :
  (cross (snd pl1) (snd pl2) = (0, 0, 0) /\ areHexSidesAdjacent RS pl1 pl2 o1 o2 = Err EZeroDiv) \/
  (cross (snd pl1) (snd pl2) <> (0, 0, 0) /\ exists x, areHexSidesAdjacent RS pl1 pl2 o1 o2 = Ok x).
Proof.
  destruct pl1 as [p1 n1], pl2 as [p2 n2], o1 as [q1 s1], o2 as [q2 s2]. cbn [snd].
  destruct (vec_eq_dec (cross n1 n2)) as [Z|NZ].
  - left. split; [exact Z|]. unfold areHexSidesAdjacent.
    pose proof (proj2 (proj1 (intersection_error_iff p1 n1 p2 n2)) Z) as E.
    match goal with |- context [pointInPlaneIntersection RS ?a ?b] =>
      replace (pointInPlaneIntersection RS a b) with (Err (A:=rline) EZeroDiv) by (symmetry; exact E) end.
    reflexivity.
  - right. split; [exact NZ|]. unfold areHexSidesAdjacent.
    destruct (proj2 (intersection_error_iff p1 n1 p2 n2) NZ) as ([pt d] & E).
    match goal with |- context [pointInPlaneIntersection RS ?a ?b] =>
      replace (pointInPlaneIntersection RS a b) with (Ok (A:=rline) (pt, d)) by (symmetry; exact E) end.
    destruct (_ && _); eexists; reflexivity.
Qed.

(* the double loop of hexSortSides when every call answers Ok or raises the
   same exception: it raises iff some call does *)
Lemma sort_pairs_one_error {A} (f : nat -> nat -> res (option A)) (e0 : err) (ps : list (nat * nat)) :
  (forall i j, In (i, j) ps -> (i / 2 <> j / 2)%nat -> (exists x, f i j = Ok x) \/ f i j = Err e0) ->
  (exists adj, sort_pairs f ps = Ok adj /\
               forall i j, In (i, j) ps -> (i / 2 <> j / 2)%nat -> exists x, f i j = Ok x) \/
  (sort_pairs f ps = Err e0 /\ exists i j, In (i, j) ps /\ (i / 2 <> j / 2)%nat /\ f i j = Err e0).
Proof.
  induction ps as [|[i j] r IH]; intros H.
  - left. exists []. split; [reflexivity|]. intros i j [].
  - cbn [sort_pairs]. destruct (Nat.eqb (i / 2) (j / 2)) eqn:Eg.
    + destruct IH as [(adj & E & Hall)|(E & i' & j' & Hin & Hg & He)].
      * intros i' j' Hin. apply H. right. exact Hin.
      * left. rewrite E. eexists. split; [reflexivity|]. intros i' j' [Eq|Hin] Hg.
        -- inversion Eq; subst. apply Nat.eqb_eq in Eg. contradiction.
        -- apply Hall; assumption.
      * right. rewrite E. split; [reflexivity|]. exists i', j'. repeat split; try assumption. right. exact Hin.
    + apply Nat.eqb_neq in Eg. destruct (H i j (or_introl eq_refl) Eg) as [(x & Ex)|Ee].
      * rewrite Ex. destruct IH as [(adj & E & Hall)|(E & i' & j' & Hin & Hg & He)].
        -- intros i' j' Hin. apply H. right. exact Hin.
        -- left. rewrite E. eexists. split; [reflexivity|]. intros i' j' [Eq|Hin] Hg.
           ++ inversion Eq; subst. exists x. exact Ex.
           ++ apply Hall; assumption.
        -- right. rewrite E. split; [reflexivity|]. exists i', j'. repeat split; try assumption. right. exact Hin.
      * right. rewrite Ee. split; [reflexivity|]. exists i, j. repeat split; try assumption. left. reflexivity.
Qed.

(* hexSortSides on six planes: ZeroDivisionError iff two planes of different
   groups are parallel; otherwise the dictionary, or LatticeError when it does
   not hold exactly six intersections *)
Theorem sort_sides_outcomes (surfs : list rsurf) :
  List.length surfs = 6%nat ->
  ((exists i j, (i < j < 6)%nat /\ (i / 2 <> j / 2)%nat /\
                cross (snd (pl surfs i)) (snd (pl surfs j)) = (0, 0, 0)) /\
   hexSortSides RS surfs = Err EZeroDiv) \/
  ((forall i j, (i < j < 6)%nat -> (i / 2 <> j / 2)%nat ->
                cross (snd (pl surfs i)) (snd (pl surfs j)) <> (0, 0, 0)) /\
   ((exists adj, hexSortSides RS surfs = Ok adj /\ count_some adj = 6%nat) \/
    hexSortSides RS surfs = Err ELattice)).
Proof.
  intros L. unfold hexSortSides. unfold rsurf in *. rewrite L. cbn [Nat.eqb negb].
  assert (Hcall : forall i j, In (i, j) hex_pairs -> (i / 2 <> j / 2)%nat ->
            (exists x, hex_adjf RS surfs i j = Ok x) \/ hex_adjf RS surfs i j = Err EZeroDiv).
  { intros i j _ _. unfold hex_adjf.
    destruct (adjacent_outcomes (fst (nth_surf RS surfs i)) (fst (nth_surf RS surfs j))
                (nth_surf RS surfs (2 * other_group i j))
                (nth_surf RS surfs (2 * other_group i j + 1))) as [[_ E]|[_ E]]; [right|left]; exact E. }
  unfold sort_sides.
  destruct (sort_pairs_one_error (hex_adjf RS surfs) EZeroDiv hex_pairs Hcall)
    as [(adj & E & Hall)|(E & i & j & Hin & Hg & He)].
  - right. split.
    + intros i j Hij Hg Z.
      assert (Hin : In (i, j) hex_pairs).
      { assert (F : forall a b, (a < b < 6)%nat -> existsb (key_of a b) hex_pairs = true).
        { intros a b Hab.
          assert (G : forallb (fun a => forallb (fun b => if Nat.ltb a b then existsb (key_of a b) hex_pairs else true)
                                                (seq 0 6)) (seq 0 6) = true) by (vm_compute; reflexivity).
          rewrite forallb_forall in G. specialize (G a ltac:(apply in_seq; lia)).
          rewrite forallb_forall in G. specialize (G b ltac:(apply in_seq; lia)).
          assert (Hl : Nat.ltb a b = true) by (apply Nat.ltb_lt; lia). rewrite Hl in G. exact G. }
        specialize (F i j Hij). apply existsb_exists in F. destruct F as ([a b] & Hin & Hk).
        unfold key_of in Hk. apply andb_true_iff in Hk. destruct Hk as [K1 K2].
        apply Nat.eqb_eq in K1. apply Nat.eqb_eq in K2. cbn in K1, K2. subst. exact Hin. }
      destruct (Hall i j Hin Hg) as (x & Ex). unfold hex_adjf in Ex.
      destruct (adjacent_outcomes (fst (nth_surf RS surfs i)) (fst (nth_surf RS surfs j))
                  (nth_surf RS surfs (2 * other_group i j))
                  (nth_surf RS surfs (2 * other_group i j + 1))) as [[_ E']|[NZ _]].
      * rewrite E' in Ex. discriminate.
      * apply NZ. exact Z.
    + rewrite E. destruct (Nat.eqb (count_some adj) 6) eqn:E6.
      * left. exists adj. split; [reflexivity|apply Nat.eqb_eq; exact E6].
      * right. reflexivity.
  - left. rewrite E. split; [|reflexivity].
    pose proof (hex_pairs_bounds i j Hin) as Hb. exists i, j. split; [exact Hb|]. split; [exact Hg|].
    unfold hex_adjf in He.
    destruct (adjacent_outcomes (fst (nth_surf RS surfs i)) (fst (nth_surf RS surfs j))
                (nth_surf RS surfs (2 * other_group i j))
                (nth_surf RS surfs (2 * other_group i j + 1))) as [[Z _]|[_ (x & Ex)]].
    + exact Z.
    + rewrite Ex in He. discriminate.
Qed.

(* degenerate hexagons (two side planes of different groups parallel: a flat
   vertex, a side of zero length ...): ZeroDivisionError, whatever the rest *)
Theorem base_vectors_parallel_planes (surfs : list rsurf) :
  List.length surfs = 6%nat \/ List.length surfs = 8%nat ->
  (exists i j, (i < j < 6)%nat /\ (i / 2 <> j / 2)%nat /\
               cross (snd (pl surfs i)) (snd (pl surfs j)) = (0, 0, 0)) ->
  hexLatticeBaseVectors RS surfs = Err EZeroDiv.
Proof.
  intros Hlen (i & j & Hij & Hg & Z).
  assert (L6 : List.length (firstn 6 surfs) = 6%nat) by (rewrite firstn_length; lia).
  destruct (sort_sides_outcomes (firstn 6 surfs) L6) as [[_ E]|[NZ _]].
  - unfold hexLatticeBaseVectors, hexVertices. unfold rsurf in *.
    assert (G1 : negb (Nat.eqb (List.length surfs) 6 || Nat.eqb (List.length surfs) 8) = false)
      by (destruct Hlen as [L|L]; rewrite L; reflexivity).
    rewrite G1. cbn [Nat.ltb Nat.leb negb]. rewrite E. reflexivity.
  - exfalso. apply (NZ i j Hij Hg). unfold pl in *. rewrite !nth_surf_firstn by lia. exact Z.
Qed.

(* two consecutive sides on one line (a flat vertex: non strictly convex
   hexagon): their planes are parallel, hence ZeroDivisionError by the theorem
   above *)
Lemma collinear_sides_parallel (u q0 q1 q2 : rvec) (pa pb : rplane) :
  cross (vsub q1 q0) u <> (0, 0, 0) -> vsub q2 q1 <> (0, 0, 0) ->
  cross (vsub q2 q1) (vsub q1 q0) = (0, 0, 0) ->       (* q0, q1, q2 on one line *)
  dot (snd pa) u = 0 -> on_plane q0 pa -> on_plane q1 pa ->
  dot (snd pb) u = 0 -> on_plane q1 pb -> on_plane q2 pb ->
  cross (snd pa) (snd pb) = (0, 0, 0).
Proof.
  intros He Hf Hcol Ua A0 A1 Ub B1 B2.
  set (e := vsub q1 q0) in *. set (f := vsub q2 q1) in *. set (g := cross e u) in *.
  assert (Pa : dot (snd pa) e = 0).
  { unfold on_plane in A0, A1. unfold e.
    replace (dot (snd pa) (vsub q1 q0)) with (dot (vsub q1 (fst pa)) (snd pa) - dot (vsub q0 (fst pa)) (snd pa)); [lra|].
    destruct q0 as [[a0 b0] c0], q1 as [[a1 b1] c1], (fst pa) as [[x y] z], (snd pa) as [[n1 n2] n3].
    unfold dot, vsub, vx, vy, vz; cbn. ring. }
  assert (Pf : dot (snd pb) f = 0).
  { unfold on_plane in B1, B2. unfold f.
    replace (dot (snd pb) (vsub q2 q1)) with (dot (vsub q2 (fst pb)) (snd pb) - dot (vsub q1 (fst pb)) (snd pb)); [lra|].
    destruct q2 as [[a0 b0] c0], q1 as [[a1 b1] c1], (fst pb) as [[x y] z], (snd pb) as [[n1 n2] n3].
    unfold dot, vsub, vx, vy, vz; cbn. ring. }
  (* (f.f) (n.e) = (f.e) (n.f) + n . (f x (e x f)),  and e x f = 0 *)
  assert (Id : forall n : rvec, dot f f * dot n e = dot f e * dot n f - dot n (cross f (cross f e))).
  { intros [[n1 n2] n3]. destruct f as [[f1 f2] f3], e as [[e1 e2] e3].
    unfold dot, cross, vx, vy, vz; cbn. ring. }
  assert (Pb : dot (snd pb) e = 0).
  { pose proof (Id (snd pb)) as I1. rewrite Pf, Hcol in I1.
    assert (Z : dot (snd pb) (cross f (0, 0, 0)) = 0).
    { destruct (snd pb) as [[n1 n2] n3], f as [[f1 f2] f3]. unfold dot, cross, vx, vy, vz; cbn. ring. }
    rewrite Z in I1. pose proof (dot_self_pos f Hf). nra. }
  assert (Hg : 0 < dot g g) by (apply dot_self_pos; exact He).
  pose proof (perp_both_parallel e u (snd pa) Pa Ua) as Ha. fold g in Ha.
  pose proof (perp_both_parallel e u (snd pb) Pb Ub) as Hb. fold g in Hb.
  symmetry in Ha, Hb. apply vscale_solve in Ha; [|lra]. apply vscale_solve in Hb; [|lra].
  rewrite Ha, Hb. destruct g as [[g1 g2] g3]. unfold cross, vscale, vx, vy, vz; cbn. apply vec_eq; ring.
Qed.

(* ---------- intersections that do not close up: the endless loop ---------- *)

(* the twelve pairs of listing positions of different groups *)
Definition cross_pairs : list (nat * nat) :=
  filter (fun p => negb (Nat.eqb (fst p / 2) (snd p / 2))) hex_pairs.

Fixpoint sublists {A} (k : nat) (l : list A) : list (list A) :=
  match k, l with
  | O, _ => [[]]
  | S _, [] => []
  | S k', x :: r => map (cons x) (sublists k' r) ++ sublists k r
  end.

Definition pair_in (ps : list (nat * nat)) (i j : nat) : bool :=
  existsb (fun p => Nat.eqb (fst p) i && Nat.eqb (snd p) j) ps.

Definition touches (ps : list (nat * nat)) (i j : nat) : bool := pair_in ps i j || pair_in ps j i.

Definition degree (ps : list (nat * nat)) (i : nat) : nat :=
  List.length (filter (touches ps i) (seq 0 6)).

Fixpoint reach (ps : list (nat * nat)) (n : nat) (front : list nat) : list nat :=
  match n with
  | O => front
  | S m => reach ps m (front ++ filter (fun j => existsb (fun i => touches ps i j) front) (seq 0 6))
  end.

(* the six intersections form one closed tour of the six sides *)
Definition closed_tour (ps : list (nat * nat)) : bool :=
  forallb (fun i => Nat.eqb (degree ps i) 2) (seq 0 6) &&
  forallb (fun j => existsb (Nat.eqb j) (reach ps 6 [0%nat])) (seq 0 6).

Definition walk_outcome_ok (ct : bool) (ps : list (nat * nat)) (first : nat) : bool :=
  match hex_vertices_abs (pair_in ps) first with
  | Ok ks => ct && Nat.eqb (List.length ks) 6
  | Err ELoop => negb ct
  | Err _ => false
  end.

Lemma walk_outcome_sweep :
  forallb (fun ps => let ct := closed_tour ps in forallb (walk_outcome_ok ct ps) (seq 0 6))
          (sublists 6 cross_pairs) = true.
Proof. vm_cast_no_check (eq_refl true). Qed.

(* For EVERY dictionary with exactly six intersections among the twelve pairs of
   different groups (924 of them) and every first side: the while loop of
   hexVertices ends (with six vertices) iff the intersections form one closed
   tour of the six sides; otherwise it never ends.  No other outcome. *)
Theorem walk_ends_iff_closed_tour (ps : list (nat * nat)) (first : nat) :
  In ps (sublists 6 cross_pairs) -> (first < 6)%nat ->
  (closed_tour ps = true /\
   exists ks, hex_vertices_abs (pair_in ps) first = Ok ks /\ List.length ks = 6%nat) \/
  (closed_tour ps = false /\ hex_vertices_abs (pair_in ps) first = Err ELoop).
Proof.
  intros Hin Hf.
  pose proof (proj1 (forallb_forall _ _) walk_outcome_sweep ps Hin) as H. cbv beta zeta in H.
  assert (Hi : In first (seq 0 6)) by (apply in_seq; lia).
  pose proof (proj1 (forallb_forall _ _) H first Hi) as H1. unfold walk_outcome_ok in H1.
  destruct (hex_vertices_abs (pair_in ps) first) as [ks|e].
  - left. apply andb_true_iff in H1. destruct H1 as [H1 H2]. split; [exact H1|].
    exists ks. split; [reflexivity|apply Nat.eqb_eq; exact H2].
  - destruct e; try discriminate. right. split; [apply negb_true_iff; exact H1|reflexivity].
Qed.

(* fewer or more than six intersections: LatticeError, before any traversal *)
Theorem sort_count_error (adjb : nat -> nat -> bool) :
  (exists adj, sort_sides_abs adjb = Ok adj /\ count_some adj = 6%nat) \/
  sort_sides_abs adjb = Err ELattice.
Proof.
  unfold sort_sides_abs, sort_sides.
  assert (H : exists adj, sort_pairs (fun i j => Ok (if adjb i j then Some (i, j) else None)) hex_pairs = Ok adj).
  { generalize hex_pairs. intros l. induction l as [|[i j] r (adj & E)]; [exists []; reflexivity|].
    cbn [sort_pairs]. rewrite E. destruct (Nat.eqb (i / 2) (j / 2)); eexists; reflexivity. }
  destruct H as (adj & E). rewrite E.
  destruct (Nat.eqb (count_some adj) 6) eqn:E6; [left|right; reflexivity].
  exists adj. split; [reflexivity|apply Nat.eqb_eq; exact E6].
Qed.

(* ---------- every plane list: the complete list of outcomes ---------- *)

Definition err_in (e : err) (l : list err) : Prop := In e l.

Lemma walk_error_classes {A B} (look : nat -> nat -> option A) (visit : A -> res B) (e0 : err)
      (first n : nat) (seen : list nat) (cur : nat) :
  (forall a, (exists b, visit a = Ok b) \/ visit a = Err e0) ->
  (exists l, walk look visit first n seen cur = Ok l) \/
  walk look visit first n seen cur = Err ELoop \/ walk look visit first n seen cur = Err e0.
Proof.
  intros Hv. revert seen cur. induction n as [|m IH]; intros seen cur; [left; eexists; reflexivity|].
  cbn [walk]. set (seen1 := if Nat.eqb (List.length seen) 6 then remove_nat first seen else seen).
  destruct (find_next look seen1 cur (seq 0 6)) as [[i a]|]; [|right; left; reflexivity].
  destruct (Hv a) as [(b & Eb)|Eb]; rewrite Eb; [|right; right; reflexivity].
  destruct (IH (i :: seen1) i) as [(l & El)|[El|El]]; rewrite El.
  - left. eexists. reflexivity.
  - right. left. reflexivity.
  - right. right. reflexivity.
Qed.

Lemma project_outcomes (pt dir : rvec) (p : rplane) :
  (exists q, projectPointOnPlane RS pt p dir = Ok q) \/ projectPointOnPlane RS pt p dir = Err EZeroDiv.
Proof.
  destruct p as [pp n]. unfold projectPointOnPlane.
  destruct (seqb RS (scal RS dir n) (s0 RS)); [right; reflexivity|left; eexists; reflexivity].
Qed.

(* hexVertices on six or eight planes: the vertices, or one of three exceptions *)
Lemma vertices_outcomes (surfs : list rsurf) (first : nat) :
  List.length surfs = 6%nat \/ List.length surfs = 8%nat -> (first < 6)%nat ->
  (exists r, hexVertices RS surfs first = Ok r) \/
  hexVertices RS surfs first = Err EZeroDiv \/ hexVertices RS surfs first = Err ELattice \/
  hexVertices RS surfs first = Err ELoop.
Proof.
  intros Hlen Hf. unfold hexVertices. unfold rsurf in *.
  assert (G1 : negb (Nat.eqb (List.length surfs) 6 || Nat.eqb (List.length surfs) 8) = false)
    by (destruct Hlen as [L|L]; rewrite L; reflexivity).
  rewrite G1. assert (G2 : negb (Nat.ltb first 6) = false) by (apply negb_false_iff; apply Nat.ltb_lt; exact Hf).
  rewrite G2.
  assert (L6 : List.length (firstn 6 surfs) = 6%nat) by (rewrite firstn_length; lia).
  destruct (sort_sides_outcomes (firstn 6 surfs) L6) as [[_ E]|[_ [(adj & E & Hc)|E]]]; unfold rsurf in *; rewrite E.
  - right. left. reflexivity.
  - destruct (first_some_count adj ltac:(lia)) as ([pt0 d0] & Efs). rewrite Efs.
    unfold hex_walk.
    match goal with |- context [walk ?lk ?vis first 6 [first] first] =>
      destruct (walk_error_classes lk vis EZeroDiv first 6 [first] first) as [(vs & Ev)|[Ev|Ev]];
        [intros a; apply project_outcomes| | |]; rewrite Ev
    end.
    + left. eexists. reflexivity.
    + right. right. right. reflexivity.
    + right. left. reflexivity.
  - right. right. left. reflexivity.
Qed.

(* hexLatticeBaseVectors on ANY plane list: base vectors (2 for six planes, 3
   for eight), or AssertionError (exactly when there are neither six nor eight
   planes), ZeroDivisionError, LatticeError, or the endless loop — nothing else
   (no StopIteration, no IndexError) *)
Theorem base_vectors_outcomes (surfs : list rsurf) :
  (exists vs, hexLatticeBaseVectors RS surfs = Ok vs /\ List.length vs = (List.length surfs / 2 - 1)%nat) \/
  (hexLatticeBaseVectors RS surfs = Err EAssert /\ List.length surfs <> 6%nat /\ List.length surfs <> 8%nat) \/
  ((List.length surfs = 6%nat \/ List.length surfs = 8%nat) /\
   (hexLatticeBaseVectors RS surfs = Err EZeroDiv \/ hexLatticeBaseVectors RS surfs = Err ELattice \/
    hexLatticeBaseVectors RS surfs = Err ELoop)).
Proof.
  destruct (Nat.eq_dec (List.length surfs) 6) as [L6|N6].
  - assert (Hlen : List.length surfs = 6%nat \/ List.length surfs = 8%nat) by (left; exact L6).
    unfold hexLatticeBaseVectors.
    destruct (vertices_outcomes surfs 0 Hlen ltac:(lia)) as [([v0 ax] & E0)|E0].
    + rewrite E0. destruct (vertices_outcomes surfs 2 Hlen ltac:(lia)) as [([v2 ax2] & E2)|E2].
      * rewrite E2. unfold rsurf in *. rewrite L6. cbn [Nat.eqb]. left. eexists. split; reflexivity.
      * right. right. split; [first [exact Hlen | right; reflexivity | left; reflexivity]|]. destruct E2 as [E|[E|E]]; rewrite E; tauto.
    + right. right. split; [first [exact Hlen | right; reflexivity | left; reflexivity]|]. destruct E0 as [E|[E|E]]; rewrite E; tauto.
  - destruct (Nat.eq_dec (List.length surfs) 8) as [L8|N8].
    + assert (Hlen : List.length surfs = 6%nat \/ List.length surfs = 8%nat) by (right; exact L8).
      unfold hexLatticeBaseVectors.
      destruct (vertices_outcomes surfs 0 Hlen ltac:(lia)) as [([v0 ax] & E0)|E0].
      * rewrite E0. destruct (vertices_outcomes surfs 2 Hlen ltac:(lia)) as [([v2 ax2] & E2)|E2].
        -- rewrite E2. unfold rsurf in *. rewrite L8. cbn [Nat.eqb Nat.sub].
           destruct (project_outcomes (nth_vec RS v0 0) ax (fst (nth_surf RS surfs 7))) as [(q1 & P1)|P1]; rewrite P1.
           ++ destruct (project_outcomes (nth_vec RS v0 0) ax (fst (nth_surf RS surfs 6))) as [(q2 & P2)|P2]; rewrite P2.
              ** left. eexists. split; reflexivity.
              ** right. right. split; [first [exact Hlen | right; reflexivity | left; reflexivity]|]. tauto.
           ++ right. right. split; [first [exact Hlen | right; reflexivity | left; reflexivity]|]. tauto.
        -- right. right. split; [first [exact Hlen | right; reflexivity | left; reflexivity]|]. destruct E2 as [E|[E|E]]; rewrite E; tauto.
      * right. right. split; [first [exact Hlen | right; reflexivity | left; reflexivity]|]. destruct E0 as [E|[E|E]]; rewrite E; tauto.
    + right. left. split; [apply base_vectors_wrong_count; assumption|split; assumption].
Qed.
