(* C07 — hexLatticeBaseVectors on the planes of a centrally symmetric hexagonal
   prism: pieces (ii) + (iii) of DESIGN 5.8 assembled, with the sign facts of
   piece (i) (which planes see a vertex on the cell's side) as hypotheses. *)
From Coq Require Import List Arith ZArith Bool Reals Lra Lia.
From T4V Require Import Base.Scalar C07.Model C07.ProofsAlgebra C07.ProofsComb.
Import ListNotations.
Open Scope R_scope.

(* ---------- a little more vector algebra ---------- *)

Lemma dot_comm (v w : rvec) : dot v w = dot w v.
Proof. destruct v as [[a b] c], w as [[d e] f]. unfold dot, vx, vy, vz; cbn. ring. Qed.

Lemma recip_identity (n1 n2 x : rvec) :
  let l := cross n1 n2 in
  vscale (dot l l) x =
  vadd (vadd (vscale (dot x l) l) (vscale (dot x n1) (cross n2 l))) (vscale (dot x n2) (cross l n1)).
Proof.
  destruct n1 as [[a b] c], n2 as [[d e] f], x as [[x y] z]. cbv zeta.
  unfold dot, cross, vadd, vscale, vx, vy, vz; cbn. apply vec_eq; ring.
Qed.

(* a vector perpendicular to two independent vectors is parallel to their
   cross product *)
Lemma perp_both_parallel (n1 n2 x : rvec) :
  dot x n1 = 0 -> dot x n2 = 0 ->
  vscale (dot (cross n1 n2) (cross n1 n2)) x = vscale (dot x (cross n1 n2)) (cross n1 n2).
Proof.
  intros H1 H2. pose proof (recip_identity n1 n2 x) as H. cbv zeta in H. rewrite H, H1, H2.
  generalize (cross n2 (cross n1 n2)) (cross (cross n1 n2) n1) (dot x (cross n1 n2)) (cross n1 n2).
  intros [[a b] c] [[d e] f] k [[p q] r]. unfold vadd, vscale, vx, vy, vz; cbn. apply vec_eq; ring.
Qed.

Lemma vscale_solve (a b : R) (x y : rvec) : vscale a x = vscale b y -> b <> 0 -> y = vscale (a / b) x.
Proof.
  destruct x as [[x1 x2] x3], y as [[y1 y2] y3]. unfold vscale, vx, vy, vz; cbn.
  intros H Hb. inversion H as [[H1 H2 H3]].
  apply vec_eq; apply Rmult_eq_reg_l with b; try assumption; field_simplify; try assumption; lra.
Qed.

Lemma vscale_zero_inv (a : R) (x : rvec) : vscale a x = (0, 0, 0) -> a <> 0 -> x = (0, 0, 0).
Proof.
  destruct x as [[x1 x2] x3]. unfold vscale, vx, vy, vz; cbn. intros H Ha. inversion H as [[H1 H2 H3]].
  apply vec_eq; nra.
Qed.

Lemma cross_par_axis (n1 n2 u : rvec) :
  u <> (0, 0, 0) -> dot n1 u = 0 -> dot n2 u = 0 -> cross n1 n2 <> (0, 0, 0) ->
  exists s, s <> 0 /\ cross n1 n2 = vscale s u.
Proof.
  intros Hu H1 H2 Hl. set (l := cross n1 n2) in *.
  assert (Hpos : 0 < dot l l) by (apply dot_self_pos; exact Hl).
  rewrite dot_comm in H1. rewrite dot_comm in H2.
  pose proof (perp_both_parallel n1 n2 u H1 H2) as H. fold l in H.
  destruct (Req_dec (dot u l) 0) as [E|E].
  - rewrite E in H. exfalso. apply Hu. apply (vscale_zero_inv (dot l l)); [|lra].
    rewrite H. destruct l as [[a b] c]. unfold vscale, vx, vy, vz; cbn. apply vec_eq; ring.
  - exists (dot l l / dot u l). split.
    + intros Z. assert (Z0 : dot l l = 0).
      { replace (dot l l) with (dot l l / dot u l * dot u l) by (field; exact E). rewrite Z. ring. }
      lra.
    + apply vscale_solve; assumption.
Qed.

(* projection along the axis onto the direction plane of the top plane *)
Definition proj_par (u nrm x : rvec) : rvec := vsub x (vscale (dot x nrm / dot u nrm) u).

Lemma top_of_diff_proj (a b u : rvec) (pl : rplane) :
  dot u (snd pl) <> 0 ->
  vsub (top_of a u pl) (top_of b u pl) = proj_par u (snd pl) (vsub a b).
Proof.
  destruct pl as [pp n]. cbn [snd]. intros Hu. unfold top_of, proj_par; cbn [fst snd].
  set (D := dot u n) in *.
  assert (E : dot (vsub a b) n = dot (vsub pp b) n - dot (vsub pp a) n).
  { destruct a as [[a1 a2] a3], b as [[b1 b2] b3], pp as [[p1 p2] p3], n as [[n1 n2] n3].
    unfold dot, vsub, vx, vy, vz; cbn. ring. }
  rewrite E. set (A := dot (vsub pp a) n). set (B := dot (vsub pp b) n).
  destruct a as [[a1 a2] a3], b as [[b1 b2] b3], u as [[u1 u2] u3].
  unfold vsub, vadd, vscale, vx, vy, vz; cbn. apply vec_eq; field; exact Hu.
Qed.

Lemma proj_par_scale_nrm (u nrm x : rvec) (s : R) :
  s <> 0 -> dot u nrm <> 0 -> proj_par u (vscale s nrm) x = proj_par u nrm x.
Proof.
  intros Hs Hu. unfold proj_par. f_equal. f_equal.
  assert (E1 : dot x (vscale s nrm) = s * dot x nrm).
  { destruct x as [[a b] c], nrm as [[d e] f]. unfold dot, vscale, vx, vy, vz; cbn. ring. }
  assert (E2 : dot u (vscale s nrm) = s * dot u nrm).
  { destruct u as [[a b] c], nrm as [[d e] f]. unfold dot, vscale, vx, vy, vz; cbn. ring. }
  rewrite E1, E2. field. split; assumption.
Qed.

(* ---------- lists ---------- *)

Lemma nth_firstn_lt {A} (n : nat) (ls : list A) (i : nat) (d : A) :
  (i < n)%nat -> nth i (firstn n ls) d = nth i ls d.
Proof.
  revert ls i. induction n as [|m IH]; intros ls i Hi; [lia|].
  destruct ls as [|x r]; [destruct i; reflexivity|].
  destruct i as [|i]; [reflexivity|]. cbn. apply IH. lia.
Qed.

Lemma nth_surf_firstn (surfs : list rsurf) (i : nat) :
  (i < 6)%nat -> nth_surf RS (firstn 6 surfs) i = nth_surf RS surfs i.
Proof. intros Hi. unfold nth_surf. apply nth_firstn_lt. exact Hi. Qed.

Lemma hex_pairs_bounds i j : In (i, j) hex_pairs -> (i < j < 6)%nat.
Proof.
  intros H.
  assert (E : forallb (fun p => Nat.ltb (fst p) (snd p) && Nat.ltb (snd p) 6) hex_pairs = true)
    by (vm_compute; reflexivity).
  pose proof (proj1 (forallb_forall _ _) E (i, j) H) as F. cbn [fst snd] in F.
  apply andb_true_iff in F. destruct F as [F1 F2].
  apply Nat.ltb_lt in F1. apply Nat.ltb_lt in F2. lia.
Qed.

Lemma first_some_count {A} (adj : adjacency A) :
  (0 < count_some adj)%nat -> exists a, first_some adj = Some a.
Proof.
  unfold count_some. induction adj as [|[k [a|]] r IH]; cbn; intros H.
  - lia.
  - exists a. reflexivity.
  - apply IH. exact H.
Qed.

(* ---------- the prism ---------- *)

Section Hex.
  Context (c u : rvec) (w : nat -> rvec) (l : list nat) (surfs : list rsurf).

  (* vertices are indexed modulo 6; side a is the segment [wv (a+5), wv a] *)
  Definition wv (k : nat) : rvec := w (k mod 6).

  Definition pl (i : nat) : rplane := fst (nth_surf RS surfs i).
  Definition sd (i : nat) : Z := snd (nth_surf RS surfs i).

  (* the plane contains the two vertices of side [a] and is parallel to the axis *)
  Definition carries (p : rplane) (a : nat) : Prop :=
    on_plane (wv a) p /\ on_plane (wv (a + 5)) p /\ dot (snd p) u = 0.

  (* the listed sense of surface [k] is the side on which [q] lies *)
  Definition inside (k : nat) (q : rvec) : Prop := sd k = planeSide RS q (pl k).

  (* a line through vertex [v] along the axis, in the (point, direction) form of the code *)
  Definition on_line (L : rline) (v : nat) : Prop :=
    exists t s, s <> 0 /\ fst L = vadd (wv v) (vscale t u) /\ snd L = vscale s u.

  Definition Rline (L : rline) (k : nat * nat) : Prop := on_line L (vertex_of l k).

  Hypothesis Hl : In l all_listings.
  Hypothesis Hu : u <> (0, 0, 0).
  Hypothesis Hcarry : forall i, (i < 6)%nat -> carries (pl i) (side_at l i).
  Hypothesis Hindep : forall i j, (i < j < 6)%nat -> (i / 2 <> j / 2)%nat ->
                                  cross (snd (pl i)) (snd (pl j)) <> (0, 0, 0).
  (* piece (i): the sign facts *)
  Hypothesis Hsides : forall i j, (i < j < 6)%nat -> (i / 2 <> j / 2)%nat ->
    let k1 := (2 * other_group i j)%nat in
    if adjb_of_listing l i j
    then inside k1 (wv (vertex_of l (i, j))) /\ inside (k1 + 1) (wv (vertex_of l (i, j)))
    else forall X, on_plane X (pl i) -> on_plane X (pl j) -> ~ (inside k1 X /\ inside (k1 + 1) X).

  Lemma shared_on_both i j :
    (i < j < 6)%nat -> adjb_of_listing l i j = true ->
    on_plane (wv (vertex_of l (i, j))) (pl i) /\ on_plane (wv (vertex_of l (i, j))) (pl j).
  Proof.
    intros Hij Ha. destruct (Hcarry i ltac:(lia)) as (Ci1 & Ci2 & _).
    destruct (Hcarry j ltac:(lia)) as (Cj1 & Cj2 & _).
    pose proof (listing_side_lt l i Hl ltac:(lia)) as Li.
    pose proof (listing_side_lt l j Hl ltac:(lia)) as Lj.
    unfold adjb_of_listing, geo_adj in Ha. unfold vertex_of, shared; cbn [fst snd].
    set (a := side_at l i) in *. set (b := side_at l j) in *.
    destruct (Nat.eqb ((a + 1) mod 6) b) eqn:E.
    - apply Nat.eqb_eq in E. split; [exact Ci1|].
      replace (wv a) with (wv (b + 5)); [exact Cj2|].
      unfold wv. f_equal. rewrite <- E. clearbody a. clear - Li.
      do 6 (destruct a as [|a]; [reflexivity|]). lia.
    - cbn in Ha. apply Nat.eqb_eq in Ha. split; [|exact Cj1].
      replace (wv b) with (wv (a + 5)); [exact Ci2|].
      unfold wv. f_equal. rewrite <- Ha. clearbody b. clear - Lj.
      do 6 (destruct b as [|b]; [reflexivity|]). lia.
  Qed.

  (* one call of areHexSidesAdjacent from hexSortSides' double loop *)
  Lemma pair_rel i j :
    (i < j < 6)%nat -> (i / 2 <> j / 2)%nat ->
    exists x, hex_adjf RS (firstn 6 surfs) i j = Ok x /\
              Ropt Rline x (if adjb_of_listing l i j then Some (i, j) else None).
  Proof.
    intros Hij Hg.
    destruct (listing_groups l i j Hl ltac:(lia) ltac:(lia) Hg) as (_ & _ & G1 & G2 & G3).
    set (k1 := (2 * other_group i j)%nat) in *.
    unfold hex_adjf. fold k1.
    rewrite !nth_surf_firstn by lia.
    change (fst (nth_surf RS surfs i)) with (pl i). change (fst (nth_surf RS surfs j)) with (pl j).
    pose proof (Hindep i j Hij Hg) as Hlv.
    destruct (pl i) as [p1 n1] eqn:Ei. destruct (pl j) as [p2 n2] eqn:Ej. cbn [snd] in Hlv.
    destruct (plane_intersection p1 n1 p2 n2 Hlv) as (pt & d & E & On1 & On2 & Hd).
    destruct (Hcarry i ltac:(lia)) as (_ & _ & Pi). rewrite Ei in Pi. cbn [snd] in Pi.
    destruct (Hcarry j ltac:(lia)) as (_ & _ & Pj). rewrite Ej in Pj. cbn [snd] in Pj.
    destruct (cross_par_axis n1 n2 u Hu Pi Pj Hlv) as (s & Hs & Hcs).
    assert (Hk : forall k, (k < 6)%nat -> dot (snd (pl k)) (cross n1 n2) = 0).
    { intros k Hk6. destruct (Hcarry k Hk6) as (_ & _ & Pk). rewrite Hcs.
      destruct (snd (pl k)) as [[a b] c'], u as [[u1 u2] u3].
      unfold dot, vscale, vx, vy, vz in *; cbn in *. nra. }
    unfold areHexSidesAdjacent.
    destruct (nth_surf RS surfs k1) as [o1 s1] eqn:Eo1.
    destruct (nth_surf RS surfs (k1 + 1)) as [o2 s2] eqn:Eo2.
    match goal with |- context [pointInPlaneIntersection RS ?a ?b] =>
      replace (pointInPlaneIntersection RS a b) with (Ok (A:=rline) (pt, d)) by (symmetry; exact E) end.
    pose proof (Hsides i j Hij Hg) as Hsd. cbv zeta in Hsd. fold k1 in Hsd.
    unfold inside, sd, pl in Hsd. rewrite Eo1, Eo2 in Hsd. cbn [fst snd] in Hsd.
    assert (Ho1 : dot (snd o1) (cross n1 n2) = 0).
    { specialize (Hk k1 ltac:(lia)). unfold pl in Hk. rewrite Eo1 in Hk. exact Hk. }
    assert (Ho2 : dot (snd o2) (cross n1 n2) = 0).
    { specialize (Hk (k1 + 1)%nat ltac:(lia)). unfold pl in Hk. rewrite Eo2 in Hk. exact Hk. }
    destruct (adjb_of_listing l i j) eqn:Ea.
    - destruct (shared_on_both i j Hij Ea) as [V1 V2]. rewrite Ei in V1. rewrite Ej in V2.
      set (V := wv (vertex_of l (i, j))) in *. destruct Hsd as [S1 S2].
      rewrite (side_constant_along_line n1 n2 p1 p2 pt V o1 Hlv Ho1 On1 On2 V1 V2).
      rewrite (side_constant_along_line n1 n2 p1 p2 pt V o2 Hlv Ho2 On1 On2 V1 V2).
      rewrite <- S1, <- S2, !Z.eqb_refl. cbn [andb].
      eexists. split; [reflexivity|]. cbn [Ropt]. unfold Rline, on_line. fold V. cbn [fst snd].
      (* pt - V is perpendicular to both normals *)
      set (lv := cross n1 n2) in *.
      assert (Hpos : 0 < dot lv lv) by (apply dot_self_pos; exact Hlv).
      assert (D1 : dot (vsub pt V) n1 = 0).
      { unfold on_plane in On1, V1; cbn [fst snd] in On1, V1.
        replace (dot (vsub pt V) n1) with (dot (vsub pt p1) n1 - dot (vsub V p1) n1); [lra|].
        destruct pt as [[x1 y1] z1], V as [[x2 y2] z2], p1 as [[x3 y3] z3], n1 as [[a b] c'].
        unfold dot, vsub, vx, vy, vz; cbn. ring. }
      assert (D2 : dot (vsub pt V) n2 = 0).
      { unfold on_plane in On2, V2; cbn [fst snd] in On2, V2.
        replace (dot (vsub pt V) n2) with (dot (vsub pt p2) n2 - dot (vsub V p2) n2); [lra|].
        destruct pt as [[x1 y1] z1], V as [[x2 y2] z2], p2 as [[x3 y3] z3], n2 as [[a b] c'].
        unfold dot, vsub, vx, vy, vz; cbn. ring. }
      pose proof (perp_both_parallel n1 n2 (vsub pt V) D1 D2) as Hpar. fold lv in Hpar.
      symmetry in Hpar. apply vscale_solve in Hpar; [|lra].
      set (kk := dot (vsub pt V) lv / dot lv lv) in *.
      exists (kk * s), (1 / sqrt (dot lv lv) * s). split; [|split].
      + assert (Hm : sqrt (dot lv lv) <> 0) by (intros Z; apply sqrt_eq_0 in Z; lra).
        intros Z. apply Hs.
        replace s with (sqrt (dot lv lv) * (1 / sqrt (dot lv lv) * s)) by (field; exact Hm).
        rewrite Z. ring.
      + rewrite Hcs in Hpar.
        destruct pt as [[x1 y1] z1], V as [[x2 y2] z2], u as [[u1 u2] u3].
        unfold vsub, vadd, vscale, vx, vy, vz in *; cbn in *. inversion Hpar as [[H1 H2 H3]].
        apply vec_eq; lra.
      + rewrite Hd, Hcs. destruct u as [[u1 u2] u3]. unfold vscale, vx, vy, vz; cbn. apply vec_eq; ring.
    - destruct (Z.eqb s1 (planeSide RS pt o1) && Z.eqb s2 (planeSide RS pt o2)) eqn:Eb.
      + exfalso. apply andb_true_iff in Eb. destruct Eb as [B1 B2].
        apply Z.eqb_eq in B1. apply Z.eqb_eq in B2.
        apply (Hsd pt); [change (on_plane pt (pl i)); rewrite Ei; exact On1|change (on_plane pt (pl j)); rewrite Ej; exact On2|split; assumption].
      + eexists. split; [reflexivity|]. exact I.
  Qed.

  Hypothesis Hlen : List.length surfs = 6%nat \/ List.length surfs = 8%nat.

  (* hexSortSides and the choice of the prism direction *)
  Lemma sort_rel ab :
    sort_sides_abs (adjb_of_listing l) = Ok ab ->
    exists ca d0 pt0 s0,
      hexSortSides RS (firstn 6 surfs) = Ok ca /\ Radj Rline ca ab /\
      first_some ca = Some (pt0, d0) /\ s0 <> 0 /\ d0 = vscale s0 u.
  Proof.
    intros Hab. unfold hexSortSides.
    assert (Hn : List.length (firstn 6 surfs) = 6%nat) by (rewrite firstn_length; lia).
    unfold rsurf in Hn |- *. rewrite Hn. cbn [Nat.eqb negb].
    destruct (sort_sides_rel Rline (hex_adjf RS (firstn 6 surfs))
                (fun i j => Ok (if adjb_of_listing l i j then Some (i, j) else None)) ab) as (ca & Eca & Hr).
    - intros i j Hin Hg. pose proof (hex_pairs_bounds i j Hin) as Hb.
      destruct (pair_rel i j Hb Hg) as (x & Ex & Hx).
      eexists. eexists. split; [exact Ex|]. split; [reflexivity|exact Hx].
    - exact Hab.
    - pose proof (first_some_rel Rline ca ab Hr) as Hf.
      assert (Hc : count_some ab = 6%nat).
      { unfold sort_sides_abs, sort_sides in Hab.
        destruct (sort_pairs _ hex_pairs) as [ab'|]; [|discriminate].
        destruct (Nat.eqb (count_some ab') 6) eqn:E6; [|discriminate].
        inversion Hab; subst. apply Nat.eqb_eq. exact E6. }
      destruct (first_some_count ab ltac:(lia)) as (k & Ek). rewrite Ek in Hf.
      destruct (first_some ca) as [[pt0 d0]|] eqn:Efc; [|contradiction].
      cbn in Hf. destruct Hf as (t & s0 & Hs0 & _ & Hd0). cbn [snd] in Hd0.
      exists ca, d0, pt0, s0. repeat split; assumption.
  Qed.

  (* the plane on which hexVertices puts the hexagon, up to the length and
     sense of its normal in the six-plane case *)
  Definition top_nrm : rvec := if Nat.eqb (List.length surfs) 6 then u else snd (pl 6).
  Hypothesis Htop : dot u top_nrm <> 0.

  Lemma dot_uu : dot u u <> 0.
  Proof. pose proof (dot_self_pos u Hu). lra. Qed.

  (* hexVertices: the vertices named by the combinatorial traversal, projected
     along the axis on the top plane *)
  Lemma hex_vertices_rel first ks :
    (first < 6)%nat ->
    hex_vertices_abs (adjb_of_listing l) first = Ok ks ->
    exists top d0 s0,
      hexVertices RS surfs first = Ok (map (fun k => top_of (wv (vertex_of l k)) u top) ks, d0) /\
      s0 <> 0 /\ d0 = vscale s0 u /\ dot u (snd top) <> 0 /\
      (forall x, proj_par u (snd top) x = proj_par u top_nrm x) /\
      (List.length surfs = 8%nat -> top = pl 6).
  Proof.
    intros Hf Habs. unfold hex_vertices_abs, bind in Habs.
    destruct (sort_sides_abs (adjb_of_listing l)) as [ab|] eqn:Eab; [|discriminate].
    destruct (sort_rel ab Eab) as (ca & d0 & pt0 & s0 & Eca & Hr & Efs & Hs0 & Hd0).
    set (top := if Nat.eqb (List.length surfs) 6 then (vzero RS, d0)
                else fst (nth_surf RS surfs (List.length surfs - 2))).
    exists top, d0, s0.
    assert (Htop' : dot u (snd top) <> 0 /\ (forall x, proj_par u (snd top) x = proj_par u top_nrm x)
                    /\ (List.length surfs = 8%nat -> top = pl 6)).
    { unfold top, top_nrm in *. destruct Hlen as [L|L]; rewrite L in *; cbn [Nat.eqb] in *.
      - cbn [snd]. rewrite Hd0. split; [|split].
        + assert (E : dot u (vscale s0 u) = s0 * dot u u).
          { destruct u as [[a b] c']. unfold dot, vscale, vx, vy, vz; cbn. ring. }
          rewrite E. pose proof dot_uu. nra.
        + intros x. apply proj_par_scale_nrm; [exact Hs0|exact dot_uu].
        + discriminate.
      - split; [exact Htop|]. split; [reflexivity|]. intros _. reflexivity. }
    destruct Htop' as (Ht1 & Ht2 & Ht3).
    split; [|repeat split; assumption].
    unfold hexVertices.
    assert (G1 : negb (Nat.eqb (List.length surfs) 6 || Nat.eqb (List.length surfs) 8) = false).
    { destruct Hlen as [L|L]; rewrite L; reflexivity. }
    unfold rsurf in *. rewrite G1. assert (G2 : negb (Nat.ltb first 6) = false).
    { apply negb_false_iff. apply Nat.ltb_lt. exact Hf. }
    rewrite G2. rewrite Eca, Efs. fold top.
    erewrite (hex_walk_rel Rline ca ab _
               (fun k => top_of (wv (vertex_of l k)) u top) first Hr).
    - rewrite Habs. reflexivity.
    - intros [pt d] k (t & s & Hs & Hpt & Hd). cbn [fst snd] in *. rewrite Hpt, Hd.
      apply project_line_point; assumption.
  Qed.

  (* central symmetry about c *)
  Hypothesis Hsym : forall k, wv (k + 3) = vsub (vscale 2 c) (wv k).

  (* the translation across side a = [wv (a+5), wv a]: the sum of its two
     vertices relative to the centre (see hex_translation) *)
  Definition across (a : nat) : rvec := vadd (vsub (wv a) c) (vsub (wv (a + 5)) c).

  Lemma diff_fwd g : vsub (wv g) (wv (g + 2)) = across g.
  Proof.
    pose proof (Hsym (g + 2)) as H. replace (wv (g + 2 + 3)) with (wv (g + 5)) in H.
    - unfold across. rewrite H. destruct (wv g) as [[a b] c1], (wv (g + 2)) as [[d e] f], c as [[c2 c3] c4].
      unfold vsub, vadd, vscale, vx, vy, vz; cbn. apply vec_eq; ring.
    - f_equal. lia.
  Qed.

  Lemma diff_bwd g : vsub (wv (g + 5)) (wv (g + 3)) = across g.
  Proof.
    rewrite (Hsym g). unfold across.
    destruct (wv g) as [[a b] c1], (wv (g + 5)) as [[d e] f], c as [[c2 c3] c4].
    unfold vsub, vadd, vscale, vx, vy, vz; cbn. apply vec_eq; ring.
  Qed.

  (* v[0] - v[2] of a traversal that starts on listing position [first] *)
  Lemma first_minus_third first ks top :
    (first < 6)%nat -> dot u (snd top) <> 0 ->
    (map (vertex_of l) ks = fwd (side_at l first) \/ map (vertex_of l) ks = bwd (side_at l first)) ->
    let vs := map (fun k => top_of (wv (vertex_of l k)) u top) ks in
    vdiff RS (nth_vec RS vs 0) (nth_vec RS vs 2) = proj_par u (snd top) (across (side_at l first)).
  Proof.
    intros Hf Ht Hm vs.
    assert (Evs : vs = map (fun v => top_of (wv v) u top) (map (vertex_of l) ks)).
    { unfold vs. rewrite map_map. reflexivity. }
    rewrite Evs. set (g := side_at l first) in *.
    change (@vdiff R RS) with vsub.
    destruct Hm as [-> | ->]; unfold fwd, bwd; cbn [map seq nth_vec nth];
      rewrite top_of_diff_proj by exact Ht; f_equal.
    - rewrite <- diff_fwd. unfold wv. rewrite !Nat.mod_mod by lia.
      rewrite Nat.add_0_r. reflexivity.
    - rewrite <- diff_bwd. unfold wv. rewrite !Nat.mod_mod by lia.
      f_equal; f_equal.
      + replace (g + 5 + 6 - 0)%nat with (g + 5 + 1 * 6)%nat by lia. rewrite Nat.mod_add; [reflexivity|lia].
      + replace (g + 5 + 6 - 2)%nat with (g + 3 + 1 * 6)%nat by lia. rewrite Nat.mod_add; [reflexivity|lia].
  Qed.

  (* ---------- the base vectors ---------- *)

  Theorem hex_base_vectors_six :
    List.length surfs = 6%nat ->
    hexLatticeBaseVectors RS surfs =
    Ok [proj_par u u (across (side_at l 0)); proj_par u u (across (side_at l 2))].
  Proof.
    intros L.
    destruct (sort_and_vertices_all_orders l 0 Hl ltac:(lia)) as (ks0 & E0 & _ & M0).
    destruct (sort_and_vertices_all_orders l 2 Hl ltac:(lia)) as (ks2 & E2 & _ & M2).
    destruct (hex_vertices_rel 0 ks0 ltac:(lia) E0) as (top0 & d0 & s0 & V0 & _ & _ & T0 & P0 & _).
    destruct (hex_vertices_rel 2 ks2 ltac:(lia) E2) as (top2 & d2 & s2 & V2 & _ & _ & T2 & P2 & _).
    unfold hexLatticeBaseVectors. rewrite V0, V2. unfold rsurf in *. rewrite L. cbn [Nat.eqb].
    rewrite (first_minus_third 0 ks0 top0 ltac:(lia) T0 M0).
    rewrite (first_minus_third 2 ks2 top2 ltac:(lia) T2 M2).
    rewrite P0, P2. unfold top_nrm. unfold rsurf. rewrite L. reflexivity.
  Qed.

  Theorem hex_base_vectors_eight :
    List.length surfs = 8%nat ->
    dot u (snd (pl 7)) <> 0 ->
    exists tau,
      hexLatticeBaseVectors RS surfs =
      Ok [proj_par u (snd (pl 6)) (across (side_at l 0));
          proj_par u (snd (pl 6)) (across (side_at l 2));
          vscale tau u] /\
      (* a3 carries the eighth plane onto the seventh when they are parallel *)
      (forall lam, snd (pl 6) = vscale lam (snd (pl 7)) ->
         tau = dot (vsub (fst (pl 6)) (fst (pl 7))) (snd (pl 6)) / dot u (snd (pl 6)) /\
         forall q, on_plane q (pl 7) -> on_plane (vadd q (vscale tau u)) (pl 6)).
  Proof.
    intros L H8.
    destruct (sort_and_vertices_all_orders l 0 Hl ltac:(lia)) as (ks0 & E0 & _ & M0).
    destruct (sort_and_vertices_all_orders l 2 Hl ltac:(lia)) as (ks2 & E2 & _ & M2).
    destruct (hex_vertices_rel 0 ks0 ltac:(lia) E0) as (top0 & d0 & s0 & V0 & Hs0 & Hd0 & T0 & P0 & Q0).
    destruct (hex_vertices_rel 2 ks2 ltac:(lia) E2) as (top2 & d2 & s2 & V2 & _ & _ & T2 & P2 & _).
    assert (H7 : dot u (snd (pl 6)) <> 0).
    { unfold top_nrm in Htop. rewrite L in Htop. exact Htop. }
    unfold hexLatticeBaseVectors. rewrite V0, V2. unfold rsurf in *. rewrite L. cbn [Nat.eqb Nat.sub].
    rewrite (first_minus_third 0 ks0 top0 ltac:(lia) T0 M0).
    rewrite (first_minus_third 2 ks2 top2 ltac:(lia) T2 M2).
    rewrite P0, P2. unfold top_nrm. unfold rsurf. rewrite L. cbn [Nat.eqb].
    set (v := nth_vec RS (map (fun k => top_of (wv (vertex_of l k)) u top0) ks0) 0).
    change (fst (nth_surf RS surfs 7)) with (pl 7). change (fst (nth_surf RS surfs 6)) with (pl 6).
    assert (Pr : forall p : rplane, dot u (snd p) <> 0 ->
                                    projectPointOnPlane RS v p d0 = Ok (top_of v u p)).
    { intros p Hp. rewrite Hd0.
      replace v with (vadd v (vscale 0 u)) at 1.
      - apply project_line_point; assumption.
      - destruct v as [[a b] c1], u as [[u1 u2] u3]. unfold vadd, vscale, vx, vy, vz; cbn. apply vec_eq; ring. }
    rewrite (Pr (pl 7) H8), (Pr (pl 6) H7).
    destruct (pl 6) as [p7 n7] eqn:E6. destruct (pl 7) as [p8 n8] eqn:E7. cbn [fst snd] in *.
    exists (dot (vsub p7 v) n7 / dot u n7 - dot (vsub p8 v) n8 / dot u n8).
    split.
    - cbn [app]. f_equal. f_equal. f_equal. f_equal.
      change (@vdiff R RS) with vsub. unfold top_of; cbn [fst snd].
      destruct v as [[a b] c1], u as [[u1 u2] u3]. unfold vsub, vadd, vscale, vx, vy, vz; cbn. apply vec_eq; ring.
    - intros lam Hlam.
      assert (Hl0 : lam <> 0).
      { intros Z. apply H7. rewrite Hlam, Z. destruct n8 as [[a b] c1], u as [[u1 u2] u3].
        unfold dot, vscale, vx, vy, vz; cbn. ring. }
      assert (D7 : dot u n7 = lam * dot u n8).
      { rewrite Hlam. destruct n8 as [[a b] c1], u as [[u1 u2] u3]. unfold dot, vscale, vx, vy, vz; cbn. ring. }
      assert (A8 : forall x, dot x n7 = lam * dot x n8).
      { intros x. rewrite Hlam. destruct n8 as [[a b] c1], x as [[x1 x2] x3]. unfold dot, vscale, vx, vy, vz; cbn. ring. }
      assert (Etau : dot (vsub p7 v) n7 / dot u n7 - dot (vsub p8 v) n8 / dot u n8
                     = dot (vsub p7 p8) n7 / dot u n7).
      { assert (Esp : dot (vsub p7 p8) n7 = dot (vsub p7 v) n7 - dot (vsub p8 v) n7).
        { destruct p7 as [[a b] c1], p8 as [[d e] f], v as [[x y] z], n7 as [[n1 n2] n3].
          unfold dot, vsub, vx, vy, vz; cbn. ring. }
        rewrite Esp, (A8 (vsub p8 v)), D7. field. split; [exact H8|exact Hl0]. }
      split; [exact Etau|].
      intros q Hq. rewrite Etau. unfold on_plane in *; cbn [fst snd] in *.
      assert (Elin : dot (vsub (vadd q (vscale (dot (vsub p7 p8) n7 / dot u n7) u)) p7) n7
                     = dot (vsub q p8) n7 - dot (vsub p7 p8) n7 + dot (vsub p7 p8) n7 / dot u n7 * dot u n7).
      { destruct q as [[a b] c1], p7 as [[d e] f], p8 as [[x y] z], n7 as [[n1 n2] n3], u as [[u1 u2] u3].
        unfold dot, vsub, vadd, vscale, vx, vy, vz; cbn. ring. }
      rewrite Elin, (A8 (vsub q p8)), Hq. field. exact H7.
  Qed.
End Hex.

Lemma proj_par_meaning (u nrm x : rvec) :
  dot u nrm <> 0 ->
  dot (proj_par u nrm x) nrm = 0 /\
  (exists t, proj_par u nrm x = vadd x (vscale t u)) /\
  (dot x nrm = 0 -> proj_par u nrm x = x).
Proof.
  intros Hu. unfold proj_par. set (k := dot x nrm / dot u nrm). split; [|split].
  - assert (E : dot (vsub x (vscale k u)) nrm = dot x nrm - k * dot u nrm).
    { destruct x as [[a b] c], u as [[d e] f], nrm as [[n1 n2] n3].
      unfold dot, vsub, vscale, vx, vy, vz; cbn. ring. }
    rewrite E. unfold k. field. exact Hu.
  - exists (- k). destruct x as [[a b] c], u as [[d e] f].
    unfold vadd, vsub, vscale, vx, vy, vz; cbn. apply vec_eq; ring.
  - intros Z. unfold k. rewrite Z. destruct x as [[a b] c], u as [[d e] f].
    unfold vsub, vscale, vx, vy, vz; cbn. apply vec_eq; field; exact Hu.
Qed.

Theorem hex_base_vectors_partial :
  forall (c u : rvec) (w : nat -> rvec) (l : list nat) (surfs : list rsurf),
  In l all_listings ->
  u <> (0, 0, 0) ->
  (forall i, (i < 6)%nat -> carries u w (pl surfs i) (side_at l i)) ->
  (forall i j, (i < j < 6)%nat -> (i / 2 <> j / 2)%nat ->
               cross (snd (pl surfs i)) (snd (pl surfs j)) <> (0, 0, 0)) ->
  (forall i j, (i < j < 6)%nat -> (i / 2 <> j / 2)%nat ->
     let k1 := (2 * other_group i j)%nat in
     if adjb_of_listing l i j
     then inside surfs k1 (wv w (vertex_of l (i, j))) /\ inside surfs (k1 + 1) (wv w (vertex_of l (i, j)))
     else forall X, on_plane X (pl surfs i) -> on_plane X (pl surfs j) ->
                    ~ (inside surfs k1 X /\ inside surfs (k1 + 1) X)) ->
  (forall k, wv w (k + 3) = vsub (vscale 2 c) (wv w k)) ->
  (List.length surfs = 6%nat ->
     hexLatticeBaseVectors RS surfs =
     Ok [proj_par u u (across c w (side_at l 0)); proj_par u u (across c w (side_at l 2))]) /\
  (List.length surfs = 8%nat ->
   dot u (snd (pl surfs 6)) <> 0 -> dot u (snd (pl surfs 7)) <> 0 ->
   exists tau,
     hexLatticeBaseVectors RS surfs =
     Ok [proj_par u (snd (pl surfs 6)) (across c w (side_at l 0));
         proj_par u (snd (pl surfs 6)) (across c w (side_at l 2));
         vscale tau u] /\
     (forall lam, snd (pl surfs 6) = vscale lam (snd (pl surfs 7)) ->
        tau = dot (vsub (fst (pl surfs 6)) (fst (pl surfs 7))) (snd (pl surfs 6)) / dot u (snd (pl surfs 6)) /\
        forall q, on_plane q (pl surfs 7) -> on_plane (vadd q (vscale tau u)) (pl surfs 6))).
Proof.
  intros c u w l surfs Hl Hu Hc Hi Hs Hsym. split.
  - intros L. apply (hex_base_vectors_six c u w l surfs Hl Hu Hc Hi Hs (or_introl L)); try assumption.
    unfold top_nrm. unfold rsurf in *. rewrite L. cbn [Nat.eqb]. apply (dot_uu u Hu).
  - intros L H7 H8.
    apply (hex_base_vectors_eight c u w l surfs Hl Hu Hc Hi Hs (or_intror L)); try assumption.
    unfold top_nrm. unfold rsurf in *. rewrite L. cbn [Nat.eqb]. exact H7.
Qed.
