(* C07 — plane lists whose six side planes are all parallel to one axis (the
   usual input errors: planes listed in a wrong order, flipped senses, a pair of
   sides pushed away ...): no projection can divide by zero, so the outcome of
   hexLatticeBaseVectors is decided EXACTLY by parallelism, the number of
   accepted intersections and their shape. *)
From Coq Require Import List Arith ZArith Bool Reals Lra Lia.
From T4V Require Import Base.Scalar Base.Cases C07.Model C07.ProofsAlgebra C07.ProofsComb C07.ProofsMain
  C07.ProofsErrors C07.ProofsShape.
Import ListNotations.
Open Scope R_scope.

Lemma find_next_lookup {A} (look : nat -> nat -> option A) seen cur cands i a :
  find_next look seen cur cands = Some (i, a) -> look cur i = Some a.
Proof.
  induction cands as [|k r IH]; [discriminate|]. cbn [find_next].
  destruct (mem k seen); [exact IH|].
  destruct (look cur k) as [b|] eqn:E; [|exact IH]. intros H. inversion H; subst. exact E.
Qed.

(* when no visit of a stored line can fail, the traversal follows its shape exactly *)
Lemma walk_shape_exact {A B} (lookA : nat -> nat -> option A) (lookB : nat -> nat -> option (nat * nat))
      (visit : A -> res B) (first n : nat) (seen : list nat) (cur : nat) :
  (forall a b, Ropt Rtrue (lookA a b) (lookB a b)) ->
  (forall a b L, lookA a b = Some L -> exists v, visit L = Ok v) ->
  match walk lookB (fun k => Ok k) first n seen cur with
  | Ok ks => exists vs, walk lookA visit first n seen cur = Ok vs /\ List.length vs = List.length ks
  | Err e => e = ELoop /\ walk lookA visit first n seen cur = Err ELoop
  end.
Proof.
  intros Hl Hv. revert seen cur. induction n as [|m IH]; intros seen cur.
  - cbn. exists []. split; reflexivity.
  - cbn [walk]. set (seen1 := if Nat.eqb (List.length seen) 6 then remove_nat first seen else seen).
    pose proof (find_next_rel Rtrue lookA lookB Hl seen1 cur (seq 0 6)) as H.
    destruct (find_next lookA seen1 cur (seq 0 6)) as [[i a]|] eqn:Ea,
             (find_next lookB seen1 cur (seq 0 6)) as [[j b]|]; try contradiction.
    + destruct H as [<- _]. destruct (Hv cur i a (find_next_lookup _ _ _ _ _ _ Ea)) as (v & Ev). rewrite Ev.
      specialize (IH (i :: seen1) i).
      destruct (walk lookB (fun k => Ok k) first m (i :: seen1) i) as [ks|e].
      * destruct IH as (vs & E & L). rewrite E. exists (v :: vs). split; [reflexivity|cbn; f_equal; exact L].
      * destruct IH as [-> E]. rewrite E. split; reflexivity.
    + split; reflexivity.
Qed.

Lemma sort_pairs_entries {A} (f : nat -> nat -> res (option A)) ps ca i j L :
  sort_pairs f ps = Ok ca -> In ((i, j), Some L) ca -> f i j = Ok (Some L).
Proof.
  revert ca. induction ps as [|[i' j'] r IH]; intros ca H Hin.
  - cbn in H. inversion H; subst. contradiction.
  - cbn [sort_pairs] in H. destruct (Nat.eqb (i' / 2) (j' / 2)) eqn:Eg.
    + destruct (sort_pairs f r) as [ca'|] eqn:E; [|discriminate]. inversion H; subst.
      destruct Hin as [Hin|Hin]; [discriminate|]. exact (IH ca' eq_refl Hin).
    + destruct (f i' j') as [v|] eqn:Ef; [|discriminate].
      destruct (sort_pairs f r) as [ca'|] eqn:E; [|discriminate]. inversion H; subst.
      destruct Hin as [Hin|Hin]; [inversion Hin; subst; exact Ef|]. exact (IH ca' eq_refl Hin).
Qed.

Lemma adj_lookup_in {A} (ca : adjacency A) k L : adj_lookup ca k = Some L -> exists k', In (k', Some L) ca.
Proof.
  induction ca as [|[[i j] v] r IH]; [discriminate|]. cbn [adj_lookup].
  destruct (Nat.eqb i (fst k) && Nat.eqb j (snd k)).
  - intros ->. exists (i, j). left. reflexivity.
  - intros H. destruct (IH H) as (k' & Hin). exists k'. right. exact Hin.
Qed.

Lemma dot_vs_l (k : R) (a b : rvec) : dot (vscale k a) b = k * dot a b.
Proof. destruct a as [[a1 a2] a3], b as [[b1 b2] b3]. unfold dot, vscale, vx, vy, vz; cbn. ring. Qed.

(* a line stored by hexSortSides for two planes parallel to u is along u *)
Lemma adjf_direction (surfs : list rsurf) (u : rvec) i j pt d :
  u <> (0, 0, 0) ->
  dot (snd (pl surfs i)) u = 0 -> dot (snd (pl surfs j)) u = 0 ->
  hex_adjf RS surfs i j = Ok (Some (pt, d)) ->
  exists s, s <> 0 /\ d = vscale s u.
Proof.
  intros Hu Hi Hj H. unfold hex_adjf in H.
  change (fst (nth_surf RS surfs i)) with (pl surfs i) in H.
  change (fst (nth_surf RS surfs j)) with (pl surfs j) in H.
  destruct (pl surfs i) as [p1 n1], (pl surfs j) as [p2 n2]. cbn [snd] in Hi, Hj.
  destruct (vec_eq_dec (cross n1 n2)) as [Z|NZ].
  - exfalso. unfold areHexSidesAdjacent in H.
    destruct (nth_surf RS surfs (2 * other_group i j)) as [o1 s1], (nth_surf RS surfs (2 * other_group i j + 1)) as [o2 s2].
    pose proof (proj2 (proj1 (intersection_error_iff p1 n1 p2 n2)) Z) as E.
    match type of H with context [pointInPlaneIntersection RS ?a ?b] =>
      replace (pointInPlaneIntersection RS a b) with (Err (A:=rline) EZeroDiv) in H by (symmetry; exact E) end.
    discriminate.
  - destruct (plane_intersection p1 n1 p2 n2 NZ) as (pt' & d' & E & _ & _ & Hd).
    unfold areHexSidesAdjacent in H.
    destruct (nth_surf RS surfs (2 * other_group i j)) as [o1 s1], (nth_surf RS surfs (2 * other_group i j + 1)) as [o2 s2].
    match type of H with context [pointInPlaneIntersection RS ?a ?b] =>
      replace (pointInPlaneIntersection RS a b) with (Ok (A:=rline) (pt', d')) in H by (symmetry; exact E) end.
    destruct (_ && _) in H; [|discriminate]. inversion H; subst.
    destruct (cross_par_axis n1 n2 u Hu Hi Hj NZ) as (s & Hs & Hcs).
    assert (Hpos : 0 < dot (cross n1 n2) (cross n1 n2)) by (apply dot_self_pos; exact NZ).
    assert (Hm : sqrt (dot (cross n1 n2) (cross n1 n2)) <> 0) by (intros Z; apply sqrt_eq_0 in Z; lra).
    set (m := sqrt (dot (cross n1 n2) (cross n1 n2))) in *.
    exists (1 / m * s). split.
    + intros Z. apply Hs. replace s with (m * (1 / m * s)) by (field; exact Hm). rewrite Z. ring.
    + rewrite Hcs. destruct u as [[u1 u2] u3]. unfold vscale, vx, vy, vz; cbn. apply vec_eq; field; exact Hm.
Qed.

Lemma first_some_in {A} (ca : adjacency A) a : first_some ca = Some a -> exists k, In (k, Some a) ca.
Proof.
  induction ca as [|[k [b|]] r IH]; cbn; [discriminate| |].
  - intros H. inversion H; subst. exists k. left. reflexivity.
  - intros H. destruct (IH H) as (k' & Hin). exists k'. right. exact Hin.
Qed.

Lemma project_ok (pt dir : rvec) (p : rplane) :
  dot dir (snd p) <> 0 -> exists q, projectPointOnPlane RS pt p dir = Ok q.
Proof.
  intros H. destruct p as [pp n]. cbn [snd] in H. unfold projectPointOnPlane.
  change (@scal R RS dir n) with (dot dir n). cbn [seqb RS s0].
  destruct (Reqb (dot dir n) 0) eqn:E; [apply Reqb_true in E; contradiction|]. eexists. reflexivity.
Qed.

Section Axial.
  Context (surfs : list rsurf) (adj : adjacency rline) (u : rvec).
  Hypothesis Hu : u <> (0, 0, 0).
  Hypothesis Hax : forall k, (k < 6)%nat -> dot (snd (pl surfs k)) u = 0.
  Hypothesis Hlen : List.length surfs = 6%nat \/
    (List.length surfs = 8%nat /\ dot u (snd (pl surfs 6)) <> 0 /\ dot u (snd (pl surfs 7)) <> 0).
  Hypothesis Hs : hexSortSides RS (firstn 6 surfs) = Ok adj.

  Lemma Hlen' : List.length surfs = 6%nat \/ List.length surfs = 8%nat.
  Proof. destruct Hlen as [L|(L & _)]; [left|right]; exact L. Qed.

  Lemma unpack : sort_pairs (hex_adjf RS (firstn 6 surfs)) hex_pairs = Ok adj /\ count_some adj = 6%nat.
  Proof.
    pose proof Hs as H. unfold hexSortSides in H.
    assert (L6 : List.length (firstn 6 surfs) = 6%nat)
      by (rewrite firstn_length; pose proof Hlen' as HL; unfold rsurf in *; lia).
    unfold rsurf in *. rewrite L6 in H. cbn [Nat.eqb negb] in H. unfold sort_sides in H.
    destruct (sort_pairs (hex_adjf RS (firstn 6 surfs)) hex_pairs) as [a|]; [|discriminate].
    destruct (Nat.eqb (count_some a) 6) eqn:E6; [|discriminate]. inversion H; subst.
    split; [reflexivity|apply Nat.eqb_eq; exact E6].
  Qed.

  (* every stored line is along the axis *)
  Lemma entries_axial k pt d : In (k, Some (pt, d)) adj -> exists s, s <> 0 /\ d = vscale s u.
  Proof.
    intros Hin. destruct unpack as [Hsp _]. destruct k as [i j].
    destruct (sort_pairs_structure _ _ _ Hsp) as [K _].
    assert (Hk : In (i, j) hex_pairs).
    { rewrite <- K. apply in_map_iff. exists ((i, j), Some (pt, d)). split; [reflexivity|exact Hin]. }
    pose proof (hex_pairs_bounds i j Hk) as Hb.
    pose proof (sort_pairs_entries _ _ _ _ _ _ Hsp Hin) as Hf.
    apply (adjf_direction (firstn 6 surfs) u i j pt d Hu); [| |exact Hf].
    - unfold pl. rewrite nth_surf_firstn by lia. apply Hax. lia.
    - unfold pl. rewrite nth_surf_firstn by lia. apply Hax. lia.
  Qed.

  Lemma vertices_axial first : (first < 6)%nat ->
    (closed_tour (some_keys adj) = false -> hexVertices RS surfs first = Err ELoop) /\
    (closed_tour (some_keys adj) = true ->
       exists vs d0 s0, hexVertices RS surfs first = Ok (vs, d0) /\ s0 <> 0 /\ d0 = vscale s0 u).
  Proof.
    intros Hf. destruct unpack as [Hsp Hc].
    destruct (sort_pairs_structure _ _ _ Hsp) as [K F].
    pose proof (some_keys_sublist adj hex_pairs K F) as Hsub. rewrite Hc, <- cross_pairs_filter in Hsub.
    pose proof (sort_pairs_shape _ _ _ hex_pairs_nodup Hsp) as Hsh.
    assert (Hcs : count_some (shape adj) = 6%nat)
      by (rewrite <- (count_some_rel Rtrue adj (shape adj) (Radj_shape adj)); exact Hc).
    assert (Habs : hex_vertices_abs (pair_in (some_keys adj)) first = hex_walk (shape adj) (fun k => Ok k) first).
    { unfold hex_vertices_abs, bind, sort_sides_abs, sort_sides.
      match goal with |- context [sort_pairs ?f hex_pairs] =>
        replace (sort_pairs f hex_pairs) with (Ok (shape adj)) by (symmetry; exact Hsh) end.
      match goal with |- context [Nat.eqb ?n 6] =>
        replace (Nat.eqb n 6) with true by (symmetry; apply Nat.eqb_eq; exact Hcs) end.
      reflexivity. }
    destruct (first_some_count adj ltac:(lia)) as ([pt0 d0] & Efs).
    destruct (first_some_in adj (pt0, d0) Efs) as (k0 & Hin0).
    destruct (entries_axial k0 pt0 d0 Hin0) as (s0 & Hs0 & Hd0).
    assert (Huu : dot u u <> 0) by (pose proof (dot_self_pos u Hu); lra).
    set (top := if Nat.eqb (List.length surfs) 6 then (vzero RS, d0)
                else fst (nth_surf RS surfs (List.length surfs - 2))).
    assert (Htop : dot u (snd top) <> 0).
    { unfold top. destruct Hlen as [L|(L & U7 & _)]; unfold rsurf in *; rewrite L; cbn [Nat.eqb Nat.sub snd].
      - rewrite Hd0, dot_comm, dot_vs_l. nra.
      - exact U7. }
    assert (Hvis : forall a b L, adj_lookup adj (sorted_key a b) = Some L ->
                                 exists v, projectPointOnPlane RS (fst L) top (snd L) = Ok v).
    { intros a b [pt d] Hlk. destruct (adj_lookup_in adj _ _ Hlk) as (k' & Hin).
      destruct (entries_axial k' pt d Hin) as (s & Hs' & Hd). cbn [fst snd]. apply project_ok.
      rewrite Hd, dot_vs_l. nra. }
    assert (Hunf : hexVertices RS surfs first =
        match hex_walk adj (fun inters : rline => projectPointOnPlane RS (fst inters) top (snd inters)) first with
        | Err e => Err e | Ok vs => Ok (vs, d0) end).
    { unfold hexVertices. pose proof Hlen' as HL. unfold rsurf in *.
      assert (G1 : negb (Nat.eqb (List.length surfs) 6 || Nat.eqb (List.length surfs) 8) = false)
        by (destruct HL as [L|L]; rewrite L; reflexivity).
      rewrite G1. assert (G2 : negb (Nat.ltb first 6) = false) by (apply negb_false_iff; apply Nat.ltb_lt; exact Hf).
      unfold rline in *. rewrite G2, Hs, Efs. reflexivity. }
    rewrite Hunf. unfold hex_walk in *. unfold rline in *.
    pose proof (walk_shape_exact (fun a b => adj_lookup adj (sorted_key a b))
                  (fun a b => adj_lookup (shape adj) (sorted_key a b))
                  (fun inters : line => projectPointOnPlane RS (fst inters) top (snd inters))
                  first 6 [first] first
                  (fun a b => adj_lookup_rel Rtrue adj (shape adj) (sorted_key a b) (Radj_shape adj))
                  Hvis) as Hw.
    destruct (walk_ends_iff_closed_tour (some_keys adj) first Hsub Hf) as [(Ct & ks & Ek & _)|(Ct & Ek)];
      rewrite Habs in Ek; unfold hex_walk in Ek; rewrite Ek in Hw; rewrite Ct; split; intros Hct; try discriminate.
    - destruct Hw as (vs & E & _). rewrite E. exists vs, d0, s0. repeat split; assumption.
    - destruct Hw as [_ E]. rewrite E. reflexivity.
  Qed.

  Theorem axial_planes_exact :
    (closed_tour (some_keys adj) = false -> hexLatticeBaseVectors RS surfs = Err ELoop) /\
    (closed_tour (some_keys adj) = true ->
       exists vs, hexLatticeBaseVectors RS surfs = Ok vs /\ List.length vs = (List.length surfs / 2 - 1)%nat).
  Proof.
    destruct (vertices_axial 0 ltac:(lia)) as [N0 C0]. destruct (vertices_axial 2 ltac:(lia)) as [N2 C2].
    split; intros Hct; unfold hexLatticeBaseVectors.
    - rewrite (N0 Hct). reflexivity.
    - destruct (C0 Hct) as (v0 & d0 & s0 & E0 & Hs0 & Hd0). destruct (C2 Hct) as (v2 & d2 & s2 & E2 & _).
      rewrite E0, E2. destruct Hlen as [L|(L & U7 & U8)]; unfold rsurf in *; rewrite L; cbn [Nat.eqb Nat.sub].
      + eexists. split; reflexivity.
      + destruct (project_ok (nth_vec RS v0 0) d0 (fst (nth_surf RS surfs 7))) as (q1 & P1).
        { change (fst (nth_surf RS surfs 7)) with (pl surfs 7). rewrite Hd0, dot_vs_l. nra. }
        destruct (project_ok (nth_vec RS v0 0) d0 (fst (nth_surf RS surfs 6))) as (q2 & P2).
        { change (fst (nth_surf RS surfs 6)) with (pl surfs 6). rewrite Hd0, dot_vs_l. nra. }
        rewrite P1, P2. eexists. split; reflexivity.
  Qed.
End Axial.
