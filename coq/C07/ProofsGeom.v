(* C07 — piece (i) of DESIGN 5.8: the sign facts of a strictly convex,
   centrally symmetric hexagon.  Which of the planes of the third group see the
   common point of two side planes on the cell's side. *)
From Coq Require Import List Arith ZArith Bool Reals Lra Lia Psatz.
From T4V Require Import Base.Scalar C07.Model C07.ProofsAlgebra C07.ProofsComb C07.ProofsMain.
Import ListNotations.
Open Scope R_scope.

(* det(a, b, x) *)
Definition det3 (a b x : rvec) : R := dot (cross a b) x.

(* Cramer: four vectors of R^3 are dependent *)
Lemma cramer4 (a b u x n : rvec) :
  det3 a b u * dot n x =
  det3 x b u * dot n a + det3 a x u * dot n b + det3 a b x * dot n u.
Proof.
  destruct a as [[a1 a2] a3], b as [[b1 b2] b3], u as [[u1 u2] u3], x as [[x1 x2] x3], n as [[n1 n2] n3].
  unfold det3, dot, cross, vx, vy, vz; cbn. ring.
Qed.

Lemma det3_swap12 (a b u : rvec) : det3 b a u = - det3 a b u.
Proof.
  destruct a as [[a1 a2] a3], b as [[b1 b2] b3], u as [[u1 u2] u3].
  unfold det3, dot, cross, vx, vy, vz; cbn. ring.
Qed.

(* a vector perpendicular to three independent vectors vanishes *)
Lemma perp_three_zero (a b u n : rvec) :
  det3 a b u <> 0 -> dot n a = 0 -> dot n b = 0 -> dot n u = 0 -> n = (0, 0, 0).
Proof.
  intros Hd Ha Hb Hu.
  pose proof (cramer4 a b u (1, 0, 0) n) as C1.
  pose proof (cramer4 a b u (0, 1, 0) n) as C2.
  pose proof (cramer4 a b u (0, 0, 1) n) as C3.
  rewrite Ha, Hb, Hu in C1, C2, C3.
  assert (E1 : dot n (1, 0, 0) = vx n) by (destruct n as [[n1 n2] n3]; unfold dot, vx, vy, vz; cbn; ring).
  assert (E2 : dot n (0, 1, 0) = vy n) by (destruct n as [[n1 n2] n3]; unfold dot, vx, vy, vz; cbn; ring).
  assert (E3 : dot n (0, 0, 1) = vz n) by (destruct n as [[n1 n2] n3]; unfold dot, vx, vy, vz; cbn; ring).
  rewrite E1 in C1. rewrite E2 in C2. rewrite E3 in C3.
  destruct n as [[n1 n2] n3]. unfold vx, vy, vz in C1, C2, C3; cbn [fst snd] in C1, C2, C3.
  apply vec_eq; nra.
Qed.

(* the affine functional of a plane: planeSide is its sign *)
Definition pf (p : rplane) (q : rvec) : R := dot (vsub q (fst p)) (snd p).

Lemma on_plane_pf p q : on_plane q p <-> pf p q = 0.
Proof. reflexivity. Qed.

Lemma planeSide_pf (p : rplane) (q : rvec) :
  planeSide RS q p = (if Rltb 0 (pf p q) then 1 else if Rltb (pf p q) 0 then -1 else 0)%Z.
Proof. destruct p as [pp n]. reflexivity. Qed.

Lemma same_side (p : rplane) (q1 q2 : rvec) :
  0 < pf p q1 * pf p q2 -> planeSide RS q1 p = planeSide RS q2 p.
Proof.
  intros H. rewrite !planeSide_pf.
  destruct (Rltb 0 (pf p q1)) eqn:E1, (Rltb 0 (pf p q2)) eqn:E2,
           (Rltb (pf p q1) 0) eqn:E3, (Rltb (pf p q2) 0) eqn:E4; try reflexivity; exfalso;
    repeat match goal with
           | H : Rltb _ _ = true |- _ => apply Rltb_true in H
           | H : Rltb _ _ = false |- _ => apply Rltb_false in H
           end; nra.
Qed.

Lemma opposite_side (p : rplane) (q1 q2 : rvec) :
  pf p q1 * pf p q2 < 0 -> planeSide RS q1 p <> planeSide RS q2 p.
Proof.
  intros H. rewrite !planeSide_pf.
  destruct (Rltb 0 (pf p q1)) eqn:E1, (Rltb 0 (pf p q2)) eqn:E2,
           (Rltb (pf p q1) 0) eqn:E3, (Rltb (pf p q2) 0) eqn:E4; try discriminate; exfalso;
    repeat match goal with
           | H : Rltb _ _ = true |- _ => apply Rltb_true in H
           | H : Rltb _ _ = false |- _ => apply Rltb_false in H
           end; nra.
Qed.

Lemma planeSide_nonzero (p : rplane) (q : rvec) : planeSide RS q p <> 0%Z -> pf p q <> 0.
Proof.
  rewrite planeSide_pf. intros H Z. rewrite Z in H.
  assert (E : Rltb 0 0 = false) by (apply Rltb_false; lra). rewrite E in H. apply H. reflexivity.
Qed.

Lemma pf_shift (p : rplane) (c q : rvec) : pf p q = pf p c + dot (snd p) (vsub q c).
Proof.
  destruct p as [pp n]. unfold pf; cbn [fst snd].
  destruct q as [[q1 q2] q3], c as [[c1 c2] c3], pp as [[p1 p2] p3], n as [[n1 n2] n3].
  unfold dot, vsub, vx, vy, vz; cbn. ring.
Qed.

Lemma pf_nonzero_normal (p : rplane) (q : rvec) : pf p q <> 0 -> snd p <> (0, 0, 0).
Proof.
  intros H Z. apply H. unfold pf. rewrite Z. destruct (vsub q (fst p)) as [[a b] c].
  unfold dot, vx, vy, vz; cbn. ring.
Qed.

(* the functional of a plane parallel to u through c + a and c + b, at c + x,
   as a multiple of its value at c *)
Lemma plane_ratio (u c qa qb q : rvec) (p : rplane) :
  dot (snd p) u = 0 -> on_plane qa p -> on_plane qb p ->
  let a := vsub qa c in let b := vsub qb c in let x := vsub q c in
  det3 a b u * pf p q = pf p c * (det3 a b u - det3 a x u + det3 b x u).
Proof.
  intros Hu Ha Hb a b x.
  change (pf p qa = 0) in Ha. change (pf p qb = 0) in Hb.
  rewrite (pf_shift p c qa) in Ha. rewrite (pf_shift p c qb) in Hb. rewrite (pf_shift p c q).
  fold a in Ha. fold b in Hb. fold x.
  pose proof (cramer4 a b u x (snd p)) as Cr.
  rewrite Hu in Cr. rewrite (det3_swap12 b x u) in Cr.
  assert (Ea : dot (snd p) a = - pf p c) by lra.
  assert (Eb : dot (snd p) b = - pf p c) by lra.
  rewrite Ea, Eb in Cr. rewrite Rmult_plus_distr_l, Cr. ring.
Qed.

(* the functional of a plane parallel to u through A and B is proportional to
   x |-> det(B - A, x - A, u) *)
Lemma plane_through_det (u A B x m : rvec) (p : rplane) :
  dot (snd p) u = 0 -> on_plane A p -> on_plane B p ->
  det3 (vsub B A) m u * pf p x = det3 (vsub B A) (vsub x A) u * dot (snd p) m.
Proof.
  intros Hu HA HB. change (pf p A = 0) in HA. change (pf p B = 0) in HB.
  rewrite (pf_shift p A B) in HB. rewrite (pf_shift p A x), HA, Rplus_0_l.
  pose proof (cramer4 (vsub B A) m u (vsub x A) (snd p)) as Cr.
  rewrite Hu in Cr. assert (E : dot (snd p) (vsub B A) = 0) by lra. rewrite E in Cr.
  rewrite Cr. ring.
Qed.

(* the scalar core of meeting_beyond / meeting_inside_opposite *)
Lemma tour_scalar (A B C x0 x1 x2 d : R) :
  A - x0 + x1 = 0 -> C - x2 - x0 = 0 -> A * x2 = - B * x0 + C * x1 + d * 0 ->
  0 < A + B - C -> 0 < B + C - A -> 0 < A + C - B -> B - x1 + x2 < 0.
Proof.
  intros Ea Eb Cr K0 K1 K2.
  assert (E1 : x1 = x0 - A) by lra. assert (E2 : x2 = C - x0) by lra. subst x1 x2.
  assert (Ex0 : x0 * (A + C - B) = 2 * A * C) by lra.
  assert (Ek : (A + C - B) * (B - (x0 - A) + (C - x0)) = (A - C - B) * (A - C + B)).
  { replace ((A + C - B) * (B - (x0 - A) + (C - x0))) with ((A + C - B) * (A + B + C) - 2 * (x0 * (A + C - B))) by ring.
    rewrite Ex0. ring. }
  assert (H1 : (A - C - B) * (A - C + B) < 0).
  { replace ((A - C - B) * (A - C + B)) with (- ((B + C - A) * (A + B - C))) by ring.
    assert (0 < (B + C - A) * (A + B - C)) by (apply Rmult_lt_0_compat; assumption). lra. }
  rewrite <- Ek in H1.
  destruct (Rlt_le_dec (B - (x0 - A) + (C - x0)) 0) as [Hn|Hp]; [exact Hn|].
  exfalso. assert (0 <= (A + C - B) * (B - (x0 - A) + (C - x0))) by (apply Rmult_le_pos; lra). lra.
Qed.

(* ---------- one hexagon seen from one of its vertices ---------- *)
Section Local.
  Context (c u q0 q1 q2 q3 q4 q5 : rvec).
  Hypothesis S0 : q3 = vsub (vscale 2 c) q0.
  Hypothesis S1 : q4 = vsub (vscale 2 c) q1.
  Hypothesis S2 : q5 = vsub (vscale 2 c) q2.
  (* left turns at q1, q2, q3 *)
  Hypothesis T0 : 0 < det3 (vsub q1 q0) (vsub q2 q1) u.
  Hypothesis T1 : 0 < det3 (vsub q2 q1) (vsub q3 q2) u.
  Hypothesis T2 : 0 < det3 (vsub q3 q2) (vsub q4 q3) u.

  Let p0 := vsub q0 c.
  Let p1 := vsub q1 c.
  Let p2 := vsub q2 c.
  Let A := det3 p0 p1 u.
  Let B := det3 p1 p2 u.
  Let C := det3 p0 p2 u.

  Lemma turns : 0 < A + B - C /\ 0 < B + C - A /\ 0 < A + C - B.
  Proof.
    assert (E0 : det3 (vsub q1 q0) (vsub q2 q1) u = A + B - C).
    { unfold A, B, C, p0, p1, p2.
      destruct q0 as [[a0 b0] c0], q1 as [[a1 b1] c1], q2 as [[a2 b2] c2], c as [[cx cy] cz], u as [[u1 u2] u3].
      unfold det3, dot, cross, vsub, vx, vy, vz; cbn. ring. }
    assert (E1 : det3 (vsub q2 q1) (vsub q3 q2) u = B + C - A).
    { rewrite S0. unfold A, B, C, p0, p1, p2.
      destruct q0 as [[a0 b0] c0], q1 as [[a1 b1] c1], q2 as [[a2 b2] c2], c as [[cx cy] cz], u as [[u1 u2] u3].
      unfold det3, dot, cross, vsub, vscale, vx, vy, vz; cbn. ring. }
    assert (E2 : det3 (vsub q3 q2) (vsub q4 q3) u = A + C - B).
    { rewrite S0, S1. unfold A, B, C, p0, p1, p2.
      destruct q0 as [[a0 b0] c0], q1 as [[a1 b1] c1], q2 as [[a2 b2] c2], c as [[cx cy] cz], u as [[u1 u2] u3].
      unfold det3, dot, cross, vsub, vscale, vx, vy, vz; cbn. ring. }
    rewrite <- E0, <- E1, <- E2. repeat split; assumption.
  Qed.

  (* the vertex q0 lies strictly on the centre's side of the line of [q1, q2] *)
  Lemma vertex_inside_a (p : rplane) :
    dot (snd p) u = 0 -> on_plane q1 p -> on_plane q2 p -> pf p c <> 0 ->
    0 < pf p q0 * pf p c.
  Proof.
    intros Hu H1 H2 Hc. destruct turns as (K0 & K1 & K2).
    pose proof (plane_ratio u c q1 q2 q0 p Hu H1 H2) as R. cbv zeta in R.
    fold p0 p1 p2 in R. fold B in R.
    assert (E1 : det3 p1 p0 u = - A) by (unfold A; apply det3_swap12).
    assert (E2 : det3 p2 p0 u = - C) by (unfold C; apply det3_swap12).
    rewrite E1, E2 in R.
    assert (HB : 0 < B) by lra.
    assert (Hsq : 0 < pf p c * pf p c) by nra.
    assert (E : B * (pf p q0 * pf p c) = pf p c * pf p c * (B + A - C)) by (rewrite <- Rmult_assoc, R; ring).
    assert (0 < pf p c * pf p c * (B + A - C)) by (apply Rmult_lt_0_compat; lra).
    nra.
  Qed.

  (* ... and of the line of [q4, q5] *)
  Lemma vertex_inside_b (p : rplane) :
    dot (snd p) u = 0 -> on_plane q4 p -> on_plane q5 p -> pf p c <> 0 ->
    0 < pf p q0 * pf p c.
  Proof.
    intros Hu H1 H2 Hc. destruct turns as (K0 & K1 & K2).
    pose proof (plane_ratio u c q4 q5 q0 p Hu H1 H2) as R. cbv zeta in R.
    fold p0 in R.
    assert (E0 : det3 (vsub q4 c) (vsub q5 c) u = B).
    { rewrite S1, S2. unfold B, p1, p2.
      destruct q1 as [[a1 b1] c1], q2 as [[a2 b2] c2], c as [[cx cy] cz], u as [[u1 u2] u3].
      unfold det3, dot, cross, vsub, vscale, vx, vy, vz; cbn. ring. }
    assert (E1 : det3 (vsub q4 c) p0 u = A).
    { rewrite S1. unfold A, p0, p1.
      destruct q0 as [[a0 b0] c0], q1 as [[a1 b1] c1], c as [[cx cy] cz], u as [[u1 u2] u3].
      unfold det3, dot, cross, vsub, vscale, vx, vy, vz; cbn. ring. }
    assert (E2 : det3 (vsub q5 c) p0 u = C).
    { rewrite S2. unfold C, p0, p2.
      destruct q0 as [[a0 b0] c0], q2 as [[a2 b2] c2], c as [[cx cy] cz], u as [[u1 u2] u3].
      unfold det3, dot, cross, vsub, vscale, vx, vy, vz; cbn. ring. }
    rewrite E0, E1, E2 in R.
    assert (HB : 0 < B) by lra.
    assert (Hsq : 0 < pf p c * pf p c) by nra.
    assert (E : B * (pf p q0 * pf p c) = pf p c * pf p c * (B - A + C)) by (rewrite <- Rmult_assoc, R; ring).
    assert (0 < pf p c * pf p c * (B - A + C)) by (apply Rmult_lt_0_compat; lra).
    nra.
  Qed.

  (* the common points of the lines of [q0, q1] and [q2, q3] lie strictly beyond
     the line of [q1, q2] *)
  Lemma meeting_beyond (pa pb pm : rplane) (X : rvec) :
    dot (snd pa) u = 0 -> on_plane q0 pa -> on_plane q1 pa -> pf pa c <> 0 ->
    dot (snd pb) u = 0 -> on_plane q2 pb -> on_plane q3 pb -> pf pb c <> 0 ->
    dot (snd pm) u = 0 -> on_plane q1 pm -> on_plane q2 pm -> pf pm c <> 0 ->
    on_plane X pa -> on_plane X pb ->
    pf pm X * pf pm c < 0.
  Proof.
    intros Hua Ha0 Ha1 Hac Hub Hb2 Hb3 Hbc Hum Hm1 Hm2 Hmc Xa Xb.
    destruct turns as (K0 & K1 & K2).
    set (x := vsub X c).
    set (x0 := det3 p0 x u). set (x1 := det3 p1 x u). set (x2 := det3 p2 x u).
    (* X on the line of [q0, q1] *)
    pose proof (plane_ratio u c q0 q1 X pa Hua Ha0 Ha1) as Ra. cbv zeta in Ra.
    fold p0 p1 x in Ra. fold A x0 x1 in Ra.
    change (pf pa X = 0) in Xa. rewrite Xa in Ra.
    assert (Ea : A - x0 + x1 = 0) by nra.
    (* X on the line of [q2, q3] *)
    pose proof (plane_ratio u c q2 q3 X pb Hub Hb2 Hb3) as Rb. cbv zeta in Rb.
    fold p2 x in Rb.
    assert (E3 : det3 p2 (vsub q3 c) u = C).
    { rewrite S0. unfold C, p0, p2.
      destruct q0 as [[a0 b0] c0], q2 as [[a2 b2] c2], c as [[cx cy] cz], u as [[u1 u2] u3].
      unfold det3, dot, cross, vsub, vscale, vx, vy, vz; cbn. ring. }
    assert (E4 : det3 (vsub q3 c) x u = - x0).
    { rewrite S0. unfold x0, p0.
      destruct q0 as [[a0 b0] c0], x as [[y1 y2] y3], c as [[cx cy] cz], u as [[u1 u2] u3].
      unfold det3, dot, cross, vsub, vscale, vx, vy, vz; cbn. ring. }
    rewrite E3, E4 in Rb. fold x2 in Rb.
    change (pf pb X = 0) in Xb. rewrite Xb in Rb.
    assert (Eb : C - x2 - x0 = 0) by nra.
    (* dependence of p0, p1, p2 modulo u *)
    pose proof (cramer4 p0 p1 u p2 (cross x u)) as Cr.
    assert (Z : dot (cross x u) u = 0).
    { destruct x as [[y1 y2] y3], u as [[u1 u2] u3]. unfold dot, cross, vx, vy, vz; cbn. ring. }
    assert (L : forall v, dot (cross x u) v = det3 v x u).
    { intros v. destruct x as [[y1 y2] y3], u as [[u1 u2] u3], v as [[v1 v2] v3].
      unfold det3, dot, cross, vx, vy, vz; cbn. ring. }
    rewrite Z, !L in Cr. fold A x0 x1 x2 in Cr.
    assert (E5 : det3 p2 p1 u = - B) by (unfold B; apply det3_swap12).
    rewrite E5 in Cr. fold C in Cr.
    (* the line of [q1, q2] *)
    pose proof (plane_ratio u c q1 q2 X pm Hum Hm1 Hm2) as Rm. cbv zeta in Rm.
    fold p1 p2 x in Rm. fold B x1 x2 in Rm.
    assert (HB : 0 < B) by lra.
    assert (HS : 0 < A + C - B) by lra.
    assert (Hk : B - x1 + x2 < 0) by (exact (tour_scalar A B C x0 x1 x2 _ Ea Eb Cr K0 K1 K2)).
    assert (Hsq : 0 < pf pm c * pf pm c) by nra.
    assert (E : B * (pf pm X * pf pm c) = pf pm c * pf pm c * (B - x1 + x2)) by (rewrite <- Rmult_assoc, Rm; ring).
    assert (pf pm c * pf pm c * (B - x1 + x2) < 0) by nra.
    nra.
  Qed.

  Lemma meeting_inside_opposite (pa pb po : rplane) (X : rvec) :
    dot (snd pa) u = 0 -> on_plane q0 pa -> on_plane q1 pa -> pf pa c <> 0 ->
    dot (snd pb) u = 0 -> on_plane q2 pb -> on_plane q3 pb -> pf pb c <> 0 ->
    dot (snd po) u = 0 -> on_plane q4 po -> on_plane q5 po -> pf po c <> 0 ->
    on_plane X pa -> on_plane X pb ->
    0 < pf po X * pf po c.
  Proof.
    intros Hua Ha0 Ha1 Hac Hub Hb2 Hb3 Hbc Hum Hm1 Hm2 Hmc Xa Xb.
    destruct turns as (K0 & K1 & K2).
    set (x := vsub X c).
    set (x0 := det3 p0 x u). set (x1 := det3 p1 x u). set (x2 := det3 p2 x u).
    (* X on the line of [q0, q1] *)
    pose proof (plane_ratio u c q0 q1 X pa Hua Ha0 Ha1) as Ra. cbv zeta in Ra.
    fold p0 p1 x in Ra. fold A x0 x1 in Ra.
    change (pf pa X = 0) in Xa. rewrite Xa in Ra.
    assert (Ea : A - x0 + x1 = 0) by nra.
    (* X on the line of [q2, q3] *)
    pose proof (plane_ratio u c q2 q3 X pb Hub Hb2 Hb3) as Rb. cbv zeta in Rb.
    fold p2 x in Rb.
    assert (E3 : det3 p2 (vsub q3 c) u = C).
    { rewrite S0. unfold C, p0, p2.
      destruct q0 as [[a0 b0] c0], q2 as [[a2 b2] c2], c as [[cx cy] cz], u as [[u1 u2] u3].
      unfold det3, dot, cross, vsub, vscale, vx, vy, vz; cbn. ring. }
    assert (E4 : det3 (vsub q3 c) x u = - x0).
    { rewrite S0. unfold x0, p0.
      destruct q0 as [[a0 b0] c0], x as [[y1 y2] y3], c as [[cx cy] cz], u as [[u1 u2] u3].
      unfold det3, dot, cross, vsub, vscale, vx, vy, vz; cbn. ring. }
    rewrite E3, E4 in Rb. fold x2 in Rb.
    change (pf pb X = 0) in Xb. rewrite Xb in Rb.
    assert (Eb : C - x2 - x0 = 0) by nra.
    (* dependence of p0, p1, p2 modulo u *)
    pose proof (cramer4 p0 p1 u p2 (cross x u)) as Cr.
    assert (Z : dot (cross x u) u = 0).
    { destruct x as [[y1 y2] y3], u as [[u1 u2] u3]. unfold dot, cross, vx, vy, vz; cbn. ring. }
    assert (L : forall v, dot (cross x u) v = det3 v x u).
    { intros v. destruct x as [[y1 y2] y3], u as [[u1 u2] u3], v as [[v1 v2] v3].
      unfold det3, dot, cross, vx, vy, vz; cbn. ring. }
    rewrite Z, !L in Cr. fold A x0 x1 x2 in Cr.
    assert (E5 : det3 p2 p1 u = - B) by (unfold B; apply det3_swap12).
    rewrite E5 in Cr. fold C in Cr.
    (* the line of [q4, q5] = [2c - q1, 2c - q2] *)
    pose proof (plane_ratio u c q4 q5 X po Hum Hm1 Hm2) as Rm. cbv zeta in Rm. fold x in Rm.
    assert (F0 : det3 (vsub q4 c) (vsub q5 c) u = B).
    { rewrite S1, S2. unfold B, p1, p2.
      destruct q1 as [[a1 b1] c1], q2 as [[a2 b2] c2], c as [[cx cy] cz], u as [[u1 u2] u3].
      unfold det3, dot, cross, vsub, vscale, vx, vy, vz; cbn. ring. }
    assert (F1 : det3 (vsub q4 c) x u = - x1).
    { rewrite S1. unfold x1, p1.
      destruct q1 as [[a1 b1] c1], x as [[y1 y2] y3], c as [[cx cy] cz], u as [[u1 u2] u3].
      unfold det3, dot, cross, vsub, vscale, vx, vy, vz; cbn. ring. }
    assert (F2 : det3 (vsub q5 c) x u = - x2).
    { rewrite S2. unfold x2, p2.
      destruct q2 as [[a2 b2] c2], x as [[y1 y2] y3], c as [[cx cy] cz], u as [[u1 u2] u3].
      unfold det3, dot, cross, vsub, vscale, vx, vy, vz; cbn. ring. }
    rewrite F0, F1, F2 in Rm.
    assert (HB : 0 < B) by lra.
    assert (HS : 0 < A + C - B) by lra.
    assert (Hk : B - x1 + x2 < 0) by (exact (tour_scalar A B C x0 x1 x2 _ Ea Eb Cr K0 K1 K2)).
    assert (Hsq : 0 < pf po c * pf po c) by nra.
    assert (E : B * (pf po X * pf po c) = pf po c * pf po c * (B - - x1 + - x2)) by (rewrite <- Rmult_assoc, Rm; ring).
    assert (0 < pf po c * pf po c * (B - - x1 + - x2)) by (apply Rmult_lt_0_compat; lra).
    nra.
  Qed.

  (* planes of two sides whose directions are independent modulo u are not parallel *)
  Lemma not_parallel (pa pb : rplane) (a1 a2 b1 b2 : rvec) :
    det3 (vsub a2 a1) (vsub b2 b1) u <> 0 ->
    dot (snd pa) u = 0 -> on_plane a1 pa -> on_plane a2 pa -> snd pa <> (0, 0, 0) ->
    dot (snd pb) u = 0 -> on_plane b1 pb -> on_plane b2 pb -> snd pb <> (0, 0, 0) ->
    cross (snd pa) (snd pb) <> (0, 0, 0).
  Proof.
    intros Hd Hua Ha1 Ha2 Hna Hub Hb1 Hb2 Hnb Hz.
    set (ea := vsub a2 a1) in *. set (eb := vsub b2 b1) in *.
    assert (Pa : dot (snd pa) ea = 0).
    { change (pf pa a1 = 0) in Ha1. change (pf pa a2 = 0) in Ha2.
      rewrite (pf_shift pa a1 a2) in Ha2. fold ea in Ha2. lra. }
    assert (Pb : dot (snd pb) eb = 0).
    { change (pf pb b1 = 0) in Hb1. change (pf pb b2 = 0) in Hb2.
      rewrite (pf_shift pb b1 b2) in Hb2. fold eb in Hb2. lra. }
    (* Binet-Cauchy *)
    assert (BC : dot (cross (snd pa) (snd pb)) (cross ea eb) =
                 dot (snd pa) ea * dot (snd pb) eb - dot (snd pa) eb * dot (snd pb) ea).
    { destruct (snd pa) as [[n1 n2] n3], (snd pb) as [[m1 m2] m3], ea as [[e1 e2] e3], eb as [[f1 f2] f3].
      unfold dot, cross, vx, vy, vz; cbn. ring. }
    rewrite Hz, Pa in BC.
    assert (Z0 : dot ((0, 0, 0) : rvec) (cross ea eb) = 0).
    { destruct (cross ea eb) as [[x y] z]. unfold dot, vx, vy, vz; cbn. ring. }
    rewrite Z0 in BC.
    assert (P : dot (snd pa) eb * dot (snd pb) ea = 0) by lra.
    apply Rmult_integral in P. destruct P as [P|P].
    - apply Hna. apply (perp_three_zero ea eb u); assumption.
    - apply Hnb. apply (perp_three_zero ea eb u); assumption.
  Qed.

  Lemma centre_off_side : 0 < det3 (vsub q1 q0) (vsub c q1) u.
  Proof.
    destruct turns as (K0 & K1 & K2).
    assert (E : det3 (vsub q1 q0) (vsub c q1) u = A).
    { unfold A, p0, p1.
      destruct q0 as [[a0 b0] c0], q1 as [[a1 b1] c1], c as [[cx cy] cz], u as [[u1 u2] u3].
      unfold det3, dot, cross, vsub, vx, vy, vz; cbn. ring. }
    rewrite E. lra.
  Qed.

  Lemma indep_adjacent : det3 (vsub q1 q0) (vsub q2 q1) u <> 0.
  Proof. lra. Qed.

  Lemma indep_skip : det3 (vsub q1 q0) (vsub q3 q2) u <> 0.
  Proof.
    destruct turns as (K0 & K1 & K2).
    assert (E : det3 (vsub q1 q0) (vsub q3 q2) u = A + C - B).
    { rewrite S0. unfold A, B, C, p0, p1, p2.
      destruct q0 as [[a0 b0] c0], q1 as [[a1 b1] c1], q2 as [[a2 b2] c2], c as [[cx cy] cz], u as [[u1 u2] u3].
      unfold det3, dot, cross, vsub, vscale, vx, vy, vz; cbn. ring. }
    rewrite E. lra.
  Qed.
End Local.

(* ---------- classification of the pairs of listing positions ---------- *)

Definition sm (v k : nat) : nat := (v + k) mod 6.

Definition class_ok (l : list nat) (i j : nat) : bool :=
  let a := side_at l i in let b := side_at l j in
  let k1 := (2 * other_group i j)%nat in
  let m1 := side_at l k1 in let m2 := side_at l (k1 + 1) in
  if adjb_of_listing l i j then
    let v := vertex_of l (i, j) in
    Nat.ltb v 6 &&
    ((Nat.eqb a v && Nat.eqb b (sm v 1)) || (Nat.eqb b v && Nat.eqb a (sm v 1))) &&
    ((Nat.eqb m1 (sm v 2) && Nat.eqb m2 (sm v 5)) || (Nat.eqb m1 (sm v 5) && Nat.eqb m2 (sm v 2)))
  else
    existsb (fun v => ((Nat.eqb a (sm v 1) && Nat.eqb b (sm v 3)) || (Nat.eqb b (sm v 1) && Nat.eqb a (sm v 3))) &&
                      (Nat.eqb m1 (sm v 2) || Nat.eqb m2 (sm v 2))) (seq 0 6).

Lemma class_sweep :
  forallb (fun l => forallb (fun i => forallb (fun j =>
     if Nat.ltb i j && negb (Nat.eqb (i / 2) (j / 2)) then class_ok l i j else true)
     (seq 0 6)) (seq 0 6)) all_listings = true.
Proof. vm_compute. reflexivity. Qed.

Lemma class_spec (l : list nat) (i j : nat) :
  In l all_listings -> (i < j < 6)%nat -> (i / 2 <> j / 2)%nat ->
  let a := side_at l i in let b := side_at l j in
  let k1 := (2 * other_group i j)%nat in
  let m1 := side_at l k1 in let m2 := side_at l (k1 + 1) in
  if adjb_of_listing l i j then
    exists v, (v < 6)%nat /\ vertex_of l (i, j) = v /\
      ((a = v /\ b = sm v 1) \/ (b = v /\ a = sm v 1)) /\
      ((m1 = sm v 2 /\ m2 = sm v 5) \/ (m1 = sm v 5 /\ m2 = sm v 2))
  else
    exists v, (v < 6)%nat /\
      ((a = sm v 1 /\ b = sm v 3) \/ (b = sm v 1 /\ a = sm v 3)) /\
      (m1 = sm v 2 \/ m2 = sm v 2).
Proof.
  intros Hl Hij Hg. cbv zeta.
  pose proof (proj1 (forallb_forall _ _) class_sweep l Hl) as F. cbv beta in F.
  rewrite forallb_forall in F. specialize (F i ltac:(apply in_seq; lia)).
  rewrite forallb_forall in F. specialize (F j ltac:(apply in_seq; lia)).
  assert (E1 : Nat.ltb i j = true) by (apply Nat.ltb_lt; lia).
  assert (E2 : Nat.eqb (i / 2) (j / 2) = false) by (apply Nat.eqb_neq; exact Hg).
  rewrite E1, E2 in F. cbn [andb negb] in F. unfold class_ok in F.
  destruct (adjb_of_listing l i j).
  - exists (vertex_of l (i, j)).
    apply andb_true_iff in F. destruct F as [F F3]. apply andb_true_iff in F. destruct F as [F1 F2].
    apply Nat.ltb_lt in F1. split; [exact F1|]. split; [reflexivity|]. split.
    + apply orb_true_iff in F2. destruct F2 as [F2|F2]; apply andb_true_iff in F2; destruct F2 as [G1 G2];
        apply Nat.eqb_eq in G1; apply Nat.eqb_eq in G2; [left|right]; split; assumption.
    + apply orb_true_iff in F3. destruct F3 as [F3|F3]; apply andb_true_iff in F3; destruct F3 as [G1 G2];
        apply Nat.eqb_eq in G1; apply Nat.eqb_eq in G2; [left|right]; split; assumption.
  - apply existsb_exists in F. destruct F as (v & Hv & F). apply in_seq in Hv.
    exists v. split; [lia|].
    apply andb_true_iff in F. destruct F as [F2 F3]. split.
    + apply orb_true_iff in F2. destruct F2 as [F2|F2]; apply andb_true_iff in F2; destruct F2 as [G1 G2];
        apply Nat.eqb_eq in G1; apply Nat.eqb_eq in G2; [left|right]; split; assumption.
    + apply orb_true_iff in F3. destruct F3 as [F3|F3]; apply Nat.eqb_eq in F3; [left|right]; exact F3.
Qed.

(* ---------- the whole hexagon ---------- *)
Section Global.
  Context (c u : rvec) (w : nat -> rvec).
  Notation wv := (wv w).

  Hypothesis Hsym : forall k, wv (k + 3) = vsub (vscale 2 c) (wv k).
  (* strictly convex, counter-clockwise seen from the tip of u *)
  Hypothesis Hturn : forall k,
    0 < det3 (vsub (wv (k + 1)) (wv k)) (vsub (wv (k + 2)) (wv (k + 1))) u.

  Lemma wv_eq n m : (n mod 6 = m mod 6)%nat -> wv n = wv m.
  Proof. intros H. unfold ProofsMain.wv. rewrite H. reflexivity. Qed.

  Lemma wv_shift6 n : wv (n + 6) = wv n.
  Proof. apply wv_eq. replace (n + 6)%nat with (n + 1 * 6)%nat by lia. apply Nat.mod_add. lia. Qed.

  Lemma S1k k : wv (k + 4) = vsub (vscale 2 c) (wv (k + 1)).
  Proof. rewrite <- (Hsym (k + 1)). f_equal. lia. Qed.
  Lemma S2k k : wv (k + 5) = vsub (vscale 2 c) (wv (k + 2)).
  Proof. rewrite <- (Hsym (k + 2)). f_equal. lia. Qed.
  Lemma T1k k : 0 < det3 (vsub (wv (k + 2)) (wv (k + 1))) (vsub (wv (k + 3)) (wv (k + 2))) u.
  Proof.
    pose proof (Hturn (k + 1)) as H.
    replace (k + 1 + 1)%nat with (k + 2)%nat in H by lia.
    replace (k + 1 + 2)%nat with (k + 3)%nat in H by lia. exact H.
  Qed.
  Lemma T2k k : 0 < det3 (vsub (wv (k + 3)) (wv (k + 2))) (vsub (wv (k + 4)) (wv (k + 3))) u.
  Proof.
    pose proof (Hturn (k + 2)) as H.
    replace (k + 2 + 1)%nat with (k + 3)%nat in H by lia.
    replace (k + 2 + 2)%nat with (k + 4)%nat in H by lia. exact H.
  Qed.

  Definition through (p : rplane) (a b : rvec) : Prop :=
    dot (snd p) u = 0 /\ on_plane a p /\ on_plane b p.

  Lemma G_a k p : through p (wv (k + 1)) (wv (k + 2)) -> pf p c <> 0 -> 0 < pf p (wv k) * pf p c.
  Proof.
    intros (H0 & H1 & H2) Hc.
    exact (vertex_inside_a c u (wv k) (wv (k + 1)) (wv (k + 2)) (wv (k + 3)) (wv (k + 4)) (wv (k + 5))
             (Hsym k) (S1k k) (S2k k) (Hturn k) (T1k k) (T2k k) p H0 H1 H2 Hc).
  Qed.

  Lemma G_b k p : through p (wv (k + 4)) (wv (k + 5)) -> pf p c <> 0 -> 0 < pf p (wv k) * pf p c.
  Proof.
    intros (H0 & H1 & H2) Hc.
    exact (vertex_inside_b c u (wv k) (wv (k + 1)) (wv (k + 2)) (wv (k + 3)) (wv (k + 4)) (wv (k + 5))
             (Hsym k) (S1k k) (S2k k) (Hturn k) (T1k k) (T2k k) p H0 H1 H2 Hc).
  Qed.

  Lemma G_beyond k pa pb pm X :
    through pa (wv k) (wv (k + 1)) -> pf pa c <> 0 ->
    through pb (wv (k + 2)) (wv (k + 3)) -> pf pb c <> 0 ->
    through pm (wv (k + 1)) (wv (k + 2)) -> pf pm c <> 0 ->
    on_plane X pa -> on_plane X pb -> pf pm X * pf pm c < 0.
  Proof.
    intros (A0 & A1 & A2) Ac (B0 & B1 & B2) Bc (M0 & M1 & M2) Mc Xa Xb.
    exact (meeting_beyond c u (wv k) (wv (k + 1)) (wv (k + 2)) (wv (k + 3)) (wv (k + 4)) (wv (k + 5))
             (Hsym k) (S1k k) (S2k k) (Hturn k) (T1k k) (T2k k) pa pb pm X
             A0 A1 A2 Ac B0 B1 B2 Bc M0 M1 M2 Mc Xa Xb).
  Qed.

  Lemma G_opp k pa pb po X :
    through pa (wv k) (wv (k + 1)) -> pf pa c <> 0 ->
    through pb (wv (k + 2)) (wv (k + 3)) -> pf pb c <> 0 ->
    through po (wv (k + 4)) (wv (k + 5)) -> pf po c <> 0 ->
    on_plane X pa -> on_plane X pb -> 0 < pf po X * pf po c.
  Proof.
    intros (A0 & A1 & A2) Ac (B0 & B1 & B2) Bc (M0 & M1 & M2) Mc Xa Xb.
    exact (meeting_inside_opposite c u (wv k) (wv (k + 1)) (wv (k + 2)) (wv (k + 3)) (wv (k + 4)) (wv (k + 5))
             (Hsym k) (S1k k) (S2k k) (Hturn k) (T1k k) (T2k k) pa pb po X
             A0 A1 A2 Ac B0 B1 B2 Bc M0 M1 M2 Mc Xa Xb).
  Qed.

  Lemma G_skip k : det3 (vsub (wv (k + 1)) (wv k)) (vsub (wv (k + 3)) (wv (k + 2))) u <> 0.
  Proof.
    exact (indep_skip c u (wv k) (wv (k + 1)) (wv (k + 2)) (wv (k + 3)) (wv (k + 4)) (wv (k + 5))
             (Hsym k) (S1k k) (S2k k) (Hturn k) (T1k k) (T2k k)).
  Qed.

  Lemma G_centre k : 0 < det3 (vsub (wv (k + 1)) (wv k)) (vsub c (wv (k + 1))) u.
  Proof.
    exact (centre_off_side c u (wv k) (wv (k + 1)) (wv (k + 2)) (wv (k + 3)) (wv (k + 4)) (wv (k + 5))
             (Hsym k) (S1k k) (S2k k) (Hturn k) (T1k k) (T2k k)).
  Qed.

  (* a plane carrying side (v + k) mod 6 *)
  Lemma carries_sm v k p :
    carries u w p (sm v k) -> through p (wv (v + k + 5)) (wv (v + k)).
  Proof.
    intros (H1 & H2 & H3). unfold through. split; [exact H3|]. split.
    - replace (wv (v + k + 5)) with (wv (sm v k + 5)); [exact H2|].
      apply wv_eq. unfold sm. rewrite Nat.add_mod_idemp_l by lia. reflexivity.
    - replace (wv (v + k)) with (wv (sm v k)); [exact H1|].
      apply wv_eq. unfold sm. apply Nat.mod_mod. lia.
  Qed.

  Lemma through_swap p a b : through p a b -> through p b a.
  Proof. intros (H0 & H1 & H2). repeat split; assumption. Qed.
End Global.

(* ---------- the sign facts and the full statement ---------- *)
Section Full.
  Context (c u : rvec) (w : nat -> rvec) (l : list nat) (surfs : list rsurf).
  Notation wv := (wv w).
  Notation pl := (pl surfs).
  Notation sd := (sd surfs).

  Hypothesis Hl : In l all_listings.
  Hypothesis Hcarry : forall i, (i < 6)%nat -> carries u w (pl i) (side_at l i).
  (* the listed sense of each side plane is the side on which the centre lies *)
  Hypothesis Hsense : forall i, (i < 6)%nat -> sd i = planeSide RS c (pl i) /\ sd i <> 0%Z.
  Hypothesis Hsym : forall k, wv (k + 3) = vsub (vscale 2 c) (wv k).
  Hypothesis Hturn : forall k,
    0 < det3 (vsub (wv (k + 1)) (wv k)) (vsub (wv (k + 2)) (wv (k + 1))) u.

  Lemma pfc i : (i < 6)%nat -> pf (pl i) c <> 0.
  Proof.
    intros Hi. destruct (Hsense i Hi) as [E N]. apply planeSide_nonzero. rewrite <- E. exact N.
  Qed.

  Lemma nz i : (i < 6)%nat -> snd (pl i) <> (0, 0, 0).
  Proof. intros Hi. apply (pf_nonzero_normal (pl i) c). apply pfc. exact Hi. Qed.

  Lemma thr i v k : (i < 6)%nat -> side_at l i = sm v k ->
                    through u (pl i) (wv (v + k + 5)) (wv (v + k)).
  Proof. intros Hi E. apply carries_sm. rewrite <- E. apply Hcarry. exact Hi. Qed.

  Lemma inside_same i q : (i < 6)%nat -> 0 < pf (pl i) q * pf (pl i) c -> inside surfs i q.
  Proof.
    intros Hi H. unfold inside. destruct (Hsense i Hi) as [E _]. rewrite E.
    apply same_side. rewrite Rmult_comm. exact H.
  Qed.

  Lemma outside_opp i q : (i < 6)%nat -> pf (pl i) q * pf (pl i) c < 0 -> ~ inside surfs i q.
  Proof.
    intros Hi H. unfold inside. destruct (Hsense i Hi) as [E _]. rewrite E. intros Z.
    apply (opposite_side (pl i) q c H). symmetry. exact Z.
  Qed.

  Lemma cross_swap_nz (a b : rvec) : cross a b <> (0, 0, 0) -> cross b a <> (0, 0, 0).
  Proof.
    intros H Z. apply H. destruct a as [[a1 a2] a3], b as [[b1 b2] b3].
    unfold cross, vx, vy, vz in *; cbn in *. inversion Z as [[Z1 Z2 Z3]]. apply vec_eq; lra.
  Qed.

  Lemma det3_swap_nz (a b : rvec) : det3 a b u <> 0 -> det3 b a u <> 0.
  Proof. intros H. rewrite det3_swap12. lra. Qed.

  Theorem hex_planes_independent i j :
    (i < j < 6)%nat -> (i / 2 <> j / 2)%nat -> cross (snd (pl i)) (snd (pl j)) <> (0, 0, 0).
  Proof.
    intros Hij Hg.
    destruct (listing_groups l i j Hl ltac:(lia) ltac:(lia) Hg) as (_ & _ & _ & _ & G3).
    pose proof (class_spec l i j Hl Hij Hg) as Cl. cbv zeta in Cl.
    destruct (adjb_of_listing l i j).
    - destruct Cl as (v & Hv & _ & Hab & _).
      (* sides v = [wv (v+5), wv v] and v+1 = [wv v, wv (v+1)] *)
      assert (Hd : det3 (vsub (wv v) (wv (v + 5))) (vsub (wv (v + 1)) (wv v)) u <> 0).
      { pose proof (Hturn (v + 5)) as T.
        replace (wv (v + 5 + 1)) with (wv v) in T by (symmetry; replace (v + 5 + 1)%nat with (v + 6)%nat by lia; apply wv_shift6).
        replace (wv (v + 5 + 2)) with (wv (v + 1)) in T by (symmetry; replace (v + 5 + 2)%nat with (v + 1 + 6)%nat by lia; apply wv_shift6).
        lra. }
      destruct Hab as [[Ea Eb]|[Eb Ea]].
      + assert (Ea' : side_at l i = sm v 0) by (rewrite Ea; unfold sm; rewrite Nat.add_0_r, Nat.mod_small; lia).
        destruct (thr i v 0 ltac:(lia) Ea') as (A0 & A1 & A2). rewrite Nat.add_0_r in A1, A2.
        destruct (thr j v 1 ltac:(lia) Eb) as (B0 & B1 & B2).
        replace (wv (v + 1 + 5)) with (wv v) in B1 by (symmetry; replace (v + 1 + 5)%nat with (v + 6)%nat by lia; apply wv_shift6).
        exact (not_parallel u (pl i) (pl j) _ _ _ _ Hd A0 A1 A2 (nz i ltac:(lia)) B0 B1 B2 (nz j ltac:(lia))).
      + assert (Eb' : side_at l j = sm v 0) by (rewrite Eb; unfold sm; rewrite Nat.add_0_r, Nat.mod_small; lia).
        destruct (thr j v 0 ltac:(lia) Eb') as (A0 & A1 & A2). rewrite Nat.add_0_r in A1, A2.
        destruct (thr i v 1 ltac:(lia) Ea) as (B0 & B1 & B2).
        replace (wv (v + 1 + 5)) with (wv v) in B1 by (symmetry; replace (v + 1 + 5)%nat with (v + 6)%nat by lia; apply wv_shift6).
        apply cross_swap_nz.
        exact (not_parallel u (pl j) (pl i) _ _ _ _ Hd A0 A1 A2 (nz j ltac:(lia)) B0 B1 B2 (nz i ltac:(lia))).
    - destruct Cl as (v & Hv & Hab & _).
      pose proof (G_skip c u w Hsym Hturn v) as Hd.
      destruct Hab as [[Ea Eb]|[Eb Ea]].
      + destruct (thr i v 1 ltac:(lia) Ea) as (A0 & A1 & A2).
        replace (wv (v + 1 + 5)) with (wv v) in A1 by (symmetry; replace (v + 1 + 5)%nat with (v + 6)%nat by lia; apply wv_shift6).
        destruct (thr j v 3 ltac:(lia) Eb) as (B0 & B1 & B2).
        replace (wv (v + 3 + 5)) with (wv (v + 2)) in B1 by (symmetry; replace (v + 3 + 5)%nat with (v + 2 + 6)%nat by lia; apply wv_shift6).
        exact (not_parallel u (pl i) (pl j) _ _ _ _ Hd A0 A1 A2 (nz i ltac:(lia)) B0 B1 B2 (nz j ltac:(lia))).
      + destruct (thr j v 1 ltac:(lia) Eb) as (A0 & A1 & A2).
        replace (wv (v + 1 + 5)) with (wv v) in A1 by (symmetry; replace (v + 1 + 5)%nat with (v + 6)%nat by lia; apply wv_shift6).
        destruct (thr i v 3 ltac:(lia) Ea) as (B0 & B1 & B2).
        replace (wv (v + 3 + 5)) with (wv (v + 2)) in B1 by (symmetry; replace (v + 3 + 5)%nat with (v + 2 + 6)%nat by lia; apply wv_shift6).
        apply cross_swap_nz.
        exact (not_parallel u (pl j) (pl i) _ _ _ _ Hd A0 A1 A2 (nz j ltac:(lia)) B0 B1 B2 (nz i ltac:(lia))).
  Qed.

  Theorem hex_sign_facts i j :
    (i < j < 6)%nat -> (i / 2 <> j / 2)%nat ->
    let k1 := (2 * other_group i j)%nat in
    if adjb_of_listing l i j
    then inside surfs k1 (wv (vertex_of l (i, j))) /\ inside surfs (k1 + 1) (wv (vertex_of l (i, j)))
    else forall X, on_plane X (pl i) -> on_plane X (pl j) ->
                   ~ (inside surfs k1 X /\ inside surfs (k1 + 1) X).
  Proof.
    intros Hij Hg.
    destruct (listing_groups l i j Hl ltac:(lia) ltac:(lia) Hg) as (_ & _ & _ & _ & G3).
    pose proof (class_spec l i j Hl Hij Hg) as Cl. cbv zeta in Cl. cbv zeta.
    set (k1 := (2 * other_group i j)%nat) in *.
    destruct (adjb_of_listing l i j).
    - destruct Cl as (v & Hv & -> & _ & Hm).
      assert (Ha : forall k, (k < 6)%nat -> side_at l k = sm v 2 -> inside surfs k (wv v)).
      { intros k Hk E. apply inside_same; [exact Hk|].
        destruct (thr k v 2 Hk E) as (A0 & A1 & A2).
        replace (wv (v + 2 + 5)) with (wv (v + 1)) in A1 by (symmetry; replace (v + 2 + 5)%nat with (v + 1 + 6)%nat by lia; apply wv_shift6).
        apply (G_a c u w Hsym Hturn v (pl k)); [repeat split; assumption|apply pfc; exact Hk]. }
      assert (Hb : forall k, (k < 6)%nat -> side_at l k = sm v 5 -> inside surfs k (wv v)).
      { intros k Hk E. apply inside_same; [exact Hk|].
        destruct (thr k v 5 Hk E) as (A0 & A1 & A2).
        replace (wv (v + 5 + 5)) with (wv (v + 4)) in A1 by (symmetry; replace (v + 5 + 5)%nat with (v + 4 + 6)%nat by lia; apply wv_shift6).
        apply (G_b c u w Hsym Hturn v (pl k)); [repeat split; assumption|apply pfc; exact Hk]. }
      destruct Hm as [[E1 E2]|[E1 E2]]; split; auto with arith; try (apply Ha; [lia|assumption]); try (apply Hb; [lia|assumption]).
    - destruct Cl as (v & Hv & Hab & Hm). intros X Xi Xj [I1 I2].
      assert (Hbey : forall k, (k < 6)%nat -> side_at l k = sm v 2 -> ~ inside surfs k X).
      { intros k Hk E. apply outside_opp; [exact Hk|].
        destruct (thr k v 2 Hk E) as (M0 & M1 & M2).
        replace (wv (v + 2 + 5)) with (wv (v + 1)) in M1 by (symmetry; replace (v + 2 + 5)%nat with (v + 1 + 6)%nat by lia; apply wv_shift6).
        assert (Hgen : forall ia ib, (ia < 6)%nat -> (ib < 6)%nat -> side_at l ia = sm v 1 -> side_at l ib = sm v 3 ->
                                     on_plane X (pl ia) -> on_plane X (pl ib) -> pf (pl k) X * pf (pl k) c < 0).
        { intros ia ib Hia Hib Ea Eb Xa Xb.
          destruct (thr ia v 1 Hia Ea) as (A0 & A1 & A2).
          replace (wv (v + 1 + 5)) with (wv v) in A1 by (symmetry; replace (v + 1 + 5)%nat with (v + 6)%nat by lia; apply wv_shift6).
          destruct (thr ib v 3 Hib Eb) as (B0 & B1 & B2).
          replace (wv (v + 3 + 5)) with (wv (v + 2)) in B1 by (symmetry; replace (v + 3 + 5)%nat with (v + 2 + 6)%nat by lia; apply wv_shift6).
          apply (G_beyond c u w Hsym Hturn v (pl ia) (pl ib) (pl k) X);
            try (repeat split; assumption); try (apply pfc; assumption). }
        destruct Hab as [[Ea Eb]|[Eb Ea]].
        - apply (Hgen i j); try lia; assumption.
        - apply (Hgen j i); try lia; assumption. }
      destruct Hm as [E|E].
      + apply (Hbey k1 ltac:(lia) E). exact I1.
      + apply (Hbey (k1 + 1)%nat ltac:(lia) E). exact I2.
  Qed.

  (* the translation across side a (sheared along the axis or not) carries
     the plane listed for the opposite side onto the plane listed for side a *)
  Theorem across_carries_plane i i' (nrm q : rvec) :
    (i < 6)%nat -> (i' < 6)%nat -> side_at l i' = sm (side_at l i) 3 ->
    dot u nrm <> 0 ->
    on_plane q (pl i') -> on_plane (vadd q (proj_par u nrm (across c w (side_at l i)))) (pl i).
  Proof.
    intros Hi Hi' Eopp Hn Hq. set (a := side_at l i) in *.
    pose proof (listing_side_lt l i Hl Hi) as La. fold a in La.
    (* plane i through wv (a+5), wv a; plane i' through wv (a+2), wv (a+3) *)
    assert (Ea : side_at l i = sm a 0) by (fold a; unfold sm; rewrite Nat.add_0_r, Nat.mod_small; lia).
    destruct (thr i a 0 Hi Ea) as (A0 & A1 & A2). rewrite Nat.add_0_r in A1, A2.
    destruct (thr i' a 3 Hi' Eopp) as (B0 & B1 & B2).
    replace (wv (a + 3 + 5)) with (wv (a + 2)) in B1 by (symmetry; replace (a + 3 + 5)%nat with (a + 2 + 6)%nat by lia; apply wv_shift6).
    set (t := proj_par u nrm (across c w a)).
    destruct (proj_par_meaning u nrm (across c w a) Hn) as (_ & (s & Es) & _). fold t in Es.
    (* symmetry: wv (a+3) = 2c - wv a, wv (a+2) = 2c - wv (a+5) *)
    pose proof (Hsym a) as Sa.
    assert (Sb : wv (a + 2) = vsub (vscale 2 c) (wv (a + 5))).
    { pose proof (Hsym (a + 5)) as H. replace (wv (a + 5 + 3)) with (wv (a + 2)) in H; [exact H|].
      symmetry. replace (a + 5 + 3)%nat with (a + 2 + 6)%nat by lia. apply wv_shift6. }
    (* q on plane i': det (e', q - wv (a+2), u) = 0 *)
    pose proof (plane_through_det u (wv (a + 2)) (wv (a + 3)) q (snd (pl i')) (pl i') B0 B1 B2) as Pb.
    change (pf (pl i') q = 0) in Hq. rewrite Hq, Rmult_0_r in Pb.
    assert (Nb : 0 < dot (snd (pl i')) (snd (pl i'))) by (apply dot_self_pos; apply nz; exact Hi').
    assert (Db : det3 (vsub (wv (a + 3)) (wv (a + 2))) (vsub q (wv (a + 2))) u = 0) by nra.
    (* plane i at q + t, with m = c - wv a *)
    pose proof (plane_through_det u (wv (a + 5)) (wv a) (vadd q t) (vsub c (wv a)) (pl i) A0 A1 A2) as Pa.
    pose proof (G_centre c u w Hsym Hturn (a + 5)) as Gc.
    replace (wv (a + 5 + 1)) with (wv a) in Gc by (symmetry; replace (a + 5 + 1)%nat with (a + 6)%nat by lia; apply wv_shift6).
    assert (Da : det3 (vsub (wv a) (wv (a + 5))) (vsub (vadd q t) (wv (a + 5))) u = 0).
    { rewrite Es. unfold across. rewrite Sa, Sb in Db.
      match type of Db with ?L = 0 =>
        match goal with |- ?G = 0 => assert (E : G = - L) end end.
      { generalize (wv a) (wv (a + 5)). intros [[x0 y0] z0] [[x5 y5] z5].
        destruct c as [[cx cy] cz], q as [[q1 q2] q3], u as [[u1 u2] u3].
        unfold det3, dot, cross, vadd, vsub, vscale, vx, vy, vz; cbn. ring. }
      rewrite E, Db. ring. }
    rewrite Da, Rmult_0_l in Pa. unfold on_plane. change (pf (pl i) (vadd q t) = 0). nra.
  Qed.

  (* C07, both pieces together: hexLatticeBaseVectors on the planes of a
     strictly convex centrally symmetric hexagonal prism *)
  Hypothesis Hu : u <> (0, 0, 0).

  Theorem hex_base_vectors_full :
    (List.length surfs = 6%nat ->
       hexLatticeBaseVectors RS surfs =
       Ok [proj_par u u (across c w (side_at l 0)); proj_par u u (across c w (side_at l 2))]) /\
    (List.length surfs = 8%nat ->
     dot u (snd (pl 6)) <> 0 -> dot u (snd (pl 7)) <> 0 ->
     exists tau,
       hexLatticeBaseVectors RS surfs =
       Ok [proj_par u (snd (pl 6)) (across c w (side_at l 0));
           proj_par u (snd (pl 6)) (across c w (side_at l 2));
           vscale tau u] /\
       (forall lam, snd (pl 6) = vscale lam (snd (pl 7)) ->
          tau = dot (vsub (fst (pl 6)) (fst (pl 7))) (snd (pl 6)) / dot u (snd (pl 6)) /\
          forall q, on_plane q (pl 7) -> on_plane (vadd q (vscale tau u)) (pl 6))).
  Proof.
    apply (hex_base_vectors_partial c u w l surfs Hl Hu Hcarry hex_planes_independent hex_sign_facts Hsym).
  Qed.
End Full.

(* ---------- either orientation ---------- *)

Definition vneg (v : rvec) : rvec := vscale (-1) v.

Lemma proj_par_neg_axis (u nrm x : rvec) : dot u nrm <> 0 -> proj_par (vneg u) nrm x = proj_par u nrm x.
Proof.
  intros H. unfold proj_par, vneg. f_equal.
  assert (E : dot (vscale (-1) u) nrm = - dot u nrm).
  { destruct u as [[a b] c], nrm as [[d e] f]. unfold dot, vscale, vx, vy, vz; cbn. ring. }
  rewrite E. set (k := dot x nrm). set (D := dot u nrm) in *.
  destruct u as [[a b] c]. unfold vscale, vx, vy, vz; cbn. apply vec_eq; field; exact H.
Qed.

Lemma dot_vneg_r (a u : rvec) : dot a (vneg u) = - dot a u.
Proof. destruct a as [[a1 a2] a3], u as [[u1 u2] u3]. unfold vneg, dot, vscale, vx, vy, vz; cbn. ring. Qed.

Lemma dot_vneg_l (a u : rvec) : dot (vneg u) a = - dot u a.
Proof. destruct a as [[a1 a2] a3], u as [[u1 u2] u3]. unfold vneg, dot, vscale, vx, vy, vz; cbn. ring. Qed.

Lemma det3_vneg (a b u : rvec) : det3 a b (vneg u) = - det3 a b u.
Proof. unfold det3. apply dot_vneg_r. Qed.

(* the hexagon may turn either way about the axis *)
Theorem hex_base_vectors :
  forall (c u : rvec) (w : nat -> rvec) (l : list nat) (surfs : list rsurf),
  In l all_listings ->
  (forall i, (i < 6)%nat -> carries u w (pl surfs i) (side_at l i)) ->
  (forall i, (i < 6)%nat -> sd surfs i = planeSide RS c (pl surfs i) /\ sd surfs i <> 0%Z) ->
  (forall k, wv w (k + 3) = vsub (vscale 2 c) (wv w k)) ->
  ((forall k, 0 < det3 (vsub (wv w (k + 1)) (wv w k)) (vsub (wv w (k + 2)) (wv w (k + 1))) u) \/
   (forall k, det3 (vsub (wv w (k + 1)) (wv w k)) (vsub (wv w (k + 2)) (wv w (k + 1))) u < 0)) ->
  (List.length surfs = 6%nat ->
     hexLatticeBaseVectors RS surfs =
     Ok [proj_par u u (across c w (side_at l 0)); proj_par u u (across c w (side_at l 2))]) /\
  (List.length surfs = 8%nat ->
   dot u (snd (pl surfs 6)) <> 0 -> dot u (snd (pl surfs 7)) <> 0 ->
   exists tau,
     hexLatticeBaseVectors RS surfs =
     Ok [proj_par u (snd (pl surfs 6)) (across c w (side_at l 0));
         proj_par u (snd (pl surfs 6)) (across c w (side_at l 2));
         vscale tau u] /\
     (forall lam, snd (pl surfs 6) = vscale lam (snd (pl surfs 7)) ->
        tau = dot (vsub (fst (pl surfs 6)) (fst (pl surfs 7))) (snd (pl surfs 6)) / dot u (snd (pl surfs 6)) /\
        forall q, on_plane q (pl surfs 7) -> on_plane (vadd q (vscale tau u)) (pl surfs 6))).
Proof.
  intros c u w l surfs Hl Hcarry Hsense Hsym [Hturn|Hturn].
  - assert (Hu : u <> (0, 0, 0)).
    { intros Z. specialize (Hturn 0%nat). rewrite Z in Hturn.
      assert (E : forall a b, det3 a b (0, 0, 0) = 0).
      { intros a b. unfold det3. destruct (cross a b) as [[x y] z]. unfold dot, vx, vy, vz; cbn. ring. }
      rewrite E in Hturn. lra. }
    exact (hex_base_vectors_full c u w l surfs Hl Hcarry Hsense Hsym Hturn Hu).
  - assert (Hu : u <> (0, 0, 0)).
    { intros Z. specialize (Hturn 0%nat). rewrite Z in Hturn.
      assert (E : forall a b, det3 a b (0, 0, 0) = 0).
      { intros a b. unfold det3. destruct (cross a b) as [[x y] z]. unfold dot, vx, vy, vz; cbn. ring. }
      rewrite E in Hturn. lra. }
    assert (Hu' : vneg u <> (0, 0, 0)).
    { intros Z. apply Hu. destruct u as [[a b] c']. unfold vneg, vscale, vx, vy, vz in Z; cbn in Z.
      inversion Z as [[Z1 Z2 Z3]]. apply vec_eq; lra. }
    assert (Hcarry' : forall i, (i < 6)%nat -> carries (vneg u) w (pl surfs i) (side_at l i)).
    { intros i Hi. destruct (Hcarry i Hi) as (H1 & H2 & H3). repeat split; try assumption.
      rewrite dot_vneg_r, H3. ring. }
    assert (Hturn' : forall k, 0 < det3 (vsub (wv w (k + 1)) (wv w k)) (vsub (wv w (k + 2)) (wv w (k + 1))) (vneg u)).
    { intros k. rewrite det3_vneg. specialize (Hturn k). lra. }
    destruct (hex_base_vectors_full c (vneg u) w l surfs Hl Hcarry' Hsense Hsym Hturn' Hu') as [F6 F8].
    assert (Huu : dot u u <> 0) by (pose proof (dot_self_pos u Hu); lra).
    split.
    + intros L. rewrite (F6 L).
      assert (E : forall x, proj_par (vneg u) (vneg u) x = proj_par u u x).
      { intros x. rewrite proj_par_neg_axis.
        - unfold vneg. apply proj_par_scale_nrm; [lra|exact Huu].
        - rewrite dot_vneg_r. lra. }
      rewrite !E. reflexivity.
    + intros L H7 H8.
      destruct (F8 L) as (tau & E & Hlam).
      { rewrite dot_vneg_l. lra. }
      { rewrite dot_vneg_l. lra. }
      exists (- tau). split.
      * rewrite E. rewrite !(proj_par_neg_axis u _ _ H7).
        assert (Ev : vscale tau (vneg u) = vscale (- tau) u).
        { destruct u as [[a b] c']. unfold vneg, vscale, vx, vy, vz; cbn. apply vec_eq; ring. }
        rewrite Ev. reflexivity.
      * intros lam Hl7. destruct (Hlam lam Hl7) as [Et Hq]. split.
        -- rewrite Et, dot_vneg_l. field. exact H7.
        -- intros q Hq8. specialize (Hq q Hq8).
           assert (Ev : vscale tau (vneg u) = vscale (- tau) u).
           { destruct u as [[a b] c']. unfold vneg, vscale, vx, vy, vz; cbn. apply vec_eq; ring. }
           rewrite Ev in Hq. exact Hq.
Qed.

(* ---------- the regular hexagon (and its affine images) ---------- *)

(* vertices c +- e1, c +- (e1/2 + h e2), c +- (-e1/2 + h e2): the regular
   hexagon of circumradius |e1| when e1, e2 are perpendicular, |e2| = |e1| and
   h = sqrt 3 / 2 *)
Definition hexagon_of (c e1 e2 : rvec) (h : R) (k : nat) : rvec :=
  match k with
  | 0%nat => vadd c e1
  | 1%nat => vadd c (vadd (vscale (1 / 2) e1) (vscale h e2))
  | 2%nat => vadd c (vadd (vscale (- (1 / 2)) e1) (vscale h e2))
  | 3%nat => vadd c (vscale (-1) e1)
  | 4%nat => vadd c (vadd (vscale (- (1 / 2)) e1) (vscale (- h) e2))
  | _ => vadd c (vadd (vscale (1 / 2) e1) (vscale (- h) e2))
  end.

Lemma mod6_cases k : exists r, (r < 6)%nat /\ (k mod 6 = r)%nat /\
  ((k + 1) mod 6 = (r + 1) mod 6)%nat /\ ((k + 2) mod 6 = (r + 2) mod 6)%nat /\
  ((k + 3) mod 6 = (r + 3) mod 6)%nat.
Proof.
  exists (k mod 6)%nat. split; [apply Nat.mod_upper_bound; lia|]. split; [reflexivity|].
  rewrite !Nat.add_mod_idemp_l by lia. repeat split; reflexivity.
Qed.

Lemma hexagon_of_sym c e1 e2 h k :
  wv (hexagon_of c e1 e2 h) (k + 3) = vsub (vscale 2 c) (wv (hexagon_of c e1 e2 h) k).
Proof.
  unfold wv. destruct (mod6_cases k) as (r & Hr & E0 & _ & _ & E3). rewrite E0, E3. clear E0 E3.
  destruct c as [[c1 c2] c3], e1 as [[a1 a2] a3], e2 as [[b1 b2] b3].
  do 6 (destruct r as [|r]; [cbn; unfold vadd, vsub, vscale, vx, vy, vz; cbn; apply vec_eq; field|]). lia.
Qed.

Lemma det3_comb (e1 e2 u : rvec) (x y x' y' : R) :
  det3 (vadd (vscale x e1) (vscale y e2)) (vadd (vscale x' e1) (vscale y' e2)) u
  = (x * y' - y * x') * det3 e1 e2 u.
Proof.
  destruct e1 as [[a1 a2] a3], e2 as [[b1 b2] b3], u as [[u1 u2] u3].
  unfold det3, dot, cross, vadd, vscale, vx, vy, vz; cbn. ring.
Qed.

Lemma comb_diff (c e1 e2 : rvec) (x y x' y' : R) :
  vsub (vadd c (vadd (vscale x e1) (vscale y e2))) (vadd c (vadd (vscale x' e1) (vscale y' e2)))
  = vadd (vscale (x - x') e1) (vscale (y - y') e2).
Proof.
  destruct c as [[c1 c2] c3], e1 as [[a1 a2] a3], e2 as [[b1 b2] b3].
  unfold vadd, vsub, vscale, vx, vy, vz; cbn. apply vec_eq; ring.
Qed.

(* the same vertices written uniformly as c + x e1 + y e2 *)
Definition hex_xy (h : R) (k : nat) : R * R :=
  match k with
  | 0%nat => (1, 0) | 1%nat => (1 / 2, h) | 2%nat => (- (1 / 2), h)
  | 3%nat => (-1, 0) | 4%nat => (- (1 / 2), - h) | _ => (1 / 2, - h)
  end.

Lemma hexagon_of_xy c e1 e2 h k :
  hexagon_of c e1 e2 h k = vadd c (vadd (vscale (fst (hex_xy h k)) e1) (vscale (snd (hex_xy h k)) e2)).
Proof.
  destruct c as [[c1 c2] c3], e1 as [[a1 a2] a3], e2 as [[b1 b2] b3].
  do 5 (destruct k as [|k]; [cbn; unfold vadd, vscale, vx, vy, vz; cbn; apply vec_eq; ring|]).
  cbn. reflexivity.
Qed.

Lemma hexagon_of_turn c e1 e2 u h k :
  0 < h -> 0 < det3 e1 e2 u ->
  0 < det3 (vsub (wv (hexagon_of c e1 e2 h) (k + 1)) (wv (hexagon_of c e1 e2 h) k))
           (vsub (wv (hexagon_of c e1 e2 h) (k + 2)) (wv (hexagon_of c e1 e2 h) (k + 1))) u.
Proof.
  intros Hh Hd. unfold wv. destruct (mod6_cases k) as (r & Hr & E0 & E1 & E2 & _).
  rewrite E0, E1, E2. clear E0 E1 E2.
  rewrite !hexagon_of_xy, !comb_diff, det3_comb.
  do 6 (destruct r as [|r]; [cbn; nra|]). lia.
Qed.

(* a1 (resp. a2), as returned, carries the second-listed (fourth-listed) plane
   onto the first-listed (third-listed) one: the neighbouring element lies
   across the first-listed (third-listed) plane *)
Theorem base_vector_carries_opposite_plane :
  forall (c u : rvec) (w : nat -> rvec) (l : list nat) (surfs : list rsurf),
  In l all_listings ->
  (forall i, (i < 6)%nat -> carries u w (pl surfs i) (side_at l i)) ->
  (forall i, (i < 6)%nat -> sd surfs i = planeSide RS c (pl surfs i) /\ sd surfs i <> 0%Z) ->
  (forall k, wv w (k + 3) = vsub (vscale 2 c) (wv w k)) ->
  ((forall k, 0 < det3 (vsub (wv w (k + 1)) (wv w k)) (vsub (wv w (k + 2)) (wv w (k + 1))) u) \/
   (forall k, det3 (vsub (wv w (k + 1)) (wv w k)) (vsub (wv w (k + 2)) (wv w (k + 1))) u < 0)) ->
  forall (nrm q : rvec), dot u nrm <> 0 ->
    (on_plane q (pl surfs 1) -> on_plane (vadd q (proj_par u nrm (across c w (side_at l 0)))) (pl surfs 0)) /\
    (on_plane q (pl surfs 3) -> on_plane (vadd q (proj_par u nrm (across c w (side_at l 2)))) (pl surfs 2)).
Proof.
  intros c u w l surfs Hl Hcarry Hsense Hsym Hturn nrm q Hn.
  assert (Ho : side_at l 1 = sm (side_at l 0) 3 /\ side_at l 3 = sm (side_at l 2) 3).
  { apply admissible_iff in Hl. unfold admissible in Hl.
    apply andb_true_iff in Hl. destruct Hl as [Hl H3]. apply andb_true_iff in Hl. destruct Hl as [_ H1].
    apply Nat.eqb_eq in H1. apply Nat.eqb_eq in H3. split; assumption. }
  destruct Ho as [O1 O3].
  destruct Hturn as [Hturn|Hturn].
  - split; intros Hq.
    + exact (across_carries_plane c u w l surfs Hl Hcarry Hsense Hsym Hturn 0 1 nrm q ltac:(lia) ltac:(lia) O1 Hn Hq).
    + exact (across_carries_plane c u w l surfs Hl Hcarry Hsense Hsym Hturn 2 3 nrm q ltac:(lia) ltac:(lia) O3 Hn Hq).
  - assert (Hcarry' : forall i, (i < 6)%nat -> carries (vneg u) w (pl surfs i) (side_at l i)).
    { intros i Hi. destruct (Hcarry i Hi) as (H1 & H2 & H3). repeat split; try assumption.
      rewrite dot_vneg_r, H3. ring. }
    assert (Hturn' : forall k, 0 < det3 (vsub (wv w (k + 1)) (wv w k)) (vsub (wv w (k + 2)) (wv w (k + 1))) (vneg u)).
    { intros k. rewrite det3_vneg. specialize (Hturn k). lra. }
    assert (Hn' : dot (vneg u) nrm <> 0) by (rewrite dot_vneg_l; lra).
    split; intros Hq.
    + rewrite <- (proj_par_neg_axis u nrm _ Hn).
      exact (across_carries_plane c (vneg u) w l surfs Hl Hcarry' Hsense Hsym Hturn' 0 1 nrm q ltac:(lia) ltac:(lia) O1 Hn' Hq).
    + rewrite <- (proj_par_neg_axis u nrm _ Hn).
      exact (across_carries_plane c (vneg u) w l surfs Hl Hcarry' Hsense Hsym Hturn' 2 3 nrm q ltac:(lia) ltac:(lia) O3 Hn' Hq).
Qed.

(* pieces (i) packaged: the two hypotheses of hex_base_vectors_partial *)
Theorem hex_adjacency_geometry :
  forall (c u : rvec) (w : nat -> rvec) (l : list nat) (surfs : list rsurf),
  In l all_listings ->
  (forall i, (i < 6)%nat -> carries u w (pl surfs i) (side_at l i)) ->
  (forall i, (i < 6)%nat -> sd surfs i = planeSide RS c (pl surfs i) /\ sd surfs i <> 0%Z) ->
  (forall k, wv w (k + 3) = vsub (vscale 2 c) (wv w k)) ->
  (forall k, 0 < det3 (vsub (wv w (k + 1)) (wv w k)) (vsub (wv w (k + 2)) (wv w (k + 1))) u) ->
  forall i j, (i < j < 6)%nat -> (i / 2 <> j / 2)%nat ->
    cross (snd (pl surfs i)) (snd (pl surfs j)) <> (0, 0, 0) /\
    let k1 := (2 * other_group i j)%nat in
    if adjb_of_listing l i j
    then inside surfs k1 (wv w (vertex_of l (i, j))) /\ inside surfs (k1 + 1) (wv w (vertex_of l (i, j)))
    else forall X, on_plane X (pl surfs i) -> on_plane X (pl surfs j) ->
                   ~ (inside surfs k1 X /\ inside surfs (k1 + 1) X).
Proof.
  intros c u w l surfs Hl Hc Hs Hsym Ht i j Hij Hg. split.
  - exact (hex_planes_independent c u w l surfs Hl Hc Hs Hsym Ht i j Hij Hg).
  - exact (hex_sign_facts c u w l surfs Hl Hc Hs Hsym Ht i j Hij Hg).
Qed.

Theorem regular_hexagon_in_family : forall (c e1 e2 u : rvec) (h : R),
  0 < h -> 0 < det3 e1 e2 u ->
  (forall k, wv (hexagon_of c e1 e2 h) (k + 3) = vsub (vscale 2 c) (wv (hexagon_of c e1 e2 h) k)) /\
  (forall k, 0 < det3 (vsub (wv (hexagon_of c e1 e2 h) (k + 1)) (wv (hexagon_of c e1 e2 h) k))
                      (vsub (wv (hexagon_of c e1 e2 h) (k + 2)) (wv (hexagon_of c e1 e2 h) (k + 1))) u).
Proof.
  intros c e1 e2 u h Hh Hd. split; intros k; [apply hexagon_of_sym|apply hexagon_of_turn; assumption].
Qed.
