(* C07 — an admissible hexagon closed by a seventh or eighth plane that is
   parallel to the axis: ZeroDivisionError (the case the ties show as
   fault parallel_caps_axis). *)
From Coq Require Import List Arith ZArith Bool Reals Lra Lia.
From T4V Require Import Base.Scalar C07.Model C07.ProofsAlgebra C07.ProofsComb C07.ProofsMain C07.ProofsGeom.
Import ListNotations.
Open Scope R_scope.

(* the traversal when every visit raises the same exception: it raises at the
   first vertex, provided there is a first vertex *)
Lemma hex_walk_visit_error {A B C} (R : A -> B -> Prop) (ca : adjacency A) (ab : adjacency B)
      (visit : A -> res C) (e : err) (first : nat) (k : B) (ks : list B) :
  Radj R ca ab -> (forall a b, R a b -> visit a = Err e) ->
  hex_walk ab (fun b => Ok b) first = Ok (k :: ks) ->
  hex_walk ca visit first = Err e.
Proof.
  intros Hr Hv Hab. unfold hex_walk in *. cbn [walk] in *.
  set (seen1 := if Nat.eqb (List.length [first]) 6 then remove_nat first [first] else [first]) in *.
  pose proof (find_next_rel R (fun a b => adj_lookup ca (sorted_key a b))
                (fun a b => adj_lookup ab (sorted_key a b))
                (fun a b => adj_lookup_rel R ca ab (sorted_key a b) Hr) seen1 first (seq 0 6)) as H.
  destruct (find_next (fun a b => adj_lookup ca (sorted_key a b)) seen1 first (seq 0 6)) as [[i a]|],
           (find_next (fun a b => adj_lookup ab (sorted_key a b)) seen1 first (seq 0 6)) as [[j b]|];
    try contradiction.
  - destruct H as [_ Hab']. rewrite (Hv a b Hab'). reflexivity.
  - discriminate.
Qed.

Lemma dot_vscale_l' (k : R) (a b : rvec) : dot (vscale k a) b = k * dot a b.
Proof. destruct a as [[a1 a2] a3], b as [[b1 b2] b3]. unfold dot, vscale, vx, vy, vz; cbn. ring. Qed.

Lemma project_zero_den (pt dir : rvec) (p : rplane) :
  dot dir (snd p) = 0 -> projectPointOnPlane RS pt p dir = Err EZeroDiv.
Proof.
  intros H. destruct p as [pp n]. cbn [snd] in H. unfold projectPointOnPlane.
  change (@scal R RS dir n) with (dot dir n). rewrite H. cbn [seqb RS s0].
  assert (E : Reqb 0 0 = true) by (apply Reqb_true; reflexivity). rewrite E. reflexivity.
Qed.

Section Caps.
  Context (c u : rvec) (w : nat -> rvec) (l : list nat) (surfs : list rsurf).
  Hypothesis Hl : In l all_listings.
  Hypothesis Hcarry : forall i, (i < 6)%nat -> carries u w (pl surfs i) (side_at l i).
  Hypothesis Hsense : forall i, (i < 6)%nat -> sd surfs i = planeSide RS c (pl surfs i) /\ sd surfs i <> 0%Z.
  Hypothesis Hsym : forall k, wv w (k + 3) = vsub (vscale 2 c) (wv w k).
  Hypothesis Hturn : forall k,
    0 < det3 (vsub (wv w (k + 1)) (wv w k)) (vsub (wv w (k + 2)) (wv w (k + 1))) u.
  Hypothesis Hu : u <> (0, 0, 0).
  Hypothesis L8 : List.length surfs = 8%nat.

  Let Hindep := hex_planes_independent c u w l surfs Hl Hcarry Hsense Hsym Hturn.
  Let Hsides := hex_sign_facts c u w l surfs Hl Hcarry Hsense Hsym Hturn.

  (* the seventh plane parallel to the axis: hexVertices fails at its first vertex *)
  Lemma vertices_top_parallel first :
    (first < 6)%nat -> dot u (snd (pl surfs 6)) = 0 -> hexVertices RS surfs first = Err EZeroDiv.
  Proof.
    intros Hf H7.
    destruct (sort_and_vertices_all_orders l first Hl Hf) as (ks & Eabs & _ & Hm).
    unfold hex_vertices_abs, bind in Eabs.
    destruct (sort_sides_abs (adjb_of_listing l)) as [ab|] eqn:Eab; [|discriminate].
    destruct (sort_rel u w l surfs Hl Hu Hcarry Hindep Hsides (or_intror L8) ab Eab)
      as (ca & d0 & pt0 & s0 & Eca & Hr & Efs & Hs0 & Hd0).
    unfold hexVertices. unfold rsurf in *. rewrite L8. cbn [Nat.eqb orb negb Nat.sub].
    assert (G2 : negb (Nat.ltb first 6) = false) by (apply negb_false_iff; apply Nat.ltb_lt; exact Hf).
    rewrite G2, Eca, Efs.
    assert (Hks : exists k ks', ks = k :: ks').
    { destruct ks as [|k ks']; [|exists k, ks'; reflexivity].
      destruct Hm as [Hm|Hm]; discriminate Hm. }
    destruct Hks as (k & ks' & ->).
    rewrite (hex_walk_visit_error (Rline u w l) ca ab _ EZeroDiv first k ks' Hr); [reflexivity| |exact Eabs].
    intros [pt d] b (t & s & Hs & _ & Hd). cbn [fst snd] in *. apply project_zero_den.
    change (fst (nth_surf RS surfs 6)) with (pl surfs 6). rewrite Hd, dot_vscale_l', H7. ring.
  Qed.

  Theorem caps_parallel_left :
    dot u (snd (pl surfs 6)) = 0 \/ dot u (snd (pl surfs 7)) = 0 ->
    hexLatticeBaseVectors RS surfs = Err EZeroDiv.
  Proof.
    intros H. destruct (Req_dec (dot u (snd (pl surfs 6))) 0) as [H7|H7].
    - unfold hexLatticeBaseVectors. rewrite (vertices_top_parallel 0 ltac:(lia) H7). reflexivity.
    - destruct H as [H|H8]; [contradiction|].
      destruct (sort_and_vertices_all_orders l 0 Hl ltac:(lia)) as (ks0 & E0 & _ & _).
      destruct (sort_and_vertices_all_orders l 2 Hl ltac:(lia)) as (ks2 & E2 & _ & _).
      assert (Htop : dot u (top_nrm u surfs) <> 0).
      { unfold top_nrm. unfold rsurf in *. rewrite L8. exact H7. }
      destruct (hex_vertices_rel u w l surfs Hl Hu Hcarry Hindep Hsides (or_intror L8) Htop 0 ks0 ltac:(lia) E0)
        as (top0 & d0 & s0 & V0 & Hs0 & Hd0 & _).
      destruct (hex_vertices_rel u w l surfs Hl Hu Hcarry Hindep Hsides (or_intror L8) Htop 2 ks2 ltac:(lia) E2)
        as (top2 & d2 & s2 & V2 & _).
      unfold hexLatticeBaseVectors. rewrite V0, V2. unfold rsurf in *. rewrite L8. cbn [Nat.eqb Nat.sub].
      rewrite project_zero_den; [reflexivity|].
      change (fst (nth_surf RS surfs 7)) with (pl surfs 7). rewrite Hd0, dot_vscale_l', H8. ring.
  Qed.
End Caps.

(* either sense of rotation *)
Theorem caps_parallel :
  forall (c u : rvec) (w : nat -> rvec) (l : list nat) (surfs : list rsurf),
  In l all_listings ->
  (forall i, (i < 6)%nat -> carries u w (pl surfs i) (side_at l i)) ->
  (forall i, (i < 6)%nat -> sd surfs i = planeSide RS c (pl surfs i) /\ sd surfs i <> 0%Z) ->
  (forall k, wv w (k + 3) = vsub (vscale 2 c) (wv w k)) ->
  ((forall k, 0 < det3 (vsub (wv w (k + 1)) (wv w k)) (vsub (wv w (k + 2)) (wv w (k + 1))) u) \/
   (forall k, det3 (vsub (wv w (k + 1)) (wv w k)) (vsub (wv w (k + 2)) (wv w (k + 1))) u < 0)) ->
  List.length surfs = 8%nat ->
  dot u (snd (pl surfs 6)) = 0 \/ dot u (snd (pl surfs 7)) = 0 ->
  hexLatticeBaseVectors RS surfs = Err EZeroDiv.
Proof.
  intros c u w l surfs Hl Hcarry Hsense Hsym Hturn L8 Hpar.
  assert (Hu : u <> (0, 0, 0)).
  { intros Z. assert (E : forall a b, det3 a b (0, 0, 0) = 0).
    { intros a b. unfold det3. destruct (cross a b) as [[x y] z]. unfold dot, vx, vy, vz; cbn. ring. }
    destruct Hturn as [Ht|Ht]; specialize (Ht 0%nat); rewrite Z, E in Ht; lra. }
  destruct Hturn as [Hturn|Hturn].
  - exact (caps_parallel_left c u w l surfs Hl Hcarry Hsense Hsym Hturn Hu L8 Hpar).
  - assert (Hu' : vneg u <> (0, 0, 0)).
    { intros Z. apply Hu. destruct u as [[a b] c']. unfold vneg, vscale, vx, vy, vz in Z; cbn in Z.
      inversion Z as [[Z1 Z2 Z3]]. apply vec_eq; lra. }
    assert (Hcarry' : forall i, (i < 6)%nat -> carries (vneg u) w (pl surfs i) (side_at l i)).
    { intros i Hi. destruct (Hcarry i Hi) as (H1 & H2 & H3). repeat split; try assumption.
      rewrite dot_vneg_r, H3. ring. }
    assert (Hturn' : forall k, 0 < det3 (vsub (wv w (k + 1)) (wv w k)) (vsub (wv w (k + 2)) (wv w (k + 1))) (vneg u)).
    { intros k. rewrite det3_vneg. specialize (Hturn k). lra. }
    apply (caps_parallel_left c (vneg u) w l surfs Hl Hcarry' Hsense Hsym Hturn' Hu' L8).
    rewrite !dot_vneg_l. destruct Hpar as [H|H]; [left|right]; rewrite H; ring.
Qed.
