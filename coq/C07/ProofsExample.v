(* C07 — a concrete prism satisfying every hypothesis of hex_base_vectors
   (non-vacuity): an irregular centrally symmetric hexagon, eight planes, mixed
   normal senses, listing order 0 3 1 4 2 5. *)
From Coq Require Import List Arith ZArith Bool Reals Lra Lia.
From T4V Require Import Base.Scalar C07.Model C07.ProofsAlgebra C07.ProofsComb C07.ProofsMain C07.ProofsGeom.
Import ListNotations.
Open Scope R_scope.

Definition ex_c : rvec := (0, 0, 0).
Definition ex_u : rvec := (0, 0, 1).
Definition ex_w : nat -> rvec := hexagon_of ex_c (2, 0, 0) (0, 1, 0) 1.
Definition ex_l : list nat := [0; 3; 1; 4; 2; 5]%nat.

(* vertices (2,0) (1,1) (-1,1) (-2,0) (-1,-1) (1,-1) in the plane z = 0 *)
Definition ex_surfs : list rsurf :=
  [ (((2, 0, 0), (1, -1, 0)), (-1)%Z);      (* side 0 = [w5, w0], outward normal *)
    (((-2, 0, 5), (1, -1, 0)), 1%Z);        (* side 3, inward normal, another point of the plane *)
    (((1, 1, 0), (2, 2, 0)), (-1)%Z);       (* side 1 = [w0, w1] *)
    (((-1, -1, 0), (-1, -1, 0)), (-1)%Z);   (* side 4 *)
    (((0, 1, -2), (0, -1, 0)), 1%Z);        (* side 2, inward normal *)
    (((1, -1, 0), (0, -1, 0)), (-1)%Z);     (* side 5 *)
    (((0, 0, 3), (0, 0, 1)), (-1)%Z);       (* top z = 3 *)
    (((7, 0, -1), (0, 0, 2)), 1%Z) ].       (* bottom z = -1 *)

Lemma ex_carries i : (i < 6)%nat -> carries ex_u ex_w (pl ex_surfs i) (side_at ex_l i).
Proof.
  intros Hi. do 6 (destruct i as [|i]; [
    unfold carries, on_plane, pl, nth_surf, wv, ex_w, ex_u, ex_c; cbn;
    unfold dot, vsub, vadd, vscale, vx, vy, vz; cbn; repeat split; lra|]). lia.
Qed.

Lemma ex_sense i : (i < 6)%nat ->
  sd ex_surfs i = planeSide RS ex_c (pl ex_surfs i) /\ sd ex_surfs i <> 0%Z.
Proof.
  intros Hi. do 6 (destruct i as [|i]; [
    split; [|cbn; discriminate];
    rewrite planeSide_pf; unfold sd, pl, nth_surf, pf, ex_c; cbn;
    unfold dot, vsub, vx, vy, vz; cbn;
    match goal with
    | |- _ = (if Rltb 0 ?x then _ else _) =>
        destruct (Rltb 0 x) eqn:E1; [apply Rltb_true in E1|apply Rltb_false in E1];
        destruct (Rltb x 0) eqn:E2; [apply Rltb_true in E2|apply Rltb_false in E2| |];
        try (apply Rltb_true in E2); try (apply Rltb_false in E2);
        first [reflexivity | exfalso; lra]
    end|]). lia.
Qed.

Theorem example_base_vectors :
  hexLatticeBaseVectors RS ex_surfs = Ok [(3, -1, 0); (3, 1, 0); (0, 0, 4)].
Proof.
  assert (Hl : In ex_l all_listings) by (apply admissible_iff; vm_compute; reflexivity).
  destruct (hex_base_vectors ex_c ex_u ex_w ex_l ex_surfs Hl ex_carries ex_sense) as [_ F8].
  - intros k. apply hexagon_of_sym.
  - left. intros k. apply hexagon_of_turn; [lra|].
    unfold det3, dot, cross, ex_u, vx, vy, vz; cbn. lra.
  - assert (H7 : dot ex_u (snd (pl ex_surfs 6)) <> 0).
    { unfold pl, nth_surf, ex_u, dot, vx, vy, vz; cbn. lra. }
    assert (H8 : dot ex_u (snd (pl ex_surfs 7)) <> 0).
    { unfold pl, nth_surf, ex_u, dot, vx, vy, vz; cbn. lra. }
    destruct (F8 eq_refl H7 H8) as (tau & E & Hlam).
    destruct (Hlam (1 / 2)) as [Et _].
    { unfold pl, nth_surf, vscale, vx, vy, vz; cbn. apply vec_eq; lra. }
    rewrite E. f_equal.
    assert (P : forall x, dot x (snd (pl ex_surfs 6)) = 0 -> proj_par ex_u (snd (pl ex_surfs 6)) x = x).
    { intros x Hx. apply (proj_par_meaning ex_u (snd (pl ex_surfs 6)) x H7). exact Hx. }
    rewrite !P.
    + f_equal; [|f_equal; [|f_equal]].
      * unfold across, wv, ex_w, ex_l, side_at, ex_c; cbn.
        unfold vadd, vsub, vscale, vx, vy, vz; cbn. apply vec_eq; lra.
      * unfold across, wv, ex_w, ex_l, side_at, ex_c; cbn.
        unfold vadd, vsub, vscale, vx, vy, vz; cbn. apply vec_eq; lra.
      * rewrite Et. unfold pl, nth_surf, ex_u, dot, vsub, vscale, vx, vy, vz; cbn. apply vec_eq; field.
    + unfold across, wv, ex_w, ex_l, side_at, ex_c, pl, nth_surf; cbn.
      unfold dot, vadd, vsub, vscale, vx, vy, vz; cbn. lra.
    + unfold across, wv, ex_w, ex_l, side_at, ex_c, pl, nth_surf; cbn.
      unfold dot, vadd, vsub, vscale, vx, vy, vz; cbn. lra.
Qed.

Theorem example_all :
  (forall i, (i < 6)%nat -> carries ex_u ex_w (pl ex_surfs i) (side_at ex_l i)) /\
  (forall i, (i < 6)%nat -> sd ex_surfs i = planeSide RS ex_c (pl ex_surfs i) /\ sd ex_surfs i <> 0%Z) /\
  hexLatticeBaseVectors RS ex_surfs = Ok [(3, -1, 0); (3, 1, 0); (0, 0, 4)].
Proof. split; [exact ex_carries|split; [exact ex_sense|exact example_base_vectors]]. Qed.
