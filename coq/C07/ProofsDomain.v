(* C07 — develop_lattice's test of the FILL ranges and latticeVector. *)
From Coq Require Import List Arith ZArith Bool Reals Lra Lia.
From T4V Require Import Base.Scalar C07.Model C07.ProofsAlgebra.
Import ListNotations.
Open Scope nat_scope.

(* the [for] loop over the missing bounds never runs: whenever the two lengths
   differ and the loop is reached, n_missing_bounds is negative *)
Theorem domain_check_spec (nvec : nat) (bounds : list (Z * Z)) :
  nvec <= List.length bounds ->
  domain_check nvec bounds =
  if Nat.eqb nvec (List.length bounds) || Nat.eqb nvec (bounds_dims bounds) then Ok tt else Err ELattice.
Proof.
  intros Hle. unfold domain_check.
  destruct (Nat.eqb nvec (List.length bounds)) eqn:E1; [reflexivity|].
  cbn [orb]. destruct (Nat.eqb nvec (bounds_dims bounds)) eqn:E2; [|reflexivity].
  cbn [negb]. apply Nat.eqb_neq in E1.
  replace (Z.to_nat (Z.of_nat nvec - Z.of_nat (List.length bounds))) with 0 by lia.
  reflexivity.
Qed.

Lemma bounds_dims_le bounds : bounds_dims bounds <= List.length bounds.
Proof.
  unfold bounds_dims. induction bounds as [|x r IH]; [apply le_n|].
  cbn [filter]. destruct (nontrivial x); cbn [List.length]; lia.
Qed.

(* MCNP: a lattice without a base vector in some direction has the one-element
   range 0:0 (lo = hi) there; every other range is free.  Guarded statement:
   accepted when, besides, all the leading ranges are non-trivial. *)
Theorem domain_check_guarded (nvec : nat) (bounds : list (Z * Z)) :
  nvec <= List.length bounds ->
  forallb nontrivial (firstn nvec bounds) = true ->
  forallb (fun r => negb (nontrivial r)) (skipn nvec bounds) = true ->
  domain_check nvec bounds = Ok tt.
Proof.
  intros Hle H1 H2. rewrite domain_check_spec by exact Hle.
  assert (E : bounds_dims bounds = nvec).
  { unfold bounds_dims. rewrite <- (firstn_skipn nvec bounds) at 1.
    rewrite filter_app, app_length.
    assert (F1 : filter nontrivial (firstn nvec bounds) = firstn nvec bounds).
    { clear H2. induction (firstn nvec bounds) as [|x r IH]; [reflexivity|].
      cbn in *. apply andb_true_iff in H1. destruct H1 as [Hx Hr]. rewrite Hx, (IH Hr). reflexivity. }
    assert (F2 : filter nontrivial (skipn nvec bounds) = []).
    { clear H1. induction (skipn nvec bounds) as [|x r IH]; [reflexivity|].
      cbn in *. apply andb_true_iff in H2. destruct H2 as [Hx Hr].
      apply negb_true_iff in Hx. rewrite Hx. exact (IH Hr). }
    rewrite F1, F2, firstn_length. cbn. lia. }
  rewrite E, Nat.eqb_refl, orb_true_r. reflexivity.
Qed.

(* the defect behind the finding six_planes_trivial_range: the full statement
   (trailing ranges trivial => accepted) is false of the code *)
Theorem six_planes_trivial_range_refuted :
  exists bounds : list (Z * Z),
    List.length bounds = 3 /\
    forallb (fun r => negb (nontrivial r)) (skipn 2 bounds) = true /\
    domain_check 2 bounds = Err ELattice.
Proof. exists [(-1, 1); (0, 0); (0, 0)]%Z. repeat split. Qed.

(* and the converse defect: a range in a direction without base vector is
   accepted as soon as the count of non-trivial ranges fits *)
Theorem axial_range_without_vector_accepted :
  domain_check 2 [(-1, 1); (0, 0); (-1, 1)]%Z = Ok tt.
Proof. reflexivity. Qed.

(* ---------- latticeVector ---------- *)
Open Scope R_scope.

(* element (i, j, k) of a lattice with three base vectors is translated by
   i a1 + j a2 + k a3; with two base vectors the third index is ignored *)
Theorem lattice_vector_three (a1 a2 a3 : rvec) (i j k : Z) :
  latticeVector RS [a1; a2; a3] [i; j; k] =
  vadd (vadd (vscale (IZR i) a1) (vscale (IZR j) a2)) (vscale (IZR k) a3).
Proof.
  unfold latticeVector, vsum_list, lattice_terms. cbn [fold_left sofZ RS sadd vzero s0].
  destruct a1 as [[x1 y1] z1], a2 as [[x2 y2] z2], a3 as [[x3 y3] z3].
  unfold rescale, vadd, vscale, vx, vy, vz; cbn. apply vec_eq; ring.
Qed.

Theorem lattice_vector_two (a1 a2 : rvec) (i j k : Z) :
  latticeVector RS [a1; a2] [i; j; k] = vadd (vscale (IZR i) a1) (vscale (IZR j) a2).
Proof.
  unfold latticeVector, vsum_list, lattice_terms. cbn [fold_left sofZ RS sadd vzero s0].
  destruct a1 as [[x1 y1] z1], a2 as [[x2 y2] z2].
  unfold rescale, vadd, vscale, vx, vy, vz; cbn. apply vec_eq; ring.
Qed.
