(* C07 — develop_lattice's test of the FILL ranges and latticeVector. *)
From Coq Require Import List Arith ZArith Bool Reals Lra Lia.
From T4V Require Import Base.Scalar C07.Model C07.ProofsAlgebra.
Import ListNotations.
Open Scope nat_scope.

(* develop_lattice accepts the FILL ranges exactly when there is one range per
   base vector and every range beyond them is lo = hi — MCNP's rule: a lattice
   without base vector in a direction has the one-element range there, every
   other range is free (one-point ranges included) *)
Theorem domain_check_spec (nvec : nat) (bounds : list (Z * Z)) :
  domain_check nvec bounds = Ok tt <->
  nvec <= List.length bounds /\ Forall (fun r => fst r = snd r) (skipn nvec bounds).
Proof.
  unfold domain_check. destruct (Nat.ltb (List.length bounds) nvec) eqn:E1.
  - apply Nat.ltb_lt in E1. split; [discriminate|]. intros [H _]. lia.
  - apply Nat.ltb_ge in E1.
    destruct (forallb (fun r => negb (nontrivial r)) (skipn nvec bounds)) eqn:E2.
    + split; [|reflexivity]. intros _. split; [exact E1|].
      apply Forall_forall. intros r Hr. rewrite forallb_forall in E2. specialize (E2 r Hr).
      unfold nontrivial in E2. rewrite negb_involutive in E2. apply Z.eqb_eq. exact E2.
    + split; [discriminate|]. intros [_ H]. exfalso.
      assert (F : forallb (fun r => negb (nontrivial r)) (skipn nvec bounds) = true).
      { apply forallb_forall. intros r Hr. rewrite Forall_forall in H. specialize (H r Hr).
        unfold nontrivial. rewrite negb_involutive. apply Z.eqb_eq. exact H. }
      rewrite F in E2. discriminate.
Qed.

(* a rejected FILL is rejected with LatticeError *)
Theorem domain_check_error (nvec : nat) (bounds : list (Z * Z)) :
  domain_check nvec bounds = Ok tt \/ domain_check nvec bounds = Err ELattice.
Proof.
  unfold domain_check. destruct (Nat.ltb (List.length bounds) nvec); [right; reflexivity|].
  destruct (forallb _ _); [left|right]; reflexivity.
Qed.

(* ---------- latticeVector ---------- *)
Open Scope R_scope.

(* element (i, j, k) of a lattice with three base vectors is translated by
   i a1 + j a2 + k a3; with two base vectors the third index is ignored *)
Theorem lattice_vector_three (a1 a2 a3 : rvec) (i j k : Z) :
  latticeVector RS [a1; a2; a3] [i; j; k] =
  vadd (vadd (vscale (IZR i) a1) (vscale (IZR j) a2)) (vscale (IZR k) a3).
Proof.
  unfold latticeVector, vsum_list, lattice_terms. cbn [fold_left sofZ RS sadd vzero s0].
  destruct a1 as [[x1 y1] z1], a2 as [[x2 y2] z2], a3 as [[x3 y3] z3].
  unfold rescale, vadd, vscale, vx, vy, vz; cbn. apply vec_eq; ring.
Qed.

Theorem lattice_vector_two (a1 a2 : rvec) (i j k : Z) :
  latticeVector RS [a1; a2] [i; j; k] = vadd (vscale (IZR i) a1) (vscale (IZR j) a2).
Proof.
  unfold latticeVector, vsum_list, lattice_terms. cbn [fold_left sofZ RS sadd vzero s0].
  destruct a1 as [[x1 y1] z1], a2 as [[x2 y2] z2].
  unfold rescale, vadd, vscale, vx, vy, vz; cbn. apply vec_eq; ring.
Qed.

Theorem lattice_vector : forall (a1 a2 a3 : rvec) (i j k : Z),
  latticeVector RS [a1; a2; a3] [i; j; k] =
  vadd (vadd (vscale (IZR i) a1) (vscale (IZR j) a2)) (vscale (IZR k) a3) /\
  latticeVector RS [a1; a2] [i; j; k] = vadd (vscale (IZR i) a1) (vscale (IZR j) a2).
Proof. intros. split; [apply lattice_vector_three|apply lattice_vector_two]. Qed.
