(* C07 — comparison function of tie:develophex: the recorded calls of
   CellConversion.develop_lattice for LAT=2 cells (C06's run-time wrapper and
   case format) against develop_lattice_hex_gen at binary64. *)
From Coq Require Import List ZArith Bool PrimFloat.
From T4V Require Import Base.Scalar Base.Cases.
From T4V Require C06.Model C06.Exec.
From T4V Require Import C07.Model C07.ModelDevelop.
Import ListNotations.

Module E6 := C06.Exec.

Definition check_develop_hex (c : E6.develop_case) : bool :=
  let '(ids, dic, (u, fill, ftr, trcl), expected) := c in
  match develop_lattice_hex_gen FS (E6.dic_of dic) ids (M6.mkLatCell u fill ftr trcl), expected with
  | M6.Ok l, M6.Ok l' => E6.list_eqb2 E6.elem_close l l'
  | M6.Err e, M6.Err e' => E6.err_eqb e e'
  | _, _ => false
  end.
