(* C02 — executable model of the elementary-surface path (what the code DOES):
     Kernel/VectUtils.py            planeParamsFromPoints (+ helpers in Vec.v)
     Parser/ParseMCNPSurface.py     normalize_surface, to_surface_mcnp (cone padding)
     MIP/geom/forcad.py             every entry of the mcnp2cad table
     Surface/ConversionSurfaceMCNPToT4.py
                                    conversion_surface_params, convert_plane /
                                    cylinder / sphere / special_quadric (sq_to_gq) / quadric /
                                    torus / cone, eval_quadric, convert_mcnp_surface
     Surface/SurfaceCollection.py   join
     Surface/CollectionDict.py      number_items
   Written once over [Scalar T]; exceptions are an [Err] result carrying the
   Python exception class.  Proofs live in C02/Proofs*.v. *)
From Coq Require Import List ZArith Bool.
From T4V Require Import Base.Scalar C02.Vec C02.Spec.
Import ListNotations.

(* Python exception classes of this path. EUnmodelled marks the two places where
   the model deliberately stops (see notes/C02.md): a sheet selector of magnitude
   >= 9 (int() of a float) and a torus whose axis is not a coordinate
   axis (only reachable through a TR card: property C04). *)
Inductive err := EIndex | EValue | EType | EZeroDiv | EKey | ENotImpl | EConv | EAttr | EUnmodelled.
Inductive res (A : Type) := Ok (a : A) | Err (e : err).
Arguments Ok {A}. Arguments Err {A}.

Definition bind {A B} (r : res A) (f : A -> res B) : res B :=
  match r with Ok a => f a | Err e => Err e end.
Notation "'do' x <- r ; k" := (bind r (fun x => k))
  (at level 200, x pattern, r at level 100, k at level 200, right associativity).

(* the 'typ' string returned by the mcnp2cad functions: 's' 'p' 'c' 'k' 't' 'sq' 'gq'
   (string_to_enum turns it into MS.S, MS.P, MS.C, MS.K, MS.T, MS.SQ, MS.GQ) *)
Inductive kind := KdS | KdP | KdC | KdK | KdT | KdSQ | KdGQ.

Section Model.
Context {T : Type} (S : Scalar T).

Notation "a + b" := (sadd S a b).
Notation "a - b" := (ssub S a b).
Notation "a * b" := (smul S a b).
Notation "a / b" := (sdiv S a b).
Notation "- a" := (sneg S a).
Notation "a == b" := (seqb S a b) (at level 70).
Notation "a <? b" := (sltb S a b) (at level 70).
Notation "a <=? b" := (sleb S a b) (at level 70).
Notation sq := (ssq S).
Notation vec := (@vec T).
Let zero := s0 S.
Let one := s1 S.

(* p[i] *)
Definition param (l : list T) (i : nat) : res T :=
  match nth_error l i with Some v => Ok v | None => Err EIndex end.

(* ---------- VectUtils.planeParamsFromPoints ---------- *)
Definition eps14 : T := spow10neg S 14.
Definition eps10 : T := spow10neg S 10.

(* the part of planeParamsFromPoints after the normal has been computed *)
Definition orient_plane (normal pt1 : vec) : res (list T) :=
  let normal_len2 := mag2 S normal in
  if normal_len2 <=? eps10 then Err EValue
  else
    let un := renorm S normal in
    let pos := scal S un pt1 in
    let params := [vx un; vy un; vz un; pos] in
    let flipped := [- vx un; - vy un; - vz un; - pos] in
    if pos <? - eps14 then Ok flipped
    else if eps14 <? pos then Ok params
    else if vz un <? - eps14 then Ok flipped
    else if eps14 <? vz un then Ok params
    else if vy un <? - eps14 then Ok flipped
    else if eps14 <? vy un then Ok params
    else if vx un <? - eps14 then Ok flipped
    else if eps14 <? vx un then Ok params
    else Err EValue.

Definition plane_params_from_points (pt1 pt2 pt3 : vec) : res (list T) :=
  orient_plane (vect S (vdiff S pt1 pt2) (vdiff S pt1 pt3)) pt1.

(* ---------- ParseMCNPSurface.normalize_surface ---------- *)
Definition normalize_surface (mn : mnem) (params : list T) : res (list T) :=
  match mn with
  | M_P =>
      match params with
      | [x1; y1; z1; x2; y2; z2; x3; y3; z3] =>
          plane_params_from_points (x1, y1, z1) (x2, y2, z2) (x3, y3, z3)
      | [_; _; _; _] => Ok params
      | _ => Err EValue
      end
  | _ => Ok params
  end.

(* ---------- MIP/geom/forcad.py ---------- *)
(* what a mcnp2cad function returns (the 'pin' point is dropped by the caller):
   typ, frame (None, None for sq/gq), srf tuple.  Entries of srf can be None
   (the nappe of a cone), hence [option T]. *)
Record cad := mkCad { c_kind : kind; c_frame : option (vec * vec); c_srf : list (option T) }.

(* _offset = 0 *)
Definition offset : T := zero.

Definition shift_ (x y z A B C d : T) : vec := (x + A * d, y + B * d, z + C * d).

Definition norm_ (x y z : T) : T := ssqrt S (sq x + sq y + sq z).

Definition sphere_ (x y z R : T) : cad := mkCad KdS (Some ((x, y, z), (zero, zero, one))) [Some R].
Definition plane_ (x y z A B C : T) : cad := mkCad KdP (Some ((x, y, z), (A, B, C))) [].
Definition cylinder_ (x y z r A B C : T) : cad := mkCad KdC (Some ((x, y, z), (A, B, C))) [Some r].
Definition cone_ (x y z tana A B C : T) (nappe : option T) : cad :=
  mkCad KdK (Some (shift_ x y z A B C offset, (A, B, C)))
        [Some (tana * offset); Some (satan S tana); nappe].
Definition torus_ (x y z A B C r1 r2 r3 : T) : cad :=
  mkCad KdT (Some ((x, y, z), (A, B, C))) [Some r1; Some r2; Some r3].

(* p[1]**0.5 followed by math.atan: a negative entry gives a complex number
   and atan raises TypeError *)
Definition sqrt_t2 (t2 : T) : res T := if t2 <? zero then Err EType else Ok (ssqrt S t2).

(* nappe = p[-1] if len(p) == n else None *)
Definition nappe_of (p : list T) (n : nat) : option T :=
  if Nat.eqb (List.length p) n then Some (last p zero) else None.

(* kx / ky / kz *)
Definition cone_on_axis (p : list T) (axis : nat) : res cad :=
  do a <- param p 0; do t2 <- param p 1; do t <- sqrt_t2 t2;
  let n := nappe_of p 3 in
  Ok match axis with
     | 0%nat => cone_ a zero zero t one zero zero n
     | 1%nat => cone_ zero a zero t zero one zero n
     | _ => cone_ zero zero a t zero zero one n
     end.

(* k/x k/y k/z *)
Definition cone_par_axis (p : list T) (axis : nat) : res cad :=
  do x <- param p 0; do y <- param p 1; do z <- param p 2; do t2 <- param p 3;
  do t <- sqrt_t2 t2;
  let n := nappe_of p 5 in
  Ok match axis with
     | 0%nat => cone_ x y z t one zero zero n
     | 1%nat => cone_ x y z t zero one zero n
     | _ => cone_ x y z t zero zero one n
     end.

(* tx ty tz: five entries = circular section *)
Definition torus_axis (p : list T) (A B C : T) : res cad :=
  match p with
  | [x; y; z; r1; r2] => Ok (torus_ x y z A B C r1 r2 r2)
  | [x; y; z; r1; r2; r3] => Ok (torus_ x y z A B C r1 r2 r3)
  | _ => Err EValue
  end.

Definition px_ (p : list T) : res cad := do d <- param p 0; Ok (plane_ d zero zero one zero zero).
Definition py_ (p : list T) : res cad := do d <- param p 0; Ok (plane_ zero d zero zero one zero).
Definition pz_ (p : list T) : res cad := do d <- param p 0; Ok (plane_ zero zero d zero zero one).
Definition cx_ (p : list T) : res cad := do r <- param p 0; Ok (cylinder_ zero zero zero r one zero zero).
Definition cy_ (p : list T) : res cad := do r <- param p 0; Ok (cylinder_ zero zero zero r zero one zero).
Definition cz_ (p : list T) : res cad := do r <- param p 0; Ok (cylinder_ zero zero zero r zero zero one).

(* xx / yy / zz: the sheet of the cone form is chosen from both points
   (nappe = 1 if 2 * x0 < p[0] + p[2] else -1) *)
Definition xyz_ (p : list T) (axis : nat) : res cad :=
  let plane := match axis with 0%nat => px_ | 1%nat => py_ | _ => pz_ end in
  let cyl := match axis with 0%nat => cx_ | 1%nat => cy_ | _ => cz_ end in
  match p with
  | [_; _] => plane p
  | [p0; p1; p2; p3] =>
      if p0 == p2 then plane p
      else if p1 == p3 then cyl [p1]
      else
        let tana := (p1 - p3) / (p0 - p2) in
        if tana == zero then Err EZeroDiv
        else
          let x0 := p0 - p1 / tana in
          let nappe := if s2 S * x0 <? p0 + p2 then sZ S 1 else sZ S (-1) in
          Ok match axis with
             | 0%nat => cone_ x0 zero zero (sabs S tana) one zero zero (Some nappe)
             | 1%nat => cone_ zero x0 zero (sabs S tana) zero one zero (Some nappe)
             | _ => cone_ zero zero x0 (sabs S tana) zero zero one (Some nappe)
             end
  | _ => Err ENotImpl
  end.

(* mcnp2cad[mcnp_to_mip(enum)](params) *)
Definition mcnp2cad (mn : mnem) (p : list T) : res cad :=
  match mn with
  | M_SO => do r <- param p 0; Ok (sphere_ zero zero zero r)
  | M_SX => do c <- param p 0; do r <- param p 1; Ok (sphere_ c zero zero r)
  | M_SY => do c <- param p 0; do r <- param p 1; Ok (sphere_ zero c zero r)
  | M_SZ => do c <- param p 0; do r <- param p 1; Ok (sphere_ zero zero c r)
  | M_S => match p with [x; y; z; r] => Ok (sphere_ x y z r) | _ => Err EType end
  | M_PX => px_ p
  | M_PY => py_ p
  | M_PZ => pz_ p
  | M_P =>
      match p with
      | [A; B; C; D] =>
          let c := norm_ A B C in
          if c == zero then Err EZeroDiv
          else
            let A := A / c in let B := B / c in let C := C / c in let D := D / c in
            let '(x, y, z) := shift_ zero zero zero A B C D in
            Ok (plane_ x y z A B C)
      | _ => Err EValue
      end
  | M_CX => cx_ p
  | M_CY => cy_ p
  | M_CZ => cz_ p
  | M_C_Z => do a <- param p 0; do b <- param p 1; do r <- param p 2;
             Ok (cylinder_ a b zero r zero zero one)
  | M_C_Y => do a <- param p 0; do b <- param p 1; do r <- param p 2;
             Ok (cylinder_ a zero b r zero one zero)
  | M_C_X => do a <- param p 0; do b <- param p 1; do r <- param p 2;
             Ok (cylinder_ zero a b r one zero zero)
  | M_C => match p with
           | [x; y; z; r; A; B; C] => Ok (cylinder_ x y z r A B C)
           | _ => Err EType
           end
  | M_KX => cone_on_axis p 0
  | M_KY => cone_on_axis p 1
  | M_KZ => cone_on_axis p 2
  | M_K_X => cone_par_axis p 0
  | M_K_Y => cone_par_axis p 1
  | M_K_Z => cone_par_axis p 2
  | M_K => match p with
           | [x; y; z; tana; A; B; C] => Ok (cone_ x y z tana A B C None)
           | [x; y; z; tana; A; B; C; n] => Ok (cone_ x y z tana A B C (Some n))
           | [x; y; z; tana; A; B; C; n; _] => Ok (cone_ x y z tana A B C (Some n))
           | _ => Err EType
           end
  | M_TX => torus_axis p one zero zero
  | M_TY => torus_axis p zero one zero
  | M_TZ => torus_axis p zero zero one
  | M_X => xyz_ p 0
  | M_Y => xyz_ p 1
  | M_Z => xyz_ p 2
  | M_SQ => Ok (mkCad KdSQ None (map Some p))
  | M_GQ => Ok (mkCad KdGQ None (map Some p))
  | M_T => Err EKey
  end.

(* ---------- to_surface_mcnp: cone-parameter padding ---------- *)
Definition pad_cone (c : list (option T)) : res (list (option T)) :=
  let n := List.length c in
  if Nat.eqb n 2 || Nat.eqb n 4 then Ok (c ++ [None])
  else if negb (Nat.eqb n 3) && negb (Nat.eqb n 5) then Err EValue
  else Ok c.

(* SurfaceMCNP of a card without transformation *)
Definition to_surface_mcnp (mn : mnem) (params : list T) : res cad :=
  do params <- normalize_surface mn params;
  do c <- mcnp2cad mn params;
  match c_kind c with
  | KdK => do srf <- pad_cone (c_srf c); Ok (mkCad KdK (c_frame c) srf)
  | _ => Ok c
  end.

(* ---------- ConversionSurfaceMCNPToT4 ---------- *)
Definition t4surf : Type := (t4type * list T)%type.
(* a SurfaceCollection: (surface, side) pairs *)
Definition coll : Type := list (t4surf * Z).

(* val.param_surface = (point, vector); (None, None) cannot be unpacked *)
Definition frame_of (c : cad) : res (vec * vec) :=
  match c_frame c with Some f => Ok f | None => Err EType end.

(* val.compl_param[i] as a number *)
Definition compl (c : cad) (i : nat) : res T :=
  match nth_error (c_srf c) i with
  | Some (Some v) => Ok v
  | Some None => Err EType
  | None => Err EIndex
  end.

Definition axis_plane (p u : vec) : t4surf :=
  let '(p_x, p_y, p_z) := p in
  let '(u_x, u_y, u_z) := u in
  let pos := - (u_x * p_x + u_y * p_y + u_z * p_z) in
  let gt0 (v : T) := zero <? v in
  if (u_x == zero) && (u_y == zero) && gt0 u_z then (PLANEZ, [(- pos) / u_z])
  else if (u_y == zero) && (u_z == zero) && gt0 u_x then (PLANEX, [(- pos) / u_x])
  else if (u_z == zero) && (u_x == zero) && gt0 u_y then (PLANEY, [(- pos) / u_y])
  else (PLANE, [u_x; u_y; u_z; pos]).

Definition convert_plane (c : cad) : res t4surf :=
  do f <- frame_of c; Ok (axis_plane (fst f) (snd f)).

Definition convert_cylinder (c : cad) : res t4surf :=
  do f <- frame_of c;
  let '((p_x, p_y, p_z), (u_x, u_y, u_z)) := f in
  do radius <- compl c 0;
  Ok (if (u_x == zero) && (u_y == zero) then (CYLZ, [p_x; p_y; radius])
      else if (u_y == zero) && (u_z == zero) then (CYLX, [p_y; p_z; radius])
      else if (u_z == zero) && (u_x == zero) then (CYLY, [p_x; p_z; radius])
      else (CYL, [p_x; p_y; p_z; radius; u_x; u_y; u_z])).

Definition convert_sphere (c : cad) : res t4surf :=
  do f <- frame_of c;
  let '(p_x, p_y, p_z) := fst f in
  do radius <- compl c 0;
  Ok (SPHERE, [p_x; p_y; p_z; radius]).

Definition eval_quadric (q : list T) (pt : vec) : res T :=
  let '(x, y, z) := pt in
  do q0 <- param q 0; do q1 <- param q 1; do q2 <- param q 2; do q3 <- param q 3;
  do q4 <- param q 4; do q5 <- param q 5; do q6 <- param q 6; do q7 <- param q 7;
  do q8 <- param q 8; do q9 <- param q 9;
  Ok (q0 * sq x + q1 * sq y + q2 * sq z + q3 * x * y + q4 * y * z + q5 * z * x
      + q6 * x + q7 * y + q8 * z + q9).

(* the SQ -> GQ expansion *)
Definition sq_expand (a b c d e f g x y z : T) : list T :=
  let two := s2 S in
  [a; b; c; zero; zero; zero;
   two * d - two * a * x;
   two * e - two * b * y;
   two * f - two * c * z;
   a * sq x + b * sq y + c * sq z - two * (d * x + e * y + f * z) + g].

(* ConversionSurfaceMCNPToT4.sq_to_gq(sq_params): the expansion, with the sign
   of the card (no flip) *)
Definition sq_to_gq (prm : list (option T)) : res (list T) :=
  let get i := match nth_error prm i with
               | Some (Some v) => Ok v | Some None => Err EType | None => Err EIndex end in
  do a <- get 0%nat; do b <- get 1%nat; do c' <- get 2%nat; do d <- get 3%nat;
  do e <- get 4%nat; do f <- get 5%nat; do g <- get 6%nat; do x <- get 7%nat;
  do y <- get 8%nat; do z <- get 9%nat;
  Ok (sq_expand a b c' d e f g x y z).

(* convert_special_quadric(val) = T4S.QUAD, sq_to_gq(val.compl_param) *)
Definition convert_special_quadric (c : cad) : res t4surf :=
  do gq <- sq_to_gq (c_srf c); Ok (QUAD, gq).

Fixpoint all_some (l : list (option T)) : res (list T) :=
  match l with
  | [] => Ok []
  | Some v :: r => do r' <- all_some r; Ok (v :: r')
  | None :: _ => Err EType
  end.

Definition convert_quadric (c : cad) : res t4surf :=
  do l <- all_some (c_srf c); Ok (QUAD, l).

(* np.allclose(a, b): |a - b| <= 1e-8 + 1e-5 |b| component-wise *)
Definition close_ (a b : T) : bool :=
  sabs S (a - b) <=? spow10neg S 8 + spow10neg S 5 * sabs S b.
Definition allclose3 (a b : vec) : bool :=
  let '(a1, a2, a3) := a in let '(b1, b2, b3) := b in
  close_ a1 b1 && close_ a2 b2 && close_ a3 b3.

Definition convert_torus (c : cad) : res t4surf :=
  do f <- frame_of c;
  let '((x, y, z), (u_x, u_y, u_z)) := f in
  do rest <- all_some (c_srf c);
  let prm := [x; y; z] ++ rest in
  let au := (sabs S u_x, sabs S u_y, sabs S u_z) in
  if allclose3 au (one, zero, zero) then Ok (TORUSX, prm)
  else if allclose3 au (zero, one, zero) then Ok (TORUSY, prm)
  else if allclose3 au (zero, zero, one) then Ok (TORUSZ, prm)
  else Err EUnmodelled.

(* the auxiliary plane that keeps one sheet of a cone: PLANEX/Y/Z have their
   normal along the positive axis, so the side is flipped when the axis
   component is not positive; -pos / u_z raises for u = 0 *)
Definition cone_aux_plane (p u : vec) (side : Z) : res (t4surf * Z) :=
  let '(p_x, p_y, p_z) := p in
  let '(u_x, u_y, u_z) := u in
  let pos := - (u_x * p_x + u_y * p_y + u_z * p_z) in
  if (u_x == zero) && (u_y == zero) then
    if u_z == zero then Err EZeroDiv
    else Ok ((PLANEZ, [(- pos) / u_z]), if zero <? u_z then side else Z.opp side)
  else if (u_y == zero) && (u_z == zero) then
    Ok ((PLANEX, [(- pos) / u_x]), if zero <? u_x then side else Z.opp side)
  else if (u_z == zero) && (u_x == zero) then
    Ok ((PLANEY, [(- pos) / u_y]), if zero <? u_y then side else Z.opp side)
  else Ok ((PLANE, [u_x; u_y; u_z; pos]), side).

(* -int(nappe): int() truncates towards zero; modelled for |nappe| < 9 by
   comparing with the integers 1..8 (a larger selector is outside the model).
   Any selector with |int(nappe)| >= 2 gives a side of that magnitude. *)
Fixpoint minus_int_search (n : T) (js : list Z) : res Z :=
  match js with
  | [] => if (- one <? n) && (n <? one) then Ok 0%Z else Err EUnmodelled
  | j :: r =>
      if (sZ S j <=? n) && (n <? sZ S (j + 1)) then Ok (Z.opp j)
      else if (sZ S (Z.opp (j + 1)) <? n) && (n <=? sZ S (Z.opp j)) then Ok j
      else minus_int_search n r
  end.

Definition minus_int (n : T) : res Z :=
  minus_int_search n [1; 2; 3; 4; 5; 6; 7; 8]%Z.

Definition convert_cone (c : cad) : res coll :=
  do f <- frame_of c;
  let '((p_x, p_y, p_z), (u_x, u_y, u_z)) := f in
  do ang <- compl c 1;
  let theta := sZ S 180 * ang / spi S in
  let cone :=
    if (u_x == zero) && (u_y == zero) then (CONEZ, [p_x; p_y; p_z; theta])
    else if (u_y == zero) && (u_z == zero) then (CONEX, [p_x; p_y; p_z; theta])
    else if (u_z == zero) && (u_x == zero) then (CONEY, [p_x; p_y; p_z; theta])
    else (CONE, [p_x; p_y; p_z; theta; u_x; u_y; u_z]) in
  let nappe := if Nat.eqb (List.length (c_srf c)) 3
               then match nth_error (c_srf c) 2 with Some n => n | None => None end
               else None in
  match nappe with
  | None => Ok [(cone, 1%Z)]
  | Some n =>
      if n == zero then Ok [(cone, 1%Z)]
      else
        do side <- minus_int n;
        do aux <- cone_aux_plane (p_x, p_y, p_z) (u_x, u_y, u_z) side;
        Ok [(cone, 1%Z); aux]
  end.

Definition conversion_surface_params (c : cad) : res coll :=
  match c_kind c with
  | KdK => convert_cone c
  | KdP => do s <- convert_plane c; Ok [(s, 1%Z)]
  | KdC => do s <- convert_cylinder c; Ok [(s, 1%Z)]
  | KdS => do s <- convert_sphere c; Ok [(s, 1%Z)]
  | KdSQ => do s <- convert_special_quadric c; Ok [(s, 1%Z)]
  | KdGQ => do s <- convert_quadric c; Ok [(s, 1%Z)]
  | KdT => do s <- convert_torus c; Ok [(s, 1%Z)]
  end.

End Model.

(* ---------- SurfaceCollection.join ---------- *)
Definition join {A} (colls : list (list (A * Z) * Z)) : res (list (A * Z)) :=
  match flat_map (fun cs => map (fun ss => (fst ss, (snd ss * snd cs)%Z)) (fst cs)) colls with
  | [] => Err EConv
  | l => Ok l
  end.

Section Card.
Context {T : Type} (S : Scalar T).

(* convert_mcnp_surface(key, [(to_surface_mcnp(card), 1)]) *)
Definition convert_card (mn : mnem) (params : list T) : res (coll (T:=T)) :=
  do c <- to_surface_mcnp S mn params;
  do cl <- conversion_surface_params S c;
  join [(cl, 1%Z)].

End Card.

(* ---------- CollectionDict.number_items ---------- *)
(* the dictionary is an insertion-ordered association list key -> collection;
   returns (numbering, matching) *)
Section Number.
Context {A : Type}.

Fixpoint number_rest (free : Z) (rest : list (A * Z)) : list (Z * A) * list Z * Z :=
  match rest with
  | [] => ([], [], free)
  | (s, side) :: r =>
      let '(num, ids, free') := number_rest (free + 1) r in
      ((free, s) :: num, (side * free)%Z :: ids, free')
  end.

Fixpoint number_loop (free : Z) (dic : list (Z * list (A * Z)))
  : res (list (Z * A) * list (Z * list Z)) :=
  match dic with
  | [] => Ok ([], [])
  | (key, value) :: r =>
      match value with
      | [] => Err EIndex
      | (first_surf, first_side) :: rest =>
          let '(num, ids, free') := number_rest free rest in
          do nm <- number_loop free' r;
          Ok ((key, first_surf) :: num ++ fst nm,
              (key, (first_side * key)%Z :: ids) :: snd nm)
      end
  end.

Definition number_items (dic : list (Z * list (A * Z)))
  : res (list (Z * A) * list (Z * list Z)) :=
  match dic with
  | [] => Err EValue
  | _ => number_loop (fold_right Z.max (fst (hd (0%Z, []) dic)) (map fst dic) + 1) dic
  end.

End Number.
