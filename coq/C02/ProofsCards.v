(* C02 — per-mnemonic theorems: every card of the mcnp2cad table through
   convert_card (normalize_surface, mcnp2cad, cone padding, convert_*, join)
   against the MCNP equation of Spec.v. *)
From Coq Require Import List ZArith Bool Reals Lra Lia Psatz.
From T4V Require Import Base.Scalar C02.Vec C02.Spec C02.Model C02.Proofs.
Import ListNotations.
Open Scope R_scope.

Ltac card := unfold convert_card, to_surface_mcnp; cbn; consts; cbn; consts.

(* ---------- spheres (no guard: any radius) ---------- *)
Lemma so_locus_sense r : locus_sense (convert_card RS M_SO [r]) (fM_so RS r).
Proof. finish_locus 1. ring. Qed.
Lemma s_locus_sense x0 y0 z0 r : locus_sense (convert_card RS M_S [x0; y0; z0; r]) (fM_s RS x0 y0 z0 r).
Proof. finish_locus 1. ring. Qed.
Lemma sx_locus_sense c r : locus_sense (convert_card RS M_SX [c; r]) (fM_sx RS c r).
Proof. finish_locus 1. ring. Qed.
Lemma sy_locus_sense c r : locus_sense (convert_card RS M_SY [c; r]) (fM_sy RS c r).
Proof. finish_locus 1. ring. Qed.
Lemma sz_locus_sense c r : locus_sense (convert_card RS M_SZ [c; r]) (fM_sz RS c r).
Proof. finish_locus 1. ring. Qed.

(* ---------- axis planes ---------- *)
Lemma px_locus_sense d : locus_sense (convert_card RS M_PX [d]) (fM_px RS d).
Proof. card. finish_locus 1. field. Qed.
Lemma py_locus_sense d : locus_sense (convert_card RS M_PY [d]) (fM_py RS d).
Proof. card. finish_locus 1. field. Qed.
Lemma pz_locus_sense d : locus_sense (convert_card RS M_PZ [d]) (fM_pz RS d).
Proof. card. finish_locus 1. field. Qed.

(* ---------- cylinders ---------- *)
Lemma c_x_locus_sense a b r : locus_sense (convert_card RS M_C_X [a; b; r]) (fM_c_x RS a b r).
Proof. card. finish_locus 1. ring. Qed.
Lemma c_y_locus_sense a b r : locus_sense (convert_card RS M_C_Y [a; b; r]) (fM_c_y RS a b r).
Proof. card. finish_locus 1. ring. Qed.
Lemma c_z_locus_sense a b r : locus_sense (convert_card RS M_C_Z [a; b; r]) (fM_c_z RS a b r).
Proof. card. finish_locus 1. ring. Qed.
Lemma cx_locus_sense r : locus_sense (convert_card RS M_CX [r]) (fM_cx RS r).
Proof. card. finish_locus 1. ring. Qed.
Lemma cy_locus_sense r : locus_sense (convert_card RS M_CY [r]) (fM_cy RS r).
Proof. card. finish_locus 1. ring. Qed.
Lemma cz_locus_sense r : locus_sense (convert_card RS M_CZ [r]) (fM_cz RS r).
Proof. card. finish_locus 1. ring. Qed.

(* ---------- quadrics ---------- *)
Lemma gq_locus_sense A B C D E F G H J K :
  locus_sense (convert_card RS M_GQ [A; B; C; D; E; F; G; H; J; K]) (fM_gq RS A B C D E F G H J K).
Proof. finish_locus 1. ring. Qed.

(* SQ: the expansion is the same polynomial, whatever the sign of G *)
Lemma sq_locus_sense A B C D E F G x0 y0 z0 :
  locus_sense (convert_card RS M_SQ [A; B; C; D; E; F; G; x0; y0; z0])
              (fM_sq RS A B C D E F G x0 y0 z0).
Proof. finish_locus 1. ring. Qed.

(* an SQ card and the GQ card with the expanded coefficients give the same QUAD *)
Lemma sq_gq_consistent A B C D E F G x0 y0 z0 :
  convert_card RS M_SQ [A; B; C; D; E; F; G; x0; y0; z0] =
  convert_card RS M_GQ [A; B; C; 0; 0; 0; 2 * D - 2 * A * x0; 2 * E - 2 * B * y0; 2 * F - 2 * C * z0;
                        A * (x0 * x0) + B * (y0 * y0) + C * (z0 * z0)
                        - 2 * (D * x0 + E * y0 + F * z0) + G] /\
  forall p, fM_gq RS A B C 0 0 0 (2 * D - 2 * A * x0) (2 * E - 2 * B * y0) (2 * F - 2 * C * z0)
                  (A * (x0 * x0) + B * (y0 * y0) + C * (z0 * z0) - 2 * (D * x0 + E * y0 + F * z0) + G) p
            = fM_sq RS A B C D E F G x0 y0 z0 p.
Proof.
  split; [reflexivity|]. intros [[x y] z]. cbn. unfold ssq. cbn. ring.
Qed.

(* ---------- tori ---------- *)
Lemma pow10_pos n : (0 <= n)%Z -> 0 < spow10neg RS n.
Proof.
  intros Hn. unfold spow10neg. cbn. apply Rdiv_lt_0_compat; [lra|]. apply IZR_lt.
  apply Z.pow_pos_nonneg; lia.
Qed.

Lemma close_refl a : close_ RS a a = true.
Proof.
  unfold close_. cbn. apply Rleb_true.
  replace (a - a) with 0 by ring. rewrite Rabs_R0.
  pose proof (pow10_pos 8 ltac:(lia)) as H8. pose proof (pow10_pos 5 ltac:(lia)) as H5.
  pose proof (Rabs_pos a). nra.
Qed.

Lemma close_0_1 : close_ RS 0 1 = false.
Proof.
  unfold close_. cbn. apply Rleb_false.
  replace (Rabs (0 - 1)) with 1 by (rewrite Rabs_left; lra). rewrite Rabs_R1.
  unfold spow10neg. cbn. lra.
Qed.

Lemma Rabs_0 : Rabs 0 = 0. Proof. apply Rabs_R0. Qed.
Lemma Rabs_1 : Rabs 1 = 1. Proof. apply Rabs_R1. Qed.

Lemma close_1_0 : close_ RS 1 0 = false.
Proof.
  unfold close_. cbn. apply Rleb_false.
  replace (Rabs (1 - 0)) with 1 by (rewrite Rabs_right; lra). rewrite Rabs_R0.
  unfold spow10neg. cbn. lra.
Qed.

Ltac torus := unfold convert_card, to_surface_mcnp; cbn -[close_];
  rewrite ?Rabs_0, ?Rabs_1, ?close_refl, ?close_0_1, ?close_1_0; cbn -[close_].

Lemma tx_locus_sense x0 y0 z0 A B C :
  locus_sense (convert_card RS M_TX [x0; y0; z0; A; B; C]) (fM_tx RS x0 y0 z0 A B C).
Proof. torus. finish_locus 1. unfold torus_f, ssq. cbn. ring. Qed.
Lemma ty_locus_sense x0 y0 z0 A B C :
  locus_sense (convert_card RS M_TY [x0; y0; z0; A; B; C]) (fM_ty RS x0 y0 z0 A B C).
Proof. torus. finish_locus 1. unfold torus_f, ssq. cbn. ring. Qed.
Lemma tz_locus_sense x0 y0 z0 A B C :
  locus_sense (convert_card RS M_TZ [x0; y0; z0; A; B; C]) (fM_tz RS x0 y0 z0 A B C).
Proof. torus. finish_locus 1. unfold torus_f, ssq. cbn. ring. Qed.
(* the five-entry form (an extension of the converter) is the circular section B = C *)
Lemma tx5_locus_sense x0 y0 z0 A B :
  locus_sense (convert_card RS M_TX [x0; y0; z0; A; B]) (fM_tx RS x0 y0 z0 A B B).
Proof. torus. finish_locus 1. unfold torus_f, ssq. cbn. ring. Qed.
Lemma ty5_locus_sense x0 y0 z0 A B :
  locus_sense (convert_card RS M_TY [x0; y0; z0; A; B]) (fM_ty RS x0 y0 z0 A B B).
Proof. torus. finish_locus 1. unfold torus_f, ssq. cbn. ring. Qed.
Lemma tz5_locus_sense x0 y0 z0 A B :
  locus_sense (convert_card RS M_TZ [x0; y0; z0; A; B]) (fM_tz RS x0 y0 z0 A B B).
Proof. torus. finish_locus 1. unfold torus_f, ssq. cbn. ring. Qed.

(* ---------- P A B C D ---------- *)
Lemma norm_pos A B C : (A, B, C) <> (0, 0, 0) -> 0 < norm_ RS A B C.
Proof.
  intros H. unfold norm_, ssq. cbn. apply sqrt_lt_R0.
  destruct (Req_EM_T A 0) as [->|HA]; [|nra].
  destruct (Req_EM_T B 0) as [->|HB]; [|nra].
  destruct (Req_EM_T C 0) as [->|HC]; [|nra].
  exfalso; apply H; reflexivity.
Qed.

Lemma norm_sq A B C : norm_ RS A B C * norm_ RS A B C = A * A + B * B + C * C.
Proof. unfold norm_, ssq. cbn. apply sqrt_sqrt. nra. Qed.

Lemma p_locus_sense A B C D :
  (A, B, C) <> (0, 0, 0) ->
  locus_sense (convert_card RS M_P [A; B; C; D]) (fM_p RS A B C D).
Proof.
  intros Hn. pose proof (norm_pos A B C Hn) as Hc. pose proof (norm_sq A B C) as Hcc.
  unfold convert_card, to_surface_mcnp. cbn -[norm_ axis_plane].
  set (c := norm_ RS A B C) in *. clearbody c.
  replace (Reqb c 0) with false by (symmetry; apply Reqb_false; lra).
  cbn -[norm_ axis_plane].
  assert (Hz : forall v, v / c = 0 -> v = 0).
  { intros v Hv. apply (Rmult_eq_compat_r c) in Hv. unfold Rdiv in Hv.
    rewrite Rmult_assoc, Rinv_l, Rmult_1_r, Rmult_0_l in Hv by lra. exact Hv. }
  match goal with |- context [axis_plane RS ?p ?u] =>
    assert (Hu : u <> (0, 0, 0));
    [ intros E; injection E as E1 E2 E3; apply Hn;
      rewrite (Hz A E1), (Hz B E2), (Hz C E3); reflexivity
    | destruct (axis_plane_ok p u Hu) as (g & k & Hg & Hk & Hq);
      destruct (axis_plane RS p u) as [ty prm] ]
  end.
  cbn [fst snd] in Hg.
  exists ty, prm, g, (k / c). split; [reflexivity|]. split; [exact Hg|].
  split; [apply Rdiv_lt_0_compat; lra|].
  intros [[x y] z]. rewrite Hq. unfold plane_through. cbn.
  assert (Hc2 : c * c = A * A + B * B + C * C) by exact Hcc.
  assert (Hc0 : c <> 0) by (apply Rgt_not_eq; exact Hc). field_simplify_eq; [|exact Hc0]. replace (c ^ 2) with (A * A + B * B + C * C) by lra. ring.
Qed.

(* ---------- cones ---------- *)
Lemma Rltb_ge t : 0 <= t -> Rltb t 0 = false.
Proof. intros H. apply Rltb_false. exact H. Qed.

Ltac cone_card Ht :=
  unfold convert_card, to_surface_mcnp; cbn -[tan_deg]; unfold sqrt_t2; cbn -[tan_deg]; rewrite (Rltb_ge _ Ht); cbn -[tan_deg]; consts.

Ltac finish_cone Ht :=
  eexists _, _, _, 1; split; [reflexivity|]; split; [reflexivity|]; split; [lra|];
  intros [[x y] z]; cbn -[tan_deg]; rewrite tan_deg_atan; unfold ssq; cbn;
  rewrite (sqrt_sqrt _ Ht); ring.

Lemma kx_locus_sense x0 t2 : 0 <= t2 -> locus_sense (convert_card RS M_KX [x0; t2]) (fM_kx RS x0 t2).
Proof. intros Ht. cone_card Ht. finish_cone Ht. Qed.
Lemma ky_locus_sense y0 t2 : 0 <= t2 -> locus_sense (convert_card RS M_KY [y0; t2]) (fM_ky RS y0 t2).
Proof. intros Ht. cone_card Ht. finish_cone Ht. Qed.
Lemma kz_locus_sense z0 t2 : 0 <= t2 -> locus_sense (convert_card RS M_KZ [z0; t2]) (fM_kz RS z0 t2).
Proof. intros Ht. cone_card Ht. finish_cone Ht. Qed.
Lemma k_x_locus_sense x0 y0 z0 t2 :
  0 <= t2 -> locus_sense (convert_card RS M_K_X [x0; y0; z0; t2]) (fM_k_x RS x0 y0 z0 t2).
Proof. intros Ht. cone_card Ht. finish_cone Ht. Qed.
Lemma k_y_locus_sense x0 y0 z0 t2 :
  0 <= t2 -> locus_sense (convert_card RS M_K_Y [x0; y0; z0; t2]) (fM_k_y RS x0 y0 z0 t2).
Proof. intros Ht. cone_card Ht. finish_cone Ht. Qed.
Lemma k_z_locus_sense x0 y0 z0 t2 :
  0 <= t2 -> locus_sense (convert_card RS M_K_Z [x0; y0; z0; t2]) (fM_k_z RS x0 y0 z0 t2).
Proof. intros Ht. cone_card Ht. finish_cone Ht. Qed.

(* sheet selector 0: both sheets, like the card without selector *)
Lemma Reqb_m1_0 : Reqb (-1) 0 = false. Proof. apply Reqb_false; lra. Qed.
Lemma Reqb_m1_1 : Reqb (-1) 1 = false. Proof. apply Reqb_false; lra. Qed.
Lemma Reqb_m1_m1 : Reqb (-1) (- (1)) = true. Proof. apply Reqb_true; lra. Qed.
Lemma Reqb_1_1 : Reqb 1 1 = true. Proof. apply Reqb_refl. Qed.

(* decide the comparisons of numerals *)
Ltac dec_consts :=
  repeat match goal with
  | |- context [Rltb ?a ?b] =>
      first [ replace (Rltb a b) with true by (symmetry; apply Rltb_true; lra)
            | replace (Rltb a b) with false by (symmetry; apply Rltb_false; lra) ]
  | |- context [Rleb ?a ?b] =>
      first [ replace (Rleb a b) with true by (symmetry; apply Rleb_true; lra)
            | replace (Rleb a b) with false by (symmetry; apply Rleb_false; lra) ]
  | |- context [Reqb ?a ?b] =>
      first [ replace (Reqb a b) with true by (symmetry; apply Reqb_true; lra)
            | replace (Reqb a b) with false by (symmetry; apply Reqb_false; lra) ]
  end.

Ltac sheet_consts :=
  unfold minus_int, minus_int_search; cbn -[tan_deg]; dec_consts; cbn -[tan_deg]; consts.

Ltac finish_sheet Ht :=
  eapply (two_lits _ _ _ _ _ 1 1);
  [ reflexivity | reflexivity | lra | lra
  | intros [[x y] z]; cbn -[tan_deg]; rewrite tan_deg_atan; unfold ssq; cbn;
    rewrite (sqrt_sqrt _ Ht); ring
  | intros [[x y] z]; cbn; field ].

Lemma kx_sheet_locus_sense x0 t2 s :
  0 <= t2 -> s = 1 \/ s = -1 ->
  one_sheet (convert_card RS M_KX [x0; t2; s]) (fM_kx RS x0 t2) (fun p => s * axial_x RS x0 p).
Proof. intros Ht [-> | ->]; cone_card Ht; sheet_consts; finish_sheet Ht. Qed.
Lemma ky_sheet_locus_sense y0 t2 s :
  0 <= t2 -> s = 1 \/ s = -1 ->
  one_sheet (convert_card RS M_KY [y0; t2; s]) (fM_ky RS y0 t2) (fun p => s * axial_y RS y0 p).
Proof. intros Ht [-> | ->]; cone_card Ht; sheet_consts; finish_sheet Ht. Qed.
Lemma kz_sheet_locus_sense z0 t2 s :
  0 <= t2 -> s = 1 \/ s = -1 ->
  one_sheet (convert_card RS M_KZ [z0; t2; s]) (fM_kz RS z0 t2) (fun p => s * axial_z RS z0 p).
Proof. intros Ht [-> | ->]; cone_card Ht; sheet_consts; finish_sheet Ht. Qed.
Lemma k_x_sheet_locus_sense x0 y0 z0 t2 s :
  0 <= t2 -> s = 1 \/ s = -1 ->
  one_sheet (convert_card RS M_K_X [x0; y0; z0; t2; s]) (fM_k_x RS x0 y0 z0 t2)
            (fun p => s * axial_x RS x0 p).
Proof. intros Ht [-> | ->]; cone_card Ht; sheet_consts; finish_sheet Ht. Qed.
Lemma k_y_sheet_locus_sense x0 y0 z0 t2 s :
  0 <= t2 -> s = 1 \/ s = -1 ->
  one_sheet (convert_card RS M_K_Y [x0; y0; z0; t2; s]) (fM_k_y RS x0 y0 z0 t2)
            (fun p => s * axial_y RS y0 p).
Proof. intros Ht [-> | ->]; cone_card Ht; sheet_consts; finish_sheet Ht. Qed.
Lemma k_z_sheet_locus_sense x0 y0 z0 t2 s :
  0 <= t2 -> s = 1 \/ s = -1 ->
  one_sheet (convert_card RS M_K_Z [x0; y0; z0; t2; s]) (fM_k_z RS x0 y0 z0 t2)
            (fun p => s * axial_z RS z0 p).
Proof. intros Ht [-> | ->]; cone_card Ht; sheet_consts; finish_sheet Ht. Qed.

(* selector 0 = no selector *)
Lemma kx_sheet0_locus_sense x0 t2 :
  0 <= t2 -> locus_sense (convert_card RS M_KX [x0; t2; 0]) (fM_kx RS x0 t2).
Proof. intros Ht. cone_card Ht. finish_cone Ht. Qed.
Lemma ky_sheet0_locus_sense x0 t2 :
  0 <= t2 -> locus_sense (convert_card RS M_KY [x0; t2; 0]) (fM_ky RS x0 t2).
Proof. intros Ht. cone_card Ht. finish_cone Ht. Qed.
Lemma kz_sheet0_locus_sense x0 t2 :
  0 <= t2 -> locus_sense (convert_card RS M_KZ [x0; t2; 0]) (fM_kz RS x0 t2).
Proof. intros Ht. cone_card Ht. finish_cone Ht. Qed.
Lemma k_x_sheet0_locus_sense x0 y0 z0 t2 :
  0 <= t2 -> locus_sense (convert_card RS M_K_X [x0; y0; z0; t2; 0]) (fM_k_x RS x0 y0 z0 t2).
Proof. intros Ht. cone_card Ht. finish_cone Ht. Qed.
Lemma k_y_sheet0_locus_sense x0 y0 z0 t2 :
  0 <= t2 -> locus_sense (convert_card RS M_K_Y [x0; y0; z0; t2; 0]) (fM_k_y RS x0 y0 z0 t2).
Proof. intros Ht. cone_card Ht. finish_cone Ht. Qed.
Lemma k_z_sheet0_locus_sense x0 y0 z0 t2 :
  0 <= t2 -> locus_sense (convert_card RS M_K_Z [x0; y0; z0; t2; 0]) (fM_k_z RS x0 y0 z0 t2).
Proof. intros Ht. cone_card Ht. finish_cone Ht. Qed.

(* ---------- X / Y / Z: point-defined axisymmetric surfaces ---------- *)
Lemma Rabs_sq a : Rabs a * Rabs a = a * a.
Proof. rewrite <- Rabs_mult. apply Rabs_right. nra. Qed.

(* one pair, or equal abscissae: the plane *)
Lemma x2_locus_sense x1 r : locus_sense (convert_card RS M_X [x1; r]) (fM_px RS x1).
Proof. card. finish_locus 1. field. Qed.
Lemma y2_locus_sense x1 r : locus_sense (convert_card RS M_Y [x1; r]) (fM_py RS x1).
Proof. card. finish_locus 1. field. Qed.
Lemma z2_locus_sense x1 r : locus_sense (convert_card RS M_Z [x1; r]) (fM_pz RS x1).
Proof. card. finish_locus 1. field. Qed.
Lemma x_plane_locus_sense x1 r1 r2 : locus_sense (convert_card RS M_X [x1; r1; x1; r2]) (fM_px RS x1).
Proof. card. finish_locus 1. field. Qed.
Lemma y_plane_locus_sense x1 r1 r2 : locus_sense (convert_card RS M_Y [x1; r1; x1; r2]) (fM_py RS x1).
Proof. card. finish_locus 1. field. Qed.
Lemma z_plane_locus_sense x1 r1 r2 : locus_sense (convert_card RS M_Z [x1; r1; x1; r2]) (fM_pz RS x1).
Proof. card. finish_locus 1. field. Qed.

(* equal radii: the cylinder *)
Ltac xyz_cyl Hx :=
  unfold convert_card, to_surface_mcnp; cbn;
  rewrite (proj2 (Reqb_false _ _) Hx); consts; cbn; consts; finish_locus 1; ring.
Lemma x_cyl_locus_sense x1 x2 r : x1 <> x2 -> locus_sense (convert_card RS M_X [x1; r; x2; r]) (fM_cx RS r).
Proof. intros Hx. xyz_cyl Hx. Qed.
Lemma y_cyl_locus_sense x1 x2 r : x1 <> x2 -> locus_sense (convert_card RS M_Y [x1; r; x2; r]) (fM_cy RS r).
Proof. intros Hx. xyz_cyl Hx. Qed.
Lemma z_cyl_locus_sense x1 x2 r : x1 <> x2 -> locus_sense (convert_card RS M_Z [x1; r; x2; r]) (fM_cz RS r).
Proof. intros Hx. xyz_cyl Hx. Qed.

(* otherwise the cone through the two circles, one sheet: the one that
   contains both points (r1, r2 >= 0; a point may lie on the apex) *)
Lemma x_cone_locus_sense x1 r1 x2 r2 :
  x1 <> x2 -> r1 <> r2 -> 0 <= r1 -> 0 <= r2 ->
  one_sheet (convert_card RS M_X [x1; r1; x2; r2])
            (fM_kx RS (xyz_apex RS x1 r1 x2 r2) (xyz_t2 RS x1 r1 x2 r2))
            (fun p => axial_x RS (xyz_apex RS x1 r1 x2 r2) p
                      * ((x1 - xyz_apex RS x1 r1 x2 r2) + (x2 - xyz_apex RS x1 r1 x2 r2))).
Proof.
  intros Hx Hr H1 H2.
  unfold convert_card, to_surface_mcnp. cbn -[tan_deg].
  replace (Reqb x1 x2) with false by (symmetry; apply Reqb_false; exact Hx).
  replace (Reqb r1 r2) with false by (symmetry; apply Reqb_false; exact Hr).
  assert (Hd : x1 - x2 <> 0) by lra.
  assert (Hs : (r2 - r1) / (x2 - x1) = (r1 - r2) / (x1 - x2)) by (field; lra).
  rewrite Hs. set (t := (r1 - r2) / (x1 - x2)).
  assert (Ht : t <> 0).
  { unfold t. intros E. apply (Rmult_eq_compat_r (x1 - x2)) in E. unfold Rdiv in E.
    rewrite Rmult_assoc, Rinv_l, Rmult_1_r, Rmult_0_l in E by exact Hd. lra. }
  assert (Hsum : x1 - (x1 - r1 / t) + (x2 - (x1 - r1 / t)) = (r1 + r2) / t).
  { unfold t. field. split; lra. }
  assert (Hlt : 2 * (x1 - r1 / t) < x1 + x2 <-> 0 < (r1 + r2) / t).
  { rewrite <- Hsum. split; intros; lra. }
  clearbody t.
  replace (Reqb t 0) with false by (symmetry; apply Reqb_false; exact Ht).
  assert (Hpos : 0 < r1 + r2) by lra.
  assert (Habs : 0 <= Rabs t * Rabs t) by (rewrite Rabs_sq; nra).
  destruct (Rltb (2 * (x1 - r1 / t)) (x1 + x2)) eqn:En;
    [apply Rltb_true in En; apply Hlt in En | apply Rltb_false in En].
  - cbn -[tan_deg]. sheet_consts.
    eapply (two_lits _ _ _ _ _ 1 (/ ((r1 + r2) / t)));
    [ reflexivity | reflexivity | lra | apply Rinv_0_lt_compat; exact En
    | intros [[x y] z]; cbn -[tan_deg]; rewrite tan_deg_atan; unfold ssq; cbn;
      rewrite Rabs_sq; ring
    | intros [[x y] z]; cbn; rewrite Hsum; field; split; [exact Ht | lra] ].
  - assert (En' : (r1 + r2) / t < 0).
    { destruct (Rle_lt_or_eq_dec ((r1 + r2) / t) 0) as [Hl|He]; [|exact Hl|].
      - apply Rnot_lt_le. intros Hc. apply Hlt in Hc. lra.
      - exfalso. apply (Rmult_eq_compat_r t) in He. unfold Rdiv in He.
        rewrite Rmult_assoc, Rinv_l, Rmult_1_r, Rmult_0_l in He by exact Ht. lra. }
    cbn -[tan_deg]. sheet_consts.
    eapply (two_lits _ _ _ _ _ 1 (/ - ((r1 + r2) / t)));
    [ reflexivity | reflexivity | lra | apply Rinv_0_lt_compat; lra
    | intros [[x y] z]; cbn -[tan_deg]; rewrite tan_deg_atan; unfold ssq; cbn;
      rewrite Rabs_sq; ring
    | intros [[x y] z]; cbn; rewrite Hsum; field; split; [exact Ht | lra] ].
Qed.

Lemma y_cone_locus_sense x1 r1 x2 r2 :
  x1 <> x2 -> r1 <> r2 -> 0 <= r1 -> 0 <= r2 ->
  one_sheet (convert_card RS M_Y [x1; r1; x2; r2])
            (fM_ky RS (xyz_apex RS x1 r1 x2 r2) (xyz_t2 RS x1 r1 x2 r2))
            (fun p => axial_y RS (xyz_apex RS x1 r1 x2 r2) p
                      * ((x1 - xyz_apex RS x1 r1 x2 r2) + (x2 - xyz_apex RS x1 r1 x2 r2))).
Proof.
  intros Hx Hr H1 H2.
  unfold convert_card, to_surface_mcnp. cbn -[tan_deg].
  replace (Reqb x1 x2) with false by (symmetry; apply Reqb_false; exact Hx).
  replace (Reqb r1 r2) with false by (symmetry; apply Reqb_false; exact Hr).
  assert (Hd : x1 - x2 <> 0) by lra.
  assert (Hs : (r2 - r1) / (x2 - x1) = (r1 - r2) / (x1 - x2)) by (field; lra).
  rewrite Hs. set (t := (r1 - r2) / (x1 - x2)).
  assert (Ht : t <> 0).
  { unfold t. intros E. apply (Rmult_eq_compat_r (x1 - x2)) in E. unfold Rdiv in E.
    rewrite Rmult_assoc, Rinv_l, Rmult_1_r, Rmult_0_l in E by exact Hd. lra. }
  assert (Hsum : x1 - (x1 - r1 / t) + (x2 - (x1 - r1 / t)) = (r1 + r2) / t).
  { unfold t. field. split; lra. }
  assert (Hlt : 2 * (x1 - r1 / t) < x1 + x2 <-> 0 < (r1 + r2) / t).
  { rewrite <- Hsum. split; intros; lra. }
  clearbody t.
  replace (Reqb t 0) with false by (symmetry; apply Reqb_false; exact Ht).
  assert (Hpos : 0 < r1 + r2) by lra.
  assert (Habs : 0 <= Rabs t * Rabs t) by (rewrite Rabs_sq; nra).
  destruct (Rltb (2 * (x1 - r1 / t)) (x1 + x2)) eqn:En;
    [apply Rltb_true in En; apply Hlt in En | apply Rltb_false in En].
  - cbn -[tan_deg]. sheet_consts.
    eapply (two_lits _ _ _ _ _ 1 (/ ((r1 + r2) / t)));
    [ reflexivity | reflexivity | lra | apply Rinv_0_lt_compat; exact En
    | intros [[x y] z]; cbn -[tan_deg]; rewrite tan_deg_atan; unfold ssq; cbn;
      rewrite Rabs_sq; ring
    | intros [[x y] z]; cbn; rewrite Hsum; field; split; [exact Ht | lra] ].
  - assert (En' : (r1 + r2) / t < 0).
    { destruct (Rle_lt_or_eq_dec ((r1 + r2) / t) 0) as [Hl|He]; [|exact Hl|].
      - apply Rnot_lt_le. intros Hc. apply Hlt in Hc. lra.
      - exfalso. apply (Rmult_eq_compat_r t) in He. unfold Rdiv in He.
        rewrite Rmult_assoc, Rinv_l, Rmult_1_r, Rmult_0_l in He by exact Ht. lra. }
    cbn -[tan_deg]. sheet_consts.
    eapply (two_lits _ _ _ _ _ 1 (/ - ((r1 + r2) / t)));
    [ reflexivity | reflexivity | lra | apply Rinv_0_lt_compat; lra
    | intros [[x y] z]; cbn -[tan_deg]; rewrite tan_deg_atan; unfold ssq; cbn;
      rewrite Rabs_sq; ring
    | intros [[x y] z]; cbn; rewrite Hsum; field; split; [exact Ht | lra] ].
Qed.

Lemma z_cone_locus_sense x1 r1 x2 r2 :
  x1 <> x2 -> r1 <> r2 -> 0 <= r1 -> 0 <= r2 ->
  one_sheet (convert_card RS M_Z [x1; r1; x2; r2])
            (fM_kz RS (xyz_apex RS x1 r1 x2 r2) (xyz_t2 RS x1 r1 x2 r2))
            (fun p => axial_z RS (xyz_apex RS x1 r1 x2 r2) p
                      * ((x1 - xyz_apex RS x1 r1 x2 r2) + (x2 - xyz_apex RS x1 r1 x2 r2))).
Proof.
  intros Hx Hr H1 H2.
  unfold convert_card, to_surface_mcnp. cbn -[tan_deg].
  replace (Reqb x1 x2) with false by (symmetry; apply Reqb_false; exact Hx).
  replace (Reqb r1 r2) with false by (symmetry; apply Reqb_false; exact Hr).
  assert (Hd : x1 - x2 <> 0) by lra.
  assert (Hs : (r2 - r1) / (x2 - x1) = (r1 - r2) / (x1 - x2)) by (field; lra).
  rewrite Hs. set (t := (r1 - r2) / (x1 - x2)).
  assert (Ht : t <> 0).
  { unfold t. intros E. apply (Rmult_eq_compat_r (x1 - x2)) in E. unfold Rdiv in E.
    rewrite Rmult_assoc, Rinv_l, Rmult_1_r, Rmult_0_l in E by exact Hd. lra. }
  assert (Hsum : x1 - (x1 - r1 / t) + (x2 - (x1 - r1 / t)) = (r1 + r2) / t).
  { unfold t. field. split; lra. }
  assert (Hlt : 2 * (x1 - r1 / t) < x1 + x2 <-> 0 < (r1 + r2) / t).
  { rewrite <- Hsum. split; intros; lra. }
  clearbody t.
  replace (Reqb t 0) with false by (symmetry; apply Reqb_false; exact Ht).
  assert (Hpos : 0 < r1 + r2) by lra.
  assert (Habs : 0 <= Rabs t * Rabs t) by (rewrite Rabs_sq; nra).
  destruct (Rltb (2 * (x1 - r1 / t)) (x1 + x2)) eqn:En;
    [apply Rltb_true in En; apply Hlt in En | apply Rltb_false in En].
  - cbn -[tan_deg]. sheet_consts.
    eapply (two_lits _ _ _ _ _ 1 (/ ((r1 + r2) / t)));
    [ reflexivity | reflexivity | lra | apply Rinv_0_lt_compat; exact En
    | intros [[x y] z]; cbn -[tan_deg]; rewrite tan_deg_atan; unfold ssq; cbn;
      rewrite Rabs_sq; ring
    | intros [[x y] z]; cbn; rewrite Hsum; field; split; [exact Ht | lra] ].
  - assert (En' : (r1 + r2) / t < 0).
    { destruct (Rle_lt_or_eq_dec ((r1 + r2) / t) 0) as [Hl|He]; [|exact Hl|].
      - apply Rnot_lt_le. intros Hc. apply Hlt in Hc. lra.
      - exfalso. apply (Rmult_eq_compat_r t) in He. unfold Rdiv in He.
        rewrite Rmult_assoc, Rinv_l, Rmult_1_r, Rmult_0_l in He by exact Ht. lra. }
    cbn -[tan_deg]. sheet_consts.
    eapply (two_lits _ _ _ _ _ 1 (/ - ((r1 + r2) / t)));
    [ reflexivity | reflexivity | lra | apply Rinv_0_lt_compat; lra
    | intros [[x y] z]; cbn -[tan_deg]; rewrite tan_deg_atan; unfold ssq; cbn;
      rewrite Rabs_sq; ring
    | intros [[x y] z]; cbn; rewrite Hsum; field; split; [exact Ht | lra] ].
Qed.

(* Spec sanity: the two defining circles lie on the specified cone, on the
   kept side of the apex (or on the apex) *)
Lemma xyz_spec_contains_points x1 r1 x2 r2 :
  x1 <> x2 -> r1 <> r2 -> 0 <= r1 -> 0 <= r2 ->
  let a := xyz_apex RS x1 r1 x2 r2 in
  let s := (x1 - a) + (x2 - a) in
  fM_kx RS a (xyz_t2 RS x1 r1 x2 r2) (x1, r1, 0) = 0 /\
  fM_kx RS a (xyz_t2 RS x1 r1 x2 r2) (x2, 0, r2) = 0 /\
  0 <= (x1 - a) * s /\ 0 <= (x2 - a) * s /\ s <> 0.
Proof.
  intros Hx Hr H1 H2. cbn. unfold ssq. cbn.
  assert (Hd : x2 - x1 <> 0) by lra. assert (Hn : r2 - r1 <> 0) by lra.
  set (t := (r2 - r1) / (x2 - x1)).
  assert (Ht : t <> 0).
  { unfold t. intros E. apply (Rmult_eq_compat_r (x2 - x1)) in E. unfold Rdiv in E.
    rewrite Rmult_assoc, Rinv_l, Rmult_1_r, Rmult_0_l in E by exact Hd. lra. }
  assert (E1 : x1 - (x1 - r1 / t) = r1 / t) by ring.
  assert (E2 : x2 - (x1 - r1 / t) = r2 / t) by (unfold t; field; split; lra).
  rewrite E1, E2.
  assert (Hq : forall a b, a / t * (b / t) = a * b / (t * t)) by (intros; field; exact Ht).
  assert (Htt : 0 < / (t * t)) by (apply Rinv_0_lt_compat; nra).
  split; [field; exact Ht|]. split; [field; exact Ht|].
  replace (r1 / t + r2 / t) with ((r1 + r2) / t) by (field; exact Ht).
  rewrite !Hq. unfold Rdiv. split; [|split]; try (apply Rmult_le_pos; [nra | lra]).
  intros E. apply (Rmult_eq_compat_r t) in E.
  rewrite Rmult_assoc, Rinv_l, Rmult_1_r, Rmult_0_l in E by exact Ht. lra.
Qed.
