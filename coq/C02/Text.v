(* C02 — from the card text to the card: MIP/mip/surfacecard.py (re_surface),
   MIP/geom/surfaces.get_surfaces (re_name, int, lower, split, to_float),
   MIP/mip/datacard.to_float (float() + the Fortran spellings of re_fortran),
   ESurfaceTypeMCNP.string_to_enum, and to_surfaces_mcnp's dispatch, at the
   level of characters and tokens (ASCII; the text is Card.content(), one line).

   re_surface (blanks, flags and digits, blanks, an optional signed TR number
   with its trailing blanks, letters or slashes, blanks, the rest) is modelled
   by a deterministic greedy scanner: every quantifier is followed by a
   character class disjoint from its own (or by the anchor), so the greedy
   choice is the only one that can succeed.

   Narrower than Python on purpose (the generators stay inside): float() also
   accepts 'inf', 'nan', underscores and non-ASCII digits. *)
From Coq Require Import List NArith ZArith Bool String Ascii.
From T4V Require Import Base.Str Base.Scalar C02.Vec C02.Spec C02.Model.
Import ListNotations.
Open Scope string_scope.

(* ---------- character classes ---------- *)
Definition code (c : ascii) : N := N_of_ascii c.
(* \s and str.split() on ASCII: \t \n \v \f \r, FS GS RS US, space *)
Definition is_ws (c : ascii) : bool :=
  let n := code c in ((9 <=? n) && (n <=? 13))%N || ((28 <=? n) && (n <=? 32))%N.
Definition is_flag (c : ascii) : bool := let n := code c in (n =? 43)%N || (n =? 42)%N.   (* + * *)
Definition is_sign (c : ascii) : bool := let n := code c in (n =? 43)%N || (n =? 45)%N.   (* + - *)
Definition is_upper (c : ascii) : bool := let n := code c in ((65 <=? n) && (n <=? 90))%N.
Definition is_lower (c : ascii) : bool := let n := code c in ((97 <=? n) && (n <=? 122))%N.
Definition is_type_char (c : ascii) : bool := is_upper c || is_lower c || (code c =? 47)%N. (* / *)

Fixpoint span (p : ascii -> bool) (s : string) : string * string :=
  match s with
  | EmptyString => (EmptyString, EmptyString)
  | String c r => if p c then let '(a, b) := span p r in (String c a, b) else (EmptyString, s)
  end.

Definition is_empty (s : string) : bool := match s with EmptyString => true | _ => false end.

Definition to_lower (c : ascii) : ascii := if is_upper c then ascii_of_N (code c + 32) else c.
Fixpoint lower (s : string) : string :=
  match s with EmptyString => EmptyString | String c r => String (to_lower c) (lower r) end.

(* str.split(): maximal runs of non-whitespace *)
Fixpoint split_ws_fuel (fuel : nat) (s : string) : list string :=
  match fuel with
  | O => []
  | S f =>
      let '(_, r) := span is_ws s in
      match r with
      | EmptyString => []
      | _ => let '(tok, r') := span (fun c => negb (is_ws c)) r in tok :: split_ws_fuel f r'
      end
  end.
Definition split_ws (s : string) : list string := split_ws_fuel (S (String.length s)) s.

(* ---------- Card.content(): comments off, lines joined, blanks collapsed ---------- *)
Definition is_comment_char (c : ascii) : bool := let n := code c in (n =? 36)%N || (n =? 38)%N. (* $ & *)

(* re_comment.split(line): the text before the first $ or &, and (when there is
   a comment) the empty remainder *)
Definition split_comment (l : string) : list string :=
  let '(before, r) := span (fun c => negb (is_comment_char c)) l in
  match r with EmptyString => [l] | _ => [before; EmptyString] end.

Fixpoint join_sp (l : list string) : string :=
  match l with
  | [] => EmptyString
  | [a] => a
  | a :: r => a ++ String " "%char (join_sp r)
  end.

(* re_spaces.sub(' ', s) *)
Fixpoint collapse (inws : bool) (s : string) : string :=
  match s with
  | EmptyString => EmptyString
  | String c r => if is_ws c then (if inws then collapse true r else String " "%char (collapse true r))
                  else String c (collapse false r)
  end.

Definition content (lines : list string) : string :=
  collapse false (join_sp (flat_map split_comment lines)).

(* ---------- surfacecard.split ---------- *)
(* groups of re_surface, or None (then .groups() raises AttributeError) *)
Definition split_surface (txt : string) : option (string * string * string * string) :=
  let '(_, r) := span is_ws txt in
  let '(flags, r) := span is_flag r in
  let '(digs, r) := span is_digit r in
  if is_empty digs then None else
  let '(ws1, r) := span is_ws r in
  if is_empty ws1 then None else
  let '(sg, r) := span is_sign r in
  let '(td, r) := span is_digit r in
  let '(ws2, r) := span is_ws r in
  let '(ty, r) := span is_type_char r in
  if is_empty ty then None else
  let '(ws3, r) := span is_ws r in
  if is_empty ws3 then None else
  (* last group: the dot stops at a newline, the end anchor also matches
     before a final newline *)
  let '(g4, r') := span (fun c => negb (code c =? 10)%N) r in
  match r' with
  | EmptyString | String _ EmptyString => Some (flags ++ digs, sg ++ td ++ ws2, ty, g4)
  | _ => None
  end.

(* ---------- datacard.to_float ---------- *)
(* a decimal numeral: sign, mantissa digits (integer and fraction parts
   concatenated), power of ten *)
Record numeral := mkNum { n_neg : bool; n_mant : N; n_exp : Z }.

(* sign? digits+ at the end of the token *)
Definition scan_exp_int (s : string) : option Z :=
  let '(neg, r) := match s with
                   | String c r' => if is_sign c then ((code c =? 45)%N, r') else (false, s)
                   | EmptyString => (false, s)
                   end in
  let '(d, rest) := span is_digit r in
  if is_empty d || negb (is_empty rest) then None
  else let v := Z.of_N (parse_digits d 0) in Some (if neg then Z.opp v else v).

Definition is_e (c : ascii) : bool := let n := code c in (n =? 101)%N || (n =? 69)%N.
Definition is_d (c : ascii) : bool := let n := code c in (n =? 100)%N || (n =? 68)%N.

Definition scan_real (tok : string) : option numeral :=
  let '(neg, r) := match tok with
                   | String c r' => if is_sign c then ((code c =? 45)%N, r') else (false, tok)
                   | EmptyString => (false, tok)
                   end in
  let '(d1, r) := span is_digit r in
  let '(d2, r, dot) := match r with
                       | String c r' => if (code c =? 46)%N
                                        then let '(d, r'') := span is_digit r' in (d, r'', true)
                                        else (EmptyString, r, false)
                       | EmptyString => (EmptyString, r, false)
                       end in
  if is_empty d1 && is_empty d2 then None else
  let mant := parse_digits (d1 ++ d2) 0 in
  let frac := Z.of_nat (String.length d2) in
  match r with
  | EmptyString => Some (mkNum neg mant (Z.opp frac))
  | String c r' =>
      (* float(): e/E exponent; re_fortran: d/D exponent, or a signed exponent
         directly after the mantissa *)
      let e := if is_e c || is_d c then scan_exp_int r'
               else if is_sign c then scan_exp_int r else None in
      match e with
      | Some ev => Some (mkNum neg mant (ev - frac)%Z)
      | None => None
      end
  end.

Section Text.
Context {T : Type} (S : Scalar T).

(* 10^k; above 10^18 as a product so that the binary64 instance stays inside
   the range of its integer conversion (exact up to 10^22) *)
Definition pow10 (k : Z) : T :=
  if (k <=? 18)%Z then sofZ S (10 ^ k)%Z
  else smul S (sofZ S (10 ^ 18)%Z) (sofZ S (10 ^ (k - 18))%Z).

Definition num_value (n : numeral) : T :=
  let m := sofZ S (Z.of_N (n_mant n)) in
  let v := if (0 <=? n_exp n)%Z then smul S m (pow10 (n_exp n))
           else sdiv S m (pow10 (- n_exp n)) in
  if n_neg n then sneg S v else v.

Definition to_float (tok : string) : res T :=
  match scan_real tok with Some n => Ok (num_value n) | None => Err EValue end.

Fixpoint map_res {A B} (f : A -> res B) (l : list A) : res (list B) :=
  match l with
  | [] => Ok []
  | a :: r => do b <- f a; do r' <- map_res f r; Ok (b :: r')
  end.

(* get_surfaces on one card: (bc, name, tr, type, params) *)
Definition parse_surface_card (txt : string) : res (string * N * string * string * list T) :=
  match split_surface txt with
  | None => Err EAttr
  | Some (nm, tr, ty, rest) =>
      let '(bc, digs) := span is_flag nm in
      do prm <- map_res to_float (split_ws rest);
      Ok (bc, parse_digits digs 0, tr, lower ty, prm)
  end.

End Text.

(* ---------- string_to_enum + mcnp_to_mip ---------- *)
Inductive tyclass := TyMnem (m : mnem) | TyMacro | TyUnknown.

Definition classify (ty : string) : tyclass :=
  if String.eqb ty "px" then TyMnem M_PX else if String.eqb ty "py" then TyMnem M_PY
  else if String.eqb ty "pz" then TyMnem M_PZ else if String.eqb ty "p" then TyMnem M_P
  else if String.eqb ty "so" then TyMnem M_SO else if String.eqb ty "s" then TyMnem M_S
  else if String.eqb ty "sx" then TyMnem M_SX else if String.eqb ty "sy" then TyMnem M_SY
  else if String.eqb ty "sz" then TyMnem M_SZ
  else if String.eqb ty "c/x" then TyMnem M_C_X else if String.eqb ty "c/y" then TyMnem M_C_Y
  else if String.eqb ty "c/z" then TyMnem M_C_Z
  else if String.eqb ty "cx" then TyMnem M_CX else if String.eqb ty "cy" then TyMnem M_CY
  else if String.eqb ty "cz" then TyMnem M_CZ else if String.eqb ty "c" then TyMnem M_C
  else if String.eqb ty "k/x" then TyMnem M_K_X else if String.eqb ty "k/y" then TyMnem M_K_Y
  else if String.eqb ty "k/z" then TyMnem M_K_Z
  else if String.eqb ty "kx" then TyMnem M_KX else if String.eqb ty "ky" then TyMnem M_KY
  else if String.eqb ty "kz" then TyMnem M_KZ else if String.eqb ty "k" then TyMnem M_K
  else if String.eqb ty "sq" then TyMnem M_SQ else if String.eqb ty "gq" then TyMnem M_GQ
  else if String.eqb ty "t" then TyMnem M_T
  else if String.eqb ty "tx" then TyMnem M_TX else if String.eqb ty "ty" then TyMnem M_TY
  else if String.eqb ty "tz" then TyMnem M_TZ
  else if String.eqb ty "x" then TyMnem M_X else if String.eqb ty "y" then TyMnem M_Y
  else if String.eqb ty "z" then TyMnem M_Z
  else if String.eqb ty "box" || String.eqb ty "rpp" || String.eqb ty "sph" || String.eqb ty "rcc"
          || String.eqb ty "hex" || String.eqb ty "rhp" || String.eqb ty "rec" || String.eqb ty "trc"
          || String.eqb ty "ell" || String.eqb ty "wed" || String.eqb ty "arb" then TyMacro
  else TyUnknown.

Section TextCard.
Context {T : Type} (S : Scalar T).

(* the card text through get_surfaces, to_surfaces_mcnp and
   convert_mcnp_surface; cards with a TR number (C04) and macrobodies (C03)
   are outside this model *)
Definition convert_text (txt : string) : res (coll (T:=T)) :=
  do c <- parse_surface_card S txt;
  let '(bc, name, tr, ty, prm) := c in
  match classify ty with
  | TyUnknown => Err EValue
  | TyMacro => Err EUnmodelled
  | TyMnem mn => if is_empty tr then convert_card S mn prm else Err EUnmodelled
  end.

End TextCard.
