(* C02 — theorems about the text-to-card path (C02/Text.v): the scanner gives
   back the parts of a rendered card, the tokens denote the decimal numbers
   they spell, and the locus/sense statement composed from the card text. *)
From Coq Require Import List NArith ZArith Bool String Ascii Reals Lra Lia.
From T4V Require Import Base.Str Base.Scalar C02.Vec C02.Spec C02.Model C02.Text
                        C02.Proofs C02.ProofsCards C02.ProofsP3 C02.ProofsAll.
Import ListNotations.
Open Scope string_scope.

(* ---------- the statement from the card text ---------- *)
(* If get_surfaces reads the text as (flags, number, no TR, type, parameters),
   the type names the mnemonic mn, the Spec reads (mn, parameters) as the
   surface ms and the guards hold, then the conversion of the TEXT selects the
   negative- and positive-sense regions of ms. *)
Theorem text_every_card txt bc name ty prm mn ms :
  parse_surface_card RS txt = Ok (bc, name, "", ty, prm) ->
  classify ty = TyMnem mn ->
  mcnp_surface RS mn prm = Some ms -> admissible mn prm ->
  card_correct (convert_text RS txt) ms.
Proof.
  intros Hp Hc Hs Ha. unfold convert_text. rewrite Hp. cbn [bind]. rewrite Hc. cbn [is_empty].
  apply every_card; assumption.
Qed.

(* ---------- spans ---------- *)
Fixpoint all_chars (p : ascii -> bool) (s : string) : bool :=
  match s with EmptyString => true | String c r => p c && all_chars p r end.
Definition starts_not (p : ascii -> bool) (s : string) : bool :=
  match s with EmptyString => true | String c _ => negb (p c) end.

Lemma span_app p a b :
  all_chars p a = true -> starts_not p b = true -> span p (a ++ b) = (a, b).
Proof.
  induction a as [|c r IH]; cbn; intros Ha Hb.
  - destruct b as [|d b']; [reflexivity|]. cbn in Hb |- *. apply negb_true_iff in Hb. rewrite Hb. reflexivity.
  - apply andb_true_iff in Ha. destruct Ha as [Hc Hr]. rewrite Hc, (IH Hr Hb). reflexivity.
Qed.


Lemma str_app_nil (a : string) : a ++ "" = a.
Proof. induction a as [|c r IH]; cbn; [reflexivity|]. rewrite IH. reflexivity. Qed.

Lemma span_all p a : all_chars p a = true -> span p a = (a, EmptyString).
Proof. intros H. rewrite <- (str_app_nil a) at 1. apply span_app; [exact H|reflexivity]. Qed.

Lemma span_none p b : starts_not p b = true -> span p b = (EmptyString, b).
Proof. intros H. exact (span_app p "" b eq_refl H). Qed.

(* the first character of a ++ b when a is not empty *)
Lemma starts_not_app (p q : ascii -> bool) a b :
  (forall c, q c = true -> p c = false) -> all_chars q a = true -> a <> "" ->
  starts_not p (a ++ b) = true.
Proof.
  intros Hd Ha Hne. destruct a as [|c r]; [contradiction|]. cbn in *.
  apply andb_true_iff in Ha. destruct Ha as [Hc _]. rewrite (Hd c Hc). reflexivity.
Qed.

(* ---------- the character classes are disjoint ---------- *)
Ltac ascii_cases :=
  let c := fresh "c" in
  intros c; destruct c as [[|] [|] [|] [|] [|] [|] [|] [|]]; vm_compute; intros H;
  first [reflexivity | discriminate H].

Lemma flag_not_ws : forall c, is_flag c = true -> is_ws c = false. Proof. ascii_cases. Qed.
Lemma digit_not_ws : forall c, is_digit c = true -> is_ws c = false. Proof. ascii_cases. Qed.
Lemma digit_not_flag : forall c, is_digit c = true -> is_flag c = false. Proof. ascii_cases. Qed.
Lemma ws_not_digit : forall c, is_ws c = true -> is_digit c = false. Proof. ascii_cases. Qed.
Lemma type_not_ws : forall c, is_type_char c = true -> is_ws c = false. Proof. ascii_cases. Qed.
Lemma type_not_sign : forall c, is_type_char c = true -> is_sign c = false. Proof. ascii_cases. Qed.
Lemma type_not_digit : forall c, is_type_char c = true -> is_digit c = false. Proof. ascii_cases. Qed.
Lemma ws_not_type : forall c, is_ws c = true -> is_type_char c = false. Proof. ascii_cases. Qed.

(* ---------- surfacecard.split gives back the parts of a rendered card ---------- *)
(* blanks, flags, the digits of the number, blanks, the mnemonic, blanks, the
   rest (which does not start with a blank and holds no newline) *)
Theorem split_surface_render ws0 flags digs ws1 ty ws2 rest :
  all_chars is_ws ws0 = true -> all_chars is_flag flags = true ->
  all_chars is_digit digs = true -> digs <> "" ->
  all_chars is_ws ws1 = true -> ws1 <> "" ->
  all_chars is_type_char ty = true -> ty <> "" ->
  all_chars is_ws ws2 = true -> ws2 <> "" ->
  starts_not is_ws rest = true -> all_chars (fun c => negb (code c =? 10)%N) rest = true ->
  split_surface (ws0 ++ flags ++ digs ++ ws1 ++ ty ++ ws2 ++ rest) =
  Some (flags ++ digs, "", ty, rest).
Proof.
  intros H0 Hf Hd Hdn H1 H1n Ht Htn H2 H2n Hr Hnl.
  unfold split_surface.
  assert (S0 : starts_not is_ws (flags ++ digs ++ ws1 ++ ty ++ ws2 ++ rest) = true).
  { destruct flags as [|f fr].
    - cbn [append]. apply (starts_not_app _ _ _ _ digit_not_ws Hd Hdn).
    - apply (starts_not_app _ _ _ _ flag_not_ws Hf). discriminate. }
  rewrite (span_app _ _ _ H0 S0).
  rewrite (span_app _ _ _ Hf (starts_not_app _ _ _ _ digit_not_flag Hd Hdn)).
  rewrite (span_app _ _ _ Hd (starts_not_app _ _ _ _ ws_not_digit H1 H1n)).
  destruct digs as [|d0 dr]; [contradiction|]. cbn [is_empty].
  rewrite (span_app _ _ _ H1 (starts_not_app _ _ _ _ type_not_ws Ht Htn)).
  destruct ws1 as [|w0 wr]; [contradiction|]. cbn [is_empty].
  rewrite (span_none _ _ (starts_not_app _ _ _ _ type_not_sign Ht Htn)).
  rewrite (span_none _ _ (starts_not_app _ _ _ _ type_not_digit Ht Htn)).
  rewrite (span_none _ _ (starts_not_app _ _ _ _ type_not_ws Ht Htn)).
  rewrite (span_app _ _ _ Ht (starts_not_app _ _ _ _ ws_not_type H2 H2n)).
  destruct ty as [|t0 tr]; [contradiction|]. cbn [is_empty].
  rewrite (span_app _ _ _ H2 Hr).
  destruct ws2 as [|v0 vr]; [contradiction|]. cbn [is_empty].
  rewrite (span_all _ _ Hnl). reflexivity.
Qed.

(* ---------- tokens denote the decimal numbers they spell ---------- *)
Lemma digit_not_sign : forall c, is_digit c = true -> is_sign c = false. Proof. ascii_cases. Qed.
Lemma digit_not_dot : forall c, is_digit c = true -> (code c =? 46)%N = false. Proof. ascii_cases. Qed.

(* the exponent part of a token: nothing, e/E/d/D then an integer, or (Fortran)
   a signed integer directly after the mantissa *)
Definition suffix_exp (suffix : string) : option Z :=
  match suffix with
  | EmptyString => Some 0%Z
  | String c r => if is_e c || is_d c then scan_exp_int r
                  else if is_sign c then scan_exp_int suffix else None
  end.

Lemma suffix_not_digit suffix e : suffix_exp suffix = Some e -> starts_not is_digit suffix = true.
Proof.
  destruct suffix as [|c r]; [reflexivity|]. cbn.
  destruct (is_digit c) eqn:Ed; [|reflexivity]. intros H. exfalso.
  revert Ed H. clear. destruct c as [[|] [|] [|] [|] [|] [|] [|] [|]]; vm_compute; congruence.
Qed.

(* mantissa with a decimal point: d1 . d2 suffix  denotes  (d1 d2) * 10^(e - |d2|) *)
Theorem scan_real_point d1 d2 suffix e :
  all_chars is_digit d1 = true -> all_chars is_digit d2 = true -> (d1 <> "" \/ d2 <> "") ->
  suffix_exp suffix = Some e ->
  scan_real (d1 ++ String "."%char (d2 ++ suffix)) =
  Some (mkNum false (parse_digits (d1 ++ d2) 0) (e - Z.of_nat (String.length d2))).
Proof.
  intros H1 H2 Hne He. unfold scan_real.
  assert (Hhead : match d1 ++ String "."%char (d2 ++ suffix) with
                  | String c r' => if is_sign c then ((code c =? 45)%N, r')
                                   else (false, d1 ++ String "."%char (d2 ++ suffix))
                  | EmptyString => (false, d1 ++ String "."%char (d2 ++ suffix))
                  end = (false, d1 ++ String "."%char (d2 ++ suffix))).
  { destruct d1 as [|c r]; [reflexivity|]. cbn in H1 |- *.
    apply andb_true_iff in H1. destruct H1 as [Hc _]. rewrite (digit_not_sign c Hc). reflexivity. }
  rewrite Hhead.
  rewrite (span_app is_digit d1 (String "."%char (d2 ++ suffix)) H1 eq_refl).
  change ((code "."%char =? 46)%N) with true. cbv iota.
  rewrite (span_app is_digit d2 suffix H2 (suffix_not_digit suffix e He)).
  assert (Hemp : is_empty d1 && is_empty d2 = false).
  { destruct d1, d2; try reflexivity. destruct Hne; contradiction. }
  rewrite Hemp. destruct suffix as [|c r].
  - cbn in He. injection He as <-. reflexivity.
  - cbn in He. cbn [suffix_exp] in *. destruct (is_e c || is_d c).
    + rewrite He. reflexivity.
    + destruct (is_sign c); [rewrite He; reflexivity | discriminate].
Qed.

(* mantissa without a point *)
Theorem scan_real_int d1 suffix e :
  all_chars is_digit d1 = true -> d1 <> "" -> suffix_exp suffix = Some e ->
  starts_not (fun c => (code c =? 46)%N) suffix = true ->
  scan_real (d1 ++ suffix) = Some (mkNum false (parse_digits d1 0) e).
Proof.
  intros H1 Hne He Hdot. unfold scan_real.
  assert (Hhead : match d1 ++ suffix with
                  | String c r' => if is_sign c then ((code c =? 45)%N, r') else (false, d1 ++ suffix)
                  | EmptyString => (false, d1 ++ suffix)
                  end = (false, d1 ++ suffix)).
  { destruct d1 as [|c r]; [contradiction|]. cbn in H1 |- *.
    apply andb_true_iff in H1. destruct H1 as [Hc _]. rewrite (digit_not_sign c Hc). reflexivity. }
  rewrite Hhead. rewrite (span_app is_digit d1 suffix H1 (suffix_not_digit suffix e He)).
  destruct suffix as [|c r].
  - destruct d1; [contradiction|]. cbn [is_empty andb]. rewrite str_app_nil.
    cbn in He. injection He as <-. reflexivity.
  - cbn in Hdot. apply negb_true_iff in Hdot. rewrite Hdot.
    destruct d1 as [|c0 r0]; [contradiction|]. cbn [is_empty andb]. rewrite str_app_nil.
    cbn [suffix_exp] in He. rewrite He. cbn [String.length Z.of_nat]. rewrite Z.sub_0_r. reflexivity.
Qed.

(* a leading sign *)
Theorem scan_real_sign body n :
  starts_not is_sign body = true -> scan_real body = Some n ->
  scan_real (String "-"%char body) = Some (mkNum true (n_mant n) (n_exp n)) /\
  scan_real (String "+"%char body) = Some (mkNum false (n_mant n) (n_exp n)) /\
  n_neg n = false.
Proof.
  intros Hs Hb.
  assert (Hbody : match body with
                  | String c r' => if is_sign c then ((code c =? 45)%N, r') else (false, body)
                  | EmptyString => (false, body)
                  end = (false, body)).
  { destruct body as [|c r]; [reflexivity|]. cbn in Hs. apply negb_true_iff in Hs. rewrite Hs. reflexivity. }
  unfold scan_real in Hb. rewrite Hbody in Hb.
  unfold scan_real. change (is_sign "-"%char) with true. change (is_sign "+"%char) with true.
  change ((code "-"%char =? 45)%N) with true. change ((code "+"%char =? 45)%N) with false.
  cbv iota.
  destruct (span is_digit body) as [d1 r].
  destruct (match r with
            | String c r' => if (code c =? 46)%N then let '(d, r'') := span is_digit r' in (d, r'', true)
                             else (EmptyString, r, false)
            | EmptyString => (EmptyString, r, false)
            end) as [[d2 r2] dot].
  destruct (is_empty d1 && is_empty d2); [discriminate|].
  destruct r2 as [|c r'].
  - injection Hb as <-. cbn. auto.
  - destruct (if is_e c || is_d c then scan_exp_int r'
              else if is_sign c then scan_exp_int (String c r') else None); [|discriminate].
    injection Hb as <-. cbn. auto.
Qed.

(* the spellings of the manual, computed *)
Example scan_real_examples :
  scan_real "6.40875-2" = Some (mkNum false 640875 (-7)) /\
  scan_real "1.5d3" = Some (mkNum false 15 2) /\
  scan_real "-1.5D+3" = Some (mkNum true 15 2) /\
  scan_real "1.5+3" = Some (mkNum false 15 2) /\
  scan_real "1e-3" = Some (mkNum false 1 (-3)) /\
  scan_real ".5" = Some (mkNum false 5 (-1)) /\
  scan_real "5." = Some (mkNum false 5 0) /\
  scan_real "1-5" = Some (mkNum false 1 (-5)) /\
  scan_real "1.5d" = None /\ scan_real "." = None /\ scan_real "1e" = None /\
  scan_real "--1" = None /\ scan_real "1.5e3d2" = None.
Proof. vm_compute. repeat split. Qed.

(* ---------- the real number of a numeral ---------- *)
Open Scope R_scope.

Lemma pow10_RS k : (0 <= k)%Z -> pow10 RS k = IZR (10 ^ k).
Proof.
  intros Hk. unfold pow10. destruct (k <=? 18)%Z eqn:E; [reflexivity|].
  apply Z.leb_gt in E. cbn [smul sofZ RS]. rewrite <- mult_IZR. f_equal.
  rewrite <- Z.pow_add_r by lia. f_equal. lia.
Qed.

Theorem num_value_real neg m e :
  num_value RS (mkNum neg m e) =
  (if neg then -1 else 1) *
  (if (0 <=? e)%Z then IZR (Z.of_N m) * IZR (10 ^ e) else IZR (Z.of_N m) / IZR (10 ^ (- e))).
Proof.
  unfold num_value. cbn [n_neg n_mant n_exp].
  destruct (0 <=? e)%Z eqn:E.
  - apply Z.leb_le in E. rewrite (pow10_RS e E). destruct neg; cbn; ring.
  - apply Z.leb_gt in E. rewrite (pow10_RS (- e)) by lia. destruct neg; cbn; field;
      apply not_0_IZR; apply Z.pow_nonzero; lia.
Qed.

(* ---------- non-vacuity: a card text inside all hypotheses ---------- *)
Open Scope string_scope.
Example text_example :
  exists ms, m_sheet ms <> None /\ card_correct (convert_text RS "  *7  KZ 0 1.0d0  -1 ") ms.
Proof.
  set (v0 := num_value RS (mkNum false 0 0)).
  set (v1 := num_value RS (mkNum false 10 (-1))).
  set (v2 := num_value RS (mkNum true 1 0)).
  assert (Hp : parse_surface_card RS "  *7  KZ 0 1.0d0  -1 " = Ok ("*", 7%N, "", "kz", [v0; v1; v2])).
  { vm_compute. reflexivity. }
  assert (E0 : v0 = 0%R) by (unfold v0; rewrite num_value_real; cbn; lra).
  assert (E1 : v1 = 1%R) by (unfold v1; rewrite num_value_real; cbn; lra).
  assert (E2 : v2 = (-1)%R) by (unfold v2; rewrite num_value_real; cbn; lra).
  clearbody v0 v1 v2. subst v0 v1 v2.
  assert (Hs : mcnp_surface RS M_KZ [0%R; 1%R; (-1)%R] =
               Some (mkMsurf (fM_kz RS 0 1) (Some (fun p => sneg RS (axial_z RS 0 p))))).
  { cbn. unfold k_card. cbn.
    replace (Reqb (-1) 0) with false by (symmetry; apply Reqb_false; lra).
    replace (Reqb (-1) 1) with false by (symmetry; apply Reqb_false; lra).
    replace (Reqb (-1) (- (1))) with true by (symmetry; apply Reqb_true; lra).
    reflexivity. }
  eexists. split; [|eapply (text_every_card _ _ _ _ _ M_KZ _ Hp eq_refl Hs)].
  - discriminate.
  - cbn. lra.
Qed.
