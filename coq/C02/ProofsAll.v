(* C02 — one statement for every mnemonic: the Spec's reading of a card
   (Spec.mcnp_surface, tied to the harness's reference by execution) against
   the modelled conversion. *)
From Coq Require Import List ZArith Bool Reals Lra Lia Psatz.
From T4V Require Import Base.Scalar C02.Vec C02.Spec C02.Model C02.Proofs C02.ProofsCards C02.ProofsP3.
Import ListNotations.
Open Scope R_scope.

Notation msurfR := (msurf (T:=R)).

(* MCNP: negative sense = f < 0 and, for a one-sheet cone, on the kept side *)
Definition neg_sense (ms : msurfR) (p : pointR) : Prop :=
  m_f ms p < 0 /\ match m_sheet ms with None => True | Some g => 0 < g p end.
Definition pos_sense (ms : msurfR) (p : pointR) : Prop :=
  0 < m_f ms p \/ match m_sheet ms with None => False | Some g => g p < 0 end.

(* the converted card: -s selects exactly the points of negative sense, +s
   exactly those of positive sense, and the first emitted surface has the zero
   set of the MCNP equation *)
Definition card_correct (out : res collR) (ms : msurfR) : Prop :=
  exists c, out = Ok c /\ forall p,
    (neg_coll c p <-> neg_sense ms p) /\ (pos_coll c p <-> pos_sense ms p) /\
    (exists s rest h, c = (s, 1%Z) :: rest /\ f_T4 RS (fst s) (snd s) = Some h /\
                      (h p = 0 <-> m_f ms p = 0)).

Lemma two_sided_correct out f : locus_sense out f -> card_correct out (mkMsurf f None).
Proof.
  intros H. destruct (locus_sense_regions _ _ H) as (c & Hc & Hreg).
  exists c. split; [exact Hc|]. intros p. destruct (Hreg p) as (Hn & Hp & ty & prm & g & Ec & Hg & Hz).
  unfold neg_sense, pos_sense. cbn. split; [|split].
  - rewrite Hn. tauto.
  - rewrite Hp. tauto.
  - exists (ty, prm), [], g. auto.
Qed.

Lemma one_sheet_correct out f g g' :
  (forall p, g p = g' p) -> one_sheet out f g -> card_correct out (mkMsurf f (Some g')).
Proof.
  intros He (c & Hc & Hreg). exists c. split; [exact Hc|]. intros p.
  destruct (Hreg p) as (Hn & Hp & Hz). unfold neg_sense, pos_sense. cbn.
  rewrite <- He. auto.
Qed.

(* the hypotheses under which the statement is proved; everything else of
   MCNP's admissibility (positive radii, ...) is not needed *)
Definition admissible (mn : mnem) (prm : list R) : Prop :=
  match mn with
  | M_P =>
      match prm with
      | [A; B; C; _] => (A, B, C) <> (0, 0, 0)
      | [x1; y1; z1; x2; y2; z2; x3; y3; z3] =>
          p3_guard (p3_normal RS (x1, y1, z1) (x2, y2, z2) (x3, y3, z3)) (x1, y1, z1)
      | _ => True
      end
  | M_K_X | M_K_Y | M_K_Z => 0 <= nth 3 prm 0
  | M_KX | M_KY | M_KZ => 0 <= nth 1 prm 0
  | M_X | M_Y | M_Z =>
      match prm with
      | [x1; r1; x2; r2] => x1 = x2 \/ r1 = r2 \/ (0 <= r1 /\ 0 <= r2)
      | _ => True
      end
  | _ => True
  end.

Ltac peel H :=
  repeat match type of H with
  | context [match ?l with nil => _ | cons _ _ => _ end] =>
      is_var l; destruct l as [|? l]; cbn [mcnp_surface xyz_card] in H; try discriminate H
  end.

Ltac two H lem := inversion H; subst; apply two_sided_correct; apply lem.

(* K cards with a selector *)
Ltac ksel H Ha lem0 lem1 :=
  unfold k_card in H; cbn [seqb RS s0 s1 sneg] in H;
  match type of H with
  | two_sided _ = _ => two H lem0
  | _ =>
    match type of H with context [Reqb ?s 0] =>
      destruct (Reqb s 0) eqn:E0;
      [ apply Reqb_true in E0; subst; two H lem0
      | destruct (Reqb s 1) eqn:E1;
        [ apply Reqb_true in E1; subst; inversion H; subst;
          eapply one_sheet_correct; [|apply lem1; [exact Ha | left; reflexivity]];
          intros [[x y] z]; cbn; ring
        | destruct (Reqb s (- (1))) eqn:E2; [|discriminate H];
          apply Reqb_true in E2; subst; inversion H; subst;
          eapply one_sheet_correct; [|apply lem1; [exact Ha | right; reflexivity]];
          intros [[x y] z]; cbn; ring ] ]
    end
  end.

Theorem every_card mn prm ms :
  mcnp_surface RS mn prm = Some ms -> admissible mn prm ->
  card_correct (convert_card RS mn prm) ms.
Proof.
  intros H Ha. destruct mn; cbn [mcnp_surface] in H; try discriminate H.
  - (* PX *) peel H. two H px_locus_sense.
  - peel H. two H py_locus_sense.
  - peel H. two H pz_locus_sense.
  - (* P *) peel H.
    + two H p_locus_sense. exact Ha.
    + destruct (p3_locus_sense _ _ _ _ _ _ _ _ _ Ha) as (A & B & C & D & Hp & Hl).
      cbv zeta in Hp. rewrite Hp in H. two H Hl.
  - peel H. two H so_locus_sense.
  - peel H. two H s_locus_sense.
  - peel H. two H sx_locus_sense.
  - peel H. two H sy_locus_sense.
  - peel H. two H sz_locus_sense.
  - peel H. two H c_x_locus_sense.
  - peel H. two H c_y_locus_sense.
  - peel H. two H c_z_locus_sense.
  - peel H. two H cx_locus_sense.
  - peel H. two H cy_locus_sense.
  - peel H. two H cz_locus_sense.
  - (* K/X *) peel H; cbn in Ha.
    + ksel H Ha (k_x_locus_sense r r0 r1 r2 Ha) k_x_sheet_locus_sense.
    + ksel H Ha (k_x_sheet0_locus_sense r r0 r1 r2 Ha) k_x_sheet_locus_sense.
  - peel H; cbn in Ha.
    + ksel H Ha (k_y_locus_sense r r0 r1 r2 Ha) k_y_sheet_locus_sense.
    + ksel H Ha (k_y_sheet0_locus_sense r r0 r1 r2 Ha) k_y_sheet_locus_sense.
  - peel H; cbn in Ha.
    + ksel H Ha (k_z_locus_sense r r0 r1 r2 Ha) k_z_sheet_locus_sense.
    + ksel H Ha (k_z_sheet0_locus_sense r r0 r1 r2 Ha) k_z_sheet_locus_sense.
  - (* KX *) peel H; cbn in Ha.
    + ksel H Ha (kx_locus_sense r r0 Ha) kx_sheet_locus_sense.
    + ksel H Ha (kx_sheet0_locus_sense r r0 Ha) kx_sheet_locus_sense.
  - peel H; cbn in Ha.
    + ksel H Ha (ky_locus_sense r r0 Ha) ky_sheet_locus_sense.
    + ksel H Ha (ky_sheet0_locus_sense r r0 Ha) ky_sheet_locus_sense.
  - peel H; cbn in Ha.
    + ksel H Ha (kz_locus_sense r r0 Ha) kz_sheet_locus_sense.
    + ksel H Ha (kz_sheet0_locus_sense r r0 Ha) kz_sheet_locus_sense.
  - (* SQ *) peel H. two H sq_locus_sense.
  - peel H. two H gq_locus_sense.
  - peel H. two H tx_locus_sense.
  - peel H. two H ty_locus_sense.
  - peel H. two H tz_locus_sense.
  - (* X *) unfold xyz_card in H. peel H.
    + two H x2_locus_sense.
    + cbn [seqb RS] in H. destruct (Reqb r r1) eqn:Ex.
      * apply Reqb_true in Ex. subst. two H x_plane_locus_sense.
      * apply Reqb_false in Ex. destruct (Reqb r0 r2) eqn:Er.
        -- apply Reqb_true in Er. subst. two H x_cyl_locus_sense. exact Ex.
        -- apply Reqb_false in Er. cbn in Ha.
           destruct Ha as [Ha|[Ha|[Ha1 Ha2]]]; [contradiction|contradiction|].
           inversion H; subst.
           eapply one_sheet_correct; [|apply (x_cone_locus_sense r r0 r1 r2 Ex Er Ha1 Ha2)].
           intros [[x y] z]. reflexivity.
  - (* Y *) unfold xyz_card in H. peel H.
    + two H y2_locus_sense.
    + cbn [seqb RS] in H. destruct (Reqb r r1) eqn:Ex.
      * apply Reqb_true in Ex. subst. two H y_plane_locus_sense.
      * apply Reqb_false in Ex. destruct (Reqb r0 r2) eqn:Er.
        -- apply Reqb_true in Er. subst. two H y_cyl_locus_sense. exact Ex.
        -- apply Reqb_false in Er. cbn in Ha.
           destruct Ha as [Ha|[Ha|[Ha1 Ha2]]]; [contradiction|contradiction|].
           inversion H; subst.
           eapply one_sheet_correct; [|apply (y_cone_locus_sense r r0 r1 r2 Ex Er Ha1 Ha2)].
           intros [[x y] z]. reflexivity.
  - (* Z *) unfold xyz_card in H. peel H.
    + two H z2_locus_sense.
    + cbn [seqb RS] in H. destruct (Reqb r r1) eqn:Ex.
      * apply Reqb_true in Ex. subst. two H z_plane_locus_sense.
      * apply Reqb_false in Ex. destruct (Reqb r0 r2) eqn:Er.
        -- apply Reqb_true in Er. subst. two H z_cyl_locus_sense. exact Ex.
        -- apply Reqb_false in Er. cbn in Ha.
           destruct Ha as [Ha|[Ha|[Ha1 Ha2]]]; [contradiction|contradiction|].
           inversion H; subst.
           eapply one_sheet_correct; [|apply (z_cone_locus_sense r r0 r1 r2 Ex Er Ha1 Ha2)].
           intros [[x y] z]. reflexivity.
Qed.

(* non-vacuity: the apex-coincident card X 0 0 1 1 and the one-sheet K/Z card
   are inside the hypotheses *)
Lemma every_card_examples :
  (exists ms, mcnp_surface RS M_X [0; 0; 1; 1] = Some ms /\ m_sheet ms <> None /\
              admissible M_X [0; 0; 1; 1]) /\
  (exists ms, mcnp_surface RS M_K_Z [1; 2; 3; 1 / 4; -1] = Some ms /\ m_sheet ms <> None /\
              admissible M_K_Z [1; 2; 3; 1 / 4; -1]) /\
  (exists ms, mcnp_surface RS M_P [0; 0; 1; 1; 0; 1; 0; 1; 1] = Some ms /\
              admissible M_P [0; 0; 1; 1; 0; 1; 0; 1; 1]).
Proof.
  split; [|split].
  - cbn. rewrite Reqb_0_1. eexists. split; [reflexivity|]. split; [discriminate|].
    right; right; lra.
  - cbn. unfold k_card. cbn.
    replace (Reqb (-1) 0) with false by (symmetry; apply Reqb_false; lra).
    replace (Reqb (-1) 1) with false by (symmetry; apply Reqb_false; lra).
    replace (Reqb (-1) (- (1))) with true by (symmetry; apply Reqb_true; lra).
    eexists. split; [reflexivity|]. split; [discriminate|]. lra.
  - destruct (p3_locus_sense _ _ _ _ _ _ _ _ _ p3_guard_example) as (A & B & C & D & Hp & _).
    cbv zeta in Hp. cbn [mcnp_surface]. rewrite Hp. eexists. split; [reflexivity|].
    exact p3_guard_example.
Qed.

(* the number whose sign the harness compares with its Python reference
   (Spec.sense_value, tie spec-fM) has exactly the sign of the MCNP sense used
   in the theorems *)
Lemma sense_value_sign (ms : msurfR) p :
  (sense_value RS ms p < 0 <-> neg_sense ms p) /\ (0 < sense_value RS ms p <-> pos_sense ms p).
Proof.
  unfold sense_value, neg_sense, pos_sense. destruct (m_sheet ms) as [g|]; cbn.
  - destruct (Rltb (m_f ms p) (- g p)) eqn:E;
      [apply Rltb_true in E | apply Rltb_false in E]; split; split; intros H; lra.
  - split; split; intros H; tauto || lra.
Qed.
