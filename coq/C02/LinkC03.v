(* C02 — link with C03 (macrobodies) and, through C03's packaging of C04's TR
   card theorems (card_gives), with the TEXT of the TR card: read-only.
   (a) a macrobody card text goes through C02's scanner and C03's body_t4;
   (b) the hypothesis "TRn = (O, B), B orthonormal" of C02's linked theorems is
       discharged from card_gives, i.e. from what C04's model of the converter
       returns for the TR card. *)
From Coq Require Import List NArith ZArith Bool String Ascii Reals Lra Lia.
From T4V Require Import Base.Str Base.Scalar C02.Vec C02.Spec C02.Model C02.Text C02.ProofsText
                        C02.Proofs C02.ProofsCards C02.ProofsP3 C02.ProofsAll C02.LinkC04.
From T4V Require C03.Vec C03.Model C03.Convert C03.Spec C03.SpecT4 C03.ProofsWritten C03.Proofs C03.LinkC04 C03.LinkedWritten.
Import ListNotations.
Open Scope R_scope.

Module B3 := T4V.C03.Model.
Module E3 := T4V.C03.Vec.
Module K3 := T4V.C03.Convert.
Module P3 := T4V.C03.Spec.
Module Q3 := T4V.C03.SpecT4.
Module W3 := T4V.C03.ProofsWritten.
Module L3 := T4V.C03.LinkC04.
Module LW3 := T4V.C03.LinkedWritten.

(* ---------- (b) the TR card ---------- *)
Lemma card_gives_tr12 l o b : L3.card_gives l o b -> l = C4.tr12 o b /\ S4.rows_orthonormal b.
Proof.
  intros Hc. split; [|exact (proj1 Hc)].
  destruct (L3.card_transformation l o b Hc) as (E & _).
  destruct o as [o1 o2 o3], b as [[b1 b2 b3] [b4 b5 b6] [b7 b8 b9]].
  unfold L3.transf_of_list in E.
  repeat (destruct l as [|? l]; try discriminate E).
  unfold L3.transf_of_c04, L3.pt_of in E. cbn in E. injection E as -> -> -> -> -> -> -> -> -> -> -> ->.
  reflexivity.
Qed.

(* the linked statement of LinkC04.v with the transformation READ FROM THE TR
   CARD: trs holds, under the number n, what the converter's TR-card code
   returns (C04's tr_card / parse_trcl at RS) for a card whose matrix has
   orthonormal rows -- 12 or 13 entries, starred (degrees) or not, 3 entries,
   or abbreviated with J (C03's card_gives = C04_tr_card_12, _star_12, _3,
   and the normalize_matrix theorems) *)
Theorem text_every_card_tr_card_linked txt bc name tr ty prm mn ms n l o b trs :
  parse_surface_card RS txt = Ok (bc, name, tr, ty, prm) ->
  tr_number tr = Some n -> M4.lookup n trs = M4.Ok l -> L3.card_gives l o b ->
  classify ty = TyMnem mn -> linkable_all mn ->
  mcnp_surface RS mn prm = Some ms -> admissible mn prm ->
  exists coll, convert_text_tr trs txt = M4.Ok coll /\
    forall p', (S4.coll_neg coll (S4.to_main o b p') <-> neg_sense ms (pt3 p')) /\
               (S4.coll_pos coll (S4.to_main o b p') <-> pos_sense ms (pt3 p')).
Proof.
  intros Hp Hn Hlk Hc Hcl Hl Hs Ha. destruct (card_gives_tr12 l o b Hc) as (-> & Hb).
  exact (text_every_card_linked_all txt bc name tr ty prm mn ms n o b trs Hp Hn Hlk Hb Hcl Hl Hs Ha).
Qed.

(* ---------- (a) macrobody cards ---------- *)
Open Scope string_scope.
Definition body_of_type (ty : string) : option B3.body :=
  if String.eqb ty "box" then Some B3.BOX else if String.eqb ty "rpp" then Some B3.RPP
  else if String.eqb ty "sph" then Some B3.SPH else if String.eqb ty "rcc" then Some B3.RCC
  else if String.eqb ty "rhp" then Some B3.RHP else if String.eqb ty "hex" then Some B3.HEX
  else if String.eqb ty "rec" then Some B3.REC else if String.eqb ty "trc" then Some B3.TRC
  else if String.eqb ty "ell" then Some B3.ELL else if String.eqb ty "wed" then Some B3.WED
  else if String.eqb ty "arb" then Some B3.ARB else None.

(* the parameter tokens of the card *)
Definition card_tokens (txt : string) : list string :=
  match split_surface txt with Some (_, _, _, rest) => split_ws rest | None => [] end.

(* what the body function receives: the values; for ARB the first 24 values
   and the last six tokens read as integers (facet descriptors) *)
Definition body_args (bd : B3.body) (toks : list string) (vals : list R) : list R * list N :=
  match bd with
  | B3.ARB => (firstn 24 vals, map (fun t => parse_digits t 0) (skipn 24 toks))
  | _ => (vals, [])
  end.

(* the card text of a macrobody through get_surfaces (C02), to_surfaces_macro and
   the conversion of every facet (C03); tr = the parsed TR cards *)
Definition convert_text_body (trs : list (Z * list R)) (txt : string)
  : E3.res (list Q3.rt4e) :=
  match parse_surface_card RS txt with
  | Err _ => E3.Err E3.EMacroBody
  | Ok (bc, name, tr, ty, prm) =>
      match body_of_type ty with
      | None => E3.Err E3.EMacroBody
      | Some bd =>
          let '(p, d) := body_args bd (card_tokens txt) prm in
          if is_empty tr then K3.body_t4 RS None bd p d
          else match tr_number tr with
               | Some n => match M4.lookup n trs with
                           | M4.Ok l => K3.body_t4 RS (L3.transf_of_list l) bd p d
                           | M4.Err _ => E3.Err E3.EMacroBody
                           end
               | None => E3.Err E3.EMacroBody
               end
      end
  end.

(* a macrobody card text WITHOUT a TR number: whenever C03's body function
   yields MCNP's facets fs for the card's parameters (C03_<body>_facet_k under
   the body's admissibility), the written surfaces are those facets, in order,
   outward side positive *)
Theorem text_body_linked txt bc name ty prm bd fs :
  parse_surface_card RS txt = Ok (bc, name, "", ty, prm) ->
  body_of_type ty = Some bd ->
  (exists es, B3.body_parts RS bd (fst (body_args bd (card_tokens txt) prm))
                            (snd (body_args bd (card_tokens txt) prm)) = E3.Ok es /\
              Forall Q3.entry_wf es /\ Forall2 P3.same_facet es fs) ->
  exists ts, convert_text_body [] txt = E3.Ok ts /\
             Forall2 (Q3.same_t4_facet (fun p => p)) ts fs.
Proof.
  intros Hp Hb Hes. unfold convert_text_body. rewrite Hp, Hb.
  destruct (body_args bd (card_tokens txt) prm) as [p d]. cbn [fst snd is_empty] in *.
  exact (W3.written_from_facets None bd p d fs I Hes).
Qed.

(* ... and WITH a TR number n whose card gives (O, B): the written surfaces are
   the facets read in the auxiliary frame B (q - O) *)
Theorem text_body_tr_linked txt bc name tr ty prm bd fs n l o b trs :
  parse_surface_card RS txt = Ok (bc, name, tr, ty, prm) ->
  is_empty tr = false -> tr_number tr = Some n ->
  M4.lookup n trs = M4.Ok l -> L3.card_gives l o b ->
  body_of_type ty = Some bd ->
  (exists es, B3.body_parts RS bd (fst (body_args bd (card_tokens txt) prm))
                            (snd (body_args bd (card_tokens txt) prm)) = E3.Ok es /\
              Forall Q3.entry_wf es /\ Forall2 P3.same_facet es fs) ->
  exists ts, convert_text_body trs txt = E3.Ok ts /\
             Forall2 (Q3.same_t4_facet (LW3.aux_c04 o b)) ts fs.
Proof.
  intros Hp He Hn Hlk Hc Hb Hes. unfold convert_text_body. rewrite Hp, Hb.
  destruct (body_args bd (card_tokens txt) prm) as [p d]. cbn [fst snd] in *.
  rewrite He, Hn, Hlk.
  exact (LW3.written_linked l o b bd p d fs Hc Hes).
Qed.

(* the adapter: for a macrobody card text the linked pipeline IS C03's body_t4
   on the card's parameters, so every C03_<body>_written theorem applies *)
Lemma text_body_is_body_t4 txt bc name ty prm bd :
  parse_surface_card RS txt = Ok (bc, name, "", ty, prm) -> body_of_type ty = Some bd ->
  convert_text_body [] txt =
  K3.body_t4 RS None bd (fst (body_args bd (card_tokens txt) prm)) (snd (body_args bd (card_tokens txt) prm)).
Proof.
  intros Hp Hb. unfold convert_text_body. rewrite Hp, Hb.
  destruct (body_args bd (card_tokens txt) prm) as [p d]. reflexivity.
Qed.

(* RPP, SPH and RCC from the card text (C03_rpp_written, C03_sph_written,
   C03_rcc_written through the adapter) *)
Theorem text_rpp_sph_rcc_linked :
  (forall txt bc name x0 x1 y0 y1 z0 z1,
     parse_surface_card RS txt = Ok (bc, name, "", "rpp", [x0; x1; y0; y1; z0; z1]) ->
     exists ts, convert_text_body [] txt = E3.Ok ts /\
       Forall2 (Q3.same_t4_facet (fun p => p)) ts (P3.rpp_facets x0 x1 y0 y1 z0 z1)) /\
  (forall txt bc name cx cy cz r,
     parse_surface_card RS txt = Ok (bc, name, "", "sph", [cx; cy; cz; r]) ->
     exists ts, convert_text_body [] txt = E3.Ok ts /\
       Forall2 (Q3.same_t4_facet (fun p => p)) ts (P3.sph_facets (cx, cy, cz) r)) /\
  (forall txt bc name vx vy vz hx hy hz r,
     parse_surface_card RS txt = Ok (bc, name, "", "rcc", [vx; vy; vz; hx; hy; hz; r]) ->
     (hx, hy, hz) <> (0, 0, 0) ->
     exists ts, convert_text_body [] txt = E3.Ok ts /\
       Forall2 (Q3.same_t4_facet (fun p => p)) ts (P3.rcc_facets (vx, vy, vz) (hx, hy, hz) r)).
Proof.
  split; [|split].
  - intros txt bc name x0 x1 y0 y1 z0 z1 Hp.
    rewrite (text_body_is_body_t4 _ _ _ _ _ B3.RPP Hp eq_refl). cbn [body_args fst snd].
    exact (T4V.C03.Proofs.rpp_written None x0 x1 y0 y1 z0 z1 I).
  - intros txt bc name cx cy cz r Hp.
    rewrite (text_body_is_body_t4 _ _ _ _ _ B3.SPH Hp eq_refl). cbn [body_args fst snd].
    exact (T4V.C03.Proofs.sph_written None (cx, cy, cz) r I).
  - intros txt bc name vx vy vz hx hy hz r Hp Hh.
    rewrite (text_body_is_body_t4 _ _ _ _ _ B3.RCC Hp eq_refl). cbn [body_args fst snd].
    exact (T4V.C03.Proofs.rcc_written None (vx, vy, vz) (hx, hy, hz) r I Hh).
Qed.

(* non-vacuity: the card "5 RPP -1 1 -2 2 -3 3" *)
Example body_text_example :
  exists ts, convert_text_body [] "5 RPP -1 1 -2 2 -3 3" = E3.Ok ts /\
    Forall2 (Q3.same_t4_facet (fun p => p)) ts (P3.rpp_facets (-1) 1 (-2) 2 (-3) 3).
Proof.
  set (a := num_value RS (mkNum true 1 0)). set (b := num_value RS (mkNum false 1 0)).
  set (c := num_value RS (mkNum true 2 0)). set (d := num_value RS (mkNum false 2 0)).
  set (e := num_value RS (mkNum true 3 0)). set (f := num_value RS (mkNum false 3 0)).
  assert (Hp : parse_surface_card RS "5 RPP -1 1 -2 2 -3 3" = Ok ("", 5%N, "", "rpp", [a; b; c; d; e; f])).
  { vm_compute. reflexivity. }
  assert (Ea : a = -1) by (unfold a; rewrite num_value_real; cbn; lra).
  assert (Eb : b = 1) by (unfold b; rewrite num_value_real; cbn; lra).
  assert (Ec : c = -2) by (unfold c; rewrite num_value_real; cbn; lra).
  assert (Ed : d = 2) by (unfold d; rewrite num_value_real; cbn; lra).
  assert (Ee : e = -3) by (unfold e; rewrite num_value_real; cbn; lra).
  assert (Ef : f = 3) by (unfold f; rewrite num_value_real; cbn; lra).
  clearbody a b c d e f. subst.
  exact (proj1 text_rpp_sph_rcc_linked _ _ _ _ _ _ _ _ _ Hp).
Qed.

(* ---------- the no-TR body pipeline over any scalar (executed by the tie) ---------- *)
Section BodyG.
Context {T : Type} (S : Scalar T).
Definition body_args_g (bd : B3.body) (toks : list string) (vals : list T) : list T * list N :=
  match bd with
  | B3.ARB => (firstn 24 vals, map (fun t => parse_digits t 0) (skipn 24 toks))
  | _ => (vals, [])
  end.
Definition convert_text_body_g (txt : string) : E3.res (list (K3.t4e (T:=T))) :=
  match parse_surface_card S txt with
  | Err _ => E3.Err E3.EMacroBody
  | Ok (bc, name, tr, ty, prm) =>
      match body_of_type ty with
      | None => E3.Err E3.EMacroBody
      | Some bd =>
          let '(p, d) := body_args_g bd (card_tokens txt) prm in
          if is_empty tr then K3.body_t4 S None bd p d else E3.Err E3.EMacroBody
      end
  end.
End BodyG.

Lemma convert_text_body_g_RS txt bc name ty prm :
  parse_surface_card RS txt = Ok (bc, name, "", ty, prm) ->
  convert_text_body_g RS txt = convert_text_body [] txt.
Proof.
  intros Hp. unfold convert_text_body_g, convert_text_body. rewrite Hp.
  destruct (body_of_type ty) as [bd|]; [|reflexivity].
  change (body_args_g bd (card_tokens txt) prm) with (body_args bd (card_tokens txt) prm).
  destruct (body_args bd (card_tokens txt) prm) as [p d]. reflexivity.
Qed.

(* ---------- the body pipeline WITH a TR number over any scalar (executed by the tie) ---------- *)
Section BodyTrG.
Context {T : Type} (S : Scalar T).
Definition transf_of_list_g (l : list T) : option (@K3.transf T) :=
  match l with
  | [o1; o2; o3; b1; b2; b3; b4; b5; b6; b7; b8; b9] =>
      Some ((o1, o2, o3), (b1, b2, b3), (b4, b5, b6), (b7, b8, b9))
  | _ => None
  end.
Fixpoint lookup_g (n : Z) (trs : list (Z * list T)) : option (list T) :=
  match trs with
  | [] => None
  | (k, v) :: r => if Z.eqb n k then Some v else lookup_g n r
  end.
Definition convert_text_body_tr_g (trs : list (Z * list T)) (txt : string)
  : E3.res (list (K3.t4e (T:=T))) :=
  match parse_surface_card S txt with
  | Err _ => E3.Err E3.EMacroBody
  | Ok (bc, name, tr, ty, prm) =>
      match body_of_type ty with
      | None => E3.Err E3.EMacroBody
      | Some bd =>
          let '(p, d) := body_args_g bd (card_tokens txt) prm in
          if is_empty tr then K3.body_t4 S None bd p d
          else match tr_number tr with
               | Some n => match lookup_g n trs with
                           | Some l => K3.body_t4 S (transf_of_list_g l) bd p d
                           | None => E3.Err E3.EMacroBody
                           end
               | None => E3.Err E3.EMacroBody
               end
      end
  end.
End BodyTrG.

Lemma lookup_g_M4 n (trs : list (Z * list R)) :
  M4.lookup n trs = match lookup_g n trs with Some l => M4.Ok l | None => M4.Err M4.EKey end.
Proof.
  induction trs as [|[k v] r IH]; [reflexivity|]. cbn. destruct (Z.eqb n k); [reflexivity|exact IH].
Qed.

(* at the reals the executed pipeline is the one of the theorems *)
Lemma convert_text_body_tr_g_RS trs txt :
  convert_text_body_tr_g RS trs txt = convert_text_body trs txt.
Proof.
  unfold convert_text_body_tr_g, convert_text_body.
  destruct (parse_surface_card RS txt) as [[[[[bc name] tr] ty] prm]|e]; [|reflexivity].
  destruct (body_of_type ty) as [bd|]; [|reflexivity].
  change (body_args_g bd (card_tokens txt) prm) with (body_args bd (card_tokens txt) prm).
  destruct (body_args bd (card_tokens txt) prm) as [p d].
  destruct (is_empty tr); [reflexivity|].
  destruct (tr_number tr) as [n|]; [|reflexivity].
  rewrite lookup_g_M4. destruct (lookup_g n trs) as [l|]; reflexivity.
Qed.
