(* C02 — link with C04 (coordinate transformations), read-only: a surface card
   WITH a TR number.  The SurfaceMCNP built by C02's to_surface_mcnp is handed,
   in C04's frame form, to C04's transformation and convert; the statement of
   C02_text_every_card_locus_sense is extended to such cards by C04's
   transformation_law and convert_law.  Nothing of C04 is modified. *)
From Coq Require Import List NArith ZArith Bool String Ascii Reals Lra Lia Psatz.
From T4V Require Import Base.Str Base.Scalar C02.Vec C02.Spec C02.Model C02.Text C02.ProofsText
                        C02.Proofs C02.ProofsCards C02.ProofsP3 C02.ProofsAll.
From T4V Require C04.Vec C04.Model C04.Spec C04.ProofsFrame C04.ProofsCompose C04.ProofsTree.
Import ListNotations.
Open Scope R_scope.

Module V4 := T4V.C04.Vec.
Module M4 := T4V.C04.Model.
Module S4 := T4V.C04.Spec.
Module F4 := T4V.C04.ProofsFrame.
Module C4 := T4V.C04.ProofsCompose.
Module T4 := T4V.C04.ProofsTree.

(* ---------- the bridge: C02's SurfaceMCNP record in C04's frame form ---------- *)
Section Bridge.
Context {T : Type} (S : Scalar T).

Definition v4g (v : vec (T:=T)) : V4.V3 T := V4.mkV (vx v) (vy v) (vz v).

(* the sheet selector as C04 holds it (int of the value; only -1, 0, +1) *)
Definition nappe_Zg (n : T) : option Z :=
  if seqb S n (s0 S) then Some 0%Z else if seqb S n (s1 S) then Some 1%Z
  else if seqb S n (sneg S (s1 S)) then Some (-1)%Z else None.

Definition to_msg (c : cad (T:=T)) : option (M4.msurf T) :=
  let '(pt, u) := match c_frame c with
                  | Some (p, u) => (v4g p, v4g u)
                  | None => (V4.mkV (s0 S) (s0 S) (s0 S), V4.mkV (s0 S) (s0 S) (s0 S))
                  end in
  match c_kind c with
  | KdK =>
      match c_srf c with
      | [Some c0; Some a; None] => Some (M4.mkMS M4.KK pt u [c0; a] None)
      | [Some c0; Some a; Some n] =>
          match nappe_Zg n with
          | Some z => Some (M4.mkMS M4.KK pt u [c0; a] (Some z))
          | None => None
          end
      | _ => None
      end
  | k => match all_some (c_srf c) with
         | Ok l => Some (M4.mkMS (match k with
                                  | KdS => M4.KS | KdP => M4.KP | KdC => M4.KC | KdK => M4.KK
                                  | KdT => M4.KT | KdSQ => M4.KSQ | KdGQ => M4.KGQ
                                  end) pt u l None)
         | Err _ => None
         end
  end.

(* to_surface_mcnp with a transform_id, then convert_mcnp_surface: C02's model
   up to the SurfaceMCNP, C04's from there *)
Definition card_tr_convert_g (tr : list T) (mn : mnem) (prm : list T)
  : M4.res (list (M4.t4surf T * Z)) :=
  match to_surface_mcnp S mn prm with
  | Ok c => match to_msg c with
            | Some s => M4.tr_convert S tr s
            | None => M4.Err M4.EType
            end
  | Err _ => M4.Err M4.EValue
  end.
End Bridge.

Definition v4 : vec (T:=R) -> S4.R3 := v4g.
Definition pt3 (p : S4.R3) : pointR := (V4.vx p, V4.vy p, V4.vz p).
Definition nappe_Z : R -> option Z := nappe_Zg RS.
Definition to_ms : cad (T:=R) -> option (M4.msurf R) := to_msg RS.
Definition card_tr_convert : list R -> mnem -> list R -> M4.res (list (M4.t4surf R * Z)) :=
  card_tr_convert_g RS.

(* int(transform_id) for the spelling digits + blanks *)
Definition tr_number (tr : string) : option Z :=
  let '(d, r) := span is_digit tr in
  let '(_, r') := span is_ws r in
  if is_empty d || negb (is_empty r') then None else Some (Z.of_N (parse_digits d 0)).

(* the card text with a TR number: get_surfaces, to_surfaces_mcnp (with the
   transformation looked up in the parsed TR cards), convert_mcnp_surface *)
Definition convert_text_tr (trs : list (Z * list R)) (txt : string)
  : M4.res (list (M4.t4surf R * Z)) :=
  match parse_surface_card RS txt with
  | Err _ => M4.Err M4.EValue
  | Ok (bc, name, tr, ty, prm) =>
      match classify ty, tr_number tr with
      | TyMnem mn, Some n => M4.bind (M4.lookup n trs) (fun t => card_tr_convert t mn prm)
      | _, _ => M4.Err M4.EValue
      end
  end.

(* ---------- sense of the frame form = sense of the card ---------- *)
Definition frame_ok (c : cad (T:=R)) (ms : msurfR) (s : M4.msurf R) : Prop :=
  to_ms c = Some s /\
  forall P, (S4.mneg s P <-> neg_sense ms (pt3 P)) /\ (S4.mpos s P <-> pos_sense ms (pt3 P)).

Lemma two_sided_frame (s : M4.msurf R) (f : pointR -> R) k :
  0 < k -> S4.sheet_of s = 0%Z -> (forall P, S4.msense s P = k * f (pt3 P)) ->
  forall P, (S4.mneg s P <-> neg_sense (mkMsurf f None) (pt3 P)) /\
            (S4.mpos s P <-> pos_sense (mkMsurf f None) (pt3 P)).
Proof.
  intros Hk Hs Hf P. unfold S4.mneg, S4.mpos, neg_sense, pos_sense. cbn [m_f m_sheet].
  rewrite Hs, Hf. split; split.
  - intros [H _]. split; [nra|exact I].
  - intros [H _]. split; [nra|left; reflexivity].
  - intros [H|[H _]]; [left; nra|exfalso; apply H; reflexivity].
  - intros [H|[]]. left; nra.
Qed.

Lemma one_sheet_frame (s : M4.msurf R) (f g : pointR -> R) (n : Z) :
  S4.sheet_of s = n -> n <> 0%Z ->
  (forall P, S4.msense s P = f (pt3 P)) ->
  (forall P, IZR n * S4.axial (M4.mpt s) (M4.maxis s) P = g (pt3 P)) ->
  forall P, (S4.mneg s P <-> neg_sense (mkMsurf f (Some g)) (pt3 P)) /\
            (S4.mpos s P <-> pos_sense (mkMsurf f (Some g)) (pt3 P)).
Proof.
  intros Hs Hn Hf Hg P. unfold S4.mneg, S4.mpos, neg_sense, pos_sense. cbn [m_f m_sheet].
  rewrite Hs, Hf, Hg. split; split.
  - intros [H [H0|H0]]; [contradiction|]. split; assumption.
  - intros [H H0]. split; [exact H|right; exact H0].
  - intros [H|[_ H]]; [left; exact H|right; exact H].
  - intros [H|H]; [left; exact H|right; split; assumption].
Qed.

(* what C04's laws need of the frame form *)
Definition link_wf (s : M4.msurf R) : Prop :=
  T4.part_wf s /\
  match M4.mk s with
  | M4.KP | M4.KGQ | M4.KSQ => True
  | M4.KS => exists r rest, M4.mcp s = r :: rest
  | M4.KC => S4.norm2 (M4.maxis s) = 1 /\ exists r rest, M4.mcp s = r :: rest
  | M4.KK => S4.norm2 (M4.maxis s) = 1 /\ (exists c0 a rest, M4.mcp s = c0 :: a :: rest) /\
             (M4.mnap s = None \/ M4.mnap s = Some 0%Z \/ M4.mnap s = Some 1%Z \/ M4.mnap s = Some (-1)%Z)
  | M4.KT => False
  end.

Definition bridge (mn : mnem) (prm : list R) (ms : msurfR) : Prop :=
  exists c s, to_surface_mcnp RS mn prm = Ok c /\ to_ms c = Some s /\ link_wf s /\
    forall P, (S4.mneg s P <-> neg_sense ms (pt3 P)) /\ (S4.mpos s P <-> pos_sense ms (pt3 P)).

Ltac unf4 := unfold S4.msense, S4.perp2, S4.axial, S4.norm2, S4.dot, S4.vminus, S4.gq_fn, S4.sq_fn;
  cbn; unfold ssq; cbn.

Ltac wf_frame :=
  split; [left; reflexivity|]; cbn;
  repeat match goal with
  | |- _ /\ _ => split
  | |- S4.norm2 _ = 1 => unfold S4.norm2, S4.dot; cbn; ring
  | |- exists _ _ _, _ = _ => eexists _, _, _; reflexivity
  | |- exists _ _, _ = _ => eexists _, _; reflexivity
  | |- True => exact I
  end.

(* one surface, side of the equation only: msense = k * f *)
Ltac two_bridge k :=
  eexists _, _; split; [reflexivity|]; split; [reflexivity|]; split; [wf_frame|];
  apply (two_sided_frame _ _ k); [lra|reflexivity|]; intros [x y z]; unf4.

Lemma px_bridge d : bridge M_PX [d] (mkMsurf (fM_px RS d) None).
Proof. two_bridge 1. ring. Qed.
Lemma py_bridge d : bridge M_PY [d] (mkMsurf (fM_py RS d) None).
Proof. two_bridge 1. ring. Qed.
Lemma pz_bridge d : bridge M_PZ [d] (mkMsurf (fM_pz RS d) None).
Proof. two_bridge 1. ring. Qed.
Lemma so_bridge r : bridge M_SO [r] (mkMsurf (fM_so RS r) None).
Proof. two_bridge 1. ring. Qed.
Lemma s_bridge a b c r : bridge M_S [a; b; c; r] (mkMsurf (fM_s RS a b c r) None).
Proof. two_bridge 1. ring. Qed.
Lemma sx_bridge c r : bridge M_SX [c; r] (mkMsurf (fM_sx RS c r) None).
Proof. two_bridge 1. ring. Qed.
Lemma sy_bridge c r : bridge M_SY [c; r] (mkMsurf (fM_sy RS c r) None).
Proof. two_bridge 1. ring. Qed.
Lemma sz_bridge c r : bridge M_SZ [c; r] (mkMsurf (fM_sz RS c r) None).
Proof. two_bridge 1. ring. Qed.
Lemma c_x_bridge a b r : bridge M_C_X [a; b; r] (mkMsurf (fM_c_x RS a b r) None).
Proof. two_bridge 1. ring. Qed.
Lemma c_y_bridge a b r : bridge M_C_Y [a; b; r] (mkMsurf (fM_c_y RS a b r) None).
Proof. two_bridge 1. ring. Qed.
Lemma c_z_bridge a b r : bridge M_C_Z [a; b; r] (mkMsurf (fM_c_z RS a b r) None).
Proof. two_bridge 1. ring. Qed.
Lemma cx_bridge r : bridge M_CX [r] (mkMsurf (fM_cx RS r) None).
Proof. two_bridge 1. ring. Qed.
Lemma cy_bridge r : bridge M_CY [r] (mkMsurf (fM_cy RS r) None).
Proof. two_bridge 1. ring. Qed.
Lemma cz_bridge r : bridge M_CZ [r] (mkMsurf (fM_cz RS r) None).
Proof. two_bridge 1. ring. Qed.

Lemma gq_bridge A B C D E F G H J K :
  bridge M_GQ [A; B; C; D; E; F; G; H; J; K] (mkMsurf (fM_gq RS A B C D E F G H J K) None).
Proof.
  eexists _, _; split; [reflexivity|]; split; [reflexivity|]. split.
  { split; [right; split; [left; reflexivity|reflexivity]|exact I]. }
  apply (two_sided_frame _ _ 1); [lra|reflexivity|]; intros [x y z]; unf4. ring.
Qed.
Lemma sq_bridge A B C D E F G x0 y0 z0 :
  bridge M_SQ [A; B; C; D; E; F; G; x0; y0; z0] (mkMsurf (fM_sq RS A B C D E F G x0 y0 z0) None).
Proof.
  eexists _, _; split; [reflexivity|]; split; [reflexivity|]. split.
  { split; [right; split; [right; reflexivity|reflexivity]|exact I]. }
  apply (two_sided_frame _ _ 1); [lra|reflexivity|]; intros [x y z]; unf4. ring.
Qed.

Lemma p_bridge A B C D :
  (A, B, C) <> (0, 0, 0) -> bridge M_P [A; B; C; D] (mkMsurf (fM_p RS A B C D) None).
Proof.
  intros Hn. pose proof (norm_pos A B C Hn) as Hc. pose proof (norm_sq A B C) as Hcc.
  unfold bridge, to_surface_mcnp. cbn -[norm_].
  set (c := norm_ RS A B C) in *. clearbody c.
  replace (Reqb c 0) with false by (symmetry; apply Reqb_false; lra). cbn -[norm_].
  eexists _, _; split; [reflexivity|]; split; [reflexivity|]; split; [wf_frame|].
  assert (Hc0 : c <> 0) by (apply Rgt_not_eq; exact Hc).
  apply (two_sided_frame _ _ (/ c)); [apply Rinv_0_lt_compat; exact Hc|reflexivity|].
  intros [x y z]; unf4. field_simplify_eq; [|exact Hc0].
  replace (c ^ 2) with (A * A + B * B + C * C) by lra. ring.
Qed.

(* cones *)
Ltac cone_to Ht := unfold bridge, to_surface_mcnp; cbn; unfold sqrt_t2; cbn; rewrite (Rltb_ge _ Ht); cbn.
Ltac cone_alg Ht := intros [x y z]; unf4; rewrite tan_atan; rewrite (sqrt_sqrt _ Ht).

Ltac cone_two Ht :=
  cone_to Ht; consts;
  eexists _, _; split; [reflexivity|]; split; [reflexivity|]; split; [wf_frame; auto|];
  apply (two_sided_frame _ _ 1); [lra|reflexivity|]; cone_alg Ht; ring.

Lemma kx_bridge x0 t2 : 0 <= t2 -> bridge M_KX [x0; t2] (mkMsurf (fM_kx RS x0 t2) None).
Proof. intros Ht. cone_two Ht. Qed.
Lemma ky_bridge x0 t2 : 0 <= t2 -> bridge M_KY [x0; t2] (mkMsurf (fM_ky RS x0 t2) None).
Proof. intros Ht. cone_two Ht. Qed.
Lemma kz_bridge x0 t2 : 0 <= t2 -> bridge M_KZ [x0; t2] (mkMsurf (fM_kz RS x0 t2) None).
Proof. intros Ht. cone_two Ht. Qed.
Lemma k_x_bridge a b c t2 : 0 <= t2 -> bridge M_K_X [a; b; c; t2] (mkMsurf (fM_k_x RS a b c t2) None).
Proof. intros Ht. cone_two Ht. Qed.
Lemma k_y_bridge a b c t2 : 0 <= t2 -> bridge M_K_Y [a; b; c; t2] (mkMsurf (fM_k_y RS a b c t2) None).
Proof. intros Ht. cone_two Ht. Qed.
Lemma k_z_bridge a b c t2 : 0 <= t2 -> bridge M_K_Z [a; b; c; t2] (mkMsurf (fM_k_z RS a b c t2) None).
Proof. intros Ht. cone_two Ht. Qed.

(* selector 0 *)
Ltac cone_zero Ht :=
  cone_to Ht; unfold nappe_Zg; cbn; consts;
  eexists _, _; split; [reflexivity|]; split; [cbn; unfold nappe_Zg; cbn; consts; reflexivity|];
  split; [wf_frame; auto|];
  apply (two_sided_frame _ _ 1); [lra|reflexivity|]; cone_alg Ht; ring.

Lemma kx0_bridge x0 t2 : 0 <= t2 -> bridge M_KX [x0; t2; 0] (mkMsurf (fM_kx RS x0 t2) None).
Proof. intros Ht. cone_zero Ht. Qed.
Lemma ky0_bridge x0 t2 : 0 <= t2 -> bridge M_KY [x0; t2; 0] (mkMsurf (fM_ky RS x0 t2) None).
Proof. intros Ht. cone_zero Ht. Qed.
Lemma kz0_bridge x0 t2 : 0 <= t2 -> bridge M_KZ [x0; t2; 0] (mkMsurf (fM_kz RS x0 t2) None).
Proof. intros Ht. cone_zero Ht. Qed.
Lemma k_x0_bridge a b c t2 : 0 <= t2 -> bridge M_K_X [a; b; c; t2; 0] (mkMsurf (fM_k_x RS a b c t2) None).
Proof. intros Ht. cone_zero Ht. Qed.
Lemma k_y0_bridge a b c t2 : 0 <= t2 -> bridge M_K_Y [a; b; c; t2; 0] (mkMsurf (fM_k_y RS a b c t2) None).
Proof. intros Ht. cone_zero Ht. Qed.
Lemma k_z0_bridge a b c t2 : 0 <= t2 -> bridge M_K_Z [a; b; c; t2; 0] (mkMsurf (fM_k_z RS a b c t2) None).
Proof. intros Ht. cone_zero Ht. Qed.

(* selector +1 / -1: the kept sheet *)
Lemma nappe_Z_1 : nappe_Zg RS 1 = Some 1%Z.
Proof. unfold nappe_Zg. cbn. rewrite Reqb_1_0, Reqb_refl. reflexivity. Qed.
Lemma nappe_Z_m1 : nappe_Zg RS (-1) = Some (-1)%Z.
Proof. unfold nappe_Zg. cbn. rewrite Reqb_m1_0, Reqb_m1_1, Reqb_m1_m1. reflexivity. Qed.

Ltac cone_sheet Ht nz :=
  cone_to Ht;
  eexists _, _; split; [reflexivity|]; split; [cbn; rewrite nz; reflexivity|];
  split; [wf_frame; auto|];
  eapply one_sheet_frame; [reflexivity|discriminate| cone_alg Ht; ring | intros [x y z]; unf4; ring].

Lemma kx_sheet_bridge x0 t2 s : 0 <= t2 -> s = 1 \/ s = -1 ->
  bridge M_KX [x0; t2; s] (mkMsurf (fM_kx RS x0 t2) (Some (fun p => s * axial_x RS x0 p))).
Proof. intros Ht [-> | ->]; [cone_sheet Ht nappe_Z_1 | cone_sheet Ht nappe_Z_m1]. Qed.
Lemma ky_sheet_bridge x0 t2 s : 0 <= t2 -> s = 1 \/ s = -1 ->
  bridge M_KY [x0; t2; s] (mkMsurf (fM_ky RS x0 t2) (Some (fun p => s * axial_y RS x0 p))).
Proof. intros Ht [-> | ->]; [cone_sheet Ht nappe_Z_1 | cone_sheet Ht nappe_Z_m1]. Qed.
Lemma kz_sheet_bridge x0 t2 s : 0 <= t2 -> s = 1 \/ s = -1 ->
  bridge M_KZ [x0; t2; s] (mkMsurf (fM_kz RS x0 t2) (Some (fun p => s * axial_z RS x0 p))).
Proof. intros Ht [-> | ->]; [cone_sheet Ht nappe_Z_1 | cone_sheet Ht nappe_Z_m1]. Qed.
Lemma k_x_sheet_bridge a b c t2 s : 0 <= t2 -> s = 1 \/ s = -1 ->
  bridge M_K_X [a; b; c; t2; s] (mkMsurf (fM_k_x RS a b c t2) (Some (fun p => s * axial_x RS a p))).
Proof. intros Ht [-> | ->]; [cone_sheet Ht nappe_Z_1 | cone_sheet Ht nappe_Z_m1]. Qed.
Lemma k_y_sheet_bridge a b c t2 s : 0 <= t2 -> s = 1 \/ s = -1 ->
  bridge M_K_Y [a; b; c; t2; s] (mkMsurf (fM_k_y RS a b c t2) (Some (fun p => s * axial_y RS b p))).
Proof. intros Ht [-> | ->]; [cone_sheet Ht nappe_Z_1 | cone_sheet Ht nappe_Z_m1]. Qed.
Lemma k_z_sheet_bridge a b c t2 s : 0 <= t2 -> s = 1 \/ s = -1 ->
  bridge M_K_Z [a; b; c; t2; s] (mkMsurf (fM_k_z RS a b c t2) (Some (fun p => s * axial_z RS c p))).
Proof. intros Ht [-> | ->]; [cone_sheet Ht nappe_Z_1 | cone_sheet Ht nappe_Z_m1]. Qed.

(* the bridge does not depend on how the kept side is written *)
Lemma bridge_ext mn prm f g g' :
  (forall p, g p = g' p) -> bridge mn prm (mkMsurf f (Some g)) -> bridge mn prm (mkMsurf f (Some g')).
Proof.
  intros He (c & s & H1 & H2 & H3 & H4). exists c, s.
  split; [exact H1|]. split; [exact H2|]. split; [exact H3|]. intros P.
  destruct (H4 P) as [Hn Hp]. unfold neg_sense, pos_sense in *. cbn [m_f m_sheet] in *.
  rewrite <- He. tauto.
Qed.

(* the mnemonics covered by the link: planes, spheres, cylinders, cones, SQ, GQ
   (tori with a TR card are C04_frame_transform_torus; the point-defined
   X/Y/Z and the nine-entry P are left out) *)
Definition linkable (mn : mnem) (prm : list R) : Prop :=
  match mn with
  | M_PX | M_PY | M_PZ | M_SO | M_S | M_SX | M_SY | M_SZ | M_C_X | M_C_Y | M_C_Z
  | M_CX | M_CY | M_CZ | M_K_X | M_K_Y | M_K_Z | M_KX | M_KY | M_KZ | M_SQ | M_GQ => True
  | M_P => List.length prm = 4%nat
  | _ => False
  end.

Ltac twob H lem := inversion H; subst; apply lem.

Ltac kselb H Ha lem0 lem1 :=
  unfold k_card in H; cbn [seqb RS s0 s1 sneg] in H;
  match type of H with
  | two_sided _ = _ => twob H lem0
  | _ =>
    match type of H with context [Reqb ?s 0] =>
      destruct (Reqb s 0) eqn:E0;
      [ apply Reqb_true in E0; subst; twob H lem0
      | destruct (Reqb s 1) eqn:E1;
        [ apply Reqb_true in E1; subst; inversion H; subst;
          eapply bridge_ext; [|apply lem1; [exact Ha | left; reflexivity]];
          intros [[x y] z]; cbn; ring
        | destruct (Reqb s (- (1))) eqn:E2; [|discriminate H];
          apply Reqb_true in E2; subst; inversion H; subst;
          eapply bridge_ext; [|apply lem1; [exact Ha | right; reflexivity]];
          intros [[x y] z]; cbn; ring ] ]
    end
  end.

Theorem frame_sense mn prm ms :
  linkable mn prm -> mcnp_surface RS mn prm = Some ms -> admissible mn prm -> bridge mn prm ms.
Proof.
  intros Hl H Ha. destruct mn; cbn [linkable] in Hl; try contradiction;
    cbn [mcnp_surface] in H; try discriminate H.
  - peel H. twob H px_bridge.
  - peel H. twob H py_bridge.
  - peel H. twob H pz_bridge.
  - peel H; cbn in Hl; try discriminate Hl. twob H p_bridge. exact Ha.
  - peel H. twob H so_bridge.
  - peel H. twob H s_bridge.
  - peel H. twob H sx_bridge.
  - peel H. twob H sy_bridge.
  - peel H. twob H sz_bridge.
  - peel H. twob H c_x_bridge.
  - peel H. twob H c_y_bridge.
  - peel H. twob H c_z_bridge.
  - peel H. twob H cx_bridge.
  - peel H. twob H cy_bridge.
  - peel H. twob H cz_bridge.
  - peel H; cbn in Ha.
    + kselb H Ha (k_x_bridge r r0 r1 r2 Ha) k_x_sheet_bridge.
    + kselb H Ha (k_x0_bridge r r0 r1 r2 Ha) k_x_sheet_bridge.
  - peel H; cbn in Ha.
    + kselb H Ha (k_y_bridge r r0 r1 r2 Ha) k_y_sheet_bridge.
    + kselb H Ha (k_y0_bridge r r0 r1 r2 Ha) k_y_sheet_bridge.
  - peel H; cbn in Ha.
    + kselb H Ha (k_z_bridge r r0 r1 r2 Ha) k_z_sheet_bridge.
    + kselb H Ha (k_z0_bridge r r0 r1 r2 Ha) k_z_sheet_bridge.
  - peel H; cbn in Ha.
    + kselb H Ha (kx_bridge r r0 Ha) kx_sheet_bridge.
    + kselb H Ha (kx0_bridge r r0 Ha) kx_sheet_bridge.
  - peel H; cbn in Ha.
    + kselb H Ha (ky_bridge r r0 Ha) ky_sheet_bridge.
    + kselb H Ha (ky0_bridge r r0 Ha) ky_sheet_bridge.
  - peel H; cbn in Ha.
    + kselb H Ha (kz_bridge r r0 Ha) kz_sheet_bridge.
    + kselb H Ha (kz0_bridge r r0 Ha) kz_sheet_bridge.
  - peel H. twob H sq_bridge.
  - peel H. twob H gq_bridge.
Qed.

(* ---------- the linked statement ---------- *)
Lemma moved_conv_wf o b s s' :
  S4.rows_orthonormal b -> link_wf s ->
  M4.transformation RS (C4.tr12 o b) s = M4.Ok s' -> T4.conv_wf s'.
Proof.
  intros Hb [Hp Hw] Htr. destruct s as [k pt u cp nap]. cbn [M4.mk M4.mcp M4.maxis M4.mnap] in Hw.
  destruct k.
  - unfold C4.tr12 in Htr. rewrite F4.transformation_frame in Htr by reflexivity.
    injection Htr as <-. exact I.
  - unfold C4.tr12 in Htr. rewrite F4.transformation_frame in Htr by reflexivity.
    injection Htr as <-. exact Hw.
  - unfold C4.tr12 in Htr. rewrite F4.transformation_frame in Htr by reflexivity.
    injection Htr as <-. unfold T4.conv_wf. cbn [M4.mk M4.mcp M4.maxis].
    rewrite F4.norm2_tvec by exact Hb. exact Hw.
  - unfold C4.tr12 in Htr. rewrite F4.transformation_frame in Htr by reflexivity.
    injection Htr as <-. unfold T4.conv_wf. cbn [M4.mk M4.mcp M4.maxis M4.mnap].
    rewrite F4.norm2_tvec by exact Hb. exact Hw.
  - contradiction.
  - (* SQ: rewritten as a GQ before it is moved *)
    destruct Hp as [Hf | [_ Hl]]; [discriminate Hf|]. cbn [M4.mcp] in Hl.
    destruct o as [o1 o2 o3], b as [[b1 b2 b3] [b4 b5 b6] [b7 b8 b9]].
    unfold M4.transformation, C4.tr12 in Htr. cbn [V4.vlist V4.mlist app V4.vx V4.vy V4.vz M4.mk M4.mcp] in Htr.
    rewrite Hl in Htr. cbn in Htr. injection Htr as <-. exact I.
  - destruct Hp as [Hf | [_ Hl]]; [discriminate Hf|]. cbn [M4.mcp] in Hl.
    destruct o as [o1 o2 o3], b as [[b1 b2 b3] [b4 b5 b6] [b7 b8 b9]].
    unfold M4.transformation, C4.tr12 in Htr. cbn [V4.vlist V4.mlist app V4.vx V4.vy V4.vz M4.mk M4.mcp] in Htr.
    rewrite Hl in Htr. cbn in Htr. injection Htr as <-. exact I.
Qed.

(* a card of a linkable mnemonic given in the auxiliary system of TR (O, B),
   B orthonormal: the surfaces written for it select, at the moved point
   O + B^T p', the MCNP sense of the card at p' *)
Theorem card_tr_linked mn prm ms o b :
  S4.rows_orthonormal b -> linkable mn prm ->
  mcnp_surface RS mn prm = Some ms -> admissible mn prm ->
  exists coll, card_tr_convert (C4.tr12 o b) mn prm = M4.Ok coll /\
    forall p', (S4.coll_neg coll (S4.to_main o b p') <-> neg_sense ms (pt3 p')) /\
               (S4.coll_pos coll (S4.to_main o b p') <-> pos_sense ms (pt3 p')).
Proof.
  intros Hb Hl Hs Ha.
  destruct (frame_sense mn prm ms Hl Hs Ha) as (c & s & H1 & H2 & Hw & Hsense).
  destruct (T4.transformation_law o b s Hb (proj1 Hw)) as (s' & Htr & _ & Hmove).
  pose proof (moved_conv_wf o b s s' Hb Hw Htr) as Hcw.
  destruct (T4.convert_law s' Hcw) as (coll & Hconv & Hreg).
  exists coll. split.
  - unfold card_tr_convert, card_tr_convert_g. rewrite H1. fold to_ms. rewrite H2. unfold M4.tr_convert. rewrite Htr. exact Hconv.
  - intros p'. destruct (Hreg (S4.to_main o b p')) as [Rn Rp].
    destruct (Hmove p') as [Mn Mp]. destruct (Hsense p') as [Sn Sp].
    split; [rewrite <- Rn, Mn; exact Sn | rewrite <- Rp, Mp; exact Sp].
Qed.

(* ... from the card text: number, TR number n, mnemonic, parameters; the TR
   card n holds the origin O and the orthonormal matrix B (C04_tr_card_12 and
   its siblings say how the TR card's text gives them) *)
Theorem text_every_card_linked txt bc name tr ty prm mn ms n o b trs :
  parse_surface_card RS txt = Ok (bc, name, tr, ty, prm) ->
  tr_number tr = Some n -> M4.lookup n trs = M4.Ok (C4.tr12 o b) -> S4.rows_orthonormal b ->
  classify ty = TyMnem mn -> linkable mn prm ->
  mcnp_surface RS mn prm = Some ms -> admissible mn prm ->
  exists coll, convert_text_tr trs txt = M4.Ok coll /\
    forall p', (S4.coll_neg coll (S4.to_main o b p') <-> neg_sense ms (pt3 p')) /\
               (S4.coll_pos coll (S4.to_main o b p') <-> pos_sense ms (pt3 p')).
Proof.
  intros Hp Hn Hlk Hb Hc Hl Hs Ha.
  destruct (card_tr_linked mn prm ms o b Hb Hl Hs Ha) as (coll & Hcv & Hreg).
  exists coll. split; [|exact Hreg].
  unfold convert_text_tr. rewrite Hp, Hc, Hn, Hlk. exact Hcv.
Qed.

(* non-vacuity: the card "7 5 KZ 0 1.0d0 -1" with TR5 = origin (1,0,0) and the
   quarter turn about z of C04_example *)
Open Scope string_scope.
Example linked_example :
  let b := V4.mkV (V4.mkV 0 1 0) (V4.mkV (-1) 0 0) (V4.mkV 0 0 1) in
  let o := V4.mkV 1 0 0 in
  S4.rows_orthonormal b /\
  exists ms coll, m_sheet ms <> None /\
    convert_text_tr [(5%Z, C4.tr12 o b)] "7 5 KZ 0 1.0d0 -1" = M4.Ok coll /\
    forall p', (S4.coll_neg coll (S4.to_main o b p') <-> neg_sense ms (pt3 p')) /\
               (S4.coll_pos coll (S4.to_main o b p') <-> pos_sense ms (pt3 p')).
Proof.
  cbv zeta.
  assert (Hb : S4.rows_orthonormal (V4.mkV (V4.mkV 0 1 0) (V4.mkV (-1) 0 0) (V4.mkV 0 0 1))).
  { unfold S4.rows_orthonormal, S4.dot. cbn. repeat split; ring. }
  split; [exact Hb|].
  set (v0 := num_value RS (mkNum false 0 0)).
  set (v1 := num_value RS (mkNum false 10 (-1))).
  set (v2 := num_value RS (mkNum true 1 0)).
  assert (Hp : parse_surface_card RS "7 5 KZ 0 1.0d0 -1" = Ok ("", 7%N, "5 ", "kz", [v0; v1; v2])).
  { vm_compute. reflexivity. }
  assert (E0 : v0 = 0%R) by (unfold v0; rewrite ProofsText.num_value_real; cbn; lra).
  assert (E1 : v1 = 1%R) by (unfold v1; rewrite ProofsText.num_value_real; cbn; lra).
  assert (E2 : v2 = (-1)%R) by (unfold v2; rewrite ProofsText.num_value_real; cbn; lra).
  clearbody v0 v1 v2. subst v0 v1 v2.
  assert (Hs : mcnp_surface RS M_KZ [0%R; 1%R; (-1)%R] =
               Some (mkMsurf (fM_kz RS 0 1) (Some (fun p => sneg RS (axial_z RS 0 p))))).
  { cbn. unfold k_card. cbn. rewrite Reqb_m1_0, Reqb_m1_1, Reqb_m1_m1. reflexivity. }
  set (bb := V4.mkV (V4.mkV 0 1 0) (V4.mkV (-1) 0 0) (V4.mkV 0 0 1)) in *.
  set (oo := V4.mkV 1 0 0).
  assert (Hlk : M4.lookup 5%Z [(5%Z, C4.tr12 oo bb)] = M4.Ok (C4.tr12 oo bb)) by reflexivity.
  assert (Hn : tr_number "5 " = Some 5%Z) by (vm_compute; reflexivity).
  assert (Hadm : admissible M_KZ [0%R; 1%R; (-1)%R]) by (cbn; lra).
  destruct (text_every_card_linked _ _ _ _ _ _ M_KZ _ 5%Z oo bb _ Hp Hn Hlk Hb eq_refl I Hs Hadm)
    as (coll & Hcv & Hreg).
  eexists _, coll. split; [|split; [exact Hcv|exact Hreg]]. discriminate.
Qed.

(* ---------- tori with a TR number (C04's torus law) ---------- *)
From T4V Require C04.ProofsTorus.
Module O4 := T4V.C04.ProofsTorus.
Open Scope R_scope.

(* the frame form of a torus card has exactly the card's equation *)
Lemma torus_frame_eq x0 y0 z0 A B C ux uy uz (f : pointR -> R) :
  (forall x y z,
     S4.msense (M4.mkMS M4.KT (V4.mkV x0 y0 z0) (V4.mkV ux uy uz) [A; B; C] None) (V4.mkV x y z)
     = f (x, y, z)) ->
  forall P, S4.msense (M4.mkMS M4.KT (V4.mkV x0 y0 z0) (V4.mkV ux uy uz) [A; B; C] None) P = f (pt3 P).
Proof. intros H [x y z]. apply H. Qed.

Lemma tx_msense x0 y0 z0 A B C P :
  S4.msense (M4.mkMS M4.KT (V4.mkV x0 y0 z0) (V4.mkV 1 0 0) [A; B; C] None) P = fM_tx RS x0 y0 z0 A B C (pt3 P).
Proof.
  apply torus_frame_eq. intros x y z.
  unfold S4.msense, S4.perp2, S4.axial, S4.norm2, S4.dot, S4.vminus. cbn. unfold torus_f, ssq. cbn.
  replace ((x - x0) * (x - x0) + (y - y0) * (y - y0) + (z - z0) * (z - z0) -
           ((x - x0) * 1 + (y - y0) * 0 + (z - z0) * 0) * ((x - x0) * 1 + (y - y0) * 0 + (z - z0) * 0))
    with ((y - y0) * (y - y0) + (z - z0) * (z - z0)) by ring.
  replace ((x - x0) * 1 + (y - y0) * 0 + (z - z0) * 0) with (x - x0) by ring. reflexivity.
Qed.
Lemma ty_msense x0 y0 z0 A B C P :
  S4.msense (M4.mkMS M4.KT (V4.mkV x0 y0 z0) (V4.mkV 0 1 0) [A; B; C] None) P = fM_ty RS x0 y0 z0 A B C (pt3 P).
Proof.
  apply torus_frame_eq. intros x y z.
  unfold S4.msense, S4.perp2, S4.axial, S4.norm2, S4.dot, S4.vminus. cbn. unfold torus_f, ssq. cbn.
  replace ((x - x0) * (x - x0) + (y - y0) * (y - y0) + (z - z0) * (z - z0) -
           ((x - x0) * 0 + (y - y0) * 1 + (z - z0) * 0) * ((x - x0) * 0 + (y - y0) * 1 + (z - z0) * 0))
    with ((x - x0) * (x - x0) + (z - z0) * (z - z0)) by ring.
  replace ((x - x0) * 0 + (y - y0) * 1 + (z - z0) * 0) with (y - y0) by ring. reflexivity.
Qed.
Lemma tz_msense x0 y0 z0 A B C P :
  S4.msense (M4.mkMS M4.KT (V4.mkV x0 y0 z0) (V4.mkV 0 0 1) [A; B; C] None) P = fM_tz RS x0 y0 z0 A B C (pt3 P).
Proof.
  apply torus_frame_eq. intros x y z.
  unfold S4.msense, S4.perp2, S4.axial, S4.norm2, S4.dot, S4.vminus. cbn. unfold torus_f, ssq. cbn.
  replace ((x - x0) * (x - x0) + (y - y0) * (y - y0) + (z - z0) * (z - z0) -
           ((x - x0) * 0 + (y - y0) * 0 + (z - z0) * 1) * ((x - x0) * 0 + (y - y0) * 0 + (z - z0) * 1))
    with ((x - x0) * (x - x0) + (y - y0) * (y - y0)) by ring.
  replace ((x - x0) * 0 + (y - y0) * 0 + (z - z0) * 1) with (z - z0) by ring. reflexivity.
Qed.

(* one torus card: C04's law, with the written torus independent of the point *)
Lemma torus_card_linked mn prm c u cp (f : pointR -> R) o b :
  S4.rows_orthonormal b -> S4.norm2 u = 1 -> O4.torus_axis_ok (F4.tvec b u) ->
  (exists cd, to_surface_mcnp RS mn prm = Ok cd /\ to_ms cd = Some (M4.mkMS M4.KT c u cp None)) ->
  (forall P, S4.msense (M4.mkMS M4.KT c u cp None) P = f (pt3 P)) ->
  exists t, card_tr_convert (C4.tr12 o b) mn prm = M4.Ok [(t, 1%Z)] /\
    forall p', S4.t4val t (S4.to_main o b p') = f (pt3 p').
Proof.
  intros Hb Hu Hax (cd & H1 & H2) Hf.
  assert (Hcv : card_tr_convert (C4.tr12 o b) mn prm
                = M4.tr_convert RS (C4.tr12 o b) (M4.mkMS M4.KT c u cp None)).
  { unfold card_tr_convert, card_tr_convert_g. rewrite H1. fold to_ms. rewrite H2. reflexivity. }
  destruct (O4.frame_transform_torus o b c u cp None (V4.mkV 0 0 0) Hb Hu Hax) as (t & Ht & _).
  exists t. split; [rewrite Hcv; exact Ht|]. intros p'.
  destruct (O4.frame_transform_torus o b c u cp None p' Hb Hu Hax) as (t' & Ht' & Hv).
  unfold C4.tr12 in *. rewrite Ht in Ht'. injection Ht' as <-. rewrite Hv. apply Hf.
Qed.

(* TX / TY / TZ x0 y0 z0 A B C with TR (O, B): if the moved axis is exactly a
   coordinate axis or clearly not one (C04's torus_axis_ok), ONE torus is
   written whose equation at the moved point is the card's equation at p' *)
Theorem torus_tr_linked x0 y0 z0 A B C o b :
  S4.rows_orthonormal b ->
  (O4.torus_axis_ok (F4.tvec b (V4.mkV 1 0 0)) ->
     exists t, card_tr_convert (C4.tr12 o b) M_TX [x0; y0; z0; A; B; C] = M4.Ok [(t, 1%Z)] /\
       forall p', S4.t4val t (S4.to_main o b p') = fM_tx RS x0 y0 z0 A B C (pt3 p')) /\
  (O4.torus_axis_ok (F4.tvec b (V4.mkV 0 1 0)) ->
     exists t, card_tr_convert (C4.tr12 o b) M_TY [x0; y0; z0; A; B; C] = M4.Ok [(t, 1%Z)] /\
       forall p', S4.t4val t (S4.to_main o b p') = fM_ty RS x0 y0 z0 A B C (pt3 p')) /\
  (O4.torus_axis_ok (F4.tvec b (V4.mkV 0 0 1)) ->
     exists t, card_tr_convert (C4.tr12 o b) M_TZ [x0; y0; z0; A; B; C] = M4.Ok [(t, 1%Z)] /\
       forall p', S4.t4val t (S4.to_main o b p') = fM_tz RS x0 y0 z0 A B C (pt3 p')).
Proof.
  intros Hb. split; [|split]; intros Hax.
  - apply (torus_card_linked _ _ (V4.mkV x0 y0 z0) (V4.mkV 1 0 0) [A; B; C] _ o b Hb); try assumption.
    + unfold S4.norm2, S4.dot. cbn. ring.
    + eexists. split; reflexivity.
    + apply tx_msense.
  - apply (torus_card_linked _ _ (V4.mkV x0 y0 z0) (V4.mkV 0 1 0) [A; B; C] _ o b Hb); try assumption.
    + unfold S4.norm2, S4.dot. cbn. ring.
    + eexists. split; reflexivity.
    + apply ty_msense.
  - apply (torus_card_linked _ _ (V4.mkV x0 y0 z0) (V4.mkV 0 0 1) [A; B; C] _ o b Hb); try assumption.
    + unfold S4.norm2, S4.dot. cbn. ring.
    + eexists. split; reflexivity.
    + apply tz_msense.
Qed.

(* ---------- nine-entry P and the point-defined X / Y / Z in the link ---------- *)
Lemma bridge_scale mn prm (f f' : pointR -> R) k :
  0 < k -> (forall p, f p = k * f' p) ->
  bridge mn prm (mkMsurf f None) -> bridge mn prm (mkMsurf f' None).
Proof.
  intros Hk Hf (c & s & H1 & H2 & H3 & H4). exists c, s.
  split; [exact H1|]. split; [exact H2|]. split; [exact H3|]. intros P.
  destruct (H4 P) as [Hn Hp]. unfold neg_sense, pos_sense in *. cbn [m_f m_sheet] in *.
  rewrite Hf in Hn, Hp. split.
  - rewrite Hn. split; intros [H _]; (split; [nra|exact I]).
  - rewrite Hp. split; (intros [H|[]]; left; nra).
Qed.

Lemma bridge_same_card mn prm prm' ms :
  to_surface_mcnp RS mn prm = to_surface_mcnp RS mn prm' -> bridge mn prm' ms -> bridge mn prm ms.
Proof. intros E (c & s & H1 & H2). exists c, s. rewrite E. split; assumption. Qed.

Lemma p9_bridge x1 y1 z1 x2 y2 z2 x3 y3 z3 :
  let p1 := (x1, y1, z1) in let p2 := (x2, y2, z2) in let p3 := (x3, y3, z3) in
  p3_guard (p3_normal RS p1 p2 p3) p1 ->
  exists A B C D, p3_plane RS p1 p2 p3 = Some (A, B, C, D) /\
    bridge M_P [x1; y1; z1; x2; y2; z2; x3; y3; z3] (mkMsurf (fM_p RS A B C D) None).
Proof.
  intros p1 p2 p3 Hg.
  pose proof (orient_plane_ok (p3_normal RS p1 p2 p3) p1 Hg) as Hop.
  pose proof Hg as (Hlen & _).
  unfold p3_plane. destruct (p3_normal RS p1 p2 p3) as [[A B] C] eqn:En.
  destruct Hop as (keep & Hkeep & Hop). rewrite Hkeep.
  assert (Hm2 : 0 < mag2 RS (A, B, C)) by (pose proof e10_pos; lra).
  assert (Hm : 0 < mag RS (A, B, C)) by (apply sqrt_lt_R0; exact Hm2).
  assert (Hn : (A, B, C) <> (0, 0, 0)).
  { intros E. injection E as -> -> ->. cbn in Hm2. lra. }
  set (m := mag RS (A, B, C)) in *. set (D := scal RS (A, B, C) p1) in *.
  assert (Hk : 0 < 1 / m) by (apply Rdiv_lt_0_compat; lra).
  assert (Hmodel : plane_params_from_points RS p1 p2 p3 =
                   Ok (scale4 (1 / m) (if keep then (A, B, C, D) else (- A, - B, - C, - D)))).
  { unfold plane_params_from_points. rewrite model_normal, En. exact Hop. }
  clearbody m D.
  assert (Hz : forall v, 1 / m * v = 0 -> v = 0).
  { intros v Hv. apply (Rmult_eq_compat_l m) in Hv. rewrite Rmult_0_r in Hv.
    replace (m * (1 / m * v)) with v in Hv by (field; lra). exact Hv. }
  assert (Hsame : forall a b c d,
            plane_params_from_points RS p1 p2 p3 = Ok [a; b; c; d] ->
            to_surface_mcnp RS M_P [x1; y1; z1; x2; y2; z2; x3; y3; z3] = to_surface_mcnp RS M_P [a; b; c; d]).
  { intros a b c d E. unfold to_surface_mcnp, normalize_surface. unfold p1, p2, p3 in E. rewrite E. reflexivity. }
  destruct keep; cbn [scale4] in Hmodel.
  - exists A, B, C, D. split; [reflexivity|].
    apply (bridge_same_card _ _ _ _ (Hsame _ _ _ _ Hmodel)).
    apply (bridge_scale _ _ (fM_p RS (1 / m * A) (1 / m * B) (1 / m * C) (1 / m * D)) _ (1 / m) Hk).
    + intros [[x y] z]. cbn. ring.
    + apply p_bridge. intros E. injection E as E1 E2 E3. apply Hn.
      rewrite (Hz A E1), (Hz B E2), (Hz C E3). reflexivity.
  - exists (- A), (- B), (- C), (- D). split; [reflexivity|].
    apply (bridge_same_card _ _ _ _ (Hsame _ _ _ _ Hmodel)).
    apply (bridge_scale _ _ (fM_p RS (1 / m * - A) (1 / m * - B) (1 / m * - C) (1 / m * - D)) _ (1 / m) Hk).
    + intros [[x y] z]. cbn. ring.
    + apply p_bridge. intros E. injection E as E1 E2 E3. apply Hn.
      apply Hz in E1, E2, E3. f_equal; [f_equal|]; lra.
Qed.

(* X / Y / Z: one pair, equal abscissae, equal radii *)
Lemma x2_bridge x1 r : bridge M_X [x1; r] (mkMsurf (fM_px RS x1) None).
Proof. two_bridge 1. ring. Qed.
Lemma y2_bridge x1 r : bridge M_Y [x1; r] (mkMsurf (fM_py RS x1) None).
Proof. two_bridge 1. ring. Qed.
Lemma z2_bridge x1 r : bridge M_Z [x1; r] (mkMsurf (fM_pz RS x1) None).
Proof. two_bridge 1. ring. Qed.

Ltac xyz_plane_bridge := unfold bridge, to_surface_mcnp; cbn; consts; cbn; two_bridge 1; ring.
Lemma x_plane_bridge x1 r1 r2 : bridge M_X [x1; r1; x1; r2] (mkMsurf (fM_px RS x1) None).
Proof. xyz_plane_bridge. Qed.
Lemma y_plane_bridge x1 r1 r2 : bridge M_Y [x1; r1; x1; r2] (mkMsurf (fM_py RS x1) None).
Proof. xyz_plane_bridge. Qed.
Lemma z_plane_bridge x1 r1 r2 : bridge M_Z [x1; r1; x1; r2] (mkMsurf (fM_pz RS x1) None).
Proof. xyz_plane_bridge. Qed.

Ltac xyz_cyl_bridge Hx :=
  unfold bridge, to_surface_mcnp; cbn; rewrite (proj2 (Reqb_false _ _) Hx); consts; cbn;
  two_bridge 1; ring.
Lemma x_cyl_bridge x1 x2 r : x1 <> x2 -> bridge M_X [x1; r; x2; r] (mkMsurf (fM_cx RS r) None).
Proof. intros Hx. xyz_cyl_bridge Hx. Qed.
Lemma y_cyl_bridge x1 x2 r : x1 <> x2 -> bridge M_Y [x1; r; x2; r] (mkMsurf (fM_cy RS r) None).
Proof. intros Hx. xyz_cyl_bridge Hx. Qed.
Lemma z_cyl_bridge x1 x2 r : x1 <> x2 -> bridge M_Z [x1; r; x2; r] (mkMsurf (fM_cz RS r) None).
Proof. intros Hx. xyz_cyl_bridge Hx. Qed.

Lemma one_sheet_frame_k (s : M4.msurf R) (f g : pointR -> R) (n : Z) k :
  S4.sheet_of s = n -> n <> 0%Z -> 0 < k ->
  (forall P, S4.msense s P = f (pt3 P)) ->
  (forall P, k * (IZR n * S4.axial (M4.mpt s) (M4.maxis s) P) = g (pt3 P)) ->
  forall P, (S4.mneg s P <-> neg_sense (mkMsurf f (Some g)) (pt3 P)) /\
            (S4.mpos s P <-> pos_sense (mkMsurf f (Some g)) (pt3 P)).
Proof.
  intros Hs Hn Hk Hf Hg P. unfold S4.mneg, S4.mpos, neg_sense, pos_sense. cbn [m_f m_sheet].
  rewrite Hs, Hf, <- Hg. split; split.
  - intros [H [H0|H0]]; [contradiction|]. split; [exact H|nra].
  - intros [H H0]. split; [exact H|right; nra].
  - intros [H|[_ H]]; [left; exact H|right; nra].
  - intros [H|H]; [left; exact H|right; split; [exact Hn|nra]].
Qed.

Lemma x_cone_bridge x1 r1 x2 r2 :
  x1 <> x2 -> r1 <> r2 -> 0 <= r1 -> 0 <= r2 ->
  bridge M_X [x1; r1; x2; r2]
    (mkMsurf (fM_kx RS (xyz_apex RS x1 r1 x2 r2) (xyz_t2 RS x1 r1 x2 r2))
             (Some (fun p => axial_x RS (xyz_apex RS x1 r1 x2 r2) p
                             * ((x1 - xyz_apex RS x1 r1 x2 r2) + (x2 - xyz_apex RS x1 r1 x2 r2))))).
Proof.
  intros Hx Hr H1 H2. unfold bridge, to_surface_mcnp. cbn.
  replace (Reqb x1 x2) with false by (symmetry; apply Reqb_false; exact Hx).
  replace (Reqb r1 r2) with false by (symmetry; apply Reqb_false; exact Hr).
  assert (Hd : x1 - x2 <> 0) by lra.
  assert (Hs : (r2 - r1) / (x2 - x1) = (r1 - r2) / (x1 - x2)) by (field; lra).
  rewrite Hs. set (t := (r1 - r2) / (x1 - x2)).
  assert (Ht : t <> 0).
  { unfold t. intros E. apply (Rmult_eq_compat_r (x1 - x2)) in E. unfold Rdiv in E.
    rewrite Rmult_assoc, Rinv_l, Rmult_1_r, Rmult_0_l in E by exact Hd. lra. }
  assert (Hsum : x1 - (x1 - r1 / t) + (x2 - (x1 - r1 / t)) = (r1 + r2) / t).
  { unfold t. field. split; lra. }
  assert (Hlt : 2 * (x1 - r1 / t) < x1 + x2 <-> 0 < (r1 + r2) / t).
  { rewrite <- Hsum. split; intros; lra. }
  clearbody t.
  replace (Reqb t 0) with false by (symmetry; apply Reqb_false; exact Ht).
  assert (Hpos : 0 < r1 + r2) by lra.
  destruct (Rltb (2 * (x1 - r1 / t)) (x1 + x2)) eqn:En;
    [apply Rltb_true in En; apply Hlt in En | apply Rltb_false in En].
  - cbn. eexists _, _; split; [reflexivity|]; split; [cbn; rewrite nappe_Z_1; reflexivity|].
    split; [wf_frame; auto|].
    eapply (one_sheet_frame_k _ _ _ 1%Z ((r1 + r2) / t)); [reflexivity|discriminate|exact En| |].
    + intros [x y z]; unf4. rewrite tan_atan, Rabs_sq. ring.
    + intros [x y z]; unf4. rewrite Hsum. ring.
  - assert (En' : (r1 + r2) / t < 0).
    { destruct (Rle_lt_or_eq_dec ((r1 + r2) / t) 0) as [Hl|He]; [|exact Hl|].
      - apply Rnot_lt_le. intros Hc. apply Hlt in Hc. lra.
      - exfalso. apply (Rmult_eq_compat_r t) in He. unfold Rdiv in He.
        rewrite Rmult_assoc, Rinv_l, Rmult_1_r, Rmult_0_l in He by exact Ht. lra. }
    cbn. eexists _, _; split; [reflexivity|]; split; [cbn; rewrite nappe_Z_m1; reflexivity|].
    split; [wf_frame; auto|].
    eapply (one_sheet_frame_k _ _ _ (-1)%Z (- ((r1 + r2) / t))); [reflexivity|discriminate|lra| |].
    + intros [x y z]; unf4. rewrite tan_atan, Rabs_sq. ring.
    + intros [x y z]; unf4. rewrite Hsum. ring.
Qed.

Lemma y_cone_bridge x1 r1 x2 r2 :
  x1 <> x2 -> r1 <> r2 -> 0 <= r1 -> 0 <= r2 ->
  bridge M_Y [x1; r1; x2; r2]
    (mkMsurf (fM_ky RS (xyz_apex RS x1 r1 x2 r2) (xyz_t2 RS x1 r1 x2 r2))
             (Some (fun p => axial_y RS (xyz_apex RS x1 r1 x2 r2) p
                             * ((x1 - xyz_apex RS x1 r1 x2 r2) + (x2 - xyz_apex RS x1 r1 x2 r2))))).
Proof.
  intros Hx Hr H1 H2. unfold bridge, to_surface_mcnp. cbn.
  replace (Reqb x1 x2) with false by (symmetry; apply Reqb_false; exact Hx).
  replace (Reqb r1 r2) with false by (symmetry; apply Reqb_false; exact Hr).
  assert (Hd : x1 - x2 <> 0) by lra.
  assert (Hs : (r2 - r1) / (x2 - x1) = (r1 - r2) / (x1 - x2)) by (field; lra).
  rewrite Hs. set (t := (r1 - r2) / (x1 - x2)).
  assert (Ht : t <> 0).
  { unfold t. intros E. apply (Rmult_eq_compat_r (x1 - x2)) in E. unfold Rdiv in E.
    rewrite Rmult_assoc, Rinv_l, Rmult_1_r, Rmult_0_l in E by exact Hd. lra. }
  assert (Hsum : x1 - (x1 - r1 / t) + (x2 - (x1 - r1 / t)) = (r1 + r2) / t).
  { unfold t. field. split; lra. }
  assert (Hlt : 2 * (x1 - r1 / t) < x1 + x2 <-> 0 < (r1 + r2) / t).
  { rewrite <- Hsum. split; intros; lra. }
  clearbody t.
  replace (Reqb t 0) with false by (symmetry; apply Reqb_false; exact Ht).
  assert (Hpos : 0 < r1 + r2) by lra.
  destruct (Rltb (2 * (x1 - r1 / t)) (x1 + x2)) eqn:En;
    [apply Rltb_true in En; apply Hlt in En | apply Rltb_false in En].
  - cbn. eexists _, _; split; [reflexivity|]; split; [cbn; rewrite nappe_Z_1; reflexivity|].
    split; [wf_frame; auto|].
    eapply (one_sheet_frame_k _ _ _ 1%Z ((r1 + r2) / t)); [reflexivity|discriminate|exact En| |].
    + intros [x y z]; unf4. rewrite tan_atan, Rabs_sq. ring.
    + intros [x y z]; unf4. rewrite Hsum. ring.
  - assert (En' : (r1 + r2) / t < 0).
    { destruct (Rle_lt_or_eq_dec ((r1 + r2) / t) 0) as [Hl|He]; [|exact Hl|].
      - apply Rnot_lt_le. intros Hc. apply Hlt in Hc. lra.
      - exfalso. apply (Rmult_eq_compat_r t) in He. unfold Rdiv in He.
        rewrite Rmult_assoc, Rinv_l, Rmult_1_r, Rmult_0_l in He by exact Ht. lra. }
    cbn. eexists _, _; split; [reflexivity|]; split; [cbn; rewrite nappe_Z_m1; reflexivity|].
    split; [wf_frame; auto|].
    eapply (one_sheet_frame_k _ _ _ (-1)%Z (- ((r1 + r2) / t))); [reflexivity|discriminate|lra| |].
    + intros [x y z]; unf4. rewrite tan_atan, Rabs_sq. ring.
    + intros [x y z]; unf4. rewrite Hsum. ring.
Qed.

Lemma z_cone_bridge x1 r1 x2 r2 :
  x1 <> x2 -> r1 <> r2 -> 0 <= r1 -> 0 <= r2 ->
  bridge M_Z [x1; r1; x2; r2]
    (mkMsurf (fM_kz RS (xyz_apex RS x1 r1 x2 r2) (xyz_t2 RS x1 r1 x2 r2))
             (Some (fun p => axial_z RS (xyz_apex RS x1 r1 x2 r2) p
                             * ((x1 - xyz_apex RS x1 r1 x2 r2) + (x2 - xyz_apex RS x1 r1 x2 r2))))).
Proof.
  intros Hx Hr H1 H2. unfold bridge, to_surface_mcnp. cbn.
  replace (Reqb x1 x2) with false by (symmetry; apply Reqb_false; exact Hx).
  replace (Reqb r1 r2) with false by (symmetry; apply Reqb_false; exact Hr).
  assert (Hd : x1 - x2 <> 0) by lra.
  assert (Hs : (r2 - r1) / (x2 - x1) = (r1 - r2) / (x1 - x2)) by (field; lra).
  rewrite Hs. set (t := (r1 - r2) / (x1 - x2)).
  assert (Ht : t <> 0).
  { unfold t. intros E. apply (Rmult_eq_compat_r (x1 - x2)) in E. unfold Rdiv in E.
    rewrite Rmult_assoc, Rinv_l, Rmult_1_r, Rmult_0_l in E by exact Hd. lra. }
  assert (Hsum : x1 - (x1 - r1 / t) + (x2 - (x1 - r1 / t)) = (r1 + r2) / t).
  { unfold t. field. split; lra. }
  assert (Hlt : 2 * (x1 - r1 / t) < x1 + x2 <-> 0 < (r1 + r2) / t).
  { rewrite <- Hsum. split; intros; lra. }
  clearbody t.
  replace (Reqb t 0) with false by (symmetry; apply Reqb_false; exact Ht).
  assert (Hpos : 0 < r1 + r2) by lra.
  destruct (Rltb (2 * (x1 - r1 / t)) (x1 + x2)) eqn:En;
    [apply Rltb_true in En; apply Hlt in En | apply Rltb_false in En].
  - cbn. eexists _, _; split; [reflexivity|]; split; [cbn; rewrite nappe_Z_1; reflexivity|].
    split; [wf_frame; auto|].
    eapply (one_sheet_frame_k _ _ _ 1%Z ((r1 + r2) / t)); [reflexivity|discriminate|exact En| |].
    + intros [x y z]; unf4. rewrite tan_atan, Rabs_sq. ring.
    + intros [x y z]; unf4. rewrite Hsum. ring.
  - assert (En' : (r1 + r2) / t < 0).
    { destruct (Rle_lt_or_eq_dec ((r1 + r2) / t) 0) as [Hl|He]; [|exact Hl|].
      - apply Rnot_lt_le. intros Hc. apply Hlt in Hc. lra.
      - exfalso. apply (Rmult_eq_compat_r t) in He. unfold Rdiv in He.
        rewrite Rmult_assoc, Rinv_l, Rmult_1_r, Rmult_0_l in He by exact Ht. lra. }
    cbn. eexists _, _; split; [reflexivity|]; split; [cbn; rewrite nappe_Z_m1; reflexivity|].
    split; [wf_frame; auto|].
    eapply (one_sheet_frame_k _ _ _ (-1)%Z (- ((r1 + r2) / t))); [reflexivity|discriminate|lra| |].
    + intros [x y z]; unf4. rewrite tan_atan, Rabs_sq. ring.
    + intros [x y z]; unf4. rewrite Hsum. ring.
Qed.

(* ---------- every mnemonic but the tori ---------- *)
Definition linkable_all (mn : mnem) : Prop :=
  match mn with M_T | M_TX | M_TY | M_TZ | M_C | M_K => False | _ => True end.

Theorem frame_sense_all mn prm ms :
  linkable_all mn -> mcnp_surface RS mn prm = Some ms -> admissible mn prm -> bridge mn prm ms.
Proof.
  intros Hl H Ha.
  assert (Hold : linkable mn prm -> bridge mn prm ms) by (intros Hk; exact (frame_sense mn prm ms Hk H Ha)).
  destruct mn; cbn [linkable_all] in Hl; try contradiction; try (apply Hold; exact I).
  - (* P *) cbn [mcnp_surface] in H. peel H.
    + apply Hold. reflexivity.
    + destruct (p9_bridge _ _ _ _ _ _ _ _ _ Ha) as (A & B & C & D & Hp & Hbr).
      cbv zeta in Hp. rewrite Hp in H. inversion H; subst. exact Hbr.
  - (* X *) cbn [mcnp_surface] in H. unfold xyz_card in H. peel H.
    + twob H x2_bridge.
    + cbn [seqb RS] in H. destruct (Reqb r r1) eqn:Ex.
      * apply Reqb_true in Ex. subst. twob H x_plane_bridge.
      * apply Reqb_false in Ex. destruct (Reqb r0 r2) eqn:Er.
        -- apply Reqb_true in Er. subst. twob H x_cyl_bridge. exact Ex.
        -- apply Reqb_false in Er. cbn in Ha.
           destruct Ha as [Ha|[Ha|[Ha1 Ha2]]]; [contradiction|contradiction|].
           inversion H; subst. exact (x_cone_bridge r r0 r1 r2 Ex Er Ha1 Ha2).
  - (* Y *) cbn [mcnp_surface] in H. unfold xyz_card in H. peel H.
    + twob H y2_bridge.
    + cbn [seqb RS] in H. destruct (Reqb r r1) eqn:Ex.
      * apply Reqb_true in Ex. subst. twob H y_plane_bridge.
      * apply Reqb_false in Ex. destruct (Reqb r0 r2) eqn:Er.
        -- apply Reqb_true in Er. subst. twob H y_cyl_bridge. exact Ex.
        -- apply Reqb_false in Er. cbn in Ha.
           destruct Ha as [Ha|[Ha|[Ha1 Ha2]]]; [contradiction|contradiction|].
           inversion H; subst. exact (y_cone_bridge r r0 r1 r2 Ex Er Ha1 Ha2).
  - (* Z *) cbn [mcnp_surface] in H. unfold xyz_card in H. peel H.
    + twob H z2_bridge.
    + cbn [seqb RS] in H. destruct (Reqb r r1) eqn:Ex.
      * apply Reqb_true in Ex. subst. twob H z_plane_bridge.
      * apply Reqb_false in Ex. destruct (Reqb r0 r2) eqn:Er.
        -- apply Reqb_true in Er. subst. twob H z_cyl_bridge. exact Ex.
        -- apply Reqb_false in Er. cbn in Ha.
           destruct Ha as [Ha|[Ha|[Ha1 Ha2]]]; [contradiction|contradiction|].
           inversion H; subst. exact (z_cone_bridge r r0 r1 r2 Ex Er Ha1 Ha2).
Qed.

Lemma card_tr_of_bridge mn prm ms o b :
  S4.rows_orthonormal b -> bridge mn prm ms ->
  exists coll, card_tr_convert (C4.tr12 o b) mn prm = M4.Ok coll /\
    forall p', (S4.coll_neg coll (S4.to_main o b p') <-> neg_sense ms (pt3 p')) /\
               (S4.coll_pos coll (S4.to_main o b p') <-> pos_sense ms (pt3 p')).
Proof.
  intros Hb (c & s & H1 & H2 & Hw & Hsense).
  destruct (T4.transformation_law o b s Hb (proj1 Hw)) as (s' & Htr & _ & Hmove).
  pose proof (moved_conv_wf o b s s' Hb Hw Htr) as Hcw.
  destruct (T4.convert_law s' Hcw) as (coll & Hconv & Hreg).
  exists coll. split.
  - unfold card_tr_convert, card_tr_convert_g. rewrite H1. fold to_ms. rewrite H2.
    unfold M4.tr_convert. rewrite Htr. exact Hconv.
  - intros p'. destruct (Hreg (S4.to_main o b p')) as [Rn Rp].
    destruct (Hmove p') as [Mn Mp]. destruct (Hsense p') as [Sn Sp].
    split; [rewrite <- Rn, Mn; exact Sn | rewrite <- Rp, Mp; exact Sp].
Qed.

(* the linked statement for every mnemonic of the property except the tori
   (torus_tr_linked), incl. the nine-entry P and the point-defined X / Y / Z *)
Theorem text_every_card_linked_all txt bc name tr ty prm mn ms n o b trs :
  parse_surface_card RS txt = Ok (bc, name, tr, ty, prm) ->
  tr_number tr = Some n -> M4.lookup n trs = M4.Ok (C4.tr12 o b) -> S4.rows_orthonormal b ->
  classify ty = TyMnem mn -> linkable_all mn ->
  mcnp_surface RS mn prm = Some ms -> admissible mn prm ->
  exists coll, convert_text_tr trs txt = M4.Ok coll /\
    forall p', (S4.coll_neg coll (S4.to_main o b p') <-> neg_sense ms (pt3 p')) /\
               (S4.coll_pos coll (S4.to_main o b p') <-> pos_sense ms (pt3 p')).
Proof.
  intros Hp Hn Hlk Hb Hc Hl Hs Ha.
  destruct (card_tr_of_bridge mn prm ms o b Hb (frame_sense_all mn prm ms Hl Hs Ha)) as (coll & Hcv & Hreg).
  exists coll. split; [|exact Hreg].
  unfold convert_text_tr. rewrite Hp, Hc, Hn, Hlk. exact Hcv.
Qed.

(* ---------- tori with ANY orthonormal TR (C04's total torus law): also the
   numpy.allclose snap zone ---------- *)
Lemma torus_card_total_linked mn prm c u cp (f : pointR -> R) o b :
  S4.rows_orthonormal b -> S4.norm2 u = 1 ->
  (exists cd, to_surface_mcnp RS mn prm = Ok cd /\ to_ms cd = Some (M4.mkMS M4.KT c u cp None)) ->
  (forall P, S4.msense (M4.mkMS M4.KT c u cp None) P = f (pt3 P)) ->
  exists t a', card_tr_convert (C4.tr12 o b) mn prm = M4.Ok [(t, 1%Z)] /\
    (forall p', S4.t4val t (S4.to_main o b p')
                = S4.msense (M4.mkMS M4.KT (S4.to_main o b c) a' cp None) (S4.to_main o b p')) /\
    S4.norm2 a' = 1 /\
    (a' = F4.tvec b u \/ S4.norm2 (S4.cross a' (F4.tvec b u)) <= O4.tiny) /\
    (a' = F4.tvec b u -> forall p', S4.t4val t (S4.to_main o b p') = f (pt3 p')).
Proof.
  intros Hb Hu (cd & H1 & H2) Hf.
  assert (Hcv : card_tr_convert (C4.tr12 o b) mn prm
                = M4.tr_convert RS (C4.tr12 o b) (M4.mkMS M4.KT c u cp None)).
  { unfold card_tr_convert, card_tr_convert_g. rewrite H1. fold to_ms. rewrite H2. reflexivity. }
  destruct (O4.frame_transform_torus_total o b c u cp None Hb Hu) as (t & a' & Ht & Hv & Hn & Hc & He).
  exists t, a'. split; [rewrite Hcv; exact Ht|]. split; [exact Hv|]. split; [exact Hn|].
  split; [exact Hc|]. intros Ea p'. rewrite (He Ea p'). apply Hf.
Qed.

(* TX / TY / TZ with any orthonormal TR: ONE torus is always written; it is the
   torus with the moved centre and the card's radii about an axis a' that is
   the moved axis itself, or (numpy.allclose snap) a coordinate axis with
   |a' x moved axis|^2 <= 2e-16; when a' is the moved axis its equation at the
   moved point is exactly the card's at p' *)
Theorem torus_tr_total_linked x0 y0 z0 A B C o b :
  S4.rows_orthonormal b ->
  let W := fun mn u (f : pointR -> R) =>
    exists t a', card_tr_convert (C4.tr12 o b) mn [x0; y0; z0; A; B; C] = M4.Ok [(t, 1%Z)] /\
      (forall p', S4.t4val t (S4.to_main o b p')
                  = S4.msense (M4.mkMS M4.KT (S4.to_main o b (V4.mkV x0 y0 z0)) a' [A; B; C] None)
                              (S4.to_main o b p')) /\
      S4.norm2 a' = 1 /\
      (a' = F4.tvec b u \/ S4.norm2 (S4.cross a' (F4.tvec b u)) <= O4.tiny) /\
      (a' = F4.tvec b u -> forall p', S4.t4val t (S4.to_main o b p') = f (pt3 p')) in
  W M_TX (V4.mkV 1 0 0) (fM_tx RS x0 y0 z0 A B C) /\
  W M_TY (V4.mkV 0 1 0) (fM_ty RS x0 y0 z0 A B C) /\
  W M_TZ (V4.mkV 0 0 1) (fM_tz RS x0 y0 z0 A B C).
Proof.
  intros Hb W. unfold W. split; [|split].
  - apply (torus_card_total_linked _ _ (V4.mkV x0 y0 z0) (V4.mkV 1 0 0) [A; B; C] _ o b Hb).
    + unfold S4.norm2, S4.dot. cbn. ring.
    + eexists. split; reflexivity.
    + apply tx_msense.
  - apply (torus_card_total_linked _ _ (V4.mkV x0 y0 z0) (V4.mkV 0 1 0) [A; B; C] _ o b Hb).
    + unfold S4.norm2, S4.dot. cbn. ring.
    + eexists. split; reflexivity.
    + apply ty_msense.
  - apply (torus_card_total_linked _ _ (V4.mkV x0 y0 z0) (V4.mkV 0 0 1) [A; B; C] _ o b Hb).
    + unfold S4.norm2, S4.dot. cbn. ring.
    + eexists. split; reflexivity.
    + apply tz_msense.
Qed.
