(* C02 — lemmas about the model at exact reals: single polynomial surfaces
   (planes, spheres, cylinders, quadrics, tori) and the collection reading. *)
From Coq Require Import List ZArith Bool Reals Lra Lia Psatz.
From T4V Require Import Base.Scalar C02.Vec C02.Spec C02.Model.
Import ListNotations.
Open Scope R_scope.

Notation pointR := (point (T:=R)).
Notation collR := (coll (T:=R)).

(* ---------- how a converted card is read ---------- *)
(* one MCNP surface = a signed list of TRIPOLI-4 surfaces (CellConversion.
   pot_expand_surfs): the negative reference -s becomes the intersection of
   the literals -(side_i * id_i), the positive reference +s the union of the
   literals side_i * id_i; MINUS selects f_T4 < 0 and PLUS f_T4 > 0 *)
Definition lit_neg (p : pointR) (ss : t4surf (T:=R) * Z) : Prop :=
  exists g, f_T4 RS (fst (fst ss)) (snd (fst ss)) = Some g /\ IZR (snd ss) * g p < 0.
Definition lit_pos (p : pointR) (ss : t4surf (T:=R) * Z) : Prop :=
  exists g, f_T4 RS (fst (fst ss)) (snd (fst ss)) = Some g /\ 0 < IZR (snd ss) * g p.
Definition neg_coll (c : collR) (p : pointR) : Prop := Forall (lit_neg p) c.
Definition pos_coll (c : collR) (p : pointR) : Prop := Exists (lit_pos p) c.

(* a card converted into ONE surface with side +1 whose implicit function is a
   positive multiple of the MCNP one: same zero set, same negative region *)
Definition locus_sense (out : res collR) (f : pointR -> R) : Prop :=
  exists ty prm g k,
    out = Ok [((ty, prm), 1%Z)] /\ f_T4 RS ty prm = Some g /\ 0 < k /\
    forall p, g p = k * f p.

Lemma locus_sense_regions out f :
  locus_sense out f ->
  exists c, out = Ok c /\
    forall p, (neg_coll c p <-> f p < 0) /\ (pos_coll c p <-> 0 < f p) /\
              ((exists ty prm g, c = [((ty, prm), 1%Z)] /\ f_T4 RS ty prm = Some g /\
                                 (g p = 0 <-> f p = 0))).
Proof.
  intros (ty & prm & g & k & Hout & Hg & Hk & Hf).
  exists [((ty, prm), 1%Z)]. split; [exact Hout|]. intros p.
  assert (Hkf : forall v, (k * v < 0 <-> v < 0) /\ (0 < k * v <-> 0 < v) /\ (k * v = 0 <-> v = 0)).
  { intros v. split; [|split]; split; intros H; nra. }
  split; [|split].
  - split.
    + intros H. inversion H as [|? ? (g' & Hg' & Hlt) _]; subst. cbn in Hg'.
      rewrite Hg in Hg'. injection Hg' as <-. cbn in Hlt. rewrite Hf in Hlt.
      apply (Hkf (f p)). lra.
    + intros H. constructor; [|constructor]. exists g. split; [exact Hg|].
      cbn. rewrite Hf. apply (Hkf (f p)) in H. lra.
  - split.
    + intros H. inversion H as [? ? (g' & Hg' & Hlt)|? ? H']; subst; [|inversion H'].
      cbn in Hg'. rewrite Hg in Hg'. injection Hg' as <-. cbn in Hlt. rewrite Hf in Hlt.
      apply (Hkf (f p)). lra.
    + intros H. constructor. exists g. split; [exact Hg|].
      cbn. rewrite Hf. apply (Hkf (f p)) in H. lra.
  - exists ty, prm, g. repeat split; try assumption; rewrite Hf; apply (Hkf (f p)).
Qed.


(* ---------- tactics ---------- *)
Lemma Reqb_refl x : Reqb x x = true. Proof. apply Reqb_true; reflexivity. Qed.
Lemma Reqb_1_0 : Reqb 1 0 = false. Proof. apply Reqb_false; lra. Qed.
Lemma Reqb_0_1 : Reqb 0 1 = false. Proof. apply Reqb_false; lra. Qed.
Lemma Rltb_0_1 : Rltb 0 1 = true. Proof. apply Rltb_true; lra. Qed.
Lemma Rltb_irrefl x : Rltb x x = false. Proof. apply Rltb_false; lra. Qed.

(* rewrite the comparisons of constants produced by the coordinate axes *)
Ltac consts := rewrite ?Reqb_refl, ?Reqb_1_0, ?Reqb_0_1, ?Rltb_0_1, ?Rltb_irrefl; cbn [andb orb negb].

(* one case split per comparison *)
Ltac rb :=
  repeat match goal with
  | |- context [Reqb ?a ?b] =>
      let E := fresh "E" in destruct (Reqb a b) eqn:E;
      [apply Reqb_true in E | apply Reqb_false in E]; cbn [andb orb negb]
  | |- context [Rltb ?a ?b] =>
      let E := fresh "E" in destruct (Rltb a b) eqn:E;
      [apply Rltb_true in E | apply Rltb_false in E]; cbn [andb orb negb]
  | |- context [Rleb ?a ?b] =>
      let E := fresh "E" in destruct (Rleb a b) eqn:E;
      [apply Rleb_true in E | apply Rleb_false in E]; cbn [andb orb negb]
  end.

(* close a goal [locus_sense (Ok [...]) f] with factor k once the model has
   been computed *)
Ltac finish_locus k :=
  eexists _, _, _, k; split; [reflexivity|]; split; [reflexivity|]; split; [try lra|];
  intros [[x y] z]; cbn; unfold ssq; cbn.

(* ---------- generic lemmas: one per convert_* function, any frame ---------- *)
Notation vecR := (vec (T:=R)).

(* u . (q - p): the plane through p with normal u *)
Definition plane_through (p u : vecR) (q : pointR) : R := scal RS u (vdiff RS q p).
(* |(q-p) x u|^2 - r^2 |u|^2 = |u|^2 (dist(q, axis)^2 - r^2) *)
Definition cyl_about (p u : vecR) (r : R) (q : pointR) : R :=
  cross2 RS (vdiff RS q p) u - r * r * mag2 RS u.
(* |(q-p) x u|^2 - t2 ((q-p).u)^2 = |u|^2 (perp^2 - t2 axial^2) *)
Definition cone_about (p u : vecR) (t2 : R) (q : pointR) : R :=
  cross2 RS (vdiff RS q p) u - t2 * (scal RS (vdiff RS q p) u * scal RS (vdiff RS q p) u).

Definition surf_is (s : t4surf (T:=R)) (f : pointR -> R) : Prop :=
  exists g k, f_T4 RS (fst s) (snd s) = Some g /\ 0 < k /\ forall q, g q = k * f q.

Lemma inv_sq_pos a : a <> 0 -> 0 < / (a * a).
Proof. intros H. apply Rinv_0_lt_compat. nra. Qed.

(* u <> 0 with two components known to vanish: the third does not *)
Ltac nz Hu :=
  repeat match goal with
  | v : R |- _ =>
      lazymatch goal with
      | _ : v <> 0 |- _ => fail
      | _ => assert (v <> 0) by (let H := fresh in intro H; subst; apply Hu; reflexivity)
      end
  end.

Ltac fin_surf k :=
  exists_g k
with exists_g k :=
  eexists _, k; split; [reflexivity|]; split;
  [first [lra | apply inv_sq_pos; assumption | apply Rinv_0_lt_compat; lra]|];
  intros [[x y] z]; cbn; unfold ssq; cbn; first [ring | field; first [assumption | lra]].

Lemma axis_plane_ok p u :
  u <> (0, 0, 0) -> surf_is (axis_plane RS p u) (plane_through p u).
Proof.
  destruct p as [[px py] pz], u as [[ux uy] uz]. intros Hu.
  unfold axis_plane, plane_through, surf_is. cbn. rb; subst.
  all: try (exfalso; apply Hu; reflexivity).
  all: try (exfalso; lra).
  all: first [ fin_surf 1 | fin_surf (/ uz) | fin_surf (/ uy) | fin_surf (/ ux) ].
Qed.

Lemma convert_plane_ok p u :
  u <> (0, 0, 0) ->
  exists s, convert_plane RS (mkCad KdP (Some (p, u)) []) = Ok s /\ surf_is s (plane_through p u).
Proof. intros Hu. eexists; split; [reflexivity|]. apply axis_plane_ok; exact Hu. Qed.

Lemma convert_cylinder_ok p u r :
  u <> (0, 0, 0) ->
  exists s, convert_cylinder RS (mkCad KdC (Some (p, u)) [Some r]) = Ok s /\
            surf_is s (cyl_about p u r).
Proof.
  destruct p as [[px py] pz], u as [[ux uy] uz]. intros Hu.
  unfold convert_cylinder, cyl_about, surf_is. cbn. rb; subst.
  all: try (exfalso; apply Hu; reflexivity).
  all: nz Hu.
  all: eexists; (split; [reflexivity|]); cbn.
  all: first [ fin_surf (/ (uz * uz)) | fin_surf (/ (ux * ux)) | fin_surf (/ (uy * uy)) | fin_surf 1 ].
Qed.

Lemma convert_sphere_ok p u r :
  exists s, convert_sphere (mkCad KdS (Some (p, u)) [Some r]) = Ok s /\
            surf_is s (fM_s RS (vx p) (vy p) (vz p) r).
Proof.
  destruct p as [[px py] pz]. eexists; split; [reflexivity|]. fin_surf 1.
Qed.

(* tangent of the angle written for a cone whose compl_param[1] is atan t *)
Lemma tan_deg_atan t : tan_deg RS (180 * atan t / PI) = t.
Proof.
  unfold tan_deg. cbn.
  replace (180 * atan t / PI * PI / 180) with (atan t) by (field; apply PI_neq0).
  fold (tan (atan t)). apply tan_atan.
Qed.

(* the cone surface alone (first entry of the collection), any axis *)
Definition cone_surf (p u : vecR) (ang : R) : t4surf (T:=R) :=
  let '(p_x, p_y, p_z) := p in
  let '(u_x, u_y, u_z) := u in
  let theta := 180 * ang / PI in
  if Reqb u_x 0 && Reqb u_y 0 then (CONEZ, [p_x; p_y; p_z; theta])
  else if Reqb u_y 0 && Reqb u_z 0 then (CONEX, [p_x; p_y; p_z; theta])
  else if Reqb u_z 0 && Reqb u_x 0 then (CONEY, [p_x; p_y; p_z; theta])
  else (CONE, [p_x; p_y; p_z; theta; u_x; u_y; u_z]).

Lemma cone_surf_ok p u t :
  u <> (0, 0, 0) -> surf_is (cone_surf p u (atan t)) (cone_about p u (t * t)).
Proof.
  destruct p as [[px py] pz], u as [[ux uy] uz]. intros Hu.
  unfold cone_surf, cone_about, surf_is. rb; subst.
  all: try (exfalso; apply Hu; reflexivity).
  all: nz Hu.
  all: cbn [fst snd f_T4]; rewrite tan_deg_atan.
  all: first [ fin_surf (/ (uz * uz)) | fin_surf (/ (ux * ux)) | fin_surf (/ (uy * uy)) | fin_surf 1 ].
Qed.

(* the auxiliary plane: the literal [side' * id] selects side * (u . (q - p)) *)
Lemma cone_aux_plane_ok p u side :
  u <> (0, 0, 0) ->
  exists s side' g k, cone_aux_plane RS p u side = Ok (s, side') /\
    f_T4 RS (fst s) (snd s) = Some g /\ 0 < k /\
    forall q, IZR side' * g q = k * (IZR side * plane_through p u q).
Proof.
  destruct p as [[px py] pz], u as [[ux uy] uz]. intros Hu.
  unfold cone_aux_plane, plane_through. cbn. rb; subst.
  all: try (exfalso; apply Hu; reflexivity).
  all: try (exfalso; lra).
  all: eexists _, _, _.
  all: first
    [ exists 1; split; [reflexivity|]; split; [reflexivity|]; split; [lra|];
      intros [[x y] z]; cbn; ring
    | exists (/ uz); split; [reflexivity|]; split; [reflexivity|]; split;
      [apply Rinv_0_lt_compat; lra|]; intros [[x y] z]; cbn; field; lra
    | exists (/ ux); split; [reflexivity|]; split; [reflexivity|]; split;
      [apply Rinv_0_lt_compat; lra|]; intros [[x y] z]; cbn; field; lra
    | exists (/ uy); split; [reflexivity|]; split; [reflexivity|]; split;
      [apply Rinv_0_lt_compat; lra|]; intros [[x y] z]; cbn; field; lra
    | exists (/ - uz); split; [reflexivity|]; split; [reflexivity|]; split;
      [apply Rinv_0_lt_compat; lra|]; intros [[x y] z]; cbn; rewrite opp_IZR; field; lra
    | exists (/ - ux); split; [reflexivity|]; split; [reflexivity|]; split;
      [apply Rinv_0_lt_compat; lra|]; intros [[x y] z]; cbn; rewrite opp_IZR; field; lra
    | exists (/ - uy); split; [reflexivity|]; split; [reflexivity|]; split;
      [apply Rinv_0_lt_compat; lra|]; intros [[x y] z]; cbn; rewrite opp_IZR; field; lra ].
Qed.

(* ---------- one-sheet cones: cone AND auxiliary plane ---------- *)
(* f: the double cone, g: positive on the kept side of the apex plane.
   -s is the intersection "inside the double cone and on the kept side",
   +s is the union "outside the double cone or on the other side". *)
Definition one_sheet (out : res collR) (f g : pointR -> R) : Prop :=
  exists c, out = Ok c /\ forall p,
    (neg_coll c p <-> f p < 0 /\ 0 < g p) /\ (pos_coll c p <-> 0 < f p \/ g p < 0) /\
    (exists s rest h, c = (s, 1%Z) :: rest /\ f_T4 RS (fst s) (snd s) = Some h /\
                      (h p = 0 <-> f p = 0)).

Lemma two_lits s1 s2 sd h1 h2 k1 k2 (f g : pointR -> R) :
  f_T4 RS (fst s1) (snd s1) = Some h1 -> f_T4 RS (fst s2) (snd s2) = Some h2 ->
  0 < k1 -> 0 < k2 ->
  (forall p, h1 p = k1 * f p) -> (forall p, IZR sd * h2 p = - (k2 * g p)) ->
  one_sheet (Ok [(s1, 1%Z); (s2, sd)]) f g.
Proof.
  intros H1 H2 Hk1 Hk2 Hf Hg. eexists; split; [reflexivity|]. intros p.
  assert (Hs1 : forall v, (k1 * v < 0 <-> v < 0) /\ (0 < k1 * v <-> 0 < v) /\ (k1 * v = 0 <-> v = 0)).
  { intros v. split; [|split]; split; intros H; nra. }
  assert (Hs2 : forall v, (- (k2 * v) < 0 <-> 0 < v) /\ (0 < - (k2 * v) <-> v < 0)).
  { intros v. split; split; intros H; nra. }
  split; [|split].
  - split.
    + intros H. inversion H as [|? ? (g1 & Hg1 & Hlt1) H']; subst.
      inversion H' as [|? ? (g2 & Hg2 & Hlt2) _]; subst.
      cbn [fst snd] in *. rewrite H1 in Hg1. injection Hg1 as <-.
      rewrite H2 in Hg2. injection Hg2 as <-.
      rewrite Rmult_1_l, Hf in Hlt1. rewrite Hg in Hlt2.
      split; [apply (Hs1 (f p)); exact Hlt1 | apply (Hs2 (g p)); exact Hlt2].
    + intros [Hlt1 Hlt2]. constructor; [|constructor; [|constructor]].
      * exists h1. split; [exact H1|]. cbn [fst snd]. rewrite Rmult_1_l, Hf.
        apply (Hs1 (f p)); exact Hlt1.
      * exists h2. split; [exact H2|]. cbn [fst snd]. rewrite Hg.
        apply (Hs2 (g p)); exact Hlt2.
  - split.
    + intros H. inversion H as [? ? (g1 & Hg1 & Hlt1)|? ? H']; subst.
      * cbn [fst snd] in *. rewrite H1 in Hg1. injection Hg1 as <-.
        rewrite Rmult_1_l, Hf in Hlt1. left. apply (Hs1 (f p)); exact Hlt1.
      * inversion H' as [? ? (g2 & Hg2 & Hlt2)|? ? H'']; subst; [|inversion H''].
        cbn [fst snd] in *. rewrite H2 in Hg2. injection Hg2 as <-.
        rewrite Hg in Hlt2. right. apply (Hs2 (g p)); exact Hlt2.
    + intros [Hlt|Hlt].
      * apply Exists_cons_hd. exists h1. split; [exact H1|]. cbn [fst snd].
        rewrite Rmult_1_l, Hf. apply (Hs1 (f p)); exact Hlt.
      * apply Exists_cons_tl, Exists_cons_hd. exists h2. split; [exact H2|]. cbn [fst snd].
        rewrite Hg. apply (Hs2 (g p)); exact Hlt.
  - exists s1, [(s2, sd)], h1. split; [reflexivity|]. split; [exact H1|].
    rewrite Hf. apply (Hs1 (f p)).
Qed.
