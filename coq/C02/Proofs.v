(* C02 — lemmas about the model at exact reals: single polynomial surfaces
   (planes, spheres, cylinders, quadrics, tori) and the collection reading. *)
From Coq Require Import List ZArith Bool Reals Lra Lia Psatz.
From T4V Require Import Base.Scalar C02.Vec C02.Spec C02.Model.
Import ListNotations.
Open Scope R_scope.

Notation pointR := (point (T:=R)).
Notation collR := (coll (T:=R)).

(* ---------- how a converted card is read ---------- *)
(* one MCNP surface = a signed list of TRIPOLI-4 surfaces (CellConversion.
   pot_expand_surfs): the negative reference -s becomes the intersection of
   the literals -(side_i * id_i), the positive reference +s the union of the
   literals side_i * id_i; MINUS selects f_T4 < 0 and PLUS f_T4 > 0 *)
Definition lit_neg (p : pointR) (ss : t4surf (T:=R) * Z) : Prop :=
  exists g, f_T4 RS (fst (fst ss)) (snd (fst ss)) = Some g /\ IZR (snd ss) * g p < 0.
Definition lit_pos (p : pointR) (ss : t4surf (T:=R) * Z) : Prop :=
  exists g, f_T4 RS (fst (fst ss)) (snd (fst ss)) = Some g /\ 0 < IZR (snd ss) * g p.
Definition neg_coll (c : collR) (p : pointR) : Prop := Forall (lit_neg p) c.
Definition pos_coll (c : collR) (p : pointR) : Prop := Exists (lit_pos p) c.

(* a card converted into ONE surface with side +1 whose implicit function is a
   positive multiple of the MCNP one: same zero set, same negative region *)
Definition locus_sense (out : res collR) (f : pointR -> R) : Prop :=
  exists ty prm g k,
    out = Ok [((ty, prm), 1%Z)] /\ f_T4 RS ty prm = Some g /\ 0 < k /\
    forall p, g p = k * f p.

(* same, but the implicit function is a NEGATIVE multiple: same zero set,
   senses exchanged *)
Definition locus_flipped (out : res collR) (f : pointR -> R) : Prop :=
  exists ty prm g k,
    out = Ok [((ty, prm), 1%Z)] /\ f_T4 RS ty prm = Some g /\ k < 0 /\
    forall p, g p = k * f p.

Lemma locus_sense_regions out f :
  locus_sense out f ->
  exists c, out = Ok c /\
    forall p, (neg_coll c p <-> f p < 0) /\ (pos_coll c p <-> 0 < f p) /\
              ((exists ty prm g, c = [((ty, prm), 1%Z)] /\ f_T4 RS ty prm = Some g /\
                                 (g p = 0 <-> f p = 0))).
Proof.
  intros (ty & prm & g & k & Hout & Hg & Hk & Hf).
  exists [((ty, prm), 1%Z)]. split; [exact Hout|]. intros p.
  assert (Hkf : forall v, (k * v < 0 <-> v < 0) /\ (0 < k * v <-> 0 < v) /\ (k * v = 0 <-> v = 0)).
  { intros v. split; [|split]; split; intros H; nra. }
  split; [|split].
  - split.
    + intros H. inversion H as [|? ? (g' & Hg' & Hlt) _]; subst. cbn in Hg'.
      rewrite Hg in Hg'. injection Hg' as <-. cbn in Hlt. rewrite Hf in Hlt.
      apply (Hkf (f p)). lra.
    + intros H. constructor; [|constructor]. exists g. split; [exact Hg|].
      cbn. rewrite Hf. apply (Hkf (f p)) in H. lra.
  - split.
    + intros H. inversion H as [? ? (g' & Hg' & Hlt)|? ? H']; subst; [|inversion H'].
      cbn in Hg'. rewrite Hg in Hg'. injection Hg' as <-. cbn in Hlt. rewrite Hf in Hlt.
      apply (Hkf (f p)). lra.
    + intros H. constructor. exists g. split; [exact Hg|].
      cbn. rewrite Hf. apply (Hkf (f p)) in H. lra.
  - exists ty, prm, g. repeat split; try assumption; rewrite Hf; apply (Hkf (f p)).
Qed.

Lemma locus_flipped_regions out f :
  locus_flipped out f ->
  exists c, out = Ok c /\
    forall p, (neg_coll c p <-> 0 < f p) /\ (pos_coll c p <-> f p < 0).
Proof.
  intros (ty & prm & g & k & Hout & Hg & Hk & Hf).
  exists [((ty, prm), 1%Z)]. split; [exact Hout|]. intros p.
  split.
  - split.
    + intros H. inversion H as [|? ? (g' & Hg' & Hlt) _]; subst. cbn in Hg'.
      rewrite Hg in Hg'. injection Hg' as <-. cbn in Hlt. rewrite Hf in Hlt. nra.
    + intros H. constructor; [|constructor]. exists g. split; [exact Hg|].
      cbn. rewrite Hf. nra.
  - split.
    + intros H. inversion H as [? ? (g' & Hg' & Hlt)|? ? H']; subst; [|inversion H'].
      cbn in Hg'. rewrite Hg in Hg'. injection Hg' as <-. cbn in Hlt. rewrite Hf in Hlt. nra.
    + intros H. constructor. exists g. split; [exact Hg|]. cbn. rewrite Hf. nra.
Qed.

(* ---------- tactics ---------- *)
Ltac reqb_cases :=
  repeat match goal with
  | |- context [Reqb ?a ?b] =>
      let E := fresh "E" in destruct (Reqb a b) eqn:E;
      [apply Reqb_true in E | apply Reqb_false in E]
  | |- context [Rltb ?a ?b] =>
      let E := fresh "E" in destruct (Rltb a b) eqn:E;
      [apply Rltb_true in E | apply Rltb_false in E]
  | |- context [Rleb ?a ?b] =>
      let E := fresh "E" in destruct (Rleb a b) eqn:E;
      [apply Rleb_true in E | apply Rleb_false in E]
  end.

(* close a goal [locus_sense (Ok [...]) f] with factor k once the model has
   been computed *)
Ltac finish_locus k :=
  eexists _, _, _, k; split; [reflexivity|]; split; [reflexivity|]; split; [try lra|];
  intros [[x y] z]; cbn; unfold ssq; cbn.

(* ---------- spheres ---------- *)
Lemma so_locus_sense r : locus_sense (convert_card RS M_SO [r]) (fM_so RS r).
Proof. finish_locus 1. ring. Qed.
Lemma s_locus_sense x0 y0 z0 r : locus_sense (convert_card RS M_S [x0; y0; z0; r]) (fM_s RS x0 y0 z0 r).
Proof. finish_locus 1. ring. Qed.
Lemma sx_locus_sense c r : locus_sense (convert_card RS M_SX [c; r]) (fM_sx RS c r).
Proof. finish_locus 1. ring. Qed.
Lemma sy_locus_sense c r : locus_sense (convert_card RS M_SY [c; r]) (fM_sy RS c r).
Proof. finish_locus 1. ring. Qed.
Lemma sz_locus_sense c r : locus_sense (convert_card RS M_SZ [c; r]) (fM_sz RS c r).
Proof. finish_locus 1. ring. Qed.
