(* C02 — planes through three points: planeParamsFromPoints against the
   manual's orientation rules (Spec.p3_plane), outside the epsilon band of the
   code's thresholds. *)
From Coq Require Import List ZArith Bool Reals Lra Lia Psatz.
From T4V Require Import Base.Scalar C02.Vec C02.Spec C02.Model C02.Proofs C02.ProofsCards.
Import ListNotations.
Open Scope R_scope.

Definition e14 : R := eps14 RS.
Definition e10 : R := eps10 RS.
Lemma e14_pos : 0 < e14. Proof. apply pow10_pos. lia. Qed.
Lemma e10_pos : 0 < e10. Proof. apply pow10_pos. lia. Qed.

(* a quantity tested by the orientation rule is exactly zero or clear of the
   code's threshold: |v| / |n| > 1e-14 *)
Definition band_free (m v : R) : Prop := v = 0 \/ e14 * m < Rabs v.

(* the guard of the theorem, on the manual's quantities: n = (p2-p1) x (p3-p1),
   D = n . p1 *)
Definition p3_guard (n p1 : vecR) : Prop :=
  let m := mag RS n in
  e10 < mag2 RS n /\ band_free m (scal RS n p1) /\
  band_free m (vz n) /\ band_free m (vy n) /\ band_free m (vx n).

Lemma band_step m v :
  0 < m -> band_free m v ->
  (v < 0 -> Rltb (1 / m * v) (- e14) = true) /\
  (0 < v -> Rltb (1 / m * v) (- e14) = false /\ Rltb e14 (1 / m * v) = true) /\
  (v = 0 -> Rltb (1 / m * v) (- e14) = false /\ Rltb e14 (1 / m * v) = false).
Proof.
  intros Hm Hb. pose proof e14_pos as He.
  assert (Hw : 1 / m * v * m = v) by (field; lra).
  set (w := 1 / m * v) in *. clearbody w.
  split; [|split].
  - intros Hv. apply Rltb_true. destruct Hb as [Hb|Hb]; [lra|].
    rewrite Rabs_left in Hb by exact Hv. nra.
  - intros Hv. destruct Hb as [Hb|Hb]; [lra|].
    rewrite Rabs_right in Hb by lra.
    split; [apply Rltb_false | apply Rltb_true]; nra.
  - intros Hv. split; apply Rltb_false; nra.
Qed.

Definition scale4 (k : R) (q : R * R * R * R) : list R :=
  let '(a, b, c, d) := q in [k * a; k * b; k * c; k * d].

(* orient_plane returns 1/|n| times the plane chosen by the manual's rules *)
Lemma orient_plane_ok n p1 :
  p3_guard n p1 ->
  let '(A, B, C) := n in
  let D := scal RS n p1 in
  exists keep, p3_keep RS n D = Some keep /\
    orient_plane RS n p1 =
      Ok (scale4 (1 / mag RS n) (if keep then (A, B, C, D) else (- A, - B, - C, - D))).
Proof.
  destruct n as [[A B] C], p1 as [[x1 y1] z1].
  intros (Hlen & HbD & HbC & HbB & HbA). cbn [vx vy vz fst snd] in *.
  assert (Hm2 : 0 < mag2 RS (A, B, C)) by (pose proof e10_pos; unfold e10 in *; lra).
  assert (Hm : 0 < mag RS (A, B, C)) by (apply sqrt_lt_R0; exact Hm2).
  unfold orient_plane. fold e10 in Hlen.
  replace (sleb RS (mag2 RS (A, B, C)) (eps10 RS)) with false
    by (symmetry; apply Rleb_false; exact Hlen).
  set (m := mag RS (A, B, C)) in *. set (D := scal RS (A, B, C) (x1, y1, z1)) in *.
  assert (Hpos : scal RS (renorm RS (A, B, C)) (x1, y1, z1) = 1 / m * D).
  { unfold renorm, D. fold m. cbn. ring. }
  assert (Hux : vx (renorm RS (A, B, C)) = 1 / m * A) by reflexivity.
  assert (Huy : vy (renorm RS (A, B, C)) = 1 / m * B) by reflexivity.
  assert (Huz : vz (renorm RS (A, B, C)) = 1 / m * C) by reflexivity.
  cbv zeta. rewrite Hpos, Hux, Huy, Huz.
  change (sltb RS) with Rltb. change (sneg RS) with Ropp. change (eps14 RS) with e14.
  change (s0 RS) with 0.
  destruct (band_step m D Hm HbD) as (D1 & D2 & D3).
  destruct (band_step m C Hm HbC) as (C1 & C2 & C3).
  destruct (band_step m B Hm HbB) as (B1 & B2 & B3).
  destruct (band_step m A Hm HbA) as (A1 & A2 & A3).
  unfold p3_keep. change (sltb RS) with Rltb. change (s0 RS) with 0.
  clearbody m D.
  assert (Hflip : forall v, - (1 / m * v) = 1 / m * - v) by (intros; ring).
  destruct (Rtotal_order D 0) as [HD|[HD|HD]].
  { exists false. rewrite (D1 HD).
    rewrite (proj2 (Rltb_false 0 D)) by lra. rewrite (proj2 (Rltb_true D 0)) by lra.
    split; [reflexivity|]. cbn. rewrite !Hflip. reflexivity. }
  2:{ exists true. destruct (D2 HD) as [-> ->].
      rewrite (proj2 (Rltb_true 0 D)) by lra. split; reflexivity. }
  destruct (D3 HD) as [-> ->].
  rewrite (proj2 (Rltb_false 0 D)) by lra. rewrite (proj2 (Rltb_false D 0)) by lra.
  destruct (Rtotal_order C 0) as [HC|[HC|HC]].
  { exists false. rewrite (C1 HC).
    rewrite (proj2 (Rltb_false 0 C)) by lra. rewrite (proj2 (Rltb_true C 0)) by lra.
    split; [reflexivity|]. cbn. rewrite !Hflip. reflexivity. }
  2:{ exists true. destruct (C2 HC) as [-> ->].
      rewrite (proj2 (Rltb_true 0 C)) by lra. split; reflexivity. }
  destruct (C3 HC) as [-> ->].
  rewrite (proj2 (Rltb_false 0 C)) by lra. rewrite (proj2 (Rltb_false C 0)) by lra.
  destruct (Rtotal_order B 0) as [HB|[HB|HB]].
  { exists false. rewrite (B1 HB).
    rewrite (proj2 (Rltb_false 0 B)) by lra. rewrite (proj2 (Rltb_true B 0)) by lra.
    split; [reflexivity|]. cbn. rewrite !Hflip. reflexivity. }
  2:{ exists true. destruct (B2 HB) as [-> ->].
      rewrite (proj2 (Rltb_true 0 B)) by lra. split; reflexivity. }
  destruct (B3 HB) as [-> ->].
  rewrite (proj2 (Rltb_false 0 B)) by lra. rewrite (proj2 (Rltb_false B 0)) by lra.
  destruct (Rtotal_order A 0) as [HA|[HA|HA]].
  { exists false. rewrite (A1 HA).
    rewrite (proj2 (Rltb_false 0 A)) by lra. rewrite (proj2 (Rltb_true A 0)) by lra.
    split; [reflexivity|]. cbn. rewrite !Hflip. reflexivity. }
  2:{ exists true. destruct (A2 HA) as [-> ->].
      rewrite (proj2 (Rltb_true 0 A)) by lra. split; reflexivity. }
  exfalso. subst A B C. cbn in Hm2. lra.
Qed.

(* a positive rescaling of the MCNP equation does not change the statement *)
Lemma locus_sense_scale out (f f' : pointR -> R) k :
  0 < k -> (forall p, f p = k * f' p) -> locus_sense out f -> locus_sense out f'.
Proof.
  intros Hk Hf (ty & prm & g & k0 & Hout & Hg & Hk0 & Hgf).
  exists ty, prm, g, (k0 * k). repeat split; try assumption; [nra|].
  intros p. rewrite Hgf, Hf. ring.
Qed.

(* normalize_surface turns the nine entries into the four of orient_plane *)
Lemma p9_as_p4 x1 y1 z1 x2 y2 z2 x3 y3 z3 a b c d :
  plane_params_from_points RS (x1, y1, z1) (x2, y2, z2) (x3, y3, z3) = Ok [a; b; c; d] ->
  convert_card RS M_P [x1; y1; z1; x2; y2; z2; x3; y3; z3] = convert_card RS M_P [a; b; c; d].
Proof.
  intros H. unfold convert_card, to_surface_mcnp, normalize_surface. rewrite H. reflexivity.
Qed.

(* the code's normal (p1-p2) x (p1-p3) is the manual's (p2-p1) x (p3-p1) *)
Lemma model_normal p1 p2 p3 :
  vect RS (vdiff RS p1 p2) (vdiff RS p1 p3) = p3_normal RS p1 p2 p3.
Proof.
  destruct p1 as [[x1 y1] z1], p2 as [[x2 y2] z2], p3 as [[x3 y3] z3].
  unfold p3_normal. cbn. f_equal; [f_equal|]; ring.
Qed.

Lemma p3_locus_sense x1 y1 z1 x2 y2 z2 x3 y3 z3 :
  let p1 := (x1, y1, z1) in let p2 := (x2, y2, z2) in let p3 := (x3, y3, z3) in
  p3_guard (p3_normal RS p1 p2 p3) p1 ->
  exists A B C D, p3_plane RS p1 p2 p3 = Some (A, B, C, D) /\
    locus_sense (convert_card RS M_P [x1; y1; z1; x2; y2; z2; x3; y3; z3]) (fM_p RS A B C D).
Proof.
  intros p1 p2 p3 Hg.
  pose proof (orient_plane_ok (p3_normal RS p1 p2 p3) p1 Hg) as Hop.
  pose proof Hg as (Hlen & _).
  unfold p3_plane. destruct (p3_normal RS p1 p2 p3) as [[A B] C] eqn:En.
  destruct Hop as (keep & Hkeep & Hop). rewrite Hkeep.
  assert (Hm2 : 0 < mag2 RS (A, B, C)) by (pose proof e10_pos; lra).
  assert (Hm : 0 < mag RS (A, B, C)) by (apply sqrt_lt_R0; exact Hm2).
  assert (Hn : (A, B, C) <> (0, 0, 0)).
  { intros E. injection E as -> -> ->. cbn in Hm2. lra. }
  set (m := mag RS (A, B, C)) in *. set (D := scal RS (A, B, C) p1) in *.
  assert (Hk : 0 < 1 / m) by (apply Rdiv_lt_0_compat; lra).
  assert (Hmodel : plane_params_from_points RS p1 p2 p3 =
                   Ok (scale4 (1 / m) (if keep then (A, B, C, D) else (- A, - B, - C, - D)))).
  { unfold plane_params_from_points. rewrite model_normal, En. exact Hop. }
  clearbody m D.
  assert (Hz : forall v, 1 / m * v = 0 -> v = 0).
  { intros v Hv. apply (Rmult_eq_compat_l m) in Hv. rewrite Rmult_0_r in Hv.
    replace (m * (1 / m * v)) with v in Hv by (field; lra). exact Hv. }
  destruct keep; cbn [scale4] in Hmodel.
  - exists A, B, C, D. split; [reflexivity|].
    unfold p1, p2, p3 in Hmodel. rewrite (p9_as_p4 _ _ _ _ _ _ _ _ _ _ _ _ _ Hmodel).
    apply (locus_sense_scale _ (fM_p RS (1 / m * A) (1 / m * B) (1 / m * C) (1 / m * D)) _ (1 / m) Hk).
    + intros [[x y] z]. cbn. ring.
    + apply p_locus_sense. intros E. injection E as E1 E2 E3. apply Hn.
      rewrite (Hz A E1), (Hz B E2), (Hz C E3). reflexivity.
  - exists (- A), (- B), (- C), (- D). split; [reflexivity|].
    unfold p1, p2, p3 in Hmodel. rewrite (p9_as_p4 _ _ _ _ _ _ _ _ _ _ _ _ _ Hmodel).
    apply (locus_sense_scale _ (fM_p RS (1 / m * - A) (1 / m * - B) (1 / m * - C) (1 / m * - D)) _ (1 / m) Hk).
    + intros [[x y] z]. cbn. ring.
    + apply p_locus_sense. intros E. injection E as E1 E2 E3. apply Hn.
      apply Hz in E1, E2, E3. f_equal; [f_equal|]; lra.
Qed.

(* Spec sanity: the plane chosen by the manual's rules passes through the
   three points *)
Lemma p3_plane_through_points p1 p2 p3 A B C D :
  p3_plane RS p1 p2 p3 = Some (A, B, C, D) ->
  fM_p RS A B C D p1 = 0 /\ fM_p RS A B C D p2 = 0 /\ fM_p RS A B C D p3 = 0.
Proof.
  destruct p1 as [[x1 y1] z1], p2 as [[x2 y2] z2], p3 as [[x3 y3] z3].
  unfold p3_plane. cbn [p3_normal vect vdiff]. cbn -[p3_keep].
  match goal with |- context [p3_keep RS ?n ?d] => destruct (p3_keep RS n d) as [[|]|] end;
    intros E; inversion E; subst; cbn; repeat split; ring.
Qed.

(* ... and is oriented as the manual says: origin negative, else (0,0,inf)
   positive, else (0,inf,0), else (inf,0,0) *)
Lemma p3_plane_orientation p1 p2 p3 A B C D :
  p3_plane RS p1 p2 p3 = Some (A, B, C, D) ->
  0 < D \/ (D = 0 /\ (0 < C \/ (C = 0 /\ (0 < B \/ (B = 0 /\ 0 < A))))).
Proof.
  unfold p3_plane. destruct (p3_normal RS p1 p2 p3) as [[a b] c].
  set (d := scal RS (a, b, c) p1). clearbody d. unfold p3_keep.
  change (sltb RS) with Rltb. change (s0 RS) with 0.
  rb; intros Hsome; inversion Hsome; subst; cbn; lra.
Qed.

(* non-vacuity of the guard of p3_locus_sense *)
Lemma p3_guard_example : p3_guard (p3_normal RS (0, 0, 1) (1, 0, 1) (0, 1, 1)) (0, 0, 1).
Proof.
  assert (En : p3_normal RS (0, 0, 1) (1, 0, 1) (0, 1, 1) = (0, 0, 1)).
  { unfold p3_normal. cbn. f_equal; [f_equal|]; ring. }
  rewrite En. unfold p3_guard, band_free, mag, mag2. cbn.
  replace (0 * 0 + 0 * 0 + 1 * 1) with 1 by ring. rewrite sqrt_1.
  pose proof e14_pos. pose proof e10_pos.
  assert (e10 < 1) by (unfold e10, eps10, spow10neg; cbn; lra).
  assert (e14 < 1) by (unfold e14, eps14, spow10neg; cbn; lra).
  rewrite Rabs_R1.
  repeat split; try lra; try (left; reflexivity); right; lra.
Qed.

(* without the band guard: whenever planeParamsFromPoints answers, it answers
   +-1/|n| times (n, n.p1) -- the locus is always the plane through the points,
   only the orientation depends on the thresholds *)
Lemma orient_plane_locus n p1 l :
  orient_plane RS n p1 = Ok l ->
  0 < mag2 RS n /\
  exists k, (k = 1 / mag RS n \/ k = - (1 / mag RS n)) /\
    l = scale4 k (vx n, vy n, vz n, scal RS n p1).
Proof.
  destruct n as [[A B] C], p1 as [[x1 y1] z1].
  unfold orient_plane.
  destruct (sleb RS (mag2 RS (A, B, C)) (eps10 RS)) eqn:El; [discriminate|].
  apply Rleb_false in El. pose proof e10_pos as H10. unfold e10 in H10.
  set (m := mag RS (A, B, C)).
  assert (Hpos : scal RS (renorm RS (A, B, C)) (x1, y1, z1) = 1 / m * scal RS (A, B, C) (x1, y1, z1)).
  { unfold renorm. fold m. cbn. ring. }
  assert (Hux : vx (renorm RS (A, B, C)) = 1 / m * A) by reflexivity.
  assert (Huy : vy (renorm RS (A, B, C)) = 1 / m * B) by reflexivity.
  assert (Huz : vz (renorm RS (A, B, C)) = 1 / m * C) by reflexivity.
  cbv zeta. rewrite Hpos, Hux, Huy, Huz. cbn [vx vy vz fst snd].
  set (D := scal RS (A, B, C) (x1, y1, z1)). clearbody m D.
  change (sneg RS) with Ropp.
  intros H. split; [lra|].
  repeat match type of H with
  | (if ?c then _ else _) = _ => destruct c
  end; inversion H; subst;
  [ exists (- (1 / m)) | exists (1 / m) | exists (- (1 / m)) | exists (1 / m)
  | exists (- (1 / m)) | exists (1 / m) | exists (- (1 / m)) | exists (1 / m) ];
  (split; [tauto|]); cbn; repeat f_equal; ring.
Qed.

Lemma p3_locus_any x1 y1 z1 x2 y2 z2 x3 y3 z3 c :
  let p1 := (x1, y1, z1) in let p2 := (x2, y2, z2) in let p3 := (x3, y3, z3) in
  let n := p3_normal RS p1 p2 p3 in
  convert_card RS M_P [x1; y1; z1; x2; y2; z2; x3; y3; z3] = Ok c ->
  exists ty prm g k, c = [((ty, prm), 1%Z)] /\ f_T4 RS ty prm = Some g /\ k <> 0 /\
    forall q, g q = k * fM_p RS (vx n) (vy n) (vz n) (scal RS n p1) q.
Proof.
  intros p1 p2 p3 n Hc.
  destruct (plane_params_from_points RS p1 p2 p3) as [l|e] eqn:Ep.
  2:{ unfold convert_card, to_surface_mcnp, normalize_surface in Hc.
      unfold p1, p2, p3 in Ep. rewrite Ep in Hc. discriminate. }
  unfold plane_params_from_points in Ep. rewrite model_normal in Ep. fold n in Ep.
  destruct (orient_plane_locus n p1 l Ep) as (Hm2 & k & Hk & Hl).
  destruct n as [[A B] C] eqn:En. cbn [vx vy vz fst snd] in *.
  set (D := scal RS (A, B, C) p1) in *.
  assert (Hm : 0 < mag RS (A, B, C)) by (apply sqrt_lt_R0; exact Hm2).
  assert (Hk0 : k <> 0).
  { assert (0 < 1 / mag RS (A, B, C)) by (apply Rdiv_lt_0_compat; lra).
    destruct Hk as [-> | ->]; lra. }
  assert (Hn : (A, B, C) <> (0, 0, 0)).
  { intros E. injection E as -> -> ->. cbn in Hm2. lra. }
  cbn [scale4] in Hl. subst l.
  assert (Ep' : plane_params_from_points RS (x1, y1, z1) (x2, y2, z2) (x3, y3, z3) =
                Ok [k * A; k * B; k * C; k * D]).
  { unfold plane_params_from_points. rewrite model_normal. fold p1 p2 p3. fold n. rewrite En. exact Ep. }
  rewrite (p9_as_p4 _ _ _ _ _ _ _ _ _ _ _ _ _ Ep') in Hc.
  assert (Hkn : (k * A, k * B, k * C) <> (0, 0, 0)).
  { intros E. injection E as E1 E2 E3. apply Hn.
    f_equal; [f_equal|]; nra. }
  destruct (p_locus_sense (k * A) (k * B) (k * C) (k * D) Hkn) as (ty & prm & g & k' & Hout & Hg & Hk' & Hq).
  rewrite Hc in Hout. injection Hout as ->.
  exists ty, prm, g, (k' * k). split; [reflexivity|]. split; [exact Hg|]. split; [nra|].
  intros [[qx qy] qz]. rewrite Hq. cbn. ring.
Qed.

