(* C02 — executable comparison functions used by the generated correspondence
   files: the model at binary64 against values observed on the implementation
   (floats with the scaled 1e-9 tolerance, everything else exactly). *)
From Coq Require Import List NArith ZArith Bool PrimFloat.
From T4V Require Import Base.Scalar Base.Cases C02.Vec C02.Spec C02.Model.
Import ListNotations.

Definition err_eqb (a b : err) : bool :=
  match a, b with
  | EIndex, EIndex | EValue, EValue | EType, EType | EZeroDiv, EZeroDiv
  | EKey, EKey | ENotImpl, ENotImpl | EConv, EConv | EAttr, EAttr | EUnmodelled, EUnmodelled => true
  | _, _ => false
  end.

Definition res_eqb {A} (e : A -> A -> bool) (a b : res A) : bool :=
  match a, b with
  | Ok x, Ok y => e x y
  | Err x, Err y => err_eqb x y
  | _, _ => false
  end.

Definition t4type_eqb (a b : t4type) : bool :=
  match a, b with
  | PLANEX, PLANEX | PLANEY, PLANEY | PLANEZ, PLANEZ | PLANE, PLANE | SPHERE, SPHERE
  | CYLX, CYLX | CYLY, CYLY | CYLZ, CYLZ | CYL, CYL | CONEX, CONEX | CONEY, CONEY
  | CONEZ, CONEZ | CONE, CONE | QUAD, QUAD | TORUSX, TORUSX | TORUSY, TORUSY
  | TORUSZ, TORUSZ => true
  | _, _ => false
  end.

Definition kind_eqb (a b : kind) : bool :=
  match a, b with
  | KdS, KdS | KdP, KdP | KdC, KdC | KdK, KdK | KdT, KdT | KdSQ, KdSQ | KdGQ, KdGQ => true
  | _, _ => false
  end.

Definition floats_eqb : list float -> list float -> bool := list_eqb f_close9.

Definition vec_eqb (a b : vec (T:=float)) : bool :=
  let '(a1, a2, a3) := a in let '(b1, b2, b3) := b in
  f_close9 a1 b1 && f_close9 a2 b2 && f_close9 a3 b3.

Definition t4surf_eqb (a b : t4surf (T:=float)) : bool :=
  t4type_eqb (fst a) (fst b) && floats_eqb (snd a) (snd b).

Definition coll_eqb : coll (T:=float) -> coll (T:=float) -> bool :=
  list_eqb (pair_eqb t4surf_eqb Z.eqb).

(* (a) a whole card: to_surface_mcnp + convert_mcnp_surface *)
Definition card_case : Type := (mnem * list float * res (coll (T:=float)))%type.
Definition check_card (c : card_case) : bool :=
  let '(mn, prm, expected) := c in res_eqb coll_eqb (convert_card FS mn prm) expected.

(* (b) the SurfaceMCNP built by to_surface_mcnp: type, frame, compl_param *)
Definition cad_out : Type :=
  (kind * option (vec (T:=float) * vec (T:=float)) * list (option float))%type.
Definition cad_eqb (a : cad (T:=float)) (b : cad_out) : bool :=
  let '(k, fr, srf) := b in
  kind_eqb (c_kind a) k
  && option_eqb (pair_eqb vec_eqb vec_eqb) (c_frame a) fr
  && list_eqb (option_eqb f_close9) (c_srf a) srf.
Definition mcnp_case : Type := (mnem * list float * res cad_out)%type.
Definition check_mcnp (c : mcnp_case) : bool :=
  let '(mn, prm, expected) := c in
  match to_surface_mcnp FS mn prm, expected with
  | Ok a, Ok b => cad_eqb a b
  | Err x, Err y => err_eqb x y
  | _, _ => false
  end.

(* (c) planeParamsFromPoints called directly; also the branch taken: the model
   must return the flipped / unflipped list exactly as the code did, which the
   value comparison decides (the two differ by a global sign) *)
Definition p3_case : Type := (list float * res (list float))%type.
Definition check_p3 (c : p3_case) : bool :=
  let '(prm, expected) := c in
  match prm with
  | [x1; y1; z1; x2; y2; z2; x3; y3; z3] =>
      res_eqb floats_eqb
              (plane_params_from_points FS (x1, y1, z1) (x2, y2, z2) (x3, y3, z3)) expected
  | _ => false
  end.

(* (d) number_items on a dictionary of labelled collections *)
Definition num_out : Type := (list (Z * N) * list (Z * list Z))%type.
Definition num_case : Type := (list (Z * list (N * Z)) * res num_out)%type.
Definition check_number (c : num_case) : bool :=
  res_eqb (pair_eqb (list_eqb (pair_eqb Z.eqb N.eqb))
                    (list_eqb (pair_eqb Z.eqb (list_eqb Z.eqb))))
          (number_items (fst c)) (snd c).

(* (e) SurfaceCollection.join *)
Definition join_case : Type := (list (list (N * Z) * Z) * res (list (N * Z)))%type.
Definition check_join (c : join_case) : bool :=
  res_eqb (list_eqb (pair_eqb N.eqb Z.eqb)) (join (fst c)) (snd c).

(* (f) the Spec of this development against the harness's Python references
   (mcnpref.surface_value, t4eval.surf_value) at sample points: same sign, and
   same value where the two are written with the same scale *)
Definition same_sign (a b : float) : bool :=
  ((0 <? a) && (0 <? b)) || ((a <? 0) && (b <? 0))
  || ((abs a <? 0x1p-20) && (abs b <? 0x1p-20)).

Definition spec_case : Type := (list float * float * bool)%type.  (* point, value, exact scale *)

Definition check_point (f : point (T:=float) -> float) (c : spec_case) : bool :=
  let '(pt, v, exact) := c in
  match pt with
  | [x; y; z] =>
      let w := f (x, y, z) in
      if exact then f_close 0x1p-26 w v || same_sign w v && (abs v <? 0x1p-20) else same_sign w v
  | _ => false
  end.

Definition fM_case : Type := (mnem * list float * list spec_case)%type.
Definition check_fM (c : fM_case) : bool :=
  let '(mn, prm, pts) := c in
  match mcnp_surface FS mn prm with
  | Some ms => forallb (check_point (sense_value FS ms)) pts
  | None => false
  end.

Definition fT4_case : Type := (t4type * list float * list spec_case)%type.
Definition check_fT4 (c : fT4_case) : bool :=
  let '(ty, prm, pts) := c in
  match f_T4 FS ty prm with
  | Some f => forallb (check_point f) pts
  | None => false
  end.

(* (g) eval_quadric called directly (since the repair of sq_to_gq no converted
   card reaches it) *)
Definition evalq_case : Type := (list float * list float * float)%type.
Definition check_evalq (c : evalq_case) : bool :=
  let '(q, pt, expected) := c in
  match pt with
  | [x; y; z] =>
      match eval_quadric FS q (x, y, z) with
      | Ok v => f_close9 v expected
      | Err _ => false
      end
  | _ => false
  end.

(* ---------- the text path (C02/Text.v) ---------- *)
From Coq Require Import String.
From T4V Require Import C02.Text.

(* (h) surfacecard.split: the four groups or None *)
Definition split_case : Type := (string * option (string * string * string * string))%type.
Definition check_split (c : split_case) : bool :=
  option_eqb (fun a b => let '(a1, a2, a3, a4) := a in let '(b1, b2, b3, b4) := b in
                         String.eqb a1 b1 && String.eqb a2 b2 && String.eqb a3 b3 && String.eqb a4 b4)
             (split_surface (fst c)) (snd c).

(* (i) to_float on one token: the value (to 2^-49 relative: the model computes
   mantissa and power of ten separately) or ValueError *)
Definition tofloat_case : Type := (string * option float)%type.
Definition check_tofloat (c : tofloat_case) : bool :=
  match to_float FS (fst c), snd c with
  | Ok v, Some w => f_close 0x1p-49 v w
  | Err EValue, None => true
  | _, _ => false
  end.

(* (j) get_surfaces on one card *)
Definition parse_out : Type := (string * N * string * string * list float)%type.
Definition parse_case : Type := (string * res parse_out)%type.
Definition check_parse (c : parse_case) : bool :=
  res_eqb (fun a b => let '(a1, a2, a3, a4, a5) := a in let '(b1, b2, b3, b4, b5) := b in
                      String.eqb a1 b1 && N.eqb a2 b2 && String.eqb a3 b3 && String.eqb a4 b4
                      && floats_eqb a5 b5)
          (parse_surface_card FS (fst c)) (snd c).

(* (k) the card text through get_surfaces, to_surfaces_mcnp, convert_mcnp_surface *)
Definition textcard_case : Type := (string * res (coll (T:=float)))%type.
Definition check_textcard (c : textcard_case) : bool :=
  res_eqb coll_eqb (convert_text FS (fst c)) (snd c).

(* (l) Card.content() *)
Definition content_case : Type := (list string * string)%type.
Definition check_content (c : content_case) : bool := String.eqb (content (fst c)) (snd c).

(* ---------- the linked pipeline (C02/LinkC04.v) ---------- *)
From T4V Require C04.Model.
From T4V Require Import C02.LinkC04.

Definition kind_of4 (k : T4V.C04.Model.t4kind) : t4type :=
  match k with
  | T4V.C04.Model.PLANEX => PLANEX | T4V.C04.Model.PLANEY => PLANEY | T4V.C04.Model.PLANEZ => PLANEZ
  | T4V.C04.Model.PLANE => PLANE | T4V.C04.Model.SPHERE => SPHERE
  | T4V.C04.Model.CYLX => CYLX | T4V.C04.Model.CYLY => CYLY | T4V.C04.Model.CYLZ => CYLZ
  | T4V.C04.Model.CYL => CYL
  | T4V.C04.Model.CONEX => CONEX | T4V.C04.Model.CONEY => CONEY | T4V.C04.Model.CONEZ => CONEZ
  | T4V.C04.Model.CONE => CONE | T4V.C04.Model.QUAD => QUAD
  | T4V.C04.Model.TORUSX => TORUSX | T4V.C04.Model.TORUSY => TORUSY | T4V.C04.Model.TORUSZ => TORUSZ
  end.

(* (m) a card with a TR number: C02's to_surface_mcnp, the bridge to_ms, C04's
   transformation and convert, against to_surface_mcnp(transform_id) +
   convert_mcnp_surface; None = the implementation raised *)
Definition trcard_case : Type :=
  (list float * mnem * list float * option (list (t4type * list float * Z)))%type.
Fixpoint all2 {A B} (e : A -> B -> bool) (a : list A) (b : list B) : bool :=
  match a, b with
  | [], [] => true
  | x :: a', y :: b' => e x y && all2 e a' b'
  | _, _ => false
  end.

Definition trsurf_eqb (a : T4V.C04.Model.t4surf float * Z) (b : t4type * list float * Z) : bool :=
  let '(ty, ps, side) := b in
  t4type_eqb (kind_of4 (T4V.C04.Model.tk (fst a))) ty
  && floats_eqb (T4V.C04.Model.tprm (fst a)) ps
  && Z.eqb (snd a) side
  && match T4V.C04.Model.ttr (fst a) with None => true | Some _ => false end.

Definition check_trcard (c : trcard_case) : bool :=
  let '(tr, mn, prm, expected) := c in
  match card_tr_convert_g FS tr mn prm, expected with
  | T4V.C04.Model.Ok l, Some l' => all2 trsurf_eqb l l'
  | T4V.C04.Model.Err _, None => true
  | _, _ => false
  end.

(* ---------- macrobody card texts (C02/LinkC03.v) ---------- *)
From T4V Require C03.Convert C03.Vec.
From T4V Require Import C02.LinkC03.

Definition kind_of3 (k : T4V.C03.Convert.t4type) : t4type :=
  match k with
  | T4V.C03.Convert.PLANEX => PLANEX | T4V.C03.Convert.PLANEY => PLANEY | T4V.C03.Convert.PLANEZ => PLANEZ
  | T4V.C03.Convert.PLANE => PLANE | T4V.C03.Convert.SPHERE => SPHERE
  | T4V.C03.Convert.CYLX => CYLX | T4V.C03.Convert.CYLY => CYLY | T4V.C03.Convert.CYLZ => CYLZ
  | T4V.C03.Convert.CYL => CYL
  | T4V.C03.Convert.CONEX => CONEX | T4V.C03.Convert.CONEY => CONEY | T4V.C03.Convert.CONEZ => CONEZ
  | T4V.C03.Convert.CONE => CONE | T4V.C03.Convert.QUAD => QUAD
  end.

(* (n) a macrobody card text without TR: C02's scanner + C03's body_t4 against
   get_surfaces + to_surfaces_mcnp + convert_mcnp_surface; None = raised *)
Definition bodytext_case : Type := (string * option (list (t4type * list float * Z)))%type.
Definition check_bodytext (c : bodytext_case) : bool :=
  match convert_text_body_g FS (fst c), snd c with
  | T4V.C03.Vec.Ok l, Some l' =>
      all2 (fun (a : T4V.C03.Convert.t4type * list float * Z) (b : t4type * list float * Z) =>
              let '(ka, pa, sa) := a in let '(kb, pb, sb) := b in
              t4type_eqb (kind_of3 ka) kb && floats_eqb pa pb && Z.eqb sa sb) l l'
  | T4V.C03.Vec.Err _, None => true
  | _, _ => false
  end.

(* (o) a macrobody card text WITH a TR number (the TR card's twelve numbers are
   given under the number 5) *)
Definition bodytexttr_case : Type :=
  (list float * string * option (list (t4type * list float * Z)))%type.
Definition check_bodytexttr (c : bodytexttr_case) : bool :=
  let '(tr, txt, expected) := c in
  match convert_text_body_tr_g FS [(5%Z, tr)] txt, expected with
  | T4V.C03.Vec.Ok l, Some l' =>
      all2 (fun (a : T4V.C03.Convert.t4type * list float * Z) (b : t4type * list float * Z) =>
              let '(ka, pa, sa) := a in let '(kb, pb, sb) := b in
              t4type_eqb (kind_of3 ka) kb && floats_eqb pa pb && Z.eqb sa sb) l l'
  | T4V.C03.Vec.Err _, None => true
  | _, _ => false
  end.
