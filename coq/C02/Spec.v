(* C02 — what the cards MEAN (DESIGN Appendix A: MCNP manual table 3.1 and the
   point-defined surfaces; Appendix B: TRIPOLI-4 SURF types), written without
   looking at the converter.  Everything is over an abstract scalar so that
   the same definitions are used in theorems (RS) and can be executed (FS).

   MCNP: a point has negative sense w.r.t. a surface iff f_M < 0; for a cone
   card with a sheet selector (and for the cone form of X/Y/Z) the surface is
   ONE sheet: negative sense = inside the double cone AND on the kept sheet.
   TRIPOLI-4: PLUS selects f_T4 > 0, MINUS selects f_T4 < 0. *)
From Coq Require Import List ZArith Bool.
From T4V Require Import Base.Scalar C02.Vec.
Import ListNotations.

(* MCNP mnemonics of elementary surfaces (ESurfaceTypeMCNP without the
   macrobodies); M_C, M_K, M_T are not MCNP cards but are accepted names *)
Inductive mnem :=
  | M_PX | M_PY | M_PZ | M_P | M_SO | M_S | M_SX | M_SY | M_SZ
  | M_C_X | M_C_Y | M_C_Z | M_CX | M_CY | M_CZ | M_C
  | M_K_X | M_K_Y | M_K_Z | M_KX | M_KY | M_KZ | M_K
  | M_SQ | M_GQ | M_T | M_TX | M_TY | M_TZ | M_X | M_Y | M_Z.

(* TRIPOLI-4 surface types (ESurfaceTypeT4) *)
Inductive t4type :=
  | PLANEX | PLANEY | PLANEZ | PLANE | SPHERE | CYLX | CYLY | CYLZ | CYL
  | CONEX | CONEY | CONEZ | CONE | QUAD | TORUSX | TORUSY | TORUSZ.

Section Spec.
Context {T : Type} (S : Scalar T).

Notation "a + b" := (sadd S a b).
Notation "a - b" := (ssub S a b).
Notation "a * b" := (smul S a b).
Notation "a / b" := (sdiv S a b).
Notation sq := (ssq S).

Definition point : Type := (T * T * T)%type.

(* ---------------- MCNP equations (Appendix A) ---------------- *)

(* P A B C D : Ax + By + Cz - D *)
Definition fM_p (A B C D : T) (p : point) : T :=
  let '(x, y, z) := p in A * x + B * y + C * z - D.
Definition fM_px (D : T) (p : point) : T := let '(x, y, z) := p in x - D.
Definition fM_py (D : T) (p : point) : T := let '(x, y, z) := p in y - D.
Definition fM_pz (D : T) (p : point) : T := let '(x, y, z) := p in z - D.

(* S x0 y0 z0 R : |p - c|^2 - R^2 *)
Definition fM_s (x0 y0 z0 R : T) (p : point) : T :=
  let '(x, y, z) := p in sq (x - x0) + sq (y - y0) + sq (z - z0) - sq R.
Definition fM_so (R : T) : point -> T := fM_s (s0 S) (s0 S) (s0 S) R.
Definition fM_sx (x0 R : T) : point -> T := fM_s x0 (s0 S) (s0 S) R.
Definition fM_sy (y0 R : T) : point -> T := fM_s (s0 S) y0 (s0 S) R.
Definition fM_sz (z0 R : T) : point -> T := fM_s (s0 S) (s0 S) z0 R.

(* C/X y0 z0 R : (y-y0)^2 + (z-z0)^2 - R^2, and so on *)
Definition fM_c_x (y0 z0 R : T) (p : point) : T :=
  let '(x, y, z) := p in sq (y - y0) + sq (z - z0) - sq R.
Definition fM_c_y (x0 z0 R : T) (p : point) : T :=
  let '(x, y, z) := p in sq (x - x0) + sq (z - z0) - sq R.
Definition fM_c_z (x0 y0 R : T) (p : point) : T :=
  let '(x, y, z) := p in sq (x - x0) + sq (y - y0) - sq R.
Definition fM_cx (R : T) : point -> T := fM_c_x (s0 S) (s0 S) R.
Definition fM_cy (R : T) : point -> T := fM_c_y (s0 S) (s0 S) R.
Definition fM_cz (R : T) : point -> T := fM_c_z (s0 S) (s0 S) R.

(* K/X x0 y0 z0 t2 : (y-y0)^2 + (z-z0)^2 - t2 (x-x0)^2, and so on.  With the
   fifth entry +1 only the sheet x > x0 is kept, with -1 the sheet x < x0:
   axial_* is the signed distance along the axis from the apex. *)
Definition fM_k_x (x0 y0 z0 t2 : T) (p : point) : T :=
  let '(x, y, z) := p in sq (y - y0) + sq (z - z0) - t2 * sq (x - x0).
Definition fM_k_y (x0 y0 z0 t2 : T) (p : point) : T :=
  let '(x, y, z) := p in sq (x - x0) + sq (z - z0) - t2 * sq (y - y0).
Definition fM_k_z (x0 y0 z0 t2 : T) (p : point) : T :=
  let '(x, y, z) := p in sq (x - x0) + sq (y - y0) - t2 * sq (z - z0).
Definition fM_kx (x0 t2 : T) : point -> T := fM_k_x x0 (s0 S) (s0 S) t2.
Definition fM_ky (y0 t2 : T) : point -> T := fM_k_y (s0 S) y0 (s0 S) t2.
Definition fM_kz (z0 t2 : T) : point -> T := fM_k_z (s0 S) (s0 S) z0 t2.
Definition axial_x (x0 : T) (p : point) : T := let '(x, y, z) := p in x - x0.
Definition axial_y (y0 : T) (p : point) : T := let '(x, y, z) := p in y - y0.
Definition axial_z (z0 : T) (p : point) : T := let '(x, y, z) := p in z - z0.

(* SQ A B C D E F G x0 y0 z0 *)
Definition fM_sq (A B C D E F G x0 y0 z0 : T) (p : point) : T :=
  let '(x, y, z) := p in
  A * sq (x - x0) + B * sq (y - y0) + C * sq (z - z0)
  + s2 S * D * (x - x0) + s2 S * E * (y - y0) + s2 S * F * (z - z0) + G.

(* GQ A B C D E F G H J K *)
Definition fM_gq (A B C D E F G H J K : T) (p : point) : T :=
  let '(x, y, z) := p in
  A * sq x + B * sq y + C * sq z + D * x * y + E * y * z + F * z * x
  + G * x + H * y + J * z + K.

(* TX x0 y0 z0 A B C : (x-x0)^2/B^2 + (sqrt((y-y0)^2+(z-z0)^2) - A)^2/C^2 - 1 *)
Definition torus_f (axial rho2 A B C : T) : T :=
  sq axial / sq B + sq (ssqrt S rho2 - A) / sq C - s1 S.
Definition fM_tx (x0 y0 z0 A B C : T) (p : point) : T :=
  let '(x, y, z) := p in torus_f (x - x0) (sq (y - y0) + sq (z - z0)) A B C.
Definition fM_ty (x0 y0 z0 A B C : T) (p : point) : T :=
  let '(x, y, z) := p in torus_f (y - y0) (sq (x - x0) + sq (z - z0)) A B C.
Definition fM_tz (x0 y0 z0 A B C : T) (p : point) : T :=
  let '(x, y, z) := p in torus_f (z - z0) (sq (x - x0) + sq (y - y0)) A B C.

(* X x1 r1 x2 r2 with x1 <> x2 and r1 <> r2: the cone through the two circles.
   Slope t = (r2-r1)/(x2-x1), apex a = x1 - r1/t on the axis. *)
Definition xyz_slope (x1 r1 x2 r2 : T) : T := (r2 - r1) / (x2 - x1).
Definition xyz_apex (x1 r1 x2 r2 : T) : T := x1 - r1 / xyz_slope x1 r1 x2 r2.
Definition xyz_t2 (x1 r1 x2 r2 : T) : T := sq (xyz_slope x1 r1 x2 r2).

(* P with nine entries: the plane through the three points,
   n = (p2-p1) x (p3-p1), D = n.p1, oriented by the manual's four rules:
   origin negative (D > 0); if D = 0 then (0,0,inf) positive (C > 0); if also
   C = 0 then (0,inf,0) positive (B > 0); if also B = 0 then A > 0. *)
Definition p3_normal (p1 p2 p3 : vec) : vec := vect S (vdiff S p2 p1) (vdiff S p3 p1).

Definition p3_keep (n : vec) (D : T) : option bool :=
  let '(A, B, C) := n in
  let z := s0 S in
  if sltb S z D then Some true else if sltb S D z then Some false
  else if sltb S z C then Some true else if sltb S C z then Some false
  else if sltb S z B then Some true else if sltb S B z then Some false
  else if sltb S z A then Some true else if sltb S A z then Some false
  else None.

Definition p3_plane (p1 p2 p3 : vec) : option (T * T * T * T) :=
  let n := p3_normal p1 p2 p3 in
  let D := scal S n p1 in
  let '(A, B, C) := n in
  match p3_keep n D with
  | Some true => Some (A, B, C, D)
  | Some false => Some (sneg S A, sneg S B, sneg S C, sneg S D)
  | None => None
  end.

(* ---------------- one reading for every card ---------------- *)
(* An MCNP surface as a sense function plus, for one-sheet cones, a function
   that is positive on the kept sheet's side of the apex:
     negative sense  <->  m_f < 0  /\  (sheet: 0 < g)
     positive sense  <->  m_f > 0  \/  (sheet: g < 0). *)
Record msurf := mkMsurf { m_f : point -> T; m_sheet : option (point -> T) }.

Definition two_sided (f : point -> T) : option msurf := Some (mkMsurf f None).

(* K card with optional last entry: +1 keeps axial > 0, -1 keeps axial < 0;
   absent (or 0) keeps both sheets *)
Definition k_card (f : point -> T) (axial : point -> T) (sel : option T) : option msurf :=
  match sel with
  | None => two_sided f
  | Some s =>
      if seqb S s (s0 S) then two_sided f
      else if seqb S s (s1 S) then Some (mkMsurf f (Some axial))
      else if seqb S s (sneg S (s1 S)) then Some (mkMsurf f (Some (fun p => sneg S (axial p))))
      else None
  end.

(* X / Y / Z cards; [axial a p] is the coordinate along the axis minus a.  The
   cone form keeps the sheet that contains the defining points: the side of
   the apex on which (x1 - apex) + (x2 - apex) lies (both terms have the same
   sign, or one is zero, for admissible cards: r1, r2 >= 0 not both zero). *)
Definition xyz_card (plane cyl : T -> point -> T) (cone : T -> T -> point -> T)
           (axial : T -> point -> T) (prm : list T) : option msurf :=
  match prm with
  | [x1; _] => two_sided (plane x1)
  | [x1; r1; x2; r2] =>
      if seqb S x1 x2 then two_sided (plane x1)
      else if seqb S r1 r2 then two_sided (cyl r1)
      else
        let a := xyz_apex x1 r1 x2 r2 in
        Some (mkMsurf (cone a (xyz_t2 x1 r1 x2 r2))
                      (Some (fun p => axial a p * ((x1 - a) + (x2 - a)))))
  | _ => None
  end.

Definition mcnp_surface (mn : mnem) (prm : list T) : option msurf :=
  match mn, prm with
  | M_P, [A; B; C; D] => two_sided (fM_p A B C D)
  | M_P, [x1; y1; z1; x2; y2; z2; x3; y3; z3] =>
      match p3_plane (x1, y1, z1) (x2, y2, z2) (x3, y3, z3) with
      | Some (A, B, C, D) => two_sided (fM_p A B C D)
      | None => None
      end
  | M_PX, [D] => two_sided (fM_px D)
  | M_PY, [D] => two_sided (fM_py D)
  | M_PZ, [D] => two_sided (fM_pz D)
  | M_SO, [R] => two_sided (fM_so R)
  | M_S, [x0; y0; z0; R] => two_sided (fM_s x0 y0 z0 R)
  | M_SX, [c; R] => two_sided (fM_sx c R)
  | M_SY, [c; R] => two_sided (fM_sy c R)
  | M_SZ, [c; R] => two_sided (fM_sz c R)
  | M_C_X, [a; b; R] => two_sided (fM_c_x a b R)
  | M_C_Y, [a; b; R] => two_sided (fM_c_y a b R)
  | M_C_Z, [a; b; R] => two_sided (fM_c_z a b R)
  | M_CX, [R] => two_sided (fM_cx R)
  | M_CY, [R] => two_sided (fM_cy R)
  | M_CZ, [R] => two_sided (fM_cz R)
  | M_K_X, [x0; y0; z0; t2] => k_card (fM_k_x x0 y0 z0 t2) (axial_x x0) None
  | M_K_X, [x0; y0; z0; t2; s] => k_card (fM_k_x x0 y0 z0 t2) (axial_x x0) (Some s)
  | M_K_Y, [x0; y0; z0; t2] => k_card (fM_k_y x0 y0 z0 t2) (axial_y y0) None
  | M_K_Y, [x0; y0; z0; t2; s] => k_card (fM_k_y x0 y0 z0 t2) (axial_y y0) (Some s)
  | M_K_Z, [x0; y0; z0; t2] => k_card (fM_k_z x0 y0 z0 t2) (axial_z z0) None
  | M_K_Z, [x0; y0; z0; t2; s] => k_card (fM_k_z x0 y0 z0 t2) (axial_z z0) (Some s)
  | M_KX, [c; t2] => k_card (fM_kx c t2) (axial_x c) None
  | M_KX, [c; t2; s] => k_card (fM_kx c t2) (axial_x c) (Some s)
  | M_KY, [c; t2] => k_card (fM_ky c t2) (axial_y c) None
  | M_KY, [c; t2; s] => k_card (fM_ky c t2) (axial_y c) (Some s)
  | M_KZ, [c; t2] => k_card (fM_kz c t2) (axial_z c) None
  | M_KZ, [c; t2; s] => k_card (fM_kz c t2) (axial_z c) (Some s)
  | M_SQ, [A; B; C; D; E; F; G; x0; y0; z0] => two_sided (fM_sq A B C D E F G x0 y0 z0)
  | M_GQ, [A; B; C; D; E; F; G; H; J; K] => two_sided (fM_gq A B C D E F G H J K)
  | M_TX, [x0; y0; z0; A; B; C] => two_sided (fM_tx x0 y0 z0 A B C)
  | M_TY, [x0; y0; z0; A; B; C] => two_sided (fM_ty x0 y0 z0 A B C)
  | M_TZ, [x0; y0; z0; A; B; C] => two_sided (fM_tz x0 y0 z0 A B C)
  | M_X, _ => xyz_card fM_px fM_cx (fun a t2 => fM_kx a t2) axial_x prm
  | M_Y, _ => xyz_card fM_py fM_cy (fun a t2 => fM_ky a t2) axial_y prm
  | M_Z, _ => xyz_card fM_pz fM_cz (fun a t2 => fM_kz a t2) axial_z prm
  | _, _ => None
  end.

(* a number whose sign is the MCNP sense (used by the executable cross-check of
   this file against the harness's Python reference) *)
Definition sense_value (ms : msurf) (p : point) : T :=
  match m_sheet ms with
  | None => m_f ms p
  | Some g => let f := m_f ms p in let h := sneg S (g p) in if sltb S f h then h else f
  end.

(* ---------------- TRIPOLI-4 equations (Appendix B) ---------------- *)

(* tangent of an angle given in degrees *)
Definition tan_deg (theta : T) : T :=
  let a := theta * spi S / sZ S 180 in ssin S a / scos S a.

Definition cross2 (q u : vec) : T := mag2 S (vect S q u).

Definition f_T4 (ty : t4type) (prm : list T) : option (point -> T) :=
  match ty, prm with
  | PLANEX, [a] => Some (fun '(x, y, z) => x - a)
  | PLANEY, [a] => Some (fun '(x, y, z) => y - a)
  | PLANEZ, [a] => Some (fun '(x, y, z) => z - a)
  | PLANE, [a; b; c; d] => Some (fun '(x, y, z) => a * x + b * y + c * z + d)
  | SPHERE, [x0; y0; z0; r] =>
      Some (fun '(x, y, z) => sq (x - x0) + sq (y - y0) + sq (z - z0) - sq r)
  | CYLX, [y0; z0; r] => Some (fun '(x, y, z) => sq (y - y0) + sq (z - z0) - sq r)
  | CYLY, [x0; z0; r] => Some (fun '(x, y, z) => sq (x - x0) + sq (z - z0) - sq r)
  | CYLZ, [x0; y0; r] => Some (fun '(x, y, z) => sq (x - x0) + sq (y - y0) - sq r)
  (* point on the axis, radius, direction (any non-zero length):
     |q x u|^2 - r^2 |u|^2 = |u|^2 (dist(q, axis)^2 - r^2) *)
  | CYL, [x0; y0; z0; r; a; b; c] =>
      Some (fun '(x, y, z) =>
              cross2 (x - x0, y - y0, z - z0) (a, b, c) - sq r * mag2 S (a, b, c))
  | CONEX, [x0; y0; z0; th] =>
      Some (fun '(x, y, z) => sq (y - y0) + sq (z - z0) - sq (tan_deg th) * sq (x - x0))
  | CONEY, [x0; y0; z0; th] =>
      Some (fun '(x, y, z) => sq (x - x0) + sq (z - z0) - sq (tan_deg th) * sq (y - y0))
  | CONEZ, [x0; y0; z0; th] =>
      Some (fun '(x, y, z) => sq (x - x0) + sq (y - y0) - sq (tan_deg th) * sq (z - z0))
  (* |q x u|^2 - tan^2 (q.u)^2 = |u|^2 (perp^2 - tan^2 axial^2) *)
  | CONE, [x0; y0; z0; th; a; b; c] =>
      Some (fun '(x, y, z) =>
              let q := (x - x0, y - y0, z - z0) in
              cross2 q (a, b, c) - sq (tan_deg th) * sq (scal S q (a, b, c)))
  | QUAD, [A; B; C; D; E; F; G; H; J; K] =>
      Some (fun '(x, y, z) =>
              A * sq x + B * sq y + C * sq z + D * x * y + E * y * z + F * z * x
              + G * x + H * y + J * z + K)
  | TORUSX, [x0; y0; z0; A; B; C] =>
      Some (fun '(x, y, z) => torus_f (x - x0) (sq (y - y0) + sq (z - z0)) A B C)
  | TORUSY, [x0; y0; z0; A; B; C] =>
      Some (fun '(x, y, z) => torus_f (y - y0) (sq (x - x0) + sq (z - z0)) A B C)
  | TORUSZ, [x0; y0; z0; A; B; C] =>
      Some (fun '(x, y, z) => torus_f (z - z0) (sq (x - x0) + sq (y - y0)) A B C)
  | _, _ => None
  end.

End Spec.
