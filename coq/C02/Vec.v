(* C02 — three-vectors over an abstract scalar: the helpers of
   t4_geom_convert/Kernel/VectUtils.py (scal, vect, rescale, vdiff, mag2, mag,
   renorm) with the same association of the floating-point operations. *)
From Coq Require Import List ZArith Bool.
From T4V Require Import Base.Scalar.
Import ListNotations.

Section Vec.
Context {T : Type} (S : Scalar T).

Definition vec : Type := (T * T * T)%type.

Definition vx (v : vec) : T := fst (fst v).
Definition vy (v : vec) : T := snd (fst v).
Definition vz (v : vec) : T := snd v.

(* x**2 *)
Definition ssq (x : T) : T := smul S x x.

(* small integer and decimal constants: 10^-n is the correctly rounded
   quotient 1/10^n, i.e. the binary64 literal 1e-n for n <= 22 *)
Definition sZ (z : Z) : T := sofZ S z.
Definition s2 : T := sofZ S 2.
Definition spow10neg (n : Z) : T := sdiv S (s1 S) (sofZ S (10 ^ n)%Z).

(* scal: a1*a2 + b1*b2 + c1*c2 *)
Definition scal (v1 v2 : vec) : T :=
  let '(a1, b1, c1) := v1 in
  let '(a2, b2, c2) := v2 in
  sadd S (sadd S (smul S a1 a2) (smul S b1 b2)) (smul S c1 c2).

(* vect: (y1*z2 - z1*y2, x2*z1 - x1*z2, x1*y2 - y1*x2) *)
Definition vect (v1 v2 : vec) : vec :=
  let '(x1, y1, z1) := v1 in
  let '(x2, y2, z2) := v2 in
  (ssub S (smul S y1 z2) (smul S z1 y2),
   ssub S (smul S x2 z1) (smul S x1 z2),
   ssub S (smul S x1 y2) (smul S y1 x2)).

Definition rescale (a : T) (v : vec) : vec :=
  let '(x1, y1, z1) := v in (smul S a x1, smul S a y1, smul S a z1).

Definition vdiff (v1 v2 : vec) : vec :=
  let '(x1, y1, z1) := v1 in
  let '(x2, y2, z2) := v2 in
  (ssub S x1 x2, ssub S y1 y2, ssub S z1 z2).

Definition mag2 (v : vec) : T := scal v v.
Definition mag (v : vec) : T := ssqrt S (mag2 v).

(* renorm(vec, norm=1.) = rescale(norm / mag(vec), vec) *)
Definition renorm (v : vec) : vec := rescale (sdiv S (s1 S) (mag v)) v.

Definition vneg (v : vec) : vec :=
  let '(x1, y1, z1) := v in (sneg S x1, sneg S y1, sneg S z1).

End Vec.
