(* C02 — the table entries 'c' and 'k' (cylinder / cone with a general axis;
   accepted names that are not MCNP cards) through convert_card, from the
   any-axis lemmas of Proofs.v. *)
From Coq Require Import List ZArith Bool Reals Lra Lia Psatz.
From T4V Require Import Base.Scalar C02.Vec C02.Spec C02.Model C02.Proofs C02.ProofsCards C02.ProofsP3.
Import ListNotations.
Open Scope R_scope.

(* ---------- the table entries 'c' and 'k' (general axis; not MCNP cards) ---------- *)
Lemma c_any_axis x y z r A B C :
  (A, B, C) <> (0, 0, 0) ->
  exists s, convert_card RS M_C [x; y; z; r; A; B; C] = Ok [(s, 1%Z)] /\
            surf_is s (cyl_about (x, y, z) (A, B, C) r).
Proof.
  intros Hu. destruct (convert_cylinder_ok (x, y, z) (A, B, C) r Hu) as (s & Hs & Hok).
  exists s. split; [|exact Hok].
  unfold convert_card, to_surface_mcnp. cbn -[convert_cylinder].
  unfold cylinder_. unfold vec in Hs.
  rewrite Hs. reflexivity.
Qed.

Lemma convert_cone_two_sheets p u ang :
  convert_cone RS (mkCad KdK (Some (p, u)) [Some 0; Some ang; None]) = Ok [(cone_surf p u ang, 1%Z)].
Proof. destruct p as [[px py] pz], u as [[ux uy] uz]. reflexivity. Qed.

Lemma cone_about_shift x y z A B C t2 q :
  cone_about (x + A * 0, y + B * 0, z + C * 0) (A, B, C) t2 q = cone_about (x, y, z) (A, B, C) t2 q.
Proof. destruct q as [[qx qy] qz]. unfold cone_about. cbn. ring. Qed.

Lemma k_any_axis x y z t A B C :
  (A, B, C) <> (0, 0, 0) ->
  exists s, convert_card RS M_K [x; y; z; t; A; B; C] = Ok [(s, 1%Z)] /\
            surf_is s (cone_about (x, y, z) (A, B, C) (t * t)).
Proof.
  intros Hu. eexists. split.
  - unfold convert_card, to_surface_mcnp. cbn -[convert_cone]. unfold cone_, shift_, offset.
    cbn -[convert_cone]. replace (t * 0) with 0 by ring.
    rewrite convert_cone_two_sheets. reflexivity.
  - destruct (cone_surf_ok (x + A * 0, y + B * 0, z + C * 0) (A, B, C) t Hu) as (g & k & Hg & Hk & Hq).
    exists g, k. split; [exact Hg|]. split; [exact Hk|]. intros q. rewrite Hq, cone_about_shift. reflexivity.
Qed.

Lemma convert_cone_selector p u a ang s :
  convert_cone RS (mkCad KdK (Some (p, u)) [Some a; Some ang; Some s]) =
  if Reqb s 0 then Ok [(cone_surf p u ang, 1%Z)]
  else do side <- minus_int RS s;
       do aux <- cone_aux_plane RS p u side; Ok [(cone_surf p u ang, 1%Z); aux].
Proof. destruct p as [[px py] pz], u as [[ux uy] uz]. reflexivity. Qed.

Lemma plane_through_shift x y z A B C q :
  plane_through (x + A * 0, y + B * 0, z + C * 0) (A, B, C) q = plane_through (x, y, z) (A, B, C) q.
Proof. destruct q as [[qx qy] qz]. unfold plane_through. cbn. ring. Qed.

Lemma minus_int_1 : minus_int RS 1 = Ok (-1)%Z.
Proof. unfold minus_int, minus_int_search. cbn. dec_consts. reflexivity. Qed.
Lemma minus_int_m1 : minus_int RS (-1) = Ok 1%Z.
Proof. unfold minus_int, minus_int_search. cbn. dec_consts. reflexivity. Qed.

Lemma k_any_axis_sheet x y z t A B C s :
  (A, B, C) <> (0, 0, 0) -> s = 1 \/ s = -1 ->
  one_sheet (convert_card RS M_K [x; y; z; t; A; B; C; s])
            (cone_about (x, y, z) (A, B, C) (t * t))
            (fun q => s * plane_through (x, y, z) (A, B, C) q).
Proof.
  intros Hu Hs.
  set (p' := (x + A * 0, y + B * 0, z + C * 0)).
  destruct (cone_surf_ok p' (A, B, C) t Hu) as (h1 & k1 & Hh1 & Hk1 & Hq1).
  assert (Hconv : forall side,
    minus_int RS s = Ok side -> Reqb s 0 = false ->
    convert_card RS M_K [x; y; z; t; A; B; C; s] =
    do aux <- cone_aux_plane RS p' (A, B, C) side; Ok [(cone_surf p' (A, B, C) (atan t), 1%Z); (fst aux, (snd aux * 1)%Z)]).
  { intros side Hm Hz. unfold convert_card, to_surface_mcnp. cbn -[convert_cone cone_aux_plane].
    unfold cone_, shift_, offset. cbn -[convert_cone cone_aux_plane].
    rewrite convert_cone_selector, Hz, Hm. cbn -[cone_aux_plane cone_surf]. fold p'.
    destruct (cone_aux_plane RS p' (A, B, C) side) as [[s2 sd]|e]; reflexivity. }
  destruct Hs as [-> | ->].
  - rewrite (Hconv _ minus_int_1 Reqb_1_0).
    destruct (cone_aux_plane_ok p' (A, B, C) (-1)%Z Hu) as (s2 & sd & h2 & k2 & Haux & Hh2 & Hk2 & Hq2).
    rewrite Haux. cbn [bind fst snd]. rewrite Z.mul_1_r.
    eapply (two_lits _ _ _ h1 h2 k1 k2); try eassumption.
    + intros q. rewrite Hq1. unfold p'. rewrite cone_about_shift. reflexivity.
    + intros q. rewrite Hq2. unfold p'. rewrite plane_through_shift. ring.
  - rewrite (Hconv _ minus_int_m1 Reqb_m1_0).
    destruct (cone_aux_plane_ok p' (A, B, C) 1%Z Hu) as (s2 & sd & h2 & k2 & Haux & Hh2 & Hk2 & Hq2).
    rewrite Haux. cbn [bind fst snd]. rewrite Z.mul_1_r.
    eapply (two_lits _ _ _ h1 h2 k1 k2); try eassumption.
    + intros q. rewrite Hq1. unfold p'. rewrite cone_about_shift. reflexivity.
    + intros q. rewrite Hq2. unfold p'. rewrite plane_through_shift. ring.
Qed.

(* ---------- outside the guards the code raises (no wrong surface is emitted) ---------- *)
Lemma p_zero_normal_raises D : convert_card RS M_P [0; 0; 0; D] = Err EZeroDiv.
Proof.
  unfold convert_card, to_surface_mcnp. cbn -[norm_].
  replace (norm_ RS 0 0 0) with 0.
  - rewrite Reqb_refl. reflexivity.
  - unfold norm_, ssq. cbn. replace (0 * 0 + 0 * 0 + 0 * 0) with 0 by ring. symmetry. apply sqrt_0.
Qed.

Lemma k_negative_t2_raises t2 :
  t2 < 0 ->
  (forall c, convert_card RS M_KX [c; t2] = Err EType /\ convert_card RS M_KY [c; t2] = Err EType /\
             convert_card RS M_KZ [c; t2] = Err EType) /\
  (forall x y z, convert_card RS M_K_X [x; y; z; t2] = Err EType /\
                 convert_card RS M_K_Y [x; y; z; t2] = Err EType /\
                 convert_card RS M_K_Z [x; y; z; t2] = Err EType).
Proof.
  intros Ht. assert (E : Rltb t2 0 = true) by (apply Rltb_true; exact Ht).
  split; intros; repeat split; unfold convert_card, to_surface_mcnp; cbn; unfold sqrt_t2; cbn;
    rewrite E; reflexivity.
Qed.

Lemma p3_collinear_raises x1 y1 z1 x2 y2 z2 x3 y3 z3 :
  mag2 RS (p3_normal RS (x1, y1, z1) (x2, y2, z2) (x3, y3, z3)) <= eps10 RS ->
  convert_card RS M_P [x1; y1; z1; x2; y2; z2; x3; y3; z3] = Err EValue.
Proof.
  intros H. unfold convert_card, to_surface_mcnp, normalize_surface, plane_params_from_points.
  rewrite ProofsP3.model_normal. unfold orient_plane.
  replace (sleb RS (mag2 RS (p3_normal RS (x1, y1, z1) (x2, y2, z2) (x3, y3, z3))) (eps10 RS)) with true
    by (symmetry; apply Rleb_true; exact H).
  reflexivity.
Qed.
