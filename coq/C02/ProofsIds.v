(* C02 — from the collection to the written ids: with the numbering and the
   matching of number_items, the literals that a cell conversion writes for -s
   and +s select the regions neg_coll / pos_coll of the collection. *)
From Coq Require Import List ZArith Bool Reals Lra Lia.
From T4V Require Import Base.Scalar C02.Vec C02.Spec C02.Model C02.Proofs C02.ProofsNum.
Import ListNotations.
Open Scope R_scope.

Notation numR := (list (Z * t4surf (T:=R))).

(* a written literal: a positive id is PLUS (f_T4 > 0), a negative one MINUS *)
Definition lit_holds (num : numR) (l : Z) (p : pointR) : Prop :=
  exists s g, In (Z.abs l, s) num /\ f_T4 RS (fst s) (snd s) = Some g /\ 0 < IZR (Z.sgn l) * g p.

(* -s: intersection of the opposite literals; +s: union of the literals *)
Definition neg_ids (num : numR) (ids : list Z) (p : pointR) : Prop :=
  Forall (fun id => lit_holds num (- id)%Z p) ids.
Definition pos_ids (num : numR) (ids : list Z) (p : pointR) : Prop :=
  Exists (fun id => lit_holds num id p) ids.

Lemma assoc_unique {X} (num : list (Z * X)) k a b :
  NoDup (map fst num) -> In (k, a) num -> In (k, b) num -> a = b.
Proof.
  induction num as [|[k0 x0] r IH]; intros Hnd Ha Hb; [destruct Ha|].
  cbn in Hnd. inversion Hnd as [|? ? Hnot Hnd']; subst.
  destruct Ha as [Ea|Ha], Hb as [Eb|Hb].
  - congruence.
  - inversion Ea; subst. exfalso. apply Hnot. apply (in_map fst) in Hb. exact Hb.
  - inversion Eb; subst. exfalso. apply Hnot. apply (in_map fst) in Ha. exact Ha.
  - exact (IH Hnd' Ha Hb).
Qed.

Lemma lit_neg_ids num ss id p :
  NoDup (map fst num) -> designates num ss id -> (snd ss = 1 \/ snd ss = -1)%Z ->
  (lit_holds num (- id)%Z p <-> lit_neg p ss) /\ (lit_holds num id p <-> lit_pos p ss).
Proof.
  intros Hnd [Hin Hsgn] Hside. destruct ss as [s side]. cbn [fst snd] in *.
  assert (Habs : Z.abs (- id) = Z.abs id) by lia.
  assert (Hs2 : Z.sgn (- id) = (- side)%Z) by lia.
  unfold lit_holds, lit_neg, lit_pos. cbn [fst snd]. rewrite Habs, Hs2, Hsgn, opp_IZR.
  split; split.
  - intros (s' & g & Hin' & Hg & Hlt). rewrite (assoc_unique num _ _ _ Hnd Hin' Hin) in Hg.
    exists g. split; [exact Hg|]. lra.
  - intros (g & Hg & Hlt). exists s, g. repeat split; try assumption. lra.
  - intros (s' & g & Hin' & Hg & Hlt). rewrite (assoc_unique num _ _ _ Hnd Hin' Hin) in Hg.
    exists g. split; [exact Hg|]. lra.
  - intros (g & Hg & Hlt). exists s, g. repeat split; try assumption.
Qed.

Theorem ids_select_regions num (c : collR) ids p :
  NoDup (map fst num) -> unit_sides c -> Forall2 (designates num) c ids ->
  (neg_ids num ids p <-> neg_coll c p) /\ (pos_ids num ids p <-> pos_coll c p).
Proof.
  intros Hnd Hu HF. unfold neg_ids, pos_ids, neg_coll, pos_coll.
  induction HF as [|ss id c' ids' Hd HF IH].
  - split; split; intros H; try constructor; inversion H.
  - inversion Hu as [|? ? Hside Hu']; subst.
    destruct (lit_neg_ids num ss id p Hnd Hd Hside) as (Hn & Hp).
    destruct (IH Hu') as (IHn & IHp).
    split; split; intros H.
    + inversion H; subst. constructor; [apply Hn; assumption | apply IHn; assumption].
    + inversion H; subst. constructor; [apply Hn; assumption | apply IHn; assumption].
    + inversion H; subst; [apply Exists_cons_hd, Hp; assumption | apply Exists_cons_tl, IHp; assumption].
    + inversion H; subst; [apply Exists_cons_hd, Hp; assumption | apply Exists_cons_tl, IHp; assumption].
Qed.

(* number_items + the reading above: for every MCNP surface of the dictionary,
   the ids of its matching select the regions of its collection *)
Definition entry_regions (num : numR) (kv : Z * collR) (km : Z * list Z) : Prop :=
  fst km = fst kv /\
  forall p, (neg_ids num (snd km) p <-> neg_coll (snd kv) p) /\
            (pos_ids num (snd km) p <-> pos_coll (snd kv) p).

Theorem numbered_ids_select_regions (dic : list (Z * collR)) num mat :
  number_items dic = Ok (num, mat) ->
  (forall k, In k (keys dic) -> (0 < k)%Z) -> NoDup (keys dic) ->
  Forall (fun kv => unit_sides (snd kv)) dic ->
  NoDup (map fst num) /\ Forall2 (entry_regions num) dic mat.
Proof.
  intros H Hpos Hnd Hu.
  destruct (number_items_spec dic num mat H Hpos Hnd Hu) as (Hnd' & HF).
  split; [exact Hnd'|]. clear H Hpos Hnd.
  induction HF as [|kv km d m [Hk Hd] HF IH]; [constructor|].
  inversion Hu as [|? ? Hu1 Hu2]; subst. constructor; [|exact (IH Hu2)].
  split; [exact Hk|]. intros p. apply ids_select_regions; assumption.
Qed.
