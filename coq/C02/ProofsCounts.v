(* C02 — what the code does with surplus / missing entries and with sheet
   selectors of magnitude >= 2 (cards outside MCNP's admissibility): a
   characterisation, for every scalar instance (reals and binary64 alike). *)
From Coq Require Import List ZArith Bool Reals Lra Lia.
From T4V Require Import Base.Scalar C02.Vec C02.Spec C02.Model C02.Proofs C02.ProofsCards.
Import ListNotations.

Section Counts.
Context {T : Type} (S : Scalar T).

(* ---- surplus entries are silently ignored by these mnemonics ---- *)
Lemma surplus_ignored_1 (v e : T) (extra : list T) :
  convert_card S M_SO (v :: e :: extra) = convert_card S M_SO [v] /\
  convert_card S M_PX (v :: e :: extra) = convert_card S M_PX [v] /\
  convert_card S M_PY (v :: e :: extra) = convert_card S M_PY [v] /\
  convert_card S M_PZ (v :: e :: extra) = convert_card S M_PZ [v] /\
  convert_card S M_CX (v :: e :: extra) = convert_card S M_CX [v] /\
  convert_card S M_CY (v :: e :: extra) = convert_card S M_CY [v] /\
  convert_card S M_CZ (v :: e :: extra) = convert_card S M_CZ [v].
Proof. repeat split; reflexivity. Qed.

Lemma surplus_ignored_2 (a b e : T) (extra : list T) :
  convert_card S M_SX (a :: b :: e :: extra) = convert_card S M_SX [a; b] /\
  convert_card S M_SY (a :: b :: e :: extra) = convert_card S M_SY [a; b] /\
  convert_card S M_SZ (a :: b :: e :: extra) = convert_card S M_SZ [a; b].
Proof. repeat split; reflexivity. Qed.

Lemma surplus_ignored_3 (a b c e : T) (extra : list T) :
  convert_card S M_C_X (a :: b :: c :: e :: extra) = convert_card S M_C_X [a; b; c] /\
  convert_card S M_C_Y (a :: b :: c :: e :: extra) = convert_card S M_C_Y [a; b; c] /\
  convert_card S M_C_Z (a :: b :: c :: e :: extra) = convert_card S M_C_Z [a; b; c].
Proof. repeat split; reflexivity. Qed.

Lemma surplus_ignored_sq (a b c d e f g x y z e1 : T) (extra : list T) :
  convert_card S M_SQ (a :: b :: c :: d :: e :: f :: g :: x :: y :: z :: e1 :: extra) =
  convert_card S M_SQ [a; b; c; d; e; f; g; x; y; z].
Proof. reflexivity. Qed.

(* cones: with ONE surplus entry beyond the selector position the selector is
   not read any more: the card is converted as the two-sheet cone *)
Lemma surplus_drops_selector (c t2 s e : T) (extra : list T) (x y z : T) :
  convert_card S M_KX (c :: t2 :: s :: e :: extra) = convert_card S M_KX [c; t2] /\
  convert_card S M_KY (c :: t2 :: s :: e :: extra) = convert_card S M_KY [c; t2] /\
  convert_card S M_KZ (c :: t2 :: s :: e :: extra) = convert_card S M_KZ [c; t2] /\
  convert_card S M_K_X (x :: y :: z :: t2 :: s :: e :: extra) = convert_card S M_K_X [x; y; z; t2] /\
  convert_card S M_K_Y (x :: y :: z :: t2 :: s :: e :: extra) = convert_card S M_K_Y [x; y; z; t2] /\
  convert_card S M_K_Z (x :: y :: z :: t2 :: s :: e :: extra) = convert_card S M_K_Z [x; y; z; t2].
Proof.
  repeat split; unfold convert_card, to_surface_mcnp; cbn; unfold sqrt_t2;
    destruct (sltb S t2 (s0 S)); reflexivity.
Qed.

(* GQ: any number of entries is passed through to QUAD unchanged *)
Lemma gq_any_count (l : list T) : convert_card S M_GQ l = Ok [((QUAD, l), 1%Z)].
Proof.
  unfold convert_card, to_surface_mcnp. cbn.
  assert (E : forall l : list T, all_some (map Some l) = Ok l).
  { induction l0 as [|a r IH]; [reflexivity|]. cbn. rewrite IH. reflexivity. }
  unfold convert_quadric. cbn. rewrite E. reflexivity.
Qed.

(* ---- missing entries raise ---- *)
Lemma short_raises :
  convert_card S M_SO [] = Err EIndex /\ convert_card S M_PX [] = Err EIndex /\
  convert_card S M_CX [] = Err EIndex /\
  (forall a, convert_card S M_SX [a] = Err EIndex) /\
  (forall a b, convert_card S M_C_X [a; b] = Err EIndex) /\
  (forall a, convert_card S M_KX [a] = Err EIndex) /\
  (forall a b c, convert_card S M_K_X [a; b; c] = Err EIndex) /\
  (forall a b c d e f g x y, convert_card S M_SQ [a; b; c; d; e; f; g; x; y] = Err EIndex).
Proof. repeat split; reflexivity. Qed.

(* ---- mnemonics with an exact count ---- *)
Lemma exact_counts (a b c d e : T) :
  convert_card S M_S [a; b; c] = Err EType /\
  convert_card S M_S [a; b; c; d; e] = Err EType /\
  convert_card S M_P [a; b; c] = Err EValue /\
  convert_card S M_P [a; b; c; d; e] = Err EValue /\
  convert_card S M_TX [a; b; c; d] = Err EValue /\
  convert_card S M_X [a; b; c] = Err ENotImpl /\
  convert_card S M_X [a; b; c; d; e] = Err ENotImpl.
Proof. repeat split; reflexivity. Qed.

End Counts.

(* ---- sheet selectors of magnitude >= 2 ---- *)
Open Scope R_scope.

(* -int(s) for 2 <= |s| < 9: the side of the auxiliary plane has that magnitude *)
Lemma minus_int_large (s : R) (k : Z) :
  (2 <= k <= 8)%Z ->
  (IZR k <= s < IZR (k + 1) -> minus_int RS s = Ok (- k)%Z) /\
  (IZR (- (k + 1)) < s <= IZR (- k) -> minus_int RS s = Ok k).
Proof.
  intros Hk.
  assert (Hcases : k = 2%Z \/ k = 3%Z \/ k = 4%Z \/ k = 5%Z \/ k = 6%Z \/ k = 7%Z \/ k = 8%Z) by lia.
  split; intros Hs; unfold minus_int, minus_int_search; cbn;
    destruct Hcases as [-> | [-> | [-> | [-> | [-> | [-> | ->]]]]]]; cbn in Hs;
    dec_consts; reflexivity.
Qed.

(* the card: cone + plane with a side of magnitude |int(s)| *)
Lemma kz_large_selector z0 t2 s k :
  0 <= t2 -> (2 <= k <= 8)%Z -> IZR k <= s < IZR (k + 1) ->
  exists cone plane, convert_card RS M_KZ [z0; t2; s] = Ok [(cone, 1%Z); (plane, (- k)%Z)].
Proof.
  intros Ht Hk Hs. destruct (minus_int_large s k Hk) as (Hm & _). specialize (Hm Hs).
  unfold convert_card, to_surface_mcnp. cbn -[minus_int]. unfold sqrt_t2. cbn -[minus_int].
  rewrite (Rltb_ge _ Ht). cbn -[minus_int]. consts.
  assert (Hs0 : Reqb s 0 = false) by (apply Reqb_false; assert (2 <= IZR k) by (apply IZR_le; lia); lra).
  rewrite Hs0, Hm. cbn. consts. cbn. rewrite Z.mul_1_r. eexists _, _. reflexivity.
Qed.

(* number_items then writes the id side * free for the plane numbered free:
   with |side| >= 2 this names another id, not the plane *)
Lemma large_side_names_another_id (side free : Z) :
  (0 < free)%Z -> (2 <= Z.abs side)%Z -> Z.abs (side * free) <> free.
Proof. intros Hf Hs. rewrite Z.abs_mul. nia. Qed.
