(* C02 — CollectionDict.number_items and SurfaceCollection.join: the ids of the
   matching designate the surfaces of the collection with their sides. *)
From Coq Require Import List ZArith Bool Lia.
From T4V Require Import C02.Model.
Import ListNotations.
Open Scope Z_scope.

Section Num.
Context {A : Type}.
Notation dict := (list (Z * list (A * Z))).

Definition keys (dic : dict) : list Z := map fst dic.

(* the literal [id] designates surface s with side [side] in the numbering *)
Definition designates (num : list (Z * A)) (ss : A * Z) (id : Z) : Prop :=
  In (Z.abs id, fst ss) num /\ Z.sgn id = snd ss.

Definition unit_sides (value : list (A * Z)) : Prop :=
  Forall (fun ss => snd ss = 1 \/ snd ss = -1) value.

Lemma Forall2_mono {X Y} (P Q : X -> Y -> Prop) l1 l2 :
  (forall a b, P a b -> Q a b) -> Forall2 P l1 l2 -> Forall2 Q l1 l2.
Proof. intros H F. induction F; constructor; auto. Qed.

Lemma number_rest_spec (rest : list (A * Z)) : forall free num ids free',
  number_rest free rest = (num, ids, free') ->
  0 < free -> unit_sides rest ->
  free' = free + Z.of_nat (length rest) /\
  map fst num = map (fun i => free + Z.of_nat i) (seq 0 (length rest)) /\
  Forall2 (designates num) rest ids.
Proof.
  induction rest as [|[s side] r IH]; intros free num ids free' H Hpos Hu.
  - cbn in H. inversion H; subst. cbn. split; [lia|]. split; [reflexivity|constructor].
  - cbn in H. destruct (number_rest (free + 1) r) as [[num1 ids1] free1] eqn:E.
    inversion H; subst. inversion Hu as [|? ? Hs Hu']; subst. cbn in Hs.
    destruct (IH _ _ _ _ E ltac:(lia) Hu') as (Hf & Hk & Hd).
    split; [cbn [length]; lia|]. split.
    + cbn [length seq map fst]. f_equal; [lia|]. rewrite Hk. rewrite <- seq_shift, map_map.
      apply map_ext. intros i. lia.
    + constructor.
      * split; cbn.
        -- left. f_equal. destruct Hs as [-> | ->]; lia.
        -- destruct Hs as [-> | ->]; lia.
      * eapply Forall2_mono; [|exact Hd]. intros a b [H1 H2]. split; [right; exact H1|exact H2].
Qed.

Lemma designates_incl num num' ss id :
  incl num num' -> designates num ss id -> designates num' ss id.
Proof. intros Hi [H1 H2]. split; [apply Hi; exact H1|exact H2]. Qed.

Lemma NoDup_app_intro {X} (l1 l2 : list X) :
  NoDup l1 -> NoDup l2 -> (forall x, In x l1 -> ~ In x l2) -> NoDup (l1 ++ l2).
Proof.
  intros H1 H2 Hd. induction H1 as [|a l Ha Hl IH]; [exact H2|].
  cbn. constructor.
  - rewrite in_app_iff. intros [H|H]; [exact (Ha H)|]. exact (Hd a (or_introl eq_refl) H).
  - apply IH. intros x Hx. apply Hd. right; exact Hx.
Qed.

Lemma NoDup_range free n : NoDup (map (fun i => free + Z.of_nat i) (seq 0 n)).
Proof.
  generalize 0%nat. induction n as [|n IH]; intros st; cbn; constructor.
  - rewrite in_map_iff. intros (i & Hi & Hin). apply in_seq in Hin. lia.
  - apply IH.
Qed.

Lemma in_range free n k :
  In k (map (fun i => free + Z.of_nat i) (seq 0 n)) -> free <= k < free + Z.of_nat n.
Proof.
  rewrite in_map_iff. intros (i & <- & Hi). apply in_seq in Hi. lia.
Qed.

Definition entry_ok (num : list (Z * A)) (kv : Z * list (A * Z)) (km : Z * list Z) : Prop :=
  fst km = fst kv /\ Forall2 (designates num) (snd kv) (snd km).

Lemma number_loop_spec (dic : dict) : forall free num mat,
  number_loop free dic = Ok (num, mat) ->
  (forall k, In k (keys dic) -> 0 < k < free) -> NoDup (keys dic) ->
  Forall (fun kv => unit_sides (snd kv)) dic ->
  (forall k, In k (map fst num) -> In k (keys dic) \/ free <= k) /\
  NoDup (map fst num) /\
  Forall2 (entry_ok num) dic mat.
Proof.
  induction dic as [|[key value] r IH]; intros free num mat H Hk Hnd Hu.
  - cbn in H. inversion H; subst. cbn. repeat split; [tauto|constructor|constructor].
  - cbn in H. destruct value as [|[fs fside] rest]; [discriminate|].
    destruct (number_rest free rest) as [[num1 ids1] free'] eqn:E1.
    destruct (number_loop free' r) as [[numr matr]|e] eqn:E2; [|discriminate].
    cbn in H. inversion H; subst. clear H.
    inversion Hnd as [|? ? Hkey Hnd']; subst.
    inversion Hu as [|? ? Huv Hu']; subst. cbn in Huv.
    inversion Huv as [|? ? Hfs Hurest]; subst. cbn in Hfs.
    assert (Hkeypos : 0 < key < free) by (apply Hk; left; reflexivity).
    destruct (number_rest_spec rest free num1 ids1 free' E1 ltac:(lia) Hurest) as (Hf' & Hk1 & Hd1).
    assert (Hkr : forall k, In k (keys r) -> 0 < k < free').
    { intros k Hin. specialize (Hk k (or_intror Hin)). lia. }
    destruct (IH free' numr matr E2 Hkr Hnd' Hu') as (Hin_r & Hnd_r & Hok_r).
    assert (Hin1 : forall k, In k (map fst num1) -> free <= k < free').
    { intros k Hin. rewrite Hk1 in Hin. apply in_range in Hin. lia. }
    split; [|split].
    + intros k. cbn [map fst]. rewrite map_app. intros [<-|Hin]; [left; left; reflexivity|].
      apply in_app_iff in Hin. destruct Hin as [Hin|Hin].
      * right. apply Hin1 in Hin. lia.
      * destruct (Hin_r k Hin) as [Hr|Hr]; [left; right; exact Hr|right; lia].
    + cbn [map fst]. rewrite map_app. constructor.
      * rewrite in_app_iff. intros [Hin|Hin].
        -- apply Hin1 in Hin. lia.
        -- destruct (Hin_r key Hin) as [Hr|Hr]; [exact (Hkey Hr)|lia].
      * apply NoDup_app_intro; [rewrite Hk1; apply NoDup_range|exact Hnd_r|].
        intros k Hin1' Hinr. apply Hin1 in Hin1'.
        destruct (Hin_r k Hinr) as [Hr|Hr]; [specialize (Hk k (or_intror Hr)); lia|lia].
    + constructor.
      * split; [reflexivity|]. cbn [snd]. constructor.
        -- split; cbn [fst snd].
           ++ left. f_equal. destruct Hfs as [-> | ->]; lia.
           ++ destruct Hfs as [-> | ->]; lia.
        -- eapply Forall2_mono; [|exact Hd1]. intros a b.
           apply designates_incl. intros x Hx. right. apply in_or_app. left; exact Hx.
      * eapply Forall2_mono; [|exact Hok_r]. intros kv km [Hfst Hall]. split; [exact Hfst|].
        eapply Forall2_mono; [|exact Hall]. intros a b.
        apply designates_incl. intros x Hx. right. apply in_or_app. right; exact Hx.
Qed.

Lemma fold_max_ge (l : list Z) (d k : Z) : In k l -> k <= fold_right Z.max d l.
Proof.
  induction l as [|a l IH]; [intros []|]. cbn. intros [<-|H]; [lia|]. specialize (IH H). lia.
Qed.

(* CollectionDict.number_items: every id of the matching designates, in the
   numbering, the surface of the collection at the same position, with its
   side; the numbering has no duplicate id *)
Theorem number_items_spec (dic : dict) num mat :
  number_items dic = Ok (num, mat) ->
  (forall k, In k (keys dic) -> 0 < k) -> NoDup (keys dic) ->
  Forall (fun kv => unit_sides (snd kv)) dic ->
  NoDup (map fst num) /\ Forall2 (entry_ok num) dic mat.
Proof.
  intros H Hpos Hnd Hu. unfold number_items in H.
  destruct dic as [|kv0 r0] eqn:Ed; [discriminate|]. rewrite <- Ed in *.
  eapply number_loop_spec in H; try eassumption.
  - destruct H as (_ & H2 & H3). split; assumption.
  - intros k Hin. split; [apply Hpos; exact Hin|].
    pose proof (fold_max_ge (map fst dic) (fst (hd (0, []) dic)) k Hin). fold (keys dic) in *.
    unfold keys in *. lia.
Qed.

(* ... and it succeeds on every non-empty dictionary of non-empty collections *)
Lemma number_loop_total (dic : dict) : forall free,
  Forall (fun kv => snd kv <> []) dic -> exists nm, number_loop free dic = Ok nm.
Proof.
  induction dic as [|[key value] r IH]; intros free Hne.
  - eexists; reflexivity.
  - inversion Hne as [|? ? Hv Hr]; subst. cbn in Hv. cbn.
    destruct value as [|[fs fside] rest]; [contradiction|].
    destruct (number_rest free rest) as [[num1 ids1] free'].
    destruct (IH free' Hr) as (nm & ->). eexists; reflexivity.
Qed.
End Num.

Section Join.
Context {A : Type}.
Lemma join_single (cl : list (A * Z)) : cl <> [] -> join [(cl, 1%Z)] = Ok cl.
Proof.
  intros Hne. unfold join. cbn. rewrite app_nil_r.
  assert (E : map (fun ss : A * Z => (fst ss, (snd ss * 1)%Z)) cl = cl).
  { induction cl as [|[s sd] l IH]; [reflexivity|]. cbn. rewrite Z.mul_1_r. f_equal.
    destruct l; [reflexivity|]. apply IH. discriminate. }
  rewrite E. destruct cl; [contradiction|reflexivity].
Qed.

(* the outer side multiplies every inner side (macrobody facets, C03) *)
Lemma join_sides (colls : list (list (A * Z) * Z)) l :
  join colls = Ok l ->
  l = flat_map (fun cs => map (fun ss => (fst ss, (snd ss * snd cs)%Z)) (fst cs)) colls /\ l <> [].
Proof.
  unfold join. destruct (flat_map _ colls) as [|x r] eqn:E; [discriminate|].
  intros H. inversion H; subst. split; [reflexivity|discriminate].
Qed.
End Join.
