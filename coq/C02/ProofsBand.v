(* C02 — three-point planes INSIDE the thresholds of planeParamsFromPoints:
   which orientation the code picks for every input it accepts, and where that
   differs from the manual's rule. *)
From Coq Require Import List ZArith Bool Reals Lra Lia Psatz.
From T4V Require Import Base.Scalar C02.Vec C02.Spec C02.Model C02.Proofs C02.ProofsCards C02.ProofsP3.
Import ListNotations.
Open Scope R_scope.

(* what the code reads: a quantity whose magnitude is at most 1e-14 |n| is zero *)
Definition thr (m v : R) : R := if Rleb (Rabs v) (e14 * m) then 0 else v.

Lemma abs_le_inv v b : Rabs v <= b -> - b <= v <= b.
Proof. unfold Rabs. destruct (Rcase_abs v); intros; lra. Qed.

Lemma thr_step m v :
  0 < m ->
  Rltb (1 / m * v) (- e14) = Rltb (thr m v) 0 /\ Rltb e14 (1 / m * v) = Rltb 0 (thr m v).
Proof.
  intros Hm. pose proof e14_pos as He.
  assert (Hw : 1 / m * v * m = v) by (field; lra).
  set (w := 1 / m * v) in *. clearbody w. unfold thr.
  destruct (Rleb (Rabs v) (e14 * m)) eqn:E; [apply Rleb_true in E | apply Rleb_false in E].
  - rewrite Rltb_irrefl.
    assert (- (e14 * m) <= v <= e14 * m) by (apply abs_le_inv; exact E).
    split; apply Rltb_false; nra.
  - destruct (Rlt_le_dec v 0) as [Hv|Hv].
    + rewrite Rabs_left in E by exact Hv.
      rewrite (proj2 (Rltb_true w (- e14))) by nra. rewrite (proj2 (Rltb_true v 0)) by lra.
      rewrite (proj2 (Rltb_false e14 w)) by nra. rewrite (proj2 (Rltb_false 0 v)) by lra. auto.
    + rewrite Rabs_right in E by lra.
      rewrite (proj2 (Rltb_false w (- e14))) by nra. rewrite (proj2 (Rltb_false v 0)) by lra.
      rewrite (proj2 (Rltb_true e14 w)) by nra. rewrite (proj2 (Rltb_true 0 v)) by nra. auto.
Qed.

(* the code's orientation rule = the manual's four rules applied to the
   thresholded quantities *)
Definition code_keep (n p1 : vecR) : option bool :=
  let m := mag RS n in
  p3_keep RS (thr m (vx n), thr m (vy n), thr m (vz n)) (thr m (scal RS n p1)).

Lemma e14_small : e14 < 1 / 2.
Proof. unfold e14, eps14, spow10neg. cbn. lra. Qed.

Lemma thr_zero_bound m v : 0 < m -> thr m v = 0 -> v * v <= e14 * e14 * (m * m).
Proof.
  intros Hm. unfold thr.
  destruct (Rleb (Rabs v) (e14 * m)) eqn:E; [apply Rleb_true in E | apply Rleb_false in E].
  - intros _. assert (- (e14 * m) <= v <= e14 * m) by (apply abs_le_inv; exact E).
    pose proof e14_pos. nra.
  - intros ->. rewrite Rabs_R0 in E. pose proof e14_pos. nra.
Qed.

Theorem orient_plane_thresholded n p1 :
  e10 < mag2 RS n ->
  exists keep, code_keep n p1 = Some keep /\
    orient_plane RS n p1 =
      Ok (scale4 (1 / mag RS n)
                 (if keep then (vx n, vy n, vz n, scal RS n p1)
                  else (- vx n, - vy n, - vz n, - scal RS n p1))).
Proof.
  destruct n as [[A B] C], p1 as [[x1 y1] z1]. intros Hlen. cbn [vx vy vz fst snd].
  assert (Hm2 : 0 < mag2 RS (A, B, C)) by (pose proof e10_pos; lra).
  assert (Hm : 0 < mag RS (A, B, C)) by (apply sqrt_lt_R0; exact Hm2).
  assert (Hmm : mag RS (A, B, C) * mag RS (A, B, C) = A * A + B * B + C * C).
  { unfold mag. apply sqrt_sqrt. cbn in Hm2. cbn. lra. }
  unfold orient_plane, code_keep. cbn [vx vy vz fst snd].
  replace (sleb RS (mag2 RS (A, B, C)) (eps10 RS)) with false
    by (symmetry; apply Rleb_false; exact Hlen).
  set (m := mag RS (A, B, C)) in *. set (D := scal RS (A, B, C) (x1, y1, z1)) in *.
  assert (Hpos : scal RS (renorm RS (A, B, C)) (x1, y1, z1) = 1 / m * D).
  { unfold renorm, D. fold m. cbn. ring. }
  assert (Hux : vx (renorm RS (A, B, C)) = 1 / m * A) by reflexivity.
  assert (Huy : vy (renorm RS (A, B, C)) = 1 / m * B) by reflexivity.
  assert (Huz : vz (renorm RS (A, B, C)) = 1 / m * C) by reflexivity.
  cbv zeta. rewrite Hpos, Hux, Huy, Huz.
  change (sltb RS) with Rltb. change (sneg RS) with Ropp. change (eps14 RS) with e14.
  destruct (thr_step m D Hm) as (-> & ->). destruct (thr_step m C Hm) as (-> & ->).
  destruct (thr_step m B Hm) as (-> & ->). destruct (thr_step m A Hm) as (-> & ->).
  unfold p3_keep. change (sltb RS) with Rltb. change (s0 RS) with 0.
  pose proof (thr_zero_bound m A Hm) as ZA. pose proof (thr_zero_bound m B Hm) as ZB.
  pose proof (thr_zero_bound m C Hm) as ZC.
  set (tD := thr m D) in *. set (tC := thr m C) in *. set (tB := thr m B) in *.
  set (tA := thr m A) in *. clearbody tD tC tB tA D.
  assert (Hflip : forall v, - (1 / m * v) = 1 / m * - v) by (intros; ring).
  assert (Hcase : forall t, (Rltb t 0 = true /\ Rltb 0 t = false /\ t < 0) \/
                            (Rltb t 0 = false /\ Rltb 0 t = true /\ 0 < t) \/
                            (Rltb t 0 = false /\ Rltb 0 t = false /\ t = 0)).
  { intros t. destruct (Rtotal_order t 0) as [H|[H|H]].
    - left. repeat split; [apply Rltb_true | apply Rltb_false | ]; lra.
    - right; right. repeat split; [apply Rltb_false | apply Rltb_false | ]; lra.
    - right; left. repeat split; [apply Rltb_false | apply Rltb_true | ]; lra. }
  destruct (Hcase tD) as [(-> & -> & _)|[(-> & -> & _)|(-> & -> & _)]];
    [exists false; split; [reflexivity|]; cbn; rewrite !Hflip; reflexivity
    |exists true; split; reflexivity|].
  destruct (Hcase tC) as [(-> & -> & _)|[(-> & -> & _)|(-> & -> & HC)]];
    [exists false; split; [reflexivity|]; cbn; rewrite !Hflip; reflexivity
    |exists true; split; reflexivity|].
  destruct (Hcase tB) as [(-> & -> & _)|[(-> & -> & _)|(-> & -> & HB)]];
    [exists false; split; [reflexivity|]; cbn; rewrite !Hflip; reflexivity
    |exists true; split; reflexivity|].
  destruct (Hcase tA) as [(-> & -> & _)|[(-> & -> & _)|(-> & -> & HA)]];
    [exists false; split; [reflexivity|]; cbn; rewrite !Hflip; reflexivity
    |exists true; split; reflexivity|].
  (* all three components below the threshold: impossible for a unit vector *)
  exfalso. specialize (ZA HA). specialize (ZB HB). specialize (ZC HC).
  pose proof e14_small. pose proof e14_pos. clearbody m.
  assert (e14 * e14 < 1 / 4) by nra.
  assert (0 < m * m) by nra. nra.
Qed.

(* the card: for EVERY nine-entry P card that the code accepts (|n|^2 > 1e-10)
   the emitted plane is k (k > 0) times the plane through the three points
   oriented by the thresholded rule *)
Theorem p3_sense_thresholded x1 y1 z1 x2 y2 z2 x3 y3 z3 :
  let p1 := (x1, y1, z1) in let p2 := (x2, y2, z2) in let p3 := (x3, y3, z3) in
  let n := p3_normal RS p1 p2 p3 in
  e10 < mag2 RS n ->
  exists keep, code_keep n p1 = Some keep /\
    locus_sense (convert_card RS M_P [x1; y1; z1; x2; y2; z2; x3; y3; z3])
      (if keep then fM_p RS (vx n) (vy n) (vz n) (scal RS n p1)
       else fM_p RS (- vx n) (- vy n) (- vz n) (- scal RS n p1)).
Proof.
  intros p1 p2 p3 n Hlen.
  destruct (orient_plane_thresholded n p1 Hlen) as (keep & Hkeep & Hop).
  exists keep. split; [exact Hkeep|].
  destruct n as [[A B] C] eqn:En. cbn [vx vy vz fst snd] in *.
  assert (Hm2 : 0 < mag2 RS (A, B, C)) by (pose proof e10_pos; lra).
  assert (Hm : 0 < mag RS (A, B, C)) by (apply sqrt_lt_R0; exact Hm2).
  assert (Hn : (A, B, C) <> (0, 0, 0)).
  { intros E. injection E as -> -> ->. cbn in Hm2. lra. }
  set (m := mag RS (A, B, C)) in *. set (D := scal RS (A, B, C) p1) in *.
  assert (Hk : 0 < 1 / m) by (apply Rdiv_lt_0_compat; lra).
  assert (Hmodel : plane_params_from_points RS p1 p2 p3 =
                   Ok (scale4 (1 / m) (if keep then (A, B, C, D) else (- A, - B, - C, - D)))).
  { unfold plane_params_from_points. rewrite model_normal. fold n. rewrite En. exact Hop. }
  clearbody m D.
  assert (Hz : forall v, 1 / m * v = 0 -> v = 0).
  { intros v Hv. apply (Rmult_eq_compat_l m) in Hv. rewrite Rmult_0_r in Hv.
    replace (m * (1 / m * v)) with v in Hv by (field; lra). exact Hv. }
  destruct keep; cbn [scale4] in Hmodel; unfold p1, p2, p3 in Hmodel;
    rewrite (p9_as_p4 _ _ _ _ _ _ _ _ _ _ _ _ _ Hmodel).
  - apply (locus_sense_scale _ (fM_p RS (1 / m * A) (1 / m * B) (1 / m * C) (1 / m * D)) _ (1 / m) Hk).
    + intros [[x y] z]. cbn. ring.
    + apply p_locus_sense. intros E. injection E as E1 E2 E3. apply Hn.
      rewrite (Hz A E1), (Hz B E2), (Hz C E3). reflexivity.
  - apply (locus_sense_scale _ (fM_p RS (1 / m * - A) (1 / m * - B) (1 / m * - C) (1 / m * - D)) _ (1 / m) Hk).
    + intros [[x y] z]. cbn. ring.
    + apply p_locus_sense. intros E. injection E as E1 E2 E3. apply Hn.
      apply Hz in E1, E2, E3. f_equal; [f_equal|]; lra.
Qed.

(* where the thresholded rule and the manual's rule agree: whenever every
   quantity examined before (and including) the deciding one is band-free;
   in particular under p3_guard *)
Lemma thr_band_free m v : 0 <= m -> band_free m v -> thr m v = v.
Proof.
  intros Hm [-> | Hb]; unfold thr.
  - destruct (Rleb _ _); reflexivity.
  - replace (Rleb (Rabs v) (e14 * m)) with false by (symmetry; apply Rleb_false; exact Hb).
    reflexivity.
Qed.

Lemma code_keep_manual n p1 :
  p3_guard n p1 -> code_keep n p1 = p3_keep RS n (scal RS n p1).
Proof.
  destruct n as [[A B] C]. intros (Hlen & HD & HC & HB & HA). cbn [vx vy vz fst snd] in *.
  assert (Hm : 0 <= mag RS (A, B, C)) by apply sqrt_pos.
  unfold code_keep. cbn [vx vy vz fst snd].
  rewrite !thr_band_free by assumption. reflexivity.
Qed.

(* ... and an input on which they differ: the plane z = -t with 0 < t <= 1e-14
   given by (0,0,-t), (0,1,-t), (1,0,-t).  The manual (origin negative) keeps
   -z - t; the code reads D as zero, applies the next rule ((0,0,inf)
   positive) and emits z + t: every point off the plane gets the opposite
   sense. *)
Theorem p3_band_deviation t :
  0 < t <= e14 ->
  p3_plane RS (0, 0, - t) (0, 1, - t) (1, 0, - t) = Some (0, 0, - (1), t) /\
  locus_sense (convert_card RS M_P [0; 0; - t; 0; 1; - t; 1; 0; - t])
              (fM_p RS (- 0) (- 0) (- - (1)) (- t)).
Proof.
  intros [Ht1 Ht2].
  assert (En : p3_normal RS (0, 0, - t) (0, 1, - t) (1, 0, - t) = (0, 0, - (1))).
  { unfold p3_normal. cbn. f_equal; [f_equal|]; ring. }
  assert (ED : scal RS (0, 0, - (1)) (0, 0, - t) = t) by (cbn; ring).
  split.
  - unfold p3_plane. rewrite En, ED. unfold p3_keep. change (sltb RS) with Rltb. change (s0 RS) with 0.
    rewrite (proj2 (Rltb_true 0 t)) by lra. reflexivity.
  - assert (Emag2 : mag2 RS (0, 0, - (1)) = 1) by (cbn; ring).
    assert (Emag : mag RS (0, 0, - (1)) = 1) by (unfold mag; rewrite Emag2; apply sqrt_1).
    assert (Hlen : e10 < mag2 RS (p3_normal RS (0, 0, - t) (0, 1, - t) (1, 0, - t))).
    { rewrite En, Emag2. unfold e10, eps10, spow10neg. cbn. lra. }
    destruct (p3_sense_thresholded 0 0 (- t) 0 1 (- t) 1 0 (- t) Hlen) as (keep & Hk & Hl).
    cbv zeta in Hk, Hl. rewrite En in Hk, Hl. rewrite ED in Hl. cbn [vx vy vz fst snd] in Hl.
    unfold code_keep in Hk. rewrite ED, Emag in Hk. cbn [vx vy vz fst snd] in Hk.
    pose proof e14_pos as He. pose proof e14_small as Hs.
    assert (T0 : thr 1 0 = 0) by (unfold thr; destruct (Rleb _ _); reflexivity).
    assert (Tt : thr 1 t = 0).
    { unfold thr. rewrite Rabs_right by lra.
      rewrite (proj2 (Rleb_true t (e14 * 1))) by lra. reflexivity. }
    assert (T1 : thr 1 (- (1)) = - (1)).
    { unfold thr. rewrite Rabs_left by lra.
      rewrite (proj2 (Rleb_false (- - (1)) (e14 * 1))) by lra. reflexivity. }
    rewrite T0, Tt, T1 in Hk. unfold p3_keep in Hk.
    change (sltb RS) with Rltb in Hk. change (s0 RS) with 0 in Hk.
    rewrite Rltb_irrefl in Hk.
    rewrite (proj2 (Rltb_false 0 (- (1)))) in Hk by lra.
    rewrite (proj2 (Rltb_true (- (1)) 0)) in Hk by lra.
    injection Hk as <-. exact Hl.
Qed.
