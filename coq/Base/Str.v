(* String helpers shared by the text-level models (Python str semantics on the
   ASCII subset the generators use). *)
From Coq Require Import List NArith ZArith Bool String Ascii Lia.
Import ListNotations.
Open Scope string_scope.

Definition is_digit (c : ascii) : bool :=
  let n := N_of_ascii c in (48 <=? n)%N && (n <=? 57)%N.

Definition digit_val (c : ascii) : N := (N_of_ascii c - 48)%N.

Fixpoint all_digits (s : string) : bool :=
  match s with
  | EmptyString => true
  | String c r => is_digit c && all_digits r
  end.

Fixpoint parse_digits (s : string) (acc : N) : N :=
  match s with
  | EmptyString => acc
  | String c r => parse_digits r (acc * 10 + digit_val c)%N
  end.

(* Python int(s) on a non-empty string of ASCII digits; None for anything else
   (the model's [int] is deliberately narrower than Python's: no sign, blanks
   or underscores; the generators stay inside it). *)
Definition int_of_string (s : string) : option N :=
  match s with
  | EmptyString => None
  | _ => if all_digits s then Some (parse_digits s 0%N) else None
  end.

(* s.split(c)[0] *)
Fixpoint take_until (c : ascii) (s : string) : string :=
  match s with
  | EmptyString => EmptyString
  | String d r => if Ascii.eqb c d then EmptyString else String d (take_until c r)
  end.

Fixpoint contains_char (c : ascii) (s : string) : bool :=
  match s with
  | EmptyString => false
  | String d r => Ascii.eqb c d || contains_char c r
  end.

(* s[:-n] and s[-n:] for n <= len(s) *)
Definition drop_last (n : nat) (s : string) : string := substring 0 (length s - n) s.
Definition take_last (n : nat) (s : string) : string := substring (length s - n) n s.

(* decimal rendering of N: str(n) *)
Definition digit_char (d : N) : ascii := ascii_of_N (48 + d).

Fixpoint dec_fuel (fuel : nat) (n : N) (acc : string) : string :=
  match fuel with
  | O => acc
  | S f => let acc' := String (digit_char (n mod 10)) acc in
           if (n <? 10)%N then acc' else dec_fuel f (n / 10)%N acc'
  end.

Definition dec (n : N) : string := dec_fuel (S (N.to_nat (N.log2 n))) n "".

Definition dec_Z (z : Z) : string :=
  match z with
  | Z0 => "0"
  | Zpos p => dec (Npos p)
  | Zneg p => String "-" (dec (Npos p))
  end.

(* left padding with zeros to width 3: '%03d' *)
Definition pad3 (n : N) : string :=
  if (n <? 10)%N then "00" ++ dec n else if (n <? 100)%N then "0" ++ dec n else dec n.

Fixpoint lstrip (s : string) : string :=
  match s with
  | String " " r => lstrip r
  | _ => s
  end.

Definition starts_with_char (c : ascii) (s : string) : bool :=
  match s with String d _ => Ascii.eqb c d | EmptyString => false end.

Lemma take_until_app c s t :
  contains_char c s = false -> take_until c (s ++ String c t) = s.
Proof.
  induction s as [|d r IH]; simpl; intros H.
  - rewrite Ascii.eqb_refl. reflexivity.
  - apply orb_false_iff in H. destruct H as [H1 H2]. rewrite H1, IH; auto.
Qed.

Lemma take_until_none c s : contains_char c s = false -> take_until c s = s.
Proof.
  induction s as [|d r IH]; simpl; intros H; [reflexivity|].
  apply orb_false_iff in H. destruct H as [H1 H2]. rewrite H1, IH; auto.
Qed.
