(* One definition, two readings: numeric models are written over an abstract
   scalar record and instantiated at R (theorems) and at binary64 (execution). *)
From Coq Require Import ZArith List Bool Reals Lra.
From Coq Require Import PrimFloat.
From Coq Require Uint63.
Import ListNotations.

Record Scalar (T : Type) := mkScalar {
  s0 : T; s1 : T;
  sadd : T -> T -> T; ssub : T -> T -> T; smul : T -> T -> T; sdiv : T -> T -> T;
  sneg : T -> T; sabs : T -> T; ssqrt : T -> T;
  satan : T -> T; scos : T -> T; ssin : T -> T; spi : T;
  sltb : T -> T -> bool; sleb : T -> T -> bool; seqb : T -> T -> bool;
  sofZ : Z -> T
}.
Arguments s0 {T}. Arguments s1 {T}. Arguments sadd {T}. Arguments ssub {T}.
Arguments smul {T}. Arguments sdiv {T}. Arguments sneg {T}. Arguments sabs {T}.
Arguments ssqrt {T}. Arguments satan {T}. Arguments scos {T}. Arguments ssin {T}.
Arguments spi {T}. Arguments sltb {T}. Arguments sleb {T}. Arguments seqb {T}.
Arguments sofZ {T}.

(* ---------- reals ---------- *)
Definition Rltb (x y : R) : bool := if Rlt_dec x y then true else false.
Definition Rleb (x y : R) : bool := if Rle_dec x y then true else false.
Definition Reqb (x y : R) : bool := if Req_EM_T x y then true else false.

Lemma Rltb_true x y : Rltb x y = true <-> (x < y)%R.
Proof. unfold Rltb; destruct (Rlt_dec x y); split; intros; try assumption; try reflexivity; try discriminate; contradiction. Qed.
Lemma Rltb_false x y : Rltb x y = false <-> (y <= x)%R.
Proof. unfold Rltb; destruct (Rlt_dec x y); split; intros; try discriminate; try reflexivity; try lra. Qed.
Lemma Rleb_true x y : Rleb x y = true <-> (x <= y)%R.
Proof. unfold Rleb; destruct (Rle_dec x y); split; intros; try assumption; try reflexivity; try discriminate; contradiction. Qed.
Lemma Rleb_false x y : Rleb x y = false <-> (y < x)%R.
Proof. unfold Rleb; destruct (Rle_dec x y); split; intros; try discriminate; try reflexivity; try lra. Qed.
Lemma Reqb_true x y : Reqb x y = true <-> x = y.
Proof. unfold Reqb; destruct (Req_EM_T x y); split; intros; try assumption; try reflexivity; try discriminate; contradiction. Qed.
Lemma Reqb_false x y : Reqb x y = false <-> x <> y.
Proof. unfold Reqb; destruct (Req_EM_T x y); split; intros; try assumption; try reflexivity; try discriminate; contradiction. Qed.

Definition RS : Scalar R := {|
  s0 := 0%R; s1 := 1%R;
  sadd := Rplus; ssub := Rminus; smul := Rmult; sdiv := Rdiv;
  sneg := Ropp; sabs := Rabs; ssqrt := R_sqrt.sqrt;
  satan := atan; scos := cos; ssin := sin; spi := PI;
  sltb := Rltb; sleb := Rleb; seqb := Reqb;
  sofZ := IZR |}.

(* ---------- binary64 ---------- *)
Open Scope float_scope.

Definition f_pi : float := 0x1.921fb54442d18p+1.
Definition f_halfpi : float := 0x1.921fb54442d18p+0.
Definition f_sixthpi : float := 0x1.0c152382d7366p-1.
Definition f_sqrt3 : float := 0x1.bb67ae8584caap+0.

(* sum_{k<n} (-1)^k x^(2k+1)/(2k+1), Horner from the top *)
Fixpoint atan_series (n : nat) (k : float) (x2 : float) : float :=
  match n with
  | O => 0
  | S m => 1 / k - x2 * atan_series m (k + 2) x2
  end.

Definition atan_small (x : float) : float := x * atan_series 24 1 (x * x).

Definition atan_pos (x : float) : float :=
  (* x >= 0 *)
  let red (y : float) : float :=
    if 0x1.126145e9ecd56p-2 <? y   (* tan(pi/12) *)
    then f_sixthpi + atan_small ((f_sqrt3 * y - 1) / (f_sqrt3 + y))
    else atan_small y in
  if 1 <? x then f_halfpi - red (1 / x) else red x.

Definition f_atan (x : float) : float :=
  if x <? 0 then - atan_pos (- x) else atan_pos x.

(* Taylor polynomials on [-pi/4, pi/4] *)
Fixpoint cos_series (n : nat) (k : float) (x2 : float) : float :=
  (* 1 - x2/(k(k+1)) * (1 - x2/((k+2)(k+3)) * ...) *)
  match n with
  | O => 1
  | S m => 1 - x2 / (k * (k + 1)) * cos_series m (k + 2) x2
  end.
Definition cos_small (x : float) : float := cos_series 14 1 (x * x).
Definition sin_small (x : float) : float := x * cos_series 14 2 (x * x).

(* nearest integer to x, as a float, for moderate |x| *)
Definition f_round (x : float) : float :=
  let magic := 0x1.8p+52 in (x + magic) - magic.

Definition quadrant (k : float) : Z :=
  (* k is integer-valued and moderate *)
  let k4 := k - 4 * f_round (k / 4 - 0.375) in
  if k4 <? 0.5 then 0%Z else if k4 <? 1.5 then 1%Z else if k4 <? 2.5 then 2%Z else 3%Z.

Definition f_cos (x : float) : float :=
  let k := f_round (x / f_halfpi) in
  let r := (x - k * 0x1.921fb54442d18p+0) - k * 0x1.1a62633145c07p-54 in
  match quadrant k with
  | 0%Z => cos_small r
  | 1%Z => - sin_small r
  | 2%Z => - cos_small r
  | _ => sin_small r
  end.

Definition f_sin (x : float) : float :=
  let k := f_round (x / f_halfpi) in
  let r := (x - k * 0x1.921fb54442d18p+0) - k * 0x1.1a62633145c07p-54 in
  match quadrant k with
  | 0%Z => sin_small r
  | 1%Z => cos_small r
  | 2%Z => - sin_small r
  | _ => - cos_small r
  end.

Definition f_ofZ (z : Z) : float :=
  match z with
  | Z0 => 0
  | Zpos p => PrimFloat.of_uint63 (Uint63.of_Z (Zpos p))
  | Zneg p => - PrimFloat.of_uint63 (Uint63.of_Z (Zpos p))
  end.

Definition FS : Scalar float := {|
  s0 := 0; s1 := 1;
  sadd := PrimFloat.add; ssub := PrimFloat.sub; smul := PrimFloat.mul; sdiv := PrimFloat.div;
  sneg := PrimFloat.opp; sabs := PrimFloat.abs; ssqrt := PrimFloat.sqrt;
  satan := f_atan; scos := f_cos; ssin := f_sin; spi := f_pi;
  sltb := PrimFloat.ltb; sleb := PrimFloat.leb; seqb := PrimFloat.eqb;
  sofZ := f_ofZ |}.

(* tolerant comparison used only by the correspondence files *)
Definition f_close (tol a b : float) : bool :=
  let m := if abs a <? abs b then abs b else abs a in
  let m := if m <? 1 then 1 else m in
  (abs (a - b) <=? tol * m) || (a =? b).

Definition f_close9 : float -> float -> bool := f_close 0x1.12e0be826d695p-30. (* 1e-9 *)
