(* Helpers used by the generated correspondence files (coq/generated/*.v). *)
From Coq Require Import List NArith ZArith Bool String Ascii.
Import ListNotations.

Fixpoint bad_from {A : Type} (f : A -> bool) (l : list A) (i : N) : list N :=
  match l with
  | [] => []
  | x :: r => if f x then bad_from f r (N.succ i) else i :: bad_from f r (N.succ i)
  end.

(* indices (from 0) of the cases on which [f] answers false *)
Definition bad_indices {A : Type} (f : A -> bool) (l : list A) : list N := bad_from f l 0%N.

Lemma bad_indices_nil_all {A} (f : A -> bool) l i :
  bad_from f l i = [] -> forallb f l = true.
Proof.
  revert i; induction l as [|x r IH]; intros i H; simpl in *; [reflexivity|].
  destruct (f x); [apply (IH _ H)|discriminate].
Qed.

(* generic boolean equalities used to compare model output with expected output *)
Fixpoint list_eqb {A} (e : A -> A -> bool) (a b : list A) : bool :=
  match a, b with
  | [], [] => true
  | x :: a', y :: b' => e x y && list_eqb e a' b'
  | _, _ => false
  end.

Definition option_eqb {A} (e : A -> A -> bool) (a b : option A) : bool :=
  match a, b with
  | Some x, Some y => e x y
  | None, None => true
  | _, _ => false
  end.

Definition pair_eqb {A B} (ea : A -> A -> bool) (eb : B -> B -> bool) (a b : A * B) : bool :=
  ea (fst a) (fst b) && eb (snd a) (snd b).
