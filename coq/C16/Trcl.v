(* C16 — proofs about cells with TRCL: the copies that pot_transform adds to
   the surface dictionary, and the main statements for [run_t]. *)
From Coq Require Import List NArith ZArith Bool String Ascii Lia.
From T4V Require Import Base.Str C16.Model C16.Proofs.
Import ListNotations.
Open Scope string_scope.

(* ---- small list facts --------------------------------------------------- *)

Lemma nodup_app {A} (a b : list A) :
  NoDup a -> NoDup b -> (forall x, In x a -> ~ In x b) -> NoDup (a ++ b).
Proof.
  induction a as [|x r IH]; intros Ha Hb Hd; cbn; [assumption|].
  inversion Ha as [|? ? Hn Hr]; subst. constructor.
  - intros Hin. apply in_app_or in Hin. destruct Hin as [Hin|Hin]; [contradiction|].
    apply (Hd x); [left; reflexivity|assumption].
  - apply IH; [assumption|assumption|]. intros y Hy. apply Hd. right. assumption.
Qed.

Lemma dict_get_app {V} k (v : V) (a b : list (N * V)) :
  dict_get k a = Some v -> dict_get k (a ++ b) = Some v.
Proof.
  induction a as [|[k' v'] r IH]; cbn; [discriminate|].
  destruct (N.eqb k k'); [auto|]. apply IH.
Qed.

Lemma max_key_le {V} (d : list (N * V)) k v : In (k, v) d -> (k <= max_key d)%N.
Proof.
  induction d as [|[k' v'] r IH]; intros H; [destruct H|]. cbn.
  destruct H as [H|H]; [inversion H; subst; lia|]. specialize (IH H). lia.
Qed.

(* ---- the copies ---------------------------------------------------------- *)

(* [e'] carries the flag and the part count of an entry of [t] *)
Definition inherits (t : table) (e' : entry) : Prop :=
  exists k e, In (k, e) t /\ e_flag e' = e_flag e /\ e_mcnp e' = e_mcnp e.

Lemma inherits_self (t : table) k e : In (k, e) t -> inherits t e.
Proof. intros H. exists k, e. auto. Qed.

Lemma trcl_lits_ext ls : forall t key zs t' key',
  trcl_lits ls t key = Ok (zs, t', key') ->
  exists ext, t' = (t ++ ext)%list /\ (key <= key')%N /\
    (forall k e, In (k, e) ext -> (key < k <= key')%N) /\
    NoDup (map fst ext) /\
    (forall k e, In (k, e) ext -> inherits t e).
Proof.
  induction ls as [|l r IH]; intros t key zs t' key' H; cbn in H.
  - inversion H; subst. exists []. rewrite app_nil_r. split; [reflexivity|]. split; [lia|].
    split; [intros k e []|]. split; [constructor|intros k e []].
  - destruct (dict_get (Z.abs_N (l_z l)) t) as [e0|] eqn:Eg; [|discriminate].
    set (x := (N.succ key, mkE (e_flag e0) (e_mcnp e0) (l_cls l) (l_aux l))) in *.
    destruct (trcl_lits r (t ++ [x])%list (N.succ key)) as [[[zs0 t0] key0]|] eqn:Er; [|discriminate].
    inversion H; subst zs t0 key0. clear H.
    destruct (IH _ _ _ _ _ Er) as [ext [Ht [Hk [Hr [Hnd Hinh]]]]].
    exists (x :: ext). split; [rewrite Ht, <- app_assoc; reflexivity|].
    split; [lia|]. split; [|split].
    + intros k e [Hx|Hx]; [unfold x in Hx; inversion Hx; subst; lia|].
      specialize (Hr k e Hx). lia.
    + cbn. constructor; [|assumption]. intros Hin. apply in_map_iff in Hin.
      destruct Hin as [[k e] [Hk' Hx]]. cbn in Hk'. subst k. specialize (Hr _ _ Hx). lia.
    + assert (Hx0 : inherits t (snd x)).
      { exists (Z.abs_N (l_z l)), e0. split; [apply dict_get_In; assumption|]. cbn. auto. }
      intros k e [Hx|Hx];
        [assert (e = snd x) as -> by (rewrite Hx; reflexivity); exact Hx0|].
      destruct (Hinh k e Hx) as [k1 [e1 [Hin1 [Hf1 Hm1]]]].
      apply in_app_or in Hin1. destruct Hin1 as [Hin1|[Hin1|[]]].
      * exists k1, e1. auto.
      * assert (He1 : e1 = snd x) by (rewrite Hin1; reflexivity). rewrite He1 in Hf1, Hm1.
        destruct Hx0 as [k2 [e2 [H2 [Hf2 Hm2]]]].
        exists k2, e2. split; [assumption|]. split; congruence.
Qed.

Lemma apply_trcls_ext cs : forall t key cells t',
  apply_trcls cs t key = Ok (cells, t') ->
  exists ext, t' = (t ++ ext)%list /\
    (forall k e, In (k, e) ext -> (key < k)%N) /\
    NoDup (map fst ext) /\
    (forall k e, In (k, e) ext -> inherits t e).
Proof.
  induction cs as [|c r IH]; intros t key cells t' H; cbn in H.
  - inversion H; subst. exists []. rewrite app_nil_r. split; [reflexivity|].
    split; [intros k e []|]. split; [constructor|intros k e []].
  - destruct (tc_trcl c).
    + destruct (trcl_lits (tc_lits c) t key) as [[[zs t1] key1]|] eqn:El; [|discriminate].
      destruct (apply_trcls r t1 key1) as [[cells0 t2]|] eqn:Ea; [|discriminate].
      inversion H; subst cells t2. clear H.
      destruct (trcl_lits_ext _ _ _ _ _ _ El) as [e1 [Ht1 [Hk1 [Hr1 [Hn1 Hi1]]]]].
      destruct (IH _ _ _ _ Ea) as [e2 [Ht2 [Hr2 [Hn2 Hi2]]]].
      exists (e1 ++ e2)%list. split; [rewrite Ht2, Ht1, <- app_assoc; reflexivity|].
      split; [|split].
      * intros k e Hin. apply in_app_or in Hin. destruct Hin as [Hin|Hin].
        -- specialize (Hr1 _ _ Hin). lia.
        -- specialize (Hr2 _ _ Hin). lia.
      * rewrite map_app. apply nodup_app; [assumption|assumption|].
        intros k Ha Hb. apply in_map_iff in Ha. destruct Ha as [[k1 x1] [Hk Ha]].
        apply in_map_iff in Hb. destruct Hb as [[k2 x2] [Hk' Hb]]. cbn in Hk, Hk'. subst k1 k2.
        specialize (Hr1 _ _ Ha). specialize (Hr2 _ _ Hb). lia.
      * intros k e Hin. apply in_app_or in Hin. destruct Hin as [Hin|Hin]; [eauto|].
        destruct (Hi2 k e Hin) as [k3 [e3 [Hin3 [Hf3 Hm3]]]]. rewrite Ht1 in Hin3.
        apply in_app_or in Hin3. destruct Hin3 as [Hin3|Hin3].
        -- exists k3, e3. auto.
        -- destruct (Hi1 k3 e3 Hin3) as [k4 [e4 [Hin4 [Hf4 Hm4]]]].
           exists k4, e4. split; [assumption|]. split; congruence.
    + destruct (apply_trcls r t key) as [[cells0 t2]|] eqn:Ea; [|discriminate].
      inversion H; subst cells t2. clear H. eapply IH. exact Ea.
Qed.

(* the expanded dictionary: the parsed one followed by the copies, all keys
   distinct, every copy carrying the flag of a parsed card *)
Theorem expanded_table t cells t' cs :
  NoDup (map fst t) ->
  apply_trcls cs t (N.succ (max_key t)) = Ok (cells, t') ->
  NoDup (map fst t') /\
  (forall k e, In (k, e) t -> In (k, e) t') /\
  (forall k e, In (k, e) t' -> inherits t e).
Proof.
  intros Hnd H. destruct (apply_trcls_ext _ _ _ _ _ H) as [ext [Ht [Hr [Hn Hi]]]].
  subst t'. split; [|split].
  - rewrite map_app. apply nodup_app; [assumption|assumption|].
    intros k Ha Hb. apply in_map_iff in Ha. destruct Ha as [[k1 x1] [Hk Ha]].
    apply in_map_iff in Hb. destruct Hb as [[k2 x2] [Hk' Hb]]. cbn in Hk, Hk'. subst k1 k2.
    pose proof (max_key_le _ _ _ Ha). specialize (Hr _ _ Hb). lia.
  - intros k e Hin. apply in_or_app. left. assumption.
  - intros k e Hin. apply in_app_or in Hin. destruct Hin as [Hin|Hin]; [|eauto].
    eapply inherits_self; eauto.
Qed.

(* each literal of a cell with TRCL becomes the fresh key of a copy that
   carries the flag of the surface it names and the transformed descriptor *)
Lemma trcl_lits_lit ls : forall t key zs t' key' l,
  trcl_lits ls t key = Ok (zs, t', key') -> In l ls ->
  exists e k', dict_get (Z.abs_N (l_z l)) t' = Some e /\
    In (k', mkE (e_flag e) (e_mcnp e) (l_cls l) (l_aux l)) t' /\
    In (sign_key (l_z l) k') zs /\ (key < k')%N.
Proof.
  induction ls as [|l0 r IH]; intros t key zs t' key' l H Hin; [destruct Hin|]. cbn in H.
  destruct (dict_get (Z.abs_N (l_z l0)) t) as [e0|] eqn:Eg; [|discriminate].
  set (x := (N.succ key, mkE (e_flag e0) (e_mcnp e0) (l_cls l0) (l_aux l0))) in *.
  destruct (trcl_lits r (t ++ [x])%list (N.succ key)) as [[[zs0 t0] key0]|] eqn:Er; [|discriminate].
  inversion H; subst zs t0 key0. clear H.
  destruct (trcl_lits_ext _ _ _ _ _ _ Er) as [ext [Ht _]].
  destruct Hin as [->|Hin].
  - exists e0, (N.succ key). split; [|split; [|split]].
    + rewrite Ht, <- app_assoc. apply dict_get_app. assumption.
    + rewrite Ht. apply in_or_app. left. apply in_or_app. right. left. reflexivity.
    + left. reflexivity.
    + lia.
  - destruct (IH _ _ _ _ _ l Er Hin) as [e [k' [H1 [H2 [H3 H4]]]]].
    exists e, k'. split; [assumption|]. split; [assumption|]. split; [right; assumption|lia].
Qed.

(* ---- the statements for a deck whose cells may carry TRCL ---------------- *)

Lemma run_t_unfold cfg cards tcells out :
  run_t cfg cards tcells = Ok out ->
  exists t cells t', parse_cards cards [] = Ok t /\
    apply_trcls tcells t (N.succ (max_key t)) = Ok (cells, t') /\
    finish cfg t' (converted cells) = Ok out.
Proof.
  unfold run_t. destruct (parse_cards cards []) as [t|] eqn:Ep; [|discriminate].
  destruct t as [|x r]; [discriminate|].
  destruct (apply_trcls tcells (x :: r) (N.succ (max_key (x :: r)))) as [[cells t']|] eqn:Ea;
    [|discriminate].
  intros H. exists (x :: r), cells, t'. auto.
Qed.

(* the main statement with TRCL: for every entry of the expanded dictionary
   (a parsed card or a copy made for a cell with TRCL) *)
Theorem bc_designates_present_same_locus_trcl cfg cards tcells t cells t' surfs bcs k e :
  skip_bc cfg = false ->
  parse_cards cards [] = Ok t ->
  apply_trcls tcells t (N.succ (max_key t)) = Ok (cells, t') ->
  run_t cfg cards tcells = Ok (surfs, bcs) ->
  In (k, e) t' -> (e_flag e = "*" \/ e_flag e = "+") ->
  (exists c, In c (converted cells) /\
             survives (negb (skip_dedup cfg)) (number_items t') c /\ bounds c k) ->
  (skip_dedup cfg = true \/ smallest_dup (number_items t') k) ->
  In (kind_of (e_flag e), k) bcs /\ In (k, e_first e) surfs.
Proof.
  intros Hs Hp Ha Hrun Hin Hf Hc Hg.
  destruct (run_t_unfold _ _ _ _ Hrun) as [t0 [cells0 [t0' [Hp0 [Ha0 Hfin]]]]].
  rewrite Hp in Hp0. inversion Hp0; subst t0. rewrite Ha in Ha0. inversion Ha0; subst cells0 t0'.
  pose proof (parsed_keys_distinct _ _ Hp) as Hnd.
  destruct (expanded_table _ _ _ _ Hnd Ha) as [Hnd' _].
  eapply finish_designates; eauto.
Qed.

(* no flagged card: no entry, whatever the cells and their TRCL *)
Theorem unflagged_deck_no_entries cfg cards tcells surfs bcs :
  (forall t k e, parse_cards cards [] = Ok t -> In (k, e) t -> e_flag e = "") ->
  run_t cfg cards tcells = Ok (surfs, bcs) -> bcs = [].
Proof.
  intros Hun Hrun.
  destruct (run_t_unfold _ _ _ _ Hrun) as [t [cells [t' [Hp [Ha Hfin]]]]].
  pose proof (parsed_keys_distinct _ _ Hp) as Hnd.
  destruct (expanded_table _ _ _ _ Hnd Ha) as [_ [_ Hinh]].
  assert (Hall : forall k e, In (k, e) t' -> e_flag e = "").
  { intros k e Hin. destruct (Hinh k e Hin) as [k0 [e0 [Hin0 [Hf _]]]].
    rewrite Hf. eapply Hun; eauto. }
  assert (Hbc : bc_entries t' = Ok []).
  { rewrite bc_entries_exact.
    - f_equal. clear - Hall. induction t' as [|[k e] r IH]; [reflexivity|]. cbn.
      unfold entry_of at 1. cbn [fst snd]. rewrite (Hall k e (or_introl eq_refl)). cbn.
      apply IH. intros k' e' Hin. eapply Hall. right. exact Hin.
    - intros k e Hin. rewrite (Hall k e Hin). split; [left; reflexivity|congruence]. }
  unfold finish in Hfin.
  destruct (geometry (negb (skip_dedup cfg)) t' (converted cells)); [|discriminate].
  destruct (skip_bc cfg); [inversion Hfin; reflexivity|].
  rewrite Hbc in Hfin. inversion Hfin. reflexivity.
Qed.

(* a flagged macrobody stops the run, with TRCL cells too *)
Theorem macrobody_flag_stops_run_t cfg cards tcells t k e :
  skip_bc cfg = false -> parse_cards cards [] = Ok t ->
  In (k, e) t -> e_flag e <> "" -> (1 < e_mcnp e)%nat ->
  exists err, run_t cfg cards tcells = Err err.
Proof.
  intros Hs Hp Hin Hf Hm. unfold run_t. rewrite Hp.
  destruct t as [|x r]; [destruct Hin|].
  destruct (apply_trcls tcells (x :: r) (N.succ (max_key (x :: r)))) as [[cells t']|] eqn:Ea;
    [|eauto].
  destruct (apply_trcls_ext _ _ _ _ _ Ea) as [ext [Ht _]].
  eapply macrobody_flag_stops_finish; eauto. rewrite Ht. apply in_or_app. left. exact Hin.
Qed.

(* a literal of a converted cell with TRCL naming a flagged surface: the copy
   has its own entry of the flag's kind, and (under the guard, for the copy)
   is a written SURF with the transformed descriptor *)
Theorem trcl_copy_has_entry cfg cards tcells surfs bcs c l :
  skip_bc cfg = false ->
  run_t cfg cards tcells = Ok (surfs, bcs) ->
  In c tcells -> tc_trcl c = true -> In l (tc_lits c) ->
  exists t' e k',
    dict_get (Z.abs_N (l_z l)) t' = Some e /\
    In (k', mkE (e_flag e) (e_mcnp e) (l_cls l) (l_aux l)) t' /\
    ((e_flag e = "*" \/ e_flag e = "+") -> In (kind_of (e_flag e), k') bcs).
Proof.
  intros Hs Hrun Hc Htr Hl.
  destruct (run_t_unfold _ _ _ _ Hrun) as [t [cells [t' [Hp [Ha Hfin]]]]].
  assert (Hcopy : exists e k', dict_get (Z.abs_N (l_z l)) t' = Some e /\
            In (k', mkE (e_flag e) (e_mcnp e) (l_cls l) (l_aux l)) t').
  { clear Hfin Hp Hrun. remember (N.succ (max_key t)) as key eqn:Hk. clear Hk.
    revert key t cells t' Ha.
    induction tcells as [|c0 r IH]; intros key t cells t' Ha; [destruct Hc|]. cbn in Ha.
    destruct Hc as [->|Hc].
    - rewrite Htr in Ha.
      destruct (trcl_lits (tc_lits c) t key) as [[[zs t1] key1]|] eqn:El; [|discriminate].
      destruct (apply_trcls r t1 key1) as [[cells0 t2]|] eqn:Ea; [|discriminate].
      inversion Ha; subst cells t2.
      destruct (trcl_lits_lit _ _ _ _ _ _ l El Hl) as [e [k' [H1 [H2 _]]]].
      destruct (apply_trcls_ext _ _ _ _ _ Ea) as [ext [Ht _]]. subst t'.
      exists e, k'. split; [apply dict_get_app; assumption|apply in_or_app; left; assumption].
    - destruct (tc_trcl c0).
      + destruct (trcl_lits (tc_lits c0) t key) as [[[zs t1] key1]|] eqn:El; [|discriminate].
        destruct (apply_trcls r t1 key1) as [[cells0 t2]|] eqn:Ea; [|discriminate].
        inversion Ha; subst cells t2. eapply IH; eauto.
      + destruct (apply_trcls r t key) as [[cells0 t2]|] eqn:Ea; [|discriminate].
        inversion Ha; subst cells t2. eapply IH; eauto. }
  destruct Hcopy as [e [k' [H1 H2]]]. exists t', e, k'. split; [assumption|]. split; [assumption|].
  intros Hf. unfold finish in Hfin.
  destruct (geometry (negb (skip_dedup cfg)) t' (converted cells)); [|discriminate].
  rewrite Hs in Hfin. destruct (bc_entries t') as [bcs'|] eqn:Ebc; [|discriminate].
  inversion Hfin; subst.
  destruct (bc_kind t' bcs k' _ Ebc H2) as [Hstar [Hplus _]]. cbn [e_flag] in *.
  destruct Hf as [Hf|Hf]; rewrite Hf; cbn; auto.
Qed.

(* ---- the statement is false without the guard, TRCL witnesses ------------ *)

(* *2 PX 0 (class 7) used only by a cell with TRCL=(1 0 0) (copy: class 8):
   entries for 2 and for the copy 6, SURF 6 but no SURF 2, with and without
   de-duplication: one flagged surface that bounds a converted cell yields two
   entries, one of them for a surface that is not written *)
Definition w_trcl_cards : list scard :=
  [mkS "1" 1 5 []; mkS "4" 1 9 []; mkS "*2" 1 7 []].
Definition w_trcl_cells : list tcell :=
  [mkC 1 true true [mkL (-1) 15 []; mkL 2 8 []; mkL (-4) 9 []]].

Theorem bc_trcl_original_refuted :
  forall sd, exists surfs,
    run_t (mkCfg sd false) w_trcl_cards w_trcl_cells =
      Ok (surfs, [(Reflection, 2%N); (Reflection, 7%N)]) /\
    In (7%N, 8%N) surfs /\ ~ In 2%N (map fst surfs).
Proof.
  intros [].
  - exists [(6, 15); (7, 8); (8, 9)]%N. split; [vm_compute; reflexivity|].
    split; [right; left; reflexivity|]. cbn. intros [H|[H|[H|[]]]]; discriminate.
  - exists [(4, 9); (6, 15); (7, 8)]%N. split; [vm_compute; reflexivity|].
    split; [right; right; left; reflexivity|]. cbn. intros [H|[H|[H|[]]]]; discriminate.
Qed.

(* *2 PX 0 used by a cell with TRCL=(0 0 0) (the copy has the class of the
   original) and by a plain cell, de-duplication on: the copy 7 is renamed to 2
   yet keeps its entry *)
Definition w_copy_cards : list scard :=
  [mkS "1" 1 5 []; mkS "4" 1 9 []; mkS "*2" 1 7 []].
Definition w_copy_cells : list tcell :=
  [mkC 1 true true [mkL (-1) 5 []; mkL 2 7 []; mkL (-4) 9 []];
   mkC 3 true false [mkL (-1) 0 []; mkL (-2) 0 []]].

Theorem bc_trcl_copy_dedup_refuted :
  exists surfs bcs,
    run_t (mkCfg false false) w_copy_cards w_copy_cells = Ok (surfs, bcs) /\
    In (Reflection, 7%N) bcs /\ ~ In 7%N (map fst surfs) /\
    In (Reflection, 2%N) bcs /\ In (2%N, 7%N) surfs.
Proof.
  exists [(1, 5); (2, 7); (4, 9)]%N, [(Reflection, 2%N); (Reflection, 7%N)].
  split; [vm_compute; reflexivity|].
  split; [right; left; reflexivity|].
  split; [cbn; intros [H|[H|[H|[]]]]; discriminate|].
  split; [left; reflexivity|right; left; reflexivity].
Qed.

(* ---- decks without TRCL -------------------------------------------------- *)

(* a converted cell card without TRCL *)
Definition plain (c : cell) : tcell :=
  mkC (fst c) true false (map (fun z => mkL z 0 []) (snd c)).

Lemma apply_trcls_plain cells : forall t key,
  apply_trcls (map plain cells) t key = Ok (map (fun c => (true, c)) cells, t).
Proof.
  induction cells as [|[i zs] r IH]; intros t key; cbn; [reflexivity|].
  rewrite IH. rewrite map_map. cbn. rewrite map_id. reflexivity.
Qed.

Lemma converted_plain cells : converted (map (fun c => (true, c)) cells) = cells.
Proof.
  unfold converted. induction cells as [|c r IH]; cbn; [reflexivity|]. f_equal. exact IH.
Qed.

(* [run] is [run_t] on decks whose cells are all converted and carry no TRCL *)
Theorem run_t_plain cfg cards cells :
  run_t cfg cards (map plain cells) = run cfg cards cells.
Proof.
  unfold run_t, run. destruct (parse_cards cards []) as [t|]; [|reflexivity].
  destruct t as [|x r]; [reflexivity|].
  rewrite apply_trcls_plain, converted_plain. reflexivity.
Qed.

(* ---- what the block never does (no guard) -------------------------------- *)

(* every entry comes from a flagged entry of the dictionary *)
Lemma bc_entry_key t l kd k :
  bc_entries t = Ok l -> In (kd, k) l -> exists e, In (k, e) t /\ e_flag e <> "".
Proof.
  unfold bc_entries. intros H Hin. destruct (recuperate t) as [l0|] eqn:Er; [|discriminate].
  assert (Hk : In k (map snd l)) by (apply in_map_iff; exists (kd, k); auto).
  rewrite (conv_kinds_keys _ _ _ H), (recuperate_keys _ _ Er) in Hk.
  apply in_map_iff in Hk. destruct Hk as [[k' e] [Hk Hf]]. cbn in Hk. subst k'.
  apply filter_In in Hf. destruct Hf as [Hin' Hfl]. exists e. split; [assumption|].
  cbn in Hfl. unfold flagged in Hfl. intros Hc. rewrite Hc in Hfl. discriminate.
Qed.

Lemma count_one_unique k l : forall a b,
  count_key k l = 1%nat -> In (a, k) l -> In (b, k) l -> a = b.
Proof.
  unfold count_key. induction l as [|[kd k'] r IH]; intros a b Hc Ha Hb; [destruct Ha|].
  cbn in Hc. destruct (N.eqb k' k) eqn:E.
  - cbn in Hc. assert (Hz : List.length (filter (fun x => N.eqb (snd x) k) r) = 0%nat) by lia.
    assert (Hno : forall x, In (x, k) r -> False).
    { intros x Hx. assert (Hf : In (x, k) (filter (fun y => N.eqb (snd y) k) r)).
      { apply filter_In. split; [assumption|]. cbn. apply N.eqb_refl. }
      destruct (filter (fun y => N.eqb (snd y) k) r); [destruct Hf|discriminate]. }
    destruct Ha as [Ha|Ha]; [|exfalso; eapply Hno; eauto].
    destruct Hb as [Hb|Hb]; [|exfalso; eapply Hno; eauto].
    congruence.
  - destruct Ha as [Ha|Ha]; [inversion Ha; subst; rewrite N.eqb_refl in E; discriminate|].
    destruct Hb as [Hb|Hb]; [inversion Hb; subst; rewrite N.eqb_refl in E; discriminate|].
    eapply IH; eauto.
Qed.

(* ... and has the kind of that entry's flag *)
Theorem bc_entry_sound t l kd k :
  NoDup (map fst t) -> bc_entries t = Ok l -> In (kd, k) l ->
  exists e, In (k, e) t /\ e_flag e <> "" /\
    (e_flag e = "*" -> kd = Reflection) /\ (e_flag e = "+" -> kd = Cosinus).
Proof.
  intros Hnd H Hin. destruct (bc_entry_key _ _ _ _ H Hin) as [e [He Hf]].
  exists e. split; [assumption|]. split; [assumption|].
  pose proof (bc_one_per_flag t l k e Hnd H He) as Hc.
  destruct (String.eqb (e_flag e) "") eqn:E0; [apply String.eqb_eq in E0; contradiction|].
  destruct (bc_kind t l k e H He) as [Hs [Hp _]].
  split; intros Hfl.
  - eapply count_one_unique; eauto.
  - eapply count_one_unique; eauto.
Qed.

(* an entry never designates a written surface of another locus: when the
   designated number is a SURF line at all, that line carries the descriptor
   of the flagged surface (or copy) the entry was made for *)
Lemma finish_never_other_locus cfg t cells surfs bcs kd k d :
  NoDup (map fst t) -> finish cfg t cells = Ok (surfs, bcs) ->
  In (kd, k) bcs -> In (k, d) surfs ->
  exists e, In (k, e) t /\ d = e_first e /\ e_flag e <> "" /\
    (e_flag e = "*" -> kd = Reflection) /\ (e_flag e = "+" -> kd = Cosinus).
Proof.
  intros Hnd Hfin Hb Hs. unfold finish in Hfin.
  destruct (geometry (negb (skip_dedup cfg)) t cells) as [surfs'|] eqn:Egeo; [|discriminate].
  destruct (skip_bc cfg).
  - inversion Hfin; subst. destruct Hb.
  - destruct (bc_entries t) as [bcs'|] eqn:Ebc; [|discriminate]. inversion Hfin; subst surfs' bcs'.
    destruct (bc_entry_sound t bcs kd k Hnd Ebc Hb) as [e [He [Hf [H1 H2]]]].
    exists e. split; [assumption|]. split; [|auto].
    destruct (proj1 (written_surfaces_exact _ _ _ _ k d Egeo) Hs) as [Hd _].
    rewrite (number_items_get t k e Hnd He) in Hd. inversion Hd. reflexivity.
Qed.

Theorem bc_never_other_locus cfg cards tcells t cells t' surfs bcs kd k d :
  parse_cards cards [] = Ok t ->
  apply_trcls tcells t (N.succ (max_key t)) = Ok (cells, t') ->
  run_t cfg cards tcells = Ok (surfs, bcs) ->
  In (kd, k) bcs -> In (k, d) surfs ->
  exists e, In (k, e) t' /\ d = e_first e /\ inherits t e /\ e_flag e <> "" /\
    (e_flag e = "*" -> kd = Reflection) /\ (e_flag e = "+" -> kd = Cosinus).
Proof.
  intros Hp Ha Hrun Hb Hs.
  destruct (run_t_unfold _ _ _ _ Hrun) as [t0 [cells0 [t0' [Hp0 [Ha0 Hfin]]]]].
  rewrite Hp in Hp0. inversion Hp0; subst t0. rewrite Ha in Ha0. inversion Ha0; subst cells0 t0'.
  pose proof (parsed_keys_distinct _ _ Hp) as Hnd.
  destruct (expanded_table _ _ _ _ Hnd Ha) as [Hnd' [_ Hinh]].
  destruct (finish_never_other_locus _ _ _ _ _ _ _ _ Hnd' Hfin Hb Hs) as [e [He [Hd [Hf Hk]]]].
  exists e. split; [assumption|]. split; [assumption|]. split; [eauto|]. split; assumption.
Qed.

(* the whole block of a deck with MCNP's flags only and no flagged macrobody:
   the flagged cards in card order, then the copies of flagged surfaces in
   cell and literal order *)
Lemma proper_expanded t cells t' cs :
  NoDup (map fst t) -> proper t ->
  apply_trcls cs t (N.succ (max_key t)) = Ok (cells, t') -> proper t'.
Proof.
  intros Hnd Hp Ha k e Hin.
  destruct (expanded_table _ _ _ _ Hnd Ha) as [_ [_ Hinh]].
  destruct (Hinh k e Hin) as [k0 [e0 [Hin0 [Hf Hm]]]]. rewrite Hf, Hm. eapply Hp; eauto.
Qed.

Theorem run_t_block_exact cfg cards tcells t cells t' surfs bcs :
  skip_bc cfg = false ->
  parse_cards cards [] = Ok t -> proper t ->
  apply_trcls tcells t (N.succ (max_key t)) = Ok (cells, t') ->
  run_t cfg cards tcells = Ok (surfs, bcs) ->
  bcs = flat_map entry_of t'.
Proof.
  intros Hs Hp Hpr Ha Hrun.
  destruct (run_t_unfold _ _ _ _ Hrun) as [t0 [cells0 [t0' [Hp0 [Ha0 Hfin]]]]].
  rewrite Hp in Hp0. inversion Hp0; subst t0. rewrite Ha in Ha0. inversion Ha0; subst cells0 t0'.
  pose proof (parsed_keys_distinct _ _ Hp) as Hnd.
  pose proof (proper_expanded _ _ _ _ Hnd Hpr Ha) as Hpr'.
  unfold finish in Hfin.
  destruct (geometry (negb (skip_dedup cfg)) t' (converted cells)); [|discriminate].
  rewrite Hs, (bc_entries_exact t' Hpr') in Hfin. inversion Hfin. reflexivity.
Qed.
