(* C16 — proofs about cells with TRCL: the copies that pot_transform adds to
   the surface dictionary, and the main statements for [run_t]. *)
From Coq Require Import List NArith ZArith Bool String Ascii Lia.
From T4V Require Import Base.Str C16.Model C16.Proofs.
Import ListNotations.
Open Scope string_scope.

(* ---- small list facts --------------------------------------------------- *)

Lemma dict_get_app {V} k (v : V) (a b : list (N * V)) :
  dict_get k a = Some v -> dict_get k (a ++ b) = Some v.
Proof.
  induction a as [|[k' v'] r IH]; cbn; [discriminate|].
  destruct (N.eqb k k'); [auto|]. apply IH.
Qed.

Lemma max_key_le {V} (d : list (N * V)) k v : In (k, v) d -> (k <= max_key d)%N.
Proof.
  induction d as [|[k' v'] r IH]; intros H; [destruct H|]. cbn.
  destruct H as [H|H]; [inversion H; subst; lia|]. specialize (IH H). lia.
Qed.

(* ---- the copies ---------------------------------------------------------- *)

(* [e'] carries the flag and the part count of an entry of [t] *)
Definition inherits (t : table) (e' : entry) : Prop :=
  exists k e, In (k, e) t /\ e_flag e' = e_flag e /\ e_mcnp e' = e_mcnp e.

Lemma inherits_self (t : table) k e : In (k, e) t -> inherits t e.
Proof. intros H. exists k, e. auto. Qed.

Lemma trcl_lits_ext ls : forall t key zs t' key',
  trcl_lits ls t key = Ok (zs, t', key') ->
  exists ext, t' = (t ++ ext)%list /\ (key <= key')%N /\
    (forall k e, In (k, e) ext -> (key < k <= key')%N) /\
    NoDup (map fst ext) /\
    (forall k e, In (k, e) ext -> inherits t e).
Proof.
  induction ls as [|l r IH]; intros t key zs t' key' H; cbn in H.
  - inversion H; subst. exists []. rewrite app_nil_r. split; [reflexivity|]. split; [lia|].
    split; [intros k e []|]. split; [constructor|intros k e []].
  - destruct (dict_get (Z.abs_N (l_z l)) t) as [e0|] eqn:Eg; [|discriminate].
    set (x := (N.succ key, mkE (e_flag e0) (e_mcnp e0) (l_cls l) (l_aux l) (l_sides l))) in *.
    destruct (trcl_lits r (t ++ [x])%list (N.succ key)) as [[[zs0 t0] key0]|] eqn:Er; [|discriminate].
    inversion H; subst zs t0 key0. clear H.
    destruct (IH _ _ _ _ _ Er) as [ext [Ht [Hk [Hr [Hnd Hinh]]]]].
    exists (x :: ext). split; [rewrite Ht, <- app_assoc; reflexivity|].
    split; [lia|]. split; [|split].
    + intros k e [Hx|Hx]; [unfold x in Hx; inversion Hx; subst; lia|].
      specialize (Hr k e Hx). lia.
    + cbn. constructor; [|assumption]. intros Hin. apply in_map_iff in Hin.
      destruct Hin as [[k e] [Hk' Hx]]. cbn in Hk'. subst k. specialize (Hr _ _ Hx). lia.
    + assert (Hx0 : inherits t (snd x)).
      { exists (Z.abs_N (l_z l)), e0. split; [apply dict_get_In; assumption|]. cbn. auto. }
      intros k e [Hx|Hx];
        [assert (e = snd x) as -> by (rewrite Hx; reflexivity); exact Hx0|].
      destruct (Hinh k e Hx) as [k1 [e1 [Hin1 [Hf1 Hm1]]]].
      apply in_app_or in Hin1. destruct Hin1 as [Hin1|[Hin1|[]]].
      * exists k1, e1. auto.
      * assert (He1 : e1 = snd x) by (rewrite Hin1; reflexivity). rewrite He1 in Hf1, Hm1.
        destruct Hx0 as [k2 [e2 [H2 [Hf2 Hm2]]]].
        exists k2, e2. split; [assumption|]. split; congruence.
Qed.

Lemma apply_trcls_ext cs : forall t key cells t',
  apply_trcls cs t key = Ok (cells, t') ->
  exists ext, t' = (t ++ ext)%list /\
    (forall k e, In (k, e) ext -> (key < k)%N) /\
    NoDup (map fst ext) /\
    (forall k e, In (k, e) ext -> inherits t e).
Proof.
  induction cs as [|c r IH]; intros t key cells t' H; cbn in H.
  - inversion H; subst. exists []. rewrite app_nil_r. split; [reflexivity|].
    split; [intros k e []|]. split; [constructor|intros k e []].
  - destruct (tc_trcl c).
    + destruct (trcl_lits (tc_lits c) t key) as [[[zs t1] key1]|] eqn:El; [|discriminate].
      destruct (apply_trcls r t1 key1) as [[cells0 t2]|] eqn:Ea; [|discriminate].
      inversion H; subst cells t2. clear H.
      destruct (trcl_lits_ext _ _ _ _ _ _ El) as [e1 [Ht1 [Hk1 [Hr1 [Hn1 Hi1]]]]].
      destruct (IH _ _ _ _ Ea) as [e2 [Ht2 [Hr2 [Hn2 Hi2]]]].
      exists (e1 ++ e2)%list. split; [rewrite Ht2, Ht1, <- app_assoc; reflexivity|].
      split; [|split].
      * intros k e Hin. apply in_app_or in Hin. destruct Hin as [Hin|Hin].
        -- specialize (Hr1 _ _ Hin). lia.
        -- specialize (Hr2 _ _ Hin). lia.
      * rewrite map_app. apply nodup_app; [assumption|assumption|].
        intros k Ha Hb. apply in_map_iff in Ha. destruct Ha as [[k1 x1] [Hk Ha]].
        apply in_map_iff in Hb. destruct Hb as [[k2 x2] [Hk' Hb]]. cbn in Hk, Hk'. subst k1 k2.
        specialize (Hr1 _ _ Ha). specialize (Hr2 _ _ Hb). lia.
      * intros k e Hin. apply in_app_or in Hin. destruct Hin as [Hin|Hin]; [eauto|].
        destruct (Hi2 k e Hin) as [k3 [e3 [Hin3 [Hf3 Hm3]]]]. rewrite Ht1 in Hin3.
        apply in_app_or in Hin3. destruct Hin3 as [Hin3|Hin3].
        -- exists k3, e3. auto.
        -- destruct (Hi1 k3 e3 Hin3) as [k4 [e4 [Hin4 [Hf4 Hm4]]]].
           exists k4, e4. split; [assumption|]. split; congruence.
    + destruct (apply_trcls r t key) as [[cells0 t2]|] eqn:Ea; [|discriminate].
      inversion H; subst cells t2. clear H. eapply IH. exact Ea.
Qed.

Lemma apply_trcls_table t cells t' cs :
  NoDup (map fst t) ->
  apply_trcls cs t (N.succ (max_key t)) = Ok (cells, t') ->
  NoDup (map fst t') /\
  (forall k e, In (k, e) t -> In (k, e) t') /\
  (forall k e, In (k, e) t' -> inherits t e).
Proof.
  intros Hnd H. destruct (apply_trcls_ext _ _ _ _ _ H) as [ext [Ht [Hr [Hn Hi]]]].
  subst t'. split; [|split].
  - rewrite map_app. apply nodup_app; [assumption|assumption|].
    intros k Ha Hb. apply in_map_iff in Ha. destruct Ha as [[k1 x1] [Hk Ha]].
    apply in_map_iff in Hb. destruct Hb as [[k2 x2] [Hk' Hb]]. cbn in Hk, Hk'. subst k1 k2.
    pose proof (max_key_le _ _ _ Ha). specialize (Hr _ _ Hb). lia.
  - intros k e Hin. apply in_or_app. left. assumption.
  - intros k e Hin. apply in_app_or in Hin. destruct Hin as [Hin|Hin]; [|eauto].
    eapply inherits_self; eauto.
Qed.

(* the implicit surfaces 1000 * cell + surface *)
Lemma dict_get_none_notin {V} k (d : list (N * V)) : dict_get k d = None -> ~ In k (map fst d).
Proof.
  induction d as [|[k' v] r IH]; cbn; [intros _ []|].
  destruct (N.eqb k k') eqn:E; [discriminate|]. intros H [Hc|Hc].
  - subst. rewrite N.eqb_refl in E. discriminate.
  - apply IH; assumption.
Qed.

Lemma implicit_pass_ext cs ids : forall t t1,
  implicit_pass cs ids t = Ok t1 -> NoDup (map fst t) ->
  exists ext, t1 = (t ++ ext)%list /\ NoDup (map fst t1) /\
    (forall k e, In (k, e) ext -> inherits t e).
Proof.
  induction ids as [|n r IH]; intros t t1 H Hnd; cbn in H.
  - inversion H; subst. exists []. rewrite app_nil_r. split; [reflexivity|].
    split; [assumption|intros k e []].
  - destruct (N.ltb n 1000); [eapply IH; eauto|].
    destruct (dict_get n t) as [x|] eqn:En; [eapply IH; eauto|].
    destruct (find_cell (N.div n 1000) cs) as [c|]; [|discriminate].
    destruct (dict_get (N.modulo n 1000) t) as [e0|] eqn:Es; [|discriminate].
    assert (exists e1, e_flag e1 = e_flag e0 /\ e_mcnp e1 = e_mcnp e0 /\
                       implicit_pass cs r (t ++ [(n, e1)])%list = Ok t1) as [e1 [Hf0 [Hm0 H']]].
    { destruct (negb (tc_trcl c)); [exists e0; auto|].
      destruct (dict_get (N.modulo n 1000) (tc_impl c)) as [d|]; [|discriminate].
      eexists. split; [|split; [|exact H]]; reflexivity. }
    clear H. rename H' into H.
    set (x := (n, e1)) in *.
    assert (Hnd' : NoDup (map fst (t ++ [x]))).
    { rewrite map_app. apply nodup_app; [assumption|cbn; constructor; [intros []|constructor]|].
      intros y Hy [Hx|[]]. cbn in Hx. subst y. apply (dict_get_none_notin _ _ En). assumption. }
    destruct (IH _ _ H Hnd') as [ext [Ht [Hn Hi]]].
    exists (x :: ext). split; [rewrite Ht, <- app_assoc; reflexivity|]. split; [assumption|].
    assert (Hx0 : inherits t (snd x)).
    { exists (N.modulo n 1000), e0. split; [apply dict_get_In; assumption|]. cbn. auto. }
    intros k e [Hx|Hx]; [assert (e = snd x) as -> by (rewrite Hx; reflexivity); exact Hx0|].
    destruct (Hi k e Hx) as [k1 [e2 [Hin1 [Hf1 Hm1]]]].
    apply in_app_or in Hin1. destruct Hin1 as [Hin1|[Hin1|[]]].
    + exists k1, e2. auto.
    + assert (He1 : e2 = snd x) by (rewrite Hin1; reflexivity). rewrite He1 in Hf1, Hm1.
      destruct Hx0 as [k2 [e3 [H2 [Hf2 Hm2]]]]. exists k2, e3. split; [assumption|].
      split; congruence.
Qed.

(* [ids]: the order in which the set of implicit surfaces is walked.  Nothing
   below depends on it: every statement holds for any list *)
Section Walk.
Variable ids : list N.

Lemma expand_table_unfold cs t cells t' :
  expand_table_with ids cs t = Ok (cells, t') ->
  exists t1, implicit_pass cs ids t = Ok t1 /\
    apply_trcls cs t1 (N.succ (max_key t1)) = Ok (cells, t').
Proof.
  unfold expand_table_with. destruct (implicit_pass cs ids t) as [t1|]; [|discriminate].
  destruct t1 as [|x r]; [discriminate|]. intros H. exists (x :: r). auto.
Qed.

(* the expanded dictionary: the parsed one followed by the implicit surfaces
   and the copies, all keys distinct, every addition carrying the flag (and
   part count) of a parsed card *)
Theorem expanded_table t cells t' cs :
  NoDup (map fst t) ->
  expand_table_with ids cs t = Ok (cells, t') ->
  NoDup (map fst t') /\
  (forall k e, In (k, e) t -> In (k, e) t') /\
  (forall k e, In (k, e) t' -> inherits t e).
Proof.
  intros Hnd H. destruct (expand_table_unfold _ _ _ _ H) as [t1 [Hi Ha]].
  destruct (implicit_pass_ext _ _ _ _ Hi Hnd) as [ext [Ht1 [Hnd1 Hinh1]]].
  destruct (apply_trcls_table _ _ _ _ Hnd1 Ha) as [Hnd' [Hsub Hinh]].
  split; [assumption|]. split.
  - intros k e Hin. apply Hsub. rewrite Ht1. apply in_or_app. left. assumption.
  - intros k e Hin. destruct (Hinh k e Hin) as [k1 [e1 [Hin1 [Hf Hm]]]].
    rewrite Ht1 in Hin1. apply in_app_or in Hin1. destruct Hin1 as [Hin1|Hin1].
    + exists k1, e1. auto.
    + destruct (Hinh1 k1 e1 Hin1) as [k2 [e2 [Hin2 [Hf2 Hm2]]]].
      exists k2, e2. split; [assumption|]. split; congruence.
Qed.

(* each literal of a cell with TRCL becomes the fresh key of a copy that
   carries the flag of the surface it names and the transformed descriptor *)
Lemma trcl_lits_lit ls : forall t key zs t' key' l,
  trcl_lits ls t key = Ok (zs, t', key') -> In l ls ->
  exists e k', dict_get (Z.abs_N (l_z l)) t' = Some e /\
    In (k', mkE (e_flag e) (e_mcnp e) (l_cls l) (l_aux l) (l_sides l)) t' /\
    In (sign_key (l_z l) k') zs /\ (key < k')%N.
Proof.
  induction ls as [|l0 r IH]; intros t key zs t' key' l H Hin; [destruct Hin|]. cbn in H.
  destruct (dict_get (Z.abs_N (l_z l0)) t) as [e0|] eqn:Eg; [|discriminate].
  set (x := (N.succ key, mkE (e_flag e0) (e_mcnp e0) (l_cls l0) (l_aux l0) (l_sides l0))) in *.
  destruct (trcl_lits r (t ++ [x])%list (N.succ key)) as [[[zs0 t0] key0]|] eqn:Er; [|discriminate].
  inversion H; subst zs t0 key0. clear H.
  destruct (trcl_lits_ext _ _ _ _ _ _ Er) as [ext [Ht _]].
  destruct Hin as [->|Hin].
  - exists e0, (N.succ key). split; [|split; [|split]].
    + rewrite Ht, <- app_assoc. apply dict_get_app. assumption.
    + rewrite Ht. apply in_or_app. left. apply in_or_app. right. left. reflexivity.
    + left. reflexivity.
    + lia.
  - destruct (IH _ _ _ _ _ l Er Hin) as [e [k' [H1 [H2 [H3 H4]]]]].
    exists e, k'. split; [assumption|]. split; [assumption|]. split; [right; assumption|lia].
Qed.

(* ---- the statements for a deck whose cells may carry TRCL ---------------- *)

Lemma run_t_unfold cfg cards tcells out :
  run_t_with ids cfg cards tcells = Ok out ->
  exists t cells t', parse_cards cards [] = Ok t /\
    expand_table_with ids tcells t = Ok (cells, t') /\
    finish cfg t' (converted cells) = Ok out.
Proof.
  unfold run_t_with. destruct (parse_cards cards []) as [t|] eqn:Ep; [|discriminate].
  destruct (expand_table_with ids tcells t) as [[cells t']|] eqn:Ea; [|discriminate].
  intros H. exists t, cells, t'. auto.
Qed.

(* the main statement with TRCL, no guard: for every flagged entry of the
   expanded dictionary (a parsed card or the copy made for a literal of a cell
   with TRCL) that bounds a surviving converted cell *)
Theorem bc_designates_present_same_locus_trcl cfg cards tcells t cells t' surfs bcs k e :
  skip_bc cfg = false ->
  parse_cards cards [] = Ok t ->
  expand_table_with ids tcells t = Ok (cells, t') ->
  run_t_with ids cfg cards tcells = Ok (surfs, bcs) ->
  In (k, e) t' -> (e_flag e = "*" \/ e_flag e = "+") ->
  (exists c, In c (converted cells) /\
             survives (negb (skip_dedup cfg)) (number_items t') (matching_of t') c /\
             names c k) ->
  let k' := rep (negb (skip_dedup cfg)) (number_items t') k in
  In (kind_of (e_flag e), k') bcs /\ count_key k' bcs = 1%nat /\ In (k', e_first e) surfs.
Proof.
  intros Hs Hp Ha Hrun Hin Hf Hc.
  destruct (run_t_unfold _ _ _ _ Hrun) as [t0 [cells0 [t0' [Hp0 [Ha0 Hfin]]]]].
  rewrite Hp in Hp0. inversion Hp0; subst t0. rewrite Ha in Ha0. inversion Ha0; subst cells0 t0'.
  pose proof (parsed_keys_distinct _ _ Hp) as Hnd.
  destruct (expanded_table _ _ _ _ Hnd Ha) as [Hnd' _].
  eapply finish_designates; eauto.
Qed.

(* every entry written designates a written SURF carrying the descriptor of a
   flagged surface (card or copy, whose flag is that of a parsed card) of the
   entry's kind; no two entries designate the same SURF *)
Theorem bc_entries_designate_written_trcl cfg cards tcells t cells t' surfs bcs :
  skip_bc cfg = false ->
  parse_cards cards [] = Ok t ->
  expand_table_with ids tcells t = Ok (cells, t') ->
  run_t_with ids cfg cards tcells = Ok (surfs, bcs) ->
  NoDup (map snd bcs) /\
  forall kd k', In (kd, k') bcs ->
    exists k e, In (k, e) t' /\ inherits t e /\ e_flag e <> "" /\
      (e_flag e = "*" -> kd = Reflection) /\ (e_flag e = "+" -> kd = Cosinus) /\
      rep (negb (skip_dedup cfg)) (number_items t') k = k' /\ In (k', e_first e) surfs.
Proof.
  intros Hs Hp Ha Hrun.
  destruct (run_t_unfold _ _ _ _ Hrun) as [t0 [cells0 [t0' [Hp0 [Ha0 Hfin]]]]].
  rewrite Hp in Hp0. inversion Hp0; subst t0. rewrite Ha in Ha0. inversion Ha0; subst cells0 t0'.
  pose proof (parsed_keys_distinct _ _ Hp) as Hnd.
  destruct (expanded_table _ _ _ _ Hnd Ha) as [Hnd' [_ Hinh]].
  destruct (finish_sound _ _ _ _ _ Hs Hnd' Hfin) as [Hn Hall]. split; [assumption|].
  intros kd k' Hin. destruct (Hall kd k' Hin) as [k [e [He [Hf [H1 [H2 [Hr Hsf]]]]]]].
  exists k, e. split; [assumption|]. split; [eauto|]. auto.
Qed.

(* every designated number is a surface number of the expanded dictionary;
   the auxiliary sub-surfaces (numbered above all of them) carry no entry *)
Theorem bc_designates_keys_trcl cfg cards tcells t cells t' surfs bcs kd k' :
  skip_bc cfg = false ->
  parse_cards cards [] = Ok t ->
  expand_table_with ids tcells t = Ok (cells, t') ->
  run_t_with ids cfg cards tcells = Ok (surfs, bcs) -> In (kd, k') bcs ->
  In k' (map fst t') /\ (k' <= max_key t')%N.
Proof.
  intros Hs Hp Ha Hrun Hin.
  destruct (run_t_unfold _ _ _ _ Hrun) as [t0 [cells0 [t0' [Hp0 [Ha0 Hfin]]]]].
  rewrite Hp in Hp0. inversion Hp0; subst t0. rewrite Ha in Ha0. inversion Ha0; subst cells0 t0'.
  pose proof (parsed_keys_distinct _ _ Hp) as Hnd.
  destruct (expanded_table _ _ _ _ Hnd Ha) as [Hnd' _].
  eapply finish_designates_keys; eauto.
Qed.

(* no flagged card: no entry, whatever the cells and their TRCL *)
Theorem unflagged_deck_no_entries cfg cards tcells surfs bcs :
  (forall t k e, parse_cards cards [] = Ok t -> In (k, e) t -> e_flag e = "") ->
  run_t_with ids cfg cards tcells = Ok (surfs, bcs) -> bcs = [].
Proof.
  intros Hun Hrun.
  destruct (run_t_unfold _ _ _ _ Hrun) as [t [cells [t' [Hp [Ha Hfin]]]]].
  pose proof (parsed_keys_distinct _ _ Hp) as Hnd.
  destruct (expanded_table _ _ _ _ Hnd Ha) as [_ [_ Hinh]].
  assert (Hall : forall k e, In (k, e) t' -> e_flag e = "").
  { intros k e Hin. destruct (Hinh k e Hin) as [k0 [e0 [Hin0 [Hf _]]]].
    rewrite Hf. eapply Hun; eauto. }
  assert (Hbc : bc_entries t' = Ok []).
  { rewrite bc_entries_exact.
    - f_equal. clear - Hall. induction t' as [|[k e] r IH]; [reflexivity|]. cbn.
      unfold entry_of at 1. cbn [fst snd]. rewrite (Hall k e (or_introl eq_refl)). cbn.
      apply IH. intros k' e' Hin. eapply Hall. right. exact Hin.
    - intros k e Hin. rewrite (Hall k e Hin). split; [left; reflexivity|congruence]. }
  unfold finish in Hfin. cbv zeta in Hfin.
  destruct (geometry (negb (skip_dedup cfg)) t' (converted cells)); [|discriminate].
  destruct (skip_bc cfg); [inversion Hfin; reflexivity|].
  rewrite Hbc in Hfin. cbn in Hfin. inversion Hfin. reflexivity.
Qed.

(* a flagged macrobody stops the run, with TRCL cells too *)
Theorem macrobody_flag_stops_run_t cfg cards tcells t k e :
  skip_bc cfg = false -> parse_cards cards [] = Ok t ->
  In (k, e) t -> e_flag e <> "" -> (1 < e_mcnp e)%nat ->
  exists err, run_t_with ids cfg cards tcells = Err err.
Proof.
  intros Hs Hp Hin Hf Hm. unfold run_t_with. rewrite Hp.
  destruct (expand_table_with ids tcells t) as [[cells t']|] eqn:Ea; [|eauto].
  destruct (expanded_table _ _ _ _ (parsed_keys_distinct _ _ Hp) Ea) as [_ [Hsub _]].
  eapply macrobody_flag_stops_finish; eauto.
Qed.

(* coincident surfaces (cards or copies) flagged differently, representative
   written: ValueError *)
Theorem conflicting_flags_rejected_trcl cfg cards tcells t cells t' surfs k1 e1 k2 e2 :
  skip_bc cfg = false ->
  parse_cards cards [] = Ok t -> proper t ->
  expand_table_with ids tcells t = Ok (cells, t') ->
  geometry (negb (skip_dedup cfg)) t' (converted cells) = Ok surfs ->
  In (k1, e1) t' -> e_flag e1 = "*" -> In (k2, e2) t' -> e_flag e2 = "+" ->
  rep (negb (skip_dedup cfg)) (number_items t') k1 =
    rep (negb (skip_dedup cfg)) (number_items t') k2 ->
  In (rep (negb (skip_dedup cfg)) (number_items t') k1) (map fst surfs) ->
  run_t_with ids cfg cards tcells = Err EValue.
Proof.
  intros Hs Hp Hpr Ha Egeo H1 Hf1 H2 Hf2 Hrep Hused.
  pose proof (parsed_keys_distinct _ _ Hp) as Hnd.
  destruct (expanded_table _ _ _ _ Hnd Ha) as [Hnd' [Hsub Hinh]].
  assert (Hpr' : proper t').
  { intros k e Hin. destruct (Hinh k e Hin) as [k0 [e0 [Hin0 [Hf Hm]]]].
    rewrite Hf, Hm. eapply Hpr; eauto. }
  unfold run_t_with. rewrite Hp, Ha.
  eapply (finish_conflict cfg t' (converted cells) surfs k1 e1 k2 e2); assumption.
Qed.

(* every literal of a cell with TRCL gets a copy in the dictionary that
   carries the flag of the surface it names and the transformed descriptor *)
Theorem trcl_copy_in_table cfg cards tcells out c l :
  run_t_with ids cfg cards tcells = Ok out ->
  In c tcells -> tc_trcl c = true -> In l (tc_lits c) ->
  exists t cells t' e k',
    parse_cards cards [] = Ok t /\
    expand_table_with ids tcells t = Ok (cells, t') /\
    dict_get (Z.abs_N (l_z l)) t' = Some e /\
    In (k', mkE (e_flag e) (e_mcnp e) (l_cls l) (l_aux l) (l_sides l)) t'.
Proof.
  intros Hrun Hc Htr Hl.
  destruct (run_t_unfold _ _ _ _ Hrun) as [t [cells [t' [Hp [Ha Hfin]]]]].
  exists t, cells, t'.
  assert (Hcopy : exists e k', dict_get (Z.abs_N (l_z l)) t' = Some e /\
            In (k', mkE (e_flag e) (e_mcnp e) (l_cls l) (l_aux l) (l_sides l)) t').
  { destruct (expand_table_unfold _ _ _ _ Ha) as [t1 [_ Ha1]].
    clear Hfin Hp Hrun Ha. remember (N.succ (max_key t1)) as key eqn:Hk. clear Hk.
    rename Ha1 into Ha. clear t. rename t1 into t.
    revert key t cells t' Ha.
    induction tcells as [|c0 r IH]; intros key t cells t' Ha; [destruct Hc|]. cbn in Ha.
    destruct Hc as [->|Hc].
    - rewrite Htr in Ha.
      destruct (trcl_lits (tc_lits c) t key) as [[[zs t1] key1]|] eqn:El; [|discriminate].
      destruct (apply_trcls r t1 key1) as [[cells0 t2]|] eqn:Ea; [|discriminate].
      inversion Ha; subst cells t2.
      destruct (trcl_lits_lit _ _ _ _ _ _ l El Hl) as [e [k' [H1 [H2 _]]]].
      destruct (apply_trcls_ext _ _ _ _ _ Ea) as [ext [Ht _]]. subst t'.
      exists e, k'. split; [apply dict_get_app; assumption|apply in_or_app; left; assumption].
    - destruct (tc_trcl c0).
      + destruct (trcl_lits (tc_lits c0) t key) as [[[zs t1] key1]|] eqn:El; [|discriminate].
        destruct (apply_trcls r t1 key1) as [[cells0 t2]|] eqn:Ea; [|discriminate].
        inversion Ha; subst cells t2. eapply IH; eauto.
      + destruct (apply_trcls r t key) as [[cells0 t2]|] eqn:Ea; [|discriminate].
        inversion Ha; subst cells t2. eapply IH; eauto. }
  destruct Hcopy as [e [k' [H1 H2]]]. exists e, k'. auto.
Qed.

End Walk.

(* ---- the TRCL decks that failed before the repair ------------------------ *)

(* *2 PX 0 (class 7) used only by a cell with TRCL=(1 0 0) (copy 7: class 8) *)
Definition w_trcl_cards : list scard :=
  [mkS "1" 1 5 [] []; mkS "4" 1 9 [] []; mkS "*2" 1 7 [] []].
Definition w_trcl_cells : list tcell :=
  [mkC 1 true true [mkL (-1) 15 [] []; mkL 2 8 [] []; mkL (-4) 9 [] []] []].

(* *2 PX 0 used by a cell with TRCL=(0 0 0) and by a plain cell *)
Definition w_copy_cards : list scard :=
  [mkS "1" 1 5 [] []; mkS "4" 1 9 [] []; mkS "*2" 1 7 [] []].
Definition w_copy_cells : list tcell :=
  [mkC 1 true true [mkL (-1) 5 [] []; mkL 2 7 [] []; mkL (-4) 9 [] []] [];
   mkC 3 true false [mkL (-1) 0 [] []; mkL (-2) 0 [] []] []].

(* ---- decks without TRCL -------------------------------------------------- *)

(* a converted cell card without TRCL (an intersection of literals), and the
   one-part cell it becomes *)
Definition plain (c : N * list Z) : tcell :=
  mkC (fst c) true false (map (fun z => mkL z 0 [] []) (snd c)) [].
Definition one_part (c : N * list Z) : cell := (fst c, [snd c]).

Lemma apply_trcls_plain cs : forall t key,
  apply_trcls (map plain cs) t key = Ok (map (fun c => (true, one_part c)) cs, t).
Proof.
  induction cs as [|[i zs] r IH]; intros t key; cbn; [reflexivity|].
  rewrite IH. rewrite map_map. cbn. rewrite map_id. reflexivity.
Qed.

Lemma converted_plain cs :
  converted (map (fun c => (true, one_part c)) cs) = map one_part cs.
Proof.
  unfold converted. induction cs as [|c r IH]; cbn; [reflexivity|]. f_equal. exact IH.
Qed.

Lemma implicit_pass_small cs ids : forall t,
  (forall n, In n ids -> (n < 1000)%N) -> implicit_pass cs ids t = Ok t.
Proof.
  induction ids as [|n r IH]; intros t H; cbn; [reflexivity|].
  assert (Hn : N.ltb n 1000 = true) by (apply N.ltb_lt; apply H; left; reflexivity).
  rewrite Hn. apply IH. intros x Hx. apply H. right. assumption.
Qed.

(* [run] is [run_t] on decks whose cells are all converted, carry no TRCL and
   name no surface as 1000 * cell + surface *)
Theorem run_t_plain cfg cards cs :
  (forall c z, In c cs -> In z (snd c) -> (Z.abs_N z < 1000)%N) ->
  run_t cfg cards (map plain cs) = run cfg cards (map one_part cs).
Proof.
  intros Hsmall. unfold run_t, run_t_with, run. destruct (parse_cards cards []) as [t|]; [|reflexivity].
  unfold expand_table_with. rewrite implicit_pass_small.
  - destruct t as [|x r]; [reflexivity|].
    rewrite apply_trcls_plain, converted_plain. reflexivity.
  - intros n Hn. unfold implicit_ids in Hn. apply (proj1 (sort_uniq_in _ _)) in Hn.
    apply in_flat_map in Hn. destruct Hn as [tc [Htc Hn]].
    apply in_map_iff in Htc. destruct Htc as [c [<- Hc]]. cbn in Hn.
    rewrite map_map in Hn. cbn in Hn. apply in_map_iff in Hn. destruct Hn as [z [<- Hz]].
    eapply Hsmall; eauto.
Qed.
