(* C16 — model of the boundary-condition path and of the part of the geometry
   path that decides which SURF numbers are written:
     MIP/mip/surfacecard.py re_surface + MIP/geom/surfaces.py re_name, get_surfaces
                                                   [split_flags, parse_cards, dict_set]
     Kernel/BoundaryCondition/CConversionBoundaryCondition.py
                                                   [recuperate, conv_kinds, bc_entries]
     Kernel/FileHandlers/Writer/WriteT4BoundCond.py [merge_entries: renumbered, used keys]
     Kernel/Surface/CollectionDict.py number_items  [number_items]
     Kernel/Surface/Duplicates.py                   [repr_of, renumber]
     Kernel/Volume/VolumeT4.py empty, ConstructVolumeT4.py remove_empty_volumes,
       extract_used_surfaces; Writer/WriteT4Geometry.py writeT4Geometry
                                                   [survives, used_ids, surf_lines]
   Surfaces are abstract: a card is its first field (flags + digits), the number
   of MCNP sub-surfaces it parses to (1, or the facet count of a macrobody) and
   the descriptor classes of the TRIPOLI-4 sub-surfaces it converts to (two
   SurfaceT4 objects are == exactly when their classes are equal).  Cells are
   intersections of signed surface numbers of single-part surfaces (the scope of
   the tie); each yields one VolumeT4.  A cell may carry a TRCL: each of its
   literals is then replaced by a copy of the surface under a fresh key
   (Kernel/Volume/CellConversion.py pot_transform, Transformation.py
   transformation)             [trcl_lits, apply_trcls, run_t].
   Executable; proofs are in C16/Proofs.v. *)
From Coq Require Import List NArith ZArith Bool String Ascii.
From T4V Require Import Base.Str.
Import ListNotations.
Open Scope string_scope.

(* Python exception classes the path can raise; [EOther] is never produced by
   the model (the harness uses it for any other exception, so that it shows up
   as a disagreement); [EScope] marks an input outside the modelled fragment
   (an implicit surface 1000 * cell + surface whose descriptor is not
   supplied): the theorems about successful runs say nothing there and the
   harness never observes it *)
Inductive err := ENotImplemented | EUnbound | EKey | EValue | EScope | EOther.
Inductive res (A : Type) := Ok (a : A) | Err (e : err).
Arguments Ok {A}. Arguments Err {A}.

Inductive kind := Reflection | Cosinus.

(* ---- surface cards ------------------------------------------------------ *)

Definition is_flag (c : ascii) : bool := Ascii.eqb c "*" || Ascii.eqb c "+".

(* re_name (a greedy run of plus/star characters, then anything): the run of
   flag characters and the rest *)
Fixpoint split_flags (s : string) : string * string :=
  match s with
  | EmptyString => ("", "")
  | String c r =>
      if is_flag c then let (f, n) := split_flags r in (String c f, n) else ("", s)
  end.

Record scard := mkS {
  sc_name : string;      (* first field of the card, e.g. "*12" *)
  sc_mcnp : nat;         (* len(dic_surf_mcnp[k]): 1, or the facets of a macrobody *)
  sc_first : N;          (* descriptor class of the first TRIPOLI-4 sub-surface *)
  sc_aux : list N;       (* classes of the others (cone plane, macrobody facets) *)
  sc_sides : list bool   (* side of each sub-surface in the collection, first one
                            included: true = +1 (the MCNP negative sense is the
                            negative side of the TRIPOLI-4 surface); a missing
                            item counts as true *)
}.

Record entry := mkE { e_flag : string; e_mcnp : nat; e_first : N; e_aux : list N;
                      e_sides : list bool }.
Definition table := list (N * entry).

(* d[k] = v on an insertion-ordered dict: replace in place, else append *)
Fixpoint dict_set {V : Type} (k : N) (v : V) (d : list (N * V)) : list (N * V) :=
  match d with
  | [] => [(k, v)]
  | (k', v') :: r => if N.eqb k k' then (k, v) :: r else (k', v') :: dict_set k v r
  end.

Fixpoint dict_get {V : Type} (k : N) (d : list (N * V)) : option V :=
  match d with
  | [] => None
  | (k', v) :: r => if N.eqb k k' then Some v else dict_get k r
  end.

(* get_surfaces / parseMCNPSurface / convert_mcnp_surfaces: one entry per
   surface number, a later card with the same number overwrites the earlier
   one but keeps its place *)
Fixpoint parse_cards (cards : list scard) (d : table) : res table :=
  match cards with
  | [] => Ok d
  | c :: r =>
      let (f, n) := split_flags (sc_name c) in
      match int_of_string n with
      | None => Err EValue
      | Some k => parse_cards r (dict_set k (mkE f (sc_mcnp c) (sc_first c) (sc_aux c) (sc_sides c)) d)
      end
  end.

(* ---- boundary conditions ------------------------------------------------ *)

(* recuperateBoundaryCondition: flagged keys in dictionary order; a flagged
   entry with more than one MCNP sub-surface raises NotImplementedError *)
Fixpoint recuperate (t : table) : res (list (N * string)) :=
  match t with
  | [] => Ok []
  | (k, e) :: r =>
      if String.eqb (e_flag e) "" then recuperate r
      else if Nat.ltb 1 (e_mcnp e) then Err ENotImplemented
      else match recuperate r with
           | Ok l => Ok ((k, e_flag e) :: l)
           | Err x => Err x
           end
  end.

(* conversionBoundCond: two independent [if]s assign the local p_typeOfBC; a
   flag that is neither "*" nor "+" (e.g. "**") leaves the value of the
   previous iteration, or is an UnboundLocalError on the first one *)
Definition kind_of_flag (f : string) (prev : option kind) : option kind :=
  if String.eqb f "+" then Some Cosinus
  else if String.eqb f "*" then Some Reflection
  else prev.

Fixpoint conv_kinds (l : list (N * string)) (prev : option kind) : res (list (kind * N)) :=
  match l with
  | [] => Ok []
  | (k, f) :: r =>
      match kind_of_flag f prev with
      | None => Err EUnbound
      | Some kd =>
          match conv_kinds r (Some kd) with
          | Ok l' => Ok ((kd, k) :: l')
          | Err e => Err e
          end
      end
  end.

(* conversionBoundCond as a list: (kind, MCNP key) in dictionary order *)
Definition bc_entries (t : table) : res (list (kind * N)) :=
  match recuperate t with
  | Err e => Err e
  | Ok l => conv_kinds l None
  end.

(* ---- which SURF numbers are written ------------------------------------ *)

Definition numbering := list (N * N).      (* T4 surface id, descriptor class *)

Fixpoint max_key {V : Type} (d : list (N * V)) : N :=
  match d with
  | [] => 0%N
  | (k, _) :: r => N.max k (max_key r)
  end.

Fixpoint number_aux (aux : list N) (free : N) : numbering * N :=
  match aux with
  | [] => ([], free)
  | d :: r => let (nb, free') := number_aux r (N.succ free) in ((free, d) :: nb, free')
  end.

(* CollectionDict.number_items: the key keeps the first sub-surface, the others
   get fresh ids above the largest key, in dictionary order *)
Fixpoint number_from (t : table) (free : N) : numbering :=
  match t with
  | [] => []
  | (k, e) :: r =>
      let (nb, free') := number_aux (e_aux e) free in
      ((k, e_first e) :: nb ++ number_from r free')%list
  end.

Definition number_items (t : table) : numbering := number_from t (N.succ (max_key t)).

(* remove_duplicate_surfaces walks sorted(items): the representative of an id
   is the smallest id with an equal descriptor *)
Fixpoint min_with (d : N) (nb : numbering) : option N :=
  match nb with
  | [] => None
  | (k, d') :: r =>
      if N.eqb d d' then
        match min_with d r with
        | Some m => Some (N.min k m)
        | None => Some k
        end
      else min_with d r
  end.

Definition repr_of (dedup : bool) (nb : numbering) (k : N) : option N :=
  match dict_get k nb with
  | None => None                                   (* KeyError *)
  | Some d => if dedup then min_with d nb else Some k
  end.

Fixpoint renumber (dedup : bool) (nb : numbering) (ids : list N) : res (list N) :=
  match ids with
  | [] => Ok []
  | k :: r =>
      match repr_of dedup nb k with
      | None => Err EKey
      | Some k' => match renumber dedup nb r with
                   | Ok l => Ok (k' :: l)
                   | Err e => Err e
                   end
      end
  end.

(* CollectionDict.number_items, second result: key -> signed TRIPOLI-4 ids of
   its sub-surfaces (first_side * key, then side * fresh id) *)
Fixpoint apply_sides (ids : list N) (sides : list bool) : list Z :=
  match ids with
  | [] => []
  | i :: r =>
      let s := match sides with [] => true | s :: _ => s end in
      (if s then Z.of_N i else Z.opp (Z.of_N i)) :: apply_sides r (tl sides)
  end.

Fixpoint matching_from (t : table) (free : N) : list (N * list Z) :=
  match t with
  | [] => []
  | (k, e) :: r =>
      let (nb, free') := number_aux (e_aux e) free in
      (k, apply_sides (k :: map fst nb) (e_sides e)) :: matching_from r free'
  end.

Definition matching_of (t : table) : list (N * list Z) :=
  matching_from t (N.succ (max_key t)).

(* a cell after TRCL / FILL: an intersection of parts, each part an
   intersection of signed surface numbers.  A plain cell has one part; a cell
   made by developing a FILL has two (the filled cell and the element of the
   universe), which become two VolumeT4 joined by INTE *)
Definition cell := (N * list (list Z))%type.

(* pot_expand_surfs on a surface leaf: a single sub-surface keeps its place; a
   negative literal of a collection is the intersection of the opposite
   sub-surfaces (flattened into the enclosing intersection by pot_optimise); a
   positive one is the union of the sub-surfaces: a FICTIVE volume with the
   UNION operator whose own equation holds the first sub-surface and whose
   arguments are FICTIVE volumes holding one of the others each, joined to the
   cell by INTE.  Result: the literals of the cell's own equation, and the
   union groups *)
Definition expand_lit (m : list (N * list Z)) (z : Z) : res (list Z * list (list Z)) :=
  match dict_get (Z.abs_N z) m with
  | None => Err EKey                              (* matching[abs(surface)] *)
  | Some [s] => Ok ([if Z.ltb 0 z then s else Z.opp s], [])
  | Some ids => if Z.ltb 0 z then Ok ([], [ids]) else Ok (map Z.opp ids, [])
  end.

Fixpoint expand_part (m : list (N * list Z)) (zs : list Z) : res (list Z * list (list Z)) :=
  match zs with
  | [] => Ok ([], [])
  | z :: r =>
      match expand_lit m z, expand_part m r with
      | Ok (a, g), Ok (b, h) => Ok ((a ++ b)%list, (g ++ h)%list)
      | Err e, _ => Err e
      | _, Err e => Err e
      end
  end.

Definition pluses_of (zs : list Z) : list N :=
  map Z.to_N (filter (fun z => Z.ltb 0 z) zs).
Definition minuses_of (zs : list Z) : list N :=
  map (fun z => Z.to_N (Z.opp z)) (filter (fun z => Z.ltb z 0) zs).

Definition memN (k : N) (l : list N) : bool := existsb (N.eqb k) l.

(* VolumeT4.empty(): pluses & minuses *)
Definition empty_vol (p m : list N) : bool := existsb (fun k => memN k m) p.

Fixpoint renumber_groups (dedup : bool) (nb : numbering) (gs : list (list Z))
  : res (list (list N)) :=
  match gs with
  | [] => Ok []
  | g :: r =>
      match renumber dedup nb (map Z.abs_N g), renumber_groups dedup nb r with
      | Ok a, Ok b => Ok (a :: b)
      | Err e, _ => Err e
      | _, Err e => Err e
      end
  end.

(* one part of a converted cell: (alive, the surface ids of its volumes, the ids
   that stay behind when it is deleted).  A part whose own equation has the same
   id with both senses is not emitted at all (pot_optimise); one that gets so
   only through de-duplication is deleted by remove_empty_volumes, its UNION
   volumes (nobody mentions them any more) by remove_unused_volumes - but that
   function makes a single pass, so the FICTIVE volumes that were the arguments
   of those UNIONs stay in the file with their surfaces *)
Definition part_ids (dedup : bool) (nb : numbering) (m : list (N * list Z)) (part : list Z)
  : res (bool * list N * list N) :=
  match expand_part m part with
  | Err e => Err e
  | Ok (zs, gs) =>
      if empty_vol (pluses_of zs) (minuses_of zs) then Ok (false, [], [])
      else
      match renumber dedup nb (pluses_of zs), renumber dedup nb (minuses_of zs),
            renumber_groups dedup nb gs with
      | Ok p, Ok mi, Ok gids =>
          let left := List.concat (map (@tl N) gids) in
          if empty_vol p mi then Ok (false, [], left)
          else Ok (true, (p ++ mi ++ List.concat gids)%list, left)
      | Err e, _, _ => Err e
      | _, Err e, _ => Err e
      | _, _, Err e => Err e
      end
  end.

(* the volumes of one converted cell: when one part is deleted the others go
   with it (INTE of a removed volume; a FICTIVE volume nobody uses) *)
Fixpoint parts_ids (dedup : bool) (nb : numbering) (m : list (N * list Z))
    (parts : list (list Z)) : res (bool * list N * list N) :=
  match parts with
  | [] => Ok (true, [], [])
  | p :: r =>
      match part_ids dedup nb m p, parts_ids dedup nb m r with
      | Ok (a, i, o), Ok (a', i', o') => Ok (a && a', (i ++ i')%list, (o ++ o')%list)
      | Err e, _ => Err e
      | _, Err e => Err e
      end
  end.

(* the surface ids of the volumes that remain after renumbering,
   remove_empty_volumes and remove_unused_volumes, cell by cell *)
Fixpoint used_ids (dedup : bool) (nb : numbering) (m : list (N * list Z))
    (cells : list cell) : res (list N) :=
  match cells with
  | [] => Ok []
  | c :: r =>
      match parts_ids dedup nb m (snd c), used_ids dedup nb m r with
      | Ok (a, i, o), Ok u => Ok ((if a then i else o) ++ u)%list
      | Err e, _ => Err e
      | _, Err e => Err e
      end
  end.

(* sorted(set(...)) *)
Fixpoint insert_uniq (k : N) (l : list N) : list N :=
  match l with
  | [] => [k]
  | x :: r => if N.ltb k x then k :: l else if N.eqb k x then l else x :: insert_uniq k r
  end.
Definition sort_uniq (l : list N) : list N := fold_right insert_uniq [] l.

(* the SURF lines: (id, descriptor class), ascending ids *)
Fixpoint surf_lines (nb : numbering) (ids : list N) : res (list (N * N)) :=
  match ids with
  | [] => Ok []
  | k :: r =>
      match dict_get k nb with
      | None => Err EKey
      | Some d => match surf_lines nb r with
                  | Ok l => Ok ((k, d) :: l)
                  | Err e => Err e
                  end
      end
  end.

Definition geometry (dedup : bool) (t : table) (cells : list cell) : res (list (N * N)) :=
  match t with
  | [] => Err EValue                      (* max() of an empty dictionary *)
  | _ =>
      let nb := number_items t in
      match used_ids dedup nb (matching_of t) cells with
      | Err e => Err e
      | Ok [] => Err EValue               (* nothing left: max() of an empty set *)
      | Ok u => surf_lines nb (sort_uniq u)
      end
  end.

(* ---- the run ------------------------------------------------------------ *)

Record config := mkCfg { skip_dedup : bool; skip_bc : bool }.

Definition output := (list (N * N) * list (kind * N))%type.

Definition kind_eqb (a b : kind) : bool :=
  match a, b with
  | Reflection, Reflection | Cosinus, Cosinus => true
  | _, _ => false
  end.

(* d.get(k) on the insertion-ordered dictionary of the entries kept so far *)
Fixpoint kind_lookup (k : N) (l : list (kind * N)) : option kind :=
  match l with
  | [] => None
  | (kd, k') :: r => if N.eqb k k' then Some kd else kind_lookup k r
  end.

(* renumbering.get(k, k), or k itself when de-duplication is skipped *)
Definition rep (dedup : bool) (nb : numbering) (k : N) : N :=
  match repr_of dedup nb k with Some k' => k' | None => k end.

(* writeT4BoundCond (repaired): each flagged key is mapped through the
   de-duplication renumbering; keys whose representative is not a written SURF
   are dropped; the first entry of a representative is kept, a later one of
   another kind is a ValueError *)
Fixpoint merge_entries (dedup : bool) (nb : numbering) (used : list N)
    (l acc : list (kind * N)) : res (list (kind * N)) :=
  match l with
  | [] => Ok acc
  | (kd, k) :: r =>
      let k' := rep dedup nb k in
      if memN k' used then
        match kind_lookup k' acc with
        | None => merge_entries dedup nb used r (acc ++ [(kd, k')])%list
        | Some kd0 =>
            if kind_eqb kd0 kd then merge_entries dedup nb used r acc else Err EValue
        end
      else merge_entries dedup nb used r acc
  end.

(* what happens once the surface dictionary is complete: the geometry is
   written first (its errors win), then the block *)
Definition finish (cfg : config) (t : table) (cells : list cell) : res output :=
  let dedup := negb (skip_dedup cfg) in
  match geometry dedup t cells with
  | Err e => Err e
  | Ok surfs =>
      if skip_bc cfg then Ok (surfs, [])
      else match bc_entries t with
           | Err e => Err e
           | Ok l =>
               match merge_entries dedup (number_items t) (map fst surfs) l [] with
               | Err e => Err e
               | Ok bcs => Ok (surfs, bcs)
               end
           end
  end.

Definition run (cfg : config) (cards : list scard) (cells : list cell) : res output :=
  match parse_cards cards [] with
  | Err e => Err e
  | Ok t => finish cfg t cells
  end.

(* ---- cells with TRCL ---------------------------------------------------- *)

(* CellConversion.pot_transform on a surface leaf: every literal of a cell
   with TRCL gets a copy of its surface under a fresh key (new_surf_key is
   incremented first), appended to dic_surf_mcnp and dic_surf_t4;
   transformation() hands the boundary flag of the original to the copy.  The
   descriptor classes of the transformed copy and the sides of its
   sub-surfaces come with the literal (the auxiliary plane of a one-sheet cone
   is made anew from the transformed cone, so its side may change). *)
Record lit := mkL { l_z : Z; l_cls : N; l_aux : list N; l_sides : list bool }.

(* a cell card: converted or not (importance 0 cells stay in the cell
   dictionary and their TRCL is applied all the same), with TRCL or not *)
(* descriptor of a surface as moved by the TRCL of a cell: classes and sides
   of its sub-surfaces *)
Record desc := mkD { d_cls : N; d_aux : list N; d_sides : list bool }.

Record tcell := mkC { tc_id : N; tc_conv : bool; tc_trcl : bool; tc_lits : list lit;
                      tc_impl : list (N * desc) }.
(* [tc_impl]: for the surface numbers j that some cell names as 1000 * tc_id + j
   (MCNP: surface j as transformed by the TRCL of cell tc_id), the descriptor
   of that transformed surface *)

Definition sign_key (z : Z) (k : N) : Z :=
  if Z.ltb z 0 then Z.opp (Z.of_N k) else Z.of_N k.

Fixpoint trcl_lits (ls : list lit) (t : table) (key : N) : res (list Z * table * N) :=
  match ls with
  | [] => Ok ([], t, key)
  | l :: r =>
      match dict_get (Z.abs_N (l_z l)) t with
      | None => Err EKey                      (* self.dic_surf_mcnp[abs(p_tree)] *)
      | Some e =>
          let k' := N.succ key in
          match trcl_lits r (t ++ [(k', mkE (e_flag e) (e_mcnp e) (l_cls l) (l_aux l) (l_sides l))])%list k' with
          | Ok (zs, t', key') => Ok (sign_key (l_z l) k' :: zs, t', key')
          | Err x => Err x
          end
      end
  end.

(* the TRCL loop of construct_volume_t4, cells in card order; the result keeps
   for each cell whether it is converted *)
Fixpoint apply_trcls (cs : list tcell) (t : table) (key : N)
  : res (list (bool * cell) * table) :=
  match cs with
  | [] => Ok ([], t)
  | c :: r =>
      if tc_trcl c then
        match trcl_lits (tc_lits c) t key with
        | Err x => Err x
        | Ok (zs, t', key') =>
            match apply_trcls r t' key' with
            | Ok (cells, t'') => Ok ((tc_conv c, (tc_id c, [zs])) :: cells, t'')
            | Err x => Err x
            end
        end
      else
        match apply_trcls r t key with
        | Ok (cells, t') => Ok ((tc_conv c, (tc_id c, [map l_z (tc_lits c)])) :: cells, t')
        | Err x => Err x
        end
  end.

(* construct_volume_t4, first loop: a literal n >= 1000 that is not a surface
   card stands for surface n mod 1000 as transformed by the TRCL of cell
   n / 1000; it gets an entry of its own (appended; the boundary flag goes
   with it) before anything else happens.  The loop runs over a Python set:
   the order of the walk is the parameter [ids] (the correspondence feeds the
   order CPython used; no theorem depends on it). *)
Fixpoint find_cell (i : N) (cs : list tcell) : option tcell :=
  match cs with
  | [] => None
  | c :: r => if N.eqb i (tc_id c) then Some c else find_cell i r
  end.

Fixpoint implicit_pass (cs : list tcell) (ids : list N) (t : table) : res table :=
  match ids with
  | [] => Ok t
  | n :: r =>
      if N.ltb n 1000 then implicit_pass cs r t
      else match dict_get n t with
      | Some _ => implicit_pass cs r t            (* a surface card, or done *)
      | None =>
          match find_cell (N.div n 1000) cs with
          | None => Err EKey                      (* mcnp_dict[cell_id] *)
          | Some c =>
              match dict_get (N.modulo n 1000) t with
              | None => Err EKey                  (* dic_surface_mcnp[surf_id] *)
              | Some e =>
                  if negb (tc_trcl c) then        (* no TRCL: an untransformed copy *)
                    implicit_pass cs r (t ++ [(n, e)])%list
                  else match dict_get (N.modulo n 1000) (tc_impl c) with
                  | None => Err EScope            (* no descriptor supplied *)
                  | Some d =>
                      implicit_pass cs r
                        (t ++ [(n, mkE (e_flag e) (e_mcnp e) (d_cls d) (d_aux d)
                                       (d_sides d))])%list
                  end
              end
          end
      end
  end.

Definition implicit_ids (cs : list tcell) : list N :=
  sort_uniq (flat_map (fun c => map (fun l => Z.abs_N (l_z l)) (tc_lits c)) cs).

(* the surface dictionary and the cells once every copy has been made; [ids]
   is the order in which the set of implicit surfaces is walked *)
Definition expand_table_with (ids : list N) (cs : list tcell) (t : table)
  : res (list (bool * cell) * table) :=
  match implicit_pass cs ids t with
  | Err e => Err e
  | Ok [] => Err EValue                  (* max() of an empty dictionary *)
  | Ok t1 => apply_trcls cs t1 (N.succ (max_key t1))
  end.

Definition expand_table (cs : list tcell) (t : table) : res (list (bool * cell) * table) :=
  expand_table_with (implicit_ids cs) cs t.

Definition converted (cells : list (bool * cell)) : list cell :=
  map snd (filter fst cells).

(* free_surf_key = max key + 1 (max() of an empty dictionary is a ValueError) *)
Definition run_t_with (ids : list N) (cfg : config) (cards : list scard) (tcells : list tcell)
  : res output :=
  match parse_cards cards [] with
  | Err e => Err e
  | Ok t =>
      match expand_table_with ids tcells t with
      | Err e => Err e
      | Ok (cells, t') => finish cfg t' (converted cells)
      end
  end.

(* ascending walk *)
Definition run_t (cfg : config) (cards : list scard) (tcells : list tcell) : res output :=
  run_t_with (implicit_ids tcells) cfg cards tcells.
