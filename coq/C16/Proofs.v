(* C16 — proofs about the model of the boundary-condition path. *)
From Coq Require Import List NArith ZArith Bool String Ascii Lia.
From T4V Require Import Base.Str C16.Model.
Import ListNotations.
Open Scope string_scope.

(* ---- re_name ------------------------------------------------------------- *)

Lemma digit_not_flag c : is_digit c = true -> is_flag c = false.
Proof.
  unfold is_digit, is_flag. intros H.
  destruct (Ascii.eqb c "*") eqn:E1.
  - apply Ascii.eqb_eq in E1. subst c. discriminate H.
  - destruct (Ascii.eqb c "+") eqn:E2; [|reflexivity].
    apply Ascii.eqb_eq in E2. subst c. discriminate H.
Qed.

Lemma split_flags_digits n : n <> "" -> all_digits n = true -> split_flags n = ("", n).
Proof.
  destruct n as [|c r]; [congruence|]. intros _ H. cbn in H.
  apply andb_true_iff in H. destruct H as [Hc _].
  cbn. rewrite (digit_not_flag c Hc). reflexivity.
Qed.

Lemma split_flags_star n : n <> "" -> all_digits n = true ->
  split_flags (String "*" n) = ("*", n).
Proof. intros H1 H2. cbn. rewrite (split_flags_digits n H1 H2). reflexivity. Qed.

Lemma split_flags_plus n : n <> "" -> all_digits n = true ->
  split_flags (String "+" n) = ("+", n).
Proof. intros H1 H2. cbn. rewrite (split_flags_digits n H1 H2). reflexivity. Qed.

(* ---- the parsed dictionary has distinct keys ---------------------------- *)

Lemma dict_set_keys {V} k (v : V) d x :
  In x (map fst (dict_set k v d)) <-> x = k \/ In x (map fst d).
Proof.
  induction d as [|[k' v'] r IH]; cbn.
  - intuition.
  - destruct (N.eqb k k') eqn:E; cbn.
    + apply N.eqb_eq in E. subst k'. intuition.
    + rewrite IH. intuition.
Qed.

Lemma dict_set_nodup {V} k (v : V) d :
  NoDup (map fst d) -> NoDup (map fst (dict_set k v d)).
Proof.
  induction d as [|[k' v'] r IH]; cbn; intros H.
  - constructor; [intros []|constructor].
  - inversion H as [|? ? Hn Hr]; subst.
    destruct (N.eqb k k') eqn:E; cbn.
    + apply N.eqb_eq in E. subst k'. constructor; assumption.
    + constructor; [|apply IH; assumption].
      intros Hin. apply dict_set_keys in Hin. destruct Hin as [->|Hin].
      * rewrite N.eqb_refl in E. discriminate.
      * contradiction.
Qed.

Lemma parse_cards_nodup cards : forall d t,
  NoDup (map fst d) -> parse_cards cards d = Ok t -> NoDup (map fst t).
Proof.
  induction cards as [|c r IH]; intros d t Hd H; cbn in H.
  - inversion H. subst. assumption.
  - destruct (split_flags (sc_name c)) as [f n].
    destruct (int_of_string n) as [k|]; [|discriminate].
    eapply IH; [|exact H]. apply dict_set_nodup. assumption.
Qed.

Theorem parsed_keys_distinct cards t :
  parse_cards cards [] = Ok t -> NoDup (map fst t).
Proof. apply parse_cards_nodup. constructor. Qed.

(* ---- boundary-condition entries ----------------------------------------- *)

Definition flagged (e : entry) : bool := negb (String.eqb (e_flag e) "").

Lemma recuperate_cons k e r :
  recuperate ((k, e) :: r) =
  if String.eqb (e_flag e) "" then recuperate r
  else if Nat.ltb 1 (e_mcnp e) then Err ENotImplemented
  else match recuperate r with Ok l => Ok ((k, e_flag e) :: l) | Err x => Err x end.
Proof. reflexivity. Qed.

Lemma recuperate_in t l k e :
  recuperate t = Ok l -> In (k, e) t -> e_flag e <> "" -> In (k, e_flag e) l.
Proof.
  revert l. induction t as [|[k' e'] r IH]; intros l H Hin Hf; [destruct Hin|].
  rewrite recuperate_cons in H. destruct (String.eqb (e_flag e') "") eqn:E0.
  - destruct Hin as [Heq|Hin].
    + inversion Heq; subst. apply String.eqb_eq in E0. contradiction.
    + apply IH; assumption.
  - destruct (Nat.ltb 1 (e_mcnp e')); [discriminate|].
    destruct (recuperate r) as [l'|]; [|discriminate]. inversion H; subst.
    destruct Hin as [Heq|Hin].
    + inversion Heq; subst. left. reflexivity.
    + right. apply IH; auto.
Qed.

Lemma recuperate_keys t l :
  recuperate t = Ok l ->
  map fst l = map fst (filter (fun ke => flagged (snd ke)) t).
Proof.
  revert l. induction t as [|[k' e'] r IH]; intros l H.
  - cbn in H. inversion H. reflexivity.
  - rewrite recuperate_cons in H. cbn [filter snd]. unfold flagged at 1.
    destruct (String.eqb (e_flag e') "") eqn:E0; cbn [negb].
    + apply IH. assumption.
    + destruct (Nat.ltb 1 (e_mcnp e')); [discriminate|].
      destruct (recuperate r) as [l'|]; [|discriminate]. inversion H; subst.
      cbn. f_equal. apply IH. reflexivity.
Qed.

Lemma recuperate_macro t k e :
  In (k, e) t -> e_flag e <> "" -> (1 < e_mcnp e)%nat ->
  recuperate t = Err ENotImplemented.
Proof.
  induction t as [|[k' e'] r IH]; intros Hin Hf Hm; [destruct Hin|].
  rewrite recuperate_cons. destruct Hin as [Heq|Hin].
  - inversion Heq; subst.
    destruct (String.eqb (e_flag e) "") eqn:E0.
    + apply String.eqb_eq in E0. contradiction.
    + apply Nat.ltb_lt in Hm. rewrite Hm. reflexivity.
  - specialize (IH Hin Hf Hm).
    destruct (String.eqb (e_flag e') ""); [assumption|].
    destruct (Nat.ltb 1 (e_mcnp e')); [reflexivity|]. rewrite IH. reflexivity.
Qed.

Lemma conv_kinds_keys l : forall prev out,
  conv_kinds l prev = Ok out -> map snd out = map fst l.
Proof.
  induction l as [|[k f] r IH]; intros prev out H; cbn in H.
  - inversion H. reflexivity.
  - destruct (kind_of_flag f prev) as [kd|]; [|discriminate].
    destruct (conv_kinds r (Some kd)) as [l'|] eqn:E; [|discriminate].
    inversion H; subst. cbn. f_equal. eapply IH. exact E.
Qed.

Lemma conv_kinds_star l : forall prev out k,
  conv_kinds l prev = Ok out -> In (k, "*") l -> In (Reflection, k) out.
Proof.
  induction l as [|[k' f] r IH]; intros prev out k H Hin; [destruct Hin|].
  cbn in H. destruct (kind_of_flag f prev) as [kd|] eqn:Ek; [|discriminate].
  destruct (conv_kinds r (Some kd)) as [l'|] eqn:E; [|discriminate].
  inversion H; subst. destruct Hin as [Heq|Hin].
  - inversion Heq; subst. cbn in Ek. inversion Ek. left. reflexivity.
  - right. eapply IH; eauto.
Qed.

Lemma conv_kinds_plus l : forall prev out k,
  conv_kinds l prev = Ok out -> In (k, "+") l -> In (Cosinus, k) out.
Proof.
  induction l as [|[k' f] r IH]; intros prev out k H Hin; [destruct Hin|].
  cbn in H. destruct (kind_of_flag f prev) as [kd|] eqn:Ek; [|discriminate].
  destruct (conv_kinds r (Some kd)) as [l'|] eqn:E; [|discriminate].
  inversion H; subst. destruct Hin as [Heq|Hin].
  - inversion Heq; subst. cbn in Ek. inversion Ek. left. reflexivity.
  - right. eapply IH; eauto.
Qed.

Lemma in_filter_keys (t : table) k :
  NoDup (map fst t) ->
  In k (map fst (filter (fun ke => flagged (snd ke)) t)) ->
  forall e, In (k, e) t -> flagged e = true.
Proof.
  intros Hnd Hin e He. apply in_map_iff in Hin. destruct Hin as [[k' e'] [Hk Hf]].
  cbn in Hk. subst k'. apply filter_In in Hf. destruct Hf as [Hin' Hfl]. cbn in Hfl.
  assert (e' = e); [|subst; assumption].
  clear Hfl. induction t as [|[k0 e0] r IH]; [destruct He|].
  cbn in Hnd. inversion Hnd as [|? ? Hn Hr]; subst.
  destruct He as [He|He]; destruct Hin' as [Hi|Hi].
  - congruence.
  - inversion He; subst. exfalso. apply Hn. apply in_map_iff. exists (k, e'). auto.
  - inversion Hi; subst. exfalso. apply Hn. apply in_map_iff. exists (k, e). auto.
  - apply IH; assumption.
Qed.

Definition kind_of (f : string) : kind := if String.eqb f "+" then Cosinus else Reflection.

(* a star gives REFLECTION, a plus COSINUS, no flag gives nothing *)
Theorem bc_kind t l k e :
  bc_entries t = Ok l -> In (k, e) t ->
  (e_flag e = "*" -> In (Reflection, k) l) /\
  (e_flag e = "+" -> In (Cosinus, k) l) /\
  (NoDup (map fst t) -> e_flag e = "" -> forall kd, ~ In (kd, k) l).
Proof.
  unfold bc_entries. intros H Hin. destruct (recuperate t) as [l0|] eqn:Er; [|discriminate].
  repeat split.
  - intros Hf. eapply conv_kinds_star; [exact H|]. rewrite <- Hf.
    eapply recuperate_in; eauto. rewrite Hf. discriminate.
  - intros Hf. eapply conv_kinds_plus; [exact H|]. rewrite <- Hf.
    eapply recuperate_in; eauto. rewrite Hf. discriminate.
  - intros Hnd Hf kd Hbad.
    assert (Hk : In k (map snd l)) by (apply in_map_iff; exists (kd, k); auto).
    rewrite (conv_kinds_keys _ _ _ H), (recuperate_keys _ _ Er) in Hk.
    pose proof (in_filter_keys t k Hnd Hk e Hin) as Hfl.
    unfold flagged in Hfl. rewrite Hf in Hfl. discriminate.
Qed.

Definition count_key (k : N) (l : list (kind * N)) : nat :=
  List.length (filter (fun x => N.eqb (snd x) k) l).

Lemma count_key_map k l :
  count_key k l = List.length (filter (N.eqb k) (map snd l)).
Proof.
  unfold count_key. induction l as [|[kd k'] r IH]; cbn; [reflexivity|].
  rewrite (N.eqb_sym k' k). destruct (N.eqb k k'); cbn; rewrite IH; reflexivity.
Qed.

Lemma count_nodup k (l : list N) :
  NoDup l -> List.length (filter (N.eqb k) l) = if existsb (N.eqb k) l then 1%nat else 0%nat.
Proof.
  induction l as [|x r IH]; intros H; cbn; [reflexivity|].
  inversion H as [|? ? Hn Hr]; subst. specialize (IH Hr).
  destruct (N.eqb k x) eqn:E; cbn.
  - apply N.eqb_eq in E. subst x. rewrite IH.
    destruct (existsb (N.eqb k) r) eqn:Ex; [|reflexivity].
    apply existsb_exists in Ex. destruct Ex as [y [Hy Hky]].
    apply N.eqb_eq in Hky. subst y. contradiction.
  - exact IH.
Qed.

Lemma nodup_filter_keys (t : table) f :
  NoDup (map fst t) -> NoDup (map fst (filter f t)).
Proof.
  induction t as [|[k e] r IH]; cbn; intros H; [constructor|].
  inversion H as [|? ? Hn Hr]; subst.
  destruct (f (k, e)); cbn; [|apply IH; assumption].
  constructor; [|apply IH; assumption].
  intros Hin. apply Hn. apply in_map_iff in Hin. destruct Hin as [[k' e'] [Hk Hf]].
  cbn in Hk. subst k'. apply filter_In in Hf. apply in_map_iff. exists (k, e'). tauto.
Qed.

(* exactly one entry designates a flagged surface's number, none an unflagged one *)
Theorem bc_one_per_flag t l k e :
  NoDup (map fst t) -> bc_entries t = Ok l -> In (k, e) t ->
  count_key k l = if String.eqb (e_flag e) "" then 0%nat else 1%nat.
Proof.
  unfold bc_entries. intros Hnd H Hin.
  destruct (recuperate t) as [l0|] eqn:Er; [|discriminate].
  rewrite count_key_map, (conv_kinds_keys _ _ _ H), (recuperate_keys _ _ Er).
  rewrite count_nodup by (apply nodup_filter_keys; assumption).
  destruct (existsb (N.eqb k) (map fst (filter (fun ke => flagged (snd ke)) t))) eqn:Ex.
  - apply existsb_exists in Ex. destruct Ex as [y [Hy Hky]]. apply N.eqb_eq in Hky. subst y.
    pose proof (in_filter_keys t k Hnd Hy e Hin) as Hfl. unfold flagged in Hfl.
    destruct (String.eqb (e_flag e) ""); [discriminate|reflexivity].
  - destruct (String.eqb (e_flag e) "") eqn:E0; [reflexivity|]. exfalso.
    assert (Hk : In k (map fst (filter (fun ke => flagged (snd ke)) t))).
    { apply in_map_iff. exists (k, e). split; [reflexivity|]. apply filter_In.
      split; [assumption|]. cbn. unfold flagged. rewrite E0. reflexivity. }
    assert (existsb (N.eqb k) (map fst (filter (fun ke => flagged (snd ke)) t)) = true).
    { apply existsb_exists. exists k. split; [assumption|apply N.eqb_refl]. }
    congruence.
Qed.

(* with flags that are one star or one plus and no flagged macrobody, the block
   is exactly the flagged keys in dictionary order with their kinds *)
Definition entry_of (ke : N * entry) : list (kind * N) :=
  if String.eqb (e_flag (snd ke)) "" then [] else [(kind_of (e_flag (snd ke)), fst ke)].

Definition proper (t : table) : Prop :=
  forall k e, In (k, e) t ->
    (e_flag e = "" \/ e_flag e = "*" \/ e_flag e = "+") /\
    (e_flag e <> "" -> (e_mcnp e <= 1)%nat).

Lemma conv_kinds_proper l : forall prev,
  (forall k f, In (k, f) l -> f = "*" \/ f = "+") ->
  conv_kinds l prev = Ok (map (fun kf => (kind_of (snd kf), fst kf)) l).
Proof.
  induction l as [|[k f] r IH]; intros prev H; cbn; [reflexivity|].
  assert (Hf : f = "*" \/ f = "+") by (eapply H; left; reflexivity).
  assert (Hk : kind_of_flag f prev = Some (kind_of f))
    by (destruct Hf as [->| ->]; reflexivity).
  rewrite Hk, IH; [reflexivity|]. intros k' f' Hin. eapply H. right. exact Hin.
Qed.

Theorem bc_entries_exact t :
  proper t -> bc_entries t = Ok (flat_map entry_of t).
Proof.
  intros Hp. unfold bc_entries.
  assert (Hr : recuperate t = Ok (flat_map (fun ke =>
            if String.eqb (e_flag (snd ke)) "" then [] else [(fst ke, e_flag (snd ke))]) t)).
  { induction t as [|[k e] r IH]; [reflexivity|]. rewrite recuperate_cons. cbn [flat_map fst snd].
    destruct (Hp k e (or_introl eq_refl)) as [_ Hm].
    assert (Hp' : proper r) by (intros k' e' Hin; apply (Hp k' e'); right; assumption).
    rewrite (IH Hp'). destruct (String.eqb (e_flag e) "") eqn:E0; [reflexivity|].
    assert (Hlt : Nat.ltb 1 (e_mcnp e) = false).
    { apply Nat.ltb_ge. apply Hm. intros Hc. rewrite Hc in E0. discriminate. }
    rewrite Hlt. reflexivity. }
  rewrite Hr. rewrite conv_kinds_proper.
  - f_equal. clear Hr. induction t as [|[k e] r IH]; [reflexivity|]. cbn.
    assert (Hp' : proper r) by (intros k' e' Hin; apply (Hp k' e'); right; assumption).
    unfold entry_of at 1. cbn [fst snd].
    destruct (String.eqb (e_flag e) ""); cbn; rewrite IH; auto.
  - intros k f Hin. apply in_flat_map in Hin. destruct Hin as [[k' e'] [Hin Hx]].
    cbn in Hx. destruct (String.eqb (e_flag e') "") eqn:E0; [destruct Hx|].
    destruct Hx as [Hx|[]]. inversion Hx; subst.
    destruct (Hp _ _ Hin) as [[H0|H1] _]; [|exact H1].
    rewrite H0 in E0. discriminate.
Qed.

(* a flag on a (multi-facet) macrobody is a NotImplementedError *)
Theorem macrobody_flag_rejected t k e :
  In (k, e) t -> e_flag e <> "" -> (1 < e_mcnp e)%nat ->
  bc_entries t = Err ENotImplemented.
Proof.
  intros Hin Hf Hm. unfold bc_entries.
  rewrite (recuperate_macro t k e Hin Hf Hm). reflexivity.
Qed.

Lemma macrobody_flag_stops_finish cfg t cells k e :
  skip_bc cfg = false ->
  In (k, e) t -> e_flag e <> "" -> (1 < e_mcnp e)%nat ->
  exists err, finish cfg t cells = Err err.
Proof.
  intros Hs Hin Hf Hm. unfold finish.
  destruct (geometry (negb (skip_dedup cfg)) t cells) as [surfs|x]; [|eauto].
  rewrite Hs, (macrobody_flag_rejected t k e Hin Hf Hm). eauto.
Qed.

Theorem macrobody_flag_stops_run cfg cards cells t k e :
  skip_bc cfg = false -> parse_cards cards [] = Ok t ->
  In (k, e) t -> e_flag e <> "" -> (1 < e_mcnp e)%nat ->
  exists err, run cfg cards cells = Err err.
Proof.
  intros Hs Hp Hin Hf Hm. unfold run. rewrite Hp.
  eapply macrobody_flag_stops_finish; eauto.
Qed.

(* the stale-variable quirk of conversionBoundCond *)
Theorem stale_kind_quirk k f r :
  f <> "*" -> f <> "+" ->
  conv_kinds ((k, f) :: r) None = Err EUnbound /\
  forall kd out, conv_kinds ((k, f) :: r) (Some kd) = Ok out -> In (kd, k) out.
Proof.
  intros H1 H2.
  assert (Hk : forall p, kind_of_flag f p = p).
  { intros p. unfold kind_of_flag.
    destruct (String.eqb f "+") eqn:E1; [apply String.eqb_eq in E1; contradiction|].
    destruct (String.eqb f "*") eqn:E2; [apply String.eqb_eq in E2; contradiction|].
    reflexivity. }
  split.
  - cbn. rewrite Hk. reflexivity.
  - intros kd out H. cbn in H. rewrite Hk in H.
    destruct (conv_kinds r (Some kd)); [|discriminate]. inversion H. left. reflexivity.
Qed.

(* ---- which numbers are written ----------------------------------------- *)

Lemma dict_get_In {V} k (v : V) d : dict_get k d = Some v -> In (k, v) d.
Proof.
  induction d as [|[k' v'] r IH]; cbn; [discriminate|].
  destruct (N.eqb k k') eqn:E.
  - apply N.eqb_eq in E. subst. intros H. inversion H. left. reflexivity.
  - intros H. right. apply IH. assumption.
Qed.

Lemma dict_get_app_miss {V} k (a b : list (N * V)) :
  (forall x, In x (map fst a) -> x <> k) -> dict_get k (a ++ b) = dict_get k b.
Proof.
  induction a as [|[k' v'] r IH]; intros H; cbn; [reflexivity|].
  destruct (N.eqb k k') eqn:E.
  - apply N.eqb_eq in E. subst. exfalso. apply (H k'); [left; reflexivity|reflexivity].
  - apply IH. intros x Hx. apply H. right. assumption.
Qed.

Lemma number_aux_spec aux : forall free,
  (free <= snd (number_aux aux free))%N /\
  forall x, In x (map fst (fst (number_aux aux free))) -> (free <= x)%N.
Proof.
  induction aux as [|d r IH]; intros free; cbn.
  - split; [lia|intros x []].
  - destruct (number_aux r (N.succ free)) as [nb free'] eqn:E.
    specialize (IH (N.succ free)). rewrite E in IH. cbn in IH. destruct IH as [H1 H2].
    cbn. split; [lia|]. intros x [Hx|Hx]; [lia|]. specialize (H2 x Hx). lia.
Qed.

Lemma number_from_get t : forall free k e,
  NoDup (map fst t) -> (forall k' e', In (k', e') t -> (k' < free)%N) ->
  In (k, e) t -> dict_get k (number_from t free) = Some (e_first e).
Proof.
  induction t as [|[k0 e0] r IH]; intros free k e Hnd Hlt Hin; [destruct Hin|].
  cbn. destruct (number_aux (e_aux e0) free) as [nb free'] eqn:E.
  pose proof (number_aux_spec (e_aux e0) free) as Hs. rewrite E in Hs. cbn in Hs.
  destruct Hs as [Hfree Hkeys].
  inversion Hnd as [|? ? Hn Hr]; subst. cbn.
  destruct (N.eqb k k0) eqn:Ek.
  - apply N.eqb_eq in Ek. subst k0. destruct Hin as [Heq|Hin].
    + inversion Heq; subst. reflexivity.
    + exfalso. apply Hn. apply in_map_iff. exists (k, e). auto.
  - destruct Hin as [Heq|Hin].
    + inversion Heq; subst. rewrite N.eqb_refl in Ek. discriminate.
    + rewrite dict_get_app_miss.
      * apply IH; try assumption. intros k' e' Hin'.
        specialize (Hlt k' e' (or_intror Hin')). lia.
      * intros x Hx. specialize (Hkeys x Hx).
        specialize (Hlt k e (or_intror Hin)). lia.
Qed.

Lemma max_key_ge {V} (d : list (N * V)) k v : In (k, v) d -> (k <= max_key d)%N.
Proof.
  induction d as [|[k' v'] r IH]; intros H; [destruct H|]. cbn.
  destruct H as [H|H]; [inversion H; subst; lia|]. specialize (IH H). lia.
Qed.

Lemma number_items_get t k e :
  NoDup (map fst t) -> In (k, e) t -> dict_get k (number_items t) = Some (e_first e).
Proof.
  intros Hnd Hin. unfold number_items. apply number_from_get; try assumption.
  intros k' e' Hin'. pose proof (max_key_ge t k' e' Hin'). lia.
Qed.

Lemma min_with_spec d nb : forall m,
  min_with d nb = Some m -> In (m, d) nb /\ forall k', In (k', d) nb -> (m <= k')%N.
Proof.
  induction nb as [|[k d'] r IH]; intros m H; cbn in H; [discriminate|].
  destruct (N.eqb d d') eqn:E.
  - apply N.eqb_eq in E. subst d'. destruct (min_with d r) as [m'|] eqn:Em.
    + inversion H; subst. destruct (IH m' eq_refl) as [Hin Hmin]. split.
      * destruct (N.min_spec k m') as [[_ ->]|[_ ->]]; [left; reflexivity|right; assumption].
      * intros k' [Hk|Hk]; [inversion Hk; subst; lia|]. specialize (Hmin k' Hk). lia.
    + inversion H; subst. split; [left; reflexivity|].
      intros k' [Hk|Hk]; [inversion Hk; subst; lia|]. exfalso.
      clear - Em Hk. induction r as [|[k0 d0] r IH]; [destruct Hk|]. cbn in Em.
      destruct Hk as [Hk|Hk].
      * inversion Hk; subst. rewrite N.eqb_refl in Em. destruct (min_with d r); discriminate.
      * destruct (N.eqb d d0); [destruct (min_with d r); discriminate|]. apply IH; assumption.
  - destruct (IH m H) as [Hin Hmin]. split; [right; assumption|].
    intros k' [Hk|Hk]; [|apply Hmin; assumption].
    inversion Hk; subst. rewrite N.eqb_refl in E. discriminate.
Qed.

Lemma min_with_some d nb k : In (k, d) nb -> exists m, min_with d nb = Some m.
Proof.
  induction nb as [|[k0 d0] r IH]; intros H; [destruct H|]. cbn.
  destruct (N.eqb d d0) eqn:E.
  - destruct (min_with d r); eauto.
  - destruct H as [H|H]; [inversion H; subst; rewrite N.eqb_refl in E; discriminate|].
    apply IH. assumption.
Qed.

(* [k] is the smallest-numbered among the surfaces equal to it *)
Definition smallest_dup (nb : numbering) (k : N) : Prop :=
  forall d k', dict_get k nb = Some d -> In (k', d) nb -> (k <= k')%N.

Lemma repr_of_self dedup nb k d :
  dict_get k nb = Some d -> (dedup = false \/ smallest_dup nb k) ->
  repr_of dedup nb k = Some k.
Proof.
  intros Hd Hg. unfold repr_of. rewrite Hd. destruct dedup; [|reflexivity].
  destruct Hg as [Hg|Hg]; [discriminate|].
  pose proof (dict_get_In _ _ _ Hd) as Hin.
  destruct (min_with_some d nb k Hin) as [m Hm]. rewrite Hm.
  destruct (min_with_spec d nb m Hm) as [Hmin Hle].
  specialize (Hle k Hin). specialize (Hg d m Hd Hmin). f_equal. lia.
Qed.

Lemma renumber_in dedup nb ids : forall out k,
  renumber dedup nb ids = Ok out -> In k ids ->
  exists k', repr_of dedup nb k = Some k' /\ In k' out.
Proof.
  induction ids as [|x r IH]; intros out k H Hin; [destruct Hin|]. cbn in H.
  destruct (repr_of dedup nb x) as [x'|] eqn:Ex; [|discriminate].
  destruct (renumber dedup nb r) as [l|] eqn:Er; [|discriminate]. inversion H; subst.
  destruct Hin as [->|Hin].
  - exists x'. split; [assumption|left; reflexivity].
  - destruct (IH l k eq_refl Hin) as [k' [H1 H2]]. exists k'. split; [assumption|right; assumption].
Qed.

Lemma renumber_out dedup nb ids : forall out k',
  renumber dedup nb ids = Ok out -> In k' out ->
  exists k, In k ids /\ repr_of dedup nb k = Some k'.
Proof.
  induction ids as [|x r IH]; intros out k' H Hin; cbn in H.
  - inversion H; subst. destruct Hin.
  - destruct (repr_of dedup nb x) as [x'|] eqn:Ex; [|discriminate].
    destruct (renumber dedup nb r) as [l|] eqn:Er; [|discriminate]. inversion H; subst.
    destruct Hin as [->|Hin].
    + exists x. split; [left; reflexivity|assumption].
    + destruct (IH l k' eq_refl Hin) as [k [H1 H2]]. exists k. split; [right; assumption|assumption].
Qed.

(* a cell survives: none of its volumes is deleted *)
Definition survives (dedup : bool) (nb : numbering) (m : list (N * list Z)) (c : cell) : Prop :=
  exists ids left, parts_ids dedup nb m (snd c) = Ok (true, ids, left).

(* a deleted cell leaves the id k behind (argument of a UNION that went) *)
Definition leaves (dedup : bool) (nb : numbering) (m : list (N * list Z)) (c : cell) (k : N)
  : Prop :=
  exists ids left, parts_ids dedup nb m (snd c) = Ok (false, ids, left) /\ In k left.

(* the cell card names surface k: one of its parts has the literal k or -k *)
Definition names (c : cell) (k : N) : Prop :=
  exists P z, In P (snd c) /\ In z P /\ z <> 0%Z /\ Z.abs_N z = k.

(* after pot_expand_surfs one of its volumes has the TRIPOLI-4 id k0 *)
Definition uses (m : list (N * list Z)) (c : cell) (k0 : N) : Prop :=
  exists P zs gs, In P (snd c) /\ expand_part m P = Ok (zs, gs) /\
    (In k0 (pluses_of zs) \/ In k0 (minuses_of zs) \/
     exists g, In g gs /\ In k0 (map Z.abs_N g)).

Lemma renumber_groups_in dedup nb gs : forall gids g k0,
  renumber_groups dedup nb gs = Ok gids -> In g gs -> In k0 (map Z.abs_N g) ->
  exists k', repr_of dedup nb k0 = Some k' /\ In k' (List.concat gids).
Proof.
  induction gs as [|g0 r IH]; intros gids g k0 H Hg Hk; [destruct Hg|]. cbn in H.
  destruct (renumber dedup nb (map Z.abs_N g0)) as [a|] eqn:Ea;
    destruct (renumber_groups dedup nb r) as [b|] eqn:Eb; try discriminate.
  inversion H; subst gids. cbn. destruct Hg as [->|Hg].
  - destruct (renumber_in _ _ _ _ _ Ea Hk) as [k' [H1 H2]]. exists k'. split; [assumption|].
    apply in_or_app. left. assumption.
  - destruct (IH b g k0 eq_refl Hg Hk) as [k' [H1 H2]]. exists k'. split; [assumption|].
    apply in_or_app. right. assumption.
Qed.

Lemma renumber_groups_out dedup nb gs : forall gids k',
  renumber_groups dedup nb gs = Ok gids -> In k' (List.concat gids) ->
  exists g k0, In g gs /\ In k0 (map Z.abs_N g) /\ repr_of dedup nb k0 = Some k'.
Proof.
  induction gs as [|g0 r IH]; intros gids k' H Hk; cbn in H.
  - inversion H; subst. destruct Hk.
  - destruct (renumber dedup nb (map Z.abs_N g0)) as [a|] eqn:Ea;
      destruct (renumber_groups dedup nb r) as [b|] eqn:Eb; try discriminate.
    inversion H; subst gids. cbn in Hk. apply in_app_or in Hk. destruct Hk as [Hk|Hk].
    + destruct (renumber_out _ _ _ _ _ Ea Hk) as [k0 [H1 H2]]. exists g0, k0.
      split; [left; reflexivity|auto].
    + destruct (IH b k' eq_refl Hk) as [g [k0 [H1 H2]]]. exists g, k0.
      split; [right; assumption|assumption].
Qed.

Lemma part_ids_alive dedup nb m P ids left :
  part_ids dedup nb m P = Ok (true, ids, left) ->
  exists zs gs p mi gids, expand_part m P = Ok (zs, gs) /\
    renumber dedup nb (pluses_of zs) = Ok p /\ renumber dedup nb (minuses_of zs) = Ok mi /\
    renumber_groups dedup nb gs = Ok gids /\ ids = (p ++ mi ++ List.concat gids)%list.
Proof.
  unfold part_ids. destruct (expand_part m P) as [[zs gs]|]; [|discriminate].
  destruct (empty_vol (pluses_of zs) (minuses_of zs)); [discriminate|].
  destruct (renumber dedup nb (pluses_of zs)) as [p|] eqn:Ep;
    destruct (renumber dedup nb (minuses_of zs)) as [mi|] eqn:Em;
    destruct (renumber_groups dedup nb gs) as [gids|] eqn:Eg; try discriminate.
  destruct (empty_vol p mi); [discriminate|]. intros H. inversion H; subst.
  exists zs, gs, p, mi, gids. auto.
Qed.

Lemma parts_ids_spec dedup nb m Ps : forall ids left,
  parts_ids dedup nb m Ps = Ok (true, ids, left) ->
  (forall P, In P Ps -> exists a o, part_ids dedup nb m P = Ok (true, a, o)) /\
  (forall x, In x ids <->
     exists P a o, In P Ps /\ part_ids dedup nb m P = Ok (true, a, o) /\ In x a).
Proof.
  induction Ps as [|P0 r IH]; intros ids left H; cbn in H.
  - inversion H; subst. split; [intros P []|]. intros x.
    split; [intros []|intros [P [a [o [[] _]]]]].
  - destruct (part_ids dedup nb m P0) as [[[a0 i0] o0]|] eqn:E0; [|discriminate].
    destruct (parts_ids dedup nb m r) as [[[a1 i1] o1]|] eqn:Er; [|discriminate].
    inversion H; subst ids left. clear H. destruct a0; [|discriminate]. destruct a1; [|discriminate].
    destruct (IH i1 o1 eq_refl) as [Hall Hin]. split.
    + intros P [->|HP]; [eauto|auto].
    + intros x. rewrite in_app_iff, Hin. split.
      * intros [Hx|[P [a [o [HP [Ha Hx]]]]]].
        -- exists P0, i0, o0. split; [left; reflexivity|auto].
        -- exists P, a, o. split; [right; assumption|auto].
      * intros [P [a [o [[->|HP] [Ha Hx]]]]].
        -- rewrite E0 in Ha. inversion Ha; subst. left. assumption.
        -- right. exists P, a, o. auto.
Qed.

Lemma used_ids_spec dedup nb m cells : forall u,
  used_ids dedup nb m cells = Ok u ->
  forall x, In x u <->
    exists c, In c cells /\
      ((exists ids left, parts_ids dedup nb m (snd c) = Ok (true, ids, left) /\ In x ids) \/
       leaves dedup nb m c x).
Proof.
  induction cells as [|c0 r IH]; intros u H x; cbn in H.
  - inversion H; subst. split; [intros []|intros [c [[] _]]].
  - destruct (parts_ids dedup nb m (snd c0)) as [[[a i] o]|] eqn:E0; [|discriminate].
    destruct (used_ids dedup nb m r) as [u0|] eqn:Eu; [|discriminate].
    inversion H; subst u. specialize (IH u0 eq_refl x). rewrite in_app_iff, IH. split.
    + intros [Hx|[c [Hc Hd]]].
      * exists c0. split; [left; reflexivity|]. destruct a.
        -- left. exists i, o. auto.
        -- right. exists i, o. auto.
      * exists c. split; [right; assumption|assumption].
    + intros [c [[->|Hc] Hd]].
      * left. destruct Hd as [[ids [left [Hp Hx]]]|[ids [left [Hp Hx]]]];
          rewrite E0 in Hp; inversion Hp; subst; assumption.
      * right. exists c. auto.
Qed.

Lemma insert_uniq_in k l x : In x (insert_uniq k l) <-> x = k \/ In x l.
Proof.
  induction l as [|y r IH]; cbn; [intuition|].
  destruct (N.ltb k y); [cbn; intuition|].
  destruct (N.eqb k y) eqn:E.
  - apply N.eqb_eq in E. subst. cbn. intuition.
  - cbn. rewrite IH. intuition.
Qed.

Lemma sort_uniq_in l x : In x (sort_uniq l) <-> In x l.
Proof.
  induction l as [|y r IH]; cbn; [tauto|]. rewrite insert_uniq_in, IH. intuition.
Qed.

Lemma surf_lines_in nb ids : forall l k,
  surf_lines nb ids = Ok l -> In k ids -> exists d, dict_get k nb = Some d /\ In (k, d) l.
Proof.
  induction ids as [|x r IH]; intros l k H Hin; [destruct Hin|]. cbn in H.
  destruct (dict_get x nb) as [d|] eqn:Ed; [|discriminate].
  destruct (surf_lines nb r) as [l'|] eqn:El; [|discriminate]. inversion H; subst.
  destruct Hin as [->|Hin].
  - exists d. split; [assumption|left; reflexivity].
  - destruct (IH l' k eq_refl Hin) as [d' [H1 H2]]. exists d'. split; [assumption|right; assumption].
Qed.

Lemma surf_lines_out nb ids : forall l k d,
  surf_lines nb ids = Ok l -> In (k, d) l -> In k ids /\ dict_get k nb = Some d.
Proof.
  induction ids as [|x r IH]; intros l k d H Hin; cbn in H.
  - inversion H; subst. destruct Hin.
  - destruct (dict_get x nb) as [d0|] eqn:Ed; [|discriminate].
    destruct (surf_lines nb r) as [l'|] eqn:El; [|discriminate]. inversion H; subst.
    destruct Hin as [Heq|Hin].
    + inversion Heq; subst. split; [left; reflexivity|assumption].
    + destruct (IH l' k d eq_refl Hin) as [H1 H2]. split; [right; assumption|assumption].
Qed.

Lemma geometry_ok dedup t cells surfs :
  geometry dedup t cells = Ok surfs ->
  exists u, used_ids dedup (number_items t) (matching_of t) cells = Ok u /\
            surf_lines (number_items t) (sort_uniq u) = Ok surfs.
Proof.
  unfold geometry. destruct t as [|x r]; [discriminate|].
  destruct (used_ids dedup (number_items (x :: r)) (matching_of (x :: r)) cells) as [u|] eqn:Eu;
    [|discriminate].
  destruct u as [|y u']; [discriminate|]. intros H. exists (y :: u'). auto.
Qed.

(* the written SURF lines: every line carries the descriptor its number has in
   the numbering; a line is written exactly for the representatives of the
   TRIPOLI-4 surfaces used by the volumes of surviving cells, and for what a
   deleted cell leaves behind *)
Lemma written_descriptor dedup t cells surfs k d :
  geometry dedup t cells = Ok surfs -> In (k, d) surfs ->
  dict_get k (number_items t) = Some d.
Proof.
  intros Hg Hin. destruct (geometry_ok _ _ _ _ Hg) as [u [Hu Hl]].
  destruct (surf_lines_out _ _ _ _ _ Hl Hin) as [_ Hd]. assumption.
Qed.

Theorem written_surfaces_exact dedup t cells surfs k d :
  geometry dedup t cells = Ok surfs ->
  (In (k, d) surfs <->
   dict_get k (number_items t) = Some d /\
   exists c, In c cells /\
     ((survives dedup (number_items t) (matching_of t) c /\
       exists k0, uses (matching_of t) c k0 /\ repr_of dedup (number_items t) k0 = Some k) \/
      leaves dedup (number_items t) (matching_of t) c k)).
Proof.
  intros Hg. destruct (geometry_ok _ _ _ _ Hg) as [u [Hu Hl]]. split.
  - intros Hin. destruct (surf_lines_out _ _ _ _ _ Hl Hin) as [Hk Hd]. split; [assumption|].
    apply (proj1 (sort_uniq_in _ _)) in Hk.
    destruct (proj1 (used_ids_spec _ _ _ _ _ Hu k) Hk) as [c [Hc [Halive|Hleft]]];
      [|exists c; auto].
    destruct Halive as [ids [left [Hp Hx]]]. exists c. split; [assumption|]. left.
    split; [exists ids, left; assumption|].
    destruct (parts_ids_spec _ _ _ _ _ _ Hp) as [_ Hids].
    destruct (proj1 (Hids k) Hx) as [P [a [o [HP [Ha Hka]]]]].
    destruct (part_ids_alive _ _ _ _ _ _ Ha) as [zs [gs [p [mi [gids [He [Hrp [Hrm [Hrg ->]]]]]]]]].
    apply in_app_or in Hka. destruct Hka as [Hka|Hka].
    + destruct (renumber_out _ _ _ _ _ Hrp Hka) as [k0 [H1 H2]].
      exists k0. split; [exists P, zs, gs; auto|assumption].
    + apply in_app_or in Hka. destruct Hka as [Hka|Hka].
      * destruct (renumber_out _ _ _ _ _ Hrm Hka) as [k0 [H1 H2]].
        exists k0. split; [exists P, zs, gs; auto|assumption].
      * destruct (renumber_groups_out _ _ _ _ _ Hrg Hka) as [g [k0 [H1 [H2 H3]]]].
        exists k0. split; [exists P, zs, gs; split; [assumption|]; split; [assumption|];
                          right; right; exists g; auto|assumption].
  - intros [Hd [c [Hc Hcase]]].
    assert (Hku : In k u).
    { apply (used_ids_spec _ _ _ _ _ Hu k). exists c. split; [assumption|].
      destruct Hcase as [[[ids [left Hp]] [k0 [[P [zs [gs [HP [He Hb]]]]] Hr]]]|Hleft];
        [|right; assumption].
      left. exists ids, left. split; [assumption|].
      destruct (parts_ids_spec _ _ _ _ _ _ Hp) as [Hall Hids].
      destruct (Hall P HP) as [a [o Ha]]. apply Hids. exists P, a, o.
      split; [assumption|]. split; [assumption|].
      destruct (part_ids_alive _ _ _ _ _ _ Ha) as [zs' [gs' [p [mi [gids [He' [Hrp [Hrm [Hrg ->]]]]]]]]].
      rewrite He in He'. inversion He'; subst zs' gs'.
      destruct Hb as [Hb|[Hb|[g [Hgg Hb]]]].
      - destruct (renumber_in _ _ _ _ _ Hrp Hb) as [k' [H1 H2]]. rewrite Hr in H1.
        inversion H1; subst. apply in_or_app. left. assumption.
      - destruct (renumber_in _ _ _ _ _ Hrm Hb) as [k' [H1 H2]]. rewrite Hr in H1.
        inversion H1; subst. apply in_or_app. right. apply in_or_app. left. assumption.
      - destruct (renumber_groups_in _ _ _ _ _ _ Hrg Hgg Hb) as [k' [H1 H2]]. rewrite Hr in H1.
        inversion H1; subst. apply in_or_app. right. apply in_or_app. right. assumption. }
    apply (proj2 (sort_uniq_in _ _)) in Hku.
    destruct (surf_lines_in _ _ _ _ Hl Hku) as [d' [H1 H2]]. rewrite Hd in H1.
    inversion H1; subst. assumption.
Qed.

(* ---- a literal of the cell card puts its surface number in the volume ---- *)

Lemma matching_from_get t : forall free k e,
  NoDup (map fst t) -> In (k, e) t ->
  exists s rest, dict_get k (matching_from t free) = Some (s :: rest) /\ Z.abs_N s = k.
Proof.
  induction t as [|[k0 e0] r IH]; intros free k e Hnd Hin; [destruct Hin|].
  cbn. destruct (number_aux (e_aux e0) free) as [nb free'] eqn:E. cbn.
  inversion Hnd as [|? ? Hn Hr]; subst.
  destruct (N.eqb k k0) eqn:Ek.
  - apply N.eqb_eq in Ek. subst k0.
    destruct (match e_sides e0 with [] => true | s :: _ => s end).
    + eexists. eexists. split; [reflexivity|]. apply Zabs2N.id.
    + eexists. eexists. split; [reflexivity|]. rewrite Zabs2N.inj_opp. apply Zabs2N.id.
  - destruct Hin as [Heq|Hin]; [inversion Heq; subst; rewrite N.eqb_refl in Ek; discriminate|].
    eapply IH; eauto.
Qed.

Lemma sign_member (s : Z) zs :
  In s zs -> s <> 0%Z -> In (Z.abs_N s) (pluses_of zs) \/ In (Z.abs_N s) (minuses_of zs).
Proof.
  intros Hin Hnz. unfold pluses_of, minuses_of.
  destruct (Z.ltb 0 s) eqn:Es.
  - left. apply in_map_iff. exists s. split.
    + symmetry. apply Zabs2N.abs_N_nonneg. apply Z.ltb_lt in Es. lia.
    + apply filter_In. auto.
  - right. apply in_map_iff. exists s. split.
    + apply Z.ltb_ge in Es. destruct s; cbn; try reflexivity. lia.
    + apply filter_In. split; [assumption|]. apply Z.ltb_lt. apply Z.ltb_ge in Es. lia.
Qed.

Lemma expand_part_in m P : forall zs gs z,
  expand_part m P = Ok (zs, gs) -> In z P ->
  exists a g, expand_lit m z = Ok (a, g) /\ (forall x, In x a -> In x zs) /\
              (forall x, In x g -> In x gs).
Proof.
  induction P as [|z0 r IH]; intros zs gs z H Hin; [destruct Hin|]. cbn in H.
  destruct (expand_lit m z0) as [[a0 g0]|] eqn:E0; destruct (expand_part m r) as [[b h]|] eqn:Er;
    try discriminate. inversion H; subst zs gs.
  destruct Hin as [->|Hin].
  - exists a0, g0. split; [assumption|]. split; intros x Hx; apply in_or_app; left; assumption.
  - destruct (IH b h z eq_refl Hin) as [a [g [Ha [Hs1 Hs2]]]]. exists a, g. split; [assumption|].
    split; intros x Hx; apply in_or_app; right; auto.
Qed.

(* the expansion of a literal of key k holds +-k, in the equation or as the
   first member of a union group *)
Lemma expand_lit_has m z s rest a g :
  dict_get (Z.abs_N z) m = Some (s :: rest) -> Z.abs_N s = Z.abs_N z ->
  expand_lit m z = Ok (a, g) ->
  (exists s', In s' a /\ Z.abs_N s' = Z.abs_N z) \/
  (exists grp, In grp g /\ In (Z.abs_N z) (map Z.abs_N grp)).
Proof.
  intros Hg Hs H. unfold expand_lit in H. rewrite Hg in H. destruct rest as [|s2 rest].
  - inversion H; subst. left. destruct (Z.ltb 0 z).
    + exists s. split; [left; reflexivity|assumption].
    + exists (Z.opp s). split; [left; reflexivity|]. rewrite Zabs2N.inj_opp. assumption.
  - destruct (Z.ltb 0 z); inversion H; subst.
    + right. exists (s :: s2 :: rest). split; [left; reflexivity|]. left. assumption.
    + left. exists (Z.opp s). split; [left; reflexivity|]. rewrite Zabs2N.inj_opp. assumption.
Qed.

(* a surviving cell whose card names the key k of the dictionary uses the
   TRIPOLI-4 id k *)
Lemma names_uses dedup t c k e :
  NoDup (map fst t) -> In (k, e) t ->
  survives dedup (number_items t) (matching_of t) c -> names c k ->
  uses (matching_of t) c k.
Proof.
  intros Hnd Hin [ids [left Hp]] [P [z [HP [Hz [Hnz Hk]]]]].
  destruct (parts_ids_spec _ _ _ _ _ _ Hp) as [Hall _]. destruct (Hall P HP) as [a [o Ha]].
  destruct (part_ids_alive _ _ _ _ _ _ Ha) as [zs [gs [p [mi [gids [He _]]]]]].
  destruct (expand_part_in _ _ _ _ _ He Hz) as [a' [g' [Hl [Hsub1 Hsub2]]]].
  destruct (matching_from_get t (N.succ (max_key t)) k e Hnd Hin) as [s [rest [Hg Hs]]].
  fold (matching_of t) in Hg. rewrite <- Hk in Hg, Hs.
  exists P, zs, gs. split; [assumption|]. split; [assumption|].
  destruct (expand_lit_has _ _ _ _ _ _ Hg Hs Hl) as [[s' [Hs' Habs]]|[grp [Hgrp Hin']]].
  - assert (Hm : In (Z.abs_N s') (pluses_of zs) \/ In (Z.abs_N s') (minuses_of zs)).
    { apply sign_member; [auto|]. intros Hc. subst s'. cbn in Habs.
      destruct z; [contradiction|discriminate|discriminate]. }
    rewrite Habs, Hk in Hm. tauto.
  - right. right. exists grp. split; [auto|]. rewrite <- Hk. assumption.
Qed.

(* ---- every entry of conversionBoundCond is sound --------------------------- *)

(* every entry comes from a flagged entry of the dictionary *)
Lemma bc_entry_key t l kd k :
  bc_entries t = Ok l -> In (kd, k) l -> exists e, In (k, e) t /\ e_flag e <> "".
Proof.
  unfold bc_entries. intros H Hin. destruct (recuperate t) as [l0|] eqn:Er; [|discriminate].
  assert (Hk : In k (map snd l)) by (apply in_map_iff; exists (kd, k); auto).
  rewrite (conv_kinds_keys _ _ _ H), (recuperate_keys _ _ Er) in Hk.
  apply in_map_iff in Hk. destruct Hk as [[k' e] [Hk Hf]]. cbn in Hk. subst k'.
  apply filter_In in Hf. destruct Hf as [Hin' Hfl]. exists e. split; [assumption|].
  cbn in Hfl. unfold flagged in Hfl. intros Hc. rewrite Hc in Hfl. discriminate.
Qed.

Lemma count_one_unique k l : forall a b,
  count_key k l = 1%nat -> In (a, k) l -> In (b, k) l -> a = b.
Proof.
  unfold count_key. induction l as [|[kd k'] r IH]; intros a b Hc Ha Hb; [destruct Ha|].
  cbn in Hc. destruct (N.eqb k' k) eqn:E.
  - cbn in Hc. assert (Hz : List.length (filter (fun x => N.eqb (snd x) k) r) = 0%nat) by lia.
    assert (Hno : forall x, In (x, k) r -> False).
    { intros x Hx. assert (Hf : In (x, k) (filter (fun y => N.eqb (snd y) k) r)).
      { apply filter_In. split; [assumption|]. cbn. apply N.eqb_refl. }
      destruct (filter (fun y => N.eqb (snd y) k) r); [destruct Hf|discriminate]. }
    destruct Ha as [Ha|Ha]; [|exfalso; eapply Hno; eauto].
    destruct Hb as [Hb|Hb]; [|exfalso; eapply Hno; eauto].
    congruence.
  - destruct Ha as [Ha|Ha]; [inversion Ha; subst; rewrite N.eqb_refl in E; discriminate|].
    destruct Hb as [Hb|Hb]; [inversion Hb; subst; rewrite N.eqb_refl in E; discriminate|].
    eapply IH; eauto.
Qed.

(* ... and has the kind of that entry's flag *)
Theorem bc_entry_sound t l kd k :
  NoDup (map fst t) -> bc_entries t = Ok l -> In (kd, k) l ->
  exists e, In (k, e) t /\ e_flag e <> "" /\
    (e_flag e = "*" -> kd = Reflection) /\ (e_flag e = "+" -> kd = Cosinus).
Proof.
  intros Hnd H Hin. destruct (bc_entry_key _ _ _ _ H Hin) as [e [He Hf]].
  exists e. split; [assumption|]. split; [assumption|].
  pose proof (bc_one_per_flag t l k e Hnd H He) as Hc.
  destruct (String.eqb (e_flag e) "") eqn:E0; [apply String.eqb_eq in E0; contradiction|].
  destruct (bc_kind t l k e H He) as [Hs [Hp _]].
  split; intros Hfl.
  - eapply count_one_unique; eauto.
  - eapply count_one_unique; eauto.
Qed.

(* ---- distinct ids in the TRIPOLI-4 numbering ----------------------------- *)

Lemma nodup_app {A} (a b : list A) :
  NoDup a -> NoDup b -> (forall x, In x a -> ~ In x b) -> NoDup (a ++ b).
Proof.
  induction a as [|x r IH]; intros Ha Hb Hd; cbn; [assumption|].
  inversion Ha as [|? ? Hn Hr]; subst. constructor.
  - intros Hin. apply in_app_or in Hin. destruct Hin as [Hin|Hin]; [contradiction|].
    apply (Hd x); [left; reflexivity|assumption].
  - apply IH; [assumption|assumption|]. intros y Hy. apply Hd. right. assumption.
Qed.

Lemma in_dict_get {V} k (v : V) d : NoDup (map fst d) -> In (k, v) d -> dict_get k d = Some v.
Proof.
  induction d as [|[k' v'] r IH]; intros Hnd Hin; [destruct Hin|]. cbn in *.
  inversion Hnd as [|? ? Hn Hr]; subst. destruct (N.eqb k k') eqn:E.
  - apply N.eqb_eq in E. subst k'. destruct Hin as [Hin|Hin]; [congruence|].
    exfalso. apply Hn. apply in_map_iff. exists (k, v). auto.
  - destruct Hin as [Hin|Hin]; [inversion Hin; subst; rewrite N.eqb_refl in E; discriminate|].
    apply IH; assumption.
Qed.

Lemma number_aux_keys aux : forall free,
  (free <= snd (number_aux aux free))%N /\
  (forall x, In x (map fst (fst (number_aux aux free))) ->
             (free <= x < snd (number_aux aux free))%N) /\
  NoDup (map fst (fst (number_aux aux free))).
Proof.
  induction aux as [|d r IH]; intros free; cbn.
  - split; [lia|]. split; [intros x []|constructor].
  - destruct (number_aux r (N.succ free)) as [nb free'] eqn:E.
    specialize (IH (N.succ free)). rewrite E in IH. cbn in IH. destruct IH as [H1 [H2 H3]].
    cbn. split; [lia|]. split.
    + intros x [Hx|Hx]; [lia|]. specialize (H2 x Hx). lia.
    + constructor; [|assumption]. intros Hin. specialize (H2 free Hin). lia.
Qed.

Lemma number_from_keys t : forall free,
  (forall k e, In (k, e) t -> (k < free)%N) ->
  forall x, In x (map fst (number_from t free)) -> In x (map fst t) \/ (free <= x)%N.
Proof.
  induction t as [|[k0 e0] r IH]; intros free Hlt x Hx; [destruct Hx|]. cbn in Hx.
  destruct (number_aux (e_aux e0) free) as [nb free'] eqn:E.
  pose proof (number_aux_keys (e_aux e0) free) as Hs. rewrite E in Hs. cbn in Hs.
  destruct Hs as [Hfree [Hkeys _]]. cbn in Hx.
  destruct Hx as [Hx|Hx]; [left; left; assumption|].
  rewrite map_app in Hx. apply in_app_or in Hx. destruct Hx as [Hx|Hx].
  - specialize (Hkeys x Hx). right. lia.
  - assert (Hlt' : forall k e, In (k, e) r -> (k < free')%N).
    { intros k e Hin. specialize (Hlt k e (or_intror Hin)). lia. }
    destruct (IH free' Hlt' x Hx) as [H|H]; [left; right; assumption|right; lia].
Qed.

Lemma number_from_nodup t : forall free,
  NoDup (map fst t) -> (forall k e, In (k, e) t -> (k < free)%N) ->
  NoDup (map fst (number_from t free)).
Proof.
  induction t as [|[k0 e0] r IH]; intros free Hnd Hlt; [constructor|]. cbn.
  destruct (number_aux (e_aux e0) free) as [nb free'] eqn:E.
  pose proof (number_aux_keys (e_aux e0) free) as Hs. rewrite E in Hs. cbn in Hs.
  destruct Hs as [Hfree [Hkeys Hnb]]. cbn in Hnd. inversion Hnd as [|? ? Hn Hr]; subst.
  assert (Hk0 : (k0 < free)%N) by (apply (Hlt k0 e0); left; reflexivity).
  assert (Hlt' : forall k e, In (k, e) r -> (k < free')%N).
  { intros k e Hin. specialize (Hlt k e (or_intror Hin)). lia. }
  assert (Hrest : forall x, In x (map fst (number_from r free')) ->
                            In x (map fst r) \/ (free' <= x)%N)
    by (apply number_from_keys; assumption).
  cbn. constructor.
  - rewrite map_app. intros Hin. apply in_app_or in Hin. destruct Hin as [Hin|Hin].
    + specialize (Hkeys k0 Hin). lia.
    + destruct (Hrest k0 Hin) as [H|H]; [contradiction|lia].
  - rewrite map_app. apply nodup_app; [assumption|apply IH; assumption|].
    intros x Ha Hb. specialize (Hkeys x Ha). destruct (Hrest x Hb) as [H|H]; [|lia].
    apply in_map_iff in H. destruct H as [[k e] [Hk Hin]]. cbn in Hk. subst k.
    specialize (Hlt x e (or_intror Hin)). lia.
Qed.

Lemma number_items_nodup t : NoDup (map fst t) -> NoDup (map fst (number_items t)).
Proof.
  intros Hnd. unfold number_items. apply number_from_nodup; [assumption|].
  intros k e Hin. pose proof (max_key_ge t k e Hin). lia.
Qed.

(* the representative of a key of the dictionary carries the same descriptor *)
Lemma rep_descriptor dedup t k e :
  NoDup (map fst t) -> In (k, e) t ->
  repr_of dedup (number_items t) k = Some (rep dedup (number_items t) k) /\
  dict_get (rep dedup (number_items t) k) (number_items t) = Some (e_first e).
Proof.
  intros Hnd Hin. pose proof (number_items_get t k e Hnd Hin) as Hd.
  unfold rep, repr_of. rewrite Hd. destruct dedup; [|auto].
  destruct (min_with_some (e_first e) (number_items t) k (dict_get_In _ _ _ Hd)) as [m Hm].
  rewrite Hm. split; [reflexivity|].
  destruct (min_with_spec _ _ _ Hm) as [Hmin _].
  apply in_dict_get; [apply number_items_nodup; assumption|assumption].
Qed.

(* ---- the repaired block: merge_entries ---------------------------------- *)

Lemma memN_In k l : memN k l = true <-> In k l.
Proof.
  unfold memN. rewrite existsb_exists. split.
  - intros [x [Hx He]]. apply N.eqb_eq in He. subst. assumption.
  - intros H. exists k. split; [assumption|apply N.eqb_refl].
Qed.

Lemma kind_eqb_eq a b : kind_eqb a b = true <-> a = b.
Proof. destruct a, b; cbn; split; intros H; try reflexivity; discriminate. Qed.

Lemma kind_lookup_app k a b x :
  kind_lookup k a = Some x -> kind_lookup k (a ++ b) = Some x.
Proof.
  induction a as [|[kd k'] r IH]; cbn; [discriminate|].
  destruct (N.eqb k k'); [auto|]. apply IH.
Qed.

Lemma kind_lookup_app_none k a b :
  kind_lookup k a = None -> kind_lookup k (a ++ b) = kind_lookup k b.
Proof.
  induction a as [|[kd k'] r IH]; cbn; [reflexivity|].
  destruct (N.eqb k k'); [discriminate|]. apply IH.
Qed.

Lemma kind_lookup_in k l x : kind_lookup k l = Some x -> In (x, k) l.
Proof.
  induction l as [|[kd k'] r IH]; cbn; [discriminate|].
  destruct (N.eqb k k') eqn:E.
  - apply N.eqb_eq in E. subst. intros H. inversion H. left. reflexivity.
  - intros H. right. apply IH. assumption.
Qed.

Lemma kind_lookup_none k l : kind_lookup k l = None -> ~ In k (map snd l).
Proof.
  induction l as [|[kd k'] r IH]; cbn; [intros _ []|].
  destruct (N.eqb k k') eqn:E; [discriminate|]. intros H [Hc|Hc].
  - subst. rewrite N.eqb_refl in E. discriminate.
  - apply IH; assumption.
Qed.

Lemma merge_entries_err dedup nb used l : forall acc e,
  merge_entries dedup nb used l acc = Err e -> e = EValue.
Proof.
  induction l as [|[kd k] r IH]; intros acc e H; cbn in H; [discriminate|].
  destruct (memN (rep dedup nb k) used); [|eapply IH; eauto].
  destruct (kind_lookup (rep dedup nb k) acc) as [kd0|]; [|eapply IH; eauto].
  destruct (kind_eqb kd0 kd); [eapply IH; eauto|]. inversion H. reflexivity.
Qed.

Lemma merge_entries_spec dedup nb used l : forall acc out,
  merge_entries dedup nb used l acc = Ok out ->
  (exists ext, out = (acc ++ ext)%list) /\
  (forall kd k, In (kd, k) l -> memN (rep dedup nb k) used = true ->
                kind_lookup (rep dedup nb k) out = Some kd) /\
  (forall kd k', In (kd, k') out -> In (kd, k') acc \/
     exists k, In (kd, k) l /\ rep dedup nb k = k' /\ memN k' used = true) /\
  (NoDup (map snd acc) -> NoDup (map snd out)).
Proof.
  induction l as [|[kd k] r IH]; intros acc out H; cbn in H.
  - inversion H; subst. split; [exists []; rewrite app_nil_r; reflexivity|].
    split; [intros ? ? []|]. split; [auto|auto].
  - destruct (memN (rep dedup nb k) used) eqn:Eu.
    + destruct (kind_lookup (rep dedup nb k) acc) as [kd0|] eqn:El.
      * destruct (kind_eqb kd0 kd) eqn:Ek; [|discriminate].
        apply kind_eqb_eq in Ek. subst kd0.
        destruct (IH _ _ H) as [[ext Hext] [H2 [H3 H4]]].
        split; [exists ext; assumption|]. split; [|split; [|assumption]].
        -- intros kd' k0 [Heq|Hin] Hu; [|auto]. inversion Heq; subst kd' k0.
           rewrite Hext. apply kind_lookup_app. assumption.
        -- intros kd' k' Hin. destruct (H3 kd' k' Hin) as [Ha|[k0 [Hb Hc]]]; [auto|].
           right. exists k0. split; [right; assumption|assumption].
      * destruct (IH _ _ H) as [[ext Hext] [H2 [H3 H4]]].
        split; [exists ((kd, rep dedup nb k) :: ext); rewrite Hext, <- app_assoc; reflexivity|].
        split; [|split].
        -- intros kd' k0 [Heq|Hin] Hu; [|auto]. inversion Heq; subst kd' k0.
           rewrite Hext. apply kind_lookup_app. rewrite kind_lookup_app_none by assumption.
           cbn. rewrite N.eqb_refl. reflexivity.
        -- intros kd' k' Hin. destruct (H3 kd' k' Hin) as [Ha|[k0 [Hb Hc]]].
           ++ apply in_app_or in Ha. destruct Ha as [Ha|[Ha|[]]]; [auto|].
              inversion Ha; subst kd' k'. right. exists k. split; [left; reflexivity|auto].
           ++ right. exists k0. split; [right; assumption|assumption].
        -- intros Hnd. apply H4. rewrite map_app. apply nodup_app; [assumption| |].
           ++ cbn. constructor; [intros []|constructor].
           ++ intros x Hx [Hy|[]]. cbn in Hy. subst x.
              apply (kind_lookup_none _ _ El). assumption.
    + destruct (IH _ _ H) as [Hext [H2 [H3 H4]]].
      split; [assumption|]. split; [|split; [|assumption]].
      * intros kd' k0 [Heq|Hin] Hu; [|auto]. inversion Heq; subst kd' k0. congruence.
      * intros kd' k' Hin. destruct (H3 kd' k' Hin) as [Ha|[k0 [Hb Hc]]]; [auto|].
        right. exists k0. split; [right; assumption|assumption].
Qed.

Lemma finish_unfold cfg t cells surfs bcs :
  skip_bc cfg = false -> finish cfg t cells = Ok (surfs, bcs) ->
  geometry (negb (skip_dedup cfg)) t cells = Ok surfs /\
  exists l, bc_entries t = Ok l /\
    merge_entries (negb (skip_dedup cfg)) (number_items t) (map fst surfs) l [] = Ok bcs.
Proof.
  intros Hs H. unfold finish in H. cbv zeta in H.
  destruct (geometry (negb (skip_dedup cfg)) t cells) as [surfs'|] eqn:Egeo; [|discriminate].
  rewrite Hs in H. destruct (bc_entries t) as [l|] eqn:Ebc; [|discriminate].
  destruct (merge_entries (negb (skip_dedup cfg)) (number_items t) (map fst surfs') l [])
    as [bcs'|] eqn:Em; [|discriminate].
  inversion H; subst. split; [reflexivity|]. exists l. auto.
Qed.

Lemma count_key_nodup k (l : list (kind * N)) kd :
  NoDup (map snd l) -> In (kd, k) l -> count_key k l = 1%nat.
Proof.
  intros Hnd Hin. rewrite count_key_map, count_nodup by assumption.
  assert (He : existsb (N.eqb k) (map snd l) = true).
  { apply existsb_exists. exists k. split; [|apply N.eqb_refl].
    apply in_map_iff. exists (kd, k). auto. }
  rewrite He. reflexivity.
Qed.

(* the main statement, no guard: a flagged surface that bounds a surviving
   converted cell has exactly one entry, of the kind of its flag, on its
   representative, which is a written SURF with the surface's own descriptor *)
Lemma finish_designates cfg t cells surfs bcs k e :
  skip_bc cfg = false -> NoDup (map fst t) ->
  finish cfg t cells = Ok (surfs, bcs) ->
  In (k, e) t -> (e_flag e = "*" \/ e_flag e = "+") ->
  (exists c, In c cells /\ survives (negb (skip_dedup cfg)) (number_items t) (matching_of t) c /\
             names c k) ->
  let k' := rep (negb (skip_dedup cfg)) (number_items t) k in
  In (kind_of (e_flag e), k') bcs /\ count_key k' bcs = 1%nat /\ In (k', e_first e) surfs.
Proof.
  intros Hs Hnd Hfin Hin Hf [c [Hc [Hsv Hb]]] k'.
  destruct (finish_unfold _ _ _ _ _ Hs Hfin) as [Egeo [l [Ebc Em]]].
  destruct (rep_descriptor (negb (skip_dedup cfg)) t k e Hnd Hin) as [Hrep Hdesc]. fold k' in Hrep, Hdesc.
  assert (Hsurf : In (k', e_first e) surfs).
  { apply (written_surfaces_exact _ _ _ _ k' (e_first e) Egeo). split; [assumption|].
    exists c. split; [assumption|]. left. split; [assumption|].
    exists k. split; [eapply names_uses; eauto|assumption]. }
  destruct (merge_entries_spec _ _ _ _ _ _ Em) as [_ [H2 [_ H4]]].
  assert (Hl : In (kind_of (e_flag e), k) l).
  { destruct (bc_kind t l k e Ebc Hin) as [H1 [H1' _]].
    destruct Hf as [Hf|Hf]; rewrite Hf; cbn; auto. }
  assert (Hu : memN k' (map fst surfs) = true).
  { apply memN_In. apply in_map_iff. exists (k', e_first e). auto. }
  pose proof (kind_lookup_in _ _ _ (H2 _ _ Hl Hu)) as Hbc. fold k' in Hbc.
  split; [assumption|]. split; [|assumption].
  eapply count_key_nodup; [apply H4; constructor|exact Hbc].
Qed.

(* ... and every entry written designates a written SURF, which carries the
   descriptor of a flagged surface of the entry's kind; no two entries
   designate the same SURF *)
Lemma finish_sound cfg t cells surfs bcs :
  skip_bc cfg = false -> NoDup (map fst t) ->
  finish cfg t cells = Ok (surfs, bcs) ->
  NoDup (map snd bcs) /\
  forall kd k', In (kd, k') bcs ->
    exists k e, In (k, e) t /\ e_flag e <> "" /\
      (e_flag e = "*" -> kd = Reflection) /\ (e_flag e = "+" -> kd = Cosinus) /\
      rep (negb (skip_dedup cfg)) (number_items t) k = k' /\ In (k', e_first e) surfs.
Proof.
  intros Hs Hnd Hfin.
  destruct (finish_unfold _ _ _ _ _ Hs Hfin) as [Egeo [l [Ebc Em]]].
  destruct (merge_entries_spec _ _ _ _ _ _ Em) as [_ [_ [H3 H4]]].
  split; [apply H4; constructor|].
  intros kd k' Hin. destruct (H3 kd k' Hin) as [[]|[k [Hl [Hr Hu]]]].
  destruct (bc_entry_sound t l kd k Hnd Ebc Hl) as [e [He [Hf [Hstar Hplus]]]].
  exists k, e. repeat (split; [assumption|]).
  destruct (rep_descriptor (negb (skip_dedup cfg)) t k e Hnd He) as [_ Hdesc]. rewrite Hr in Hdesc.
  apply memN_In in Hu. apply in_map_iff in Hu. destruct Hu as [[k0 d] [Hk0 Hd]]. cbn in Hk0. subst k0.
  pose proof (written_descriptor _ _ _ _ k' d Egeo Hd) as Hd'.
  rewrite Hdesc in Hd'. inversion Hd'; subst. assumption.
Qed.

(* the representative of a key is a key: never the fresh id of an auxiliary
   sub-surface (plane of a one-sheet cone, facet of a macrobody) *)
Lemma rep_is_key dedup t k e :
  NoDup (map fst t) -> In (k, e) t -> In (rep dedup (number_items t) k) (map fst t).
Proof.
  intros Hnd Hin. pose proof (number_items_get t k e Hnd Hin) as Hd.
  unfold rep, repr_of. rewrite Hd. destruct dedup.
  - destruct (min_with_some (e_first e) (number_items t) k (dict_get_In _ _ _ Hd)) as [m Hm].
    rewrite Hm. destruct (min_with_spec _ _ _ Hm) as [Hmin Hle].
    specialize (Hle k (dict_get_In _ _ _ Hd)).
    assert (Hm' : In m (map fst (number_items t))).
    { apply in_map_iff. exists (m, e_first e). auto. }
    unfold number_items in Hm'. apply number_from_keys in Hm'.
    + destruct Hm' as [H|H]; [assumption|]. pose proof (max_key_ge t k e Hin). lia.
    + intros k0 e0 H0. pose proof (max_key_ge t k0 e0 H0). lia.
  - apply in_map_iff. exists (k, e). auto.
Qed.

(* every designated number is a surface number of the dictionary (a card, or a
   copy made for a TRCL / FILL), hence at most the largest of them: the
   auxiliary sub-surfaces, numbered above it, never carry an entry *)
Lemma finish_designates_keys cfg t cells surfs bcs kd k' :
  skip_bc cfg = false -> NoDup (map fst t) ->
  finish cfg t cells = Ok (surfs, bcs) -> In (kd, k') bcs ->
  In k' (map fst t) /\ (k' <= max_key t)%N.
Proof.
  intros Hs Hnd Hfin Hin.
  destruct (finish_sound _ _ _ _ _ Hs Hnd Hfin) as [_ Hall].
  destruct (Hall kd k' Hin) as [k [e [He [_ [_ [_ [Hr _]]]]]]].
  assert (Hk : In k' (map fst t)) by (rewrite <- Hr; eapply rep_is_key; eauto).
  split; [assumption|]. apply in_map_iff in Hk. destruct Hk as [[k0 e0] [Hk0 Hin0]].
  cbn in Hk0. subst k0. eapply max_key_ge; eauto.
Qed.

(* the auxiliary sub-surfaces of a card are numbered above every surface number *)
Lemma aux_ids_above t : forall free x,
  (forall k e, In (k, e) t -> (k < free)%N) ->
  In x (map fst (number_from t free)) -> ~ In x (map fst t) -> (free <= x)%N.
Proof.
  intros free x Hlt Hx Hn. destruct (number_from_keys t free Hlt x Hx); [contradiction|assumption].
Qed.

(* two coincident surfaces flagged differently whose common representative is
   written: the run stops with a ValueError *)
Lemma finish_conflict cfg t cells surfs k1 e1 k2 e2 :
  skip_bc cfg = false -> NoDup (map fst t) -> proper t ->
  geometry (negb (skip_dedup cfg)) t cells = Ok surfs ->
  In (k1, e1) t -> e_flag e1 = "*" -> In (k2, e2) t -> e_flag e2 = "+" ->
  rep (negb (skip_dedup cfg)) (number_items t) k1 = rep (negb (skip_dedup cfg)) (number_items t) k2 ->
  In (rep (negb (skip_dedup cfg)) (number_items t) k1) (map fst surfs) ->
  finish cfg t cells = Err EValue.
Proof.
  intros Hs Hnd Hp Egeo H1 Hf1 H2 Hf2 Hrep Hused.
  unfold finish. cbv zeta. rewrite Egeo, Hs.
  pose proof (bc_entries_exact t Hp) as Ebc. rewrite Ebc.
  destruct (merge_entries (negb (skip_dedup cfg)) (number_items t) (map fst surfs)
              (flat_map entry_of t) []) as [bcs|x] eqn:Em.
  - exfalso. destruct (merge_entries_spec _ _ _ _ _ _ Em) as [_ [Hl _]].
    destruct (bc_kind t _ k1 e1 Ebc H1) as [Hs1 _].
    destruct (bc_kind t _ k2 e2 Ebc H2) as [_ [Hp2 _]].
    apply memN_In in Hused.
    pose proof (Hl _ _ (Hs1 Hf1) Hused) as L1.
    rewrite Hrep in Hused. pose proof (Hl _ _ (Hp2 Hf2) Hused) as L2.
    rewrite Hrep in L1. rewrite L1 in L2. discriminate.
  - rewrite (merge_entries_err _ _ _ _ _ _ Em). reflexivity.
Qed.

(* ---- the run -------------------------------------------------------------- *)

Theorem bc_designates_present_same_locus cfg cards cells t surfs bcs k e :
  skip_bc cfg = false ->
  parse_cards cards [] = Ok t ->
  run cfg cards cells = Ok (surfs, bcs) ->
  In (k, e) t -> (e_flag e = "*" \/ e_flag e = "+") ->
  (exists c, In c cells /\ survives (negb (skip_dedup cfg)) (number_items t) (matching_of t) c /\
             names c k) ->
  let k' := rep (negb (skip_dedup cfg)) (number_items t) k in
  In (kind_of (e_flag e), k') bcs /\ count_key k' bcs = 1%nat /\ In (k', e_first e) surfs.
Proof.
  intros Hs Hp Hrun. unfold run in Hrun. rewrite Hp in Hrun.
  eapply finish_designates; eauto. eapply parsed_keys_distinct; eauto.
Qed.

Theorem bc_entries_designate_written cfg cards cells t surfs bcs :
  skip_bc cfg = false ->
  parse_cards cards [] = Ok t ->
  run cfg cards cells = Ok (surfs, bcs) ->
  NoDup (map snd bcs) /\
  forall kd k', In (kd, k') bcs ->
    exists k e, In (k, e) t /\ e_flag e <> "" /\
      (e_flag e = "*" -> kd = Reflection) /\ (e_flag e = "+" -> kd = Cosinus) /\
      rep (negb (skip_dedup cfg)) (number_items t) k = k' /\ In (k', e_first e) surfs.
Proof.
  intros Hs Hp Hrun. unfold run in Hrun. rewrite Hp in Hrun.
  eapply finish_sound; eauto. eapply parsed_keys_distinct; eauto.
Qed.

Theorem conflicting_flags_rejected cfg cards cells t surfs k1 e1 k2 e2 :
  skip_bc cfg = false ->
  parse_cards cards [] = Ok t -> proper t ->
  geometry (negb (skip_dedup cfg)) t cells = Ok surfs ->
  In (k1, e1) t -> e_flag e1 = "*" -> In (k2, e2) t -> e_flag e2 = "+" ->
  rep (negb (skip_dedup cfg)) (number_items t) k1 = rep (negb (skip_dedup cfg)) (number_items t) k2 ->
  In (rep (negb (skip_dedup cfg)) (number_items t) k1) (map fst surfs) ->
  run cfg cards cells = Err EValue.
Proof.
  intros Hs Hp Hpr Egeo H1 Hf1 H2 Hf2 Hrep Hused. unfold run. rewrite Hp.
  eapply (finish_conflict cfg t cells surfs k1 e1 k2 e2); try assumption.
  eapply parsed_keys_distinct; eauto.
Qed.

(* ---- the decks that failed before the repair ----------------------------- *)

(* *2 PX 0 and *3 PX 0 (class 7), the cell uses 3: one entry, on SURF 2 *)
Definition w_dedup_cards : list scard :=
  [mkS "1" 1 5 [] []; mkS "*2" 1 7 [] []; mkS "*3" 1 7 [] []; mkS "4" 1 9 [] []].
Definition w_dedup_cells : list cell := [(1%N, [[(-1)%Z; 3%Z; (-4)%Z]])].

(* *5 PY 7 is used by no cell: no entry *)
Definition w_unused_cards : list scard :=
  [mkS "1" 1 5 [] []; mkS "2" 1 7 [] []; mkS "4" 1 9 [] []; mkS "*5" 1 11 [] []].
Definition w_unused_cells : list cell := [(1%N, [[(-1)%Z; 2%Z; (-4)%Z]])].

(* *2 PX 0 and +3 PX 0, the cell uses 3, de-duplication on *)
Definition w_conflict_cards : list scard :=
  [mkS "1" 1 5 [] []; mkS "*2" 1 7 [] []; mkS "+3" 1 7 [] []; mkS "4" 1 9 [] []].

Theorem bc_designates_keys cfg cards cells t surfs bcs kd k' :
  skip_bc cfg = false ->
  parse_cards cards [] = Ok t ->
  run cfg cards cells = Ok (surfs, bcs) -> In (kd, k') bcs ->
  In k' (map fst t) /\ (k' <= max_key t)%N.
Proof.
  intros Hs Hp Hrun. unfold run in Hrun. rewrite Hp in Hrun.
  eapply finish_designates_keys; eauto. eapply parsed_keys_distinct; eauto.
Qed.

(* a flagged one-sheet cone *7 KZ 0 1 1 (cone: class 14, plane z = 0: class 8, on
   its positive side) and 3 PZ 0; the cell is inside the sheet and above 3 *)
Definition w_cone_cards : list scard :=
  [mkS "3" 1 8 [] []; mkS "*7" 1 14 [8%N] [true; false]; mkS "9" 1 11 [] []].
Definition w_cone_cells : list cell := [(1%N, [[(-7)%Z; 3%Z; (-9)%Z]])].
