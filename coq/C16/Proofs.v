(* C16 — proofs about the model of the boundary-condition path. *)
From Coq Require Import List NArith ZArith Bool String Ascii Lia.
From T4V Require Import Base.Str C16.Model.
Import ListNotations.
Open Scope string_scope.

(* ---- re_name ------------------------------------------------------------- *)

Lemma digit_not_flag c : is_digit c = true -> is_flag c = false.
Proof.
  unfold is_digit, is_flag. intros H.
  destruct (Ascii.eqb c "*") eqn:E1.
  - apply Ascii.eqb_eq in E1. subst c. discriminate H.
  - destruct (Ascii.eqb c "+") eqn:E2; [|reflexivity].
    apply Ascii.eqb_eq in E2. subst c. discriminate H.
Qed.

Lemma split_flags_digits n : n <> "" -> all_digits n = true -> split_flags n = ("", n).
Proof.
  destruct n as [|c r]; [congruence|]. intros _ H. cbn in H.
  apply andb_true_iff in H. destruct H as [Hc _].
  cbn. rewrite (digit_not_flag c Hc). reflexivity.
Qed.

Lemma split_flags_star n : n <> "" -> all_digits n = true ->
  split_flags (String "*" n) = ("*", n).
Proof. intros H1 H2. cbn. rewrite (split_flags_digits n H1 H2). reflexivity. Qed.

Lemma split_flags_plus n : n <> "" -> all_digits n = true ->
  split_flags (String "+" n) = ("+", n).
Proof. intros H1 H2. cbn. rewrite (split_flags_digits n H1 H2). reflexivity. Qed.

(* ---- the parsed dictionary has distinct keys ---------------------------- *)

Lemma dict_set_keys {V} k (v : V) d x :
  In x (map fst (dict_set k v d)) <-> x = k \/ In x (map fst d).
Proof.
  induction d as [|[k' v'] r IH]; cbn.
  - intuition.
  - destruct (N.eqb k k') eqn:E; cbn.
    + apply N.eqb_eq in E. subst k'. intuition.
    + rewrite IH. intuition.
Qed.

Lemma dict_set_nodup {V} k (v : V) d :
  NoDup (map fst d) -> NoDup (map fst (dict_set k v d)).
Proof.
  induction d as [|[k' v'] r IH]; cbn; intros H.
  - constructor; [intros []|constructor].
  - inversion H as [|? ? Hn Hr]; subst.
    destruct (N.eqb k k') eqn:E; cbn.
    + apply N.eqb_eq in E. subst k'. constructor; assumption.
    + constructor; [|apply IH; assumption].
      intros Hin. apply dict_set_keys in Hin. destruct Hin as [->|Hin].
      * rewrite N.eqb_refl in E. discriminate.
      * contradiction.
Qed.

Lemma parse_cards_nodup cards : forall d t,
  NoDup (map fst d) -> parse_cards cards d = Ok t -> NoDup (map fst t).
Proof.
  induction cards as [|c r IH]; intros d t Hd H; cbn in H.
  - inversion H. subst. assumption.
  - destruct (split_flags (sc_name c)) as [f n].
    destruct (int_of_string n) as [k|]; [|discriminate].
    eapply IH; [|exact H]. apply dict_set_nodup. assumption.
Qed.

Theorem parsed_keys_distinct cards t :
  parse_cards cards [] = Ok t -> NoDup (map fst t).
Proof. apply parse_cards_nodup. constructor. Qed.

(* ---- boundary-condition entries ----------------------------------------- *)

Definition flagged (e : entry) : bool := negb (String.eqb (e_flag e) "").

Lemma recuperate_cons k e r :
  recuperate ((k, e) :: r) =
  if String.eqb (e_flag e) "" then recuperate r
  else if Nat.ltb 1 (e_mcnp e) then Err ENotImplemented
  else match recuperate r with Ok l => Ok ((k, e_flag e) :: l) | Err x => Err x end.
Proof. reflexivity. Qed.

Lemma recuperate_in t l k e :
  recuperate t = Ok l -> In (k, e) t -> e_flag e <> "" -> In (k, e_flag e) l.
Proof.
  revert l. induction t as [|[k' e'] r IH]; intros l H Hin Hf; [destruct Hin|].
  rewrite recuperate_cons in H. destruct (String.eqb (e_flag e') "") eqn:E0.
  - destruct Hin as [Heq|Hin].
    + inversion Heq; subst. apply String.eqb_eq in E0. contradiction.
    + apply IH; assumption.
  - destruct (Nat.ltb 1 (e_mcnp e')); [discriminate|].
    destruct (recuperate r) as [l'|]; [|discriminate]. inversion H; subst.
    destruct Hin as [Heq|Hin].
    + inversion Heq; subst. left. reflexivity.
    + right. apply IH; auto.
Qed.

Lemma recuperate_keys t l :
  recuperate t = Ok l ->
  map fst l = map fst (filter (fun ke => flagged (snd ke)) t).
Proof.
  revert l. induction t as [|[k' e'] r IH]; intros l H.
  - cbn in H. inversion H. reflexivity.
  - rewrite recuperate_cons in H. cbn [filter snd]. unfold flagged at 1.
    destruct (String.eqb (e_flag e') "") eqn:E0; cbn [negb].
    + apply IH. assumption.
    + destruct (Nat.ltb 1 (e_mcnp e')); [discriminate|].
      destruct (recuperate r) as [l'|]; [|discriminate]. inversion H; subst.
      cbn. f_equal. apply IH. reflexivity.
Qed.

Lemma recuperate_macro t k e :
  In (k, e) t -> e_flag e <> "" -> (1 < e_mcnp e)%nat ->
  recuperate t = Err ENotImplemented.
Proof.
  induction t as [|[k' e'] r IH]; intros Hin Hf Hm; [destruct Hin|].
  rewrite recuperate_cons. destruct Hin as [Heq|Hin].
  - inversion Heq; subst.
    destruct (String.eqb (e_flag e) "") eqn:E0.
    + apply String.eqb_eq in E0. contradiction.
    + apply Nat.ltb_lt in Hm. rewrite Hm. reflexivity.
  - specialize (IH Hin Hf Hm).
    destruct (String.eqb (e_flag e') ""); [assumption|].
    destruct (Nat.ltb 1 (e_mcnp e')); [reflexivity|]. rewrite IH. reflexivity.
Qed.

Lemma conv_kinds_keys l : forall prev out,
  conv_kinds l prev = Ok out -> map snd out = map fst l.
Proof.
  induction l as [|[k f] r IH]; intros prev out H; cbn in H.
  - inversion H. reflexivity.
  - destruct (kind_of_flag f prev) as [kd|]; [|discriminate].
    destruct (conv_kinds r (Some kd)) as [l'|] eqn:E; [|discriminate].
    inversion H; subst. cbn. f_equal. eapply IH. exact E.
Qed.

Lemma conv_kinds_star l : forall prev out k,
  conv_kinds l prev = Ok out -> In (k, "*") l -> In (Reflection, k) out.
Proof.
  induction l as [|[k' f] r IH]; intros prev out k H Hin; [destruct Hin|].
  cbn in H. destruct (kind_of_flag f prev) as [kd|] eqn:Ek; [|discriminate].
  destruct (conv_kinds r (Some kd)) as [l'|] eqn:E; [|discriminate].
  inversion H; subst. destruct Hin as [Heq|Hin].
  - inversion Heq; subst. cbn in Ek. inversion Ek. left. reflexivity.
  - right. eapply IH; eauto.
Qed.

Lemma conv_kinds_plus l : forall prev out k,
  conv_kinds l prev = Ok out -> In (k, "+") l -> In (Cosinus, k) out.
Proof.
  induction l as [|[k' f] r IH]; intros prev out k H Hin; [destruct Hin|].
  cbn in H. destruct (kind_of_flag f prev) as [kd|] eqn:Ek; [|discriminate].
  destruct (conv_kinds r (Some kd)) as [l'|] eqn:E; [|discriminate].
  inversion H; subst. destruct Hin as [Heq|Hin].
  - inversion Heq; subst. cbn in Ek. inversion Ek. left. reflexivity.
  - right. eapply IH; eauto.
Qed.

Lemma in_filter_keys (t : table) k :
  NoDup (map fst t) ->
  In k (map fst (filter (fun ke => flagged (snd ke)) t)) ->
  forall e, In (k, e) t -> flagged e = true.
Proof.
  intros Hnd Hin e He. apply in_map_iff in Hin. destruct Hin as [[k' e'] [Hk Hf]].
  cbn in Hk. subst k'. apply filter_In in Hf. destruct Hf as [Hin' Hfl]. cbn in Hfl.
  assert (e' = e); [|subst; assumption].
  clear Hfl. induction t as [|[k0 e0] r IH]; [destruct He|].
  cbn in Hnd. inversion Hnd as [|? ? Hn Hr]; subst.
  destruct He as [He|He]; destruct Hin' as [Hi|Hi].
  - congruence.
  - inversion He; subst. exfalso. apply Hn. apply in_map_iff. exists (k, e'). auto.
  - inversion Hi; subst. exfalso. apply Hn. apply in_map_iff. exists (k, e). auto.
  - apply IH; assumption.
Qed.

Definition kind_of (f : string) : kind := if String.eqb f "+" then Cosinus else Reflection.

(* a star gives REFLECTION, a plus COSINUS, no flag gives nothing *)
Theorem bc_kind t l k e :
  bc_entries t = Ok l -> In (k, e) t ->
  (e_flag e = "*" -> In (Reflection, k) l) /\
  (e_flag e = "+" -> In (Cosinus, k) l) /\
  (NoDup (map fst t) -> e_flag e = "" -> forall kd, ~ In (kd, k) l).
Proof.
  unfold bc_entries. intros H Hin. destruct (recuperate t) as [l0|] eqn:Er; [|discriminate].
  repeat split.
  - intros Hf. eapply conv_kinds_star; [exact H|]. rewrite <- Hf.
    eapply recuperate_in; eauto. rewrite Hf. discriminate.
  - intros Hf. eapply conv_kinds_plus; [exact H|]. rewrite <- Hf.
    eapply recuperate_in; eauto. rewrite Hf. discriminate.
  - intros Hnd Hf kd Hbad.
    assert (Hk : In k (map snd l)) by (apply in_map_iff; exists (kd, k); auto).
    rewrite (conv_kinds_keys _ _ _ H), (recuperate_keys _ _ Er) in Hk.
    pose proof (in_filter_keys t k Hnd Hk e Hin) as Hfl.
    unfold flagged in Hfl. rewrite Hf in Hfl. discriminate.
Qed.

Definition count_key (k : N) (l : list (kind * N)) : nat :=
  List.length (filter (fun x => N.eqb (snd x) k) l).

Lemma count_key_map k l :
  count_key k l = List.length (filter (N.eqb k) (map snd l)).
Proof.
  unfold count_key. induction l as [|[kd k'] r IH]; cbn; [reflexivity|].
  rewrite (N.eqb_sym k' k). destruct (N.eqb k k'); cbn; rewrite IH; reflexivity.
Qed.

Lemma count_nodup k (l : list N) :
  NoDup l -> List.length (filter (N.eqb k) l) = if existsb (N.eqb k) l then 1%nat else 0%nat.
Proof.
  induction l as [|x r IH]; intros H; cbn; [reflexivity|].
  inversion H as [|? ? Hn Hr]; subst. specialize (IH Hr).
  destruct (N.eqb k x) eqn:E; cbn.
  - apply N.eqb_eq in E. subst x. rewrite IH.
    destruct (existsb (N.eqb k) r) eqn:Ex; [|reflexivity].
    apply existsb_exists in Ex. destruct Ex as [y [Hy Hky]].
    apply N.eqb_eq in Hky. subst y. contradiction.
  - exact IH.
Qed.

Lemma nodup_filter_keys (t : table) f :
  NoDup (map fst t) -> NoDup (map fst (filter f t)).
Proof.
  induction t as [|[k e] r IH]; cbn; intros H; [constructor|].
  inversion H as [|? ? Hn Hr]; subst.
  destruct (f (k, e)); cbn; [|apply IH; assumption].
  constructor; [|apply IH; assumption].
  intros Hin. apply Hn. apply in_map_iff in Hin. destruct Hin as [[k' e'] [Hk Hf]].
  cbn in Hk. subst k'. apply filter_In in Hf. apply in_map_iff. exists (k, e'). tauto.
Qed.

(* exactly one entry designates a flagged surface's number, none an unflagged one *)
Theorem bc_one_per_flag t l k e :
  NoDup (map fst t) -> bc_entries t = Ok l -> In (k, e) t ->
  count_key k l = if String.eqb (e_flag e) "" then 0%nat else 1%nat.
Proof.
  unfold bc_entries. intros Hnd H Hin.
  destruct (recuperate t) as [l0|] eqn:Er; [|discriminate].
  rewrite count_key_map, (conv_kinds_keys _ _ _ H), (recuperate_keys _ _ Er).
  rewrite count_nodup by (apply nodup_filter_keys; assumption).
  destruct (existsb (N.eqb k) (map fst (filter (fun ke => flagged (snd ke)) t))) eqn:Ex.
  - apply existsb_exists in Ex. destruct Ex as [y [Hy Hky]]. apply N.eqb_eq in Hky. subst y.
    pose proof (in_filter_keys t k Hnd Hy e Hin) as Hfl. unfold flagged in Hfl.
    destruct (String.eqb (e_flag e) ""); [discriminate|reflexivity].
  - destruct (String.eqb (e_flag e) "") eqn:E0; [reflexivity|]. exfalso.
    assert (Hk : In k (map fst (filter (fun ke => flagged (snd ke)) t))).
    { apply in_map_iff. exists (k, e). split; [reflexivity|]. apply filter_In.
      split; [assumption|]. cbn. unfold flagged. rewrite E0. reflexivity. }
    assert (existsb (N.eqb k) (map fst (filter (fun ke => flagged (snd ke)) t)) = true).
    { apply existsb_exists. exists k. split; [assumption|apply N.eqb_refl]. }
    congruence.
Qed.

(* with flags that are one star or one plus and no flagged macrobody, the block
   is exactly the flagged keys in dictionary order with their kinds *)
Definition entry_of (ke : N * entry) : list (kind * N) :=
  if String.eqb (e_flag (snd ke)) "" then [] else [(kind_of (e_flag (snd ke)), fst ke)].

Definition proper (t : table) : Prop :=
  forall k e, In (k, e) t ->
    (e_flag e = "" \/ e_flag e = "*" \/ e_flag e = "+") /\
    (e_flag e <> "" -> (e_mcnp e <= 1)%nat).

Lemma conv_kinds_proper l : forall prev,
  (forall k f, In (k, f) l -> f = "*" \/ f = "+") ->
  conv_kinds l prev = Ok (map (fun kf => (kind_of (snd kf), fst kf)) l).
Proof.
  induction l as [|[k f] r IH]; intros prev H; cbn; [reflexivity|].
  assert (Hf : f = "*" \/ f = "+") by (eapply H; left; reflexivity).
  assert (Hk : kind_of_flag f prev = Some (kind_of f))
    by (destruct Hf as [->| ->]; reflexivity).
  rewrite Hk, IH; [reflexivity|]. intros k' f' Hin. eapply H. right. exact Hin.
Qed.

Theorem bc_entries_exact t :
  proper t -> bc_entries t = Ok (flat_map entry_of t).
Proof.
  intros Hp. unfold bc_entries.
  assert (Hr : recuperate t = Ok (flat_map (fun ke =>
            if String.eqb (e_flag (snd ke)) "" then [] else [(fst ke, e_flag (snd ke))]) t)).
  { induction t as [|[k e] r IH]; [reflexivity|]. rewrite recuperate_cons. cbn [flat_map fst snd].
    destruct (Hp k e (or_introl eq_refl)) as [_ Hm].
    assert (Hp' : proper r) by (intros k' e' Hin; apply (Hp k' e'); right; assumption).
    rewrite (IH Hp'). destruct (String.eqb (e_flag e) "") eqn:E0; [reflexivity|].
    assert (Hlt : Nat.ltb 1 (e_mcnp e) = false).
    { apply Nat.ltb_ge. apply Hm. intros Hc. rewrite Hc in E0. discriminate. }
    rewrite Hlt. reflexivity. }
  rewrite Hr. rewrite conv_kinds_proper.
  - f_equal. clear Hr. induction t as [|[k e] r IH]; [reflexivity|]. cbn.
    assert (Hp' : proper r) by (intros k' e' Hin; apply (Hp k' e'); right; assumption).
    unfold entry_of at 1. cbn [fst snd].
    destruct (String.eqb (e_flag e) ""); cbn; rewrite IH; auto.
  - intros k f Hin. apply in_flat_map in Hin. destruct Hin as [[k' e'] [Hin Hx]].
    cbn in Hx. destruct (String.eqb (e_flag e') "") eqn:E0; [destruct Hx|].
    destruct Hx as [Hx|[]]. inversion Hx; subst.
    destruct (Hp _ _ Hin) as [[H0|H1] _]; [|exact H1].
    rewrite H0 in E0. discriminate.
Qed.

(* a flag on a (multi-facet) macrobody is a NotImplementedError *)
Theorem macrobody_flag_rejected t k e :
  In (k, e) t -> e_flag e <> "" -> (1 < e_mcnp e)%nat ->
  bc_entries t = Err ENotImplemented.
Proof.
  intros Hin Hf Hm. unfold bc_entries.
  rewrite (recuperate_macro t k e Hin Hf Hm). reflexivity.
Qed.

Lemma macrobody_flag_stops_finish cfg t cells k e :
  skip_bc cfg = false ->
  In (k, e) t -> e_flag e <> "" -> (1 < e_mcnp e)%nat ->
  exists err, finish cfg t cells = Err err.
Proof.
  intros Hs Hin Hf Hm. unfold finish.
  destruct (geometry (negb (skip_dedup cfg)) t cells) as [surfs|x]; [|eauto].
  rewrite Hs, (macrobody_flag_rejected t k e Hin Hf Hm). eauto.
Qed.

Theorem macrobody_flag_stops_run cfg cards cells t k e :
  skip_bc cfg = false -> parse_cards cards [] = Ok t ->
  In (k, e) t -> e_flag e <> "" -> (1 < e_mcnp e)%nat ->
  exists err, run cfg cards cells = Err err.
Proof.
  intros Hs Hp Hin Hf Hm. unfold run. rewrite Hp.
  eapply macrobody_flag_stops_finish; eauto.
Qed.

(* the stale-variable quirk of conversionBoundCond *)
Theorem stale_kind_quirk k f r :
  f <> "*" -> f <> "+" ->
  conv_kinds ((k, f) :: r) None = Err EUnbound /\
  forall kd out, conv_kinds ((k, f) :: r) (Some kd) = Ok out -> In (kd, k) out.
Proof.
  intros H1 H2.
  assert (Hk : forall p, kind_of_flag f p = p).
  { intros p. unfold kind_of_flag.
    destruct (String.eqb f "+") eqn:E1; [apply String.eqb_eq in E1; contradiction|].
    destruct (String.eqb f "*") eqn:E2; [apply String.eqb_eq in E2; contradiction|].
    reflexivity. }
  split.
  - cbn. rewrite Hk. reflexivity.
  - intros kd out H. cbn in H. rewrite Hk in H.
    destruct (conv_kinds r (Some kd)); [|discriminate]. inversion H. left. reflexivity.
Qed.

(* ---- which numbers are written ----------------------------------------- *)

Lemma dict_get_In {V} k (v : V) d : dict_get k d = Some v -> In (k, v) d.
Proof.
  induction d as [|[k' v'] r IH]; cbn; [discriminate|].
  destruct (N.eqb k k') eqn:E.
  - apply N.eqb_eq in E. subst. intros H. inversion H. left. reflexivity.
  - intros H. right. apply IH. assumption.
Qed.

Lemma dict_get_app_miss {V} k (a b : list (N * V)) :
  (forall x, In x (map fst a) -> x <> k) -> dict_get k (a ++ b) = dict_get k b.
Proof.
  induction a as [|[k' v'] r IH]; intros H; cbn; [reflexivity|].
  destruct (N.eqb k k') eqn:E.
  - apply N.eqb_eq in E. subst. exfalso. apply (H k'); [left; reflexivity|reflexivity].
  - apply IH. intros x Hx. apply H. right. assumption.
Qed.

Lemma number_aux_spec aux : forall free,
  (free <= snd (number_aux aux free))%N /\
  forall x, In x (map fst (fst (number_aux aux free))) -> (free <= x)%N.
Proof.
  induction aux as [|d r IH]; intros free; cbn.
  - split; [lia|intros x []].
  - destruct (number_aux r (N.succ free)) as [nb free'] eqn:E.
    specialize (IH (N.succ free)). rewrite E in IH. cbn in IH. destruct IH as [H1 H2].
    cbn. split; [lia|]. intros x [Hx|Hx]; [lia|]. specialize (H2 x Hx). lia.
Qed.

Lemma number_from_get t : forall free k e,
  NoDup (map fst t) -> (forall k' e', In (k', e') t -> (k' < free)%N) ->
  In (k, e) t -> dict_get k (number_from t free) = Some (e_first e).
Proof.
  induction t as [|[k0 e0] r IH]; intros free k e Hnd Hlt Hin; [destruct Hin|].
  cbn. destruct (number_aux (e_aux e0) free) as [nb free'] eqn:E.
  pose proof (number_aux_spec (e_aux e0) free) as Hs. rewrite E in Hs. cbn in Hs.
  destruct Hs as [Hfree Hkeys].
  inversion Hnd as [|? ? Hn Hr]; subst. cbn.
  destruct (N.eqb k k0) eqn:Ek.
  - apply N.eqb_eq in Ek. subst k0. destruct Hin as [Heq|Hin].
    + inversion Heq; subst. reflexivity.
    + exfalso. apply Hn. apply in_map_iff. exists (k, e). auto.
  - destruct Hin as [Heq|Hin].
    + inversion Heq; subst. rewrite N.eqb_refl in Ek. discriminate.
    + rewrite dict_get_app_miss.
      * apply IH; try assumption. intros k' e' Hin'.
        specialize (Hlt k' e' (or_intror Hin')). lia.
      * intros x Hx. specialize (Hkeys x Hx).
        specialize (Hlt k e (or_intror Hin)). lia.
Qed.

Lemma max_key_ge {V} (d : list (N * V)) k v : In (k, v) d -> (k <= max_key d)%N.
Proof.
  induction d as [|[k' v'] r IH]; intros H; [destruct H|]. cbn.
  destruct H as [H|H]; [inversion H; subst; lia|]. specialize (IH H). lia.
Qed.

Lemma number_items_get t k e :
  NoDup (map fst t) -> In (k, e) t -> dict_get k (number_items t) = Some (e_first e).
Proof.
  intros Hnd Hin. unfold number_items. apply number_from_get; try assumption.
  intros k' e' Hin'. pose proof (max_key_ge t k' e' Hin'). lia.
Qed.

Lemma min_with_spec d nb : forall m,
  min_with d nb = Some m -> In (m, d) nb /\ forall k', In (k', d) nb -> (m <= k')%N.
Proof.
  induction nb as [|[k d'] r IH]; intros m H; cbn in H; [discriminate|].
  destruct (N.eqb d d') eqn:E.
  - apply N.eqb_eq in E. subst d'. destruct (min_with d r) as [m'|] eqn:Em.
    + inversion H; subst. destruct (IH m' eq_refl) as [Hin Hmin]. split.
      * destruct (N.min_spec k m') as [[_ ->]|[_ ->]]; [left; reflexivity|right; assumption].
      * intros k' [Hk|Hk]; [inversion Hk; subst; lia|]. specialize (Hmin k' Hk). lia.
    + inversion H; subst. split; [left; reflexivity|].
      intros k' [Hk|Hk]; [inversion Hk; subst; lia|]. exfalso.
      clear - Em Hk. induction r as [|[k0 d0] r IH]; [destruct Hk|]. cbn in Em.
      destruct Hk as [Hk|Hk].
      * inversion Hk; subst. rewrite N.eqb_refl in Em. destruct (min_with d r); discriminate.
      * destruct (N.eqb d d0); [destruct (min_with d r); discriminate|]. apply IH; assumption.
  - destruct (IH m H) as [Hin Hmin]. split; [right; assumption|].
    intros k' [Hk|Hk]; [|apply Hmin; assumption].
    inversion Hk; subst. rewrite N.eqb_refl in E. discriminate.
Qed.

Lemma min_with_some d nb k : In (k, d) nb -> exists m, min_with d nb = Some m.
Proof.
  induction nb as [|[k0 d0] r IH]; intros H; [destruct H|]. cbn.
  destruct (N.eqb d d0) eqn:E.
  - destruct (min_with d r); eauto.
  - destruct H as [H|H]; [inversion H; subst; rewrite N.eqb_refl in E; discriminate|].
    apply IH. assumption.
Qed.

(* [k] is the smallest-numbered among the surfaces equal to it *)
Definition smallest_dup (nb : numbering) (k : N) : Prop :=
  forall d k', dict_get k nb = Some d -> In (k', d) nb -> (k <= k')%N.

Lemma repr_of_self dedup nb k d :
  dict_get k nb = Some d -> (dedup = false \/ smallest_dup nb k) ->
  repr_of dedup nb k = Some k.
Proof.
  intros Hd Hg. unfold repr_of. rewrite Hd. destruct dedup; [|reflexivity].
  destruct Hg as [Hg|Hg]; [discriminate|].
  pose proof (dict_get_In _ _ _ Hd) as Hin.
  destruct (min_with_some d nb k Hin) as [m Hm]. rewrite Hm.
  destruct (min_with_spec d nb m Hm) as [Hmin Hle].
  specialize (Hle k Hin). specialize (Hg d m Hd Hmin). f_equal. lia.
Qed.

Lemma renumber_in dedup nb ids : forall out k,
  renumber dedup nb ids = Ok out -> In k ids ->
  exists k', repr_of dedup nb k = Some k' /\ In k' out.
Proof.
  induction ids as [|x r IH]; intros out k H Hin; [destruct Hin|]. cbn in H.
  destruct (repr_of dedup nb x) as [x'|] eqn:Ex; [|discriminate].
  destruct (renumber dedup nb r) as [l|] eqn:Er; [|discriminate]. inversion H; subst.
  destruct Hin as [->|Hin].
  - exists x'. split; [assumption|left; reflexivity].
  - destruct (IH l k eq_refl Hin) as [k' [H1 H2]]. exists k'. split; [assumption|right; assumption].
Qed.

Lemma renumber_out dedup nb ids : forall out k',
  renumber dedup nb ids = Ok out -> In k' out ->
  exists k, In k ids /\ repr_of dedup nb k = Some k'.
Proof.
  induction ids as [|x r IH]; intros out k' H Hin; cbn in H.
  - inversion H; subst. destruct Hin.
  - destruct (repr_of dedup nb x) as [x'|] eqn:Ex; [|discriminate].
    destruct (renumber dedup nb r) as [l|] eqn:Er; [|discriminate]. inversion H; subst.
    destruct Hin as [->|Hin].
    + exists x. split; [left; reflexivity|assumption].
    + destruct (IH l k' eq_refl Hin) as [k [H1 H2]]. exists k. split; [right; assumption|assumption].
Qed.

(* a cell survives: after renumbering, no id is on both sides *)
Definition survives (dedup : bool) (nb : numbering) (c : cell) : Prop :=
  exists p m, renumber dedup nb (pluses c) = Ok p /\
              renumber dedup nb (minuses c) = Ok m /\ empty_vol p m = false.

Definition bounds (c : cell) (k : N) : Prop := In k (pluses c) \/ In k (minuses c).

Lemma used_ids_in dedup nb cells : forall u c p m,
  used_ids dedup nb cells = Ok u -> In c cells ->
  renumber dedup nb (pluses c) = Ok p -> renumber dedup nb (minuses c) = Ok m ->
  empty_vol p m = false -> forall x, In x (p ++ m) -> In x u.
Proof.
  induction cells as [|c0 r IH]; intros u c p m H Hin Hp Hm He x Hx; [destruct Hin|].
  cbn in H.
  destruct (renumber dedup nb (pluses c0)) as [p0|] eqn:Ep0; [|discriminate].
  destruct (renumber dedup nb (minuses c0)) as [m0|] eqn:Em0; [|discriminate].
  destruct (used_ids dedup nb r) as [u0|] eqn:Eu; [|discriminate]. inversion H; subst.
  destruct Hin as [->|Hin].
  - rewrite Hp in Ep0. rewrite Hm in Em0. inversion Ep0; inversion Em0; subst.
    rewrite He. rewrite app_assoc. apply in_or_app. left. assumption.
  - assert (In x u0) by (eapply IH; eauto).
    destruct (empty_vol p0 m0); [assumption|].
    apply in_or_app. right. apply in_or_app. right. assumption.
Qed.

Lemma used_ids_out dedup nb cells : forall u x,
  used_ids dedup nb cells = Ok u -> In x u ->
  exists c p m, In c cells /\ renumber dedup nb (pluses c) = Ok p /\
                renumber dedup nb (minuses c) = Ok m /\ empty_vol p m = false /\
                In x (p ++ m).
Proof.
  induction cells as [|c0 r IH]; intros u x H Hx; cbn in H.
  - inversion H; subst. destruct Hx.
  - destruct (renumber dedup nb (pluses c0)) as [p0|] eqn:Ep0; [|discriminate].
    destruct (renumber dedup nb (minuses c0)) as [m0|] eqn:Em0; [|discriminate].
    destruct (used_ids dedup nb r) as [u0|] eqn:Eu; [|discriminate]. inversion H; subst.
    assert (Hrec : In x u0 -> exists c p m, In c (c0 :: r) /\
              renumber dedup nb (pluses c) = Ok p /\ renumber dedup nb (minuses c) = Ok m /\
              empty_vol p m = false /\ In x (p ++ m)).
    { intros Hu. destruct (IH u0 x eq_refl Hu) as [c [p [m [H1 H2]]]].
      exists c, p, m. split; [right; assumption|assumption]. }
    destruct (empty_vol p0 m0) eqn:Ee; [auto|].
    rewrite app_assoc in Hx. apply in_app_or in Hx. destruct Hx as [Hx|Hx]; [|auto].
    exists c0, p0, m0. repeat split; auto. left. reflexivity.
Qed.

Lemma insert_uniq_in k l x : In x (insert_uniq k l) <-> x = k \/ In x l.
Proof.
  induction l as [|y r IH]; cbn; [intuition|].
  destruct (N.ltb k y); [cbn; intuition|].
  destruct (N.eqb k y) eqn:E.
  - apply N.eqb_eq in E. subst. cbn. intuition.
  - cbn. rewrite IH. intuition.
Qed.

Lemma sort_uniq_in l x : In x (sort_uniq l) <-> In x l.
Proof.
  induction l as [|y r IH]; cbn; [tauto|]. rewrite insert_uniq_in, IH. intuition.
Qed.

Lemma surf_lines_in nb ids : forall l k,
  surf_lines nb ids = Ok l -> In k ids -> exists d, dict_get k nb = Some d /\ In (k, d) l.
Proof.
  induction ids as [|x r IH]; intros l k H Hin; [destruct Hin|]. cbn in H.
  destruct (dict_get x nb) as [d|] eqn:Ed; [|discriminate].
  destruct (surf_lines nb r) as [l'|] eqn:El; [|discriminate]. inversion H; subst.
  destruct Hin as [->|Hin].
  - exists d. split; [assumption|left; reflexivity].
  - destruct (IH l' k eq_refl Hin) as [d' [H1 H2]]. exists d'. split; [assumption|right; assumption].
Qed.

Lemma surf_lines_out nb ids : forall l k d,
  surf_lines nb ids = Ok l -> In (k, d) l -> In k ids /\ dict_get k nb = Some d.
Proof.
  induction ids as [|x r IH]; intros l k d H Hin; cbn in H.
  - inversion H; subst. destruct Hin.
  - destruct (dict_get x nb) as [d0|] eqn:Ed; [|discriminate].
    destruct (surf_lines nb r) as [l'|] eqn:El; [|discriminate]. inversion H; subst.
    destruct Hin as [Heq|Hin].
    + inversion Heq; subst. split; [left; reflexivity|assumption].
    + destruct (IH l' k d eq_refl Hin) as [H1 H2]. split; [right; assumption|assumption].
Qed.

Lemma geometry_ok dedup t cells surfs :
  geometry dedup t cells = Ok surfs ->
  exists u, used_ids dedup (number_items t) cells = Ok u /\
            surf_lines (number_items t) (sort_uniq u) = Ok surfs.
Proof.
  unfold geometry. destruct t as [|x r]; [discriminate|].
  destruct (used_ids dedup (number_items (x :: r)) cells) as [u|] eqn:Eu; [|discriminate].
  destruct u as [|y u']; [discriminate|]. intros H. exists (y :: u'). auto.
Qed.

(* the written SURF lines are exactly the representatives of the surfaces
   used by surviving cells, each with its own descriptor *)
Theorem written_surfaces_exact dedup t cells surfs k d :
  geometry dedup t cells = Ok surfs ->
  (In (k, d) surfs <->
   dict_get k (number_items t) = Some d /\
   exists c k0, In c cells /\ survives dedup (number_items t) c /\ bounds c k0 /\
                repr_of dedup (number_items t) k0 = Some k).
Proof.
  intros Hg. destruct (geometry_ok _ _ _ _ Hg) as [u [Hu Hl]]. split.
  - intros Hin. destruct (surf_lines_out _ _ _ _ _ Hl Hin) as [Hk Hd]. split; [assumption|].
    apply (proj1 (sort_uniq_in _ _)) in Hk.
    destruct (used_ids_out _ _ _ _ _ Hu Hk) as [c [p [m [Hc [Hp [Hm [He Hx]]]]]]].
    apply in_app_or in Hx. destruct Hx as [Hx|Hx].
    + destruct (renumber_out _ _ _ _ _ Hp Hx) as [k0 [H1 H2]].
      exists c, k0. repeat split; auto. exists p, m. auto. left. assumption.
    + destruct (renumber_out _ _ _ _ _ Hm Hx) as [k0 [H1 H2]].
      exists c, k0. repeat split; auto. exists p, m. auto. right. assumption.
  - intros [Hd [c [k0 [Hc [[p [m [Hp [Hm He]]]] [Hb Hr]]]]]].
    assert (Hk : In k (p ++ m)).
    { destruct Hb as [Hb|Hb].
      - destruct (renumber_in _ _ _ _ _ Hp Hb) as [k' [H1 H2]]. rewrite Hr in H1.
        inversion H1; subst. apply in_or_app. left. assumption.
      - destruct (renumber_in _ _ _ _ _ Hm Hb) as [k' [H1 H2]]. rewrite Hr in H1.
        inversion H1; subst. apply in_or_app. right. assumption. }
    pose proof (used_ids_in _ _ _ _ _ _ _ Hu Hc Hp Hm He k Hk) as Hku.
    apply (proj2 (sort_uniq_in _ _)) in Hku.
    destruct (surf_lines_in _ _ _ _ Hl Hku) as [d' [H1 H2]]. rewrite Hd in H1.
    inversion H1; subst. assumption.
Qed.

(* the main statement, under the guard the code needs, for any complete
   surface dictionary with distinct keys *)
Lemma finish_designates cfg t cells surfs bcs k e :
  skip_bc cfg = false -> NoDup (map fst t) ->
  finish cfg t cells = Ok (surfs, bcs) ->
  In (k, e) t -> (e_flag e = "*" \/ e_flag e = "+") ->
  (exists c, In c cells /\ survives (negb (skip_dedup cfg)) (number_items t) c /\ bounds c k) ->
  (skip_dedup cfg = true \/ smallest_dup (number_items t) k) ->
  In (kind_of (e_flag e), k) bcs /\ In (k, e_first e) surfs.
Proof.
  intros Hs Hnd Hrun Hin Hf [c [Hc [Hsv Hb]]] Hg.
  unfold finish in Hrun.
  destruct (geometry (negb (skip_dedup cfg)) t cells) as [surfs'|] eqn:Egeo; [|discriminate].
  rewrite Hs in Hrun. destruct (bc_entries t) as [bcs'|] eqn:Ebc; [|discriminate].
  inversion Hrun; subst surfs' bcs'. clear Hrun.
  split.
  - destruct (bc_kind t bcs k e Ebc Hin) as [H1 [H2 _]].
    destruct Hf as [Hf|Hf]; rewrite Hf; cbn; auto.
  - apply (written_surfaces_exact _ _ _ _ k (e_first e) Egeo).
    pose proof (number_items_get t k e Hnd Hin) as Hd. split; [assumption|].
    exists c, k. repeat split; auto.
    apply (repr_of_self _ _ _ _ Hd). destruct Hg as [Hg|Hg]; [left|right; assumption].
    rewrite Hg. reflexivity.
Qed.

Theorem bc_designates_present_same_locus cfg cards cells t surfs bcs k e :
  skip_bc cfg = false ->
  parse_cards cards [] = Ok t ->
  run cfg cards cells = Ok (surfs, bcs) ->
  In (k, e) t -> (e_flag e = "*" \/ e_flag e = "+") ->
  (exists c, In c cells /\ survives (negb (skip_dedup cfg)) (number_items t) c /\ bounds c k) ->
  (skip_dedup cfg = true \/ smallest_dup (number_items t) k) ->
  In (kind_of (e_flag e), k) bcs /\ In (k, e_first e) surfs.
Proof.
  intros Hs Hp Hrun. unfold run in Hrun. rewrite Hp in Hrun.
  eapply finish_designates; eauto. eapply parsed_keys_distinct; eauto.
Qed.

(* ---- the statement is false without the guard --------------------------- *)

(* *2 PX 0 and *3 PX 0 (class 7), the cell uses 3: entry for 3, SURF 2 only *)
Definition w_dedup_cards : list scard :=
  [mkS "1" 1 5 []; mkS "*2" 1 7 []; mkS "*3" 1 7 []; mkS "4" 1 9 []].
Definition w_dedup_cells : list cell := [(1%N, [(-1)%Z; 3%Z; (-4)%Z])].

Theorem bc_dedup_refuted :
  exists t surfs bcs k e c,
    parse_cards w_dedup_cards [] = Ok t /\
    run (mkCfg false false) w_dedup_cards w_dedup_cells = Ok (surfs, bcs) /\
    In (k, e) t /\ e_flag e = "*" /\
    In c w_dedup_cells /\ survives true (number_items t) c /\ bounds c k /\
    In (Reflection, k) bcs /\ ~ In k (map fst surfs).
Proof.
  eexists. exists [(1, 5); (2, 7); (4, 9)]%N, [(Reflection, 2%N); (Reflection, 3%N)], 3%N.
  eexists. exists (1%N, [(-1)%Z; 3%Z; (-4)%Z]).
  split; [vm_compute; reflexivity|].
  split; [vm_compute; reflexivity|].
  split; [right; right; left; reflexivity|].
  split; [reflexivity|].
  split; [left; reflexivity|].
  split; [exists [2%N], [1%N; 4%N]; repeat split; vm_compute; reflexivity|].
  split; [left; left; reflexivity|].
  split; [right; left; reflexivity|].
  cbn. intros [H|[H|[H|[]]]]; discriminate.
Qed.

(* *5 PY 7 is used by no cell: entry for 5, no SURF 5 *)
Definition w_unused_cards : list scard :=
  [mkS "1" 1 5 []; mkS "2" 1 7 []; mkS "4" 1 9 []; mkS "*5" 1 11 []].
Definition w_unused_cells : list cell := [(1%N, [(-1)%Z; 2%Z; (-4)%Z])].

Theorem bc_unused_refuted :
  exists t surfs bcs e,
    parse_cards w_unused_cards [] = Ok t /\
    (forall dedup, run (mkCfg dedup false) w_unused_cards w_unused_cells = Ok (surfs, bcs)) /\
    In (5%N, e) t /\ e_flag e = "*" /\ smallest_dup (number_items t) 5 /\
    In (Reflection, 5%N) bcs /\ ~ In 5%N (map fst surfs).
Proof.
  eexists. exists [(1, 5); (2, 7); (4, 9)]%N, [(Reflection, 5%N)]. eexists.
  split; [vm_compute; reflexivity|].
  split; [intros []; vm_compute; reflexivity|].
  split; [right; right; right; left; reflexivity|].
  split; [reflexivity|].
  split.
  - intros d k' Hd Hin. vm_compute in Hd. inversion Hd; subst d. vm_compute in Hin.
    destruct Hin as [H|[H|[H|[H|[]]]]]; inversion H; subst; lia.
  - split; [left; reflexivity|]. cbn. intros [H|[H|[H|[]]]]; discriminate.
Qed.
