(* C16 linked with C01 (and C13).  C01 models pot_convert (cell tree ->
   VolumeT4 table: which surface ids land in PLUS / MINUS of which volume), the
   final loop of construct_volume_t4 and the pruning passes, and proves that
   every converted cell's volume has the denotation of the cell card
   (C01_cells) and that pruning keeps it (prune_sound).  Here the volume-level
   premise of C16's linked statements, "the representative of the flagged
   surface is used by a written volume", is DERIVED from a premise on the cell
   cards: crossing the flagged surface (and the surfaces merged with it, nothing
   else) takes a point out of a converted cell.  C01's and C13's files are
   only read. *)
From Coq Require Import List ZArith NArith Bool Lia Reals.
From T4V Require Import Base.Scalar.
From T4V Require C13.Model C13.ProofsDedup.
From T4V Require Import C01.Model C01.Spec C01.ProofsTree C01.ProofsT4 C01.ProofsCells
     C01.ProofsPrune C01.ProofsEmpty C01.ProofsWritten.
Import ListNotations.
Open Scope Z_scope.

(* ---- a denotation only looks at the surfaces of the table ---------------- *)

(* extract_used_surfaces: the ids in the PLUS / MINUS lists of every volume *)
Definition surf_ids (d : dict vol) : list Z :=
  flat_map (fun kv => v_plus (snd kv) ++ v_minus (snd kv)) d.

Lemma surf_ids_in d k v s : In (k, v) d -> In s (v_plus v ++ v_minus v) -> In s (surf_ids d).
Proof. intros Hin Hs. unfold surf_ids. apply in_flat_map. exists (k, v). auto. Qed.

Lemma forallb_agree {X} (f g : X -> bool) l :
  (forall x, In x l -> f x = g x) -> forallb f l = forallb g l.
Proof.
  induction l as [|x r IH]; intros H; cbn; [reflexivity|].
  rewrite (H x (or_introl eq_refl)), IH; [reflexivity|]. intros y Hy. apply H. right. assumption.
Qed.

Lemma equa_agree (s1 s2 : Z -> bool) v :
  (forall z, In z (v_plus v ++ v_minus v) -> s1 z = s2 z) -> equa s1 v = equa s2 v.
Proof.
  intros H. unfold equa. f_equal.
  - apply forallb_agree. intros z Hz. apply H. apply in_or_app. left. assumption.
  - apply forallb_agree. intros z Hz. f_equal. apply H. apply in_or_app. right. assumption.
Qed.

Lemma Vden_agree (s1 s2 : Z -> bool) d :
  (forall z, In z (surf_ids d) -> s1 z = s2 z) ->
  forall id b, Vden s1 d id b -> Vden s2 d id b.
Proof.
  intros Hag.
  assert (He : forall id v, lookup id d = Some v -> equa s1 v = equa s2 v).
  { intros id v Hl. apply equa_agree. intros z Hz. apply Hag.
    eapply surf_ids_in; [apply lookup_In; exact Hl|exact Hz]. }
  apply (Vden_mut s1 d (fun id b _ => Vden s2 d id b) (fun ids bs _ => VdenL s2 d ids bs)).
  - intros id v Hl Ho. rewrite (He id v Hl). apply Vden_plain; assumption.
  - intros id v ids bs Hl Ho _ IH. rewrite (He id v Hl). eapply Vden_inte; eauto.
  - intros id v ids bs Hl Ho _ IH. rewrite (He id v Hl). eapply Vden_union; eauto.
  - constructor.
  - intros id b ids bs _ IH1 _ IH2. constructor; assumption.
Qed.

(* if two sense assignments that agree everywhere except on the set [D] give a
   volume different denotations, the table mentions a surface of [D] *)
Lemma Vden_differ (s1 s2 : Z -> bool) (D : Z -> Prop) d id :
  (forall z, ~ D z -> s1 z = s2 z) ->
  Vden s1 d id true -> Vden s2 d id false ->
  exists z, In z (surf_ids d) /\ D z.
Proof.
  intros Hag H1 H2.
  destruct (existsb (fun z => negb (Bool.eqb (s1 z) (s2 z))) (surf_ids d)) eqn:E.
  - apply existsb_exists in E. destruct E as [z [Hz Hne]]. exists z. split; [assumption|].
    destruct (Bool.eqb (s1 z) (s2 z)) eqn:Eb; [discriminate|].
    destruct (Classical_Prop.classic (D z)) as [HD|HD]; [assumption|].
    rewrite (Hag z HD) in Eb. rewrite Bool.eqb_reflx in Eb. discriminate.
  - exfalso. assert (Hall : forall z, In z (surf_ids d) -> s1 z = s2 z).
    { intros z Hz. destruct (Bool.eqb (s1 z) (s2 z)) eqn:Eb; [apply Bool.eqb_prop; assumption|].
      assert (existsb (fun z => negb (Bool.eqb (s1 z) (s2 z))) (surf_ids d) = true).
      { apply existsb_exists. exists z. rewrite Eb. auto. }
      congruence. }
    pose proof (Vden_agree s1 s2 d Hall id true H1) as H1'.
    pose proof (Vden_fun s2 d id true H1' false H2). discriminate.
Qed.

(* ---- the ids of the pruned table are images of the renumbering ----------- *)

Definition all_ids (P : Z -> Prop) (d : dict vol) : Prop :=
  forall k v, In (k, v) d -> forall s, In s (v_plus v ++ v_minus v) -> P s.

Lemma in_dset {V} k (v : V) d e : In e (dset k v d) -> e = (k, v) \/ In e d.
Proof.
  induction d as [|[k' v'] r IH]; cbn; [intros [H|[]]; auto|].
  destruct (k =? k'); cbn; intros [H|H]; auto. destruct (IH H); auto.
Qed.

Lemma in_ddel {V} k (d : dict V) e : In e (ddel k d) -> In e d.
Proof.
  induction d as [|[k' v'] r IH]; cbn; [auto|].
  destruct (k =? k'); cbn; [auto|]. intros [H|H]; auto.
Qed.

Lemma in_dedup l x : In x (dedup l) -> In x l.
Proof.
  induction l as [|y0 r IH]; cbn; [auto|]. destruct (mem y0 r); cbn; [auto|]. intros [H|H]; auto.
Qed.

Lemma map_opt_in {X Y} (f : X -> option Y) l : forall ys y,
  map_opt f l = Some ys -> In y ys -> exists x, In x l /\ f x = Some y.
Proof.
  induction l as [|x r IH]; intros ys y H Hy; cbn in H.
  { inversion H; subst. destruct Hy. }
  destruct (f x) as [y0|] eqn:Ef; [|discriminate].
  destruct (map_opt f r) as [ys0|] eqn:Er; [|discriminate]. inversion H; subst ys.
  destruct Hy as [Heq|Hy].
  { exists x. split; [left; reflexivity|]. rewrite Ef, Heq. reflexivity. }
  destruct (IH ys0 y eq_refl Hy) as [x0 [H1 H2]]. exists x0. split; [right; assumption|assumption].
Qed.

Definition img (r : dict Z) (s : Z) : Prop := exists u, lookup u r = Some s.

Lemma renumber_all_ids r d : forall d', renumber r d = Ok d' -> all_ids (img r) d'.
Proof.
  induction d as [|[k v] rest IH]; intros d' H; cbn in H.
  - inversion H; subst. intros k v [].
  - destruct (map_opt (fun x => lookup x r) (v_plus v)) as [p|] eqn:Ep;
      destruct (map_opt (fun x => lookup x r) (v_minus v)) as [m|] eqn:Em;
      destruct (renumber r rest) as [r'|] eqn:Er; try discriminate.
    inversion H; subst d'. intros k0 v0 [Heq|Hin] s Hs.
    + inversion Heq; subst. cbn in Hs. apply in_app_or in Hs. destruct Hs as [Hs|Hs].
      * apply in_dedup in Hs. destruct (map_opt_in _ _ _ _ Ep Hs) as [x [_ Hx]]. exists x. exact Hx.
      * apply in_dedup in Hs. destruct (map_opt_in _ _ _ _ Em Hs) as [x [_ Hx]]. exists x. exact Hx.
    + eapply IH; eauto.
Qed.

Section Ids.
Variable P : Z -> Prop.
Variables v0 v1 : Z.
Hypothesis P0 : P v0.
Hypothesis P1 : P v1.

Lemma empty_step_ids todo : forall d, all_ids P d -> all_ids P (fst (empty_step v0 v1 todo d)).
Proof.
  induction todo as [|key r IH]; intros d Hd; cbn; [assumption|].
  destruct (lookup key d) as [v|]; [|apply IH; assumption].
  destruct (is_union_ops (v_ops v)).
  - apply IH. intros k0 w Hin s Hs. apply in_dset in Hin. destruct Hin as [Heq|Hin].
    + inversion Heq; subst. cbn in Hs. destruct Hs as [<-|[<-|[]]]; assumption.
    + eapply Hd; eauto.
  - destruct (empty_step v0 v1 r (ddel key d)) as [d' rem] eqn:E. cbn.
    specialize (IH (ddel key d)). rewrite E in IH. cbn in IH. apply IH.
    intros k0 w Hin. apply in_ddel in Hin. eapply Hd; eauto.
Qed.

Lemma empty_scan_ids removed : forall d, all_ids P d -> all_ids P (fst (empty_scan removed d)).
Proof.
  induction d as [|[k v] r IH]; intros Hd; cbn; [assumption|].
  destruct (empty_scan removed r) as [r' todo] eqn:E. cbn in IH.
  assert (Hr : all_ids P r') by (apply IH; intros k0 w Hin; apply (Hd k0 w); right; assumption).
  assert (Hv : forall s, In s (v_plus v ++ v_minus v) -> P s)
    by (apply (Hd k v); left; reflexivity).
  destruct (v_ops v) as [[[|] ids]|]; cbn.
  - destruct (existsb (in_removed removed) ids); cbn;
      (intros k0 w [Heq|Hin]; [inversion Heq; subst; exact Hv|eapply Hr; eauto]).
  - intros k0 w [Heq|Hin]; [inversion Heq; subst; exact Hv|eapply Hr; eauto].
  - intros k0 w [Heq|Hin]; [inversion Heq; subst; exact Hv|eapply Hr; eauto].
Qed.

Lemma empty_loop_ids fuel : forall todo removed d,
  all_ids P d -> all_ids P (empty_loop fuel v0 v1 todo removed d).
Proof.
  induction fuel as [|f IH]; intros todo removed d Hd; cbn.
  - destruct todo; assumption.
  - destruct todo as [|t0 tr]; [assumption|].
    destruct (empty_step v0 v1 (t0 :: tr) d) as [d1 now] eqn:E1.
    destruct (empty_scan (now ++ removed) d1) as [d2 todo'] eqn:E2.
    apply IH. pose proof (empty_scan_ids (now ++ removed) d1) as H2. rewrite E2 in H2. apply H2.
    pose proof (empty_step_ids (t0 :: tr) d Hd) as H1. rewrite E1 in H1. exact H1.
Qed.
End Ids.

Lemma remove_unused_ids P d : all_ids P d -> all_ids P (remove_unused d).
Proof.
  intros Hd k v Hin. unfold remove_unused in Hin. apply filter_In in Hin. eapply Hd. apply Hin.
Qed.

Lemma prune_ids u0 u1 r d d' : prune u0 u1 (Some r) d = Ok d' -> all_ids (img r) d'.
Proof.
  unfold prune. destruct (renumber r d) as [dr|] eqn:Er; [|discriminate].
  destruct (lookup u0 r) as [w0|] eqn:E0; [|discriminate].
  destruct (lookup u1 r) as [w1|] eqn:E1; [|discriminate]. intros H. inversion H; subst d'.
  apply remove_unused_ids. unfold remove_empty. apply empty_loop_ids.
  - exists u0. assumption.
  - exists u1. assumption.
  - eapply renumber_all_ids; eauto.
Qed.

Lemma all_ids_surf_ids P d z : all_ids P d -> In z (surf_ids d) -> P z.
Proof.
  intros H Hz. unfold surf_ids in Hz. apply in_flat_map in Hz. destruct Hz as [[k v] [Hin Hs]].
  eapply H; eauto.
Qed.

(* ---- C13's renumbering: survivors are fixed points ----------------------- *)

Lemma lookup13 {V} k (d : list (Z * V)) : C13.Model.lookup k d = lookup k d.
Proof.
  induction d as [|[k' v] r IH]; cbn; [reflexivity|]. rewrite (Z.eqb_sym k' k).
  destruct (k =? k'); [reflexivity|exact IH].
Qed.

Lemma ren_fixed (surfs : list (Z * C13.Model.desc R)) u z :
  NoDup (map fst surfs) ->
  lookup u (snd (C13.Model.remove_duplicate_surfaces RS surfs)) = Some z ->
  lookup z (snd (C13.Model.remove_duplicate_surfaces RS surfs)) = Some z.
Proof.
  intros Hnd Hl. set (ren := snd (C13.Model.remove_duplicate_surfaces RS surfs)) in *.
  apply lookup_In in Hl.
  destruct (C13.ProofsDedup.dedup_merges_equal surfs u z Hl) as [d [Hu [Hz _]]].
  assert (Hk : In z (map fst ren)).
  { eapply Permutation.Permutation_in;
      [apply Permutation.Permutation_sym; apply C13.ProofsDedup.dedup_covers|].
    apply in_map_iff. exists (z, d). auto. }
  apply C13.Proofs.lookup_keys in Hk. rewrite lookup13 in Hk.
  destruct (lookup z ren) as [z2|] eqn:E2; [|contradiction]. f_equal.
  pose proof (lookup_In _ _ _ E2) as Hin2.
  pose proof (C13.ProofsDedup.dedup_survivor_smallest RS surfs z z2 Hin2) as Hle.
  destruct (C13.ProofsDedup.dedup_merges_equal surfs z z2 Hin2) as [d2 [Hz' [Hz2 _]]].
  assert (d2 = d).
  { pose proof (C13.ProofsDedup.In_lookup _ _ _ Hnd Hz) as L1.
    pose proof (C13.ProofsDedup.In_lookup _ _ _ Hnd Hz') as L2. congruence. }
  subst d2.
  pose proof (C13.ProofsDedup.dedup_survivor_minimal surfs u z d z2 Hnd Hl Hu Hz2). lia.
Qed.

(* ---- from the cell cards to "the representative is written" -------------- *)

Section Cells.
Variable surfs : list (Z * C13.Model.desc R).      (* the TRIPOLI-4 numbering, helpers included *)
Variable skip : bool.                               (* --skip-deduplication *)
Hypothesis surfs_nodup : NoDup (map fst surfs).

Definition rn_of : option (dict Z) :=
  if skip then None else Some (snd (C13.Model.remove_duplicate_surfaces RS surfs)).

(* renumbering.get(z, z) *)
Definition rpZ (z : Z) : Z :=
  match rn_of with
  | None => z
  | Some r => match lookup z r with Some y => y | None => z end
  end.

Variable cells : dict cell.                         (* the cell cards (trees over MCNP surfaces) *)
Variable matching : dict (list Z).
Variables u0 u1 : Z.
Hypothesis Hu0 : 0 < u0.
Hypothesis Hu1 : 0 < u1.
Variables (fuel : nat) (todo : list Z) (cnt0 : Z) (s' : st) (d' : dict vol).
Hypothesis todo_nodup : NoDup todo.
Hypothesis todo_le : forall k, In k todo -> k <= cnt0.
Hypothesis conv_ok : convert_cells fuel cells matching u0 u1 todo (mkSt cnt0 [] [] []) = Ok s'.
Hypothesis prune_ok : prune u0 u1 rn_of (vols s') = Ok d'.

(* a point: the senses of the TRIPOLI-4 surfaces (constant on merged surfaces,
   consistent on the helper planes) and the cells that hold it, as the cell
   cards say *)
Definition is_point (sigma cden : Z -> bool) : Prop :=
  consistent sigma u0 u1 /\
  (forall r, rn_of = Some r -> respects sigma r) /\
  (forall c g orig, lookup c cells = Some (g, orig) ->
     leaves_ok (msurf_ok matching) g /\ cden c = mden sigma cden matching g).

(* the flagged surface k bounds the converted cell c: two points whose senses
   differ only on k and the surfaces merged with it, one in the cell, one not *)
Definition bounds_cell (k c : Z) : Prop :=
  In c todo /\
  exists s1 c1 s2 c2, is_point s1 c1 /\ is_point s2 c2 /\
    (forall z, rpZ z <> rpZ k -> s1 z = s2 z) /\ c1 c = true /\ c2 c = false.

Theorem bounds_cell_written k c : bounds_cell k c -> In (rpZ k) (surf_ids d').
Proof.
  intros [Hc [s1 [c1 [s2 [c2 [[Hcs1 [Hr1 Hok1]] [[Hcs2 [Hr2 Hok2]] [Hag [Hin Hout]]]]]]]]].
  pose proof (convert_cells_keys _ _ _ _ _ _ _ _ conv_ok) as Hnd.
  destruct (cells_table s1 c1 cells matching u0 u1 Hu0 Hu1 Hcs1 Hok1 fuel todo cnt0 s'
              todo_nodup todo_le conv_ok) as [_ [Hd1 _]].
  destruct (cells_table s2 c2 cells matching u0 u1 Hu0 Hu1 Hcs2 Hok2 fuel todo cnt0 s'
              todo_nodup todo_le conv_ok) as [_ [Hd2 _]].
  destruct (Hd1 c Hc) as [[v [Hl [Hf Hv1]]]|[_ Hn]]; [|congruence]. rewrite Hin in Hv1.
  destruct (Hd2 c Hc) as [[v2 [Hl2 [_ Hv2]]]|[Hn _]]; [|congruence]. rewrite Hout in Hv2.
  destruct (prune_sound s1 u0 u1 rn_of (vols s') d' Hnd prune_ok Hcs1 Hr1)
    as [_ [_ [H3 _]]].
  destruct (prune_sound s2 u0 u1 rn_of (vols s') d' Hnd prune_ok Hcs2 Hr2)
    as [_ [H2 _]].
  destruct (H3 c v true Hl Hf Hv1) as [[v' [Hl' [_ Hv1']]]|[_ Hbad]]; [|discriminate].
  pose proof (H2 c v' false Hl' Hv2) as Hv2'.
  destruct (Vden_differ s1 s2 (fun z => rpZ z = rpZ k) d' c) as [z [Hz HD]];
    [intros z Hz; apply Hag; exact Hz|exact Hv1'|exact Hv2'|].
  assert (Hfix : rpZ z = z).
  { unfold rpZ in *. unfold rn_of in *. destruct skip; [reflexivity|].
    pose proof (prune_ids _ _ _ _ _ prune_ok) as Hids.
    destruct (all_ids_surf_ids _ _ _ Hids Hz) as [u Hu].
    rewrite (ren_fixed surfs u z surfs_nodup Hu). reflexivity. }
  rewrite <- HD, Hfix. exact Hz.
Qed.
End Cells.
