(* C16 with both links at once and C16's OWN numbering: the surface table handed
   to C13 is C16's [number_items t] read through an injective naming of real
   descriptors (plus the two helper planes), the [matching] handed to C01's
   conversion is C16's [matching_of t], the block is C16's executed
   [merge_entries].  The statement then speaks about C16's own representative
   [rep]. *)
From Coq Require Import List NArith ZArith Bool String Ascii Lia Reals Permutation.
From T4V Require Import Base.Str Base.Scalar C16.Model C16.Proofs C16.LinkC13 C16.LinkClasses
     C16.LinkCells.
From T4V Require C13.Model C01.Model C16.LinkC01.
Import ListNotations.
Open Scope string_scope.

Lemma merge_gen_ext rp1 rp2 used l : (forall kd k, In (kd, k) l -> rp1 k = rp2 k) ->
  forall acc, merge_gen rp1 used l acc = merge_gen rp2 used l acc.
Proof.
  induction l as [|[kd k] r IH]; intros H acc; cbn; [reflexivity|].
  rewrite (H kd k (or_introl eq_refl)).
  assert (H' : forall kd0 k0, In (kd0, k0) r -> rp1 k0 = rp2 k0)
    by (intros; eapply H; right; eauto).
  destruct (memN (rp2 k) used); [|apply IH; assumption].
  destruct (kind_lookup (rp2 k) acc) as [kd0|]; [|apply IH; assumption].
  destruct (kind_eqb kd0 kd); [apply IH; assumption|reflexivity].
Qed.

(* C16's matching as C01's dictionary *)
Definition matching01 (t : table) : C01.Model.dict (list Z) :=
  map (fun kv => (Z.of_N (fst kv), snd kv)) (matching_of t).

Section All.
Variable cls_desc : N -> C13.Model.desc R.
Hypothesis cls_inj : forall a b, cls_desc a = cls_desc b -> a = b.
Variable t : table.
Hypothesis t_nodup : NoDup (map fst t).
Variable skip : bool.
Variables (u0 u1 : Z) (h0 h1 : C13.Model.desc R).       (* the union helper planes *)
Hypothesis u_above : forall k c, In (k, c) (number_items t) -> (0 < Z.of_N k < u0)%Z /\ (Z.of_N k < u1)%Z.
Hypothesis u_distinct : u0 <> u1.
Hypothesis Hu0 : (0 < u0)%Z.
Hypothesis Hu1 : (0 < u1)%Z.

Definition surfs_all : list (Z * C13.Model.desc R) :=
  (surfs_of cls_desc (number_items t) ++ [(u0, h0); (u1, h1)])%list.

Lemma surfs_all_nodup : NoDup (map fst surfs_all).
Proof.
  unfold surfs_all. rewrite map_app. apply nodup_app.
  - apply surfs_of_nodup. apply number_items_nodup. assumption.
  - cbn. constructor; [intros [H|[]]; congruence|]. constructor; [intros []|constructor].
  - intros x Hx Hy. rewrite surfs_of_keys in Hx. apply in_map_iff in Hx. destruct Hx as [k [<- Hk]].
    apply in_map_iff in Hk. destruct Hk as [[k0 c] [Hk0 Hin]]. cbn in Hk0. subst k0.
    destruct (u_above k c Hin) as [[_ H0] H1]. cbn in Hy. destruct Hy as [Hy|[Hy|[]]]; lia.
Qed.

Lemma surfs_all_pos : forall x d, In (x, d) surfs_all -> (0 < x)%Z.
Proof.
  intros x d H. unfold surfs_all in H. apply in_app_or in H. destruct H as [H|H].
  - destruct (surfs_of_in _ _ _ _ H) as [k [c [Hin [-> _]]]]. apply (u_above k c Hin).
  - cbn in H. destruct H as [H|[H|[]]]; inversion H; subst; assumption.
Qed.

Lemma rep_link k e : In (k, e) t ->
  rep13 (ren_of RS skip surfs_all) k = rep (negb skip) (number_items t) k.
Proof.
  intros Hin. pose proof (number_items_get t k e t_nodup Hin) as Hg. destruct skip; cbn [negb].
  - unfold rep13, ren_of, rep, repr_of. rewrite Hg. reflexivity.
  - unfold surfs_all. eapply rep_is_c13; eauto.
    + apply number_items_nodup. assumption.
    + apply surfs_all_nodup.
    + intros x d k0 c0 Hx Hk0. destruct (u_above k0 c0 Hk0) as [[_ H0] H1].
      cbn in Hx. destruct Hx as [Hx|[Hx|[]]]; inversion Hx; subst; assumption.
Qed.

(* C01's conversion of the cell cards, with C16's matching *)
Variable cells : C01.Model.dict C01.Model.cell.
Variables (fuel : nat) (todo : list Z) (cnt0 : Z).
Variable s' : C01.Model.st.
Variable d' : C01.Model.dict C01.Model.vol.
Hypothesis todo_nodup : NoDup todo.
Hypothesis todo_le : forall k, In k todo -> (k <= cnt0)%Z.
Hypothesis conv_ok :
  C01.Model.convert_cells fuel cells (matching01 t) u0 u1 todo (C01.Model.mkSt cnt0 [] [] [])
    = C01.Model.Ok s'.
Hypothesis prune_ok :
  C01.Model.prune u0 u1 (C16.LinkC01.rn_of surfs_all skip) (C01.Model.vols s') = C01.Model.Ok d'.

(* C16's block, the executed function with C16's own renumbering on classes *)
Variables (l bcs : list (kind * N)).
Hypothesis conv_bc : bc_entries t = Ok l.
Hypothesis block_ok :
  merge_entries (negb skip) (number_items t) (map Z.to_N (C16.LinkC01.surf_ids d')) l [] = Ok bcs.

Theorem all_linked_designates k e c :
  In (k, e) t -> (e_flag e = "*" \/ e_flag e = "+") ->
  C16.LinkC01.bounds_cell surfs_all skip cells (matching01 t) u0 u1 todo (Z.of_N k) c ->
  let k' := rep (negb skip) (number_items t) k in
  In (Z.of_N k') (C16.LinkC01.surf_ids d') /\
  In (kind_of (e_flag e), k') bcs /\ count_key k' bcs = 1%nat /\
  In (Z.of_N k', cls_desc (e_first e)) (kept surfs_all skip).
Proof.
  intros Hin Hf Hb k'.
  assert (Hblock : merge_gen (rep13 (ren_of RS skip surfs_all))
                     (map Z.to_N (C16.LinkC01.surf_ids d')) l [] = Ok bcs).
  { rewrite <- block_ok, merge_entries_gen. apply merge_gen_ext.
    intros kd k0 Hl. destruct (bc_entry_key _ _ _ _ conv_bc Hl) as [e0 [He0 _]].
    eapply rep_link; eauto. }
  assert (Hknown : forall k0 e0, In (k0, e0) t -> e_flag e0 <> "" ->
                     In (Z.of_N k0) (map fst surfs_all)).
  { intros k0 e0 H0 _. pose proof (number_items_get t k0 e0 t_nodup H0) as Hg.
    apply dict_get_In in Hg. unfold surfs_all. rewrite map_app. apply in_or_app. left.
    apply in_map_iff. exists (Z.of_N k0, cls_desc (e_first e0)). split; [reflexivity|].
    apply surfs_of_in'. assumption. }
  destruct (cells_linked_designates t surfs_all skip surfs_all_nodup surfs_all_pos Hknown
              cells (matching01 t) u0 u1 fuel todo cnt0 s' d' Hu0 Hu1 todo_nodup todo_le
              conv_ok prune_ok l bcs conv_bc Hblock k e c Hin Hf Hb)
    as [Hw [Hbc [Hcnt [d [Hd Hd']]]]].
  rewrite (rep_link k e Hin) in Hw, Hbc, Hcnt, Hd'. fold k' in Hw, Hbc, Hcnt, Hd'.
  split; [assumption|]. split; [assumption|]. split; [assumption|].
  assert (d = cls_desc (e_first e)).
  { pose proof (number_items_get t k e t_nodup Hin) as Hg. apply dict_get_In in Hg.
    assert (Hs : In (Z.of_N k, cls_desc (e_first e)) surfs_all)
      by (unfold surfs_all; apply in_or_app; left; apply surfs_of_in'; assumption).
    pose proof (C13.ProofsDedup.In_lookup _ _ _ surfs_all_nodup Hd) as L1.
    pose proof (C13.ProofsDedup.In_lookup _ _ _ surfs_all_nodup Hs) as L2. congruence. }
  subst d. assumption.
Qed.
End All.
