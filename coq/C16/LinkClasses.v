(* C16's descriptor CLASSES and C13's REAL descriptors.  In C16's own model two
   TRIPOLI-4 surfaces are merged when their classes (natural numbers handed out
   by the harness) are equal; C13 models SurfaceT4.__eq__ on (type, parameters,
   transformation) over the reals.  If the classes are an injective naming of
   real descriptors ([cls_desc]), C16's representative - the smallest number of
   the same class - IS the image under C13's renumbering: the de-duplication of
   the two models is the same function.  C13's files are only read. *)
From Coq Require Import List NArith ZArith Bool String Ascii Lia Reals Permutation.
From T4V Require Import Base.Str Base.Scalar C16.Model C16.Proofs C16.LinkC13.
From T4V Require C13.Model C13.Proofs C13.ProofsDedup.
Import ListNotations.

Section Classes.
Variable cls_desc : N -> C13.Model.desc R.
Hypothesis cls_inj : forall a b, cls_desc a = cls_desc b -> a = b.

(* the TRIPOLI-4 numbering of C16 read as C13's surface table *)
Definition surfs_of (nb : numbering) : list (Z * C13.Model.desc R) :=
  map (fun kc => (Z.of_N (fst kc), cls_desc (snd kc))) nb.

Lemma surfs_of_keys nb : map fst (surfs_of nb) = map Z.of_N (map fst nb).
Proof. unfold surfs_of. rewrite !map_map. reflexivity. Qed.

Lemma surfs_of_nodup nb : NoDup (map fst nb) -> NoDup (map fst (surfs_of nb)).
Proof.
  intros H. rewrite surfs_of_keys. apply FinFun.Injective_map_NoDup; [|assumption].
  intros a b Hab. apply N2Z.inj. assumption.
Qed.

Lemma surfs_of_in nb x d :
  In (x, d) (surfs_of nb) -> exists k c, In (k, c) nb /\ x = Z.of_N k /\ d = cls_desc c.
Proof.
  unfold surfs_of. intros H. apply in_map_iff in H. destruct H as [[k c] [Heq Hin]].
  inversion Heq; subst. exists k, c. auto.
Qed.

Lemma surfs_of_in' nb k c : In (k, c) nb -> In (Z.of_N k, cls_desc c) (surfs_of nb).
Proof. intros H. unfold surfs_of. apply in_map_iff. exists (k, c). auto. Qed.

Lemma surfs_of_pos nb : (forall k c, In (k, c) nb -> k <> 0%N) ->
  forall x d, In (x, d) (surfs_of nb) -> (0 < x)%Z.
Proof.
  intros Hnz x d H. destruct (surfs_of_in _ _ _ H) as [k [c [Hin [-> _]]]].
  specialize (Hnz k c Hin). lia.
Qed.

(* C16's representative is C13's renumbering, also when the table holds further
   surfaces with larger numbers (the two union helper planes, which take part
   in the de-duplication and may be merged INTO a user surface, never the other
   way round) *)
Theorem rep_is_c13 nb (extra : list (Z * C13.Model.desc R)) k c :
  NoDup (map fst nb) ->
  NoDup (map fst (surfs_of nb ++ extra)) ->
  (forall x d k0 c0, In (x, d) extra -> In (k0, c0) nb -> (Z.of_N k0 < x)%Z) ->
  dict_get k nb = Some c ->
  rep13 (ren_of RS false (surfs_of nb ++ extra)) k = rep true nb k.
Proof.
  intros Hnd Hnds Hbig Hg. set (surfs := (surfs_of nb ++ extra)%list) in *.
  pose proof (dict_get_In _ _ _ Hg) as Hin.
  assert (Hks : In (Z.of_N k, cls_desc c) surfs)
    by (apply in_or_app; left; apply surfs_of_in'; assumption).
  (* C16 side *)
  unfold rep, repr_of. rewrite Hg.
  destruct (min_with_some c nb k Hin) as [m Hm]. rewrite Hm.
  destruct (min_with_spec _ _ _ Hm) as [Hmin Hle].
  assert (Hms : In (Z.of_N m, cls_desc c) surfs)
    by (apply in_or_app; left; apply surfs_of_in'; assumption).
  (* C13 side *)
  unfold rep13, ren_of.
  assert (Hkr : In (Z.of_N k) (map fst (snd (C13.Model.remove_duplicate_surfaces RS surfs)))).
  { eapply Permutation_in; [apply Permutation_sym; apply C13.ProofsDedup.dedup_covers|].
    apply in_map_iff. exists (Z.of_N k, cls_desc c). auto. }
  apply C13.Proofs.lookup_keys in Hkr.
  destruct (C13.Model.lookup (Z.of_N k) (snd (C13.Model.remove_duplicate_surfaces RS surfs)))
    as [x|] eqn:El; [|contradiction].
  apply C13.Proofs.lookup_In in El.
  destruct (C13.ProofsDedup.dedup_merges_equal surfs _ _ El) as [d [H1 [H2 _]]].
  assert (d = cls_desc c).
  { pose proof (C13.ProofsDedup.In_lookup _ _ _ Hnds H1) as L1.
    pose proof (C13.ProofsDedup.In_lookup _ _ _ Hnds Hks) as L2. congruence. }
  subst d.
  pose proof (C13.ProofsDedup.dedup_survivor_minimal surfs (Z.of_N k) x (cls_desc c)
                (Z.of_N m) Hnds El Hks Hms) as Hle2.
  apply in_app_or in H2. destruct H2 as [H2|H2].
  - destruct (surfs_of_in _ _ _ H2) as [k2 [c2 [Hin2 [Hx Hd2]]]].
    apply cls_inj in Hd2. subst c2 x. pose proof (Hle k2 Hin2) as Hle1. rewrite N2Z.id. lia.
  - exfalso. pose proof (Hbig x _ m c H2 Hmin). lia.
Qed.
End Classes.
