(* C16 linked with C13.  C13 models, for ARBITRARY TRIPOLI-4 volume tables
   (equations, UNION / INTE operators, FICTIVE volumes: whatever FILL
   development, unions and complements produce), the part of convertMCNPGeometry
   that decides which SURF lines are written: de-duplication over the real
   SurfaceT4 descriptors, renumbering, remove_empty_volumes,
   remove_unused_volumes, the writer's lookups  [C13.Model.finish].
   Here the boundary-condition block of C16 (conversionBoundCond's dictionary
   [bc_entries], then the repaired writeT4BoundCond [merge_entries]) is put on
   top of that: the renumbering is C13's, the used surfaces are C13's written
   ids, and C13's theorem that de-duplication only merges EQUAL descriptors at R
   (C13_dedup_merges_equal, from C13_desc_eqb_sound) turns "same descriptor
   class" into "same descriptor over the reals", hence same locus.
   C13's files are only read. *)
From Coq Require Import List NArith ZArith Bool String Ascii Lia Reals Permutation.
From T4V Require Import Base.Str Base.Scalar C16.Model C16.Proofs.
From T4V Require C13.Model C13.Proofs C13.ProofsDedup.
Import ListNotations.
Open Scope string_scope.

(* ---- writeT4BoundCond over any renumbering function --------------------- *)

Fixpoint merge_gen (rp : N -> N) (used : list N) (l acc : list (kind * N))
  : res (list (kind * N)) :=
  match l with
  | [] => Ok acc
  | (kd, k) :: r =>
      let k' := rp k in
      if memN k' used then
        match kind_lookup k' acc with
        | None => merge_gen rp used r (acc ++ [(kd, k')])%list
        | Some kd0 => if kind_eqb kd0 kd then merge_gen rp used r acc else Err EValue
        end
      else merge_gen rp used r acc
  end.

(* the function the correspondence executes is this one *)
Lemma merge_entries_gen dedup nb used l : forall acc,
  merge_entries dedup nb used l acc = merge_gen (rep dedup nb) used l acc.
Proof.
  induction l as [|[kd k] r IH]; intros acc; cbn; [reflexivity|].
  destruct (memN (rep dedup nb k) used); [|apply IH].
  destruct (kind_lookup (rep dedup nb k) acc) as [kd0|]; [|apply IH].
  destruct (kind_eqb kd0 kd); [apply IH|reflexivity].
Qed.

Lemma merge_gen_err rp used l : forall acc e, merge_gen rp used l acc = Err e -> e = EValue.
Proof.
  induction l as [|[kd k] r IH]; intros acc e H; cbn in H; [discriminate|].
  destruct (memN (rp k) used); [|eapply IH; eauto].
  destruct (kind_lookup (rp k) acc) as [kd0|]; [|eapply IH; eauto].
  destruct (kind_eqb kd0 kd); [eapply IH; eauto|]. inversion H. reflexivity.
Qed.

Lemma merge_gen_spec rp used l : forall acc out,
  merge_gen rp used l acc = Ok out ->
  (exists ext, out = (acc ++ ext)%list) /\
  (forall kd k, In (kd, k) l -> memN (rp k) used = true -> kind_lookup (rp k) out = Some kd) /\
  (forall kd k', In (kd, k') out -> In (kd, k') acc \/
     exists k, In (kd, k) l /\ rp k = k' /\ memN k' used = true) /\
  (NoDup (map snd acc) -> NoDup (map snd out)).
Proof.
  induction l as [|[kd k] r IH]; intros acc out H; cbn in H.
  - inversion H; subst. split; [exists []; rewrite app_nil_r; reflexivity|].
    split; [intros ? ? []|]. split; [auto|auto].
  - destruct (memN (rp k) used) eqn:Eu.
    + destruct (kind_lookup (rp k) acc) as [kd0|] eqn:El.
      * destruct (kind_eqb kd0 kd) eqn:Ek; [|discriminate].
        apply kind_eqb_eq in Ek. subst kd0.
        destruct (IH _ _ H) as [[ext Hext] [H2 [H3 H4]]].
        split; [exists ext; assumption|]. split; [|split; [|assumption]].
        -- intros kd' k0 [Heq|Hin] Hu; [|auto]. inversion Heq; subst kd' k0.
           rewrite Hext. apply kind_lookup_app. assumption.
        -- intros kd' k' Hin. destruct (H3 kd' k' Hin) as [Ha|[k0 [Hb Hc]]]; [auto|].
           right. exists k0. split; [right; assumption|assumption].
      * destruct (IH _ _ H) as [[ext Hext] [H2 [H3 H4]]].
        split; [exists ((kd, rp k) :: ext); rewrite Hext, <- app_assoc; reflexivity|].
        split; [|split].
        -- intros kd' k0 [Heq|Hin] Hu; [|auto]. inversion Heq; subst kd' k0.
           rewrite Hext. apply kind_lookup_app. rewrite kind_lookup_app_none by assumption.
           cbn. rewrite N.eqb_refl. reflexivity.
        -- intros kd' k' Hin. destruct (H3 kd' k' Hin) as [Ha|[k0 [Hb Hc]]].
           ++ apply in_app_or in Ha. destruct Ha as [Ha|[Ha|[]]]; [auto|].
              inversion Ha; subst kd' k'. right. exists k. split; [left; reflexivity|auto].
           ++ right. exists k0. split; [right; assumption|assumption].
        -- intros Hnd. apply H4. rewrite map_app. apply nodup_app; [assumption| |].
           ++ cbn. constructor; [intros []|constructor].
           ++ intros x Hx [Hy|[]]. cbn in Hy. subst x.
              apply (kind_lookup_none _ _ El). assumption.
    + destruct (IH _ _ H) as [Hext [H2 [H3 H4]]].
      split; [assumption|]. split; [|split; [|assumption]].
      * intros kd' k0 [Heq|Hin] Hu; [|auto]. inversion Heq; subst. congruence.
      * intros kd' k' Hin. destruct (H3 kd' k' Hin) as [Ha|[k0 [Hb Hc]]]; [auto|].
        right. exists k0. split; [right; assumption|assumption].
Qed.

(* ---- the block on top of C13's geometry ---------------------------------- *)

Section Link.
Context {T : Type} (S : Scalar T).

(* the renumbering handed to writeT4BoundCond: None under --skip-deduplication *)
Definition ren_of (skip : bool) (surfs : list (Z * C13.Model.desc T)) : option (list (Z * Z)) :=
  if skip then None else Some (snd (C13.Model.remove_duplicate_surfaces S surfs)).

(* renumbering.get(k, k) *)
Definition rep13 (ren : option (list (Z * Z))) (k : N) : N :=
  match ren with
  | None => k
  | Some r => match C13.Model.lookup (Z.of_N k) r with Some k' => Z.to_N k' | None => k end
  end.

(* the whole conversion seen from C16: C13's geometry stage, then the block made
   from the dictionary [l] of conversionBoundCond.  Returns the ids of the SURF
   lines and the entries of the block *)
Definition block13 (skip : bool) (surfs : list (Z * C13.Model.desc T))
    (volus : list (Z * C13.Model.volu)) (u0 u1 : Z) (l : list (kind * N))
  : option (list Z * res (list (kind * N))) :=
  match C13.Model.finish S skip surfs volus u0 u1 with
  | C13.Model.Err _ => None
  | C13.Model.Ok (_, _, w) =>
      Some (w, merge_gen (rep13 (ren_of skip surfs)) (map Z.to_N w) l [])
  end.
End Link.

(* ---- small facts about C13's geometry stage ------------------------------ *)

(* every written id is a surface of the table handed to the writer *)
Lemma finish_written {T} (S : Scalar T) skip surfs volus u0 u1 s' v3 w :
  C13.Model.finish S skip surfs volus u0 u1 = C13.Model.Ok (s', v3, w) ->
  (forall x, In x w -> C13.Model.lookup x s' <> None) /\
  s' = (if skip then surfs else fst (C13.Model.remove_duplicate_surfaces S surfs)).
Proof.
  unfold C13.Model.finish.
  destruct (C13.Model.dedup_stage S skip surfs volus u0 u1) as [[[s1 v1] [a b]]|] eqn:Ed; [|discriminate].
  destruct (C13.Model.remove_empty_volumes v1 a b) as [v2|]; [|discriminate].
  destruct (C13.Model.written_surfaces s1 (C13.Model.remove_unused_volumes v2)) as [w1|] eqn:Ew;
    [|discriminate].
  intros H. inversion H; subst s' v3 w. clear H. split.
  - unfold C13.Model.written_surfaces in Ew.
    destruct (C13.Model.used_surfaces (C13.Model.remove_unused_volumes v2)) as [|y r] eqn:Eu;
      [discriminate|].
    destruct (forallb (fun s => match C13.Model.lookup s s1 with Some _ => true | None => false end)
                      (y :: r)) eqn:Ef; [|discriminate].
    inversion Ew; subst w1. intros x Hx.
    rewrite forallb_forall in Ef. specialize (Ef x Hx).
    destruct (C13.Model.lookup x s1); [discriminate|discriminate].
  - unfold C13.Model.dedup_stage in Ed. destruct skip.
    + inversion Ed. reflexivity.
    + destruct (C13.Model.remove_duplicate_surfaces S surfs) as [sn ren] eqn:Er.
      destruct (C13.Model.renumber_surfaces volus ren); [|discriminate].
      destruct (C13.Model.lookup u0 ren); [|discriminate].
      destruct (C13.Model.lookup u1 ren); [|discriminate]. inversion Ed. reflexivity.
Qed.

Lemma to_N_of_N_pos x : (0 < x)%Z -> Z.of_N (Z.to_N x) = x.
Proof. intros H. apply Z2N.id. lia. Qed.

(* ---- the linked statements (descriptors over the reals) ------------------- *)

Section LinkedR.
Variable surfs : list (Z * C13.Model.desc R).
Variable volus : list (Z * C13.Model.volu).
Variables (u0 u1 : Z) (skip : bool).
Variable l : list (kind * N).          (* conversionBoundCond's dictionary *)
Hypothesis surfs_pos : forall k d, In (k, d) surfs -> (0 < k)%Z.
Hypothesis surfs_nodup : NoDup (map fst surfs).
(* dic_surf_mcnp and the TRIPOLI-4 numbering have the same surface numbers *)
Hypothesis flagged_known : forall kd k, In (kd, k) l -> In (Z.of_N k) (map fst surfs).

Variables (w : list Z) (bcs : list (kind * N)).
Hypothesis run_ok : block13 RS skip surfs volus u0 u1 l = Some (w, Ok bcs).

Let rp := rep13 (ren_of RS skip surfs).

Lemma run_ok_unfold :
  exists s' v3, C13.Model.finish RS skip surfs volus u0 u1 = C13.Model.Ok (s', v3, w) /\
    merge_gen rp (map Z.to_N w) l [] = Ok bcs.
Proof.
  unfold block13 in run_ok.
  destruct (C13.Model.finish RS skip surfs volus u0 u1) as [[[s' v3] w']|] eqn:Ef; [|discriminate].
  inversion run_ok; subst. exists s', v3. auto.
Qed.

(* the representative of a flagged number is a surface with the SAME descriptor
   over the reals, kept in the table the writer uses *)
Lemma rp_same_descriptor kd k s' v3 :
  C13.Model.finish RS skip surfs volus u0 u1 = C13.Model.Ok (s', v3, w) ->
  In (kd, k) l ->
  exists d, In (Z.of_N k, d) surfs /\ In (Z.of_N (rp k), d) s' /\ (0 < Z.of_N (rp k))%Z.
Proof.
  intros Hf Hin. destruct (finish_written _ _ _ _ _ _ _ _ _ Hf) as [_ Hs'].
  pose proof (flagged_known kd k Hin) as Hk.
  unfold rp, rep13, ren_of. destruct skip.
  - apply in_map_iff in Hk. destruct Hk as [[k0 d] [Hk0 Hd]]. cbn in Hk0. subst k0.
    exists d. subst s'. split; [assumption|]. split; [assumption|]. eapply surfs_pos; eauto.
  - assert (Hkr : In (Z.of_N k)
               (map fst (snd (C13.Model.remove_duplicate_surfaces RS surfs)))).
    { eapply Permutation_in; [apply Permutation_sym; apply C13.ProofsDedup.dedup_covers|].
      assumption. }
    apply C13.Proofs.lookup_keys in Hkr.
    destruct (C13.Model.lookup (Z.of_N k) (snd (C13.Model.remove_duplicate_surfaces RS surfs)))
      as [x|] eqn:El; [|contradiction].
    apply C13.Proofs.lookup_In in El.
    destruct (C13.ProofsDedup.dedup_merges_equal surfs _ _ El) as [d [H1 [H2 H3]]].
    pose proof (surfs_pos _ _ H2) as Hx.
    exists d. rewrite (to_N_of_N_pos x Hx). subst s'. auto.
Qed.

(* every entry of the block designates a written SURF whose descriptor over the
   reals is the descriptor of a flagged surface of the entry's kind; no two
   entries designate the same SURF *)
Theorem block13_sound :
  NoDup (map snd bcs) /\
  forall kd k', In (kd, k') bcs ->
    In (Z.of_N k') w /\
    exists k d s' v3,
      C13.Model.finish RS skip surfs volus u0 u1 = C13.Model.Ok (s', v3, w) /\
      In (kd, k) l /\ In (Z.of_N k, d) surfs /\ In (Z.of_N k', d) s'.
Proof.
  destruct run_ok_unfold as [s' [v3 [Hf Hm]]].
  destruct (merge_gen_spec _ _ _ _ _ Hm) as [_ [_ [H3 H4]]].
  split; [apply H4; constructor|].
  intros kd k' Hin. destruct (H3 kd k' Hin) as [[]|[k [Hl [Hr Hu]]]].
  destruct (rp_same_descriptor kd k s' v3 Hf Hl) as [d [Hd [Hd' Hpos]]].
  rewrite Hr in Hd', Hpos. split.
  - apply memN_In in Hu. apply in_map_iff in Hu. destruct Hu as [x [Hx Hxw]].
    destruct (finish_written _ _ _ _ _ _ _ _ _ Hf) as [Hlook Hs'].
    assert (Hxpos : (0 < x)%Z).
    { specialize (Hlook x Hxw). apply C13.Proofs.lookup_keys in Hlook.
      apply in_map_iff in Hlook. destruct Hlook as [[x0 dx] [Hx0 Hdx]]. cbn in Hx0. subst x0.
      assert (In (x, dx) surfs).
      { subst s'. destruct skip; [assumption|].
        unfold C13.Model.remove_duplicate_surfaces in Hdx.
        rewrite C13.ProofsDedup.dedup_loop_run in Hdx. cbn [fst] in Hdx.
        apply C13.ProofsDedup.run_new_incl in Hdx.
        eapply Permutation_in; [apply Permutation_sym; apply C13.ProofsDedup.sort_items_perm|].
        assumption. }
      eapply surfs_pos; eauto. }
    rewrite <- Hx, (to_N_of_N_pos x Hxpos). assumption.
  - exists k, d, s', v3. auto.
Qed.

(* a flagged surface whose representative is a written SURF has exactly one
   entry, of its kind, on that representative *)
Theorem block13_complete kd k :
  In (kd, k) l -> In (Z.of_N (rp k)) w ->
  In (kd, rp k) bcs /\ count_key (rp k) bcs = 1%nat.
Proof.
  intros Hl Hw. destruct run_ok_unfold as [s' [v3 [Hf Hm]]].
  destruct (merge_gen_spec _ _ _ _ _ Hm) as [_ [H2 [_ H4]]].
  assert (Hu : memN (rp k) (map Z.to_N w) = true).
  { apply memN_In. apply in_map_iff. exists (Z.of_N (rp k)). split; [apply N2Z.id|assumption]. }
  pose proof (kind_lookup_in _ _ _ (H2 _ _ Hl Hu)) as Hb.
  split; [assumption|]. eapply count_key_nodup; [apply H4; constructor|exact Hb].
Qed.
End LinkedR.

(* two flagged surfaces of different kinds with the same written
   representative: ValueError, whatever the volumes *)
Theorem block13_conflict {T} (S : Scalar T) skip surfs volus u0 u1 l w out k1 k2 :
  block13 S skip surfs volus u0 u1 l = Some (w, out) ->
  In (Reflection, k1) l -> In (Cosinus, k2) l ->
  rep13 (ren_of S skip surfs) k1 = rep13 (ren_of S skip surfs) k2 ->
  In (Z.of_N (rep13 (ren_of S skip surfs) k1)) w ->
  out = Err EValue.
Proof.
  unfold block13. destruct (C13.Model.finish S skip surfs volus u0 u1) as [[[s' v3] w']|];
    [|discriminate].
  intros H H1 H2 Hr Hw. inversion H; subst w' out. clear H.
  destruct (merge_gen (rep13 (ren_of S skip surfs)) (map Z.to_N w) l []) as [bcs|e] eqn:Em.
  - exfalso. destruct (merge_gen_spec _ _ _ _ _ Em) as [_ [Hl _]].
    assert (Hu : memN (rep13 (ren_of S skip surfs) k1) (map Z.to_N w) = true).
    { apply memN_In. apply in_map_iff. exists (Z.of_N (rep13 (ren_of S skip surfs) k1)).
      split; [apply N2Z.id|assumption]. }
    pose proof (Hl _ _ H1 Hu) as L1. rewrite Hr in Hu. pose proof (Hl _ _ H2 Hu) as L2.
    rewrite Hr in L1. rewrite L1 in L2. discriminate.
  - rewrite (merge_gen_err _ _ _ _ _ Em). reflexivity.
Qed.

(* ---- with the dictionary of C16 ------------------------------------------- *)

Section LinkedTable.
Variable t : table.                       (* dic_surf_mcnp, every copy made *)
Variable surfs : list (Z * C13.Model.desc R).
Variable volus : list (Z * C13.Model.volu).
Variables (u0 u1 : Z) (skip : bool).
Hypothesis t_nodup : NoDup (map fst t).
Hypothesis surfs_pos : forall k d, In (k, d) surfs -> (0 < k)%Z.
Hypothesis surfs_nodup : NoDup (map fst surfs).
Hypothesis flagged_known :
  forall k e, In (k, e) t -> e_flag e <> "" -> In (Z.of_N k) (map fst surfs).

Variables (l : list (kind * N)) (w : list Z) (bcs : list (kind * N)).
Hypothesis conv_ok : bc_entries t = Ok l.
Hypothesis run_ok : block13 RS skip surfs volus u0 u1 l = Some (w, Ok bcs).

Let rp := rep13 (ren_of RS skip surfs).

Lemma l_known : forall kd k, In (kd, k) l -> In (Z.of_N k) (map fst surfs).
Proof.
  intros kd k Hin. destruct (bc_entry_key _ _ _ _ conv_ok Hin) as [e [He Hf]]. eauto.
Qed.

(* a flagged surface whose representative is used by a written volume: exactly
   one entry, of its kind, on the representative, which is a written SURF with
   the flagged surface's descriptor over the reals *)
Theorem linked_designates k e :
  In (k, e) t -> (e_flag e = "*" \/ e_flag e = "+") ->
  In (Z.of_N (rp k)) w ->
  In (kind_of (e_flag e), rp k) bcs /\ count_key (rp k) bcs = 1%nat /\
  exists d s' v3,
    C13.Model.finish RS skip surfs volus u0 u1 = C13.Model.Ok (s', v3, w) /\
    In (Z.of_N k, d) surfs /\ In (Z.of_N (rp k), d) s'.
Proof.
  intros Hin Hf Hw.
  assert (Hl : In (kind_of (e_flag e), k) l).
  { destruct (bc_kind t l k e conv_ok Hin) as [H1 [H2 _]].
    destruct Hf as [Hf|Hf]; rewrite Hf; cbn; auto. }
  edestruct (block13_complete surfs volus u0 u1 skip l) as [Hb Hc];
    [exact run_ok|exact Hl|exact Hw|].
  split; [assumption|]. split; [assumption|].
  edestruct (run_ok_unfold surfs volus u0 u1 skip l) as [s' [v3 [Hfin _]]]; [exact run_ok|].
  edestruct (rp_same_descriptor surfs volus u0 u1 skip l) as [d [Hd [Hd' _]]];
    [exact surfs_pos|exact l_known|exact run_ok|exact Hfin|exact Hl|].
  exists d, s', v3. auto.
Qed.

Theorem linked_sound :
  NoDup (map snd bcs) /\
  forall kd k', In (kd, k') bcs ->
    In (Z.of_N k') w /\
    exists k e d s' v3,
      C13.Model.finish RS skip surfs volus u0 u1 = C13.Model.Ok (s', v3, w) /\
      In (k, e) t /\ e_flag e <> "" /\
      (e_flag e = "*" -> kd = Reflection) /\ (e_flag e = "+" -> kd = Cosinus) /\
      In (Z.of_N k, d) surfs /\ In (Z.of_N k', d) s'.
Proof.
  edestruct (block13_sound surfs volus u0 u1 skip l) as [Hn Hall];
    [exact surfs_pos|exact l_known|exact run_ok|].
  split; [assumption|]. intros kd k' Hin. destruct (Hall kd k' Hin) as [Hw [k [d [s' [v3 H]]]]].
  destruct H as [Hfin [Hl [Hd Hd']]]. split; [assumption|].
  destruct (bc_entry_sound t l kd k t_nodup conv_ok Hl) as [e [He [Hf [H1 H2]]]].
  exists k, e, d, s', v3. repeat (split; [assumption|]). assumption.
Qed.
End LinkedTable.

(* ---- a FILL-shaped volume table (executable: descriptors without
        parameters, so SurfaceT4.__eq__ at R computes) ----------------------- *)

Definition dR (ty : N) : C13.Model.desc R := C13.Model.mkDesc ty [] None.

(* surfaces 2 and 3 coincide and are both reflecting; 8, 9: union helper planes *)
Definition ex_surfs : list (Z * C13.Model.desc R) :=
  [(1, dR 0); (2, dR 1); (3, dR 1); (4, dR 2); (8, dR 3); (9, dR 4)]%Z.
(* volume 10: the filled cell (FICTIVE); volume 6: the universe element, INTE 10 *)
Definition ex_volus : list (Z * C13.Model.volu) :=
  [(10, C13.Model.mkVolu [1] [4] None true);
   (6, C13.Model.mkVolu [] [3] (Some (C13.Model.OInte, [10])) false)]%Z.
Definition ex_table : table :=
  [(1, mkE "" 1 0 [] []); (2, mkE "*" 1 1 [] []); (3, mkE "*" 1 1 [] []);
   (4, mkE "" 1 2 [] [])]%N.
