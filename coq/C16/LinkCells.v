(* C16 linked with C01 and C13: the main statement from a premise on the CELL
   CARDS.  C01 converts the cell cards to the volume table and prunes it
   (C01.Model.convert_cells / prune), C13 gives the renumbering and the
   equality of merged descriptors over the reals, C16 the block.  The premise
   "the flagged surface bounds a converted cell" is [bounds_cell]: two points
   whose senses differ only on the flagged surface (and the surfaces merged with
   it), one inside the converted cell as its card reads, one outside. *)
From Coq Require Import List NArith ZArith Bool String Ascii Lia Reals Permutation.
From T4V Require Import Base.Str Base.Scalar C16.Model C16.Proofs C16.LinkC13.
From T4V Require C13.Model C13.Proofs C13.ProofsDedup C01.Model C16.LinkC01.
Import ListNotations.
Open Scope string_scope.

(* the two readings of renumbering.get(k, k) agree *)
Lemma rep13_rpZ (surfs : list (Z * C13.Model.desc R)) skip k :
  rep13 (ren_of RS skip surfs) k = Z.to_N (C16.LinkC01.rpZ surfs skip (Z.of_N k)).
Proof.
  unfold rep13, ren_of, C16.LinkC01.rpZ, C16.LinkC01.rn_of. destruct skip; [symmetry; apply N2Z.id|].
  rewrite C16.LinkC01.lookup13.
  destruct (C01.Model.lookup (Z.of_N k) (snd (C13.Model.remove_duplicate_surfaces RS surfs)));
    [reflexivity|symmetry; apply N2Z.id].
Qed.

Section CellsLinked.
Variable t : table.                                 (* dic_surf_mcnp, every copy made *)
Variable surfs : list (Z * C13.Model.desc R).       (* the TRIPOLI-4 numbering *)
Variable skip : bool.
Hypothesis t_nodup : NoDup (map fst t).
Hypothesis surfs_nodup : NoDup (map fst surfs).
Hypothesis surfs_pos : forall k d, In (k, d) surfs -> (0 < k)%Z.
Hypothesis flagged_known :
  forall k e, In (k, e) t -> e_flag e <> "" -> In (Z.of_N k) (map fst surfs).

(* C01's conversion of the cell cards and pruning *)
Variable cells : C01.Model.dict C01.Model.cell.
Variable matching : C01.Model.dict (list Z).
Variables (u0 u1 : Z) (fuel : nat) (todo : list Z) (cnt0 : Z).
Variable s' : C01.Model.st.
Variable d' : C01.Model.dict C01.Model.vol.
Hypothesis Hu0 : (0 < u0)%Z.
Hypothesis Hu1 : (0 < u1)%Z.
Hypothesis todo_nodup : NoDup todo.
Hypothesis todo_le : forall k, In k todo -> (k <= cnt0)%Z.
Hypothesis conv_ok :
  C01.Model.convert_cells fuel cells matching u0 u1 todo (C01.Model.mkSt cnt0 [] [] []) = C01.Model.Ok s'.
Hypothesis prune_ok :
  C01.Model.prune u0 u1 (C16.LinkC01.rn_of surfs skip) (C01.Model.vols s') = C01.Model.Ok d'.

(* C16's block: conversionBoundCond's dictionary merged over C13's renumbering
   and the surfaces of C01's pruned table (extract_used_surfaces) *)
Variables (l bcs : list (kind * N)).
Hypothesis conv_bc : bc_entries t = Ok l.
Hypothesis block_ok :
  merge_gen (rep13 (ren_of RS skip surfs)) (map Z.to_N (C16.LinkC01.surf_ids d')) l [] = Ok bcs.

Let rp := rep13 (ren_of RS skip surfs).

(* the table the writer looks the SURF lines up in *)
Definition kept : list (Z * C13.Model.desc R) :=
  if skip then surfs else fst (C13.Model.remove_duplicate_surfaces RS surfs).

Lemma rp_descriptor k e :
  In (k, e) t -> e_flag e <> "" ->
  exists d, In (Z.of_N k, d) surfs /\ In (Z.of_N (rp k), d) kept.
Proof.
  intros Hin Hf. pose proof (flagged_known k e Hin Hf) as Hk.
  unfold rp, rep13, ren_of, kept. destruct skip.
  - apply in_map_iff in Hk. destruct Hk as [[k0 d] [Hk0 Hd]]. cbn in Hk0. subst k0. exists d. auto.
  - assert (Hkr : In (Z.of_N k) (map fst (snd (C13.Model.remove_duplicate_surfaces RS surfs)))).
    { eapply Permutation_in; [apply Permutation_sym; apply C13.ProofsDedup.dedup_covers|].
      assumption. }
    apply C13.Proofs.lookup_keys in Hkr.
    destruct (C13.Model.lookup (Z.of_N k) (snd (C13.Model.remove_duplicate_surfaces RS surfs)))
      as [x|] eqn:El; [|contradiction].
    apply C13.Proofs.lookup_In in El.
    destruct (C13.ProofsDedup.dedup_merges_equal surfs _ _ El) as [d [H1 [H2 H3]]].
    exists d. rewrite (to_N_of_N_pos x (surfs_pos _ _ H2)). auto.
Qed.

Theorem cells_linked_designates k e c :
  In (k, e) t -> (e_flag e = "*" \/ e_flag e = "+") ->
  C16.LinkC01.bounds_cell surfs skip cells matching u0 u1 todo (Z.of_N k) c ->
  In (Z.of_N (rp k)) (C16.LinkC01.surf_ids d') /\
  In (kind_of (e_flag e), rp k) bcs /\ count_key (rp k) bcs = 1%nat /\
  exists d, In (Z.of_N k, d) surfs /\ In (Z.of_N (rp k), d) kept.
Proof.
  intros Hin Hf Hb.
  pose proof (C16.LinkC01.bounds_cell_written surfs skip surfs_nodup cells matching u0 u1 Hu0 Hu1
                fuel todo cnt0 s' d' todo_nodup todo_le conv_ok prune_ok _ _ Hb) as Hw.
  assert (Hfne : e_flag e <> "") by (destruct Hf as [Hf|Hf]; rewrite Hf; discriminate).
  destruct (rp_descriptor k e Hin Hfne) as [d [Hd Hd']].
  assert (Hpos : (0 < C16.LinkC01.rpZ surfs skip (Z.of_N k))%Z).
  { unfold rp in Hd'. rewrite rep13_rpZ in Hd'.
    assert (Hk : (0 < Z.of_N k)%Z) by (eapply surfs_pos; eauto).
    unfold C16.LinkC01.rpZ, C16.LinkC01.rn_of in *. destruct skip; [assumption|].
    destruct (C01.Model.lookup (Z.of_N k) (snd (C13.Model.remove_duplicate_surfaces RS surfs)))
      as [y|] eqn:E; [|assumption].
    rewrite <- C16.LinkC01.lookup13 in E. apply C13.Proofs.lookup_In in E.
    destruct (C13.ProofsDedup.dedup_merges_equal surfs _ _ E) as [d0 [_ [H2 _]]].
    eapply surfs_pos; eauto. }
  assert (Hrw : Z.of_N (rp k) = C16.LinkC01.rpZ surfs skip (Z.of_N k)).
  { unfold rp. rewrite rep13_rpZ. apply Z2N.id. lia. }
  split; [rewrite Hrw; exact Hw|].
  assert (Hl : In (kind_of (e_flag e), k) l).
  { destruct (bc_kind t l k e conv_bc Hin) as [H1 [H2 _]].
    destruct Hf as [Hf|Hf]; rewrite Hf; cbn; auto. }
  destruct (merge_gen_spec _ _ _ _ _ block_ok) as [_ [H2 [_ H4]]].
  assert (Hu : memN (rp k) (map Z.to_N (C16.LinkC01.surf_ids d')) = true).
  { apply memN_In. apply in_map_iff. exists (Z.of_N (rp k)). split; [apply N2Z.id|].
    rewrite Hrw. exact Hw. }
  pose proof (kind_lookup_in _ _ _ (H2 _ _ Hl Hu)) as Hbc.
  split; [exact Hbc|]. split; [eapply count_key_nodup; [apply H4; constructor|exact Hbc]|].
  exists d. auto.
Qed.
End CellsLinked.
