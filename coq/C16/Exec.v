(* C16 — executable comparison functions used by the generated correspondence
   files (model vs what was observed on the implementation). *)
From Coq Require Import List NArith ZArith Bool String Ascii.
From T4V Require Import Base.Str Base.Cases C16.Model.
Import ListNotations.
Open Scope string_scope.

Definition err_eqb (a b : err) : bool :=
  match a, b with
  | ENotImplemented, ENotImplemented | EUnbound, EUnbound | EKey, EKey | EValue, EValue => true
  | _, _ => false
  end.

Definition output_eqb (a b : output) : bool :=
  list_eqb (pair_eqb N.eqb N.eqb) (fst a) (fst b) &&
  list_eqb (pair_eqb kind_eqb N.eqb) (snd a) (snd b).

Definition res_eqb (a b : res output) : bool :=
  match a, b with
  | Ok x, Ok y => output_eqb x y
  | Err e1, Err e2 => err_eqb e1 e2
  | _, _ => false
  end.

(* case (a): a whole conversion. skip-deduplication, skip-boundary-conditions,
   the surface cards, the converted cells, and what the implementation did:
   the exception class, or the (id, class) of every SURF line and the
   (kind, id) of every ALL_COMPLETE line, both in file order *)
Definition run_case := (bool * bool * list scard * list cell * res output)%type.

Definition check_run (c : run_case) : bool :=
  let '(sd, sb, cards, cells, expected) := c in
  res_eqb (run (mkCfg sd sb) cards cells) expected.

(* the same with every cell card (converted or not, with TRCL or not) *)
Definition run_t_case := (bool * bool * list scard * list tcell * res output)%type.

Definition check_run_t (c : run_t_case) : bool :=
  let '(sd, sb, cards, tcells, expected) := c in
  res_eqb (run_t (mkCfg sd sb) cards tcells) expected.

(* ... and with the order in which Python walked the set of implicit surfaces *)
Definition run_w_case := (list N * bool * bool * list scard * list tcell * res output)%type.

Definition check_run_w (c : run_w_case) : bool :=
  let '(ids, sd, sb, cards, tcells, expected) := c in
  res_eqb (run_t_with ids (mkCfg sd sb) cards tcells) expected.

(* case (b): re_name on one string, groups as observed *)
Definition check_split (c : string * (string * string)) : bool :=
  let (f, n) := split_flags (fst c) in
  String.eqb f (fst (snd c)) && String.eqb n (snd (snd c)).

(* case (c): conversionBoundCond alone on a list of (key, flag) pairs *)
Definition check_kinds (c : list (N * string) * res (list (kind * N))) : bool :=
  match conv_kinds (fst c) None, snd c with
  | Ok l, Ok l' => list_eqb (pair_eqb kind_eqb N.eqb) l l'
  | Err e, Err e' => err_eqb e e'
  | _, _ => false
  end.
