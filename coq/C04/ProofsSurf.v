(* C04 — the interface law  sense (tr_surf t s) p = sense s (inv t p):
   composition of (A) ProofsFrame and (B) ProofsConvert, plus quadrics. *)
From Coq Require Import List ZArith Bool Reals Lra Field.
From T4V Require Import Base.Scalar C04.Vec C04.Model C04.Spec C04.ProofsFrame C04.ProofsConvert
  C04.ProofsQuad.
Import ListNotations.
Open Scope R_scope.

Lemma tr_convert_frame o b k pt u cp nap :
  frame_kind k = true ->
  tr_convert RS (vlist o ++ mlist b) (mkMS k pt u cp nap)
  = convert RS (mkMS k (to_main o b pt) (tvec b u) cp nap).
Proof. intros Hk. unfold tr_convert. rewrite transformation_frame by assumption. reflexivity. Qed.

Theorem frame_transform_plane : forall (o : R3) (b : M3 R) pt n cp nap (p' : R3),
  rows_orthonormal b ->
  let s := mkMS KP pt n cp nap in
  exists c, tr_convert RS (vlist o ++ mlist b) s = Ok [(c, 1%Z)] /\
            same_sense (t4val c (to_main o b p')) (msense s p').
Proof.
  intros o b pt n cp nap p' Hb s. unfold s. rewrite tr_convert_frame by reflexivity.
  destruct (convert_plane_correct (to_main o b pt) (tvec b n) cp nap (to_main o b p')) as (c & Hc & Hs).
  exists c. split; [exact Hc|]. cbv zeta in Hs. rewrite msense_moved in Hs by (assumption || reflexivity). exact Hs.
Qed.

Theorem frame_transform_sphere : forall (o : R3) (b : M3 R) pt u r rest nap (p' : R3),
  rows_orthonormal b ->
  let s := mkMS KS pt u (r :: rest) nap in
  exists c, tr_convert RS (vlist o ++ mlist b) s = Ok [(c, 1%Z)] /\
            t4val c (to_main o b p') = msense s p'.
Proof.
  intros o b pt u r rest nap p' Hb s. unfold s. rewrite tr_convert_frame by reflexivity.
  destruct (convert_sphere_correct (to_main o b pt) (tvec b u) r rest nap (to_main o b p')) as (c & Hc & Hs).
  exists c. split; [exact Hc|]. cbv zeta in Hs. rewrite msense_moved in Hs by (assumption || reflexivity). exact Hs.
Qed.

Theorem frame_transform_cylinder : forall (o : R3) (b : M3 R) pt u r rest nap (p' : R3),
  rows_orthonormal b -> norm2 u = 1 ->
  let s := mkMS KC pt u (r :: rest) nap in
  exists c, tr_convert RS (vlist o ++ mlist b) s = Ok [(c, 1%Z)] /\
            t4val c (to_main o b p') = msense s p'.
Proof.
  intros o b pt u r rest nap p' Hb Hu s. unfold s. rewrite tr_convert_frame by reflexivity.
  assert (Hu' : norm2 (tvec b u) = 1) by (rewrite norm2_tvec; assumption).
  destruct (convert_cylinder_correct (to_main o b pt) (tvec b u) r rest nap (to_main o b p') Hu') as (c & Hc & Hs).
  exists c. split; [exact Hc|]. cbv zeta in Hs. rewrite msense_moved in Hs by (assumption || reflexivity). exact Hs.
Qed.

Lemma mneg_moved o b pt u cp nap p' :
  rows_orthonormal b ->
  mneg (mkMS KK (to_main o b pt) (tvec b u) cp nap) (to_main o b p') <-> mneg (mkMS KK pt u cp nap) p'.
Proof.
  intros Hb. unfold mneg. rewrite msense_moved by (assumption || reflexivity).
  cbn [mpt maxis]. rewrite axial_moved by assumption. unfold sheet_of; cbn [mk mnap]. reflexivity.
Qed.
Lemma mpos_moved o b pt u cp nap p' :
  rows_orthonormal b ->
  mpos (mkMS KK (to_main o b pt) (tvec b u) cp nap) (to_main o b p') <-> mpos (mkMS KK pt u cp nap) p'.
Proof.
  intros Hb. unfold mpos. rewrite msense_moved by (assumption || reflexivity).
  cbn [mpt maxis]. rewrite axial_moved by assumption. unfold sheet_of; cbn [mk mnap]. reflexivity.
Qed.

(* two-sheet cone: a single surface with the same function *)
Theorem frame_transform_cone : forall (o : R3) (b : M3 R) apex u c0 a rest nap (p' : R3),
  rows_orthonormal b -> norm2 u = 1 -> (nap = None \/ nap = Some 0%Z) ->
  let s := mkMS KK apex u (c0 :: a :: rest) nap in
  exists c, tr_convert RS (vlist o ++ mlist b) s = Ok [(c, 1%Z)] /\
            t4val c (to_main o b p') = msense s p'.
Proof.
  intros o b apex u c0 a rest nap p' Hb Hu Hn s. unfold s. rewrite tr_convert_frame by reflexivity.
  assert (Hu' : norm2 (tvec b u) = 1) by (rewrite norm2_tvec; assumption).
  pose proof (cone_part_value (to_main o b apex) (tvec b u) c0 a rest nap (to_main o b p') Hu') as E.
  cbv zeta in E. rewrite msense_moved in E by (assumption || reflexivity).
  eexists. split; [| exact E].
  destruct Hn as [Hn | Hn]; rewrite Hn; reflexivity.
Qed.

(* one-sheet cone (either sheet, axis mapped anywhere, also onto minus a
   coordinate axis): cone + auxiliary plane select the image of the kept sheet *)
Theorem frame_transform_cone_sheet : forall (o : R3) (b : M3 R) apex u c0 a rest n (p' : R3),
  rows_orthonormal b -> norm2 u = 1 -> (n = 1 \/ n = -1)%Z ->
  let s := mkMS KK apex u (c0 :: a :: rest) (Some n) in
  exists cone plane side,
    tr_convert RS (vlist o ++ mlist b) s = Ok [(cone, 1%Z); (plane, side)] /\
    (mneg s p' <-> coll_neg [(cone, 1%Z); (plane, side)] (to_main o b p')) /\
    (mpos s p' <-> coll_pos [(cone, 1%Z); (plane, side)] (to_main o b p')).
Proof.
  intros o b apex u c0 a rest n p' Hb Hu Hn s. unfold s. rewrite tr_convert_frame by reflexivity.
  assert (Hu' : norm2 (tvec b u) = 1) by (rewrite norm2_tvec; assumption).
  assert (Hn' : Some n = None \/ Some n = Some 0%Z \/ Some n = Some 1%Z \/ Some n = Some (-1)%Z)
    by (destruct Hn as [Hn | Hn]; rewrite Hn; auto).
  destruct (convert_cone_correct (to_main o b apex) (tvec b u) c0 a rest (Some n) (to_main o b p') Hu' Hn')
    as (coll & Hc & Hneg & Hpos).
  cbv zeta in Hneg, Hpos. rewrite mneg_moved in Hneg by assumption. rewrite mpos_moved in Hpos by assumption.
  assert (Ec : convert RS (mkMS KK (to_main o b apex) (tvec b u) (c0 :: a :: rest) (Some n))
               = Ok [(cone_part RS (mkMS KK (to_main o b apex) (tvec b u) (c0 :: a :: rest) (Some n)) a, 1%Z);
                     sheet_plane RS (mkMS KK (to_main o b apex) (tvec b u) (c0 :: a :: rest) (Some n)) n])
    by (destruct Hn as [Hn | Hn]; rewrite Hn; reflexivity).
  rewrite Ec in Hc. injection Hc as Hc. subst coll.
  destruct (sheet_plane RS (mkMS KK (to_main o b apex) (tvec b u) (c0 :: a :: rest) (Some n)) n) as [plane side] eqn:Esp.
  exists (cone_part RS (mkMS KK (to_main o b apex) (tvec b u) (c0 :: a :: rest) (Some n)) a), plane, side.
  rewrite Ec. split; [reflexivity|]. split; assumption.
Qed.

(* ---------- quadrics ---------- *)
Theorem quad_congruence : forall (q : list R) (o : R3) (b : M3 R) (p : R3),
  List.length q = 10%nat ->
  gq_fn (transformation_quad RS q (vlist o ++ mlist b)) p = gq_fn q (to_aux o b p).
Proof.
  intros q o b p Hq.
  do 10 (destruct q as [|? q]; [discriminate|]). destruct q; [|discriminate].
  destruct o, b as [[? ? ?] [? ? ?] [? ? ?]]. apply quad_congruence_explicit.
Qed.

(* for orthonormal axes: the moved quadric at the moved point *)
Theorem quad_congruence_main : forall (q : list R) (o : R3) (b : M3 R) (p' : R3),
  List.length q = 10%nat -> rows_orthonormal b ->
  gq_fn (transformation_quad RS q (vlist o ++ mlist b)) (to_main o b p') = gq_fn q p'.
Proof. intros q o b p' Hq Hb. rewrite quad_congruence by assumption. rewrite to_aux_to_main by assumption. reflexivity. Qed.

(* a GQ surface moved and converted: a QUAD with the MCNP function *)
Theorem frame_transform_gq : forall (q : list R) (o : R3) (b : M3 R) pt u nap (p' : R3),
  List.length q = 10%nat -> rows_orthonormal b ->
  let s := mkMS KGQ pt u q nap in
  exists c, tr_convert RS (vlist o ++ mlist b) s = Ok [(c, 1%Z)] /\
            t4val c (to_main o b p') = msense s p'.
Proof.
  intros q o b pt u nap p' Hq Hb s.
  exists (plain QUAD (transformation_quad RS q (vlist o ++ mlist b))). split.
  - unfold s, tr_convert, transformation. cbn [mk mcp].
    destruct o, b as [[? ? ?] [? ? ?] [? ? ?]]. rewrite Hq. reflexivity.
  - unfold t4val, plain; cbn [ttr tk tprm t4base]. unfold msense, s; cbn [mk mcp].
    apply quad_congruence_main; assumption.
Qed.

(* ---------- SQ: rewritten as GQ (sq_to_gq, with its sign rule), then moved ---------- *)
Ltac rs := cbn [sadd ssub smul sdiv sneg sabs ssqrt s0 s1 sofZ spi scos ssin satan RS
                sltb sleb seqb vx vy vz nth] in *.

Lemma len10 {A} (l : list A) : List.length l = 10%nat ->
  exists a b c d e f g h i j, l = [a; b; c; d; e; f; g; h; i; j].
Proof.
  intros H. do 10 (destruct l as [|? l]; [discriminate|]). destruct l; [|discriminate]. repeat eexists.
Qed.

Lemma gq_fn_opp (q : list R) p : List.length q = 10%nat -> gq_fn (map Ropp q) p = - gq_fn q p.
Proof.
  intros H. destruct (len10 q H) as (a & b & c & d & e & f & g & h & i & j & ->).
  destruct p as [x y z]. unfold gq_fn; cbn [map nth vx vy vz]. ring.
Qed.

Lemma sq_expand_fn (q : list R) p : List.length q = 10%nat -> gq_fn (sq_expand RS q) p = sq_fn q p.
Proof.
  intros H. destruct (len10 q H) as (a & b & c & d & e & f & g & h & i & j & ->).
  destruct p as [x y z]. unfold gq_fn, sq_fn, sq_expand; rs. cbn [nth vx vy vz]. ring.
Qed.

Lemma eval_quadric_gq (q : list R) p : eval_quadric RS q p = gq_fn q p.
Proof. destruct p as [x y z]. unfold eval_quadric, gq_fn; rs. ring. Qed.

Lemma sq_expand_length (q : list R) : List.length (sq_expand RS q) = 10%nat.
Proof. reflexivity. Qed.

Lemma sq_to_gq_fn (q : list R) p : List.length q = 10%nat ->
  List.length (sq_to_gq RS q) = 10%nat /\ gq_fn (sq_to_gq RS q) p = sq_fn q p.
Proof. intros H. unfold sq_to_gq. split; [reflexivity | apply sq_expand_fn, H]. Qed.

(* untransformed and transformed SQ: a QUAD whose value is the SQ function with
   the coefficients as given, at the point itself resp. at the moved point *)
Theorem frame_transform_sq : forall (q : list R) (o : R3) (b : M3 R) pt u nap (p' : R3),
  List.length q = 10%nat -> rows_orthonormal b ->
  let s := mkMS KSQ pt u q nap in
  (exists c0, convert RS s = Ok [(c0, 1%Z)] /\ t4val c0 p' = msense s p') /\
  (exists c, tr_convert RS (vlist o ++ mlist b) s = Ok [(c, 1%Z)] /\
             t4val c (to_main o b p') = msense s p').
Proof.
  intros q o b pt u nap p' Hq Hb s. split.
  - exists (plain QUAD (sq_to_gq RS q)). split.
    + unfold s, convert, convert_special_quadric. cbn [mk mcp]. rewrite Hq. reflexivity.
    + unfold t4val, plain; cbn [ttr tk tprm t4base]. unfold msense, s; cbn [mk mcp].
      apply (sq_to_gq_fn q p' Hq).
  - destruct (sq_to_gq_fn q p' Hq) as [Hl Hv].
    exists (plain QUAD (transformation_quad RS (sq_to_gq RS q) (vlist o ++ mlist b))). split.
    + unfold s, tr_convert, transformation. cbn [mk mcp].
      destruct o as [o1 o2 o3], b as [[b1 b2 b3] [b4 b5 b6] [b7 b8 b9]]. rewrite Hq. reflexivity.
    + unfold t4val, plain; cbn [ttr tk tprm t4base]. unfold msense, s; cbn [mk mcp].
      rewrite quad_congruence_main by assumption. exact Hv.
Qed.
