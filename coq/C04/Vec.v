(* C04 — 3-vectors and 3x3 matrices over an abstract scalar, mirroring
   t4_geom_convert/Kernel/VectUtils.py (scal, vect, rescale, vdiff, renorm,
   mag2, mag, transpose, matrix_rows) with the same evaluation order, so that
   the binary64 reading computes what Python computes. *)
From Coq Require Import List ZArith Bool.
From T4V Require Import Base.Scalar.
Import ListNotations.

Record V3 (A : Type) := mkV { vx : A; vy : A; vz : A }.
Arguments mkV {A}. Arguments vx {A}. Arguments vy {A}. Arguments vz {A}.

(* a 3x3 matrix is the triple of its rows (matrix_rows of the flat list) *)
Definition M3 (A : Type) := V3 (V3 A).

Definition vmap {A B} (f : A -> B) (v : V3 A) : V3 B := mkV (f (vx v)) (f (vy v)) (f (vz v)).
Definition vlist {A} (v : V3 A) : list A := [vx v; vy v; vz v].
Definition mlist {A} (m : M3 A) : list A := vlist (vx m) ++ vlist (vy m) ++ vlist (vz m).

Definition of_list3 {A} (l : list A) : option (V3 A) :=
  match l with [a; b; c] => Some (mkV a b c) | _ => None end.
Definition of_list9 {A} (l : list A) : option (M3 A) :=
  match l with
  | [a; b; c; d; e; f; g; h; i] => Some (mkV (mkV a b c) (mkV d e f) (mkV g h i))
  | _ => None
  end.

Definition transpose {A} (m : M3 A) : M3 A :=
  mkV (mkV (vx (vx m)) (vx (vy m)) (vx (vz m)))
      (mkV (vy (vx m)) (vy (vy m)) (vy (vz m)))
      (mkV (vz (vx m)) (vz (vy m)) (vz (vz m))).

(* index 0,1,2 (anything else reads as 2; indices are always reduced mod 3) *)
Definition vget {A} (i : nat) (v : V3 A) : A :=
  match i with 0 => vx v | 1 => vy v | _ => vz v end.
Definition vset {A} (i : nat) (x : A) (v : V3 A) : V3 A :=
  match i with
  | 0 => mkV x (vy v) (vz v)
  | 1 => mkV (vx v) x (vz v)
  | _ => mkV (vx v) (vy v) x
  end.
Definition nxt (i : nat) : nat := match i with 0 => 1 | 1 => 2 | _ => 0 end.
Definition prv (i : nat) : nat := match i with 0 => 2 | 1 => 0 | _ => 1 end.

(* v[i:] + v[:i] *)
Definition rotl {A} (i : nat) (v : V3 A) : V3 A :=
  mkV (vget i v) (vget (nxt i) v) (vget (nxt (nxt i)) v).
(* numpy.roll(v, shift=i): new[(k+i) mod 3] = old[k] *)
Definition roll {A} (i : nat) (v : V3 A) : V3 A :=
  match i with
  | 0 => v
  | 1 => mkV (vz v) (vx v) (vy v)
  | _ => mkV (vy v) (vz v) (vx v)
  end.

Definition all_some {A} (v : V3 (option A)) : option (V3 A) :=
  match vx v, vy v, vz v with
  | Some a, Some b, Some c => Some (mkV a b c)
  | _, _, _ => None
  end.
Definition is_some {A} (o : option A) : bool := match o with Some _ => true | None => false end.

Section Ops.
  Context {T : Type} (S : Scalar T).
  Local Infix "+!" := (sadd S) (at level 50, left associativity).
  Local Infix "-!" := (ssub S) (at level 50, left associativity).
  Local Infix "*!" := (smul S) (at level 40, left associativity).
  Local Infix "/!" := (sdiv S) (at level 40, left associativity).

  Definition v0 : V3 T := mkV (s0 S) (s0 S) (s0 S).
  Definition ex : V3 T := mkV (s1 S) (s0 S) (s0 S).
  Definition ey : V3 T := mkV (s0 S) (s1 S) (s0 S).
  Definition ez : V3 T := mkV (s0 S) (s0 S) (s1 S).
  Definition idm : M3 T := mkV ex ey ez.

  Definition scal (a b : V3 T) : T := vx a *! vx b +! vy a *! vy b +! vz a *! vz b.
  Definition vect (a b : V3 T) : V3 T :=
    mkV (vy a *! vz b -! vz a *! vy b)
        (vx b *! vz a -! vx a *! vz b)
        (vx a *! vy b -! vy a *! vx b).
  Definition rescale (k : T) (a : V3 T) : V3 T := mkV (k *! vx a) (k *! vy a) (k *! vz a).
  Definition vdiff (a b : V3 T) : V3 T := mkV (vx a -! vx b) (vy a -! vy b) (vz a -! vz b).
  Definition vadd (a b : V3 T) : V3 T := mkV (vx a +! vx b) (vy a +! vy b) (vz a +! vz b).
  Definition mag2 (a : V3 T) : T := scal a a.
  Definition mag (a : V3 T) : T := ssqrt S (mag2 a).
  (* renorm(vec, norm) = rescale(norm / mag(vec), vec) *)
  Definition renorm_to (n : T) (a : V3 T) : V3 T := rescale (n /! mag a) a.
  Definition renorm (a : V3 T) : V3 T := renorm_to (s1 S) a.

  (* matrix (rows) applied to a vector, and its transpose applied to a vector *)
  Definition mapply (m : M3 T) (v : V3 T) : V3 T := mkV (scal (vx m) v) (scal (vy m) v) (scal (vz m) v).
  Definition det3 (m : M3 T) : T := scal (vx m) (vect (vy m) (vz m)).
End Ops.
