(* C04 — for importers: when normalize_transform returns EXACTLY the card's
   numbers (so that the transformation law, which needs exactly orthonormal
   rows, applies to its output), and how far the moved frame can be off
   otherwise. *)
From Coq Require Import List ZArith Bool Reals Lra Lia.
From T4V Require Import Base.Scalar C04.Vec C04.Model C04.Spec C04.ProofsFrame C04.ProofsMatrix
  C04.ProofsCard C04.ProofsCompose C04.ProofsAdjust.
Import ListNotations.
Open Scope R_scope.

(* a 12- or 13-entry (m = 1) transformation whose matrix is exactly orthonormal
   and has no entry strictly between 0 and 1e-10 in magnitude: every path to
   normalize_transform (TR card, inline TRCL, inline FILL) returns exactly the
   twelve numbers of the card, which [tr_parts] splits back into (O, B) *)
Theorem normalize_transform_exact : forall (o : R3) (b : M3 R) trs trid,
  rows_orthonormal b -> clip_ok_m b ->
  normalize_transform RS (map Some (tr12 o b)) = Ok (tr12 o b) /\
  normalize_transform RS (map Some (tr12 o b ++ [1])) = Ok (tr12 o b) /\
  tr_card RS false (map Some (tr12 o b)) = Ok (tr12 o b) /\
  tr_card RS false (map Some (tr12 o b ++ [1])) = Ok (tr12 o b) /\
  parse_trcl RS false (tr12 o b) trs trid = Ok (tr12 o b) /\
  parse_fill_tr RS false (tr12 o b) trs trid = Ok (tr12 o b) /\
  tr_parts (tr12 o b) = Some (o, b).
Proof.
  intros o b trs trid Hb Hc. unfold tr12.
  pose proof (normalize_transform_12 o b Hb Hc) as E12.
  pose proof (normalize_transform_13 o b 1 Hb Hc) as E13.
  assert (E1 : Reqb 1 1 = true) by (apply Reqb_true; reflexivity). rewrite E1 in E13.
  destruct (tr_card_12 o b Hb Hc) as [T12 T13].
  destruct (inline_12 o b trs trid Hb Hc) as (I1 & _ & I3).
  rewrite <- app_assoc. repeat split; try assumption. apply tr_parts_tr12.
Qed.

(* ---------- perturbation: a matrix entrywise within eps of another ---------- *)
Definition l1 (v : R3) : R := Rabs (vx v) + Rabs (vy v) + Rabs (vz v).
Definition eps10 : R := / 10000000000.

Lemma lin3 (a1 a2 a3 c1 c2 c3 x y z e : R) :
  Rabs (a1 - c1) < e -> Rabs (a2 - c2) < e -> Rabs (a3 - c3) < e ->
  Rabs ((a1 * x + a2 * y + a3 * z) - (c1 * x + c2 * y + c3 * z)) <= e * (Rabs x + Rabs y + Rabs z).
Proof.
  intros H1 H2 H3.
  replace ((a1 * x + a2 * y + a3 * z) - (c1 * x + c2 * y + c3 * z))
    with ((a1 - c1) * x + (a2 - c2) * y + (a3 - c3) * z) by ring.
  eapply Rle_trans; [apply Rabs_triang|]. eapply Rle_trans; [apply Rplus_le_compat_r, Rabs_triang|].
  rewrite !Rabs_mult.
  assert (0 <= Rabs x) by apply Rabs_pos. assert (0 <= Rabs y) by apply Rabs_pos. assert (0 <= Rabs z) by apply Rabs_pos.
  assert (0 <= Rabs (a1 - c1)) by apply Rabs_pos. assert (0 <= Rabs (a2 - c2)) by apply Rabs_pos.
  assert (0 <= Rabs (a3 - c3)) by apply Rabs_pos.
  nra.
Qed.

(* the moved axis B^T v and the moved point O + B^T v are linear in the matrix
   entries: each coordinate moves by at most 1e-10 * |v|_1 *)
Theorem frame_perturbation : forall (b q : M3 R) (o v : R3),
  close_m b q ->
  Rabs (vx (tvec b v) - vx (tvec q v)) <= eps10 * l1 v /\
  Rabs (vy (tvec b v) - vy (tvec q v)) <= eps10 * l1 v /\
  Rabs (vz (tvec b v) - vz (tvec q v)) <= eps10 * l1 v /\
  Rabs (vx (to_main o b v) - vx (to_main o q v)) <= eps10 * l1 v /\
  Rabs (vy (to_main o b v) - vy (to_main o q v)) <= eps10 * l1 v /\
  Rabs (vz (to_main o b v) - vz (to_main o q v)) <= eps10 * l1 v.
Proof.
  intros [[b1 b2 b3] [b4 b5 b6] [b7 b8 b9]] [[q1 q2 q3] [q4 q5 q6] [q7 q8 q9]] [o1 o2 o3] [x y z].
  unfold close_m, close3, tvec, to_main, vplus, vscale, l1, eps10; cbn [vx vy vz].
  intros ((H1 & H2 & H3) & (H4 & H5 & H6) & (H7 & H8 & H9)).
  pose proof (lin3 b1 b4 b7 q1 q4 q7 x y z _ H1 H4 H7) as Lx.
  pose proof (lin3 b2 b5 b8 q2 q5 q8 x y z _ H2 H5 H8) as Ly.
  pose proof (lin3 b3 b6 b9 q3 q6 q9 x y z _ H3 H6 H9) as Lz.
  repeat split; try assumption.
  - replace (o1 + (x * b1 + (y * b4 + z * b7)) - (o1 + (x * q1 + (y * q4 + z * q7))))
      with ((b1 * x + b4 * y + b7 * z) - (q1 * x + q4 * y + q7 * z)) by ring. exact Lx.
  - replace (o2 + (x * b2 + (y * b5 + z * b8)) - (o2 + (x * q2 + (y * q5 + z * q8))))
      with ((b2 * x + b5 * y + b8 * z) - (q2 * x + q5 * y + q8 * z)) by ring. exact Ly.
  - replace (o3 + (x * b3 + (y * b6 + z * b9)) - (o3 + (x * q3 + (y * q6 + z * q9))))
      with ((b3 * x + b6 * y + b9 * z) - (q3 * x + q6 * y + q9 * z)) by ring. exact Lz.
Qed.

(* whatever the nine numbers: the matrix adjust_matrix returns moves every
   frame (point and axis, the numbers written for PLANE / SPHERE / CYL / CONE /
   TORUS) to within 1e-10 * |v|_1 per coordinate of where an exactly
   orthonormal matrix q moves it; for q the interface law holds exactly *)
Theorem normalize_transform_perturbation : forall (m : M3 R) (l : list R),
  adjust_matrix RS (mlist m) = Ok l ->
  exists out q : M3 R, l = mlist out /\ rows_orthonormal q /\ rows_orthonormal (transpose q) /\
    forall (o v : R3),
      Rabs (vx (tvec out v) - vx (tvec q v)) <= eps10 * l1 v /\
      Rabs (vy (tvec out v) - vy (tvec q v)) <= eps10 * l1 v /\
      Rabs (vz (tvec out v) - vz (tvec q v)) <= eps10 * l1 v /\
      Rabs (vx (to_main o out v) - vx (to_main o q v)) <= eps10 * l1 v /\
      Rabs (vy (to_main o out v) - vy (to_main o q v)) <= eps10 * l1 v /\
      Rabs (vz (to_main o out v) - vz (to_main o q v)) <= eps10 * l1 v.
Proof.
  intros m l H. destruct (adjust_matrix_near_orthonormal m l H) as (out & q & El & Hq & Hqt & Hc).
  exists out, q. split; [exact El|]. split; [exact Hq|]. split; [exact Hqt|].
  intros o v. apply (frame_perturbation out q o v Hc).
Qed.
