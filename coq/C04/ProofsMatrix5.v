(* C04 — normalize_matrix5: one row and one column supplied, Eulerian completion. *)
From Coq Require Import List ZArith Bool Reals Lra Lia Field Nsatz.
From T4V Require Import Base.Scalar C04.Vec C04.Model C04.Spec C04.ProofsMatrix.
Import ListNotations.
Open Scope R_scope.

Ltac rs := cbn [sadd ssub smul sdiv sneg sabs ssqrt s0 s1 sofZ spi scos ssin satan RS
                sltb sleb seqb vx vy vz List.nth] in *.

(* the Euler matrix with sines/cosines given through s = sin b, j = 1/s *)
Lemma euler_alg (cb r1 r2 c1 c2 s j : R) :
  cb * cb + r1 * r1 + r2 * r2 = 1 -> cb * cb + c1 * c1 + c2 * c2 = 1 ->
  s * s = r1 * r1 + r2 * r2 -> j * s = 1 ->
  rotation (mkV (mkV cb r1 r2)
                (mkV c1 (c1 * j * cb * (- r1 * j) - c2 * j * (r2 * j)) (- (- r1 * j) * (c2 * j) - c1 * j * cb * (r2 * j)))
                (mkV c2 (c1 * j * (r2 * j) + cb * (- r1 * j) * (c2 * j)) (c1 * j * (- r1 * j) - cb * (c2 * j) * (r2 * j)))).
Proof.
  intros Hr Hc Hs Hj. unfold rotation, rows_orthonormal, det, cross, dot; cbn [vx vy vz].
  repeat split; nsatz.
Qed.

Lemma nm5_full_rotation (row col : R3) :
  norm2 row = 1 -> norm2 col = 1 -> vx row = vx col ->
  rotation (nm5_full RS row col) /\ vx (nm5_full RS row col) = row /\
  vx (transpose (nm5_full RS row col)) = col.
Proof.
  destruct row as [cb r1 r2], col as [cb' c1 c2]. unfold norm2, dot; cbn [vx vy vz].
  intros Hr Hc Hcb. subst cb'.
  unfold nm5_full. cbn [vx vy vz]. rs.
  set (s := sqrt (r1 * r1 + r2 * r2)).
  assert (Hs : s * s = r1 * r1 + r2 * r2) by (apply sqrt_sqrt; nra).
  unfold isz; rs. destruct (Reqb s 0) eqn:E; cbn [negb].
  - apply Reqb_true in E. rewrite E in Hs.
    assert (E1 : r1 = 0) by nra. assert (E2 : r2 = 0) by nra. subst r1 r2.
    assert (Hcb : cb * cb = 1) by lra.
    assert (E3 : c1 = 0) by nra. assert (E4 : c2 = 0) by nra. subst c1 c2.
    split; [| split; reflexivity].
    unfold rotation, rows_orthonormal, det, cross, dot; cbn [vx vy vz]. repeat split; nsatz.
  - apply Reqb_false in E.
    split; [| split; reflexivity].
    set (j := / s). assert (Hj : j * s = 1) by (unfold j; field; assumption).
    unfold Rdiv. fold j.
    exact (euler_alg cb r1 r2 c1 c2 s j Hr Hc Hs Hj).
Qed.

Lemma rotation_roll i (m : M3 R) : rotation m -> rotation (roll i m).
Proof.
  destruct m as [[a1 a2 a3] [b1 b2 b3] [c1 c2 c3]].
  destruct i as [|[|i]]; unfold roll, rotation, rows_orthonormal, det, cross, dot; cbn [vx vy vz];
    intros ((H1 & H2 & H3 & H4 & H5 & H6) & D); repeat split; nsatz.
Qed.

Lemma vmap_roll_transpose {A} i (m : M3 A) : vmap (roll i) m = transpose (roll i (transpose m)).
Proof. destruct m as [[a1 a2 a3] [b1 b2 b3] [c1 c2 c3]]. destruct i as [|[|i]]; reflexivity. Qed.

Lemma rotation_roll_cols i (m : M3 R) : rotation m -> rotation (vmap (roll i) m).
Proof.
  intros H. rewrite vmap_roll_transpose. apply rotation_transpose, rotation_roll, rotation_transpose, H.
Qed.

Lemma norm2_rotl i v : norm2 (rotl i v) = norm2 v.
Proof. destruct v as [x y z]. destruct i as [|[|i]]; unfold rotl, norm2, dot; cbn [vget nxt vx vy vz]; ring. Qed.

(* row ir and column ic supplied (J elsewhere) *)
Definition pat5 (ir ic : nat) (row col : R3) : M3 (option R) :=
  let line := fun i => if Nat.eqb i ir then somev row else vset ic (Some (vget i col)) none3 in
  mkV (line 0%nat) (line 1%nat) (line 2%nat).

Theorem normalize_matrix_5 : forall (ir ic : nat) (row col : R3), (ir < 3)%nat -> (ic < 3)%nat ->
  norm2 row = 1 -> norm2 col = 1 -> vget ic row = vget ir col ->
  exists b, normalize_matrix RS (mlist (pat5 ir ic row col)) = Ok (mlist b) /\ rotation b /\
            agrees (pat5 ir ic row col) b.
Proof.
  intros ir ic row col Hir Hic Hr Hc Hsh.
  set (F := nm5_full RS (rotl ic row) (rotl ir col)).
  assert (HF : rotation F /\ vx F = rotl ic row /\ vx (transpose F) = rotl ir col).
  { apply nm5_full_rotation; rewrite ?norm2_rotl; assumption. }
  destruct HF as (HR & Hrow & Hcol).
  exists (vmap (roll ic) (roll ir F)).
  split; [| split; [apply rotation_roll_cols, rotation_roll, HR |]].
  - destruct row as [x1 x2 x3], col as [y1 y2 y3].
    clear HR Hrow Hcol.
    destruct ir as [|[|[|ir]]]; try lia; destruct ic as [|[|[|ic]]]; try lia;
      cbn [vget vx vy vz] in Hsh; subst;
      cbv [pat5 Nat.eqb somev none3 vmap vset vget mlist vlist vx vy vz app]; rewrite nm_full9; cbv zeta;
      cbn [count_some filter is_some List.length Nat.eqb];
      unfold nm5; cbn [first_idx all_some is_some transpose vx vy vz vget rmap]; reflexivity.
  - destruct F as [[f11 f12 f13] [f21 f22 f23] [f31 f32 f33]].
    destruct row as [x1 x2 x3], col as [y1 y2 y3].
    cbn [vx vy vz transpose] in Hrow, Hcol.
    clear HR.
    destruct ir as [|[|[|ir]]]; try lia; destruct ic as [|[|[|ic]]]; try lia;
      cbn [rotl vget nxt vx vy vz] in Hsh, Hrow, Hcol; injection Hrow as -> -> ->; injection Hcol as E1 E2 E3;
      unfold agrees, agree3, agree1;
      cbv [pat5 Nat.eqb somev none3 vmap vset vget roll vx vy vz]; repeat split; congruence.
Qed.
