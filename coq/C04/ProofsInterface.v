(* C04 — the interface law as ONE statement over every surface kind, dictionary
   entries (SurfaceCollection.join) and the TRIPOLI-4 level reading of a whole
   TRCL cell.  For importers (C02, C03, C05): use [interface_law]. *)
From Coq Require Import List ZArith Bool Reals Lra Lia.
From T4V Require Import Base.Scalar C04.Vec C04.Model C04.Spec C04.ProofsFrame C04.ProofsConvert
  C04.ProofsQuad C04.ProofsSurf C04.ProofsCompose C04.ProofsMatrix C04.ProofsTorus C04.ProofsTree.
Import ListNotations.
Open Scope R_scope.

(* ---------- every kind: what the converter needs of a part ---------- *)
Definition conv_wf_all (s : msurf R) : Prop :=
  match mk s with
  | KT => norm2 (maxis s) = 1 /\ torus_axis_ok (maxis s)
  | KSQ => List.length (mcp s) = 10%nat
  | _ => conv_wf s
  end.

Theorem convert_law_all : forall (s : msurf R), conv_wf_all s ->
  exists coll, convert RS s = Ok coll /\
    forall P, (mneg s P <-> coll_neg coll P) /\ (mpos s P <-> coll_pos coll P).
Proof.
  intros s Hwf. destruct s as [k pt u cp nap]. unfold conv_wf_all in Hwf; cbn [mk mcp maxis] in Hwf.
  destruct k; try (apply convert_law; exact Hwf).
  - (* torus *)
    destruct Hwf as [Hu Hax].
    assert (Hall : forall P, exists t, convert RS (mkMS KT pt u cp nap) = Ok [(t, 1%Z)] /\
                             t4val t P = msense (mkMS KT pt u cp nap) P).
    { intros P. destruct Hax as [(sg & Hsg & Ha) | (Hx & Hy & Hz)].
      - apply (convert_torus_aligned pt u cp nap P sg Hsg Ha).
      - apply (convert_torus_general pt u cp nap P Hu Hx Hy Hz). }
    destruct (Hall (mkV 0 0 0)) as (t & Ht & _). exists [(t, 1%Z)]. split; [exact Ht|].
    intros P. destruct (Hall P) as (t' & Ht' & Hv). rewrite Ht in Ht'. injection Ht' as <-.
    apply single_law; [rewrite Hv; apply same_sense_refl | reflexivity].
  - (* SQ *)
    assert (Hid : rows_orthonormal (idm RS)).
    { unfold rows_orthonormal, dot, idm, ex, ey, ez; cbn [vx vy vz s0 s1 RS]. repeat split; ring. }
    destruct (frame_transform_sq cp (mkV 0 0 0) (idm RS) pt u nap (mkV 0 0 0) Hwf Hid) as [(c0 & Hc0 & _) _].
    exists [(c0, 1%Z)]. split; [exact Hc0|]. intros P.
    destruct (frame_transform_sq cp (mkV 0 0 0) (idm RS) pt u nap P Hwf Hid) as [(c0' & Hc0' & Hv) _].
    cbv zeta in *. rewrite Hc0 in Hc0'. injection Hc0' as <-.
    apply single_law; [rewrite Hv; apply same_sense_refl | reflexivity].
Qed.

(* ---------- the interface law ---------- *)
(* a part the converter can move by (O,B) and convert: convertible as it is,
   quadrics have ten coefficients, and a torus axis stays off the allclose band *)
Definition iface_wf (b : M3 R) (s : msurf R) : Prop :=
  conv_wf_all s /\ (mk s = KGQ -> List.length (mcp s) = 10%nat) /\
  (mk s = KT -> torus_axis_ok (tvec b (maxis s))).

Lemma iface_part_wf b s : iface_wf b s -> part_wf s.
Proof.
  intros (Hc & Hg & _). destruct s as [k pt u cp nap]. unfold part_wf, conv_wf_all in *; cbn [mk mcp] in *.
  destruct k; try (left; reflexivity).
  - right. split; [right; reflexivity | exact Hc].
  - right. split; [left; reflexivity | apply Hg; reflexivity].
Qed.

Lemma iface_moved_wf o b s s' : rows_orthonormal b -> iface_wf b s ->
  transformation RS (tr12 o b) s = Ok s' -> conv_wf_all s'.
Proof.
  intros Hb (Hc & Hg & Ht) E. destruct s as [k pt u cp nap]. unfold conv_wf_all, conv_wf in *; cbn [mk mcp maxis mnap] in *.
  destruct k;
    try (unfold tr12 in E; rewrite transformation_frame in E by reflexivity; injection E as <-;
         unfold conv_wf_all, conv_wf; cbn [mk mcp maxis mnap]; rewrite ?norm2_tvec by assumption).
  - exact I.
  - exact Hc.
  - exact Hc.
  - exact Hc.
  - split; [apply Hc | apply Ht; reflexivity].
  - unfold transformation, tr12 in E. cbn [mk mcp mpt maxis mnap] in E.
    destruct o as [o1 o2 o3], b as [[b1 b2 b3] [b4 b5 b6] [b7 b8 b9]]. rewrite Hc in E.
    cbn [vlist mlist app vx vy vz List.length Nat.ltb Nat.leb orb] in E. injection E as <-. exact I.
  - unfold transformation, tr12 in E. cbn [mk mcp mpt maxis mnap] in E.
    destruct o as [o1 o2 o3], b as [[b1 b2 b3] [b4 b5 b6] [b7 b8 b9]]. rewrite (Hg eq_refl) in E.
    cbn [vlist mlist app vx vy vz List.length Nat.ltb Nat.leb orb] in E. injection E as <-. exact I.
Qed.

(* THE interface law: for every well-formed part s and orthonormal (O,B), the
   surfaces written for the moved part select, at the moved point O + B^T p,
   the regions the surfaces written for the unmoved part select at p (which
   are the MCNP regions of s) *)
Theorem interface_law : forall (o : R3) (b : M3 R) (s : msurf R),
  rows_orthonormal b -> iface_wf b s ->
  exists coll0 coll,
    convert RS s = Ok coll0 /\ tr_convert RS (tr12 o b) s = Ok coll /\
    forall p, (coll_neg coll (to_main o b p) <-> coll_neg coll0 p) /\
              (coll_pos coll (to_main o b p) <-> coll_pos coll0 p) /\
              (coll_neg coll0 p <-> mneg s p) /\ (coll_pos coll0 p <-> mpos s p).
Proof.
  intros o b s Hb Hwf.
  destruct (convert_law_all s (proj1 Hwf)) as (coll0 & Hc0 & L0).
  destruct (transformation_law o b s Hb (iface_part_wf b s Hwf)) as (s' & Es & _ & Lt).
  destruct (convert_law_all s' (iface_moved_wf o b s s' Hb Hwf Es)) as (coll & Hc & L1).
  exists coll0, coll. split; [exact Hc0|]. split; [unfold tr_convert; rewrite Es; exact Hc|].
  intros p. destruct (L0 p) as [N0 P0]. destruct (Lt p) as [Nt Pt]. destruct (L1 (to_main o b p)) as [N1 P1].
  tauto.
Qed.

(* ---------- dictionary entries: SurfaceCollection.join ---------- *)
(* a part with its side: side +1, or side -1 on a part converted to a single
   surface (every macrobody facet with side -1 is a plane); a one-sheet cone
   (two surfaces) must have side +1 *)
Definition single_part (s : msurf R) : Prop := sheet_of s = 0%Z.
Definition side_ok (sd : msurf R * Z) : Prop :=
  snd sd = 1%Z \/ (snd sd = (-1)%Z /\ single_part (fst sd)).
Definition entry_wf (e : list (msurf R * Z)) : Prop :=
  Forall (fun sd => conv_wf_all (fst sd) /\ side_ok sd) e.

Lemma coll_neg_app a b P : coll_neg (a ++ b) P <-> coll_neg a P /\ coll_neg b P.
Proof. unfold coll_neg. apply Forall_app. Qed.
Lemma coll_pos_app a b P : coll_pos (a ++ b) P <-> coll_pos a P \/ coll_pos b P.
Proof. unfold coll_pos. apply Exists_app. Qed.

Lemma flip_id (c : list (t4surf R * Z)) : map (fun ss => (fst ss, (snd ss * 1)%Z)) c = c.
Proof. induction c as [|[x y] c IH]; [reflexivity|]. cbn [map fst snd]. rewrite IH, Z.mul_1_r. reflexivity. Qed.

(* a converted single-surface part: its collection is one surface with side 1 *)
Lemma convert_single (s : msurf R) coll : conv_wf_all s -> single_part s -> convert RS s = Ok coll ->
  exists c, coll = [(c, 1%Z)].
Proof.
  intros Hwf Hs E. destruct s as [k pt u cp nap]. unfold conv_wf_all, conv_wf, single_part, sheet_of in *.
  cbn [mk mcp maxis mnap] in *.
  destruct k; unfold convert in E; cbn [mk] in E.
  - injection E as <-. eexists; reflexivity.
  - destruct Hwf as (r & rest & ->). injection E as <-. eexists; reflexivity.
  - destruct Hwf as (_ & r & rest & ->). unfold convert_cylinder in E; cbn [mcp rmap] in E. injection E as <-. eexists; reflexivity.
  - destruct Hwf as (_ & (c0 & a & rest & ->) & _). unfold convert_cone in E; cbn [mcp mnap] in E.
    destruct nap as [n|]; [subst n|]; injection E as <-; eexists; reflexivity.
  - injection E as <-. eexists; reflexivity.
  - unfold convert_special_quadric in E; cbn [mcp] in E. rewrite Hwf in E. injection E as <-. eexists; reflexivity.
  - injection E as <-. eexists; reflexivity.
Qed.

Theorem entry_law : forall (e : list (msurf R * Z)), entry_wf e ->
  exists coll, convert_entry RS e = Ok coll /\
    forall P, (entry_neg e P <-> coll_neg coll P) /\ (entry_pos e P <-> coll_pos coll P).
Proof.
  induction e as [|[s side] e IH]; intros Hwf.
  - exists []. split; [reflexivity|]. intros P. unfold entry_neg, entry_pos, coll_neg, coll_pos.
    split; split; intros H; try constructor; inversion H.
  - inversion Hwf as [|? ? [Hs Hside] He]; subst. cbn [fst snd] in Hs, Hside.
    destruct (IH He) as (colle & Ee & Le). destruct (convert_law_all s Hs) as (cs & Ec & Ls).
    unfold convert_entry in Ee |- *. cbn [map_res fst snd]. rewrite Ec. cbn [rmap bind].
    destruct (map_res _ e) as [l|err] eqn:El; cbn [rmap] in Ee; [|discriminate]. injection Ee as <-.
    cbn [bind rmap]. unfold join at 1. cbn [flat_map fst snd]. fold (join l).
    eexists. split; [reflexivity|]. intros P. destruct (Le P) as [Ln Lp]. destruct (Ls P) as [Sn Sp].
    rewrite coll_neg_app, coll_pos_app. unfold entry_neg, entry_pos in *. rewrite Forall_cons_iff, Exists_cons.
    unfold part_neg, part_pos; cbn [fst snd].
    unfold side_ok in Hside; cbn [fst snd] in Hside. destruct Hside as [E | [E Hsing]]; subst side.
    + rewrite flip_id. cbn. tauto.
    + destruct (convert_single s cs Hs Hsing Ec) as (c & ->). cbn [map fst snd].
      assert (E1 : (1 * -1)%Z = (-1)%Z) by reflexivity. rewrite E1.
      assert (En : coll_neg [(c, (-1)%Z)] P <-> coll_pos [(c, 1%Z)] P).
      { unfold coll_neg, coll_pos. rewrite Forall_cons_iff, Forall_nil_iff, Exists_cons, Exists_nil. cbn [fst snd].
        replace (IZR (-1)) with (-1) by reflexivity. replace (IZR 1) with 1 by reflexivity. split; [intros [H _]; left; lra | intros [H | []]; split; [lra | exact I]]. }
      assert (Ep : coll_pos [(c, (-1)%Z)] P <-> coll_neg [(c, 1%Z)] P).
      { unfold coll_neg, coll_pos. rewrite Forall_cons_iff, Forall_nil_iff, Exists_cons, Exists_nil. cbn [fst snd].
        replace (IZR (-1)) with (-1) by reflexivity. replace (IZR 1) with 1 by reflexivity. split; [intros [H | []]; split; [lra | exact I] | intros [H _]; left; lra]. }
      rewrite En, Ep. cbn. tauto.
Qed.

(* ---------- TRIPOLI-4 level: a whole expression ---------- *)
(* the surface dictionary as converted (dic_surface_t4[k] = convert_mcnp_surface (dic_surface_mcnp[k])) *)
Fixpoint region_t4 (cellsem : Z -> R3 -> Prop) (tb : table) (t : gtree) (p : R3) : Prop :=
  match t with
  | GSurf n => match lookup (Z.abs n) tb with
               | Ok e => match convert_entry RS e with
                         | Ok coll => if (0 <=? n)%Z then coll_pos coll p else coll_neg coll p
                         | Err _ => False
                         end
               | Err _ => False
               end
  | GCell n => cellsem n p
  | GCompl n => ~ cellsem n p
  | GOp GInter args => fold_right and True (map (fun a => region_t4 cellsem tb a p) args)
  | GOp GUnion args => fold_right or False (map (fun a => region_t4 cellsem tb a p) args)
  end.

Definition table_cwf (tb : table) : Prop := Forall (fun kv => entry_wf (snd kv)) tb.

Lemma lookup_cwf (tb : table) k e : table_cwf tb -> lookup k tb = Ok e -> entry_wf e.
Proof.
  induction tb as [|[k' e'] tb IH]; intros Hw Hl; [discriminate|].
  inversion Hw; subst. cbn [lookup] in Hl. destruct (Z.eqb k k'); [injection Hl as <-; assumption | auto].
Qed.

(* the written surfaces denote the MCNP regions, expression by expression *)
Theorem region_t4_mcnp : forall cellsem (tb : table) (t : gtree) p,
  table_cwf tb -> (region_t4 cellsem tb t p <-> region cellsem tb t p).
Proof.
  intros cellsem tb t p Hw. induction t as [n | n | n | op args IH] using gtree_ind2; try (cbn; tauto).
  - cbn [region_t4 region]. destruct (lookup (Z.abs n) tb) as [e|err] eqn:El; [|tauto].
    destruct (entry_law e (lookup_cwf tb _ e Hw El)) as (coll & Ec & L). rewrite Ec.
    destruct (L p) as [Ln Lp]. destruct (0 <=? n)%Z; tauto.
  - destruct op; cbn [region_t4 region]; induction args as [|a r IHr]; cbn [map fold_right]; try tauto;
      inversion IH as [|? ? Ha Hr]; subst; rewrite Ha, (IHr Hr); tauto.
Qed.

(* a whole TRCL cell, TRIPOLI-4 level: the volume written for the moved cell
   contains O + B^T p exactly when the volume written for the unmoved cell
   contains p *)
Theorem trcl_cell_t4 : forall (o : R3) (b : M3 R) cellsem (t t' : gtree) (st st' : pstate),
  rows_orthonormal b -> surf_only (fst st) t = true -> (0 <= fst st)%Z ->
  table_wf (snd st) -> keys_le (fst st) (snd st) ->
  table_cwf (snd st) -> table_cwf (snd st') ->
  apply_trcl RS [tr12 o b] t st = Ok (t', st') ->
  forall p', region_t4 cellsem (snd st') t' (to_main o b p') <-> region_t4 cellsem (snd st) t p'.
Proof.
  intros o b cellsem t t' st st' Hb Hs H0 Hw Hk Hc Hc' H p'.
  destruct (trcl_cell o b cellsem t t' st st' Hb Hs H0 Hw Hk H) as (Hr & _ & _).
  rewrite !region_t4_mcnp by assumption. apply Hr.
Qed.

(* ---------- the same law in the shape  sense (tr_surf t s) p = sense s (inv t p) ---------- *)
(* boolean senses of a written collection, the inverse motion [to_aux] *)
Definition sense_neg_b (coll : list (t4surf R * Z)) (p : R3) : bool :=
  forallb (fun cs => Rltb (IZR (snd cs) * t4val (fst cs) p) 0) coll.
Definition sense_pos_b (coll : list (t4surf R * Z)) (p : R3) : bool :=
  existsb (fun cs => Rltb 0 (IZR (snd cs) * t4val (fst cs) p)) coll.

Lemma sense_neg_b_spec coll p : sense_neg_b coll p = true <-> coll_neg coll p.
Proof.
  unfold sense_neg_b, coll_neg. rewrite forallb_forall, Forall_forall.
  split; intros H x Hx; specialize (H x Hx); apply Rltb_true; exact H.
Qed.
Lemma sense_pos_b_spec coll p : sense_pos_b coll p = true <-> coll_pos coll p.
Proof.
  unfold sense_pos_b, coll_pos. rewrite existsb_exists, Exists_exists.
  split; intros (x & Hx & H); exists x; (split; [exact Hx|]); apply Rltb_true; exact H.
Qed.

Lemma bool_iff_eq (a b : bool) : (a = true <-> b = true) -> a = b.
Proof. destruct a, b; intros [H1 H2]; try reflexivity; [symmetry; apply H1; reflexivity | apply H2; reflexivity]. Qed.

Lemma to_main_to_aux o b p : rows_orthonormal b -> to_main o b (to_aux o b p) = p.
Proof.
  intros Hb. pose proof (cols_orthonormal b Hb) as Hc.
  destruct o as [o1 o2 o3], b as [[b1 b2 b3] [b4 b5 b6] [b7 b8 b9]], p as [x y z].
  unfold rows_orthonormal, transpose, to_aux, to_main, vplus, vscale, vminus, dot in *; cbn [vx vy vz] in *.
  destruct Hc as (C11 & C22 & C33 & C12 & C23 & C31).
  f_equal.
  - replace (o1 + ((b1 * (x - o1) + b2 * (y - o2) + b3 * (z - o3)) * b1 +
                   ((b4 * (x - o1) + b5 * (y - o2) + b6 * (z - o3)) * b4 +
                    (b7 * (x - o1) + b8 * (y - o2) + b9 * (z - o3)) * b7)))
      with (o1 + (x - o1) * (b1 * b1 + b4 * b4 + b7 * b7) + (y - o2) * (b1 * b2 + b4 * b5 + b7 * b8)
            + (z - o3) * (b3 * b1 + b6 * b4 + b9 * b7)) by ring.
    rewrite C11, C12, C31. ring.
  - replace (o2 + ((b1 * (x - o1) + b2 * (y - o2) + b3 * (z - o3)) * b2 +
                   ((b4 * (x - o1) + b5 * (y - o2) + b6 * (z - o3)) * b5 +
                    (b7 * (x - o1) + b8 * (y - o2) + b9 * (z - o3)) * b8)))
      with (o2 + (x - o1) * (b1 * b2 + b4 * b5 + b7 * b8) + (y - o2) * (b2 * b2 + b5 * b5 + b8 * b8)
            + (z - o3) * (b2 * b3 + b5 * b6 + b8 * b9)) by ring.
    rewrite C12, C22, C23. ring.
  - replace (o3 + ((b1 * (x - o1) + b2 * (y - o2) + b3 * (z - o3)) * b3 +
                   ((b4 * (x - o1) + b5 * (y - o2) + b6 * (z - o3)) * b6 +
                    (b7 * (x - o1) + b8 * (y - o2) + b9 * (z - o3)) * b9)))
      with (o3 + (x - o1) * (b3 * b1 + b6 * b4 + b9 * b7) + (y - o2) * (b2 * b3 + b5 * b6 + b8 * b9)
            + (z - o3) * (b3 * b3 + b6 * b6 + b9 * b9)) by ring.
    rewrite C31, C23, C33. ring.
Qed.

(* for every point p of the main system: the moved part's surfaces at p
   = the unmoved part's surfaces at the back-transformed point to_aux O B p *)
Theorem interface_law_inv : forall (o : R3) (b : M3 R) (s : msurf R),
  rows_orthonormal b -> iface_wf b s ->
  exists coll0 coll,
    convert RS s = Ok coll0 /\ tr_convert RS (tr12 o b) s = Ok coll /\
    forall p, sense_neg_b coll p = sense_neg_b coll0 (to_aux o b p) /\
              sense_pos_b coll p = sense_pos_b coll0 (to_aux o b p).
Proof.
  intros o b s Hb Hwf. destruct (interface_law o b s Hb Hwf) as (coll0 & coll & E0 & E1 & L).
  exists coll0, coll. split; [exact E0|]. split; [exact E1|].
  intros p. destruct (L (to_aux o b p)) as (Ln & Lp & _ & _). rewrite to_main_to_aux in Ln, Lp by assumption.
  split; apply bool_iff_eq; rewrite ?sense_neg_b_spec, ?sense_pos_b_spec; assumption.
Qed.
