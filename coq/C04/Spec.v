(* C04 — what MCNP and TRIPOLI-4 MEAN (DESIGN.md Appendix A / B), written without
   looking at the converter.  Real numbers only.

   * the rigid motion MCNP assigns to a TR card  O1 O2 O3 B1..B9  (m = 1):
     O = origin of the auxiliary system in the main system, (B1 B2 B3) = the
     auxiliary x' axis in main coordinates, (B4 B5 B6) = y', (B7 B8 B9) = z';
     a point with auxiliary coordinates p' is the main-system point
         to_main O B p' = O + x' e_x' + y' e_y' + z' e_z'
   * the sense function of a surface given by its frame (point, axis) and
     complementary parameters, in the surface's own (auxiliary) coordinates
   * the sense function of a written TRIPOLI-4 SURF line, with its TRANSFORM. *)
From Coq Require Import List ZArith Bool Reals Lra.
From T4V Require Import Base.Scalar C04.Vec C04.Model.
Import ListNotations.
Open Scope R_scope.

Definition R3 := V3 R.
Definition vplus (a b : R3) : R3 := mkV (vx a + vx b) (vy a + vy b) (vz a + vz b).
Definition vminus (a b : R3) : R3 := mkV (vx a - vx b) (vy a - vy b) (vz a - vz b).
Definition vscale (k : R) (a : R3) : R3 := mkV (k * vx a) (k * vy a) (k * vz a).
Definition dot (a b : R3) : R := vx a * vx b + vy a * vy b + vz a * vz b.
Definition norm2 (a : R3) : R := dot a a.
Definition cross (a b : R3) : R3 :=
  mkV (vy a * vz b - vz a * vy b) (vz a * vx b - vx a * vz b) (vx a * vy b - vy a * vx b).

(* ---------- the rigid motion of a TR card ---------- *)
(* b = the nine entries as three rows: row i = auxiliary axis i in main coordinates *)
Definition to_main (o : R3) (b : M3 R) (p' : R3) : R3 :=
  vplus o (vplus (vscale (vx p') (vx b)) (vplus (vscale (vy p') (vy b)) (vscale (vz p') (vz b)))).

(* auxiliary coordinates of a main-system point: components of p - O along the
   auxiliary axes *)
Definition to_aux (o : R3) (b : M3 R) (p : R3) : R3 :=
  let d := vminus p o in mkV (dot (vx b) d) (dot (vy b) d) (dot (vz b) d).

(* the auxiliary axes are orthonormal *)
Definition rows_orthonormal (b : M3 R) : Prop :=
  dot (vx b) (vx b) = 1 /\ dot (vy b) (vy b) = 1 /\ dot (vz b) (vz b) = 1 /\
  dot (vx b) (vy b) = 0 /\ dot (vy b) (vz b) = 0 /\ dot (vz b) (vx b) = 0.
Definition det (b : M3 R) : R := dot (vx b) (cross (vy b) (vz b)).
(* proper rotation: orthonormal right-handed triple *)
Definition rotation (b : M3 R) : Prop := rows_orthonormal b /\ det b = 1.

(* ---------- MCNP: sense functions on the frame form ---------- *)
(* GQ  A B C D E F G H J K *)
Definition gq_fn (q : list R) (p : R3) : R :=
  let c := fun i => nth i q 0 in
  let x := vx p in let y := vy p in let z := vz p in
  c 0%nat * x * x + c 1%nat * y * y + c 2%nat * z * z + c 3%nat * x * y + c 4%nat * y * z
  + c 5%nat * z * x + c 6%nat * x + c 7%nat * y + c 8%nat * z + c 9%nat.

(* SQ  A B C D E F G x y z *)
Definition sq_fn (q : list R) (p : R3) : R :=
  let c := fun i => nth i q 0 in
  let dx := vx p - c 7%nat in let dy := vy p - c 8%nat in let dz := vz p - c 9%nat in
  c 0%nat * dx * dx + c 1%nat * dy * dy + c 2%nat * dz * dz
  + 2 * c 3%nat * dx + 2 * c 4%nat * dy + 2 * c 5%nat * dz + c 6%nat.

(* distance squared from the axis through [pt] with unit direction [u] *)
Definition axial (pt u p : R3) : R := dot (vminus p pt) u.
Definition perp2 (pt u p : R3) : R := norm2 (vminus p pt) - axial pt u p * axial pt u p.

(* frame forms (MIP's mcnp2cad): plane = point + normal; sphere = centre, R;
   cylinder = point on the axis, unit direction, R; cone = apex, unit direction,
   complementary parameters (_, atan t, sheet); torus = centre, unit axis, A B C *)
Definition msense (s : msurf R) (p : R3) : R :=
  let cp := fun i => nth i (mcp s) 0 in
  match mk s with
  | KP => dot (maxis s) (vminus p (mpt s))
  | KS => norm2 (vminus p (mpt s)) - cp 0%nat * cp 0%nat
  | KC => perp2 (mpt s) (maxis s) p - cp 0%nat * cp 0%nat
  | KK => perp2 (mpt s) (maxis s) p
          - tan (cp 1%nat) * tan (cp 1%nat) * (axial (mpt s) (maxis s) p * axial (mpt s) (maxis s) p)
  | KT => axial (mpt s) (maxis s) p * axial (mpt s) (maxis s) p / (cp 1%nat * cp 1%nat)
          + (sqrt (perp2 (mpt s) (maxis s) p) - cp 0%nat) * (sqrt (perp2 (mpt s) (maxis s) p) - cp 0%nat)
            / (cp 2%nat * cp 2%nat) - 1
  | KSQ => sq_fn (mcp s) p
  | KGQ => gq_fn (mcp s) p
  end.

(* regions: a one-sheet cone (sheet n = +1 / -1) keeps the sheet on which
   n * (axial coordinate) > 0; everything else has positive sense *)
Definition sheet_of (s : msurf R) : Z :=
  match mk s, mnap s with KK, Some n => n | _, _ => 0%Z end.
Definition mneg (s : msurf R) (p : R3) : Prop :=
  msense s p < 0 /\ (sheet_of s = 0%Z \/ 0 < IZR (sheet_of s) * axial (mpt s) (maxis s) p).
Definition mpos (s : msurf R) (p : R3) : Prop :=
  0 < msense s p \/ (sheet_of s <> 0%Z /\ IZR (sheet_of s) * axial (mpt s) (maxis s) p < 0).

(* ---------- TRIPOLI-4: SURF lines ---------- *)
Definition t4base (k : t4kind) (prm : list R) (p : R3) : R :=
  let c := fun i => nth i prm 0 in
  let x := vx p in let y := vy p in let z := vz p in
  let sqr := fun v : R => v * v in
  let tn := fun th : R => tan (th * PI / 180) in
  match k with
  | PLANEX => x - c 0%nat
  | PLANEY => y - c 0%nat
  | PLANEZ => z - c 0%nat
  | PLANE => c 0%nat * x + c 1%nat * y + c 2%nat * z + c 3%nat
  | SPHERE => sqr (x - c 0%nat) + sqr (y - c 1%nat) + sqr (z - c 2%nat) - sqr (c 3%nat)
  | CYLX => sqr (y - c 0%nat) + sqr (z - c 1%nat) - sqr (c 2%nat)
  | CYLY => sqr (x - c 0%nat) + sqr (z - c 1%nat) - sqr (c 2%nat)
  | CYLZ => sqr (x - c 0%nat) + sqr (y - c 1%nat) - sqr (c 2%nat)
  | CYL =>
      let pt := mkV (c 0%nat) (c 1%nat) (c 2%nat) in
      let u := mkV (c 4%nat) (c 5%nat) (c 6%nat) in
      norm2 (vminus p pt) - sqr (dot (vminus p pt) u) / norm2 u - sqr (c 3%nat)
  | CONEX => sqr (y - c 1%nat) + sqr (z - c 2%nat) - sqr (tn (c 3%nat)) * sqr (x - c 0%nat)
  | CONEY => sqr (x - c 0%nat) + sqr (z - c 2%nat) - sqr (tn (c 3%nat)) * sqr (y - c 1%nat)
  | CONEZ => sqr (x - c 0%nat) + sqr (y - c 1%nat) - sqr (tn (c 3%nat)) * sqr (z - c 2%nat)
  | CONE =>
      let pt := mkV (c 0%nat) (c 1%nat) (c 2%nat) in
      let u := mkV (c 4%nat) (c 5%nat) (c 6%nat) in
      let ax2 := sqr (dot (vminus p pt) u) / norm2 u in
      norm2 (vminus p pt) - ax2 - sqr (tn (c 3%nat)) * ax2
  | QUAD => gq_fn prm p
  | TORUSX => sqr (x - c 0%nat) / sqr (c 4%nat)
              + sqr (sqrt (sqr (y - c 1%nat) + sqr (z - c 2%nat)) - c 3%nat) / sqr (c 5%nat) - 1
  | TORUSY => sqr (y - c 1%nat) / sqr (c 4%nat)
              + sqr (sqrt (sqr (x - c 0%nat) + sqr (z - c 2%nat)) - c 3%nat) / sqr (c 5%nat) - 1
  | TORUSZ => sqr (z - c 2%nat) / sqr (c 4%nat)
              + sqr (sqrt (sqr (x - c 0%nat) + sqr (y - c 1%nat)) - c 3%nat) / sqr (c 5%nat) - 1
  end.

(* SURF n TRANSFORM (t, r): the surface is moved by q -> r q + t, i.e. the
   point is brought back by r^T (p - t) *)
Definition t4val (s : t4surf R) (p : R3) : R :=
  match ttr s with
  | None => t4base (tk s) (tprm s) p
  | Some (t, r) =>
      let d := vminus p t in
      let rt := transpose r in
      t4base (tk s) (tprm s) (mkV (dot (vx rt) d) (dot (vy rt) d) (dot (vz rt) d))
  end.

(* a collection (surface, side) as used in a volume: the MINUS side of the
   collection is the intersection of the sides, the PLUS side the union of the
   opposite sides *)
Definition coll_neg (coll : list (t4surf R * Z)) (p : R3) : Prop :=
  Forall (fun cs => IZR (snd cs) * t4val (fst cs) p < 0) coll.
Definition coll_pos (coll : list (t4surf R * Z)) (p : R3) : Prop :=
  Exists (fun cs => 0 < IZR (snd cs) * t4val (fst cs) p) coll.

(* positive multiple: same sense everywhere *)
Definition same_sense (a b : R) : Prop := exists k, 0 < k /\ a = k * b.

(* an abbreviated matrix (J = None) and a completed one agree on the supplied entries *)
Definition agree1 (o : option R) (v : R) : Prop := match o with Some x => x = v | None => True end.
Definition agree3 (o : V3 (option R)) (v : R3) : Prop :=
  agree1 (vx o) (vx v) /\ agree1 (vy o) (vy v) /\ agree1 (vz o) (vz v).
Definition agrees (m : M3 (option R)) (b : M3 R) : Prop :=
  agree3 (vx m) (vx b) /\ agree3 (vy m) (vy b) /\ agree3 (vz m) (vz b).
