(* C04 — adjust_matrix on ARBITRARY input (skewed, non-unit rows, improper):
   whenever it does not divide by zero, its result is, entry by entry, within
   the 1e-10 clip of an exactly orthonormal matrix; and applying it twice
   changes nothing (when no entry of that orthonormal matrix is clipped). *)
From Coq Require Import List ZArith Bool Reals Lra Lia Field.
From T4V Require Import Base.Scalar C04.Vec C04.Model C04.Spec C04.ProofsMatrix.
Import ListNotations.
Open Scope R_scope.

Ltac rs := cbn [sadd ssub smul sdiv sneg sabs ssqrt s0 s1 sofZ spi scos ssin satan RS
                sltb sleb seqb vx vy vz nth] in *.

Lemma norm2_nonneg v : 0 <= norm2 v.
Proof. destruct v as [x y z]. unfold norm2, dot; cbn [vx vy vz]. nra. Qed.

Lemma isz_mag_pos v : isz RS (mag RS v) = false -> 0 < norm2 v.
Proof.
  unfold isz, mag; rs. intros H. apply Reqb_false in H. rewrite mag2_norm2 in H.
  destruct (Rle_lt_or_eq_dec 0 (norm2 v) (norm2_nonneg v)) as [Hp | Hz]; [exact Hp|].
  exfalso. apply H. rewrite <- Hz. apply sqrt_0.
Qed.

Lemma dot_sym a b : dot a b = dot b a.
Proof. unfold dot. ring. Qed.

Lemma dot_cross_l a b : dot a (cross a b) = 0.
Proof. destruct a as [a1 a2 a3], b as [b1 b2 b3]. unfold dot, cross; cbn [vx vy vz]. ring. Qed.
Lemma dot_cross_r a b : dot b (cross a b) = 0.
Proof. destruct a as [a1 a2 a3], b as [b1 b2 b3]. unfold dot, cross; cbn [vx vy vz]. ring. Qed.

Lemma norm2_neg v : norm2 (rescale RS (- (1)) v) = norm2 v.
Proof. destruct v as [x y z]. unfold norm2, dot, rescale; rs. ring. Qed.
Lemma dot_neg a v : dot a (rescale RS (- (1)) v) = - dot a v.
Proof. destruct a as [a1 a2 a3], v as [x y z]. unfold dot, rescale; rs. ring. Qed.

Theorem adjust_cols_orthonormal : forall m : M3 R,
  adjust_divzero RS m = false -> rows_orthonormal (adjust_cols RS m).
Proof.
  intros m Hz. unfold adjust_divzero in Hz.
  repeat (apply orb_false_iff in Hz; destruct Hz as [Hz ?]).
  unfold adjust_cols.
  set (cols := transpose (vmap (renorm RS) m)) in *.
  set (c0 := vx cols) in *. set (c1 := vy cols). set (c2 := vz cols).
  assert (EP : adj_c1pre RS m = vdiff RS (rescale RS (mag2 RS c0) c1) (rescale RS (scal RS c0 c1) c0)) by reflexivity.
  set (P := adj_c1pre RS m) in *.
  assert (HP0 : dot P c0 = 0).
  { rewrite EP. destruct c0 as [x y z], c1 as [u v w]. unfold dot, vdiff, rescale, mag2, scal; rs. ring. }
  destruct (renorm_pos c0 (isz_mag_pos _ H0)) as (_ & N0 & O0).
  destruct (renorm_pos P (isz_mag_pos _ H1)) as (_ & N1 & O1).
  set (c0' := renorm RS c0) in *. set (c1' := renorm RS P) in *.
  assert (H01 : dot c0' c1' = 0).
  { apply O1. rewrite dot_sym. apply O0. exact HP0. }
  rewrite vect_cross in *.
  destruct (renorm_pos (cross c0' c1') (isz_mag_pos _ H)) as (_ & Nv & Ov).
  set (vp := renorm RS (cross c0' c1')) in *.
  assert (H0v : dot c0' vp = 0) by (apply Ov, dot_cross_l).
  assert (H1v : dot c1' vp = 0) by (apply Ov, dot_cross_r).
  unfold rows_orthonormal; cbn [vx vy vz]. rs.
  destruct (Rltb 0 (scal RS vp c2)).
  - repeat split; try assumption; rewrite dot_sym; assumption.
  - change (Ropp 1) with (- (1)). 
    repeat split; try assumption.
    + change (norm2 (rescale RS (- (1)) vp) = 1). rewrite norm2_neg. exact Nv.
    + rewrite dot_neg, H1v. ring.
    + rewrite dot_sym, dot_neg, H0v. ring.
Qed.

(* the clip moves an entry by less than 1e-10 *)
Lemma clip_close x : Rabs (clip RS x - x) < / 10000000000.
Proof.
  unfold clip, c1e10; rs. replace (1 / 10000000000) with (/ 10000000000) by field.
  destruct (Rleb (/ 10000000000) (Rabs x)) eqn:E.
  - replace (x - x) with 0 by ring. rewrite Rabs_R0. lra.
  - apply Rleb_false in E. replace (0 - x) with (- x) by ring. rewrite Rabs_Ropp. exact E.
Qed.

Definition close3 (a b : R3) : Prop :=
  Rabs (vx a - vx b) < / 10000000000 /\ Rabs (vy a - vy b) < / 10000000000 /\ Rabs (vz a - vz b) < / 10000000000.
Definition close_m (a b : M3 R) : Prop := close3 (vx a) (vx b) /\ close3 (vy a) (vy b) /\ close3 (vz a) (vz b).

(* whatever nine numbers are given (rows of any length, skewed, improper): if
   adjust_matrix returns at all, the returned matrix is entrywise within 1e-10
   of a matrix q with orthonormal rows AND columns *)
Theorem adjust_matrix_near_orthonormal : forall (m : M3 R) (l : list R),
  adjust_matrix RS (mlist m) = Ok l ->
  exists out q : M3 R, l = mlist out /\ rows_orthonormal q /\ rows_orthonormal (transpose q) /\ close_m out q.
Proof.
  intros m l H. unfold adjust_matrix in H.
  assert (E : of_list9 (mlist m) = Some m) by (destruct m as [[? ? ?] [? ? ?] [? ? ?]]; reflexivity).
  rewrite E in H. destruct (adjust_divzero RS m) eqn:Hz; [discriminate|]. injection H as <-.
  pose proof (adjust_cols_orthonormal m Hz) as Ho.
  exists (adjust_raw RS m), (transpose (adjust_cols RS m)).
  split; [reflexivity|]. split; [apply cols_orthonormal, Ho|]. split.
  - destruct (adjust_cols RS m) as [[? ? ?] [? ? ?] [? ? ?]]. exact Ho.
  - unfold adjust_raw. destruct (adjust_cols RS m) as [[a1 a2 a3] [a4 a5 a6] [a7 a8 a9]].
    unfold close_m, close3, transpose, vmap; cbn [vx vy vz]. repeat split; apply clip_close.
Qed.

(* idempotence: a second pass returns the same nine numbers (no entry of the
   orthonormal matrix below the clip) *)
Theorem adjust_matrix_idempotent : forall (m : M3 R) (l : list R),
  adjust_matrix RS (mlist m) = Ok l -> clip_ok_m (adjust_cols RS m) ->
  adjust_matrix RS l = Ok l.
Proof.
  intros m l H Hc. unfold adjust_matrix in H.
  assert (E : of_list9 (mlist m) = Some m) by (destruct m as [[? ? ?] [? ? ?] [? ? ?]]; reflexivity).
  rewrite E in H. destruct (adjust_divzero RS m) eqn:Hz; [discriminate|]. injection H as <-.
  pose proof (adjust_cols_orthonormal m Hz) as Ho.
  assert (Er : adjust_raw RS m = transpose (adjust_cols RS m)).
  { unfold adjust_raw. destruct (adjust_cols RS m) as [[a1 a2 a3] [a4 a5 a6] [a7 a8 a9]].
    destruct Hc as ((K1 & K2 & K3) & (K4 & K5 & K6) & (K7 & K8 & K9)). cbn [vx vy vz] in *.
    unfold vmap; cbn [vx vy vz]. rewrite !clip_id by assumption. reflexivity. }
  rewrite Er. apply adjust_matrix_fixpoint; [apply cols_orthonormal, Ho|].
  destruct (adjust_cols RS m) as [[a1 a2 a3] [a4 a5 a6] [a7 a8 a9]].
  unfold clip_ok_m, clip_ok3, transpose in *; cbn [vx vy vz] in *. tauto.
Qed.
