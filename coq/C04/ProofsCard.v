(* C04 — whole cards: TR / *TR with 3, 12, 13 entries, m = 1 only, degrees,
   inline TRCL / FILL, implicit surfaces 1000*cell + surface, and the SQ defect. *)
From Coq Require Import List ZArith Bool Reals Lra Lia Field.
From T4V Require Import Base.Scalar C04.Vec C04.Model C04.Spec C04.ProofsMatrix.
Import ListNotations.
Open Scope R_scope.

Ltac rs := cbn [sadd ssub smul sdiv sneg sabs ssqrt s0 s1 sofZ spi scos ssin satan RS
                sltb sleb seqb vx vy vz List.nth] in *.

(* ---------- degrees ---------- *)
Theorem to_cos_deg : forall a : R, to_cos RS a = cos (a * PI / 180).
Proof. intros a. unfold to_cos; rs. f_equal. field. Qed.

Lemma to_cos_values :
  to_cos RS 0 = 1 /\ to_cos RS 90 = 0 /\ to_cos RS 180 = -1 /\ to_cos RS 60 = 1 / 2.
Proof.
  rewrite !to_cos_deg. repeat split.
  - replace (0 * PI / 180) with 0 by field. apply cos_0.
  - replace (90 * PI / 180) with (PI / 2) by field. apply cos_PI2.
  - replace (180 * PI / 180) with PI by field. apply cos_PI.
  - replace (60 * PI / 180) with (PI / 3) by field. apply cos_PI3.
Qed.

(* ---------- normalize_transform on complete cards ---------- *)
Lemma values_some (l : list R) : values (map Some l) = Ok l.
Proof. induction l as [|x l IH]; [reflexivity|]. cbn [map values]. rewrite IH. reflexivity. Qed.

Lemma normalize_transform_12 o b :
  rows_orthonormal b -> clip_ok_m b ->
  normalize_transform RS (map Some (vlist o ++ mlist b)) = Ok (vlist o ++ mlist b).
Proof.
  intros Hb Hc. pose proof (normalize_matrix_9 b) as E9. pose proof (adjust_matrix_fixpoint b Hb Hc) as Ea.
  destruct o as [o1 o2 o3], b as [[b1 b2 b3] [b4 b5 b6] [b7 b8 b9]].
  cbv [mlist vlist vx vy vz app map] in E9, Ea |- *.
  unfold normalize_transform. cbn [List.length Nat.eqb andb firstn skipn].
  rewrite E9. cbn [bind]. rewrite Ea. cbn [bind values rmap app]. reflexivity.
Qed.

Lemma normalize_transform_13 o b m :
  rows_orthonormal b -> clip_ok_m b ->
  normalize_transform RS (map Some (vlist o ++ mlist b ++ [m]))
  = if Reqb m 1 then Ok (vlist o ++ mlist b) else Err ETransformation.
Proof.
  intros Hb Hc. pose proof (normalize_matrix_9 b) as E9. pose proof (adjust_matrix_fixpoint b Hb Hc) as Ea.
  destruct o as [o1 o2 o3], b as [[b1 b2 b3] [b4 b5 b6] [b7 b8 b9]].
  cbv [mlist vlist vx vy vz app map] in E9, Ea |- *.
  unfold normalize_transform. cbn [List.length Nat.eqb andb firstn skipn last_is_one last]. rs.
  destruct (Reqb m 1); cbn [negb]; [| reflexivity].
  rewrite E9. cbn [bind]. rewrite Ea. cbn [bind values rmap app]. reflexivity.
Qed.

(* TR card, 12 entries (and 13 with m = 1): the card's own numbers *)
Theorem tr_card_12 : forall (o : R3) (b : M3 R),
  rows_orthonormal b -> clip_ok_m b ->
  tr_card RS false (map Some (vlist o ++ mlist b)) = Ok (vlist o ++ mlist b) /\
  tr_card RS false (map Some (vlist o ++ mlist b ++ [1])) = Ok (vlist o ++ mlist b).
Proof.
  intros o b Hb Hc. split.
  - unfold tr_card. replace (mip_normalize RS false (map Some (vlist o ++ mlist b))) with (map Some (vlist o ++ mlist b)).
    + apply normalize_transform_12; assumption.
    + destruct o as [o1 o2 o3], b as [[b1 b2 b3] [b4 b5 b6] [b7 b8 b9]]. reflexivity.
  - unfold tr_card. replace (mip_normalize RS false (map Some (vlist o ++ mlist b ++ [1]))) with (map Some (vlist o ++ mlist b ++ [1])).
    + rewrite normalize_transform_13 by assumption. destruct (Reqb 1 1) eqn:E; [reflexivity | apply Reqb_false in E; lra].
    + destruct o as [o1 o2 o3], b as [[b1 b2 b3] [b4 b5 b6] [b7 b8 b9]]. reflexivity.
Qed.

(* 3 entries (TR or *TR): a translation *)
Theorem tr_card_3 : forall (star : bool) (o : R3),
  tr_card RS star (map Some (vlist o)) = Ok (vlist o ++ mlist (idm RS)).
Proof.
  intros star o.
  assert (Hb : rows_orthonormal (idm RS)) by (apply normalize_matrix_0).
  assert (Hc : clip_ok_m (idm RS)).
  { assert (K0 : clip_ok 0) by (left; reflexivity).
    assert (K1 : clip_ok 1) by (right; rewrite Rabs_R1; lra).
    unfold clip_ok_m, clip_ok3, idm, ex, ey, ez; rs. tauto. }
  unfold tr_card.
  replace (mip_normalize RS star (map Some (vlist o))) with (map Some (vlist o ++ mlist (idm RS))).
  - apply normalize_transform_12; assumption.
  - destruct o as [o1 o2 o3]. destruct star; reflexivity.
Qed.

(* *TR: the nine matrix entries are angles in degrees; the displacement (and m) are not *)
Theorem tr_card_star_12 : forall (o : R3) (ang : M3 R),
  let b := vmap (vmap (fun a => cos (a * PI / 180))) ang in
  rows_orthonormal b -> clip_ok_m b ->
  tr_card RS true (map Some (vlist o ++ mlist ang)) = Ok (vlist o ++ mlist b) /\
  tr_card RS true (map Some (vlist o ++ mlist ang ++ [1])) = Ok (vlist o ++ mlist b).
Proof.
  intros o ang b Hb Hc. split.
  - unfold tr_card.
    replace (mip_normalize RS true (map Some (vlist o ++ mlist ang))) with (map Some (vlist o ++ mlist b)).
    + apply normalize_transform_12; assumption.
    + destruct o as [o1 o2 o3], ang as [[a1 a2 a3] [a4 a5 a6] [a7 a8 a9]]. unfold b. cbv [vmap mlist vlist vx vy vz app map mip_normalize].
      cbn [List.length Nat.eqb firstn skipn map option_map app]. rewrite <- !to_cos_deg. reflexivity.
  - unfold tr_card.
    replace (mip_normalize RS true (map Some (vlist o ++ mlist ang ++ [1]))) with (map Some (vlist o ++ mlist b ++ [1])).
    + rewrite normalize_transform_13 by assumption. destruct (Reqb 1 1) eqn:E; [reflexivity | apply Reqb_false in E; lra].
    + destruct o as [o1 o2 o3], ang as [[a1 a2 a3] [a4 a5 a6] [a7 a8 a9]]. unfold b. cbv [vmap mlist vlist vx vy vz app map mip_normalize].
      cbn [List.length Nat.eqb firstn skipn map option_map app]. rewrite <- !to_cos_deg. reflexivity.
Qed.

(* ---------- m = 1 only ---------- *)

Lemma len12 {A} (l : list A) : List.length l = 12%nat ->
  exists a b c d e f g h i j k n, l = [a; b; c; d; e; f; g; h; i; j; k; n].
Proof.
  intros H. do 12 (destruct l as [|? l]; [discriminate|]). destruct l; [|discriminate].
  repeat eexists.
Qed.

(* a 13th entry different from 1 is rejected on a TR card, a *TR card, an inline
   TRCL / *TRCL and an inline FILL / *FILL transformation *)
Theorem m1_only : forall (star : bool) (l : list R) (m : R) trs trid,
  List.length l = 12%nat -> m <> 1 ->
  tr_card RS star (map Some (l ++ [m])) = Err ETransformation /\
  parse_trcl RS star (l ++ [m]) trs trid = Err ETransformation /\
  parse_fill_tr RS star (l ++ [m]) trs trid = Err ETransformation.
Proof.
  intros star l m trs trid Hl Hm.
  destruct (len12 l Hl) as (a & b & c & d & e & f & g & h & i & j & k & n & ->).
  assert (Em : Reqb m 1 = false) by (apply Reqb_false; exact Hm).
  unfold tr_card, parse_trcl, parse_fill_tr, parse_kw_tr, mip_normalize, normalize_transform.
  destruct star; cbn [app map List.length Nat.eqb firstn skipn option_map andb last_is_one last]; rs;
    rewrite Em; cbn [negb]; auto.
Qed.

(* and with m = 1 the inline forms give the card's own numbers (orthonormal B) *)
Theorem inline_12 : forall (o : R3) (b : M3 R) trs trid,
  rows_orthonormal b -> clip_ok_m b ->
  parse_trcl RS false (vlist o ++ mlist b) trs trid = Ok (vlist o ++ mlist b) /\
  parse_trcl RS false (vlist o ++ mlist b ++ [1]) trs trid = Ok (vlist o ++ mlist b) /\
  parse_fill_tr RS false (vlist o ++ mlist b) trs trid = Ok (vlist o ++ mlist b).
Proof.
  intros o b trs trid Hb Hc.
  pose proof (normalize_transform_12 o b Hb Hc) as E12.
  pose proof (normalize_transform_13 o b 1 Hb Hc) as E13.
  assert (E1 : Reqb 1 1 = true) by (apply Reqb_true; reflexivity). rewrite E1 in E13.
  destruct o as [o1 o2 o3], b as [[b1 b2 b3] [b4 b5 b6] [b7 b8 b9]].
  unfold parse_trcl, parse_fill_tr, parse_kw_tr.
  cbv [mlist vlist vx vy vz app map] in E12, E13 |- *. cbn [List.length].
  repeat split; assumption.
Qed.

(* TRCL=n / FILL=u (n): the TR card of that number *)
Theorem inline_number : forall star (n : R) trs trid tr,
  lookup trid trs = Ok tr -> List.length tr = 12%nat ->
  parse_trcl RS star [n] trs trid = Ok tr.
Proof.
  intros star n trs trid tr Hl Hn. unfold parse_trcl, parse_kw_tr. cbn [List.length]. rewrite Hl. cbn [rmap].
  f_equal. destruct (len12 tr Hn) as (a & b & c & d & e & f & g & h & i & j & k & m & ->). reflexivity.
Qed.

(* ---------- implicit surfaces 1000*cell + surface ---------- *)
Lemma lookup_app {A} k (l1 l2 : list (Z * A)) :
  lookup k (l1 ++ l2) = match lookup k l1 with Ok v => Ok v | Err _ => lookup k l2 end.
Proof.
  induction l1 as [|[k' v] l1 IH]; [reflexivity|]. cbn [app lookup]. destruct (Z.eqb k k'); [reflexivity | exact IH].
Qed.

Lemma lookup_undefined {A} k (l : list (Z * A)) : zmem k (map fst l) = false -> lookup k l = Err EKey.
Proof.
  induction l as [|[k' v] l IH]; [reflexivity|]. unfold zmem in *. cbn [map fst existsb lookup].
  intros H. apply orb_false_iff in H. destruct H as [H1 H2]. rewrite H1. apply IH, H2.
Qed.

Lemma lookup_map_res {A} (f : Z -> res A) ids l k :
  map_res (fun id => rmap (pair id) (f id)) ids = Ok l -> In k ids ->
  exists v, f k = Ok v /\ lookup k l = Ok v.
Proof.
  revert l. induction ids as [|id ids IH]; intros l Hm Hin; [destruct Hin|].
  cbn [map_res] in Hm. destruct (f id) as [v|e] eqn:Ef; cbn [rmap bind] in Hm; [|discriminate].
  destruct (map_res (fun id0 => rmap (pair id0) (f id0)) ids) as [l'|e] eqn:El; cbn [bind] in Hm; [|discriminate].
  injection Hm as <-. cbn [lookup].
  destruct (Z.eqb k id) eqn:Ek.
  - apply Z.eqb_eq in Ek. subst. exists v. split; [exact Ef | reflexivity].
  - destruct Hin as [Hin | Hin]; [subst; rewrite Z.eqb_refl in Ek; discriminate|].
    apply (IH l' eq_refl Hin).
Qed.

Lemma implicit_ids_in refs defined r :
  In r refs -> (1000 <= Z.abs r)%Z -> zmem (Z.abs r) defined = false ->
  In (Z.abs r) (implicit_ids refs defined).
Proof.
  intros Hin Hbig Hdef. unfold implicit_ids. apply nodup_In. apply filter_In. split.
  - apply filter_In. split; [apply in_map; exact Hin | apply Z.leb_le; exact Hbig].
  - rewrite Hdef. reflexivity.
Qed.

(* a reference +-(1000 c + s) that is not an explicit surface resolves, in the
   surface dictionary built by construct_volume_t4, to the surface the
   implicit-surface loop generates; whatever the sign of the reference *)
Theorem implicit_surface_resolved : forall (refs : list Z) cells surfs table (r : Z),
  In r refs -> (1000 <= Z.abs r)%Z -> zmem (Z.abs r) (map fst surfs) = false ->
  surface_table RS refs cells surfs = Ok table ->
  exists v, implicit_surface RS cells surfs (Z.abs r) = Ok v /\ resolve_ref r table = Ok v.
Proof.
  intros refs cells surfs table r Hin Hbig Hdef Ht.
  unfold surface_table in Ht.
  destruct (map_res _ (implicit_ids refs (map fst surfs))) as [l|e] eqn:El; cbn [rmap] in Ht; [|discriminate].
  injection Ht as <-.
  destruct (lookup_map_res (implicit_surface RS cells surfs) _ l (Z.abs r) El
              (implicit_ids_in refs _ r Hin Hbig Hdef)) as (v & Hv & Hl).
  exists v. split; [exact Hv|]. unfold resolve_ref. rewrite lookup_app, (lookup_undefined _ _ Hdef). exact Hl.
Qed.

(* ... and that surface is surface s of the deck, every part moved by the TRCL of cell c *)
Theorem implicit_surface_value : forall cells surfs (id : Z) tr ss,
  lookup (id / 1000)%Z cells = Ok [tr] -> lookup (id mod 1000)%Z surfs = Ok ss ->
  implicit_surface RS cells surfs id
  = map_res (fun sd => rmap (fun s' => (s', snd sd)) (transformation RS tr (fst sd))) ss.
Proof. intros cells surfs id tr ss Hc Hs. unfold implicit_surface. rewrite Hc, Hs. reflexivity. Qed.

(* an explicitly defined number >= 1000 is NOT re-generated *)
Theorem explicit_surface_kept : forall refs cells surfs table (r : Z) v,
  surface_table RS refs cells surfs = Ok table -> lookup (Z.abs r) surfs = Ok v ->
  resolve_ref r table = Ok v.
Proof.
  intros refs cells surfs table r v Ht Hl. unfold surface_table in Ht.
  destruct (map_res _ _) as [l|e]; cbn [rmap] in Ht; [|discriminate]. injection Ht as <-.
  unfold resolve_ref. rewrite lookup_app, Hl. reflexivity.
Qed.

