(* C04 — transformation_quad is the congruence M^T A M of the quadric with the
   affine map p -> B (p - O) (pure algebra, no hypothesis on B). *)
From Coq Require Import List ZArith Bool Reals Lra Field.
From T4V Require Import Base.Scalar C04.Vec C04.Model C04.Spec.
Import ListNotations.
Open Scope R_scope.

Ltac rs := cbn [sadd ssub smul sdiv sneg sabs ssqrt s0 s1 sofZ spi scos ssin satan RS
                vx vy vz nth] in *.

Lemma quad_congruence_explicit :
  forall a b c d e f g h j k o1 o2 o3 b1 b2 b3 b4 b5 b6 b7 b8 b9 (p : R3),
  let q := [a; b; c; d; e; f; g; h; j; k] in
  let o := mkV o1 o2 o3 in
  let bm := mkV (mkV b1 b2 b3) (mkV b4 b5 b6) (mkV b7 b8 b9) in
  gq_fn (transformation_quad RS q (vlist o ++ mlist bm)) p = gq_fn q (to_aux o bm p).
Proof.
  intros. destruct p as [x y z].
  unfold gq_fn, transformation_quad, to_aux, q, o, bm, dot, vminus, vlist, mlist.
  cbn -[Rmult Rplus Rminus Rdiv Ropp IZR]. 
  field.
Qed.
