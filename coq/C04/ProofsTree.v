(* C04 — a whole TRCL cell: pot_transform / apply_trcl walk the cell expression,
   give every surface leaf a new surface (all parts moved by transformation())
   and keep operators, signs and complement nodes; the region of the new
   expression at the moved point is the region of the old one at the original
   point.  MCNP level (sense functions of the moved frame-form surfaces) and
   TRIPOLI-4 level (the converted collections). *)
From Coq Require Import List ZArith Bool Reals Lra Lia Field.
From T4V Require Import Base.Scalar C04.Vec C04.Model C04.Spec C04.ProofsFrame C04.ProofsQuad C04.ProofsConvert
  C04.ProofsSurf C04.ProofsCompose.
Import ListNotations.
Open Scope R_scope.

(* ---------- regions of dictionary entries and of expressions ---------- *)
Definition part_neg (sd : msurf R * Z) (p : R3) : Prop :=
  if (0 <? snd sd)%Z then mneg (fst sd) p else mpos (fst sd) p.
Definition part_pos (sd : msurf R * Z) (p : R3) : Prop :=
  if (0 <? snd sd)%Z then mpos (fst sd) p else mneg (fst sd) p.
(* -n: inside every part; +n: outside some part (macrobody facets, one-sheet cones) *)
Definition entry_neg (e : list (msurf R * Z)) (p : R3) : Prop := Forall (fun sd => part_neg sd p) e.
Definition entry_pos (e : list (msurf R * Z)) (p : R3) : Prop := Exists (fun sd => part_pos sd p) e.

Notation table := (list (Z * list (msurf R * Z))).

(* [cellsem n p]: point p is in cell n (for the complement nodes, which the walk leaves alone) *)
Fixpoint region (cellsem : Z -> R3 -> Prop) (tb : table) (t : gtree) (p : R3) : Prop :=
  match t with
  | GSurf n => match lookup (Z.abs n) tb with
               | Ok e => if (0 <=? n)%Z then entry_pos e p else entry_neg e p
               | Err _ => False
               end
  | GCell n => cellsem n p
  | GCompl n => ~ cellsem n p
  | GOp GInter args => fold_right and True (map (fun a => region cellsem tb a p) args)
  | GOp GUnion args => fold_right or False (map (fun a => region cellsem tb a p) args)
  end.

(* no cell reference / complement below (a cell whose TRCL moves surfaces only),
   every surface number within the dictionary's range *)
Fixpoint surf_only (k : Z) (t : gtree) : bool :=
  match t with
  | GSurf n => (Z.abs n <=? k)%Z
  | GCell _ | GCompl _ => false
  | GOp _ args => forallb (surf_only k) args
  end.

(* ---------- one part ---------- *)
Definition part_wf (s : msurf R) : Prop :=
  frame_kind (mk s) = true \/ ((mk s = KGQ \/ mk s = KSQ) /\ List.length (mcp s) = 10%nat).

Lemma sheet_of_nonKK s : mk s <> KK -> sheet_of s = 0%Z.
Proof. unfold sheet_of. destruct (mk s); try reflexivity. congruence. Qed.

Lemma transformation_law (o : R3) (b : M3 R) (s : msurf R) :
  rows_orthonormal b -> part_wf s ->
  exists s', transformation RS (tr12 o b) s = Ok s' /\ part_wf s' /\
    forall p', (mneg s' (to_main o b p') <-> mneg s p') /\ (mpos s' (to_main o b p') <-> mpos s p').
Proof.
  intros Hb Hwf. destruct s as [k pt u cp nap]. unfold part_wf in Hwf; cbn [mk mcp] in Hwf.
  destruct Hwf as [Hk | [Hk Hl]].
  - exists (mkMS k (to_main o b pt) (tvec b u) cp nap).
    split; [apply transformation_frame, Hk|]. split; [left; exact Hk|].
    intros p'. unfold mneg, mpos. rewrite msense_moved by assumption. cbn [mpt maxis].
    rewrite axial_moved by assumption. unfold sheet_of; cbn [mk mnap]. tauto.
  - destruct Hk as [-> | ->].
    + exists (mkMS KGQ pt u (transformation_quad RS cp (tr12 o b)) nap). split; [| split].
      * unfold transformation, tr12. cbn [mk mcp mpt maxis mnap].
        destruct o as [o1 o2 o3], b as [[b1 b2 b3] [b4 b5 b6] [b7 b8 b9]]. rewrite Hl. reflexivity.
      * right. split; [left; reflexivity | reflexivity].
      * intros p'. unfold mneg, mpos, msense, sheet_of; cbn [mk mcp mnap].
        unfold tr12. rewrite quad_congruence_main by assumption. tauto.
    + exists (mkMS KGQ pt u (transformation_quad RS (sq_to_gq RS cp) (tr12 o b)) nap).
      destruct (sq_to_gq_fn cp (mkV 0 0 0) Hl) as [Hl' _]. split; [| split].
      * unfold transformation, tr12. cbn [mk mcp mpt maxis mnap].
        destruct o as [o1 o2 o3], b as [[b1 b2 b3] [b4 b5 b6] [b7 b8 b9]]. rewrite Hl. reflexivity.
      * right. split; [left; reflexivity | reflexivity].
      * intros p'. unfold mneg, mpos, msense, sheet_of; cbn [mk mcp mnap].
        unfold tr12. rewrite quad_congruence_main by assumption.
        destruct (sq_to_gq_fn cp p' Hl) as [_ ->]. tauto.
Qed.

(* ---------- one dictionary entry ---------- *)
Lemma tr_all_law (o : R3) (b : M3 R) (e : list (msurf R * Z)) :
  rows_orthonormal b -> Forall (fun sd => part_wf (fst sd)) e ->
  exists e', tr_all RS (tr12 o b) e = Ok e' /\ Forall (fun sd => part_wf (fst sd)) e' /\
    forall p', (entry_neg e' (to_main o b p') <-> entry_neg e p') /\
               (entry_pos e' (to_main o b p') <-> entry_pos e p').
Proof.
  intros Hb. induction e as [|[s side] e IH]; intros Hwf.
  - exists []. split; [reflexivity|]. split; [constructor|]. intros p'. unfold entry_neg, entry_pos.
    split; split; intros H; try constructor; inversion H.
  - inversion Hwf as [|? ? Hs He]; subst. cbn [fst] in Hs.
    destruct (transformation_law o b s Hb Hs) as (s' & Es & Hs' & Law).
    destruct (IH He) as (e' & Ee & He' & LawE).
    exists ((s', side) :: e'). unfold tr_all in *. cbn [map_res fst snd]. rewrite Es. cbn [rmap bind].
    rewrite Ee. cbn [bind]. split; [reflexivity|]. split; [constructor; assumption|].
    intros p'. destruct (Law p') as [Ln Lp]. destruct (LawE p') as [En Ep].
    unfold entry_neg, entry_pos in *. rewrite !Forall_cons_iff, !Exists_cons.
    unfold part_neg, part_pos; cbn [fst snd]. destruct (0 <? side)%Z; tauto.
Qed.

(* ---------- the walk ---------- *)
Section GtreeInd.
  Variable P : gtree -> Prop.
  Hypothesis HS : forall n, P (GSurf n).
  Hypothesis HC : forall n, P (GCell n).
  Hypothesis HN : forall n, P (GCompl n).
  Hypothesis HO : forall op args, Forall P args -> P (GOp op args).
  Fixpoint gtree_ind2 (t : gtree) : P t :=
    match t with
    | GSurf n => HS n
    | GCell n => HC n
    | GCompl n => HN n
    | GOp op args =>
        HO op args ((fix go (l : list gtree) : Forall P l :=
                       match l with [] => Forall_nil P | a :: r => Forall_cons a (gtree_ind2 a) (go r) end) args)
    end.
End GtreeInd.

Definition table_wf (tb : table) : Prop := Forall (fun kv => Forall (fun sd => part_wf (fst sd)) (snd kv)) tb.
Definition keys_le (k : Z) (tb : table) : Prop := Forall (fun kv => (fst kv <= k)%Z) tb.
(* tb2 agrees with tb on every key up to k *)
Definition agree_upto (k : Z) (tb tb2 : table) : Prop := forall j, (j <= k)%Z -> lookup j tb2 = lookup j tb.

Lemma lookup_wf (tb : table) k e : table_wf tb -> lookup k tb = Ok e -> Forall (fun sd => part_wf (fst sd)) e.
Proof.
  induction tb as [|[k' e'] tb IH]; intros Hw Hl; [discriminate|].
  inversion Hw; subst. cbn [lookup] in Hl. destruct (Z.eqb k k'); [injection Hl as <-; assumption | auto].
Qed.

Lemma lookup_fresh (tb : table) k j e : keys_le k tb -> (k < j)%Z -> forall i, (i <= k)%Z ->
  lookup i ((j, e) :: tb) = lookup i tb.
Proof. intros _ Hj i Hi. cbn [lookup]. destruct (Z.eqb i j) eqn:E; [apply Z.eqb_eq in E; lia | reflexivity]. Qed.

(* the walk over an argument list, as a standalone function *)
Fixpoint walk (tr : list R) (l : list gtree) (st : pstate) : res (list gtree * pstate) :=
  match l with
  | [] => Ok ([], st)
  | a :: r => bind (pot_transform RS tr a st) (fun ast =>
              bind (walk tr r (snd ast)) (fun rst => Ok (fst ast :: fst rst, snd rst)))
  end.

Lemma pot_transform_op tr op args st : tr <> [] ->
  pot_transform RS tr (GOp op args) st = bind (walk tr args st) (fun r => Ok (GOp op (fst r), snd r)).
Proof.
  intros Hne. destruct tr as [|x tr]; [congruence|]. cbn [pot_transform]. f_equal.
  revert st. induction args as [|a r IH]; intros st; [reflexivity|].
  cbn [walk]. destruct (pot_transform RS (x :: tr) a st) as [[a' st1]|e]; [|reflexivity].
  cbn [bind fst snd]. rewrite IH. reflexivity.
Qed.

Lemma pot_transform_leaf tr n st : tr <> [] -> pot_transform RS tr (GSurf n) st = pot_leaf RS tr n st.
Proof. intros Hne. destruct tr; [congruence | reflexivity]. Qed.

(* regions only look at the keys the expression mentions *)
Lemma region_agree cellsem k tb tb2 t p :
  agree_upto k tb tb2 -> surf_only k t = true -> (region cellsem tb2 t p <-> region cellsem tb t p).
Proof.
  intros Hag. induction t as [n | n | n | op args IH] using gtree_ind2; intros Hs; try discriminate.
  - cbn [surf_only] in Hs. apply Z.leb_le in Hs. cbn [region]. rewrite (Hag _ Hs). tauto.
  - cbn [surf_only] in Hs.
    assert (E : forall a, In a args -> (region cellsem tb2 a p <-> region cellsem tb a p)).
    { intros a Ha. rewrite Forall_forall in IH. apply IH; [exact Ha|].
      rewrite forallb_forall in Hs. apply Hs, Ha. }
    clear IH Hs. destruct op; cbn [region]; induction args as [|a r IHr]; cbn [map fold_right]; try tauto.
    + rewrite (E a (or_introl eq_refl)), IHr; [tauto | intros; apply E; right; assumption].
    + rewrite (E a (or_introl eq_refl)), IHr; [tauto | intros; apply E; right; assumption].
Qed.

Section Walk.
  Variables (o : R3) (b : M3 R) (cellsem : Z -> R3 -> Prop).
  Hypothesis Hb : rows_orthonormal b.
  Definition trw : list R := tr12 o b.

  Lemma tr_nonempty : trw <> [].
  Proof. unfold trw, tr12. destruct o. discriminate. Qed.

  (* what one call guarantees *)
  Definition walk_ok (t t' : gtree) (st st' : pstate) : Prop :=
    (fst st <= fst st')%Z /\ table_wf (snd st') /\ keys_le (fst st') (snd st') /\
    agree_upto (fst st) (snd st) (snd st') /\
    forall tb2, agree_upto (fst st') (snd st') tb2 ->
      forall p', region cellsem tb2 t' (to_main o b p') <-> region cellsem (snd st) t p'.

  Lemma pot_leaf_ok n st t' st' :
    (0 <= fst st)%Z -> table_wf (snd st) -> keys_le (fst st) (snd st) ->
    pot_leaf RS trw n st = Ok (t', st') -> walk_ok (GSurf n) t' st st'.
  Proof.
    intros H0 Hw Hk H. unfold pot_leaf in H.
    destruct (lookup (Z.abs n) (snd st)) as [e|err] eqn:El; cbn [bind] in H; [|discriminate].
    destruct (tr_all_law o b e Hb (lookup_wf _ _ _ Hw El)) as (e' & Ee & He' & Law).
    change (tr12 o b) with trw in Ee. rewrite Ee in H. cbn [bind] in H.
    set (k := (fst st + 1)%Z) in *.
    assert (Et : t' = GSurf (if (0 <=? n)%Z then k else (- k)%Z)) by congruence.
    assert (Es : st' = (k, (k, e') :: snd st)) by congruence. subst t' st'. clear H.
    unfold walk_ok; cbn [fst snd]. split; [lia|]. split; [constructor; assumption|]. split.
    { constructor; [cbn [fst]; lia|]. eapply Forall_impl; [| exact Hk]. cbn. intros; lia. }
    split. { intros j Hj. apply (lookup_fresh _ (fst st)); try assumption; lia. }
    intros tb2 Hag p'. destruct (Law p') as [Ln Lp].
    assert (Ek : lookup k tb2 = Ok e').
    { rewrite (Hag k) by lia. cbn [lookup]. rewrite Z.eqb_refl. reflexivity. }
    cbn [region]. rewrite El.
    destruct (0 <=? n)%Z eqn:En.
    - replace (Z.abs k) with k by lia. rewrite Ek.
      assert (E1 : (0 <=? k)%Z = true) by (apply Z.leb_le; lia). rewrite E1. exact Lp.
    - replace (Z.abs (- k)) with k by lia. rewrite Ek.
      assert (E1 : (0 <=? - k)%Z = false) by (apply Z.leb_gt; lia). rewrite E1. exact Ln.
  Qed.

  Lemma agree_trans k1 k2 tb1 tb2 tb3 : (k1 <= k2)%Z ->
    agree_upto k1 tb1 tb2 -> agree_upto k2 tb2 tb3 -> agree_upto k1 tb1 tb3.
  Proof. intros Hk H1 H2 j Hj. rewrite H2 by lia. apply H1, Hj. Qed.

  Definition node_ok (t : gtree) : Prop := forall st t' st',
    surf_only (fst st) t = true -> (0 <= fst st)%Z -> table_wf (snd st) -> keys_le (fst st) (snd st) ->
    pot_transform RS trw t st = Ok (t', st') -> walk_ok t t' st st'.

  Lemma surf_only_mono k k' t : (k <= k')%Z -> surf_only k t = true -> surf_only k' t = true.
  Proof.
    intros Hk. induction t as [n | n | n | op args IH] using gtree_ind2; intros H; try discriminate.
    - cbn [surf_only] in *. apply Z.leb_le in H. apply Z.leb_le. lia.
    - cbn [surf_only] in *. rewrite forallb_forall in *. rewrite Forall_forall in IH. intros a Ha. apply IH; auto.
  Qed.

  (* the list walk: intersection and union of the arguments at once *)
  Lemma walk_list_ok : forall l, Forall node_ok l ->
    forall st l' st1, forallb (surf_only (fst st)) l = true ->
      (0 <= fst st)%Z -> table_wf (snd st) -> keys_le (fst st) (snd st) ->
      walk trw l st = Ok (l', st1) ->
      (fst st <= fst st1)%Z /\ table_wf (snd st1) /\ keys_le (fst st1) (snd st1) /\
      agree_upto (fst st) (snd st) (snd st1) /\
      forall tb2, agree_upto (fst st1) (snd st1) tb2 -> forall p',
        (fold_right and True (map (fun a => region cellsem tb2 a (to_main o b p')) l')
         <-> fold_right and True (map (fun a => region cellsem (snd st) a p') l)) /\
        (fold_right or False (map (fun a => region cellsem tb2 a (to_main o b p')) l')
         <-> fold_right or False (map (fun a => region cellsem (snd st) a p') l)).
  Proof.
    induction l as [|a r IHr]; intros HF st0 l' st2 Hall H00 Hw0 Hk0 Hwalk.
    - cbn [walk] in Hwalk. assert (l' = []) by congruence. assert (st2 = st0) by congruence. subst.
      split; [lia|]. split; [assumption|]. split; [assumption|]. split; [intros j _; reflexivity|].
      intros tb2 _ p'. cbn [map fold_right]. tauto.
    - inversion HF as [|? ? Ha Hr]; subst. cbn [forallb] in Hall. apply andb_true_iff in Hall. destruct Hall as [Hsa Hsr].
      cbn [walk] in Hwalk.
      destruct (pot_transform RS trw a st0) as [[a' sta]|e] eqn:Ea; [|discriminate]. cbn [bind fst snd] in Hwalk.
      destruct (walk trw r sta) as [[r' str]|e] eqn:Er; [|discriminate]. cbn [bind fst snd] in Hwalk.
      assert (l' = a' :: r') by congruence. assert (st2 = str) by congruence. subst l' st2. clear Hwalk.
      destruct (Ha st0 a' sta Hsa H00 Hw0 Hk0 Ea) as (A1 & A2 & A3 & A4 & A5).
      assert (H0a : (0 <= fst sta)%Z) by lia.
      assert (Hsr' : forallb (surf_only (fst sta)) r = true).
      { rewrite forallb_forall in *. intros x Hx. apply (surf_only_mono (fst st0)); auto. }
      destruct (IHr Hr sta r' str Hsr' H0a A2 A3 Er) as (R1 & R2 & R3 & R4 & R5).
      split; [lia|]. split; [assumption|]. split; [assumption|].
      split; [eapply agree_trans; [| exact A4 | exact R4]; lia|].
      intros tb2 Hag p'.
      assert (Haa : agree_upto (fst sta) (snd sta) tb2) by (eapply agree_trans; [| exact R4 | exact Hag]; lia).
      pose proof (A5 tb2 Haa p') as Ea'.
      destruct (R5 tb2 Hag p') as [Rall Rany].
      (* the remaining arguments were evaluated against sta; bring them back to st0 *)
      assert (Back : forall x, In x r -> (region cellsem (snd sta) x p' <-> region cellsem (snd st0) x p')).
      { intros x Hx. apply (region_agree cellsem (fst st0)); [exact A4|].
        rewrite forallb_forall in Hsr. apply Hsr, Hx. }
      assert (BackAll : fold_right and True (map (fun x => region cellsem (snd sta) x p') r)
                        <-> fold_right and True (map (fun x => region cellsem (snd st0) x p') r)).
      { clear -Back. induction r as [|x r IH]; cbn [map fold_right]; [tauto|].
        rewrite (Back x (or_introl eq_refl)), IH; [tauto | intros; apply Back; right; assumption]. }
      assert (BackAny : fold_right or False (map (fun x => region cellsem (snd sta) x p') r)
                        <-> fold_right or False (map (fun x => region cellsem (snd st0) x p') r)).
      { clear -Back. induction r as [|x r IH]; cbn [map fold_right]; [tauto|].
        rewrite (Back x (or_introl eq_refl)), IH; [tauto | intros; apply Back; right; assumption]. }
      cbn [map fold_right]. rewrite Ea', Rall, Rany, BackAll, BackAny. tauto.
  Qed.

  Theorem pot_transform_ok : forall t, node_ok t.
  Proof.
    induction t as [n | n | n | op args IH] using gtree_ind2; intros st t' st' Hso H0 Hw Hk H; try discriminate.
    - rewrite pot_transform_leaf in H by apply tr_nonempty. apply pot_leaf_ok; assumption.
    - rewrite pot_transform_op in H by apply tr_nonempty.
      destruct (walk trw args st) as [[args' st1]|e] eqn:Ewk; [|discriminate]. cbn [bind fst snd] in H.
      assert (t' = GOp op args') by congruence. assert (st' = st1) by congruence. subst t' st'. clear H.
      cbn [surf_only] in Hso.
      destruct (walk_list_ok args IH st args' st1 Hso H0 Hw Hk Ewk) as (W1 & W2 & W3 & W4 & W5).
      unfold walk_ok. repeat (split; [assumption|]).
      intros tb2 Hag p'. destruct (W5 tb2 Hag p') as [Wall Wany].
      destruct op; cbn [region]; assumption.
  Qed.
End Walk.

(* ---------- a whole TRCL cell, MCNP level ---------- *)
Theorem trcl_cell : forall (o : R3) (b : M3 R) cellsem (t t' : gtree) (st st' : pstate),
  rows_orthonormal b -> surf_only (fst st) t = true -> (0 <= fst st)%Z ->
  table_wf (snd st) -> keys_le (fst st) (snd st) ->
  apply_trcl RS [tr12 o b] t st = Ok (t', st') ->
  (forall p', region cellsem (snd st') t' (to_main o b p') <-> region cellsem (snd st) t p') /\
  (forall j, (j <= fst st)%Z -> lookup j (snd st') = lookup j (snd st)) /\ table_wf (snd st').
Proof.
  intros o b cellsem t t' st st' Hb Hs H0 Hw Hk H. unfold apply_trcl in H. cbn [fold_left bind fst snd] in H.
  destruct (pot_transform_ok o b cellsem Hb t st t' st' Hs H0 Hw Hk H) as (W1 & W2 & W3 & W4 & W5).
  split; [| split; assumption].
  intros p'. apply W5. intros j _. reflexivity.
Qed.

(* a cell without TRCL is left alone *)
Theorem trcl_cell_none : forall (t : gtree) (st : pstate), apply_trcl RS [] t st = Ok (t, st).
Proof. reflexivity. Qed.

(* ---------- the interface law at TRIPOLI-4 level, one part ---------- *)
Definition conv_wf (s : msurf R) : Prop :=
  match mk s with
  | KP | KGQ => True
  | KS => exists r rest, mcp s = r :: rest
  | KC => norm2 (maxis s) = 1 /\ exists r rest, mcp s = r :: rest
  | KK => norm2 (maxis s) = 1 /\ (exists c0 a rest, mcp s = c0 :: a :: rest) /\
          (mnap s = None \/ mnap s = Some 0%Z \/ mnap s = Some 1%Z \/ mnap s = Some (-1)%Z)
  | KT | KSQ => False
  end.

Lemma single_law (s : msurf R) c P : same_sense (t4val c P) (msense s P) -> sheet_of s = 0%Z ->
  (mneg s P <-> coll_neg [(c, 1%Z)] P) /\ (mpos s P <-> coll_pos [(c, 1%Z)] P).
Proof.
  intros (k & Hk & E) Hz. unfold mneg, mpos, coll_neg, coll_pos. rewrite Hz.
  rewrite Forall_cons_iff, Forall_nil_iff, Exists_cons, Exists_nil. cbn [fst snd]. rewrite E.
  split; split.
  - intros [H _]. split; [nra | exact I].
  - intros [H _]. split; [nra | left; reflexivity].
  - intros [H | [H _]]; [left; nra | congruence].
  - intros [H | []]. left. nra.
Qed.

Theorem convert_law : forall (s : msurf R), conv_wf s ->
  exists coll, convert RS s = Ok coll /\
    forall P, (mneg s P <-> coll_neg coll P) /\ (mpos s P <-> coll_pos coll P).
Proof.
  intros [k pt u cp nap] Hwf. unfold conv_wf in Hwf; cbn [mk mcp maxis mnap] in Hwf.
  destruct k; try contradiction.
  - destruct (convert_plane_correct pt u cp nap (mkV 0 0 0)) as (c & Hc & _). exists [(c, 1%Z)]. split; [exact Hc|].
    intros P. destruct (convert_plane_correct pt u cp nap P) as (c' & Hc' & Hs). cbv zeta in *.
    rewrite Hc in Hc'. injection Hc' as <-. apply single_law; [exact Hs | reflexivity].
  - destruct Hwf as (r & rest & ->).
    destruct (convert_sphere_correct pt u r rest nap (mkV 0 0 0)) as (c & Hc & _). exists [(c, 1%Z)]. split; [exact Hc|].
    intros P. destruct (convert_sphere_correct pt u r rest nap P) as (c' & Hc' & Hs). cbv zeta in *.
    rewrite Hc in Hc'. injection Hc' as <-. apply single_law; [rewrite Hs; apply same_sense_refl | reflexivity].
  - destruct Hwf as (Hu & r & rest & ->).
    destruct (convert_cylinder_correct pt u r rest nap (mkV 0 0 0) Hu) as (c & Hc & _). exists [(c, 1%Z)]. split; [exact Hc|].
    intros P. destruct (convert_cylinder_correct pt u r rest nap P Hu) as (c' & Hc' & Hs). cbv zeta in *.
    rewrite Hc in Hc'. injection Hc' as <-. apply single_law; [rewrite Hs; apply same_sense_refl | reflexivity].
  - destruct Hwf as (Hu & (c0 & a & rest & ->) & Hn).
    destruct (convert_cone_correct pt u c0 a rest nap (mkV 0 0 0) Hu Hn) as (coll & Hc & _). exists coll. split; [exact Hc|].
    intros P. destruct (convert_cone_correct pt u c0 a rest nap P Hu Hn) as (coll' & Hc' & Hs). cbv zeta in *.
    rewrite Hc in Hc'. injection Hc' as <-. exact Hs.
  - exists [(plain QUAD cp, 1%Z)]. split; [reflexivity|]. intros P.
    apply single_law; [apply same_sense_refl | reflexivity].
Qed.
