(* C04 — tori: axis-aligned (TORUSX/Y/Z) and general axis (TORUSZ + TRANSFORM by the
   Rodrigues rotation of rotation_from_vectors). *)
From Coq Require Import List ZArith Bool Reals Lra Lia Field Nsatz.
From T4V Require Import Base.Scalar C04.Vec C04.Model C04.Spec C04.ProofsFrame C04.ProofsMatrix.
Import ListNotations.
Open Scope R_scope.

Ltac rs := cbn [sadd ssub smul sdiv sneg sabs ssqrt s0 s1 sofZ spi scos ssin satan RS
                sltb sleb seqb vx vy vz List.nth] in *.

(* Rodrigues matrix taking e_z to the unit vector a (a_z <> -1), explicitly *)
Definition rfz (a : R3) : M3 R :=
  let d := 1 + vz a in
  mkV (mkV (1 - vx a * vx a / d) (- (vx a * vy a) / d) (vx a))
      (mkV (- (vx a * vy a) / d) (1 - vy a * vy a / d) (vy a))
      (mkV (- vx a) (- vy a) (1 - (vx a * vx a + vy a * vy a) / d)).

Lemma rotation_from_z_explicit a : norm2 a = 1 -> 1 + vz a <> 0 -> rotation_from_z RS a = rfz a.
Proof.
  intros Hu Hd. unfold rotation_from_z.
  assert (Hez : norm2 (ez RS) = 1) . { unfold norm2, dot, ez. rs. lra. }
  rewrite (renorm_unit _ Hez), (renorm_unit _ Hu).
  destruct a as [ax ay az]. cbn [vz] in Hd.
  unfold rfz, mmul3, vect, scal, ez, transpose, vmap; rs.
  f_equal; f_equal; field; assumption.
Qed.

Lemma rfz_alg (ax ay az k v1 v2 v3 : R) :
  ax * ax + ay * ay + az * az = 1 -> k * (1 + az) = 1 ->
  ax * v1 + ay * v2 + (1 - (ax * ax + ay * ay) * k) * v3 = v1 * ax + v2 * ay + v3 * az /\
  ((1 - ax * ax * k) * v1 + (- (ax * ay) * k) * v2 + (- ax) * v3) * ((1 - ax * ax * k) * v1 + (- (ax * ay) * k) * v2 + (- ax) * v3)
  + ((- (ax * ay) * k) * v1 + (1 - ay * ay * k) * v2 + (- ay) * v3) * ((- (ax * ay) * k) * v1 + (1 - ay * ay * k) * v2 + (- ay) * v3)
  = v1 * v1 + v2 * v2 + v3 * v3 - (v1 * ax + v2 * ay + v3 * az) * (v1 * ax + v2 * ay + v3 * az).
Proof. intros Hu Hk. split; nsatz. Qed.

Lemma torus_form (z1 z2 X1 X2 A B C : R) :
  z1 * z1 = z2 * z2 -> X1 = X2 ->
  z1 * z1 / (B * B) + (sqrt X1 - A) * (sqrt X1 - A) / (C * C) - 1
  = z2 * z2 / (B * B) + (sqrt X2 - A) * (sqrt X2 - A) / (C * C) - 1.
Proof. intros H1 H2. rewrite H1, H2. reflexivity. Qed.

Lemma close1_refl x : close1 RS x x = true.
Proof.
  unfold close1, atol, rtol; rs. apply Rleb_true.
  replace (x - x) with 0 by ring. rewrite Rabs_R0.
  assert (0 <= Rabs x) by apply Rabs_pos. lra.
Qed.

Lemma close1_0_1 : close1 RS 0 1 = false.
Proof.
  unfold close1, atol, rtol; rs. apply Rleb_false.
  replace (0 - 1) with (-1) by ring. rewrite Rabs_R1.
  assert (Rabs (-1) = 1) by (unfold Rabs; destruct (Rcase_abs (-1)); lra). lra.
Qed.

Lemma Rabs_m1 : Rabs (-1) = 1.
Proof. unfold Rabs; destruct (Rcase_abs (-1)); lra. Qed.

(* general axis: TORUSZ + TRANSFORM by the Rodrigues rotation *)
Lemma convert_torus_general c a cp nap (P : R3) :
  norm2 a = 1 ->
  allclose3 RS (vmap (sabs RS) a) (ex RS) = false ->
  allclose3 RS (vmap (sabs RS) a) (ey RS) = false ->
  allclose3 RS (vmap (sabs RS) a) (ez RS) = false ->
  let s := mkMS KT c a cp nap in
  exists t, convert RS s = Ok ((t, 1%Z) :: nil) /\ t4val t P = msense s P.
Proof.
  intros Hu Hx Hy Hz s.
  assert (Hd : 1 + vz a <> 0).
  { intros Hd. destruct a as [ax ay az]. cbn [vz] in Hd. unfold norm2, dot in Hu; rs.
    assert (Ez : az = -1) by lra. subst az.
    assert (Ex : ax = 0) by nra. assert (Ey : ay = 0) by nra. subst.
    unfold allclose3, vmap, ez in Hz; rs. rewrite Rabs_R0, Rabs_m1, !close1_refl in Hz. discriminate. }
  unfold s, convert, convert_torus. cbn [mk mpt maxis mcp rmap]. rewrite Hx, Hy, Hz.
  eexists. split; [reflexivity|].
  rewrite (rotation_from_z_explicit a Hu Hd).
  destruct a as [ax ay az], c as [c1 c2 c3], P as [p1 p2 p3]. cbn [vz] in Hd.
  unfold norm2, dot in Hu; rs.
  unfold t4val. cbn [ttr tk tprm].
  unfold msense. cbn [mk mpt maxis mcp].
  unfold t4base, rfz, mapply, transpose, scal, v0, perp2, axial, norm2, dot, vminus, vlist; rs.
  cbn [app List.nth vx vy vz].
  set (k := / (1 + az)). assert (Hk : k * (1 + az) = 1) by (unfold k; field; assumption).
  unfold Rdiv at 1 2 3 4 5 6 7 8 9 10 11 12 13 14 15 16. fold k.
  destruct (rfz_alg ax ay az k (p1 - c1) (p2 - c2) (p3 - c3) Hu Hk) as [E1 E2].
  apply torus_form.
  - f_equal; rewrite <- E1; unfold Rdiv; fold k; ring.
  - etransitivity; [| etransitivity; [exact E2 |]]; [unfold Rdiv; fold k; ring | ring].
Qed.

(* axis exactly +- a coordinate axis: TORUSX / TORUSY / TORUSZ at the centre *)
Lemma convert_torus_aligned c a cp nap (P : R3) (sg : R) :
  (sg = 1 \/ sg = -1) ->
  (a = mkV sg 0 0 \/ a = mkV 0 sg 0 \/ a = mkV 0 0 sg) ->
  let s := mkMS KT c a cp nap in
  exists t, convert RS s = Ok ((t, 1%Z) :: nil) /\ t4val t P = msense s P.
Proof.
  intros Hsg Ha s.
  assert (Habs : Rabs sg = 1) by (destruct Hsg; subst; [apply Rabs_R1 | apply Rabs_m1]).
  assert (Hsq : sg * sg = 1) by (destruct Hsg; subst; ring).
  destruct c as [c1 c2 c3], P as [p1 p2 p3].
  unfold s, convert, convert_torus. cbn [mk mpt maxis mcp rmap].
  destruct Ha as [Ha | [Ha | Ha]]; subst a; unfold allclose3, vmap, ex, ey, ez; rs;
    rewrite ?Habs, ?Rabs_R0, ?close1_refl, ?close1_0_1; cbn [andb];
    (eexists; split; [reflexivity|]);
    unfold t4val, plain; cbn [ttr tk tprm]; unfold msense; cbn [mk mpt maxis mcp];
    unfold t4base, perp2, axial, norm2, dot, vminus, vlist; rs; cbn [app List.nth vx vy vz];
    apply torus_form.
  - replace ((p1 - c1) * sg + (p2 - c2) * 0 + (p3 - c3) * 0) with ((p1 - c1) * sg) by ring.
    replace ((p1 - c1) * sg * ((p1 - c1) * sg)) with ((p1 - c1) * (p1 - c1) * (sg * sg)) by ring. rewrite Hsq. ring.
  - replace ((p1 - c1) * sg + (p2 - c2) * 0 + (p3 - c3) * 0) with ((p1 - c1) * sg) by ring.
    replace ((p1 - c1) * sg * ((p1 - c1) * sg)) with ((p1 - c1) * (p1 - c1) * (sg * sg)) by ring. rewrite Hsq. ring.
  - replace ((p1 - c1) * 0 + (p2 - c2) * sg + (p3 - c3) * 0) with ((p2 - c2) * sg) by ring.
    replace ((p2 - c2) * sg * ((p2 - c2) * sg)) with ((p2 - c2) * (p2 - c2) * (sg * sg)) by ring. rewrite Hsq. ring.
  - replace ((p1 - c1) * 0 + (p2 - c2) * sg + (p3 - c3) * 0) with ((p2 - c2) * sg) by ring.
    replace ((p2 - c2) * sg * ((p2 - c2) * sg)) with ((p2 - c2) * (p2 - c2) * (sg * sg)) by ring. rewrite Hsq. ring.
  - replace ((p1 - c1) * 0 + (p2 - c2) * 0 + (p3 - c3) * sg) with ((p3 - c3) * sg) by ring.
    replace ((p3 - c3) * sg * ((p3 - c3) * sg)) with ((p3 - c3) * (p3 - c3) * (sg * sg)) by ring. rewrite Hsq. ring.
  - replace ((p1 - c1) * 0 + (p2 - c2) * 0 + (p3 - c3) * sg) with ((p3 - c3) * sg) by ring.
    replace ((p3 - c3) * sg * ((p3 - c3) * sg)) with ((p3 - c3) * (p3 - c3) * (sg * sg)) by ring. rewrite Hsq. ring.
Qed.

(* the moved axis is exactly +- a coordinate axis, or not within numpy.allclose
   of one (in between the code snaps the torus onto the coordinate axis) *)
Definition torus_axis_ok (a : R3) : Prop :=
  (exists sg, (sg = 1 \/ sg = -1) /\ (a = mkV sg 0 0 \/ a = mkV 0 sg 0 \/ a = mkV 0 0 sg)) \/
  (allclose3 RS (vmap (sabs RS) a) (ex RS) = false /\
   allclose3 RS (vmap (sabs RS) a) (ey RS) = false /\
   allclose3 RS (vmap (sabs RS) a) (ez RS) = false).

Theorem frame_transform_torus : forall (o : R3) (b : M3 R) c u cp nap (p' : R3),
  rows_orthonormal b -> norm2 u = 1 -> torus_axis_ok (tvec b u) ->
  let s := mkMS KT c u cp nap in
  exists t, tr_convert RS (vlist o ++ mlist b) s = Ok ((t, 1%Z) :: nil) /\
            t4val t (to_main o b p') = msense s p'.
Proof.
  intros o b c u cp nap p' Hb Hu Hax s. unfold s, tr_convert.
  rewrite transformation_frame by reflexivity. cbn [bind].
  assert (Hu' : norm2 (tvec b u) = 1) by (rewrite norm2_tvec; assumption).
  destruct Hax as [(sg & Hsg & Ha) | (Hx & Hy & Hz)].
  - destruct (convert_torus_aligned (to_main o b c) (tvec b u) cp nap (to_main o b p') sg Hsg Ha) as (t & Ht & Hv).
    exists t. split; [exact Ht|]. cbv zeta in Hv. rewrite msense_moved in Hv by (assumption || reflexivity). exact Hv.
  - destruct (convert_torus_general (to_main o b c) (tvec b u) cp nap (to_main o b p') Hu' Hx Hy Hz) as (t & Ht & Hv).
    exists t. split; [exact Ht|]. cbv zeta in Hv. rewrite msense_moved in Hv by (assumption || reflexivity). exact Hv.
Qed.

(* ---------- no guard: every unit axis ---------- *)
(* what numpy.allclose(|a|, e) = true bounds: the other two components are at
   most atol = 1e-8 in magnitude *)
Lemma close1_zero_bound x : close1 RS (Rabs x) 0 = true -> x * x <= / 10000000000000000.
Proof.
  unfold close1, atol, rtol; rs. intros H. apply Rleb_true in H.
  replace (Rabs x - 0) with (Rabs x) in H by ring. rewrite Rabs_R0, Rabs_Rabsolu in H.
  replace (1 / 100000000 + 1 / 100000 * 0) with (/ 100000000) in H by field.
  assert (H0 : 0 <= Rabs x) by apply Rabs_pos.
  assert (Hx : x * x = Rabs x * Rabs x) by (unfold Rabs; destruct (Rcase_abs x); ring).
  rewrite Hx. replace (/ 10000000000000000) with (/ 100000000 * / 100000000) by field. nra.
Qed.

Definition tiny : R := 2 * / 10000000000000000.   (* 2e-16 = 2 atol^2 *)

Lemma torus_snap c a cp nap (e : R3) :
  (e = mkV 1 0 0 /\ allclose3 RS (vmap (sabs RS) a) (ex RS) = true) \/
  (e = mkV 0 1 0 /\ allclose3 RS (vmap (sabs RS) a) (ex RS) = false /\
                    allclose3 RS (vmap (sabs RS) a) (ey RS) = true) \/
  (e = mkV 0 0 1 /\ allclose3 RS (vmap (sabs RS) a) (ex RS) = false /\
                    allclose3 RS (vmap (sabs RS) a) (ey RS) = false /\
                    allclose3 RS (vmap (sabs RS) a) (ez RS) = true) ->
  convert RS (mkMS KT c a cp nap) = convert RS (mkMS KT c e cp nap) /\ norm2 (cross e a) <= tiny.
Proof.
  intros H. destruct a as [a1 a2 a3].
  assert (Habs1 : Rabs 1 = 1) by apply Rabs_R1.
  unfold convert, convert_torus; cbn [mk mpt maxis mcp rmap].
  destruct H as [(-> & Hx) | [(-> & Hx & Hy) | (-> & Hx & Hy & Hz)]].
  - rewrite Hx. split.
    + unfold allclose3, vmap, ex; rs. rewrite Habs1, Rabs_R0, !close1_refl. reflexivity.
    + unfold allclose3, vmap, ex in Hx; rs. apply andb_true_iff in Hx. destruct Hx as [Hx H3].
      apply andb_true_iff in Hx. destruct Hx as [_ H2].
      apply close1_zero_bound in H2. apply close1_zero_bound in H3.
      unfold norm2, dot, cross, tiny; cbn [vx vy vz]. nra.
  - rewrite Hx, Hy. split.
    + unfold allclose3, vmap, ex, ey; rs. rewrite Habs1, Rabs_R0, !close1_refl, close1_0_1. reflexivity.
    + unfold allclose3, vmap, ey in Hy; rs. apply andb_true_iff in Hy. destruct Hy as [Hy H3].
      apply andb_true_iff in Hy. destruct Hy as [H1 _].
      apply close1_zero_bound in H1. apply close1_zero_bound in H3.
      unfold norm2, dot, cross, tiny; cbn [vx vy vz]. nra.
  - rewrite Hx, Hy, Hz. split.
    + unfold allclose3, vmap, ex, ey, ez; rs. rewrite Habs1, Rabs_R0, !close1_refl, close1_0_1. cbn [andb]. reflexivity.
    + unfold allclose3, vmap, ez in Hz; rs. apply andb_true_iff in Hz. destruct Hz as [Hz _].
      apply andb_true_iff in Hz. destruct Hz as [H1 H2].
      apply close1_zero_bound in H1. apply close1_zero_bound in H2.
      unfold norm2, dot, cross, tiny; cbn [vx vy vz]. nra.
Qed.

(* the converted torus, for EVERY unit axis a: it is exactly the torus with the
   same centre and parameters about an axis a' which is a itself, or the
   coordinate axis numpy.allclose snapped it to, with |a' x a|^2 <= 2e-16
   (an angle below 1.5e-8 rad) *)
Theorem convert_torus_total : forall c a cp nap, norm2 a = 1 ->
  exists t a', convert RS (mkMS KT c a cp nap) = Ok ((t, 1%Z) :: nil) /\
    (forall P, t4val t P = msense (mkMS KT c a' cp nap) P) /\
    norm2 a' = 1 /\ (a' = a \/ norm2 (cross a' a) <= tiny).
Proof.
  intros c a cp nap Hu.
  assert (aligned : forall e, (e = mkV 1 0 0 \/ e = mkV 0 1 0 \/ e = mkV 0 0 1) ->
            convert RS (mkMS KT c a cp nap) = convert RS (mkMS KT c e cp nap) -> norm2 (cross e a) <= tiny ->
            exists t a', convert RS (mkMS KT c a cp nap) = Ok ((t, 1%Z) :: nil) /\
              (forall P, t4val t P = msense (mkMS KT c a' cp nap) P) /\
              norm2 a' = 1 /\ (a' = a \/ norm2 (cross a' a) <= tiny)).
  { intros e He Hc Hb.
    assert (Hal : forall P, exists t, convert RS (mkMS KT c e cp nap) = Ok ((t, 1%Z) :: nil) /\
                            t4val t P = msense (mkMS KT c e cp nap) P).
    { intros P. apply (convert_torus_aligned c e cp nap P 1); [left; reflexivity | exact He]. }
    destruct (Hal (mkV 0 0 0)) as (t & Ht & _).
    exists t, e. split; [rewrite Hc; exact Ht|]. split; [| split].
    - intros P. destruct (Hal P) as (t' & Ht' & Hv). rewrite Ht in Ht'. injection Ht' as <-. exact Hv.
    - destruct He as [-> | [-> | ->]]; unfold norm2, dot; cbn [vx vy vz]; ring.
    - right; exact Hb. }
  destruct (allclose3 RS (vmap (sabs RS) a) (ex RS)) eqn:Hx.
  { destruct (torus_snap c a cp nap (mkV 1 0 0)) as [Hc Hb]; [left; auto|]. apply (aligned (mkV 1 0 0)); auto. }
  destruct (allclose3 RS (vmap (sabs RS) a) (ey RS)) eqn:Hy.
  { destruct (torus_snap c a cp nap (mkV 0 1 0)) as [Hc Hb]; [right; left; auto|]. apply (aligned (mkV 0 1 0)); auto. }
  destruct (allclose3 RS (vmap (sabs RS) a) (ez RS)) eqn:Hz.
  { destruct (torus_snap c a cp nap (mkV 0 0 1)) as [Hc Hb]; [right; right; auto|]. apply (aligned (mkV 0 0 1)); auto. }
  assert (Hg : forall P, exists t, convert RS (mkMS KT c a cp nap) = Ok ((t, 1%Z) :: nil) /\
                         t4val t P = msense (mkMS KT c a cp nap) P).
  { intros P. apply (convert_torus_general c a cp nap P Hu Hx Hy Hz). }
  destruct (Hg (mkV 0 0 0)) as (t & Ht & _).
  exists t, a. split; [exact Ht|]. split; [| split; [exact Hu | left; reflexivity]].
  intros P. destruct (Hg P) as (t' & Ht' & Hv). rewrite Ht in Ht'. injection Ht' as <-. exact Hv.
Qed.

Theorem frame_transform_torus_total : forall (o : R3) (b : M3 R) c u cp nap,
  rows_orthonormal b -> norm2 u = 1 ->
  exists t a', tr_convert RS (vlist o ++ mlist b) (mkMS KT c u cp nap) = Ok ((t, 1%Z) :: nil) /\
    (forall p', t4val t (to_main o b p') = msense (mkMS KT (to_main o b c) a' cp nap) (to_main o b p')) /\
    norm2 a' = 1 /\ (a' = tvec b u \/ norm2 (cross a' (tvec b u)) <= tiny) /\
    (a' = tvec b u -> forall p', t4val t (to_main o b p') = msense (mkMS KT c u cp nap) p').
Proof.
  intros o b c u cp nap Hb Hu. unfold tr_convert. rewrite transformation_frame by reflexivity. cbn [bind].
  assert (Hu' : norm2 (tvec b u) = 1) by (rewrite norm2_tvec; assumption).
  destruct (convert_torus_total (to_main o b c) (tvec b u) cp nap Hu') as (t & a' & Hc & Hv & Hn & Ha).
  exists t, a'. split; [exact Hc|]. split; [intros p'; apply Hv|]. split; [exact Hn|]. split; [exact Ha|].
  intros -> p'. rewrite Hv. apply msense_moved; [assumption | reflexivity].
Qed.
