(* C04 — frames moved by a transformation: the MCNP sense function of the moved
   frame at the moved point equals the sense function of the original frame at
   the original point (rows of B orthonormal). *)
From Coq Require Import List ZArith Bool Reals Lra Field.
From T4V Require Import Base.Scalar C04.Vec C04.Model C04.Spec.
Import ListNotations.
Open Scope R_scope.

Ltac rs := cbn [sadd ssub smul sdiv sneg sabs ssqrt s0 s1 sofZ spi scos ssin satan RS
                sltb sleb seqb vx vy vz nth] in *.

(* B^T v: the model's transform_vector *)
Definition tvec (b : M3 R) (v : R3) : R3 :=
  mkV (vx (vx b) * vx v + vx (vy b) * vy v + vx (vz b) * vz v)
      (vy (vx b) * vx v + vy (vy b) * vy v + vy (vz b) * vz v)
      (vz (vx b) * vx v + vz (vy b) * vy v + vz (vz b) * vz v).

Lemma transform_vector_tvec b v : transform_vector RS b v = tvec b v.
Proof. reflexivity. Qed.

Lemma transform_point_to_main o b p : transform_point RS o b p = to_main o b p.
Proof.
  destruct o, b as [[? ? ?] [? ? ?] [? ? ?]], p. unfold transform_point, transform_vector, to_main, vplus, vscale.
  rs. f_equal; ring.
Qed.

Lemma to_main_diff o b p q : vminus (to_main o b p) (to_main o b q) = tvec b (vminus p q).
Proof.
  destruct o, b as [[? ? ?] [? ? ?] [? ? ?]], p, q. unfold to_main, vplus, vscale, vminus, tvec. rs. f_equal; ring.
Qed.

Lemma dot_tvec b u v : rows_orthonormal b -> dot (tvec b u) (tvec b v) = dot u v.
Proof.
  destruct b as [[b1 b2 b3] [b4 b5 b6] [b7 b8 b9]], u as [u1 u2 u3], v as [v1 v2 v3].
  unfold rows_orthonormal, dot, tvec; rs. intros (H11 & H22 & H33 & H12 & H23 & H31).
  replace ((b1 * u1 + b4 * u2 + b7 * u3) * (b1 * v1 + b4 * v2 + b7 * v3) +
           (b2 * u1 + b5 * u2 + b8 * u3) * (b2 * v1 + b5 * v2 + b8 * v3) +
           (b3 * u1 + b6 * u2 + b9 * u3) * (b3 * v1 + b6 * v2 + b9 * v3))
    with (u1 * v1 * (b1 * b1 + b2 * b2 + b3 * b3) + u2 * v2 * (b4 * b4 + b5 * b5 + b6 * b6)
          + u3 * v3 * (b7 * b7 + b8 * b8 + b9 * b9)
          + (u1 * v2 + u2 * v1) * (b1 * b4 + b2 * b5 + b3 * b6)
          + (u2 * v3 + u3 * v2) * (b4 * b7 + b5 * b8 + b6 * b9)
          + (u3 * v1 + u1 * v3) * (b7 * b1 + b8 * b2 + b9 * b3)) by ring.
  rewrite H11, H22, H33, H12, H23, H31. ring.
Qed.

Lemma to_aux_to_main o b p : rows_orthonormal b -> to_aux o b (to_main o b p) = p.
Proof.
  destruct o as [o1 o2 o3], b as [[b1 b2 b3] [b4 b5 b6] [b7 b8 b9]], p as [x y z].
  unfold rows_orthonormal, to_aux, to_main, vplus, vscale, vminus, dot; rs.
  intros (H11 & H22 & H33 & H12 & H23 & H31).
  f_equal.
  - replace (b1 * (o1 + (x * b1 + (y * b4 + z * b7)) - o1) + b2 * (o2 + (x * b2 + (y * b5 + z * b8)) - o2)
             + b3 * (o3 + (x * b3 + (y * b6 + z * b9)) - o3))
      with (x * (b1 * b1 + b2 * b2 + b3 * b3) + y * (b1 * b4 + b2 * b5 + b3 * b6)
            + z * (b7 * b1 + b8 * b2 + b9 * b3)) by ring.
    rewrite H11, H12, H31; ring.
  - replace (b4 * (o1 + (x * b1 + (y * b4 + z * b7)) - o1) + b5 * (o2 + (x * b2 + (y * b5 + z * b8)) - o2)
             + b6 * (o3 + (x * b3 + (y * b6 + z * b9)) - o3))
      with (x * (b1 * b4 + b2 * b5 + b3 * b6) + y * (b4 * b4 + b5 * b5 + b6 * b6)
            + z * (b4 * b7 + b5 * b8 + b6 * b9)) by ring.
    rewrite H12, H22, H23; ring.
  - replace (b7 * (o1 + (x * b1 + (y * b4 + z * b7)) - o1) + b8 * (o2 + (x * b2 + (y * b5 + z * b8)) - o2)
             + b9 * (o3 + (x * b3 + (y * b6 + z * b9)) - o3))
      with (x * (b7 * b1 + b8 * b2 + b9 * b3) + y * (b4 * b7 + b5 * b8 + b6 * b9)
            + z * (b7 * b7 + b8 * b8 + b9 * b9)) by ring.
    rewrite H31, H23, H33; ring.
Qed.

(* ---------- (A) the moved frame ---------- *)
Definition frame_kind (k : mkind) : bool :=
  match k with KP | KS | KC | KK | KT => true | KSQ | KGQ => false end.

Lemma transformation_frame o b k pt u cp nap :
  frame_kind k = true ->
  transformation RS (vlist o ++ mlist b) (mkMS k pt u cp nap)
  = Ok (mkMS k (to_main o b pt) (tvec b u) cp nap).
Proof.
  intros Hk. rewrite <- transform_point_to_main.
  destruct o as [o1 o2 o3], b as [[b1 b2 b3] [b4 b5 b6] [b7 b8 b9]].
  destruct k; try discriminate; reflexivity.
Qed.

Lemma msense_moved o b k pt u cp nap p' :
  rows_orthonormal b -> frame_kind k = true ->
  msense (mkMS k (to_main o b pt) (tvec b u) cp nap) (to_main o b p')
  = msense (mkMS k pt u cp nap) p'.
Proof.
  intros H Hk. unfold msense, perp2, axial, norm2; cbn [mk mpt maxis mcp].
  rewrite to_main_diff. rewrite !dot_tvec by assumption.
  destruct k; try discriminate; reflexivity.
Qed.

Lemma axial_moved o b pt u p' :
  rows_orthonormal b -> axial (to_main o b pt) (tvec b u) (to_main o b p') = axial pt u p'.
Proof. intros H. unfold axial. rewrite to_main_diff, dot_tvec by assumption. reflexivity. Qed.

Lemma norm2_tvec b u : rows_orthonormal b -> norm2 (tvec b u) = norm2 u.
Proof. intros H. unfold norm2. apply dot_tvec, H. Qed.
