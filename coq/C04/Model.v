(* C04 — executable model of the coordinate-transformation path:
     MIP/geom/transforms.py           to_cos, normalize_transform          [to_cos, mip_normalize]
                                      transform_vector, transform_point    [transform_vector/point]
     MIP/geom/forcad.py               transform_frame                      [transformation]
     Kernel/Transformation/Transformation.py
                                      normalize_transform                  [normalize_transform]
                                      normalize_matrix{,3,5,6}             [normalize_matrix, nm3, nm5, nm6]
                                      is_matrix_rowwise, adjust_matrix     [rowwise, adjust_matrix]
                                      transformation                       [transformation]
                                      compose_transform, transform_vector  [compose_transform, apply_affine]
     Kernel/Transformation/TransformationQuad.py transformation_quad      [transformation_quad]
     Kernel/Surface/ConversionSurfaceMCNPToT4.py convert_plane/cylinder/
                                      sphere/cone/torus/quadric/special_quadric, rotation_from_vectors
                                                                           [convert]
     Kernel/FileHandlers/Parser/ParseMCNPCell.py parse_trcl_kw, parse_fill_kw (transformation part)
                                                                           [parse_trcl, parse_fill_tr]
     Kernel/Volume/ConstructVolumeT4.py extract_tr_surf_ids + implicit-surface loop
                                                                           [implicit_ids, implicit_surface, surface_table]
   Written once over [Scalar T]; arithmetic is in the evaluation order of the
   Python source so that the binary64 reading takes the same branches.
   Proofs live in C04/Proofs*.v. *)
From Coq Require Import List ZArith Bool.
From T4V Require Import Base.Scalar C04.Vec.
Import ListNotations.

(* Python exception classes on this path *)
Inductive err := ETransformation | EType | EStop | EValue | EIndex | EKey | EZeroDiv.
Inductive res (A : Type) := Ok (a : A) | Err (e : err).
Arguments Ok {A}. Arguments Err {A}.
Definition bind {A B} (r : res A) (f : A -> res B) : res B :=
  match r with Ok a => f a | Err e => Err e end.
Definition rmap {A B} (f : A -> B) (r : res A) : res B :=
  match r with Ok a => Ok (f a) | Err e => Err e end.
Fixpoint map_res {A B} (f : A -> res B) (l : list A) : res (list B) :=
  match l with
  | [] => Ok []
  | x :: r => bind (f x) (fun y => bind (map_res f r) (fun ys => Ok (y :: ys)))
  end.

Fixpoint lookup {A} (k : Z) (l : list (Z * A)) : res A :=
  match l with
  | [] => Err EKey
  | (k', v) :: r => if Z.eqb k k' then Ok v else lookup k r
  end.

(* MCNP-side surface in the frame form produced by MIP's mcnp2cad:
   kind, frame = (point, axis), complementary parameters, cone sheet *)
Inductive mkind := KP | KS | KC | KK | KT | KSQ | KGQ.
Record msurf (T : Type) := mkMS {
  mk : mkind; mpt : V3 T; maxis : V3 T; mcp : list T; mnap : option Z }.
Arguments mkMS {T}. Arguments mk {T}. Arguments mpt {T}. Arguments maxis {T}.
Arguments mcp {T}. Arguments mnap {T}.

(* TRIPOLI-4 side *)
Inductive t4kind := PLANEX | PLANEY | PLANEZ | PLANE | SPHERE | CYLX | CYLY | CYLZ | CYL
                  | CONEX | CONEY | CONEZ | CONE | QUAD | TORUSX | TORUSY | TORUSZ.
Record t4surf (T : Type) := mkT4 {
  tk : t4kind; tprm : list T; ttr : option (V3 T * M3 T) }.
Arguments mkT4 {T}. Arguments tk {T}. Arguments tprm {T}. Arguments ttr {T}.

Section Model.
  Context {T : Type} (S : Scalar T).
  Local Infix "+!" := (sadd S) (at level 50, left associativity).
  Local Infix "-!" := (ssub S) (at level 50, left associativity).
  Local Infix "*!" := (smul S) (at level 40, left associativity).
  Local Infix "/!" := (sdiv S) (at level 40, left associativity).
  Local Notation "0!" := (s0 S).
  Local Notation "1!" := (s1 S).
  Local Notation "-! x" := (sneg S x) (at level 35, right associativity).

  Definition isz (x : T) : bool := seqb S x 0!.

  Fixpoint values (l : list (option T)) : res (list T) :=
    match l with
    | [] => Ok []
    | Some v :: r => rmap (cons v) (values r)
    | None :: _ => Err EType
    end.

  Definition ident9 : list T := [1!; 0!; 0!; 0!; 1!; 0!; 0!; 0!; 1!].

  (* ---------------- MIP/geom/transforms.py ---------------- *)
  (* cos(radians(a)), radians(a) = a * (pi / 180) *)
  Definition to_cos (a : T) : T := scos S (a *! (spi S /! sofZ S 180)).

  (* normalize_transform(name, dtype, params) after expand_data_card; a J
     placeholder is None *)
  Definition mip_normalize (star : bool) (pl : list (option T)) : list (option T) :=
    if Nat.eqb (length pl) 3 then pl ++ map Some ident9
    else if star then firstn 3 pl ++ map (option_map to_cos) (firstn 9 (skipn 3 pl)) ++ skipn 12 pl
    else pl.

  (* ---------------- normalize_matrix{3,5,6} ---------------- *)
  Definition first_idx {A} (p : A -> bool) (m : V3 A) : option nat :=
    if p (vx m) then Some 0%nat else if p (vy m) then Some 1%nat
    else if p (vz m) then Some 2%nat else None.

  (* a at row i, b at row i+1, c at row i+2 (mod 3) *)
  Definition place3 {A} (i : nat) (a b c : A) : V3 A :=
    match i with 0%nat => mkV a b c | 1%nat => mkV c a b | _ => mkV b c a end.

  Definition c999 : T := sofZ S 999 /! sofZ S 1000.

  Definition nm3 (m : M3 (option T)) : res (M3 T) :=
    match first_idx (fun r => is_some (vx r)) m with
    | None => Err EStop
    | Some i1 =>
        match all_some (vget i1 m) with
        | None => Err EType
        | Some row1 =>
            let e2 := if sltb S c999 (sabs S (scal S row1 (ex S))) then ey S else ex S in
            let w := vdiff S e2 (renorm_to S (scal S e2 row1) row1) in
            if isz (mag S row1) || isz (mag S w) then Err EZeroDiv else
            let row2 := renorm S w in
            let row3 := vect S row1 row2 in
            Ok (place3 i1 row1 row2 row3)
        end
    end.

  Definition nm6 (m : M3 (option T)) : res (M3 T) :=
    match first_idx (fun r => negb (is_some (vx r))) m with
    | None => Err EStop
    | Some i =>
        match all_some (vget (nxt i) m), all_some (vget (nxt (nxt i)) m) with
        | Some r0, Some r1 => Ok (place3 i (vect S r0 r1) r0 r1)
        | _, _ => Err EType
        end
    end.

  (* the Euler completion in the coordinates where the given row is the
     first row and the given column the first column:
     row = cos b, -cos g sin b, sin g sin b; col = cos b, cos a sin b, sin a sin b *)
  Definition nm5_full (row col : V3 T) : M3 T :=
    let sb := ssqrt S (vy row *! vy row +! vz row *! vz row) in
    let cb := vx row in
    let nz := negb (isz sb) in
    let cg := if nz then (-! vy row) /! sb else 1! in
    let sg := if nz then vz row /! sb else 0! in
    let ca := if nz then vy col /! sb else 1! in
    let sa := if nz then vz col /! sb else 0! in
    mkV row
        (mkV (vy col) (ca *! cb *! cg -! sa *! sg) ((-! cg) *! sa -! ca *! cb *! sg))
        (mkV (vz col) (ca *! sg +! cb *! cg *! sa) (ca *! cg -! cb *! sa *! sg)).

  Definition nm5 (m : M3 (option T)) : res (M3 T) :=
    let complete := fun r : V3 (option T) => is_some (all_some r) in
    match first_idx complete m, first_idx complete (transpose m) with
    | Some ir, Some ic =>
        match all_some (vget ir m), all_some (vget ic (transpose m)) with
        | Some row0, Some col0 =>
            (* numpy.roll of the rows by ir, then of the columns by ic *)
            Ok (vmap (roll ic) (roll ir (nm5_full (rotl ic row0) (rotl ir col0))))
        | _, _ => Err EStop
        end
    | _, _ => Err EStop
    end.

  Definition rowwise (m : M3 (option T)) : bool :=
    let r := vx m in
    (is_some (vx r) && is_some (vy r) && is_some (vz r))
    || (negb (is_some (vx r)) && negb (is_some (vy r)) && negb (is_some (vz r))).

  Definition count_some (l : list (option T)) : nat := List.length (filter is_some l).

  Definition normalize_matrix (matrix : list (option T)) : res (list T) :=
    let m9 := matrix ++ repeat None (9 - List.length matrix) in
    let n := count_some m9 in
    if Nat.eqb n 9 then values matrix
    else if Nat.eqb n 0 then Ok ident9
    else match of_list9 m9 with
         | None => Err EValue
         | Some m =>
             if Nat.eqb n 5 then rmap mlist (nm5 m)
             else if Nat.eqb n 3 then
                    if rowwise m then rmap mlist (nm3 m)
                    else rmap (fun x => mlist (transpose x)) (nm3 (transpose m))
             else if Nat.eqb n 6 then
                    if rowwise m then rmap mlist (nm6 m)
                    else rmap (fun x => mlist (transpose x)) (nm6 (transpose m))
             else Err ETransformation
         end.

  (* ---------------- adjust_matrix ---------------- *)
  Definition c1e10 : T := 1! /! sofZ S 10000000000.
  Definition clip (v : T) : T := if sleb S c1e10 (sabs S v) then v else 0!.

  Definition adj_c1pre (m : M3 T) : V3 T :=
    let cols := transpose (vmap (renorm S) m) in
    vdiff S (rescale S (mag2 S (vx cols)) (vy cols)) (rescale S (scal S (vx cols) (vy cols)) (vx cols)).

  (* the three new columns, before the 1e-10 clip *)
  Definition adjust_cols (m : M3 T) : M3 T :=
    let cols := transpose (vmap (renorm S) m) in
    let c1' := renorm S (adj_c1pre m) in
    let c0' := renorm S (vx cols) in
    let vp := renorm S (vect S c0' c1') in
    let c2' := if sltb S 0! (scal S vp (vz cols)) then vp else rescale S (-! 1!) vp in
    mkV c0' c1' c2'.

  Definition adjust_raw (m : M3 T) : M3 T :=
    transpose (vmap (vmap clip) (adjust_cols m)).

  (* the places where Python would raise ZeroDivisionError *)
  Definition adjust_divzero (m : M3 T) : bool :=
    let cols := transpose (vmap (renorm S) m) in
    isz (mag S (vx m)) || isz (mag S (vy m)) || isz (mag S (vz m))
    || isz (mag S (adj_c1pre m)) || isz (mag S (vx cols))
    || isz (mag S (vect S (renorm S (vx cols)) (renorm S (adj_c1pre m)))).

  Definition adjust_matrix (matrix : list T) : res (list T) :=
    match of_list9 matrix with
    | None => Err EValue
    | Some m => if adjust_divzero m then Err EZeroDiv else Ok (mlist (adjust_raw m))
    end.

  (* ---------------- Transformation.normalize_transform ---------------- *)
  Definition last_is_one (l : list (option T)) : bool :=
    match last l None with Some v => seqb S v 1! | None => false end.

  Definition normalize_transform (transf : list (option T)) : res (list T) :=
    if Nat.eqb (List.length transf) 13 && negb (last_is_one transf) then Err ETransformation
    else match transf with
         | [] => Ok ([0!; 0!; 0!] ++ ident9)
         | _ =>
             if Nat.eqb (List.length transf) 3 then rmap (fun o => o ++ ident9) (values transf)
             else bind (normalize_matrix (firstn 9 (skipn 3 transf))) (fun m =>
                  bind (adjust_matrix m) (fun a =>
                  rmap (fun o => o ++ a) (values (firstn 3 transf))))
         end.

  (* get_mcnp_transforms, one card: star flag (dtype "*tr") and expanded entries *)
  Definition tr_card (star : bool) (pl : list (option T)) : res (list T) :=
    normalize_transform (mip_normalize star pl).

  (* ---------------- applying a transformation ---------------- *)
  (* MIP transform_vector: xp = b1*x + b4*y + b7*z, ... (b = rows of the matrix) *)
  Definition transform_vector (b : M3 T) (v : V3 T) : V3 T :=
    mkV (vx (vx b) *! vx v +! vx (vy b) *! vy v +! vx (vz b) *! vz v)
        (vy (vx b) *! vx v +! vy (vy b) *! vy v +! vy (vz b) *! vz v)
        (vz (vx b) *! vx v +! vz (vy b) *! vy v +! vz (vz b) *! vz v).
  Definition transform_point (o : V3 T) (b : M3 T) (p : V3 T) : V3 T :=
    let v := transform_vector b p in mkV (vx o +! vx v) (vy o +! vy v) (vz o +! vz v).

  Definition tr_parts (tr : list T) : option (V3 T * M3 T) :=
    match tr with
    | o1 :: o2 :: o3 :: rest =>
        match of_list9 rest with Some m => Some (mkV o1 o2 o3, m) | None => None end
    | _ => None
    end.

  (* transformation_quad *)
  Definition dot4 (a b : list T) : T :=
    match a, b with
    | [a0; a1; a2; a3], [b0; b1; b2; b3] => a0 *! b0 +! a1 *! b1 +! a2 *! b2 +! a3 *! b3
    | _, _ => 0!
    end.
  Definition col4 (m : list (list T)) (j : nat) : list T := map (fun r => nth j r 0!) m.
  Definition idx4 : list nat := [0; 1; 2; 3]%nat.
  Definition mmul4 (a b : list (list T)) : list (list T) :=
    map (fun r => map (fun j => dot4 r (col4 b j)) idx4) a.
  Definition tr4 (m : list (list T)) : list (list T) := map (col4 m) idx4.
  Definition item4 (m : list (list T)) (i j : nat) : T := nth j (nth i m []) 0!.

  Definition transformation_quad (params trans : list T) : list T :=
    let p := fun i => nth i params 0! in
    let t := fun i => nth i trans 0! in
    let h := 1! /! sofZ S 2 in
    let two := sofZ S 2 in
    let a_mat := [[p 0%nat; p 3%nat *! h; p 5%nat *! h; p 6%nat *! h];
                  [p 3%nat *! h; p 1%nat; p 4%nat *! h; p 7%nat *! h];
                  [p 5%nat *! h; p 4%nat *! h; p 2%nat; p 8%nat *! h];
                  [p 6%nat *! h; p 7%nat *! h; p 8%nat *! h; p 9%nat]] in
    let r_mat := [[t 3%nat; t 4%nat; t 5%nat; 0!];
                  [t 6%nat; t 7%nat; t 8%nat; 0!];
                  [t 9%nat; t 10%nat; t 11%nat; 0!];
                  [0!; 0!; 0!; 1!]] in
    let q_mat := [[1!; 0!; 0!; -! t 0%nat];
                  [0!; 1!; 0!; -! t 1%nat];
                  [0!; 0!; 1!; -! t 2%nat];
                  [0!; 0!; 0!; 1!]] in
    let m_mat := mmul4 r_mat q_mat in
    let at_ := mmul4 (tr4 m_mat) (mmul4 a_mat m_mat) in
    [item4 at_ 0 0; item4 at_ 1 1; item4 at_ 2 2;
     item4 at_ 0 1 *! two; item4 at_ 1 2 *! two; item4 at_ 0 2 *! two;
     item4 at_ 0 3 *! two; item4 at_ 1 3 *! two; item4 at_ 2 3 *! two;
     item4 at_ 3 3].

  (* ---- quadric helpers (ConversionSurfaceMCNPToT4.eval_quadric, sq_to_gq) ---- *)
  Definition eval_quadric (q : list T) (p : V3 T) : T :=
    let c := fun i => nth i q 0! in
    let x := vx p in let y := vy p in let z := vz p in
    c 0%nat *! (x *! x) +! c 1%nat *! (y *! y) +! c 2%nat *! (z *! z)
    +! c 3%nat *! x *! y +! c 4%nat *! y *! z +! c 5%nat *! z *! x
    +! c 6%nat *! x +! c 7%nat *! y +! c 8%nat *! z +! c 9%nat.

  Definition sq_expand (sq : list T) : list T :=
    let c := fun i => nth i sq 0! in
    let a := c 0%nat in let b := c 1%nat in let cc := c 2%nat in
    let d := c 3%nat in let e := c 4%nat in let f := c 5%nat in let g := c 6%nat in
    let x := c 7%nat in let y := c 8%nat in let z := c 9%nat in
    let two := sofZ S 2 in
    [a; b; cc; 0!; 0!; 0!;
     two *! d -! two *! a *! x;
     two *! e -! two *! b *! y;
     two *! f -! two *! cc *! z;
     a *! (x *! x) +! b *! (y *! y) +! cc *! (z *! z)
       -! two *! (d *! x +! e *! y +! f *! z) +! g].

  (* ConversionSurfaceMCNPToT4.sq_to_gq: the expansion, with the sign of the
     card (the flip for a quadric positive at (x, y, z) was removed in 66f68d1) *)
  Definition sq_to_gq (sq : list T) : list T := sq_expand sq.

  (* Transformation.transformation *)
  Definition transformation (tr : list T) (s : msurf T) : res (msurf T) :=
    match tr with
    | [] => Ok s
    | _ =>
        match mk s with
        | KSQ =>
            (* an SQ surface is first rewritten as a GQ (sq_to_gq) *)
            if Nat.ltb (List.length (mcp s)) 10 || Nat.ltb (List.length tr) 12 then Err EIndex
            else Ok (mkMS KGQ (mpt s) (maxis s) (transformation_quad (sq_to_gq (mcp s)) tr) (mnap s))
        | KGQ =>
            if Nat.ltb (List.length tr) 12 || Nat.ltb (List.length (mcp s)) 10 then Err EIndex
            else Ok (mkMS KGQ (mpt s) (maxis s) (transformation_quad (mcp s) tr) (mnap s))
        | _ =>
            match tr_parts tr with
            | None => Err EValue
            | Some (o, b) =>
                Ok (mkMS (mk s) (transform_point o b (mpt s)) (transform_vector b (maxis s))
                         (mcp s) (mnap s))
            end
        end
    end.

  (* Transformation.compose_transform / transform_vector (used by the lattice
     and fill code; modelled for completeness) *)
  Definition apply_affine (tr : list T) (v : V3 T) : option (V3 T) :=
    match tr_parts tr with
    | Some (o, m) => Some (vadd S (mapply S m v) o)
    | None => None
    end.
  Definition mmul3 (a b : M3 T) : M3 T :=
    let bt := transpose b in
    vmap (fun r => mkV (scal S r (vx bt)) (scal S r (vy bt)) (scal S r (vz bt))) a.
  Definition compose_transform (t1 t2 : list T) : option (list T) :=
    match tr_parts t1, tr_parts t2 with
    | Some (o1, m1), Some (o2, m2) =>
        Some (vlist (vadd S (mapply S m2 o1) o2) ++ mlist (mmul3 m2 m1))
    | _, _ => None
    end.

  (* CellConversion.develop_lattice, the fill transformation of one lattice
     element: trnsf = (translation of the element, identity); the cell's own
     fill transformation is composed FIRST (a82b50a), otherwise the cell's TRCL
     chain is composed in front of the translation.  None = compose_transform
     would raise (malformed lists) *)
  Definition lattice_filltr (filltr : list T) (trcls : list (list T)) (transl : V3 T)
    : option (list T) :=
    let trnsf := vlist transl ++ ident9 in
    match filltr with
    | _ :: _ => compose_transform filltr trnsf
    | [] =>
        fold_left (fun acc trcl => match acc with Some t => compose_transform trcl t | None => None end)
                  trcls (Some trnsf)
    end.

  (* ---------------- ConversionSurfaceMCNPToT4 ---------------- *)
  Definition plain (k : t4kind) (p : list T) : t4surf T := mkT4 k p None.

  Definition neg_pos (s : msurf T) : T :=
    let p := mpt s in let u := maxis s in
    -! (vx u *! vx p +! vy u *! vy p +! vz u *! vz p).

  Definition convert_plane (s : msurf T) : t4surf T :=
    let u := maxis s in
    let pos := neg_pos s in
    if isz (vx u) && isz (vy u) && sltb S 0! (vz u) then plain PLANEZ [(-! pos) /! vz u]
    else if isz (vy u) && isz (vz u) && sltb S 0! (vx u) then plain PLANEX [(-! pos) /! vx u]
    else if isz (vz u) && isz (vx u) && sltb S 0! (vy u) then plain PLANEY [(-! pos) /! vy u]
    else plain PLANE [vx u; vy u; vz u; pos].

  Definition convert_cylinder (s : msurf T) : res (t4surf T) :=
    let p := mpt s in let u := maxis s in
    match mcp s with
    | [] => Err EIndex
    | radius :: _ =>
        Ok (if isz (vx u) && isz (vy u) then plain CYLZ [vx p; vy p; radius]
            else if isz (vy u) && isz (vz u) then plain CYLX [vy p; vz p; radius]
            else if isz (vz u) && isz (vx u) then plain CYLY [vx p; vz p; radius]
            else plain CYL [vx p; vy p; vz p; radius; vx u; vy u; vz u])
    end.

  Definition convert_sphere (s : msurf T) : res (t4surf T) :=
    let p := mpt s in
    match mcp s with
    | [] => Err EIndex
    | radius :: _ => Ok (plain SPHERE [vx p; vy p; vz p; radius])
    end.

  Definition convert_special_quadric (s : msurf T) : res (t4surf T) :=
    let sq := mcp s in
    if Nat.ltb (List.length sq) 10 then Err EIndex else Ok (plain QUAD (sq_to_gq sq)).

  (* numpy.allclose(a, b) with the default rtol = 1e-5, atol = 1e-8 *)
  Definition rtol : T := 1! /! sofZ S 100000.
  Definition atol : T := 1! /! sofZ S 100000000.
  Definition close1 (a b : T) : bool := sleb S (sabs S (a -! b)) (atol +! rtol *! sabs S b).
  Definition allclose3 (a b : V3 T) : bool :=
    close1 (vx a) (vx b) && close1 (vy a) (vy b) && close1 (vz a) (vz b).

  (* VectUtils.rotation_from_vectors((0,0,1), axis) *)
  Definition rotation_from_z (axis : V3 T) : M3 T :=
    let df := renorm S (ez S) in
    let dt := renorm S axis in
    let k := vect S df dt in
    let c := scal S df dt in
    let km : M3 T := mkV (mkV 0! (-! vz k) (vy k)) (mkV (vz k) 0! (-! vx k)) (mkV (-! vy k) (vx k) 0!) in
    let kk := mmul3 km km in
    let d := 1! +! c in
    let cell := fun (i k2 q : T) => i +! k2 +! q /! d in
    mkV (mkV (cell 1! (vx (vx km)) (vx (vx kk))) (cell 0! (vy (vx km)) (vy (vx kk))) (cell 0! (vz (vx km)) (vz (vx kk))))
        (mkV (cell 0! (vx (vy km)) (vx (vy kk))) (cell 1! (vy (vy km)) (vy (vy kk))) (cell 0! (vz (vy km)) (vz (vy kk))))
        (mkV (cell 0! (vx (vz km)) (vx (vz kk))) (cell 0! (vy (vz km)) (vy (vz kk))) (cell 1! (vz (vz km)) (vz (vz kk)))).

  Definition convert_torus (s : msurf T) : t4surf T :=
    let c := mpt s in let a := maxis s in
    let aa := vmap (sabs S) a in
    if allclose3 aa (ex S) then plain TORUSX (vlist c ++ mcp s)
    else if allclose3 aa (ey S) then plain TORUSY (vlist c ++ mcp s)
    else if allclose3 aa (ez S) then plain TORUSZ (vlist c ++ mcp s)
    else
      let r := rotation_from_z a in
      let c' := mapply S (transpose r) c in
      mkT4 TORUSZ (vlist c' ++ mcp s) (Some (v0 S, r)).

  (* convert_cone: the cone itself ... *)
  Definition cone_part (s : msurf T) (a : T) : t4surf T :=
    let p := mpt s in let u := maxis s in
    let theta := sofZ S 180 *! a /! spi S in
    if isz (vx u) && isz (vy u) then plain CONEZ [vx p; vy p; vz p; theta]
    else if isz (vy u) && isz (vz u) then plain CONEX [vx p; vy p; vz p; theta]
    else if isz (vz u) && isz (vx u) then plain CONEY [vx p; vy p; vz p; theta]
    else plain CONE [vx p; vy p; vz p; theta; vx u; vy u; vz u].

  (* ... and the auxiliary plane through the apex that keeps one sheet.
     PLANEX/Y/Z have their normal along the positive axis: the side is flipped
     when the cone axis points the other way *)
  Definition sheet_plane (s : msurf T) (n : Z) : t4surf T * Z :=
    let u := maxis s in
    let pos := neg_pos s in
    let side := (- n)%Z in
    let flip := fun c : T => if sltb S 0! c then side else (- side)%Z in
    if isz (vx u) && isz (vy u) then (plain PLANEZ [(-! pos) /! vz u], flip (vz u))
    else if isz (vy u) && isz (vz u) then (plain PLANEX [(-! pos) /! vx u], flip (vx u))
    else if isz (vz u) && isz (vx u) then (plain PLANEY [(-! pos) /! vy u], flip (vy u))
    else (plain PLANE [vx u; vy u; vz u; pos], side).

  Definition convert_cone (s : msurf T) : res (list (t4surf T * Z)) :=
    match mcp s with
    | _ :: a :: _ =>
        match mnap s with
        | None => Ok [(cone_part s a, 1%Z)]
        | Some 0%Z => Ok [(cone_part s a, 1%Z)]
        | Some n => Ok [(cone_part s a, 1%Z); sheet_plane s n]
        end
    | _ => Err EIndex
    end.

  (* conversion_surface_params: a collection of (T4 surface, side) *)
  Definition convert (s : msurf T) : res (list (t4surf T * Z)) :=
    let one := fun r : res (t4surf T) => rmap (fun x => [(x, 1%Z)]) r in
    match mk s with
    | KK => convert_cone s
    | KP => one (Ok (convert_plane s))
    | KC => one (convert_cylinder s)
    | KS => one (convert_sphere s)
    | KSQ => one (convert_special_quadric s)
    | KGQ => one (Ok (plain QUAD (mcp s)))
    | KT => one (Ok (convert_torus s))
    end.

  (* SurfaceCollection.join + convert_mcnp_surface: a dictionary entry (parts
     with sides) becomes ONE flat collection, the sides multiplied *)
  Definition join (colls : list (list (t4surf T * Z) * Z)) : list (t4surf T * Z) :=
    flat_map (fun cs => map (fun ss => (fst ss, (snd ss * snd cs)%Z)) (fst cs)) colls.
  Definition convert_entry (e : list (msurf T * Z)) : res (list (t4surf T * Z)) :=
    rmap join (map_res (fun sd => rmap (fun c => (c, snd sd)) (convert (fst sd))) e).

  (* a surface of the deck moved by a transformation and converted *)
  Definition tr_convert (tr : list T) (s : msurf T) : res (list (t4surf T * Z)) :=
    bind (transformation tr s) convert.

  (* ---------------- ParseMCNPCell: TRCL / FILL transformation ---------------- *)
  (* entries = float() of the tokens following the keyword; trid = int() of the
     first token (used only when there is exactly one) *)
  (* parse_trcl_kw and parse_fill_kw share the same transformation branch
     (since the repair of the inline TRCL spelling): one id -> the TR card;
     three numbers -> a translation; otherwise cosines for the starred form
     (entries 4..12 only: a 13th entry is kept) and normalize_transform *)
  Definition parse_kw_tr (empty_star_identity : bool) (star : bool) (entries : list T)
             (trs : list (Z * list T)) (trid : Z) : res (list T) :=
    match List.length entries with
    | 0%nat => if star && empty_star_identity then normalize_transform [] else Ok []
    | 1%nat => rmap (firstn 12) (lookup trid trs)
    | 3%nat => Ok (entries ++ ident9)
    | _ => if star
           then normalize_transform
                  (map Some (firstn 3 entries ++ map to_cos (firstn 9 (skipn 3 entries))
                             ++ skipn 12 entries))
           else normalize_transform (map Some entries)
    end.
  (* the two keywords differ only without entries: a bare *TRCL goes through
     normalize_transform([]) (identity), *FILL=n without a transformation is
     FILL=n (c2e06ed) *)
  Definition parse_trcl := parse_kw_tr true.
  Definition parse_fill_tr := parse_kw_tr false.

  (* a TRCL value applied to one surface of the cell (pot_transform leaf) *)
  Definition trcl_convert (v : list T) (s : msurf T) : res (list (t4surf T * Z)) :=
    tr_convert v s.

  (* ---------------- implicit surfaces 1000*cell + surface ---------------- *)
  Definition zmem (x : Z) (l : list Z) : bool := existsb (Z.eqb x) l.

  (* extract_tr_surf_ids(...) - set(dic_surface_mcnp) *)
  Definition implicit_ids (refs defined : list Z) : list Z :=
    nodup Z.eq_dec
      (filter (fun i => negb (zmem i defined)) (filter (fun r => (1000 <=? r)%Z) (map Z.abs refs))).

  Definition tr_all (tr : list T) (l : list (msurf T * Z)) : res (list (msurf T * Z)) :=
    map_res (fun sd => rmap (fun s' => (s', snd sd)) (transformation tr (fst sd))) l.

  (* cells: id -> CellMCNP.trcl (a list with zero or one transformation) *)
  Definition implicit_surface (cells : list (Z * list (list T)))
             (surfs : list (Z * list (msurf T * Z))) (id : Z) : res (list (msurf T * Z)) :=
    bind (lookup (id / 1000)%Z cells) (fun trs =>
    bind (lookup (id mod 1000)%Z surfs) (fun ss =>
      fold_left (fun acc tr => bind acc (tr_all tr)) trs (Ok ss))).

  (* the surface dictionary after the implicit-surface loop *)
  Definition surface_table (refs : list Z) (cells : list (Z * list (list T)))
             (surfs : list (Z * list (msurf T * Z))) : res (list (Z * list (msurf T * Z))) :=
    rmap (app surfs)
         (map_res (fun id => rmap (pair id) (implicit_surface cells surfs id))
                  (implicit_ids refs (map fst surfs))).

  (* a (signed) reference in a cell resolved against the dictionary *)
  Definition resolve_ref (r : Z) (table : list (Z * list (msurf T * Z))) : res (list (msurf T * Z)) :=
    lookup (Z.abs r) table.
  (* ---------------- CellConversion.pot_transform / apply_trcl ---------------- *)
  (* the cell expression after parsing: signed surface leaves, cell references,
     '^' complement nodes, '*' / ':' operators *)
  Inductive gop := GInter | GUnion.
  Inductive gtree := GSurf (n : Z) | GCell (n : Z) | GCompl (n : Z) | GOp (op : gop) (args : list gtree).

  (* conversion state: the last surface key handed out (new_surf_key) and
     dic_surf_mcnp *)
  Definition pstate := (Z * list (Z * list (msurf T * Z)))%type.

  (* one surface leaf: a NEW surface per transformed leaf, holding every part
     of the old one moved by the transformation; the sign of the leaf is kept *)
  Definition pot_leaf (tr : list T) (n : Z) (st : pstate) : res (gtree * pstate) :=
    bind (lookup (Z.abs n) (snd st)) (fun parts =>
    bind (tr_all tr parts) (fun parts' =>
      let k := (fst st + 1)%Z in
      Ok (GSurf (if (0 <=? n)%Z then k else (- k)%Z), (k, (k, parts') :: snd st)))).

  (* pot_transform: complements stay, operators are walked left to right, cell
     references are outside this model (cell_transform recursion): EType *)
  Fixpoint pot_transform (tr : list T) (t : gtree) (st : pstate) : res (gtree * pstate) :=
    match tr with
    | [] => Ok (t, st)
    | _ =>
      match t with
      | GSurf n => pot_leaf tr n st
      | GCell _ => Err EType
      | GCompl n => Ok (GCompl n, st)
      | GOp op args =>
          let fix walk (l : list gtree) (st : pstate) : res (list gtree * pstate) :=
            match l with
            | [] => Ok ([], st)
            | a :: r =>
                bind (pot_transform tr a st) (fun ast =>
                bind (walk r (snd ast)) (fun rst => Ok (fst ast :: fst rst, snd rst)))
            end in
          bind (walk args st) (fun r => Ok (GOp op (fst r), snd r))
      end
    end.

  (* apply_trcl: the cell's TRCL list, one after the other *)
  Definition apply_trcl (trcls : list (list T)) (t : gtree) (st : pstate) : res (gtree * pstate) :=
    fold_left (fun acc tr => bind acc (fun ts => pot_transform tr (fst ts) (snd ts))) trcls (Ok (t, st)).

End Model.
