(* C04 — adjust_matrix leaves an orthonormal matrix unchanged; normalize_matrix
   completes abbreviated matrices to proper rotations reproducing the supplied
   entries; to_cos; m = 1 only. *)
From Coq Require Import List ZArith Bool Reals Lra Lia Field Nsatz.
From T4V Require Import Base.Scalar C04.Vec C04.Model C04.Spec.
Import ListNotations.
Open Scope R_scope.

Ltac rs := cbn [sadd ssub smul sdiv sneg sabs ssqrt s0 s1 sofZ spi scos ssin satan RS
                sltb sleb seqb vx vy vz List.nth] in *.

Lemma scal_dot a b : scal RS a b = dot a b.
Proof. reflexivity. Qed.
Lemma mag2_norm2 a : mag2 RS a = norm2 a.
Proof. reflexivity. Qed.

Lemma mag_unit a : norm2 a = 1 -> mag RS a = 1.
Proof. intros H. unfold mag. rewrite mag2_norm2, H. rs. apply sqrt_1. Qed.

Lemma renorm_unit a : norm2 a = 1 -> renorm RS a = a.
Proof.
  intros H. unfold renorm, renorm_to. rewrite (mag_unit a H). destruct a. unfold rescale; rs. f_equal; field.
Qed.

Lemma isz_mag_unit a : norm2 a = 1 -> isz RS (mag RS a) = false.
Proof. intros H. rewrite (mag_unit a H). unfold isz; rs. apply Reqb_false. lra. Qed.

(* rows orthonormal -> columns orthonormal (3x3 reals) *)
Lemma cols_orthonormal b : rows_orthonormal b -> rows_orthonormal (transpose b).
Proof.
  destruct b as [[b1 b2 b3] [b4 b5 b6] [b7 b8 b9]]. unfold rows_orthonormal, transpose, dot; rs.
  intros (H11 & H22 & H33 & H12 & H23 & H31). repeat split; nsatz.
Qed.

Lemma det_sq b : rows_orthonormal b -> det b * det b = 1.
Proof.
  destruct b as [[b1 b2 b3] [b4 b5 b6] [b7 b8 b9]]. unfold rows_orthonormal, det, cross, dot; rs.
  intros (H11 & H22 & H33 & H12 & H23 & H31). nsatz.
Qed.

Lemma det_transpose b : det (transpose b) = det b.
Proof. destruct b as [[b1 b2 b3] [b4 b5 b6] [b7 b8 b9]]. unfold det, cross, dot, transpose; rs. ring. Qed.

(* cofactors: for an orthonormal triple the cross product of two rows is
   det * the third *)
Lemma cross_rows b : rows_orthonormal b -> cross (vx b) (vy b) = vscale (det b) (vz b).
Proof.
  destruct b as [[b1 b2 b3] [b4 b5 b6] [b7 b8 b9]]. unfold rows_orthonormal, det, cross, dot, vscale; rs.
  intros (H11 & H22 & H33 & H12 & H23 & H31). f_equal; nsatz.
Qed.

(* ---------- adjust_matrix ---------- *)
Definition clip_ok (x : R) : Prop := x = 0 \/ / 10000000000 <= Rabs x.
Definition clip_ok3 (v : R3) : Prop := clip_ok (vx v) /\ clip_ok (vy v) /\ clip_ok (vz v).
Definition clip_ok_m (m : M3 R) : Prop := clip_ok3 (vx m) /\ clip_ok3 (vy m) /\ clip_ok3 (vz m).

Lemma clip_id x : clip_ok x -> clip RS x = x.
Proof.
  intros [H | H]; unfold clip, c1e10; rs.
  - subst. destruct (Rleb _ _); reflexivity.
  - replace (1 / 10000000000) with (/ 10000000000) by field.
    destruct (Rleb (/ 10000000000) (Rabs x)) eqn:E; [reflexivity|]. apply Rleb_false in E. lra.
Qed.

Lemma vect_cross a b : vect RS a b = cross a b.
Proof. destruct a, b. unfold vect, cross; rs. f_equal; ring. Qed.

Lemma norm2_vscale k v : norm2 (vscale k v) = k * k * norm2 v.
Proof. destruct v. unfold norm2, dot, vscale; rs. ring. Qed.

Lemma adjust_raw_fix m : rows_orthonormal m -> clip_ok_m m -> adjust_raw RS m = m /\ adjust_divzero RS m = false.
Proof.
  intros Hm Hclip.
  pose proof (cols_orthonormal m Hm) as Hc.
  pose proof (cross_rows (transpose m) Hc) as Hx.
  pose proof (det_sq (transpose m) Hc) as Hd.
  destruct m as [r0 r1 r2].
  destruct Hm as (H00 & H11 & H22 & H01 & H12 & H20). cbn [vx vy vz] in *.
  assert (Erows : vmap (renorm RS) (mkV r0 r1 r2) = mkV r0 r1 r2).
  { unfold vmap; cbn [vx vy vz]. rewrite !renorm_unit by assumption. reflexivity. }
  unfold adjust_raw, adjust_cols, adjust_divzero, adj_c1pre. rewrite Erows.
  remember (transpose (mkV r0 r1 r2)) as cols eqn:Ecols.
  destruct cols as [c0 c1 c2].
  destruct Hc as (G00 & G11 & G22 & G01 & G12 & G20). cbn [vx vy vz] in *.
  change (dot c0 c0) with (norm2 c0) in G00. change (dot c1 c1) with (norm2 c1) in G11.
  change (dot c2 c2) with (norm2 c2) in G22.
  rewrite !mag2_norm2, !scal_dot, !G00, !G01.
  assert (Ec1 : vdiff RS (rescale RS 1 c1) (rescale RS 0 c0) = c1).
  { destruct c0, c1. unfold vdiff, rescale; rs. f_equal; ring. }
  rewrite !Ec1. rewrite !(renorm_unit c1 G11), !(renorm_unit c0 G00).
  rewrite !vect_cross, !Hx.
  set (d := det (mkV c0 c1 c2)) in *.
  assert (Hn : norm2 (vscale d c2) = 1) by (rewrite norm2_vscale, G22; lra).
  rewrite !(renorm_unit _ Hn).
  split.
  - match goal with |- context [mkV c0 c1 ?t] => assert (Ec2 : t = c2) end.
    { assert (Es : scal RS (vscale d c2) c2 = d).
      { destruct c2 as [x y z]. unfold scal, vscale; rs. unfold norm2, dot in G22; rs.
        replace (d * x * x + d * y * y + d * z * z) with (d * (x * x + y * y + z * z)) by ring. rewrite G22. ring. }
      rewrite Es. rs.
      assert (Hd' : d = 1 \/ d = -1).
      { assert (E : (d - 1) * (d + 1) = 0) by (ring_simplify; lra).
        apply Rmult_integral in E. destruct E; [left | right]; lra. }
      destruct Hd' as [Hd' | Hd']; rewrite Hd'.
      - destruct (Rltb 0 1) eqn:E; [| apply Rltb_false in E; lra].
        destruct c2. unfold vscale; rs. f_equal; ring.
      - destruct (Rltb 0 (-1)) eqn:E; [apply Rltb_true in E; lra |].
        destruct c2. unfold vscale, rescale; rs. f_equal; ring. }
    rewrite Ec2.
    assert (Eclip : vmap (vmap (clip RS)) (mkV c0 c1 c2) = mkV c0 c1 c2).
    { destruct r0 as [b1 b2 b3], r1 as [b4 b5 b6], r2 as [b7 b8 b9].
      unfold transpose in Ecols; cbn [vx vy vz] in Ecols. injection Ecols as -> -> ->.
      destruct Hclip as ((K1 & K2 & K3) & (K4 & K5 & K6) & (K7 & K8 & K9)). cbn [vx vy vz] in *.
      unfold vmap; cbn [vx vy vz]. rewrite !clip_id by assumption. reflexivity. }
    rewrite Eclip. rewrite Ecols. destruct r0, r1, r2. reflexivity.
  - rewrite !isz_mag_unit by assumption. reflexivity.
Qed.

Theorem adjust_matrix_fixpoint : forall m : M3 R,
  rows_orthonormal m -> clip_ok_m m -> adjust_matrix RS (mlist m) = Ok (mlist m).
Proof.
  intros m Hm Hc. destruct (adjust_raw_fix m Hm Hc) as [E1 E2].
  unfold adjust_matrix.
  assert (E : of_list9 (mlist m) = Some m) by (destruct m as [[? ? ?] [? ? ?] [? ? ?]]; reflexivity).
  rewrite E, E2, E1. reflexivity.
Qed.

(* ---------- normalize_matrix ---------- *)
Definition somev (v : R3) : V3 (option R) := vmap Some v.
Definition none3 : V3 (option R) := mkV None None None.

(* the three cyclic arrangements of a right-handed orthonormal triple *)
Lemma rot3 a b : norm2 a = 1 -> norm2 b = 1 -> dot a b = 0 ->
  rotation (mkV a b (cross a b)) /\ rotation (mkV (cross a b) a b) /\ rotation (mkV b (cross a b) a).
Proof.
  destruct a as [a1 a2 a3], b as [b1 b2 b3]. unfold rotation, rows_orthonormal, det, norm2, dot, cross; rs.
  intros Ha Hb Hab. repeat split; nsatz.
Qed.

Lemma place3_cases (P : nat -> Prop) : P 0%nat -> P 1%nat -> P 2%nat -> forall i, (i < 3)%nat -> P i.
Proof. intros H0 H1 H2 i Hi. destruct i as [|[|[|i]]]; auto. exfalso. lia. Qed.

(* normalize_matrix on nine explicit entries *)
Lemma nm_full9 (o1 o2 o3 o4 o5 o6 o7 o8 o9 : option R) :
  normalize_matrix RS [o1; o2; o3; o4; o5; o6; o7; o8; o9] =
  let l := [o1; o2; o3; o4; o5; o6; o7; o8; o9] in
  let m := mkV (mkV o1 o2 o3) (mkV o4 o5 o6) (mkV o7 o8 o9) in
  let n := count_some l in
  if Nat.eqb n 9 then values l
  else if Nat.eqb n 0 then Ok (ident9 RS)
  else if Nat.eqb n 5 then rmap mlist (nm5 RS m)
  else if Nat.eqb n 3 then
         if rowwise m then rmap mlist (nm3 RS m)
         else rmap (fun x => mlist (transpose x)) (nm3 RS (transpose m))
  else if Nat.eqb n 6 then
         if rowwise m then rmap mlist (nm6 RS m)
         else rmap (fun x => mlist (transpose x)) (nm6 RS (transpose m))
  else Err ETransformation.
Proof.
  unfold normalize_matrix. cbn [List.length Nat.sub repeat]. rewrite app_nil_r. cbn [of_list9]. reflexivity.
Qed.

(* 9 entries: returned as they are *)
Theorem normalize_matrix_9 : forall b : M3 R, normalize_matrix RS (map Some (mlist b)) = Ok (mlist b).
Proof.
  intros [[b1 b2 b3] [b4 b5 b6] [b7 b8 b9]]. cbn [mlist vlist vx vy vz app map].
  rewrite nm_full9. cbv zeta. cbn [count_some filter is_some List.length Nat.eqb values rmap]. reflexivity.
Qed.

(* no entry at all: the identity *)
Theorem normalize_matrix_0 : normalize_matrix RS [] = Ok (mlist (idm RS)) /\ rotation (idm RS).
Proof.
  split; [reflexivity|]. unfold rotation, rows_orthonormal, det, cross, dot, idm, ex, ey, ez; rs. repeat split; ring.
Qed.

(* 6 entries, two rows (at positions i+1, i+2 mod 3): the missing row is their
   cross product; proper rotation reproducing the twelve... six supplied entries *)
Theorem normalize_matrix_6_rows : forall (i : nat) (r0 r1 : R3), (i < 3)%nat ->
  norm2 r0 = 1 -> norm2 r1 = 1 -> dot r0 r1 = 0 ->
  let pat := place3 i none3 (somev r0) (somev r1) in
  exists b, normalize_matrix RS (mlist pat) = Ok (mlist b) /\ rotation b /\ agrees pat b.
Proof.
  intros i r0 r1 Hi H0 H1 H01. destruct (rot3 r0 r1 H0 H1 H01) as (Ra & Rb & Rc).
  revert i Hi. apply place3_cases; cbv zeta.
  - exists (mkV (cross r0 r1) r0 r1). split; [| split; [exact Rb|]].
    + destruct r0 as [a1 a2 a3], r1 as [c1 c2 c3]. cbv [place3 none3 somev vmap mlist vlist vx vy vz app]. rewrite nm_full9. cbv zeta.
      cbn [count_some filter is_some List.length Nat.eqb rowwise vx vy vz andb orb negb nm6 first_idx nxt vget all_some rmap
           place3 mlist vlist app].
      rewrite vect_cross. reflexivity.
    + destruct r0 as [a1 a2 a3], r1 as [c1 c2 c3]. unfold agrees, agree3, agree1; cbn [place3 none3 somev vmap vx vy vz cross]. tauto.
  - exists (mkV r1 (cross r0 r1) r0). split; [| split; [exact Rc|]].
    + destruct r0 as [a1 a2 a3], r1 as [c1 c2 c3]. cbv [place3 none3 somev vmap mlist vlist vx vy vz app]. rewrite nm_full9. cbv zeta.
      cbn [count_some filter is_some List.length Nat.eqb rowwise vx vy vz andb orb negb nm6 first_idx nxt vget all_some rmap
           place3 mlist vlist app].
      rewrite vect_cross. reflexivity.
    + destruct r0 as [a1 a2 a3], r1 as [c1 c2 c3]. unfold agrees, agree3, agree1; cbn [place3 none3 somev vmap vx vy vz cross]. tauto.
  - exists (mkV r0 r1 (cross r0 r1)). split; [| split; [exact Ra|]].
    + destruct r0 as [a1 a2 a3], r1 as [c1 c2 c3]. cbv [place3 none3 somev vmap mlist vlist vx vy vz app]. rewrite nm_full9. cbv zeta.
      cbn [count_some filter is_some List.length Nat.eqb rowwise vx vy vz andb orb negb nm6 first_idx nxt vget all_some rmap
           place3 mlist vlist app].
      rewrite vect_cross. reflexivity.
    + destruct r0 as [a1 a2 a3], r1 as [c1 c2 c3]. unfold agrees, agree3, agree1; cbn [place3 none3 somev vmap vx vy vz cross]. tauto.
Qed.

Lemma rotation_transpose b : rotation b -> rotation (transpose b).
Proof. intros [H D]. split; [apply cols_orthonormal, H | rewrite det_transpose; exact D]. Qed.

Lemma agrees_transpose m b : agrees m b -> agrees (transpose m) (transpose b).
Proof.
  destruct m as [[m1 m2 m3] [m4 m5 m6] [m7 m8 m9]], b as [[b1 b2 b3] [b4 b5 b6] [b7 b8 b9]].
  unfold agrees, agree3, transpose; cbn [vx vy vz]. tauto.
Qed.

(* 6 entries, two columns: the same through transposition *)
Theorem normalize_matrix_6_cols : forall (i : nat) (c0 c1 : R3), (i < 3)%nat ->
  norm2 c0 = 1 -> norm2 c1 = 1 -> dot c0 c1 = 0 ->
  let pat := transpose (place3 i none3 (somev c0) (somev c1)) in
  exists b, normalize_matrix RS (mlist pat) = Ok (mlist b) /\ rotation b /\ agrees pat b.
Proof.
  intros i c0 c1 Hi H0 H1 H01. destruct (rot3 c0 c1 H0 H1 H01) as (Ra & Rb & Rc).
  revert i Hi. apply place3_cases; cbv zeta.
  - exists (transpose (mkV (cross c0 c1) c0 c1)). split; [| split; [apply rotation_transpose; exact Rb|]].
    + destruct c0 as [a1 a2 a3], c1 as [d1 d2 d3]. cbv [place3 none3 somev vmap mlist vlist vx vy vz app transpose].
      rewrite nm_full9. cbv zeta.
      cbn [count_some filter is_some List.length Nat.eqb rowwise vx vy vz andb orb negb nm6 first_idx nxt vget all_some rmap
           place3 mlist vlist app transpose].
      rewrite vect_cross. reflexivity.
    + apply agrees_transpose. destruct c0 as [a1 a2 a3], c1 as [d1 d2 d3]. unfold agrees, agree3, agree1; cbn [place3 none3 somev vmap vx vy vz cross]. tauto.
  - exists (transpose (mkV c1 (cross c0 c1) c0)). split; [| split; [apply rotation_transpose; exact Rc|]].
    + destruct c0 as [a1 a2 a3], c1 as [d1 d2 d3]. cbv [place3 none3 somev vmap mlist vlist vx vy vz app transpose].
      rewrite nm_full9. cbv zeta.
      cbn [count_some filter is_some List.length Nat.eqb rowwise vx vy vz andb orb negb nm6 first_idx nxt vget all_some rmap
           place3 mlist vlist app transpose].
      rewrite vect_cross. reflexivity.
    + apply agrees_transpose. destruct c0 as [a1 a2 a3], c1 as [d1 d2 d3]. unfold agrees, agree3, agree1; cbn [place3 none3 somev vmap vx vy vz cross]. tauto.
  - exists (transpose (mkV c0 c1 (cross c0 c1))). split; [| split; [apply rotation_transpose; exact Ra|]].
    + destruct c0 as [a1 a2 a3], c1 as [d1 d2 d3]. cbv [place3 none3 somev vmap mlist vlist vx vy vz app transpose].
      rewrite nm_full9. cbv zeta.
      cbn [count_some filter is_some List.length Nat.eqb rowwise vx vy vz andb orb negb nm6 first_idx nxt vget all_some rmap
           place3 mlist vlist app transpose].
      rewrite vect_cross. reflexivity.
    + apply agrees_transpose. destruct c0 as [a1 a2 a3], c1 as [d1 d2 d3]. unfold agrees, agree3, agree1; cbn [place3 none3 somev vmap vx vy vz cross]. tauto.
Qed.

(* ---------- three entries: one row (or column) ---------- *)
Lemma renorm_pos v : 0 < norm2 v ->
  isz RS (mag RS v) = false /\ norm2 (renorm RS v) = 1 /\ (forall a, dot a v = 0 -> dot a (renorm RS v) = 0).
Proof.
  intros Hp. set (s := sqrt (norm2 v)).
  assert (Hs : 0 < s) by (apply sqrt_lt_R0; exact Hp).
  assert (Hss : s * s = norm2 v) by (apply sqrt_sqrt; lra).
  assert (Em : mag RS v = s) by reflexivity.
  split; [| split].
  - rewrite Em. unfold isz; rs. apply Reqb_false. lra.
  - unfold renorm, renorm_to. rewrite Em. destruct v as [x y z]. unfold norm2, dot, rescale in *; rs.
    replace (1 / s * x * (1 / s * x) + 1 / s * y * (1 / s * y) + 1 / s * z * (1 / s * z))
      with ((x * x + y * y + z * z) / (s * s)) by (field; lra).
    rewrite Hss. field. lra.
  - intros a Ha. unfold renorm, renorm_to. rewrite Em. destruct v as [x y z], a as [a1 a2 a3].
    unfold dot, rescale in *; rs.
    replace (a1 * (1 / s * x) + a2 * (1 / s * y) + a3 * (1 / s * z)) with ((a1 * x + a2 * y + a3 * z) / s) by (field; lra).
    rewrite Ha. field. lra.
Qed.

(* the helper vector and the Gram-Schmidt remainder of normalize_matrix3 *)
Definition nm3_e2 (r : R3) : R3 := if sltb RS (c999 RS) (sabs RS (scal RS r (ex RS))) then ey RS else ex RS.
Definition nm3_w (r : R3) : R3 := vdiff RS (nm3_e2 r) (renorm_to RS (scal RS (nm3_e2 r) r) r).

Lemma nm3_w_ok r : norm2 r = 1 -> 0 < norm2 (nm3_w r) /\ dot r (nm3_w r) = 0.
Proof.
  intros Hu. unfold nm3_w, nm3_e2, renorm_to. rewrite (mag_unit r Hu).
  destruct r as [x y z]. unfold norm2, dot in Hu; rs.
  unfold scal, ex, ey, c999; rs.
  destruct (Rltb (999 / 1000) (Rabs (x * 1 + y * 0 + z * 0))) eqn:E; [apply Rltb_true in E | apply Rltb_false in E];
    replace (x * 1 + y * 0 + z * 0) with x in E by ring;
    unfold vdiff, rescale, norm2, dot; rs.
  - assert (Hxx : 998 / 1000 < x * x).
    { unfold Rabs in E. destruct (Rcase_abs x); nra. }
    split.
    + replace ((0 - (0 * x + 1 * y + 0 * z) / 1 * x) * (0 - (0 * x + 1 * y + 0 * z) / 1 * x)
               + (1 - (0 * x + 1 * y + 0 * z) / 1 * y) * (1 - (0 * x + 1 * y + 0 * z) / 1 * y)
               + (0 - (0 * x + 1 * y + 0 * z) / 1 * z) * (0 - (0 * x + 1 * y + 0 * z) / 1 * z))
        with (1 - 2 * (y * y) + y * y * (x * x + y * y + z * z)) by field.
      rewrite Hu. nra.
    + replace (x * (0 - (0 * x + 1 * y + 0 * z) / 1 * x) + y * (1 - (0 * x + 1 * y + 0 * z) / 1 * y)
               + z * (0 - (0 * x + 1 * y + 0 * z) / 1 * z))
        with (y - y * (x * x + y * y + z * z)) by field.
      rewrite Hu. ring.
  - assert (Hxx : x * x < 1).
    { unfold Rabs in E. destruct (Rcase_abs x); nra. }
    split.
    + replace ((1 - (1 * x + 0 * y + 0 * z) / 1 * x) * (1 - (1 * x + 0 * y + 0 * z) / 1 * x)
               + (0 - (1 * x + 0 * y + 0 * z) / 1 * y) * (0 - (1 * x + 0 * y + 0 * z) / 1 * y)
               + (0 - (1 * x + 0 * y + 0 * z) / 1 * z) * (0 - (1 * x + 0 * y + 0 * z) / 1 * z))
        with (1 - 2 * (x * x) + x * x * (x * x + y * y + z * z)) by field.
      rewrite Hu. nra.
    + replace (x * (1 - (1 * x + 0 * y + 0 * z) / 1 * x) + y * (0 - (1 * x + 0 * y + 0 * z) / 1 * y)
               + z * (0 - (1 * x + 0 * y + 0 * z) / 1 * z))
        with (x - x * (x * x + y * y + z * z)) by field.
      rewrite Hu. ring.
Qed.

Lemma nm3_unfold (m : M3 (option R)) i1 row1 :
  first_idx (fun r => is_some (vx r)) m = Some i1 -> all_some (vget i1 m) = Some row1 ->
  nm3 RS m = if isz RS (mag RS row1) || isz RS (mag RS (nm3_w row1)) then Err EZeroDiv
             else Ok (place3 i1 row1 (renorm RS (nm3_w row1)) (vect RS row1 (renorm RS (nm3_w row1)))).
Proof. intros H1 H2. unfold nm3. rewrite H1, H2. reflexivity. Qed.

Lemma nm3_row r i : (i < 3)%nat -> norm2 r = 1 ->
  nm3 RS (place3 i (somev r) none3 none3)
  = Ok (place3 i r (renorm RS (nm3_w r)) (vect RS r (renorm RS (nm3_w r)))).
Proof.
  intros Hi Hu. destruct (nm3_w_ok r Hu) as [Hp Ho].
  destruct (renorm_pos _ Hp) as (Hz & _ & _).
  assert (Hg : isz RS (mag RS r) || isz RS (mag RS (nm3_w r)) = false)
    by (rewrite (isz_mag_unit r Hu), Hz; reflexivity).
  revert i Hi. apply place3_cases.
  - rewrite (nm3_unfold _ 0%nat r); [rewrite Hg; reflexivity | reflexivity | destruct r; reflexivity].
  - rewrite (nm3_unfold _ 1%nat r); [rewrite Hg; reflexivity | reflexivity | destruct r; reflexivity].
  - rewrite (nm3_unfold _ 2%nat r); [rewrite Hg; reflexivity | reflexivity | destruct r; reflexivity].
Qed.

Theorem normalize_matrix_3_rows : forall (i : nat) (r : R3), (i < 3)%nat ->
  norm2 r = 1 ->
  let pat := place3 i (somev r) none3 none3 in
  exists b, normalize_matrix RS (mlist pat) = Ok (mlist b) /\ rotation b /\ agrees pat b.
Proof.
  intros i r Hi Hu.
  destruct (nm3_w_ok r Hu) as [Hp Ho]. destruct (renorm_pos _ Hp) as (_ & Hn & Hd).
  specialize (Hd r Ho).
  destruct (rot3 r (renorm RS (nm3_w r)) Hu Hn Hd) as (Ra & Rb & Rc).
  pose proof (nm3_row r) as Hrow.
  set (r2 := renorm RS (nm3_w r)) in *.
  revert i Hi. apply place3_cases; cbv zeta.
  - specialize (Hrow 0%nat ltac:(lia) Hu). exists (mkV r r2 (cross r r2)). split; [| split; [exact Ra|]].
    + destruct r as [x y z]. cbv [place3 none3 somev vmap mlist vlist vx vy vz app] in Hrow |- *.
      rewrite nm_full9. cbv zeta.
      cbn [count_some filter is_some List.length Nat.eqb rowwise vx vy vz andb orb negb].
      rewrite Hrow. rewrite vect_cross. reflexivity.
    + destruct r as [x y z]. unfold agrees, agree3, agree1; cbn [place3 none3 somev vmap vx vy vz]. tauto.
  - specialize (Hrow 1%nat ltac:(lia) Hu). exists (mkV (cross r r2) r r2). split; [| split; [exact Rb|]].
    + destruct r as [x y z]. cbv [place3 none3 somev vmap mlist vlist vx vy vz app] in Hrow |- *.
      rewrite nm_full9. cbv zeta.
      cbn [count_some filter is_some List.length Nat.eqb rowwise vx vy vz andb orb negb].
      rewrite Hrow. rewrite vect_cross. reflexivity.
    + destruct r as [x y z]. unfold agrees, agree3, agree1; cbn [place3 none3 somev vmap vx vy vz]. tauto.
  - specialize (Hrow 2%nat ltac:(lia) Hu). exists (mkV r2 (cross r r2) r). split; [| split; [exact Rc|]].
    + destruct r as [x y z]. cbv [place3 none3 somev vmap mlist vlist vx vy vz app] in Hrow |- *.
      rewrite nm_full9. cbv zeta.
      cbn [count_some filter is_some List.length Nat.eqb rowwise vx vy vz andb orb negb].
      rewrite Hrow. rewrite vect_cross. reflexivity.
    + destruct r as [x y z]. unfold agrees, agree3, agree1; cbn [place3 none3 somev vmap vx vy vz]. tauto.
Qed.

(* one column: the same through transposition *)
Lemma nm3_cols_eq i (c : R3) : (i < 3)%nat ->
  normalize_matrix RS (mlist (transpose (place3 i (somev c) none3 none3)))
  = rmap (fun x => mlist (transpose x)) (nm3 RS (place3 i (somev c) none3 none3)).
Proof.
  revert i; apply place3_cases; destruct c as [x y z];
    cbv [place3 none3 somev vmap mlist vlist vx vy vz app transpose]; rewrite nm_full9; cbv zeta;
    cbn [count_some filter is_some List.length Nat.eqb rowwise vx vy vz andb orb negb];
    cbv [mlist vlist app transpose vx vy vz]; reflexivity.
Qed.

Theorem normalize_matrix_3_cols : forall (i : nat) (c : R3), (i < 3)%nat ->
  norm2 c = 1 ->
  let pat := transpose (place3 i (somev c) none3 none3) in
  exists b, normalize_matrix RS (mlist pat) = Ok (mlist b) /\ rotation b /\ agrees pat b.
Proof.
  intros i r Hi Hu.
  destruct (nm3_w_ok r Hu) as [Hp Ho]. destruct (renorm_pos _ Hp) as (_ & Hn & Hd).
  specialize (Hd r Ho).
  destruct (rot3 r (renorm RS (nm3_w r)) Hu Hn Hd) as (Ra & Rb & Rc).
  pose proof (nm3_row r) as Hrow.
  set (r2 := renorm RS (nm3_w r)) in *.
  revert i Hi. apply place3_cases; cbv zeta.
  - exists (transpose (mkV r r2 (cross r r2))).
    split; [| split; [apply rotation_transpose; exact Ra|]].
    + rewrite nm3_cols_eq by lia. rewrite Hrow by (lia || assumption). cbn [rmap place3]. rewrite vect_cross. reflexivity.
    + apply agrees_transpose. destruct r as [x y z]. unfold agrees, agree3, agree1; cbn [place3 none3 somev vmap vx vy vz]. tauto.
  - exists (transpose (mkV (cross r r2) r r2)).
    split; [| split; [apply rotation_transpose; exact Rb|]].
    + rewrite nm3_cols_eq by lia. rewrite Hrow by (lia || assumption). cbn [rmap place3]. rewrite vect_cross. reflexivity.
    + apply agrees_transpose. destruct r as [x y z]. unfold agrees, agree3, agree1; cbn [place3 none3 somev vmap vx vy vz]. tauto.
  - exists (transpose (mkV r2 (cross r r2) r)).
    split; [| split; [apply rotation_transpose; exact Rc|]].
    + rewrite nm3_cols_eq by lia. rewrite Hrow by (lia || assumption). cbn [rmap place3]. rewrite vect_cross. reflexivity.
    + apply agrees_transpose. destruct r as [x y z]. unfold agrees, agree3, agree1; cbn [place3 none3 somev vmap vx vy vz]. tauto.
Qed.

