(* C04 — executable comparison functions used by the generated correspondence
   files: the model at binary64 against values observed on the implementation. *)
From Coq Require Import List NArith ZArith Bool PrimFloat.
From T4V Require Import Base.Scalar Base.Cases C04.Vec C04.Model.
Import ListNotations.

Definition err_eqb (a b : err) : bool :=
  match a, b with
  | ETransformation, ETransformation | EType, EType | EStop, EStop | EValue, EValue
  | EIndex, EIndex | EKey, EKey | EZeroDiv, EZeroDiv => true
  | _, _ => false
  end.

Definition res_eqb {A} (e : A -> A -> bool) (a b : res A) : bool :=
  match a, b with
  | Ok x, Ok y => e x y
  | Err x, Err y => err_eqb x y
  | _, _ => false
  end.

Definition fl_eqb : list float -> list float -> bool := list_eqb f_close9.

Definition t4kind_eqb (a b : t4kind) : bool :=
  match a, b with
  | PLANEX, PLANEX | PLANEY, PLANEY | PLANEZ, PLANEZ | PLANE, PLANE | SPHERE, SPHERE
  | CYLX, CYLX | CYLY, CYLY | CYLZ, CYLZ | CYL, CYL | CONEX, CONEX | CONEY, CONEY
  | CONEZ, CONEZ | CONE, CONE | QUAD, QUAD | TORUSX, TORUSX | TORUSY, TORUSY
  | TORUSZ, TORUSZ => true
  | _, _ => false
  end.

Definition t4tr_eqb (a b : V3 float * M3 float) : bool :=
  fl_eqb (vlist (fst a) ++ mlist (snd a)) (vlist (fst b) ++ mlist (snd b)).

Definition t4surf_eqb (a b : t4surf float) : bool :=
  t4kind_eqb (tk a) (tk b) && fl_eqb (tprm a) (tprm b) && option_eqb t4tr_eqb (ttr a) (ttr b).

Definition coll_eqb : list (t4surf float * Z) -> list (t4surf float * Z) -> bool :=
  list_eqb (pair_eqb t4surf_eqb Z.eqb).

(* (a) one TR card: star flag, expanded entries (None = J), and what
   get_mcnp_transforms made of it *)
Definition check_trcard (c : bool * list (option float) * res (list float)) : bool :=
  let '(star, pl, expected) := c in res_eqb fl_eqb (tr_card FS star pl) expected.

(* (b) normalize_matrix on a pattern, (c) adjust_matrix on nine numbers *)
Definition check_nm (c : list (option float) * res (list float)) : bool :=
  res_eqb fl_eqb (normalize_matrix FS (fst c)) (snd c).
Definition check_adjust (c : list float * res (list float)) : bool :=
  res_eqb fl_eqb (adjust_matrix FS (fst c)) (snd c).

(* (d) a frame-form surface moved by a 12-number transformation (or []) and
   converted: kinds and sides exactly, numbers at 1e-9 *)
Definition check_surf (c : list float * msurf float * res (list (t4surf float * Z))) : bool :=
  let '(tr, s, expected) := c in res_eqb coll_eqb (tr_convert FS tr s) expected.

(* transformation alone (frame or quadric coefficients) *)
Definition msurf_eqb (a b : msurf float) : bool :=
  fl_eqb (vlist (mpt a) ++ vlist (maxis a) ++ mcp a) (vlist (mpt b) ++ vlist (maxis b) ++ mcp b)
  && option_eqb Z.eqb (mnap a) (mnap b).
Definition check_transf (c : list float * msurf float * res (msurf float)) : bool :=
  let '(tr, s, expected) := c in res_eqb msurf_eqb (transformation FS tr s) expected.

(* (e) parse_trcl_kw / parse_fill_kw *)
Definition check_trcl (c : bool * list float * list (Z * list float) * Z * res (list float)) : bool :=
  let '(star, entries, trs, trid, expected) := c in
  res_eqb fl_eqb (parse_trcl FS star entries trs trid) expected.
Definition check_fill (c : bool * list float * list (Z * list float) * Z * res (list float)) : bool :=
  let '(star, entries, trs, trid, expected) := c in
  res_eqb fl_eqb (parse_fill_tr FS star entries trs trid) expected.

(* (f) extract_tr_surf_ids - defined surfaces, as a set *)
Definition subsetb (a b : list Z) : bool := forallb (fun x => zmem x b) a.
Definition check_implicit_ids (c : list Z * list Z * list Z) : bool :=
  let '(refs, defined, expected) := c in
  let got := implicit_ids refs defined in
  subsetb got expected && subsetb expected got && Nat.eqb (List.length got) (List.length expected).

(* (g) to_cos, compose_transform *)
Definition check_tocos (c : float * float) : bool := f_close9 (to_cos FS (fst c)) (snd c).
Definition check_compose (c : list float * list float * list float) : bool :=
  let '(t1, t2, expected) := c in
  match compose_transform FS t1 t2 with Some l => fl_eqb l expected | None => false end.

(* (h) develop_lattice: filltr of the cell, its TRCL list, translation of the
   element, filltr given to the element *)
Definition check_lattice_filltr (c : list float * list (list float) * V3 float * list float) : bool :=
  let '(filltr, trcls, transl, expected) := c in
  match lattice_filltr FS filltr trcls transl with Some l => fl_eqb l expected | None => false end.

(* call-site condition of compose_transform: the second argument is a pure
   translation (matrix exactly the identity) *)
Definition check_second_is_translation (t2 : list float) : bool :=
  match t2 with
  | _ :: _ :: _ :: m => list_eqb PrimFloat.eqb m [1; 0; 0; 0; 1; 0; 0; 0; 1]%float
  | _ => false
  end.

(* (i) apply_trcl / pot_transform on a cell expression *)
Definition gop_eqb (a b : gop) : bool := match a, b with GInter, GInter | GUnion, GUnion => true | _, _ => false end.
Fixpoint gtree_eqb (a b : gtree) : bool :=
  match a, b with
  | GSurf x, GSurf y | GCell x, GCell y | GCompl x, GCompl y => Z.eqb x y
  | GOp o1 l1, GOp o2 l2 =>
      gop_eqb o1 o2 &&
      (fix go (l1 l2 : list gtree) : bool :=
         match l1, l2 with
         | [], [] => true
         | x :: r, y :: s => gtree_eqb x y && go r s
         | _, _ => false
         end) l1 l2
  | _, _ => false
  end.
Definition mkind_eqb (a b : mkind) : bool :=
  match a, b with
  | KP, KP | KS, KS | KC, KC | KK, KK | KT, KT | KSQ, KSQ | KGQ, KGQ => true
  | _, _ => false
  end.
Definition entry_eqb : list (msurf float * Z) -> list (msurf float * Z) -> bool :=
  list_eqb (pair_eqb (fun a b => mkind_eqb (mk a) (mk b) && msurf_eqb a b) Z.eqb).
Definition check_pot (c : list (list float) * gtree * Z * list (Z * list (msurf float * Z))
                         * (gtree * Z * list (Z * list (msurf float * Z)))) : bool :=
  let '(trs, t, k0, tb, (t', k1, news)) := c in
  match apply_trcl FS trs t (k0, tb) with
  | Ok (t2, (k2, tb2)) =>
      gtree_eqb t2 t' && Z.eqb k2 k1
      && list_eqb (pair_eqb Z.eqb entry_eqb) (firstn (List.length news) tb2) news
  | Err _ => false
  end.

(* (j) convert_mcnp_surface on a dictionary entry *)
Definition check_entry (c : list (msurf float * Z) * res (list (t4surf float * Z))) : bool :=
  res_eqb coll_eqb (convert_entry FS (fst c)) (snd c).

(* (k) direct calls: Transformation.normalize_transform, Transformation.transform_vector *)
Definition check_nt (c : list (option float) * res (list float)) : bool :=
  res_eqb fl_eqb (normalize_transform FS (fst c)) (snd c).
Definition check_affine (c : list float * V3 float * V3 float) : bool :=
  let '(tr, v, expected) := c in
  match apply_affine FS tr v with Some w => fl_eqb (vlist w) (vlist expected) | None => false end.
