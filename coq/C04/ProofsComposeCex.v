(* C04 — compose_transform is NOT the composition of MCNP point maps in general. *)
From Coq Require Import List ZArith Bool Reals Lra Lia Field.
From T4V Require Import Base.Scalar C04.Vec C04.Model C04.Spec C04.ProofsFrame C04.ProofsCompose.
Import ListNotations.
Open Scope R_scope.

Ltac rs := cbn [sadd ssub smul sdiv sneg sabs ssqrt s0 s1 sofZ spi scos ssin satan RS
                sltb sleb seqb vx vy vz nth] in *.

(* the condition cannot be dropped: two quarter turns about different axes *)
Theorem compose_not_mcnp_composition_in_general :
  exists o1 b1 o2 b2 o b p,
    rotation b1 /\ rotation b2 /\
    compose_transform RS (tr12 o1 b1) (tr12 o2 b2) = Some (tr12 o b) /\
    to_main o b p <> to_main o2 b2 (to_main o1 b1 p).
Proof.
  exists (mkV 0 0 0), (mkV (mkV 0 1 0) (mkV (-1) 0 0) (mkV 0 0 1)),
         (mkV 0 0 0), (mkV (mkV 1 0 0) (mkV 0 0 1) (mkV 0 (-1) 0)).
  eexists _, _, (mkV 1 0 0).
  split; [| split; [| split; [apply compose_tr12|]]].
  - unfold rotation, rows_orthonormal, det, cross, dot; cbn [vx vy vz]. repeat split; ring.
  - unfold rotation, rows_orthonormal, det, cross, dot; cbn [vx vy vz]. repeat split; ring.
  - unfold to_main, mvec, mmul, mmul3, vplus, vscale, dot, transpose, vmap, scal; rs.
    intros H. injection H as H1 H2 H3. lra.
Qed.

