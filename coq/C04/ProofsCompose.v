(* C04 — compose_transform: which composition of point maps it computes.
   A 12-number transformation t = (O, B) is used by the converter in two
   readings:
     affine reading   aff t p = B p + O      (Transformation.transform_vector, the docstring)
     MCNP reading     pm  t p = O + B^T p    (transformation(): to_main, what moves surfaces)
   compose_transform t1 t2 is the composition in the affine reading, always.
   In the MCNP reading it is the composition  pm t2 o pm t1  exactly when
   B2 B1 = B1 B2 and B2 O1 = B2^T O1; in particular whenever t2 is a pure
   translation, which is what both call sites (develop_lattice) pass. *)
From Coq Require Import List ZArith Bool Reals Lra Lia Field Nsatz.
From T4V Require Import Base.Scalar C04.Vec C04.Model C04.Spec C04.ProofsFrame.
Import ListNotations.
Open Scope R_scope.

Ltac rs := cbn [sadd ssub smul sdiv sneg sabs ssqrt s0 s1 sofZ spi scos ssin satan RS
                sltb sleb seqb vx vy vz List.nth] in *.

Definition tr12 (o : R3) (b : M3 R) : list R := vlist o ++ mlist b.

(* B p (rows applied) and the affine reading *)
Definition mvec (b : M3 R) (p : R3) : R3 := mkV (dot (vx b) p) (dot (vy b) p) (dot (vz b) p).
Definition aff (o : R3) (b : M3 R) (p : R3) : R3 := vplus (mvec b p) o.
(* matrix product (rows of a) x b *)
Definition mmul (a b : M3 R) : M3 R := mmul3 RS a b.

Lemma tr_parts_tr12 o b : tr_parts (tr12 o b) = Some (o, b).
Proof. destruct o as [o1 o2 o3], b as [[b1 b2 b3] [b4 b5 b6] [b7 b8 b9]]. reflexivity. Qed.

Lemma compose_tr12 o1 b1 o2 b2 :
  compose_transform RS (tr12 o1 b1) (tr12 o2 b2) = Some (tr12 (vplus (mvec b2 o1) o2) (mmul b2 b1)).
Proof. unfold compose_transform. rewrite !tr_parts_tr12. reflexivity. Qed.

(* 1. the affine reading: always the composition (t1 first) *)
Theorem compose_affine : forall o1 b1 o2 b2 p,
  exists o b, compose_transform RS (tr12 o1 b1) (tr12 o2 b2) = Some (tr12 o b) /\
              aff o b p = aff o2 b2 (aff o1 b1 p).
Proof.
  intros o1 b1 o2 b2 p. eexists _, _. split; [apply compose_tr12|].
  destruct o1 as [x1 x2 x3], o2 as [y1 y2 y3], p as [p1 p2 p3],
           b1 as [[a1 a2 a3] [a4 a5 a6] [a7 a8 a9]], b2 as [[c1 c2 c3] [c4 c5 c6] [c7 c8 c9]].
  unfold aff, mvec, mmul, mmul3, vplus, dot, transpose, vmap, scal; rs. f_equal; ring.
Qed.

(* 2. the MCNP reading: exact condition *)
Definition commute_cond (o1 : R3) (b1 b2 : M3 R) : Prop :=
  mmul b2 b1 = mmul b1 b2 /\ mvec b2 o1 = tvec b2 o1.

Theorem compose_mcnp_iff : forall o1 b1 o2 b2,
  exists o b, compose_transform RS (tr12 o1 b1) (tr12 o2 b2) = Some (tr12 o b) /\
    ((forall p, to_main o b p = to_main o2 b2 (to_main o1 b1 p)) <-> commute_cond o1 b1 b2).
Proof.
  intros o1 b1 o2 b2. eexists _, _. split; [apply compose_tr12|].
  destruct o1 as [x1 x2 x3], o2 as [y1 y2 y3],
           b1 as [[a1 a2 a3] [a4 a5 a6] [a7 a8 a9]], b2 as [[c1 c2 c3] [c4 c5 c6] [c7 c8 c9]].
  unfold commute_cond, to_main, mvec, tvec, mmul, mmul3, vplus, vscale, dot, transpose, vmap, scal; rs.
  split.
  - intros H.
    pose proof (H (mkV 0 0 0)) as H0. pose proof (H (mkV 1 0 0)) as Hx.
    pose proof (H (mkV 0 1 0)) as Hy. pose proof (H (mkV 0 0 1)) as Hz.
    cbn [vx vy vz] in H0, Hx, Hy, Hz.
    injection H0 as H01 H02 H03. injection Hx as Hx1 Hx2 Hx3.
    injection Hy as Hy1 Hy2 Hy3. injection Hz as Hz1 Hz2 Hz3.
    split; f_equal; try (f_equal; lra); lra.
  - intros [Hm Hv] [p1 p2 p3]. cbn [vx vy vz].
    injection Hm as M1 M2 M3 M4 M5 M6 M7 M8 M9. injection Hv as V1 V2 V3.
    pose proof (f_equal (Rmult p1) M1) as A1. pose proof (f_equal (Rmult p1) M2) as A2.
    pose proof (f_equal (Rmult p1) M3) as A3. pose proof (f_equal (Rmult p2) M4) as A4.
    pose proof (f_equal (Rmult p2) M5) as A5. pose proof (f_equal (Rmult p2) M6) as A6.
    pose proof (f_equal (Rmult p3) M7) as A7. pose proof (f_equal (Rmult p3) M8) as A8.
    pose proof (f_equal (Rmult p3) M9) as A9.
    f_equal; lra.
Qed.

Definition idR : M3 R := idm RS.

(* 3. the second transformation is a pure translation: the condition holds,
   the result is (O1 + O2, B1) and its MCNP point map is "t1, then translate" *)
Theorem compose_translation_second : forall o1 b1 o2,
  compose_transform RS (tr12 o1 b1) (tr12 o2 idR) = Some (tr12 (vplus (mvec idR o1) o2) (mmul idR b1)) /\
  commute_cond o1 b1 idR /\
  forall p, to_main (vplus (mvec idR o1) o2) (mmul idR b1) p = vplus o2 (to_main o1 b1 p).
Proof.
  intros o1 b1 o2. split; [apply compose_tr12|].
  destruct o1 as [x1 x2 x3], o2 as [y1 y2 y3], b1 as [[a1 a2 a3] [a4 a5 a6] [a7 a8 a9]].
  unfold commute_cond, idR, idm, ex, ey, ez, to_main, mvec, tvec, mmul, mmul3, vplus, vscale, dot, transpose, vmap, scal; rs.
  split; [split; f_equal; try f_equal; ring|].
  intros [p1 p2 p3]; cbn [vx vy vz]. f_equal; ring.
Qed.

(* 4. the call sites: CellConversion.develop_lattice (the only caller) *)
Definition translate (d p : R3) : R3 := vplus d p.

Lemma lattice_trnsf transl : vlist transl ++ ident9 RS = tr12 transl idR.
Proof. destruct transl; reflexivity. Qed.

(* (i) cell with its own fill transformation (O,B) (a82b50a): the filler is moved
   by the fill transformation, then translated to the lattice element *)
Theorem lattice_filltr_fill : forall (o : R3) (b : M3 R) trcls (transl : R3),
  exists o' b', lattice_filltr RS (tr12 o b) trcls transl = Some (tr12 o' b') /\
    forall p, to_main o' b' p = translate transl (to_main o b p).
Proof.
  intros o b trcls transl.
  destruct (compose_translation_second o b transl) as (E & _ & Hp).
  eexists _, _. split; [| exact Hp].
  unfold lattice_filltr. rewrite lattice_trnsf.
  destruct o as [o1 o2 o3], b as [[b1 b2 b3] [b4 b5 b6] [b7 b8 b9]]. exact E.
Qed.

(* (ii) no fill transformation, TRCL list as the parser builds it (empty or one
   transformation): translation alone, resp. TRCL then translation *)
Theorem lattice_filltr_trcl : forall (o : R3) (b : M3 R) (transl : R3),
  lattice_filltr RS [] [] transl = Some (tr12 transl idR) /\
  (forall p, to_main transl idR p = translate transl p) /\
  exists o' b', lattice_filltr RS [] [tr12 o b] transl = Some (tr12 o' b') /\
    forall p, to_main o' b' p = translate transl (to_main o b p).
Proof.
  intros o b transl. split; [| split].
  - unfold lattice_filltr. cbn [fold_left]. rewrite lattice_trnsf. reflexivity.
  - intros [p1 p2 p3]. destruct transl as [t1 t2 t3].
    unfold to_main, translate, idR, idm, ex, ey, ez, vplus, vscale; rs. f_equal; ring.
  - destruct (compose_translation_second o b transl) as (E & _ & Hp).
    eexists _, _. split; [| exact Hp].
    unfold lattice_filltr. cbn [fold_left]. rewrite lattice_trnsf. exact E.
Qed.
