(* C04 — trailing J placeholders left out, and the error branches of the
   transformation path (which Python exception, for which shape of input). *)
From Coq Require Import List ZArith Bool Reals Lra Lia.
From T4V Require Import Base.Scalar C04.Vec C04.Model C04.Spec C04.ProofsFrame C04.ProofsMatrix.
Import ListNotations.
Open Scope R_scope.

Lemma count_some_app (a b : list (option R)) : count_some (a ++ b) = (count_some a + count_some b)%nat.
Proof. unfold count_some. rewrite filter_app, app_length. reflexivity. Qed.
Lemma count_some_none k : count_some (repeat (@None R) k) = 0%nat.
Proof. induction k; [reflexivity | exact IHk]. Qed.
Lemma count_some_le (l : list (option R)) : (count_some l <= List.length l)%nat.
Proof. unfold count_some. induction l as [|[x|] l IH]; cbn [filter is_some List.length]; lia. Qed.

(* trailing J entries may be left out: the matrix list is padded to nine *)
Theorem normalize_matrix_trailing : forall l : list (option R), (List.length l <= 9)%nat ->
  normalize_matrix RS l = normalize_matrix RS (l ++ repeat None (9 - List.length l)).
Proof.
  intros l Hl. unfold normalize_matrix.
  set (pad := repeat None (9 - List.length l)).
  assert (Elen : List.length (l ++ pad) = 9%nat) by (unfold pad; rewrite app_length, repeat_length; lia).
  rewrite Elen. cbn [Nat.sub repeat]. rewrite app_nil_r.
  destruct (Nat.eqb (count_some (l ++ pad)) 9) eqn:E9; [| reflexivity].
  (* nine supplied entries: nothing was padded *)
  apply Nat.eqb_eq in E9. unfold pad in E9. rewrite count_some_app, count_some_none in E9.
  pose proof (count_some_le l) as Hc.
  assert (E0 : (9 - List.length l = 0)%nat) by lia. unfold pad. rewrite E0. cbn [repeat]. rewrite app_nil_r. reflexivity.
Qed.

(* a number of supplied entries other than 0, 3, 5, 6, 9: TransformationError *)
Theorem normalize_matrix_bad_count : forall l : list (option R), (List.length l <= 9)%nat ->
  let n := count_some (l ++ repeat None (9 - List.length l)) in
  n <> 0%nat -> n <> 3%nat -> n <> 5%nat -> n <> 6%nat -> n <> 9%nat ->
  normalize_matrix RS l = Err ETransformation.
Proof.
  intros l Hl n H0 H3 H5 H6 H9. unfold normalize_matrix. fold n.
  assert (Elen : List.length (l ++ repeat None (9 - List.length l)) = 9%nat)
    by (rewrite app_length, repeat_length; lia).
  destruct (l ++ repeat None (9 - List.length l)) as [|a1 [|a2 [|a3 [|a4 [|a5 [|a6 [|a7 [|a8 [|a9 [|a10 r]]]]]]]]]] eqn:El;
    try discriminate. cbn [of_list9].
  repeat match goal with |- context [Nat.eqb n ?k] =>
    let E := fresh in destruct (Nat.eqb n k) eqn:E; [apply Nat.eqb_eq in E; congruence|] end.
  reflexivity.
Qed.

(* five entries without a complete row (or column): StopIteration *)
Theorem normalize_matrix_5_irregular : forall m : M3 (option R),
  count_some (mlist m) = 5%nat ->
  first_idx (fun r => is_some (all_some r)) m = None \/
  first_idx (fun r => is_some (all_some r)) (transpose m) = None ->
  normalize_matrix RS (mlist m) = Err EStop.
Proof.
  intros [[m1 m2 m3] [m4 m5 m6] [m7 m8 m9]] Hc Hn. cbv [mlist vlist vx vy vz app] in Hc |- *.
  rewrite nm_full9. cbv zeta. rewrite Hc. cbn [Nat.eqb rmap]. unfold nm5.
  destruct Hn as [Hn | Hn].
  - rewrite Hn. reflexivity.
  - rewrite Hn. match goal with |- context [match ?x with Some _ => _ | None => _ end] => destruct x end; reflexivity.
Qed.

(* a J among the three displacement entries of a 12-entry card: TypeError *)
Theorem normalize_transform_J_displacement : forall (b : M3 R) (o1 o2 o3 : option R),
  rows_orthonormal b -> clip_ok_m b -> (o1 = None \/ o2 = None \/ o3 = None) ->
  normalize_transform RS ([o1; o2; o3] ++ map Some (mlist b)) = Err EType.
Proof.
  intros b o1 o2 o3 Hb Hc Hn.
  pose proof (normalize_matrix_9 b) as E9. pose proof (adjust_matrix_fixpoint b Hb Hc) as Ea.
  destruct b as [[b1 b2 b3] [b4 b5 b6] [b7 b8 b9]].
  cbv [mlist vlist vx vy vz app map] in E9, Ea |- *.
  unfold normalize_transform. cbn [List.length Nat.eqb andb firstn skipn].
  rewrite E9. cbn [bind]. rewrite Ea. cbn [bind].
  destruct o1 as [x1|]; [| reflexivity]. destruct o2 as [x2|]; [| reflexivity].
  destruct o3 as [x3|]; [| reflexivity]. destruct Hn as [H | [H | H]]; discriminate.
Qed.

(* a transformation list that is neither empty nor twelve numbers long, applied
   to a frame surface: ValueError (tuple unpacking in MIP's transform_vector) *)
Theorem transformation_bad_length : forall (tr : list R) (s : msurf R),
  frame_kind (mk s) = true -> tr <> [] -> List.length tr <> 12%nat ->
  transformation RS tr s = Err EValue.
Proof.
  intros tr s Hk Hne Hl. unfold transformation. destruct tr as [|t1 tr]; [congruence|].
  assert (Hp : tr_parts (t1 :: tr) = None).
  { unfold tr_parts. destruct tr as [|t2 [|t3 rest]]; try reflexivity.
    destruct rest as [|a1 [|a2 [|a3 [|a4 [|a5 [|a6 [|a7 [|a8 [|a9 [|a10 r]]]]]]]]]]; try reflexivity.
    cbn [List.length] in Hl. congruence. }
  rewrite Hp. destruct (mk s); try discriminate; reflexivity.
Qed.

(* ... and to a quadric with fewer than twelve numbers: IndexError *)
Theorem transformation_quadric_short : forall (tr : list R) (s : msurf R),
  (mk s = KGQ \/ mk s = KSQ) -> tr <> [] -> (List.length tr < 12)%nat ->
  transformation RS tr s = Err EIndex.
Proof.
  intros tr s Hk Hne Hl. unfold transformation. destruct tr as [|t1 tr]; [congruence|].
  assert (E : Nat.ltb (List.length (t1 :: tr)) 12 = true) by (apply Nat.ltb_lt; exact Hl).
  destruct Hk as [-> | ->]; rewrite E; [| rewrite orb_true_r]; reflexivity.
Qed.
