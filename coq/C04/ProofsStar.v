(* C04 — starred and abbreviated cards at card level; perturbation of the plane offset. *)
From Coq Require Import List ZArith Bool Reals Lra Lia.
From T4V Require Import Base.Scalar C04.Vec C04.Model C04.Spec C04.ProofsFrame C04.ProofsMatrix
  C04.ProofsCard C04.ProofsCompose C04.ProofsAdjust C04.ProofsExact.
Import ListNotations.
Open Scope R_scope.

Ltac rs := cbn [sadd ssub smul sdiv sneg sabs ssqrt s0 s1 sofZ spi scos ssin satan RS
                sltb sleb seqb vx vy vz nth] in *.

(* ---------- starred cards: the unstarred card of the cosines ---------- *)
Definition cos_entries (pl : list (option R)) : list (option R) :=
  firstn 3 pl ++ map (option_map (to_cos RS)) (firstn 9 (skipn 3 pl)) ++ skipn 12 pl.

Lemma cos_entries_length pl : List.length (cos_entries pl) = List.length pl.
Proof.
  unfold cos_entries. rewrite !app_length, map_length, !firstn_length, !skipn_length. lia.
Qed.

(* a *TR card (other than the 3-entry form) is the TR card whose matrix entries
   are the cosines of the supplied angles; J stays J, displacement and m untouched *)
Theorem tr_card_star_is_cos : forall pl : list (option R), List.length pl <> 3%nat ->
  tr_card RS true pl = tr_card RS false (cos_entries pl).
Proof.
  intros pl Hl. unfold tr_card, mip_normalize.
  assert (E1 : Nat.eqb (List.length pl) 3 = false) by (apply Nat.eqb_neq; exact Hl).
  assert (E2 : Nat.eqb (List.length (cos_entries pl)) 3 = false) by (rewrite cos_entries_length; exact E1).
  rewrite E1, E2. reflexivity.
Qed.

(* ---------- abbreviated matrices at card level ---------- *)
Lemma firstn_skipn_card (o : R3) (m : list (option R)) : List.length m = 9%nat ->
  firstn 9 (skipn 3 (map Some (vlist o) ++ m)) = m /\ firstn 3 (map Some (vlist o) ++ m) = map Some (vlist o).
Proof.
  intros H. destruct o as [o1 o2 o3].
  do 9 (destruct m as [|? m]; [discriminate|]). destruct m; [|discriminate]. split; reflexivity.
Qed.

(* whatever abbreviated pattern (J = None) completes to an orthonormal matrix b
   without entries below the clip: the card gives displacement + b *)
Theorem normalize_transform_abbrev : forall (o : R3) (pat : M3 (option R)) (b : M3 R),
  normalize_matrix RS (mlist pat) = Ok (mlist b) -> rows_orthonormal b -> clip_ok_m b ->
  normalize_transform RS (map Some (vlist o) ++ mlist pat) = Ok (vlist o ++ mlist b) /\
  tr_card RS false (map Some (vlist o) ++ mlist pat) = Ok (vlist o ++ mlist b).
Proof.
  intros o pat b Hn Hb Hc. pose proof (adjust_matrix_fixpoint b Hb Hc) as Ea.
  destruct o as [o1 o2 o3], pat as [[p1 p2 p3] [p4 p5 p6] [p7 p8 p9]], b as [[b1 b2 b3] [b4 b5 b6] [b7 b8 b9]].
  cbv [mlist vlist vx vy vz app map] in Hn, Ea |- *.
  assert (E : normalize_transform RS [Some o1; Some o2; Some o3; p1; p2; p3; p4; p5; p6; p7; p8; p9]
              = Ok [o1; o2; o3; b1; b2; b3; b4; b5; b6; b7; b8; b9]).
  { unfold normalize_transform. cbn [List.length Nat.eqb andb firstn skipn].
    rewrite Hn. cbn [bind]. rewrite Ea. cbn [bind values rmap app]. reflexivity. }
  split; [exact E|]. unfold tr_card, mip_normalize. cbn [List.length Nat.eqb]. exact E.
Qed.

(* the same for a starred card whose angles have the pattern's cosines *)
Theorem tr_card_star_abbrev : forall (o : R3) (ang : M3 (option R)) (b : M3 R),
  let pat := vmap (vmap (option_map (to_cos RS))) ang in
  normalize_matrix RS (mlist pat) = Ok (mlist b) -> rows_orthonormal b -> clip_ok_m b ->
  tr_card RS true (map Some (vlist o) ++ mlist ang) = Ok (vlist o ++ mlist b).
Proof.
  intros o ang b pat Hn Hb Hc.
  assert (Hl : List.length (map Some (vlist o) ++ mlist ang) <> 3%nat).
  { rewrite app_length. destruct o, ang as [[? ? ?] [? ? ?] [? ? ?]]. cbn. lia. }
  rewrite tr_card_star_is_cos by exact Hl.
  assert (Ec : cos_entries (map Some (vlist o) ++ mlist ang) = map Some (vlist o) ++ mlist pat).
  { destruct o as [o1 o2 o3], ang as [[a1 a2 a3] [a4 a5 a6] [a7 a8 a9]]. reflexivity. }
  rewrite Ec. apply (normalize_transform_abbrev o pat b Hn Hb Hc).
Qed.

(* ---------- derived coefficients: the plane offset ---------- *)
Lemma Rabs_le_l1_x v : Rabs (vx v) <= l1 v.
Proof. unfold l1. pose proof (Rabs_pos (vy v)). pose proof (Rabs_pos (vz v)). lra. Qed.

(* a dot product of two perturbed vectors *)
Lemma dot_perturbation (a b c d : R3) (e1 e2 : R) :
  Rabs (vx a - vx c) <= e1 -> Rabs (vy a - vy c) <= e1 -> Rabs (vz a - vz c) <= e1 ->
  Rabs (vx b - vx d) <= e2 -> Rabs (vy b - vy d) <= e2 -> Rabs (vz b - vz d) <= e2 ->
  Rabs (dot a b - dot c d) <= e1 * l1 b + e2 * l1 c.
Proof.
  destruct a as [a1 a2 a3], b as [b1 b2 b3], c as [c1 c2 c3], d as [d1 d2 d3]. unfold dot, l1; cbn [vx vy vz].
  intros A1 A2 A3 B1 B2 B3.
  replace (a1 * b1 + a2 * b2 + a3 * b3 - (c1 * d1 + c2 * d2 + c3 * d3))
    with ((a1 - c1) * b1 + (a2 - c2) * b2 + (a3 - c3) * b3 + (c1 * (b1 - d1) + c2 * (b2 - d2) + c3 * (b3 - d3))) by ring.
  eapply Rle_trans; [apply Rabs_triang|].
  apply Rplus_le_compat.
  - eapply Rle_trans; [apply Rabs_triang|]. eapply Rle_trans; [apply Rplus_le_compat_r, Rabs_triang|].
    rewrite !Rabs_mult.
    pose proof (Rabs_pos b1). pose proof (Rabs_pos b2). pose proof (Rabs_pos b3).
    pose proof (Rabs_pos (a1 - c1)). pose proof (Rabs_pos (a2 - c2)). pose proof (Rabs_pos (a3 - c3)). nra.
  - eapply Rle_trans; [apply Rabs_triang|]. eapply Rle_trans; [apply Rplus_le_compat_r, Rabs_triang|].
    rewrite !Rabs_mult.
    pose proof (Rabs_pos c1). pose proof (Rabs_pos c2). pose proof (Rabs_pos c3).
    pose proof (Rabs_pos (b1 - d1)). pose proof (Rabs_pos (b2 - d2)). pose proof (Rabs_pos (b3 - d3)). nra.
Qed.

(* the offset of the written PLANE (4th coefficient; PLANEX/Y/Z write -pos/u_k)
   of a plane (point pt, normal n) moved by two matrices entrywise within 1e-10:
   explicit bound in terms of the card's numbers and the moved frame *)
Theorem plane_offset_perturbation : forall (b q : M3 R) (o pt n : R3) cp nap,
  close_m b q ->
  let sb := mkMS KP (to_main o b pt) (tvec b n) cp nap in
  let sq := mkMS KP (to_main o q pt) (tvec q n) cp nap in
  Rabs (neg_pos RS sb - neg_pos RS sq)
  <= eps10 * l1 n * l1 (to_main o b pt) + eps10 * l1 pt * l1 (tvec q n).
Proof.
  intros b q o pt n cp nap Hc sb sq.
  destruct (frame_perturbation b q o n Hc) as (U1 & U2 & U3 & _).
  destruct (frame_perturbation b q o pt Hc) as (_ & _ & _ & P1 & P2 & P3).
  assert (E : forall s, neg_pos RS s = - dot (maxis s) (mpt s)).
  { intros s. unfold neg_pos, dot; rs. ring. }
  rewrite !E. unfold sb, sq; cbn [maxis mpt].
  replace (- dot (tvec b n) (to_main o b pt) - - dot (tvec q n) (to_main o q pt))
    with (- (dot (tvec b n) (to_main o b pt) - dot (tvec q n) (to_main o q pt))) by ring.
  rewrite Rabs_Ropp.
  eapply Rle_trans; [apply (dot_perturbation _ _ _ _ (eps10 * l1 n) (eps10 * l1 pt)); assumption|]. lra.
Qed.
