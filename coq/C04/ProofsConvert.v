(* C04 — (B) the re-classification of a frame by convert_plane / sphere /
   cylinder / cone: whatever the frame (axis-aligned or general, axis pointing
   either way), the emitted TRIPOLI-4 surface(s) have the MCNP sense of the
   frame form at every point of the main system. *)
From Coq Require Import List ZArith Bool Reals Lra Field.
From T4V Require Import Base.Scalar C04.Vec C04.Model C04.Spec C04.ProofsFrame.
Import ListNotations.
Open Scope R_scope.

Ltac rs := cbn [sadd ssub smul sdiv sneg sabs ssqrt s0 s1 sofZ spi scos ssin satan RS
                sltb sleb seqb vx vy vz nth] in *.

Ltac case_if :=
  match goal with
  | |- context [if ?c then _ else _] => let E := fresh "E" in destruct c eqn:E
  end.

Ltac bool_props :=
  repeat match goal with
  | H : andb _ _ = true |- _ => apply andb_true_iff in H; destruct H
  | H : isz RS _ = true |- _ => unfold isz in H; rs; apply Reqb_true in H
  | H : isz RS _ = false |- _ => unfold isz in H; rs; apply Reqb_false in H
  | H : Reqb _ _ = true |- _ => apply Reqb_true in H
  | H : Reqb _ _ = false |- _ => apply Reqb_false in H
  | H : Rltb _ _ = true |- _ => apply Rltb_true in H
  | H : Rltb _ _ = false |- _ => apply Rltb_false in H
  | H : Rleb _ _ = true |- _ => apply Rleb_true in H
  | H : Rleb _ _ = false |- _ => apply Rleb_false in H
  end.

Lemma same_sense_refl a : same_sense a a.
Proof. exists 1. split; [lra | ring]. Qed.

(* ---------- plane ---------- *)
Lemma convert_plane_correct pt u cp nap (P : R3) :
  let s := mkMS KP pt u cp nap in
  exists c, convert RS s = Ok [(c, 1%Z)] /\ same_sense (t4val c P) (msense s P).
Proof.
  destruct pt as [p1 p2 p3], u as [u1 u2 u3], P as [x y z]. cbv zeta.
  unfold convert, convert_plane, neg_pos; cbn [mk mpt maxis rmap]; rs.
  repeat case_if; eexists; (split; [reflexivity|]); bool_props; subst;
    unfold t4val, t4base, msense, dot, vminus, plain; cbn [ttr tk tprm mk mpt maxis]; rs.
  - exists (/ u3). split; [apply Rinv_0_lt_compat; assumption | field; lra].
  - exists (/ u1). split; [apply Rinv_0_lt_compat; assumption | field; lra].
  - exists (/ u2). split; [apply Rinv_0_lt_compat; assumption | field; lra].
  - exists 1. split; [lra | ring].
Qed.

(* ---------- sphere ---------- *)
Lemma convert_sphere_correct pt u r rest nap (P : R3) :
  let s := mkMS KS pt u (r :: rest) nap in
  exists c, convert RS s = Ok [(c, 1%Z)] /\ t4val c P = msense s P.
Proof.
  destruct pt as [p1 p2 p3], P as [x y z]. cbv zeta.
  eexists; split; [reflexivity|].
  unfold t4val, t4base, msense, norm2, dot, vminus, plain; cbn [ttr tk tprm mk mpt maxis mcp]; rs. ring.
Qed.

(* ---------- cylinder ---------- *)
Lemma unit_axis_z (u3 : R) : 0 * 0 + 0 * 0 + u3 * u3 = 1 -> u3 * u3 = 1.
Proof. intros; lra. Qed.

Lemma convert_cylinder_correct pt u r rest nap (P : R3) :
  norm2 u = 1 ->
  let s := mkMS KC pt u (r :: rest) nap in
  exists c, convert RS s = Ok [(c, 1%Z)] /\ t4val c P = msense s P.
Proof.
  destruct pt as [p1 p2 p3], u as [u1 u2 u3], P as [x y z]. intros Hu. cbv zeta.
  unfold convert, convert_cylinder; cbn [mk mpt maxis mcp rmap]; rs.
  unfold norm2, dot in Hu; rs.
  repeat case_if; eexists; (split; [reflexivity|]); bool_props; subst;
    unfold t4val, t4base, msense, perp2, axial, norm2, dot, vminus, plain;
    cbn [ttr tk tprm mk mpt maxis mcp]; rs.
  - assert (H3 : u3 * u3 = 1) by lra.
    replace ((x - p1) * 0 + (y - p2) * 0 + (z - p3) * u3) with ((z - p3) * u3) by ring.
    replace ((z - p3) * u3 * ((z - p3) * u3)) with ((z - p3) * (z - p3) * (u3 * u3)) by ring.
    rewrite H3; ring.
  - assert (H1 : u1 * u1 = 1) by lra.
    replace ((x - p1) * u1 + (y - p2) * 0 + (z - p3) * 0) with ((x - p1) * u1) by ring.
    replace ((x - p1) * u1 * ((x - p1) * u1)) with ((x - p1) * (x - p1) * (u1 * u1)) by ring.
    rewrite H1; ring.
  - assert (H2 : u2 * u2 = 1) by lra.
    replace ((x - p1) * 0 + (y - p2) * u2 + (z - p3) * 0) with ((y - p2) * u2) by ring.
    replace ((y - p2) * u2 * ((y - p2) * u2)) with ((y - p2) * (y - p2) * (u2 * u2)) by ring.
    rewrite H2; ring.
  - rewrite Hu. field.
Qed.

(* ---------- cone ---------- *)
Lemma theta_back a : 180 * a / PI * PI / 180 = a.
Proof. field. apply PI_neq0. Qed.

Lemma cone_part_value apex u c0 a rest nap (P : R3) :
  norm2 u = 1 ->
  let s := mkMS KK apex u (c0 :: a :: rest) nap in
  t4val (cone_part RS s a) P = msense s P.
Proof.
  destruct apex as [p1 p2 p3], u as [u1 u2 u3], P as [x y z]. intros Hu. cbv zeta.
  unfold cone_part; cbn [mk mpt maxis mcp]; rs.
  unfold norm2, dot in Hu; rs.
  repeat case_if; bool_props; subst;
    unfold t4val, t4base, msense, perp2, axial, norm2, dot, vminus, plain;
    cbn [ttr tk tprm mk mpt maxis mcp]; rs; rewrite theta_back.
  - assert (H3 : u3 * u3 = 1) by lra.
    replace ((x - p1) * 0 + (y - p2) * 0 + (z - p3) * u3) with ((z - p3) * u3) by ring.
    replace ((z - p3) * u3 * ((z - p3) * u3)) with ((z - p3) * (z - p3) * (u3 * u3)) by ring.
    rewrite H3; ring.
  - assert (H1 : u1 * u1 = 1) by lra.
    replace ((x - p1) * u1 + (y - p2) * 0 + (z - p3) * 0) with ((x - p1) * u1) by ring.
    replace ((x - p1) * u1 * ((x - p1) * u1)) with ((x - p1) * (x - p1) * (u1 * u1)) by ring.
    rewrite H1; ring.
  - assert (H2 : u2 * u2 = 1) by lra.
    replace ((x - p1) * 0 + (y - p2) * u2 + (z - p3) * 0) with ((y - p2) * u2) by ring.
    replace ((y - p2) * u2 * ((y - p2) * u2)) with ((y - p2) * (y - p2) * (u2 * u2)) by ring.
    rewrite H2; ring.
  - rewrite Hu. field.
Qed.

Lemma sq1_cases (v : R) : v * v = 1 -> v = 1 \/ v = -1.
Proof.
  intros H. assert (E : (v - 1) * (v + 1) = 0) by (ring_simplify; lra).
  apply Rmult_integral in E. destruct E; [left | right]; lra.
Qed.

(* the auxiliary plane: (its side) * (its value) = - n * (axial coordinate) *)
Lemma sheet_plane_value apex u cp nap n (P : R3) :
  norm2 u = 1 ->
  let s := mkMS KK apex u cp nap in
  IZR (snd (sheet_plane RS s n)) * t4val (fst (sheet_plane RS s n)) P = - (IZR n * axial apex u P).
Proof.
  destruct apex as [p1 p2 p3], u as [u1 u2 u3], P as [x y z]. intros Hu. cbv zeta.
  unfold sheet_plane, neg_pos; cbn [mk mpt maxis mcp]; rs.
  unfold norm2, dot in Hu; rs.
  repeat case_if; bool_props; subst; cbn [fst snd];
    unfold t4val, t4base, axial, dot, vminus, plain; cbn [ttr tk tprm]; rs;
    rewrite ?opp_IZR.
  - assert (H3 : u3 = 1 \/ u3 = -1) by (apply sq1_cases; lra). destruct H3; subst; [field | lra].
  - assert (H3 : u3 = 1 \/ u3 = -1) by (apply sq1_cases; lra). destruct H3; subst; [lra | field].
  - assert (H1 : u1 = 1 \/ u1 = -1) by (apply sq1_cases; lra). destruct H1; subst; [field | lra].
  - assert (H1 : u1 = 1 \/ u1 = -1) by (apply sq1_cases; lra). destruct H1; subst; [lra | field].
  - assert (H2 : u2 = 1 \/ u2 = -1) by (apply sq1_cases; lra). destruct H2; subst; [field | lra].
  - assert (H2 : u2 = 1 \/ u2 = -1) by (apply sq1_cases; lra). destruct H2; subst; [lra | field].
  - ring.
Qed.

Lemma convert_cone_correct apex u c0 a rest nap (P : R3) :
  norm2 u = 1 ->
  (nap = None \/ nap = Some 0%Z \/ nap = Some 1%Z \/ nap = Some (-1)%Z) ->
  let s := mkMS KK apex u (c0 :: a :: rest) nap in
  exists coll, convert RS s = Ok coll /\
    (mneg s P <-> coll_neg coll P) /\ (mpos s P <-> coll_pos coll P).
Proof.
  intros Hu Hn s.
  pose proof (cone_part_value apex u c0 a rest nap P Hu) as E1. cbv zeta in E1. fold s in E1.
  assert (two : forall sd, sd = None \/ sd = Some 0%Z -> nap = sd ->
            (mneg s P <-> coll_neg [(cone_part RS s a, 1%Z)] P) /\
            (mpos s P <-> coll_pos [(cone_part RS s a, 1%Z)] P)).
  { intros sd Hsd Hnap. unfold mneg, mpos, coll_neg, coll_pos.
    assert (Z0 : sheet_of s = 0%Z) by (unfold sheet_of, s; cbn [mk mnap]; destruct Hsd; subst sd; rewrite Hnap; reflexivity).
    rewrite Z0. rewrite Forall_cons_iff, Forall_nil_iff, Exists_cons, Exists_nil. cbn [fst snd]. rewrite E1.
    split.
    - split; [intros [H _]; split; [lra | exact I] | intros [H _]; split; [lra | left; reflexivity]].
    - split; [intros [H | [H _]]; [left; lra | congruence] | intros [H | []]; left; lra]. }
  assert (one : forall n, (n = 1 \/ n = -1)%Z -> nap = Some n ->
            (mneg s P <-> coll_neg [(cone_part RS s a, 1%Z); sheet_plane RS s n] P) /\
            (mpos s P <-> coll_pos [(cone_part RS s a, 1%Z); sheet_plane RS s n] P)).
  { intros n Hn1 Hnap. unfold mneg, mpos, coll_neg, coll_pos.
    pose proof (sheet_plane_value apex u (c0 :: a :: rest) nap n P Hu) as E2. cbv zeta in E2. fold s in E2.
    assert (Zn : sheet_of s = n) by (unfold sheet_of, s; cbn [mk mnap]; rewrite Hnap; reflexivity).
    rewrite Zn. cbn [mpt maxis s].
    assert (Hn0 : (n <> 0)%Z) by (destruct Hn1 as [Hn1 | Hn1]; rewrite Hn1; discriminate).
    rewrite !Forall_cons_iff, Forall_nil_iff, !Exists_cons, Exists_nil. cbn [fst snd]. rewrite E1, E2.
    split.
    - split.
      + intros [H [H0 | H0]]; [congruence|]. repeat split; lra.
      + intros (H1 & H2 & _). split; [lra | right; lra].
    - split.
      + intros [H' | [_ H']]; [left; lra | right; left; lra].
      + intros [H' | [H' | []]]; [left; lra | right; split; [assumption | lra]]. }
  assert (Ec : convert RS s =
               match nap with
               | None => Ok [(cone_part RS s a, 1%Z)]
               | Some 0%Z => Ok [(cone_part RS s a, 1%Z)]
               | Some n => Ok [(cone_part RS s a, 1%Z); sheet_plane RS s n]
               end) by reflexivity.
  rewrite Ec.
  destruct Hn as [Hn | [Hn | [Hn | Hn]]]; rewrite Hn.
  - eexists; split; [reflexivity|]. apply (two None); auto.
  - eexists; split; [reflexivity|]. apply (two (Some 0%Z)); auto.
  - eexists; split; [reflexivity|]. apply (one 1%Z); auto.
  - eexists; split; [reflexivity|]. apply (one (-1)%Z); auto.
Qed.
