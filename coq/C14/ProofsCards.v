(* C14 — proofs about get_cards: which physical lines make up a card. *)
From Coq Require Import List NArith Bool String Ascii Lia PeanoNat.
From T4V Require Import Base.Str C14.Model C14.ProofsContent.
Import ListNotations.
Open Scope string_scope.

Definition comment_lines (cm : list string) : Prop := Forall (fun x => is_comment x = true) cm.

(* a card on physical lines: each of its lines with the comment lines standing before it *)
Definition pcard := list (list string * string).
Definition pc_lines (c : pcard) : list string := map snd c.
Definition pc_phys (c : pcard) : list string := flat_map (fun p => (fst p ++ [snd p])%list) c.

(* continuation lines after the (non-comment) line [prev] *)
Fixpoint conts_ok (prev : string) (c : pcard) : Prop :=
  match c with
  | [] => True
  | p :: r => comment_lines (fst p) /\ is_comment (snd p) = false /\
              is_cont (snd p) prev = true /\ conts_ok (snd p) r
  end.

Definition last_line (prev : string) (c : pcard) : string := last (pc_lines c) prev.

(* the cards of a block; [prev] = last non-comment line before them ("" at the start) *)
Fixpoint block_ok (prev : string) (cs : list pcard) : Prop :=
  match cs with
  | [] => True
  | [] :: _ => False
  | (p :: r) :: more =>
      comment_lines (fst p) /\ is_comment (snd p) = false /\ is_cont (snd p) prev = false /\
      conts_ok (snd p) r /\ block_ok (last_line (snd p) r) more
  end.

Lemma cards_from_cons prev l r :
  cards_from prev (l :: r) =
  if is_comment l then cards_from prev r
  else let (cur, cs) := cards_from l r in
       if is_cont l prev then (l :: cur, cs) else ([], (l :: cur) :: cs).
Proof. reflexivity. Qed.

Lemma skip_comments prev cm R : comment_lines cm -> cards_from prev (cm ++ R)%list = cards_from prev R.
Proof.
  induction 1 as [|x cm Hx _ IH]; [reflexivity|].
  cbn [app]. now rewrite cards_from_cons, Hx.
Qed.

Lemma last_cons {A} (x : A) xs d : last (x :: xs) d = last xs x.
Proof.
  revert x d. induction xs as [|y xs IH]; intros x d; [reflexivity|].
  change (last (x :: y :: xs) d) with (last (y :: xs) d). now rewrite !IH.
Qed.

Lemma conts_cards prev c R :
  conts_ok prev c ->
  cards_from prev (pc_phys c ++ R)%list =
  (pc_lines c ++ fst (cards_from (last_line prev c) R), snd (cards_from (last_line prev c) R))%list.
Proof.
  revert prev. induction c as [|p r IH]; intros prev H.
  - simpl. unfold last_line. simpl. now destruct (cards_from prev R).
  - destruct H as (Hc & Hn & Hk & Hr). unfold pc_phys. cbn [flat_map]. fold (pc_phys r).
    rewrite <- !app_assoc. rewrite (skip_comments _ _ _ Hc). cbn [app].
    rewrite cards_from_cons, Hn, (IH _ Hr), Hk.
    unfold last_line, pc_lines. cbn [map]. now rewrite last_cons.
Qed.

Lemma block_cards_from prev cs tailc :
  block_ok prev cs -> comment_lines tailc ->
  cards_from prev (flat_map pc_phys cs ++ tailc)%list = ([], map pc_lines cs).
Proof.
  intros H Ht. revert prev H. induction cs as [|c more IH]; intros prev H.
  - simpl. rewrite <- (app_nil_r tailc). now rewrite skip_comments.
  - destruct c as [|p r]; [contradiction|]. destruct H as (Hc & Hn & Hk & Hr & Hm).
    cbn [flat_map]. unfold pc_phys at 1. cbn [flat_map]. fold (pc_phys r).
    rewrite <- !app_assoc. rewrite (skip_comments _ _ _ Hc). cbn [app].
    rewrite cards_from_cons, Hn, (conts_cards _ _ _ Hr), (IH _ Hm), Hk. cbn [fst snd].
    now rewrite app_nil_r.
Qed.

(* get_cards(skipcomments=True): the cards are exactly the non-comment lines,
   grouped as laid out; comment lines between and inside cards disappear *)
Theorem cards_grouping cs tailc :
  block_ok "" cs -> comment_lines tailc ->
  get_cards_lines (flat_map pc_phys cs ++ tailc)%list = map pc_lines cs.
Proof.
  intros H Ht. unfold get_cards_lines. now rewrite (block_cards_from _ _ _ H Ht).
Qed.

(* ---- the conditions, computed on laid-out lines ---- *)

(* amp_cont looks at the trailer only *)
Lemma amp_scan_clean a tr : has_trailer a = false -> amp_scan (a ++ tr) false = amp_scan tr false.
Proof.
  induction a as [|c a IH]; simpl; intros H; [reflexivity|].
  apply orb_false_iff in H. destruct H as [Hc Ha]. unfold is_trailer_start in Hc.
  apply orb_false_iff in Hc. destruct Hc as [H1 H2]. rewrite H1, H2.
  destruct (is_ws c); now apply IH.
Qed.

Lemma amp_cont_line l : line_ok l -> amp_cont (line_text l) = amp_scan (p_trailer l) false.
Proof. intros H. unfold amp_cont, line_text. apply amp_scan_clean. now apply body_no_trailer. Qed.

Lemma amp_scan_ws g st r : all_chars is_ws g = true -> amp_scan (g ++ r) st = amp_scan r st.
Proof.
  induction g as [|c g IH]; simpl; intros H; [reflexivity|].
  apply andb_true_iff in H. destruct H as [H1 H2].
  pose proof (ws_not_trailer c H1) as Hn. unfold is_trailer_start in Hn.
  apply orb_false_iff in Hn. destruct Hn as [Ha Hb]. now rewrite Ha, Hb, H1, IH.
Qed.

(* the three kinds of trailer *)
Lemma amp_trailer_continues g r :
  all_chars is_ws g = true -> (r = "" \/ exists q, r = String "$" q) ->
  amp_scan (String "&" (g ++ r)) false = true.
Proof.
  intros Hg Hr. cbn. rewrite (amp_scan_ws _ _ _ Hg). destruct Hr as [->|[q ->]]; reflexivity.
Qed.

Lemma dollar_trailer_stops q : amp_scan (String "$" q) false = false.
Proof. reflexivity. Qed.

Lemma no_trailer_stops : amp_scan "" false = false.
Proof. reflexivity. Qed.

(* continuation by leading blanks: evaluation of has5 *)
Lemma has5_blanks n r : 5 <= n -> has5 (spaces n ++ r) = true.
Proof.
  intros H. do 5 (destruct n as [|n]; [lia|]). reflexivity.
Qed.

Lemma has5_tab k r : k < 8 -> has5 (spaces k ++ String tab r) = true.
Proof.
  intros H. do 8 (destruct n as [|n] || destruct k as [|k]; [reflexivity|]). lia.
Qed.

Lemma nows_not_tab c : is_ws c = false -> ceq c tab = false.
Proof.
  destruct c as [[] [] [] [] [] [] [] []]; vm_compute; intros H; (reflexivity || discriminate).
Qed.

Lemma expand_tabs_from_nontab col c r :
  ceq c tab = false ->
  expand_tabs_from col (String c r) = String c (expand_tabs_from (Nat.modulo (S col) 8) r).
Proof. intros H. cbn [expand_tabs_from]. now rewrite H. Qed.

Lemma five_ws_short n c x : n < 5 -> is_ws c = false -> five_ws (spaces n ++ String c x) = false.
Proof.
  intros H Hc.
  do 5 (destruct n as [|n];
        [destruct x as [|? [|? [|? [|? ?]]]]; cbn; rewrite ?Hc, ?andb_false_r; reflexivity|]).
  lia.
Qed.

Lemma has5_short n r : n < 5 -> (r = "" \/ starts_ws r = false) -> has5 (spaces n ++ r) = false.
Proof.
  intros H Hr. unfold has5, expand_tabs.
  destruct r as [|c r].
  - do 5 (destruct n as [|n]; [reflexivity|]). lia.
  - destruct Hr as [Hr|Hr]; [discriminate|]. simpl in Hr. pose proof (nows_not_tab c Hr) as Ht.
    assert (E : forall col, exists x, expand_tabs_from col (spaces n ++ String c r) = spaces n ++ String c x).
    { clear H. induction n as [|n IH]; intros col.
      - cbn [spaces append]. rewrite (expand_tabs_from_nontab _ _ _ Ht). eexists; reflexivity.
      - cbn [spaces append]. rewrite expand_tabs_from_nontab by reflexivity.
        destruct (IH (Nat.modulo (S col) 8)) as [x ->]. eexists; reflexivity. }
    destruct (E 0) as [x ->]. now apply five_ws_short.
Qed.

(* comment lines *)
Lemma span_ws_token g t r :
  all_chars is_ws g = true -> is_token t -> span is_ws (g ++ t ++ r) = (g, t ++ r).
Proof.
  intros Hg [Hne Ht]. induction g as [|c g IH].
  - destruct t as [|c t]; [contradiction|]. simpl in *.
    apply andb_true_iff in Ht. destruct Ht as [Hc _]. apply negb_true_iff in Hc. now rewrite Hc.
  - simpl in *. apply andb_true_iff in Hg. destruct Hg as [Hc Hg]. now rewrite Hc, (IH Hg).
Qed.

Lemma length_ws_span_le g : forall n, String.length g <= n -> Nat.leb (String.length g) n = true.
Proof. intros n H. now apply Nat.leb_le. Qed.

Lemma is_comment_token_line g t r :
  all_chars is_ws g = true -> is_token t -> t <> "c" -> t <> "C" -> is_comment (g ++ t ++ r) = false.
Proof.
  intros Hg Ht Hc1 Hc2. unfold is_comment. rewrite (span_ws_token _ _ _ Hg Ht).
  destruct Ht as [Hne Ht]. destruct t as [|c t]; [contradiction|]. cbn [append].
  destruct (ceq c "c" || ceq c "C") eqn:E; [|now rewrite andb_false_r].
  destruct t as [|d t].
  - exfalso. apply orb_true_iff in E. unfold ceq in E.
    destruct E as [E|E]; apply Ascii.eqb_eq in E; subst; contradiction.
  - simpl in Ht. apply andb_true_iff in Ht. destruct Ht as [_ Ht].
    apply andb_true_iff in Ht. destruct Ht as [Hd _]. apply negb_true_iff in Hd.
    cbn [append]. rewrite Hd. now rewrite !andb_false_r.
Qed.

Lemma is_comment_c g r :
  all_chars is_ws g = true -> String.length g <= 4 -> (r = "" \/ starts_ws r = true) ->
  is_comment (g ++ String "c" r) = true /\ is_comment (g ++ String "C" r) = true.
Proof.
  intros Hg Hl Hr.
  assert (S : forall x, is_ws x = false -> span is_ws (g ++ String x r) = (g, String x r)).
  { intros x Hx. clear Hl. induction g as [|c g IH]; simpl in *; [now rewrite Hx|].
    apply andb_true_iff in Hg. destruct Hg as [Hc Hg]. now rewrite Hc, (IH Hg). }
  unfold is_comment. rewrite !S by reflexivity.
  apply Nat.leb_le in Hl. rewrite Hl.
  destruct Hr as [->|Hr]; [split; reflexivity|]. destruct r as [|d r]; [discriminate|].
  simpl in Hr. cbn. rewrite Hr. split; reflexivity.
Qed.

(* ---- cards laid out token by token ---- *)
Definition lcard := list (list string * pline).
Definition lc_pcard (c : lcard) : pcard := map (fun p => (fst p, line_text (snd p))) c.
Definition lc_lines (c : lcard) : list pline := map snd c.
Definition lc_toks (c : lcard) : list string := flat_map ptoks (lc_lines c).

(* the first token of the line, if any, is not a lone c *)
Definition not_c (l : pline) : Prop :=
  match p_items l with
  | it :: _ => snd it <> "c" /\ snd it <> "C"
  | [] => True
  end.

Definition trailer_continues (l : pline) : bool := amp_scan (p_trailer l) false.

Definition noline : pline := mk_pline [] "" "".

Fixpoint lconts_ok (prev : pline) (c : lcard) : Prop :=
  match c with
  | [] => True
  | p :: r => comment_lines (fst p) /\ line_ok (snd p) /\ not_c (snd p) /\
              (has5 (line_text (snd p)) = true \/ trailer_continues prev = true) /\
              lconts_ok (snd p) r
  end.

Definition llast (prev : pline) (c : lcard) : pline := last (lc_lines c) prev.

Fixpoint lblock_ok (prev : pline) (cs : list lcard) : Prop :=
  match cs with
  | [] => True
  | [] :: _ => False
  | (p :: r) :: more =>
      comment_lines (fst p) /\ line_ok (snd p) /\ not_c (snd p) /\
      has5 (line_text (snd p)) = false /\ trailer_continues prev = false /\
      lconts_ok (snd p) r /\ lblock_ok (llast (snd p) r) more
  end.

Lemma span_ws_all g r :
  all_chars is_ws g = true -> (r = "" \/ starts_ws r = false) -> span is_ws (g ++ r) = (g, r).
Proof.
  intros Hg Hr. induction g as [|c g IH].
  - destruct r as [|c r]; [reflexivity|]. destruct Hr as [Hr|Hr]; [discriminate|].
    simpl in *. now rewrite Hr.
  - simpl in *. apply andb_true_iff in Hg. destruct Hg as [Hc Hg]. now rewrite Hc, (IH Hg).
Qed.

Lemma not_comment_line l : line_ok l -> not_c l -> is_comment (line_text l) = false.
Proof.
  intros (Hi & Hg & Hf & Ht) Hc. unfold not_c in Hc. unfold line_text, body.
  destruct (p_items l) as [|it its].
  - cbn [items_text append].
    assert (E : span is_ws (p_final l ++ p_trailer l) = (p_final l, p_trailer l)).
    { apply span_ws_all; [exact Hf|]. destruct Ht as [->|(c & r & -> & Hs)]; [now left|right].
      simpl. destruct (is_ws c) eqn:Ew; [|reflexivity].
      rewrite (ws_not_trailer c Ew) in Hs. discriminate. }
    unfold is_comment. rewrite E. destruct Ht as [->|(c & r & -> & Hs)]; [now rewrite andb_false_r|].
    unfold is_trailer_start, ceq in Hs. apply orb_true_iff in Hs.
    destruct Hs as [Hs|Hs]; apply Ascii.eqb_eq in Hs; subst; now rewrite andb_false_r.
  - inversion Hi as [|? ? [Hgw [Hne Hcl]] _]; subst. destruct Hc as [Hc1 Hc2].
    cbn [items_text]. rewrite !sapp_assoc.
    apply is_comment_token_line; auto. now apply clean_token.
Qed.

Lemma noline_ok : line_ok noline.
Proof.
  unfold line_ok, noline. cbn. split; [constructor|]. split; [constructor|].
  split; [reflexivity|now left].
Qed.

Lemma is_cont_lines l prev :
  line_ok prev -> is_cont (line_text l) (line_text prev) = has5 (line_text l) || trailer_continues prev.
Proof. intros Hp. unfold is_cont, trailer_continues. now rewrite (amp_cont_line prev Hp). Qed.

Lemma lconts_conts prev c :
  line_ok prev -> lconts_ok prev c -> conts_ok (line_text prev) (lc_pcard c).
Proof.
  revert prev. induction c as [|p r IH]; intros prev Hp H; [exact I|].
  destruct H as (Hc & Hl & Hn & Hk & Hr). cbn [lc_pcard map conts_ok fst snd].
  repeat split; auto.
  - now apply not_comment_line.
  - rewrite (is_cont_lines _ _ Hp). destruct Hk as [-> | ->]; [reflexivity|apply orb_true_r].
Qed.

Lemma lconts_lines_ok prev c : lconts_ok prev c -> Forall line_ok (lc_lines c).
Proof.
  revert prev. induction c as [|p r IH]; intros prev H; [constructor|].
  destruct H as (_ & Hl & _ & _ & Hr). constructor; [exact Hl|exact (IH _ Hr)].
Qed.

Lemma last_line_text prev c :
  last_line (line_text prev) (lc_pcard c) = line_text (llast prev c).
Proof.
  unfold last_line, llast, pc_lines, lc_pcard, lc_lines. rewrite map_map. cbn [snd].
  revert prev. induction c as [|p r IH]; intros prev; [reflexivity|].
  cbn [map]. rewrite !last_cons. apply IH.
Qed.

Lemma llast_ok prev c : line_ok prev -> Forall line_ok (lc_lines c) -> line_ok (llast prev c).
Proof.
  unfold llast. revert prev. induction (lc_lines c) as [|l ls IH]; intros prev Hp H; [exact Hp|].
  rewrite last_cons. inversion H; subst. now apply IH.
Qed.

Lemma lblock_block prev cs :
  line_ok prev -> lblock_ok prev cs -> block_ok (line_text prev) (map lc_pcard cs).
Proof.
  revert prev. induction cs as [|c more IH]; intros prev Hp H; [exact I|].
  destruct c as [|p r]; [contradiction|].
  destruct H as (Hc & Hl & Hn & H5 & Ha & Hr & Hm).
  cbn [map lc_pcard block_ok fst snd]. fold (lc_pcard r). repeat split; auto.
  - now apply not_comment_line.
  - rewrite (is_cont_lines _ _ Hp), H5, Ha. reflexivity.
  - now apply lconts_conts.
  - rewrite last_line_text. apply IH; [|exact Hm].
    apply llast_ok; [exact Hl|]. exact (lconts_lines_ok _ _ Hr).
Qed.

Lemma lblock_lines_ok prev cs : lblock_ok prev cs -> Forall (fun c => Forall line_ok (lc_lines c)) cs.
Proof.
  revert prev. induction cs as [|c more IH]; intros prev H; [constructor|].
  destruct c as [|p r]; [contradiction|]. destruct H as (_ & Hl & _ & _ & _ & Hr & Hm).
  constructor; [|exact (IH _ Hm)]. cbn [lc_lines map]. constructor; [exact Hl|].
  exact (lconts_lines_ok _ _ Hr).
Qed.

Definition card_content_form (c : lcard) : string :=
  pad (starts_ws (joined (lc_lines c))) ++ join " " (lc_toks c)
  ++ pad (ends_ws (joined (lc_lines c)) && nonnil (lc_toks c)).

(* the composition: physical lines of a block -> contents of its cards *)
Theorem cards_layout cs tailc :
  lblock_ok noline cs -> comment_lines tailc ->
  map content (get_cards_lines (flat_map pc_phys (map lc_pcard cs) ++ tailc)%list)
  = map card_content_form cs.
Proof.
  intros H Ht.
  pose proof (lblock_block noline cs noline_ok H) as Hb. change (line_text noline) with "" in Hb.
  rewrite (cards_grouping _ _ Hb Ht). rewrite !map_map.
  pose proof (lblock_lines_ok _ _ H) as Hl. clear -Hl.
  induction Hl as [|c more Hc _ IH]; [reflexivity|]. cbn [map]. rewrite IH. f_equal.
  unfold pc_lines, lc_pcard. rewrite map_map. cbn [snd].
  replace (map (fun x => line_text (snd x)) c) with (map line_text (lc_lines c))
    by (unfold lc_lines; now rewrite map_map).
  exact (content_layout _ Hc).
Qed.

Corollary cards_layout_words cs tailc :
  lblock_ok noline cs -> comment_lines tailc ->
  map words (map content (get_cards_lines (flat_map pc_phys (map lc_pcard cs) ++ tailc)%list))
  = map lc_toks cs.
Proof.
  intros H Ht. rewrite (cards_layout _ _ H Ht). rewrite map_map.
  pose proof (lblock_lines_ok _ _ H) as Hl. clear -Hl.
  induction Hl as [|c more Hc _ IH]; [reflexivity|]. cbn [map]. rewrite IH. f_equal.
  unfold card_content_form. apply words_padded. now apply ptoks_tokens.
Qed.
